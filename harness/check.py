#!/venv/bin/python
"""check.py <Cxx> [--tier quick|thorough] [--replay file]  --  one property check (DESIGN.md section 3).
exit 0: property held on everything explored; exit 1 + 'VIOLATION property=<id> replay=<path>'; exit 2: harness error."""
import argparse
import importlib
import json
import os
import sys
import traceback

sys.path.insert(0, os.path.dirname(os.path.abspath(__file__)))


def main():
    ap = argparse.ArgumentParser()
    ap.add_argument('pid')
    ap.add_argument('--tier', default=os.environ.get('VERIF_TIER', 'quick'))
    ap.add_argument('--replay')
    a = ap.parse_args()
    seed = int(os.environ.get('VERIF_SEED', '0') or 0)
    from sgzv import core
    ctx = core.Ctx(a.pid, a.tier, seed)
    try:
        from sgzv import anchors
        ctx.anchor = anchors.status(a.pid)
        if ctx.anchor['changed']:
            ctx.boost = {'C12': 2, 'C16': 2, 'C01': 3}.get(a.pid, 4)   # (the slow checks stay within a few minutes)
            ctx.notes.append('anchored source differs from the tree the model was validated against '
                             f"({ctx.anchor['recorded_at']}): {ctx.anchor['changed']}; quick counts x{ctx.boost}")
        mod = importlib.import_module(f'sgzv.props.{a.pid.lower()}')
        audit = core.lean_audit(a.pid, thorough=(a.tier == 'thorough'))
        if a.replay:
            rp = json.load(open(a.replay))
            mod.replay(ctx, rp)
        else:
            try:
                mod.run(ctx)
            except Exception as e:  # noqa
                # an exception that escapes a check from inside the library (an unguarded call on a generated, in-scope
                # input that the validated tree answers) is a failing input, not a harness error; anything else is ours
                frames = traceback.extract_tb(e.__traceback__)
                lib = [f for f in frames if os.sep + 'seismic_zfp' + os.sep in f.filename and os.sep + 'harness' + os.sep not in f.filename]
                if not lib:
                    raise
                traceback.print_exc()
                where = [f for f in frames if os.sep + 'sgzv' + os.sep in f.filename][-1:]
                ctx.fail(f'library call raised {type(e).__name__}: {str(e)[:160]} (at {os.path.basename(lib[-1].filename)}:{lib[-1].lineno}'
                         + (f', called from {os.path.basename(where[0].filename)}:{where[0].lineno} {where[0].line}' if where else '') + ')'
                         ' - a call the check makes on every run and the validated tree answers',
                         {'exception': type(e).__name__, 'message': str(e)[:400], 'seed': seed, 'tier': a.tier,
                          'traceback': traceback.format_exception(type(e), e, e.__traceback__)[-6:]})
        code = core.finish(ctx, audit, mod.ASSUMPTIONS, mod.RULE, getattr(mod, 'extra_coverage', lambda c: None)(ctx))
    except Exception:
        traceback.print_exc()
        print(f'[{a.pid}] HARNESS ERROR (exit 2)')
        code = 2
    finally:
        ctx.cleanup()
    sys.exit(code)


if __name__ == '__main__':
    main()
