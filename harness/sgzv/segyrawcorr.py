"""Correspondence of Model/SegyRaw with the converter's reduce_iops route: the range reads issued on the SEG-Y file through
`conversion_utils.open` (the MinimalInlineReader's handle and the file-header copy) vs the model's list."""
import builtins
import contextlib

import seismic_zfp.conversion_utils as cu


class _Wrap:
    def __init__(self, f, log):
        self.f, self.log = f, log

    def seek(self, off, whence=0):
        return self.f.seek(off, whence)

    def read(self, n=-1):
        pos = self.f.tell()
        b = self.f.read(n)
        self.log.append((pos, n))
        return b

    def tell(self):
        return self.f.tell()

    def close(self):
        return self.f.close()

    def __enter__(self):
        return self

    def __exit__(self, *a):
        self.f.close()
        return False


@contextlib.contextmanager
def logged_reads():
    log = []

    def lopen(path, mode='r', *a, **k):
        f = builtins.open(path, mode, *a, **k)
        return _Wrap(f, log) if ('b' in mode and 'r' in mode and '+' not in mode) else f
    cu.open = lopen
    try:
        yield log
    finally:
        del cu.open


def check(ctx, model, log, n, b0, desc):
    req = f'segyraw {n[0]} {n[1]} {n[2]} {b0}'
    ctx.stats['corr_requests'] += 1
    ctx.stats['segyraw_conversions'] += 1
    ans = model.ask(req)
    real = ','.join(f'{o}:{l}' for o, l in log)
    if ans != real:
        m, r = ans.split(','), real.split(',')
        first = next((i for i in range(min(len(m), len(r))) if m[i] != r[i]), min(len(m), len(r)))
        ctx.corr_fail('Model.SegyRaw', req, {'reads': len(m), 'first_diff': first, 'model': m[first:first + 2]},
                      {'reads': len(r), 'impl': r[first:first + 2]}, desc)
        return False
    return True
