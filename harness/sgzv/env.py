"""Process-wide environment for every check: imports seismic_zfp from /repo's *current working tree*,
pins the version string the writers stamp (the sandbox checkout is untagged, and the reader's conventions
are gated on the version word), silences the library's progress prints.

Nothing in /repo is patched: only `pkg_resources.get_distribution` (a third-party library function)."""
import contextlib
import io
import os
import sys
import types
import warnings

REPO = os.environ.get('SGZ_REPO', '/repo')
VERIF = os.path.dirname(os.path.dirname(os.path.dirname(os.path.abspath(__file__))))
GUARD = 'SEISMIC_ZFP_VERIF'
os.environ.setdefault(GUARD, '1')
if REPO not in sys.path:
    sys.path.insert(0, REPO)
warnings.filterwarnings('ignore')

import pkg_resources  # noqa: E402

PINNED_VERSION = [os.environ.get('SGZ_VER', '0.2.9')]
_orig_get_distribution = pkg_resources.get_distribution


def _get_distribution(name):
    if str(name).replace('-', '_') == 'seismic_zfp':
        return types.SimpleNamespace(version=PINNED_VERSION[0])
    return _orig_get_distribution(name)


pkg_resources.get_distribution = _get_distribution

import numpy as np  # noqa: E402,F401
import segyio  # noqa: E402,F401
import zfpy  # noqa: E402,F401
import seismic_zfp  # noqa: E402

assert os.path.realpath(seismic_zfp.__file__).startswith(os.path.realpath(REPO)), seismic_zfp.__file__


@contextlib.contextmanager
def pinned_version(v):
    old = PINNED_VERSION[0]
    PINNED_VERSION[0] = v
    try:
        yield
    finally:
        PINNED_VERSION[0] = old


def quiet(f, *a, **k):
    """Call f with stdout swallowed (the library prints progress lines)."""
    with contextlib.redirect_stdout(io.StringIO()):
        return f(*a, **k)


class Quiet(contextlib.redirect_stdout):
    def __init__(self):
        super().__init__(io.StringIO())
