"""Correspondence of Model/HeaderReads with the real reader: histories of gen_trace_header / get_tracefield_values /
clear_variant_headers on one reader of a synthetic file whose footer arrays encode their own position
(array k holds (k+1)*10^6 + p + 1 at grid slot p, 0 at holes): per call outcome, digest of the values, range reads issued."""
import numpy as np

from . import spec, iolog, symcodec, histcorr
from seismic_zfp.read import SgzReader  # noqa: E402

P = 2147483647


def digest_int(vals):
    return histcorr.digest(np.asarray(vals, dtype=np.int64) + 2 ** 31)   # as Main.lean digestInt


def make_file(path, rng, kind):
    """kind: 'regular' | 'irregular' | '2d'.  Returns dict describing the file for the model request."""
    if kind in ('2d', '2d-const'):
        n = (1, int(rng.integers(3, 12)), 8)
        lay = spec.Layout(n, (1, 16, 512), 16, is2d=True)
        grid = n[1]
    else:
        n = (int(rng.integers(2, 6)), int(rng.integers(2, 6)), 8)
        lay = spec.Layout(n, (4, 4, 512), 16)
        grid = n[0] * n[1]
    holes = []
    if kind == 'irregular':
        holes = sorted(set(int(v) for v in rng.choice(grid, size=max(1, grid // 4), replace=False)))
        if len(holes) >= grid:
            holes = holes[:-1]
    # stored fields (table order), a duplicate and some constants
    stored = sorted(set([189, 193] + [int(c) for c in rng.choice([1, 5, 9, 21, 73, 77, 181, 185], size=int(rng.integers(0, 4)), replace=False)]))
    if kind == '2d':
        stored = sorted(set(int(c) for c in rng.choice([1, 5, 9, 21, 73, 77, 181, 185], size=int(rng.integers(1, 4)), replace=False)))
    if kind == '2d-const':
        stored = []          # every header field constant: no footer array at all
    arrays = {}
    for k, code in enumerate(stored):
        a = (k + 1) * 1000000 + np.arange(grid) + 1
        a[holes] = 0
        arrays[code] = a
    # header values that happen to be zero at populated slots (zero-based line numbers, counters from 0, a grid through
    # the origin); on irregular files not in the inline-number array, where zero *means* a hole
    zeros = []
    if stored and rng.random() < .6:
        ks = [k for k, code in enumerate(stored) if not (kind == 'irregular' and code == 189)]
        free = [q for q in range(grid) if q not in holes]
        for _ in range(int(rng.integers(1, 4))):
            if ks and free:
                zeros.append((int(rng.choice(ks)) if rng.random() < .5 else ks[0], int(rng.choice(free + [free[0], free[-1]]))))
        zeros = sorted(set(zeros))
        for k, q in zeros:
            arrays[stored[k]][q] = 0
    consts = {115: 8, 117: 4000}
    dups = {197: stored[0]} if stored and rng.random() < .5 and 197 not in stored else {}
    spec.build_file(path, lay, spec.version_encode(0, 2, 9, True), il=(5, 1), xl=(7, 1), z=(0, 4000), arrays=arrays, consts=consts,
                    dups=dups, tracecount=grid - len(holes))
    h, _ = spec.read_header(path)
    rows = []
    for code in spec.FIELDS:
        if code in arrays:
            rows.append(f'0:{spec.FIELDS.index(code) + 1}')
        elif code in dups:
            rows.append(f'0:{spec.FIELDS.index(dups[code]) + 1}')
        else:
            rows.append(f'{consts.get(code, 0)}:0')
    return dict(kind=kind, grid=grid, holes=holes, zeros=zeros, stored=stored, dups=dups, rows=rows, footer=h.footer_offset(0), stride=h.stride,
                len=h.array_bytes, is3d=kind not in ('2d', '2d-const'), structured=(kind == 'regular'), n=n)


def io_problems(fd, op, log):
    """the header clause of C07 on the range reads one call issued, judged on the real code alone: a header of a regular
    file costs 4 bytes per stored array; nothing outside the footer arrays is touched.  (Whole-array loads may fetch the
    array shared by duplicate fields once per field: the property's no-byte-twice clause is about sample reads.)"""
    probs = []
    n_arrays = len(fd['stored'])
    lo, hi = fd['footer'], fd['footer'] + n_arrays * fd['stride']
    for (o, l) in log:
        if not (lo <= o and o + l <= hi):
            probs.append(f'{op}: header look-up read [{o}, {o + l}) outside the footer arrays [{lo}, {hi})')
    if op[0] == 'hdr' and fd['structured']:
        if any(l != 4 for (_, l) in log) or len(log) > n_arrays:
            probs.append(f'{op}: a header of a regular file must cost 4 bytes per stored array ({n_arrays} arrays); '
                         f'read {sum(l for _, l in log)} bytes in {len(log)} reads')
    return probs[:2]


def expected(fd, op):
    """what the file defines as the result of a header / tracefield read, from the way the file was built (independent of
    the Lean model and of the reader): ('ok', values) | ('err', 'index' | 'other')"""
    grid, holes, stored = fd['grid'], set(fd['holes']), fd['stored']
    src = {c: c for c in stored}
    src.update(fd['dups'])
    if op[0] in ('hdr', 'hdrall'):
        t = op[1]
        if fd['is3d'] and not 0 <= t < grid:
            return ('err', 'index')
        if fd['is3d'] and not fd['structured']:
            pos = [p for p in range(grid) if p not in holes]
            if t >= len(pos):
                return ('err', 'index')
            slot = pos[t]
        else:
            if t >= grid:
                return ('err', 'index')
            slot = t
        consts = {115: 8, 117: 4000}
        zeros = set(fd.get('zeros', []))
        return ('ok', [(0 if (stored.index(src[c]), slot) in zeros else (stored.index(src[c]) + 1) * 1000000 + slot + 1)
                       if c in src else consts.get(c, 0) for c in spec.FIELDS])
    if op[0] == 'tfv':
        if op[1] not in src:
            return ('err', 'other')
        k = stored.index(src[op[1]])
        zeros = set(fd.get('zeros', []))
        return ('ok', [0 if p in holes or (k, p) in zeros else (k + 1) * 1000000 + p + 1 for p in range(grid)])
    return None


def enumerate_short_histories(ctx, model, path, fd, desc, depth):
    """every history  a [b] target  over a small alphabet of header operations (both padding modes, one-field loads,
    tracefield reads, clear) on one file: the directed part of the search for a failing input"""
    T = fd['grid'] - len(fd['holes'])
    if not fd['stored']:
        for ops in ([('hdr', 0), ('hdr', T - 1), ('hdr', T), ('hdr', T + 5), ('hdrall', T), ('tfv', 1)],
                    [('rvh', True), ('hdr', T), ('hdr', 0)], [('clear',), ('hdr', T + 1)]):
            run_history(ctx, model, path, fd, ops, dict(desc, directed=True))
        ctx.stats['directed_header_histories'] += 3
        return
    f0 = fd['stored'][0]
    alpha = [None, ('rvh', False), ('rvh', True), ('rvh1', False, f0), ('rvh1', True, fd['stored'][-1]), ('tfv', f0),
             ('hdr', 0), ('hdrall', max(T - 1, 0)), ('clear',)]
    targets = [('hdr', 0), ('hdr', T - 1), ('hdr', T), ('hdr', fd['grid']), ('hdrall', T - 1), ('tfv', fd['stored'][-1])]
    n = 0
    for a in alpha:
        for b in (alpha if depth >= 3 else [None]):
            ops = [o for o in (a, b) if o is not None] + targets
            n += 1
            run_history(ctx, model, path, fd, ops, dict(desc, directed=True))
    ctx.stats['directed_header_histories'] += n


def run_history(ctx, model, path, fd, ops, desc):
    """ops: list of ('hdr', t) | ('hdrall', t) | ('tfv', code) | ('rvh', pad) | ('rvh1', pad, code) | ('clear',)"""
    head = (f"hhist {fd['grid']} {1 if fd['is3d'] else 0} {1 if fd['structured'] else 0} {fd['footer']} {fd['stride']} {fd['len']} "
            f"{spec.FIELDS.index(189)} ; {' '.join(fd['rows'])} ; {' '.join([str(p) for p in fd['holes']] + ['z%d:%d' % z for z in fd.get('zeros', [])])}")
    lines, impl = [], []
    with symcodec.symbolic_decoder():
        hdl = iolog.LoggedFile(path)
        r = SgzReader(hdl)
        try:
            for op in ops:
                hdl.log.clear()
                try:
                    if op[0] == 'hdr':
                        lines.append(f'hdr {op[1]}')
                        d = r.gen_trace_header(op[1])
                        vals = [int(d[c]) for c in spec.FIELDS]
                    elif op[0] == 'hdrall':
                        lines.append(f'hdrall {op[1]}')
                        d = r.gen_trace_header(op[1], load_all_headers=True)
                        vals = [int(d[c]) for c in spec.FIELDS]
                    elif op[0] == 'rvh':
                        lines.append(f'rvh {int(op[1])}')
                        r.read_variant_headers(include_padding=bool(op[1]))
                        vals = []
                    elif op[0] == 'rvh1':
                        lines.append(f'rvh1 {int(op[1])} {spec.FIELDS.index(op[2])}')
                        r.read_variant_headers(include_padding=bool(op[1]), tracefields=[op[2]])
                        vals = []
                    elif op[0] == 'tfv':
                        lines.append(f'tfv {spec.FIELDS.index(op[1])}')
                        vals = [int(v) for v in np.asarray(r.get_tracefield_values(op[1])).ravel()]
                    else:
                        lines.append('clear')
                        r.clear_variant_headers()
                        impl.append('err other')
                        continue
                    exp = expected(fd, op)
                    if exp is not None and ctx.pid in ('C08', 'C14', 'C15') and exp != ('ok', vals):
                        ctx.fail(f'{op} after {lines[:-1][-5:]} returned values that are not those the file stores for it '
                                 f'(expected {exp[0]} {str(exp[1])[:60]})', dict(desc, ops=lines[-8:]))
                    if ctx.pid == 'C07':
                        for prob in io_problems(fd, op, [(o, l) for (o, l, _) in hdl.log]):
                            ctx.fail(prob, dict(desc, ops=lines[-6:]))
                    fs = ','.join(f'{o}:{l}' for (o, l, _) in hdl.log)
                    impl.append(f'ok {len(vals)} {digest_int(vals)} {fs}'.rstrip() if fs else f'ok {len(vals)} {digest_int(vals)} ')
                except (IndexError, KeyError, AssertionError) as e:
                    cls = {IndexError: 'index', KeyError: 'other', AssertionError: 'assertion'}[type(e)]
                    impl.append('err ' + cls)
                    exp = expected(fd, op)
                    if exp is not None and ctx.pid in ('C08', 'C14', 'C15') and exp != ('err', cls):
                        ctx.fail(f'{op} after {lines[:-1][-5:]} raised {type(e).__name__}; the file defines {exp[0]} '
                                 f'{str(exp[1])[:60]}', dict(desc, ops=lines[-8:]))
        finally:
            r.close()
    ctx.stats['corr_requests'] += 1
    ans = model.ask(head + ' ; ' + ' ; '.join(lines))
    m = [x.strip() for x in ans.split(' ; ')] if ans != 'bad-op' else None
    im = [x.strip() for x in impl]
    if m != im:
        first = None if m is None else next((j for j in range(min(len(m), len(im))) if m[j] != im[j]), None)
        ctx.corr_fail('Model.HeaderReads', (head + ' ; ' + ' ; '.join(lines))[:500],
                      None if m is None else {'first_diff': first, 'model': m[first][:200] if first is not None else len(m)},
                      {'impl': im[first][:200] if first is not None else len(im), 'ops_before': lines[max(0, (first or 0) - 4):(first or 0) + 1]},
                      desc)
        return False
    return True
