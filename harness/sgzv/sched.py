"""Controlled scheduler for the real writer pipeline (conversion_utils.run_conversion_loop).

Library-level patching only: queue.Queue.{__init__,put,get,task_done,join}, threading.Thread.start and builtins.open
(for the one output path).  Exactly one controlled thread runs at a time; at every queue operation, thread start
and file write the running thread yields, and a strategy picks the next among the *enabled* ones (enabledness from
a shadow of each queue's size / unfinished-task counter).  The trace (thread, op, enabled set) is what the Lean
model replays."""
import builtins
import queue
import threading

from . import env


class Deadlock(Exception):
    pass


class Sched:
    def __init__(self, choose, force_cap=None):
        self.lock = threading.Condition()
        self.pending = {}
        self.current = None
        self.names = {}
        self.qnames = {}
        self.shadow = {}
        self.trace = []
        self.choose = choose
        self.active = True
        self.finished = False
        self.deadlock = False
        self.nthreads_expected = 1
        self.force_cap = force_cap
        self.writes = []          # (thread name, position, length, during_loop)
        self.loop_returned = False
        self.late_writes = []

    def tid(self):
        return self.names.get(threading.get_ident())

    def register_queue(self, q):
        name = f"Q{len(self.qnames) + 1}"
        self.qnames[id(q)] = name
        self.shadow[name] = dict(size=0, cap=q.maxsize, unf=0)
        return name

    def enabled(self, tid):
        op, qn = self.pending[tid]
        if qn is None:
            return True
        sh = self.shadow[qn]
        if op == 'put':
            return sh['cap'] <= 0 or sh['size'] < sh['cap']
        if op == 'get':
            return sh['size'] > 0
        if op == 'join':
            return sh['unf'] == 0
        return True

    def apply(self, tid):
        op, qn = self.pending[tid]
        if qn is None:
            return
        sh = self.shadow[qn]
        if op == 'put':
            sh['size'] += 1
            sh['unf'] += 1
        elif op == 'get':
            sh['size'] -= 1
        elif op == 'task_done':
            sh['unf'] -= 1

    def _pick(self):
        en = sorted(t for t in self.pending if self.enabled(t))
        if not en:
            self.trace.append(('DEADLOCK', None, None, ()))
            self.deadlock = True
            self.current = None
            self.finished = True
            self.lock.notify_all()
            return
        t = self.choose(en, self.pending, len(self.trace))
        if t not in en:
            t = en[0]
        op, qn = self.pending[t]
        self.trace.append((t, op, qn, tuple(en)))
        self.apply(t)
        self.current = t
        self.lock.notify_all()

    def yield_point(self, op, q=None):
        tid = self.tid()
        if tid is None or not self.active:
            return
        qn = None
        if q is not None:
            qn = self.qnames.get(id(q)) or self.register_queue(q)
        with self.lock:
            self.pending[tid] = (op, qn)
            if self.current == tid:
                self.current = None
            if self.current is None and len(self.pending) == self.nthreads_expected:
                self._pick()
            while self.current != tid:
                if self.finished and self.current is None:
                    if tid == 'M':
                        raise Deadlock()
                    raise SystemExit
                self.lock.wait(timeout=2)
            del self.pending[tid]

    def end_main(self):
        with self.lock:
            self.finished = True
            self.active = False
            self.current = None
            self.loop_returned = True
            self.lock.notify_all()


class Deferred:
    """a compression whose reading of the input buffer is postponed to the latest moment a real execution allows: just
    before the compressor hands the result on (its `put`).  A buffer that another thread changes between its hand-over
    and that moment (a re-used plane-set buffer) then shows in the output, as it can in a real run."""
    def __init__(self, fn, arr, kw):
        self.fn, self.arr, self.kw = fn, arr, kw

    def resolve(self):
        return self.fn(self.arr, **self.kw)


class LogFile:
    """the output file: writes are yield points (while the pipeline runs) and are logged with the writing thread"""
    def __init__(self, path, mode, s, real_open):
        self.f = real_open(path, mode)
        self.name = path
        self.s = s

    def write(self, b):
        s = self.s
        who = s.tid() or 'other'
        if s.active and s.tid() is not None:
            s.yield_point('write')
        rec = (who, self.f.tell(), len(b))
        if s.loop_returned and who != 'M':
            s.late_writes.append(rec)
        s.writes.append(rec + (not s.loop_returned,))
        return self.f.write(b)

    def flush(self):
        # run_conversion_loop calls flush() right after both joins: the controlled region ends here
        if self.s.tid() == 'M' and self.s.active:
            self.s.end_main()
        return self.f.flush()

    def close(self):
        return self.f.close()

    def __enter__(self):
        return self

    def __exit__(self, *a):
        self.close()

    def __getattr__(self, k):
        return getattr(self.f, k)


def run_controlled(fn, out_path, choose, force_cap=None, timeout=60):
    """run fn() (a public converter call writing out_path) under the scheduler; returns the Sched"""
    s = Sched(choose, force_cap)
    Q = queue.Queue
    orig = {n: getattr(Q, n) for n in ('put', 'get', 'task_done', 'join', '__init__')}
    orig_start = threading.Thread.start
    real_open = builtins.open

    def mk(name):
        o = orig[name]

        def f(self, *a, **k):
            if s.active and s.tid() is not None:
                s.yield_point(name, self)
            if name == 'put' and a and isinstance(a[0], Deferred):
                a = (a[0].resolve(),) + tuple(a[1:])
            return o(self, *a, **k)
        return f

    def q_init(self, maxsize=0):
        if s.active and s.tid() is not None and s.force_cap is not None:
            maxsize = s.force_cap
        return orig['__init__'](self, maxsize)

    def start(self):
        if s.active and s.tid() is not None:
            s.yield_point('start')
            tn = getattr(self._target, '__name__', '')
            nm = 'C' if 'compress' in tn else ('W' if 'writer' in tn else f'T{len(s.names)}')
            if nm in s.names.values():
                nm = nm + str(len(s.names))   # a second thread of the same kind (not in the model)
            run0 = self.run

            def run():
                s.names[threading.get_ident()] = nm
                try:
                    run0()
                except SystemExit:
                    pass
            self.run = run
            with s.lock:
                s.nthreads_expected += 1
            orig_start(self)
            with s.lock:
                while nm not in s.pending and s.active:
                    s.lock.wait(timeout=0.01)
            return
        return orig_start(self)

    def open_(path, mode='r', *a, **k):
        if str(path) == str(out_path) and mode == 'wb' and s.tid() == 'M':
            return LogFile(path, mode, s, real_open)
        return real_open(path, mode, *a, **k)

    import zfpy
    real_compress = zfpy.compress_numpy

    def lazy_compress(arr, **kw):
        if s.active and s.tid() == 'C':
            return Deferred(real_compress, arr, kw)
        return real_compress(arr, **kw)
    zfpy.compress_numpy = lazy_compress
    for n in ('put', 'get', 'task_done', 'join'):
        setattr(Q, n, mk(n))
    Q.__init__ = q_init
    threading.Thread.start = start
    builtins.open = open_
    s.names[threading.get_ident()] = 'M'
    err = None
    try:
        env.quiet(fn)
    except Deadlock:
        err = 'deadlock'
    except Exception as e:  # noqa
        err = f'{type(e).__name__}: {str(e)[:100]}'
    finally:
        s.active = False
        with s.lock:
            s.finished = True
            s.current = None
            s.lock.notify_all()
        for n in ('put', 'get', 'task_done', 'join', '__init__'):
            setattr(Q, n, orig[n])
        zfpy.compress_numpy = real_compress
        threading.Thread.start = orig_start
        builtins.open = real_open
        s.names.pop(threading.get_ident(), None)
    s.error = err
    return s


# ---- strategies
def strat_random(seed):
    import random
    r = random.Random(seed)
    return lambda en, pend, step: r.choice(en)


def strat_prefer(order):
    def f(en, pend, step):
        for t in order:
            if t in en:
                return t
        return en[0]
    return f


def strat_alternate():
    def f(en, pend, step):
        return en[step % len(en)]
    return f


def strat_scripted(script, fallback):
    """follow `script` (string over M/C/W) while possible, then the fallback strategy"""
    def f(en, pend, step):
        if step < len(script) and script[step] in en:
            return script[step]
        return fallback(en, pend, step)
    return f
