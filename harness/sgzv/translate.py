"""Translator: selected arithmetic of /repo's Python source -> Lean definitions, regenerated on every run.

The hand-written model (lean/Sgz/Model) transcribes the offset / length / count arithmetic of the loaders, the cropper, the
re-blocker and `utils`.  For the expressions listed in SPEC this module re-derives a Lean definition *from the source text
as it is now* (Python `ast` -> Lean term over Nat or Int) and writes them to lean/Sgz/Generated/Source.lean; the theorems of
lean/Sgz/Tie/*.lean state that each generated definition equals the model's.  A change to one of these expressions changes
the generated definition, and the tie theorem of the properties that rest on it no longer checks.

Supported Python: integer constants, names, `self.attr`, `x[const]`, + - * // %, unary -, abs / min / max / int, comparisons
(chained too), and / or / not, conditional expressions, and for whole functions a body of assignments, if / elif / else and
return.  Anything else is a translation error, reported as a broken tie."""
import ast
import os

from . import env

V = os.path.dirname(os.path.dirname(os.path.dirname(os.path.abspath(__file__))))
OUT = os.path.join(V, 'lean', 'Sgz', 'Generated', 'Source.lean')


class TranslationError(Exception):
    pass


class Tr:
    def __init__(self, ty, pty=None):
        self.ty = ty            # 'Nat' | 'Int' | 'Prop' | 'String'
        self.pty = pty or ('Int' if ty == 'Prop' else ty)     # type of the parameters
        self.params = set()
        self.locals = set()

    RESERVED = {'end', 'at', 'from', 'fun', 'if', 'then', 'else', 'in', 'do', 'let', 'have', 'show', 'with', 'match', 'open',
                'section', 'namespace', 'instance', 'structure', 'class', 'def', 'theorem', 'where', 'by', 'Type', 'Prop',
                'Sort', 'variable', 'example', 'import', 'macro', 'syntax', 'deriving', 'for', 'return', 'unless', 'true',
                'false', 'max', 'min', 'pad'}

    def ref(self, node):
        r = self.ref_(node)
        return r + '_' if r in self.RESERVED else r

    def ref_(self, node):
        """a parameter name for Name / self.attr / x[const] / self.attr[const]"""
        if isinstance(node, ast.Name):
            return node.id
        if isinstance(node, ast.Attribute) and isinstance(node.value, ast.Name) and node.value.id == 'self':
            return node.attr
        if isinstance(node, ast.Attribute) and isinstance(node.value, ast.Attribute) and isinstance(node.value.value, ast.Name) \
                and node.value.value.id == 'self':
            return f'{node.value.attr}_{node.attr}'        # self.loader.block_dims -> loader_block_dims
        if isinstance(node, ast.Attribute) and isinstance(node.value, ast.Name):
            return f'{node.value.id}_{node.attr}'          # geom.xlines -> geom_xlines
        if isinstance(node, ast.Subscript):
            idx = node.slice
            if isinstance(idx, ast.UnaryOp) and isinstance(idx.op, ast.USub) and isinstance(idx.operand, ast.Constant) \
                    and isinstance(idx.operand.value, int):
                base = self.ref_(node.value)
                if base is not None:
                    return f'{base}_m{idx.operand.value}'       # x[-1] -> x_m1
            if isinstance(idx, ast.Constant) and isinstance(idx.value, int):
                base = self.ref_(node.value)
                if base is not None:
                    return f'{base}_{idx.value}'
        return None

    def expr(self, e):
        if isinstance(e, ast.Constant) and isinstance(e.value, int) and not isinstance(e.value, bool):
            return str(e.value)
        if self.ty == 'String' and isinstance(e, ast.Constant) and isinstance(e.value, str):
            return '"' + e.value.replace('\\', '\\\\').replace('"', '\\"') + '"'
        r = self.ref(e)
        if r is not None:
            if r not in self.locals:
                self.params.add(r)
            return r
        if isinstance(e, ast.BinOp):
            op = {ast.Add: '+', ast.Sub: '-', ast.Mult: '*', ast.FloorDiv: '/', ast.Mod: '%'}.get(type(e.op))
            if op is None:
                raise TranslationError(f'operator {type(e.op).__name__}')
            if self.pty == 'Int' and op in '/%':
                # Python floors: `Int.fdiv` / `Int.fmod`, whatever the signs
                return f'(Int.{"fdiv" if op == "/" else "fmod"} {self.expr(e.left)} {self.expr(e.right)})'
            return f'({self.expr(e.left)} {op} {self.expr(e.right)})'
        if isinstance(e, ast.UnaryOp) and isinstance(e.op, ast.USub):
            if self.ty == 'Nat':
                raise TranslationError('unary minus in a Nat expression')
            return f'(-{self.expr(e.operand)})'
        if isinstance(e, ast.UnaryOp) and isinstance(e.op, ast.Not):
            return f'(¬ {self.expr(e.operand)})'
        if isinstance(e, ast.Call) and isinstance(e.func, ast.Name) and not e.keywords:
            f, a = e.func.id, e.args
            if f == 'int' and len(a) == 1:
                return self.expr(a[0])
            if f == 'abs' and len(a) == 1:
                return f'((Int.natAbs {self.expr(a[0])} : Nat) : Int)' if self.ty == 'Int' else self.expr(a[0])
            if f in ('min', 'max') and len(a) == 2:
                return f'({f} {self.expr(a[0])} {self.expr(a[1])})'
            if f in ('min', 'max') and len(a) == 1 and self.ref(a[0]) is not None:
                r = f'{f}_' + self.ref(a[0])                   # min(ids) / max(ids) of a collection -> parameter
                self.params.add(r)
                return r
            if f == 'len' and len(a) == 1 and self.ref(a[0]) is not None:
                r = 'len_' + self.ref(a[0])
                self.params.add(r)
                return r
            if f == 'len' and len(a) == 1 and isinstance(a[0], ast.Call) and not a[0].args \
                    and isinstance(a[0].func, ast.Attribute) and self.ref(a[0].func.value) is not None:
                r = f'len_{self.ref(a[0].func.value)}_{a[0].func.attr}'     # len(x.tobytes())
                self.params.add(r)
                return r
            if f in ('bytes_to_int', 'bytes_to_signed_int') and len(a) == 1 and isinstance(a[0], ast.Subscript) \
                    and isinstance(a[0].slice, ast.Slice):
                lo, hi = a[0].slice.lower, a[0].slice.upper          # a 4-byte header word: its offset
                if isinstance(lo, ast.Constant) and isinstance(hi, ast.Constant) and hi.value - lo.value == 4:
                    return str(lo.value)
                raise TranslationError('header word that is not 4 constant bytes')
            if f == 'pad' and len(a) == 2:                   # utils.pad, translated above as Gen.pad
                return f'(pad {self.expr(a[0])} {self.expr(a[1])})'
            raise TranslationError(f'call of {f}')
        if isinstance(e, ast.Compare) and len(e.ops) == 1 and isinstance(e.ops[0], (ast.Is, ast.IsNot)) \
                and isinstance(e.comparators[0], ast.Constant) and e.comparators[0].value is None \
                and self.ref(e.left) is not None:
            r = self.ref(e.left) + '_given'                      # `x is not None` -> x_given : Prop
            self.params.add(r)
            return r if isinstance(e.ops[0], ast.IsNot) else f'(¬ {r})'
        if isinstance(e, ast.Compare) and len(e.ops) == 1 and isinstance(e.ops[0], (ast.In, ast.NotIn)) \
                and isinstance(e.comparators[0], (ast.List, ast.Tuple)) and e.comparators[0].elts:
            alts = ' ∨ '.join(f'{self.expr(e.left)} = {self.expr(c)}' for c in e.comparators[0].elts)   # membership in a literal list
            return f'({alts})' if isinstance(e.ops[0], ast.In) else f'(¬ ({alts}))'
        if isinstance(e, ast.Compare):
            parts, left = [], e.left
            for op, right in zip(e.ops, e.comparators):
                sym = {ast.Lt: '<', ast.LtE: '≤', ast.Gt: '>', ast.GtE: '≥', ast.Eq: '=', ast.NotEq: '≠'}.get(type(op))
                if sym is None:
                    raise TranslationError(f'comparison {type(op).__name__}')
                parts.append(f'{self.expr(left)} {sym} {self.expr(right)}')
                left = right
            return '(' + ' ∧ '.join(parts) + ')'
        if isinstance(e, ast.BoolOp):
            sym = ' ∧ ' if isinstance(e.op, ast.And) else ' ∨ '
            return '(' + sym.join(self.expr(v) for v in e.values) + ')'
        if isinstance(e, ast.IfExp):
            return f'(if {self.expr(e.test)} then {self.expr(e.body)} else {self.expr(e.orelse)})'
        raise TranslationError(f'expression {ast.dump(e)[:80]}')

    def body(self, stmts):
        """statements -> one Lean term (the returned value)"""
        if not stmts:
            raise TranslationError('fall-through without return')
        s, rest = stmts[0], stmts[1:]
        if isinstance(s, ast.Expr) and isinstance(s.value, ast.Constant) and isinstance(s.value.value, str):
            return self.body(rest)
        if isinstance(s, ast.Return):
            return self.expr(s.value)
        if isinstance(s, ast.Assign) and len(s.targets) == 1 and isinstance(s.targets[0], ast.Name):
            v = self.expr(s.value)
            nm = self.ref(s.targets[0])
            self.locals.add(nm)
            return f'(let {nm} := {v}; {self.body(rest)})'
        if isinstance(s, ast.If):
            t = self.expr(s.test)
            a = self.body(s.body)
            b = self.body(s.orelse if s.orelse else rest)
            return f'(if {t} then {a} else {b})'
        raise TranslationError(f'statement {type(s).__name__}')


def _find_function(tree, qual):
    if qual == '<module>':
        return tree
    parts = qual.split('.')
    scope = tree.body
    node = None
    for p in parts:
        node = next((n for n in scope if isinstance(n, (ast.FunctionDef, ast.ClassDef)) and n.name == p), None)
        if node is None:
            raise TranslationError(f'{qual}: {p} not found')
        scope = node.body
    return node


def _select(fn, sel):
    """sel: ('assign', target, nth) | ('callarg', callee attribute / name, nth call, arg index) | ('func',)"""
    if sel[0] == 'assign':
        hits = [n.value for n in ast.walk(fn) if isinstance(n, ast.Assign) and len(n.targets) == 1
                and isinstance(n.targets[0], ast.Name) and n.targets[0].id == sel[1]]
        hits.sort(key=lambda n: (n.lineno, n.col_offset))
        if len(hits) <= sel[2]:
            raise TranslationError(f'assignment to {sel[1]} #{sel[2]} not found')
        return hits[sel[2]]
    if sel[0] == 'callarg':
        def callee(c):
            return c.func.attr if isinstance(c.func, ast.Attribute) else (c.func.id if isinstance(c.func, ast.Name) else None)
        hits = [n for n in ast.walk(fn) if isinstance(n, ast.Call) and callee(n) == sel[1]]
        hits.sort(key=lambda n: (n.lineno, n.col_offset))
        if len(hits) <= sel[2] or len(hits[sel[2]].args) <= sel[3]:
            raise TranslationError(f'call of {sel[1]} #{sel[2]} arg {sel[3]} not found')
        return hits[sel[2]].args[sel[3]]
    if sel[0] == 'tuple':
        hits = [n for n in ast.walk(fn) if isinstance(n, ast.Assign) and len(n.targets) == 1
                and isinstance(n.targets[0], ast.Tuple) and isinstance(n.value, ast.Tuple)
                and any(isinstance(t, ast.Name) and t.id == sel[1] for t in n.targets[0].elts)]
        hits.sort(key=lambda n: (n.lineno, n.col_offset))
        if len(hits) <= sel[2]:
            raise TranslationError(f'tuple assignment to {sel[1]} #{sel[2]} not found')
        a = hits[sel[2]]
        k = [isinstance(t, ast.Name) and t.id == sel[1] for t in a.targets[0].elts].index(True)
        return a.value.elts[k]
    if sel[0] == 'assign_attr':
        hits = [n.value for n in ast.walk(fn) if isinstance(n, ast.Assign) and len(n.targets) == 1
                and isinstance(n.targets[0], ast.Attribute) and n.targets[0].attr == sel[1]]
        hits.sort(key=lambda n: (n.lineno, n.col_offset))
        if len(hits) <= sel[2]:
            raise TranslationError(f'assignment to self.{sel[1]} #{sel[2]} not found')
        return hits[sel[2]]
    if sel[0] == 'subscript':
        # ('subscript', base name, nth, dimension, 'index' | 'lower' | 'upper')
        hits = [n for n in ast.walk(fn) if isinstance(n, ast.Subscript) and isinstance(n.ctx, ast.Load)
                and ((isinstance(n.value, ast.Name) and n.value.id == sel[1])
                     or (isinstance(n.value, ast.Attribute) and n.value.attr == sel[1]))]      # x[...] or self.x[...]
        hits.sort(key=lambda n: (n.lineno, n.col_offset))
        if len(hits) <= sel[2]:
            raise TranslationError(f'subscript of {sel[1]} #{sel[2]} not found')
        sl = hits[sel[2]].slice
        dims = sl.elts if isinstance(sl, ast.Tuple) else [sl]
        if len(dims) <= sel[3]:
            raise TranslationError(f'subscript of {sel[1]} #{sel[2]} has no dimension {sel[3]}')
        d = dims[sel[3]]
        if sel[4] == 'index':
            if isinstance(d, ast.Slice):
                raise TranslationError('a slice where an index was expected')
            return d
        if not isinstance(d, ast.Slice) or d.step is not None:
            raise TranslationError('an index / stepped slice where a plain slice was expected')
        part = d.lower if sel[4] == 'lower' else d.upper
        if part is None:
            raise TranslationError(f'slice without {sel[4]} bound')
        return part
    if sel[0] == 'store':
        # ('store', buffer name, nth, 'lower' | 'upper'): a bound of the nth slice *stored into* `name` (x[a:b] = ...)
        hits = [n.targets[0] for n in ast.walk(fn) if isinstance(n, ast.Assign) and len(n.targets) == 1
                and isinstance(n.targets[0], ast.Subscript) and isinstance(n.targets[0].value, ast.Name)
                and n.targets[0].value.id == sel[1] and isinstance(n.targets[0].slice, ast.Slice)]
        hits.sort(key=lambda n: (n.lineno, n.col_offset))
        if len(hits) <= sel[2]:
            raise TranslationError(f'store #{sel[2]} into {sel[1]} not found')
        part = hits[sel[2]].slice.lower if sel[3] == 'lower' else hits[sel[2]].slice.upper
        if part is None:
            raise TranslationError(f'store #{sel[2]} into {sel[1]} has no {sel[3]} bound')
        return part
    if sel[0] == 'wslot':
        # ('wslot', buffer name, nth, width): offset of the nth constant-slice store into the buffer
        hits = [n.targets[0] for n in ast.walk(fn) if isinstance(n, ast.Assign) and len(n.targets) == 1
                and isinstance(n.targets[0], ast.Subscript) and isinstance(n.targets[0].value, ast.Name)
                and n.targets[0].value.id == sel[1] and isinstance(n.targets[0].slice, ast.Slice)
                and isinstance(n.targets[0].slice.lower, ast.Constant) and isinstance(n.targets[0].slice.upper, ast.Constant)]
        hits.sort(key=lambda n: (n.lineno, n.col_offset))
        if len(hits) <= sel[2]:
            raise TranslationError(f'store #{sel[2]} into {sel[1]} not found')
        lo, hi = hits[sel[2]].slice.lower.value, hits[sel[2]].slice.upper.value
        if hi - lo != sel[3]:
            raise TranslationError(f'store #{sel[2]} into {sel[1]} is {hi - lo} bytes wide, not {sel[3]}')
        return ast.Constant(lo)
    if sel[0] == 'assign_elt':
        hits = [n.value for n in ast.walk(fn) if isinstance(n, ast.Assign) and len(n.targets) == 1
                and isinstance(n.targets[0], ast.Name) and n.targets[0].id == sel[1] and isinstance(n.value, ast.Tuple)]
        hits.sort(key=lambda n: (n.lineno, n.col_offset))
        if len(hits) <= sel[2] or len(hits[sel[2]].elts) <= sel[3]:
            raise TranslationError(f'tuple assigned to {sel[1]} #{sel[2]} element {sel[3]} not found')
        return hits[sel[2]].elts[sel[3]]
    if sel[0] == 'return':
        hits = [n.value for n in ast.walk(fn) if isinstance(n, ast.Return) and n.value is not None]
        hits.sort(key=lambda n: (n.lineno, n.col_offset))
        if len(hits) <= sel[1]:
            raise TranslationError(f'return #{sel[1]} not found')
        v = hits[sel[1]]
        if isinstance(v, ast.Call) and v.args and len(sel) > 2:
            return v.args[sel[2]]
        if isinstance(v, ast.Tuple) and len(sel) > 2:
            if len(v.elts) <= sel[2]:
                raise TranslationError(f'return #{sel[1]} has no element {sel[2]}')
            return v.elts[sel[2]]
        return v
    if sel[0] == 'versiongate':
        # ('versiongate', nth): the string S of the nth comparison `... > SeismicZfpVersion("S")`
        hits = [n for n in ast.walk(fn) if isinstance(n, ast.Call) and isinstance(n.func, ast.Name)
                and n.func.id == 'SeismicZfpVersion' and len(n.args) == 1 and isinstance(n.args[0], ast.Constant)
                and isinstance(n.args[0].value, str)]
        hits.sort(key=lambda n: (n.lineno, n.col_offset))
        if len(hits) <= sel[1]:
            raise TranslationError(f'version gate #{sel[1]} not found')
        return hits[sel[1]].args[0]
    if sel[0] == 'ifcall':
        # ('ifcall', callee, nth): the test of the nth if statement whose *then* branch calls `callee`
        def calls(nodes, name):
            for b in nodes:
                for n in ast.walk(b):
                    if isinstance(n, ast.Call) and ((isinstance(n.func, ast.Attribute) and n.func.attr == name)
                                                    or (isinstance(n.func, ast.Name) and n.func.id == name)):
                        return True
            return False
        hits = [n for n in ast.walk(fn) if isinstance(n, ast.If) and calls(n.body, sel[1])]
        hits.sort(key=lambda n: (n.lineno, n.col_offset))
        if len(hits) <= sel[2]:
            raise TranslationError(f'if calling {sel[1]} #{sel[2]} not found')
        return hits[sel[2]].test
    if sel[0] == 'ifassign':
        # ('ifassign', target, nth): the test of the if statement whose body assigns `target`
        hits = [n for n in ast.walk(fn) if isinstance(n, ast.If) and any(
            isinstance(b, ast.Assign) and len(b.targets) == 1 and isinstance(b.targets[0], ast.Name)
            and b.targets[0].id == sel[1] for b in n.body)]
        hits.sort(key=lambda n: (n.lineno, n.col_offset))
        if len(hits) <= sel[2]:
            raise TranslationError(f'if assigning {sel[1]} #{sel[2]} not found')
        return hits[sel[2]].test
    if sel[0] == 'iftest':
        hits = [n for n in ast.walk(fn) if isinstance(n, ast.If)]
        hits.sort(key=lambda n: (n.lineno, n.col_offset))
        if len(hits) <= sel[1]:
            raise TranslationError(f'if #{sel[1]} not found')
        return hits[sel[1]].test
    if sel[0] == 'guard':
        # ('guard', nth): the condition X of the nth `if not X: raise ...`
        hits = [n for n in ast.walk(fn) if isinstance(n, ast.If) and isinstance(n.test, ast.UnaryOp)
                and isinstance(n.test.op, ast.Not) and n.body and isinstance(n.body[-1], ast.Raise)]
        hits.sort(key=lambda n: (n.lineno, n.col_offset))
        if len(hits) <= sel[1]:
            raise TranslationError(f'guard #{sel[1]} not found')
        return hits[sel[1]].test.operand
    raise TranslationError(f'selector {sel}')


# (lean name, file, function, selector, type)
SPEC = [
    ('pad', 'utils.py', 'pad', ('func',), 'Nat'),
    ('cd_length', 'utils.py', 'get_correlated_diagonal_length', ('func',), 'Int'),
    ('ad_length', 'utils.py', 'get_anticorrelated_diagonal_length', ('func',), 'Int'),
    # loader.py, 3D
    ('il_set_offset', 'loader.py', 'SgzLoader3d.read_and_decompress_il_set', ('assign', 'il_block_offset', 0), 'Nat'),
    ('il_set_length', 'loader.py', 'SgzLoader3d.read_and_decompress_il_set', ('callarg', '_get_compressed_bytes', 0, 1), 'Nat'),
    ('xl_set_first', 'loader.py', 'SgzLoader3d.read_and_decompress_xl_set', ('assign', 'xl_first_chunk_offset', 0), 'Nat'),
    ('xl_set_increment', 'loader.py', 'SgzLoader3d.read_and_decompress_xl_set', ('assign', 'xl_chunk_increment', 0), 'Nat'),
    ('xl_set_count', 'loader.py', 'SgzLoader3d.read_and_decompress_xl_set', ('callarg', 'range', 0, 0), 'Nat'),
    ('xl_set_buffer', 'loader.py', 'SgzLoader3d.read_and_decompress_xl_set', ('callarg', 'bytearray', 0, 0), 'Nat'),
    ('xl_set_bufstart', 'loader.py', 'SgzLoader3d.read_and_decompress_xl_set', ('callarg', 'submit', 0, 2), 'Nat'),
    ('xl_set_fileoff', 'loader.py', 'SgzLoader3d.read_and_decompress_xl_set', ('callarg', 'submit', 0, 3), 'Nat'),
    ('zslice_unit_in_block', 'loader.py', 'SgzLoader3d.read_and_decompress_zslice_set', ('assign', 'zslice_unit_in_block', 0), 'Nat'),
    ('zslice_count', 'loader.py', 'SgzLoader3d.read_and_decompress_zslice_set', ('callarg', 'range', 0, 0), 'Nat'),
    ('zslice_bufstart', 'loader.py', 'SgzLoader3d.read_and_decompress_zslice_set', ('callarg', 'submit', 0, 2), 'Nat'),
    ('zslice_fileoff', 'loader.py', 'SgzLoader3d.read_and_decompress_zslice_set', ('callarg', 'submit', 0, 3), 'Nat'),
    ('chunk_read_length', 'loader.py', 'SgzLoader3d.read_chunk_range', ('assign', 'read_length', 0), 'Nat'),
    ('chunk_bytes_start', 'loader.py', 'SgzLoader3d.read_chunk_range', ('assign', 'bytes_start', 0), 'Nat'),
    ('chunk_buf_start', 'loader.py', 'SgzLoader3d.read_chunk_range', ('assign', 'buf_start', 0), 'Nat'),
    ('chunk_z_units', 'loader.py', 'SgzLoader3d.read_and_decompress_chunk_range', ('assign', 'z_units', 0), 'Nat'),
    ('chunk_xl_units', 'loader.py', 'SgzLoader3d.read_and_decompress_chunk_range', ('assign', 'xl_units', 0), 'Nat'),
    ('chunk_il_units', 'loader.py', 'SgzLoader3d.read_and_decompress_chunk_range', ('assign', 'il_units', 0), 'Nat'),
    ('unshuffle_z_blocks', 'loader.py', 'SgzLoader3d.read_unshuffle_and_decompress_chunk_range', ('assign', 'z_blocks', 0), 'Nat'),
    ('unshuffle_xl_blocks', 'loader.py', 'SgzLoader3d.read_unshuffle_and_decompress_chunk_range', ('assign', 'xl_blocks', 0), 'Nat'),
    ('unshuffle_il_blocks', 'loader.py', 'SgzLoader3d.read_unshuffle_and_decompress_chunk_range', ('assign', 'il_blocks', 0), 'Nat'),
    ('unshuffle_bytes_start', 'loader.py', 'SgzLoader3d.read_unshuffle_and_decompress_chunk_range', ('assign', 'bytes_start', 0), 'Nat'),
    # read.py
    ('chunk_bytes', 'read.py', 'SgzReader.__init__', ('assign_attr', 'chunk_bytes', 0), 'Nat'),
    ('padded_entry_bytes', 'read.py', 'SgzReader.__init__', ('assign_attr', 'padded_header_entry_length_bytes', 0), 'Nat'),
    ('inline_guard', 'read.py', 'SgzReader.read_inline', ('guard', 0), 'Prop'),
    ('inline_set', 'read.py', 'SgzReader.read_inline', ('callarg', 'read_and_decompress_il_set', 0, 0), 'Nat'),
    ('inline_index', 'read.py', 'SgzReader.read_inline', ('subscript', 'decompressed', 0, 0, 'index'), 'Nat'),
    ('crossline_guard', 'read.py', 'SgzReader.read_crossline', ('guard', 0), 'Prop'),
    ('crossline_set', 'read.py', 'SgzReader.read_crossline', ('callarg', 'read_and_decompress_xl_set', 0, 0), 'Nat'),
    ('crossline_index', 'read.py', 'SgzReader.read_crossline', ('subscript', 'decompressed', 0, 1, 'index'), 'Nat'),
    ('zslice_guard', 'read.py', 'SgzReader.read_zslice', ('guard', 0), 'Prop'),
    ('zslice_first_block', 'read.py', 'SgzReader.read_zslice', ('assign', 'zslice_first_block_offset', 0), 'Nat'),
    ('zslice_index', 'read.py', 'SgzReader.read_zslice', ('subscript', 'decompressed', 0, 2, 'index'), 'Nat'),
    ('zslice_adv_index', 'read.py', 'SgzReader.read_zslice', ('subscript', 'decompressed', 1, 2, 'index'), 'Nat'),
    ('subvolume_guard_il', 'read.py', 'SgzReader.read_subvolume', ('guard', 0), 'Prop'),
    ('subvolume_guard_xl', 'read.py', 'SgzReader.read_subvolume', ('guard', 1), 'Prop'),
    ('subvolume_guard_z', 'read.py', 'SgzReader.read_subvolume', ('guard', 2), 'Prop'),
    ('subvolume_crop_lo', 'read.py', 'SgzReader.read_subvolume', ('subscript', 'decompressed', 0, 0, 'lower'), 'Nat'),
    ('subvolume_crop_hi', 'read.py', 'SgzReader.read_subvolume', ('subscript', 'decompressed', 0, 0, 'upper'), 'Nat'),
    ('subvolume_gcrop_lo', 'read.py', 'SgzReader.read_subvolume', ('subscript', 'decompressed', 1, 1, 'lower'), 'Nat'),
    ('subvolume_gcrop_hi', 'read.py', 'SgzReader.read_subvolume', ('subscript', 'decompressed', 1, 1, 'upper'), 'Nat'),
    ('subplane_guard_t', 'read.py', 'SgzReader.read_subplane', ('guard', 0), 'Prop'),
    ('subplane_guard_z', 'read.py', 'SgzReader.read_subplane', ('guard', 1), 'Prop'),
    ('subplane_max_t', 'read.py', 'SgzReader.read_subplane', ('callarg', 'load_fcn', 0, 0), 'Nat'),
    ('subplane_max_z', 'read.py', 'SgzReader.read_subplane', ('callarg', 'load_fcn', 0, 1), 'Nat'),
    ('subplane_min_t', 'read.py', 'SgzReader.read_subplane', ('callarg', 'load_fcn', 0, 2), 'Nat'),
    ('subplane_min_z', 'read.py', 'SgzReader.read_subplane', ('callarg', 'load_fcn', 0, 3), 'Nat'),
    ('subplane_crop_lo', 'read.py', 'SgzReader.read_subplane', ('subscript', 'decompressed', 0, 0, 'lower'), 'Nat'),
    ('trace_guard_window', 'read.py', 'SgzReader.get_trace', ('guard', 0), 'Prop'),
    ('trace_guard_2d', 'read.py', 'SgzReader.get_trace', ('guard', 1), 'Prop'),
    ('trace_guard_irregular', 'read.py', 'SgzReader.get_trace', ('guard', 2), 'Prop'),
    ('trace_guard_3d', 'read.py', 'SgzReader.get_trace', ('guard', 3), 'Prop'),
    ('trace2d_min_trace', 'read.py', 'SgzReader.get_trace', ('assign', 'min_trace', 0), 'Nat'),
    ('trace2d_min_z', 'read.py', 'SgzReader.get_trace', ('assign', 'min_z', 0), 'Nat'),
    ('trace2d_max_z', 'read.py', 'SgzReader.get_trace', ('assign', 'max_z', 0), 'Nat'),
    ('trace2d_index', 'read.py', 'SgzReader.get_trace', ('subscript', 'chunk', 0, 0, 'index'), 'Nat'),
    ('trace_il', 'read.py', 'SgzReader.get_trace', ('tuple', 'il', 0), 'Nat'),
    ('trace_xl', 'read.py', 'SgzReader.get_trace', ('tuple', 'xl', 0), 'Nat'),
    ('trace_min_il', 'read.py', 'SgzReader.get_trace', ('assign', 'min_il', 0), 'Nat'),
    ('trace_min_xl', 'read.py', 'SgzReader.get_trace', ('assign', 'min_xl', 0), 'Nat'),
    ('trace_min_z', 'read.py', 'SgzReader.get_trace', ('assign', 'min_z', 1), 'Nat'),
    ('trace_max_z', 'read.py', 'SgzReader.get_trace', ('assign', 'max_z', 1), 'Nat'),
    ('trace_index_il', 'read.py', 'SgzReader.get_trace', ('subscript', 'chunk', 1, 0, 'index'), 'Nat'),
    ('trace_index_xl', 'read.py', 'SgzReader.get_trace', ('subscript', 'chunk', 1, 1, 'index'), 'Nat'),
    ('trace_crop_lo', 'read.py', 'SgzReader.get_trace', ('subscript', 'chunk', 1, 2, 'lower'), 'Nat'),
    # cropping.py
    ('crop_lo_aligned', 'cropping.py', 'SgzCropper.correct_bounds', ('assign', 'new_index_0', 0), 'Nat'),
    ('crop_hi_aligned', 'cropping.py', 'SgzCropper.correct_bounds', ('assign', 'new_index_1', 0), 'Nat'),
    ('crop_lo_clipped', 'cropping.py', 'SgzCropper.correct_bounds', ('assign', 'new_index_0', 1), 'Nat'),
    ('crop_hi_clipped', 'cropping.py', 'SgzCropper.correct_bounds', ('assign', 'new_index_1', 1), 'Nat'),
    ('crop_bad_il', 'cropping.py', 'SgzCropper.check_and_correct_bounds', ('iftest', 5), 'Prop'),
    ('crop_bad_xl', 'cropping.py', 'SgzCropper.check_and_correct_bounds', ('iftest', 6), 'Prop'),
    ('crop_bad_z', 'cropping.py', 'SgzCropper.check_and_correct_bounds', ('iftest', 7), 'Prop'),
    ('crop_empty', 'cropping.py', 'SgzCropper.check_and_correct_bounds', ('iftest', 8), 'Prop'),
    ('crop_z_units', 'cropping.py', 'SgzCropper.write_cropped_file_by_indexes', ('assign', 'z_units', 0), 'Nat'),
    ('crop_xl_units', 'cropping.py', 'SgzCropper.write_cropped_file_by_indexes', ('assign', 'xl_units', 0), 'Nat'),
    ('crop_il_units', 'cropping.py', 'SgzCropper.write_cropped_file_by_indexes', ('assign', 'il_units', 0), 'Nat'),
    ('crop_block_id', 'cropping.py', 'SgzCropper.write_cropped_file_by_indexes', ('assign', 'block_id', 0), 'Nat'),
    ('crop_block_offset', 'cropping.py', 'SgzCropper.write_cropped_file_by_indexes', ('callarg', '_get_compressed_bytes', 0, 0), 'Nat'),
    ('crop_array_bytes', 'cropping.py', 'SgzCropper.regenerate_header', ('callarg', 'int_to_bytes', 4, 0), 'Nat'),
    # conversion.py: re-blocker
    ('reblock_last_il', 'conversion.py', 'SgzConverter.convert_to_adv_sgz', ('ifassign', 'i_count', 0), 'Prop'),
    ('reblock_i_count', 'conversion.py', 'SgzConverter.convert_to_adv_sgz', ('assign', 'i_count', 0), 'Nat'),
    ('reblock_last_xl', 'conversion.py', 'SgzConverter.convert_to_adv_sgz', ('ifassign', 'x_count', 0), 'Prop'),
    ('reblock_x_count', 'conversion.py', 'SgzConverter.convert_to_adv_sgz', ('assign', 'x_count', 0), 'Nat'),
    ('rb_w_b0', 'conversion.py', 'SgzConverter.convert_to_adv_sgz', ('wslot', 'new_header', 0, 4), 'Nat'),
    ('rb_w_b1', 'conversion.py', 'SgzConverter.convert_to_adv_sgz', ('wslot', 'new_header', 1, 4), 'Nat'),
    ('rb_w_b2', 'conversion.py', 'SgzConverter.convert_to_adv_sgz', ('wslot', 'new_header', 2, 4), 'Nat'),
    ('rb_w_data_blocks', 'conversion.py', 'SgzConverter.convert_to_adv_sgz', ('wslot', 'new_header', 3, 4), 'Nat'),
    ('rb_b0', 'conversion.py', 'SgzConverter.convert_to_adv_sgz', ('assign_elt', 'new_blockshape', 0, 0), 'Nat'),
    ('rb_b1', 'conversion.py', 'SgzConverter.convert_to_adv_sgz', ('assign_elt', 'new_blockshape', 0, 1), 'Nat'),
    ('rb_b2', 'conversion.py', 'SgzConverter.convert_to_adv_sgz', ('assign_elt', 'new_blockshape', 0, 2), 'Nat'),
    ('rb_data_blocks', 'conversion.py', 'SgzConverter.convert_to_adv_sgz', ('assign', 'compressed_data_length_diskblocks', 0), 'Nat'),
    ('rb_inline_bytes', 'conversion.py', 'SgzConverter.convert_to_adv_sgz', ('assign', 'inline_bytes', 0), 'Nat'),
    ('rb_tiles_i', 'conversion.py', 'SgzConverter.convert_to_adv_sgz', ('callarg', 'range', 0, 0), 'Nat'),
    ('rb_tiles_x', 'conversion.py', 'SgzConverter.convert_to_adv_sgz', ('callarg', 'range', 1, 0), 'Nat'),
    ('rb_depths', 'conversion.py', 'SgzConverter.convert_to_adv_sgz', ('callarg', 'range', 3, 0), 'Nat'),
    ('rb_seek', 'conversion.py', 'SgzConverter.convert_to_adv_sgz', ('callarg', 'seek', 0, 0), 'Nat'),
    ('rb_read_len', 'conversion.py', 'SgzConverter.convert_to_adv_sgz', ('callarg', 'read', 0, 0), 'Nat'),
    ('rb_idx_lo', 'conversion.py', 'SgzConverter.convert_to_adv_sgz', ('callarg', 'slice', 0, 0), 'Nat'),
    ('rb_idx_hi', 'conversion.py', 'SgzConverter.convert_to_adv_sgz', ('callarg', 'slice', 0, 1), 'Nat'),
    ('rb_src_lo', 'conversion.py', 'SgzConverter.convert_to_adv_sgz', ('subscript', 'buffer', 0, 0, 'lower'), 'Nat'),
    ('rb_src_hi', 'conversion.py', 'SgzConverter.convert_to_adv_sgz', ('subscript', 'buffer', 0, 0, 'upper'), 'Nat'),
    # the header-word table: 12 bytes per row, three signed words; where it is stored and read
    ('tbl_bytes', 'headers.py', 'HeaderwordInfo.to_buffer', ('callarg', 'bytearray', 0, 0), 'Nat'),
    ('tbl_row_start', 'headers.py', 'HeaderwordInfo.to_buffer', ('assign', 'start', 0), 'Nat'),
    ('tbl_code_lo', 'headers.py', 'HeaderwordInfo.to_buffer', ('store', 'buf', 0, 'lower'), 'Nat'),
    ('tbl_code_hi', 'headers.py', 'HeaderwordInfo.to_buffer', ('store', 'buf', 0, 'upper'), 'Nat'),
    ('tbl_const_lo', 'headers.py', 'HeaderwordInfo.to_buffer', ('store', 'buf', 1, 'lower'), 'Nat'),
    ('tbl_const_hi', 'headers.py', 'HeaderwordInfo.to_buffer', ('store', 'buf', 1, 'upper'), 'Nat'),
    ('tbl_dup_lo', 'headers.py', 'HeaderwordInfo.to_buffer', ('store', 'buf', 2, 'lower'), 'Nat'),
    ('tbl_dup_hi', 'headers.py', 'HeaderwordInfo.to_buffer', ('store', 'buf', 2, 'upper'), 'Nat'),
    ('tblr_lo', 'headers.py', 'HeaderwordInfo.__init__', ('subscript', 'buffer', 0, 0, 'lower'), 'Nat'),
    ('tblr_hi', 'headers.py', 'HeaderwordInfo.__init__', ('subscript', 'buffer', 0, 0, 'upper'), 'Nat'),
    ('tblr_slice_lo', 'read.py', 'SgzReader._decode_traceheader_template', ('subscript', 'headerbytes', 0, 0, 'lower'), 'Nat'),
    ('tblr_slice_hi', 'read.py', 'SgzReader._decode_traceheader_template', ('subscript', 'headerbytes', 0, 0, 'upper'), 'Nat'),
    ('tbl_patch_count_seek', 'conversion.py', 'SeismicFileConverter.write_headers', ('callarg', 'seek', 0, 0), 'Nat'),
    ('tbl_patch_seek', 'conversion.py', 'SeismicFileConverter.write_headers', ('callarg', 'seek', 1, 0), 'Nat'),
    # windowed conversion: the traces header detection looks at, the number of header slots
    ('win_first_trace', 'conversion.py', 'SeismicFileConverter.get_blank_header_info', ('assign', 'first_trace', 0), 'Nat'),
    ('win_last_trace', 'conversion.py', 'SeismicFileConverter.get_blank_header_info', ('assign', 'last_trace', 0), 'Nat'),
    ('win_n_traces', 'conversion.py', 'SeismicFileConverter.get_blank_header_info', ('assign', 'n_traces', 1), 'Nat'),
    ('hw_init_trace_a', 'headers.py', 'HeaderwordInfo.__init__', ('subscript', 'header', 0, 0, 'index'), 'Nat'),
    ('hw_init_trace_b', 'headers.py', 'HeaderwordInfo.__init__', ('subscript', 'header', 1, 0, 'index'), 'Nat'),
    ('hw_fl_first', 'headers.py', 'HeaderwordInfo._get_first_last_headers', ('subscript', 'header', 0, 0, 'index'), 'Nat'),
    ('hw_fl_last', 'headers.py', 'HeaderwordInfo._get_first_last_headers', ('subscript', 'header', 1, 0, 'index'), 'Nat'),
    ('hw_nonzero_trace', 'headers.py', 'HeaderwordInfo._get_nonzero_headerwords', ('subscript', 'header', 0, 0, 'index'), 'Nat'),
    ('hw_dup_first', 'headers.py', 'HeaderwordInfo._find_duplicated_headerwords', ('subscript', 'header', 0, 0, 'index'), 'Nat'),
    ('hw_dup_last', 'headers.py', 'HeaderwordInfo._find_duplicated_headerwords', ('subscript', 'header', 1, 0, 'index'), 'Nat'),
    # cropping.py: the header words the cropper patches
    ('cw_n_samples', 'cropping.py', 'SgzCropper.regenerate_header', ('wslot', 'header', 0, 4), 'Nat'),
    ('cw_n_xl', 'cropping.py', 'SgzCropper.regenerate_header', ('wslot', 'header', 1, 4), 'Nat'),
    ('cw_n_il', 'cropping.py', 'SgzCropper.regenerate_header', ('wslot', 'header', 2, 4), 'Nat'),
    ('cw_z_start', 'cropping.py', 'SgzCropper.regenerate_header', ('wslot', 'header', 3, 4), 'Nat'),
    ('cw_xl0', 'cropping.py', 'SgzCropper.regenerate_header', ('wslot', 'header', 7, 4), 'Nat'),
    ('cw_il0', 'cropping.py', 'SgzCropper.regenerate_header', ('wslot', 'header', 8, 4), 'Nat'),
    ('cw_data_blocks', 'cropping.py', 'SgzCropper.regenerate_header', ('wslot', 'header', 9, 4), 'Nat'),
    ('cw_array_bytes', 'cropping.py', 'SgzCropper.regenerate_header', ('wslot', 'header', 10, 4), 'Nat'),
    ('cw_tracecount', 'cropping.py', 'SgzCropper.regenerate_header', ('wslot', 'header', 11, 4), 'Nat'),
    ('cw_len_z', 'cropping.py', 'SgzCropper.regenerate_header', ('assign', 'len_zslices', 0), 'Nat'),
    ('cw_len_x', 'cropping.py', 'SgzCropper.regenerate_header', ('assign', 'len_xlines', 0), 'Nat'),
    ('cw_len_i', 'cropping.py', 'SgzCropper.regenerate_header', ('assign', 'len_ilines', 0), 'Nat'),
    ('cw_tracecount_structured', 'cropping.py', 'SgzCropper.regenerate_header', ('assign', 'tracecount', 0), 'Nat'),
    # conversion_utils.py: producers
    ('producer_last_set', 'conversion_utils.py', 'seismic_file_producer', ('ifassign', 'planes_to_read', 0), 'Prop'),
    ('producer_planes', 'conversion_utils.py', 'seismic_file_producer', ('assign', 'planes_to_read', 0), 'Nat'),
    ('producer_sets', 'conversion_utils.py', 'seismic_file_producer', ('assign', 'n_plane_sets', 0), 'Nat'),
    ('io_start_trace', 'conversion_utils.py', 'io_thread_func', ('assign', 'start_trace', 0), 'Nat'),
    ('io_t_store', 'conversion_utils.py', 'io_thread_func', ('assign', 't_store', 0), 'Nat'),
    ('io_t_xl', 'conversion_utils.py', 'io_thread_func', ('tuple', 't_xl', 0), 'Nat'),
    ('io_t_il', 'conversion_utils.py', 'io_thread_func', ('tuple', 't_il', 0), 'Nat'),
    # the fixed header words: writer (make_header) and reader
    ('w_header_blocks', 'conversion_utils.py', 'make_header', ('wslot', 'buffer', 0, 4), 'Nat'),
    ('w_n_samples', 'conversion_utils.py', 'make_header', ('wslot', 'buffer', 1, 4), 'Nat'),
    ('w_z_start', 'conversion_utils.py', 'make_header', ('wslot', 'buffer', 2, 4), 'Nat'),
    ('w_interval', 'conversion_utils.py', 'make_header', ('wslot', 'buffer', 3, 4), 'Nat'),
    ('w_n_xl', 'conversion_utils.py', 'make_header', ('wslot', 'buffer', 4, 4), 'Nat'),
    ('w_n_il', 'conversion_utils.py', 'make_header', ('wslot', 'buffer', 5, 4), 'Nat'),
    ('w_xl0', 'conversion_utils.py', 'make_header', ('wslot', 'buffer', 6, 4), 'Nat'),
    ('w_il0', 'conversion_utils.py', 'make_header', ('wslot', 'buffer', 7, 4), 'Nat'),
    ('w_dxl', 'conversion_utils.py', 'make_header', ('wslot', 'buffer', 8, 4), 'Nat'),
    ('w_dil', 'conversion_utils.py', 'make_header', ('wslot', 'buffer', 9, 4), 'Nat'),
    ('w_dxl_irregular', 'conversion_utils.py', 'make_header', ('wslot', 'buffer', 10, 4), 'Nat'),
    ('w_dil_irregular', 'conversion_utils.py', 'make_header', ('wslot', 'buffer', 11, 4), 'Nat'),
    ('w_rate', 'conversion_utils.py', 'make_header', ('wslot', 'buffer', 12, 4), 'Nat'),
    ('w_b0', 'conversion_utils.py', 'make_header', ('wslot', 'buffer', 13, 4), 'Nat'),
    ('w_b1', 'conversion_utils.py', 'make_header', ('wslot', 'buffer', 14, 4), 'Nat'),
    ('w_b2', 'conversion_utils.py', 'make_header', ('wslot', 'buffer', 15, 4), 'Nat'),
    ('w_data_blocks', 'conversion_utils.py', 'make_header', ('wslot', 'buffer', 16, 4), 'Nat'),
    ('w_array_bytes', 'conversion_utils.py', 'make_header', ('wslot', 'buffer', 17, 4), 'Nat'),
    ('w_n_arrays', 'conversion_utils.py', 'make_header', ('wslot', 'buffer', 18, 4), 'Nat'),
    ('w_tracecount', 'conversion_utils.py', 'make_header', ('wslot', 'buffer', 19, 4), 'Nat'),
    ('w_version', 'conversion_utils.py', 'make_header', ('wslot', 'buffer', 20, 4), 'Nat'),
    ('w_table', 'conversion_utils.py', 'make_header', ('wslot', 'buffer', 21, 1068), 'Nat'),
    ('w_array_bytes_value', 'conversion_utils.py', 'make_header', ('assign', 'header_entry_length_bytes', 1), 'Nat'),
    ('r_n_samples', 'read.py', 'SgzReader._parse_dimensions', ('assign', 'n_samples', 0), 'Nat'),
    ('r_n_xl', 'read.py', 'SgzReader._parse_dimensions', ('assign', 'n_xlines', 0), 'Nat'),
    ('r_n_il', 'read.py', 'SgzReader._parse_dimensions', ('assign', 'n_ilines', 0), 'Nat'),
    ('r_rate', 'read.py', 'SgzReader._parse_dimensions', ('assign', 'rate', 0), 'Nat'),
    ('r_b0', 'read.py', 'SgzReader._parse_dimensions', ('assign_elt', 'blockshape', 0, 0), 'Nat'),
    ('r_b1', 'read.py', 'SgzReader._parse_dimensions', ('assign_elt', 'blockshape', 0, 1), 'Nat'),
    ('r_b2', 'read.py', 'SgzReader._parse_dimensions', ('assign_elt', 'blockshape', 0, 2), 'Nat'),
    ('r_interval', 'read.py', 'SgzReader._parse_coordinates', ('assign', 'sample_rate_ms', 0), 'Nat'),
    ('r_z_start', 'read.py', 'SgzReader._parse_coordinates', ('assign', 'zmin', 0), 'Nat'),
    ('r_xl0', 'read.py', 'SgzReader._parse_coordinates', ('callarg', 'gen_coord_list', 1, 0), 'Nat'),
    ('r_dxl', 'read.py', 'SgzReader._parse_coordinates', ('callarg', 'gen_coord_list', 1, 1), 'Nat'),
    ('r_il0', 'read.py', 'SgzReader._parse_coordinates', ('callarg', 'gen_coord_list', 2, 0), 'Nat'),
    ('r_dil', 'read.py', 'SgzReader._parse_coordinates', ('callarg', 'gen_coord_list', 2, 1), 'Nat'),
    ('r_data_blocks', 'read.py', 'SgzReader._parse_data_sizes', ('assign', 'compressed_data_diskblocks', 0), 'Nat'),
    ('r_array_bytes', 'read.py', 'SgzReader._parse_data_sizes', ('assign', 'header_entry_length_bytes', 0), 'Nat'),
    ('r_n_arrays', 'read.py', 'SgzReader._parse_data_sizes', ('assign', 'n_header_arrays', 0), 'Nat'),
    ('r_header_blocks', 'read.py', 'SgzReader.__init__', ('assign_attr', 'n_header_blocks', 0), 'Nat'),
    ('r_tracecount', 'read.py', 'SgzReader.__init__', ('assign_attr', 'tracecount', 0), 'Nat'),
    ('r_version', 'read.py', 'SgzReader.get_file_version', ('return', 0, 0), 'Nat'),
    # headers.py: where a reader looks for stored array k; which table rows are constants
    ('hdr_offset', 'headers.py', 'HeaderwordInfo.get_header_dict', ('callarg', 'FileOffset', 0, 0), 'Nat'),
    ('hdr_invariant', 'headers.py', 'HeaderwordInfo.get_header_dict', ('iftest', 0), 'Prop'),
    # footer writers: padding of one array
    ('footer_pad_segy', 'conversion.py', 'SeismicFileConverter.write_headers', ('callarg', 'bytes', 0, 0), 'Int'),
    ('footer_pad_numpy', 'conversion.py', 'NumpyConverter.write_headers', ('callarg', 'bytes', 0, 0), 'Int'),
    # version.py and the version gates
    ('ver_major', 'version.py', 'SeismicZfpVersion.__init__', ('assign_attr', 'major', 1), 'Nat'),
    ('ver_minor', 'version.py', 'SeismicZfpVersion.__init__', ('assign_attr', 'minor', 1), 'Nat'),
    ('ver_patch', 'version.py', 'SeismicZfpVersion.__init__', ('assign_attr', 'patch', 1), 'Nat'),
    ('ver_dev', 'version.py', 'SeismicZfpVersion.__init__', ('assign_attr', 'changes_exist', 1), 'Prop'),
    ('ver_encoding', 'version.py', 'SeismicZfpVersion.to_encoding', ('assign', 'encoding', 0), 'Nat'),
    ('gate_reader_footer', 'read.py', 'SgzReader.__init__', ('versiongate', 0), 'String'),
    ('gate_reader_interval', 'read.py', 'SgzReader._parse_coordinates', ('versiongate', 0), 'String'),
    ('gate_cropper_footer', 'cropping.py', 'SgzCropper.write_cropped_file_by_indexes', ('versiongate', 0), 'String'),
    # read.py: diagonals
    ('cd_guard', 'read.py', 'SgzReader.read_correlated_diagonal', ('guard', 0), 'Prop'),
    ('cd_guard_lo', 'read.py', 'SgzReader.read_correlated_diagonal', ('guard', 1), 'Prop'),
    ('cd_guard_hi', 'read.py', 'SgzReader.read_correlated_diagonal', ('guard', 2), 'Prop'),
    ('cd_guard_order', 'read.py', 'SgzReader.read_correlated_diagonal', ('guard', 3), 'Prop'),
    ('cd_guard_window', 'read.py', 'SgzReader.read_correlated_diagonal', ('guard', 4), 'Prop'),
    ('cd_branch', 'read.py', 'SgzReader.read_correlated_diagonal', ('ifcall', 'get_trace', 0), 'Prop'),
    ('cd_index_a', 'read.py', 'SgzReader.read_correlated_diagonal', ('callarg', 'get_trace', 0, 0), 'Int'),
    ('cd_index_b', 'read.py', 'SgzReader.read_correlated_diagonal', ('callarg', 'get_trace', 1, 0), 'Int'),
    ('ad_guard', 'read.py', 'SgzReader.read_anticorrelated_diagonal', ('guard', 0), 'Prop'),
    ('ad_guard_lo', 'read.py', 'SgzReader.read_anticorrelated_diagonal', ('guard', 1), 'Prop'),
    ('ad_guard_hi', 'read.py', 'SgzReader.read_anticorrelated_diagonal', ('guard', 2), 'Prop'),
    ('ad_guard_order', 'read.py', 'SgzReader.read_anticorrelated_diagonal', ('guard', 3), 'Prop'),
    ('ad_guard_window', 'read.py', 'SgzReader.read_anticorrelated_diagonal', ('guard', 4), 'Prop'),
    ('ad_branch', 'read.py', 'SgzReader.read_anticorrelated_diagonal', ('ifcall', 'get_trace', 0), 'Prop'),
    ('ad_index_a', 'read.py', 'SgzReader.read_anticorrelated_diagonal', ('callarg', 'get_trace', 0, 0), 'Int'),
    ('ad_index_b', 'read.py', 'SgzReader.read_anticorrelated_diagonal', ('callarg', 'get_trace', 1, 0), 'Int'),
    # accessors.py
    ('acc_sign', 'accessors.py', 'SubvolumeAccessor._check_subscripts', ('assign', 'sign', 0), 'Int'),
    ('acc_first', 'accessors.py', 'SubvolumeAccessor._check_subscripts', ('tuple', 'first', 0), 'Int'),
    ('acc_end', 'accessors.py', 'SubvolumeAccessor._check_subscripts', ('tuple', 'end', 0), 'Int'),
    ('acc_bad_start', 'accessors.py', 'SubvolumeAccessor._check_subscripts', ('iftest', 0), 'Prop'),
    ('acc_bad_stop', 'accessors.py', 'SubvolumeAccessor._check_subscripts', ('iftest', 1), 'Prop'),
    ('acc_bad_step', 'accessors.py', 'SubvolumeAccessor._check_subscripts', ('iftest', 2), 'Prop'),
    ('acc_step', 'accessors.py', 'SubvolumeAccessor._get_index_subscripts', ('assign', 'step', 0, 'orelse'), 'Int'),
    ('acc_stop_is_end', 'accessors.py', 'SubvolumeAccessor._get_index_subscripts', ('iftest', 0), 'Prop'),
    ('acc_negative_index', 'accessors.py', 'Accessor.__getitem__', ('callarg', 'values_function', 1, 0), 'Int'),
    ('acc_is_negative', 'accessors.py', 'Accessor.__getitem__', ('iftest', 1), 'Prop'),
    # conversion_utils.py: the other producers
    ('numpy_sets', 'conversion_utils.py', 'numpy_producer', ('assign', 'n_plane_sets', 0), 'Nat'),
    ('numpy_last_set', 'conversion_utils.py', 'numpy_producer', ('ifassign', 'planes_to_read', 0), 'Prop'),
    ('numpy_planes', 'conversion_utils.py', 'numpy_producer', ('assign', 'planes_to_read', 0), 'Nat'),
    ('numpy_pad_planes', 'conversion_utils.py', 'numpy_producer', ('assign', 'ilines_pad', 0), 'Nat'),
    ('numpy_slab_lo', 'conversion_utils.py', 'numpy_producer', ('subscript', 'in_array', 0, 0, 'lower'), 'Nat'),
    ('numpy_slab_hi', 'conversion_utils.py', 'numpy_producer', ('subscript', 'in_array', 0, 0, 'upper'), 'Nat'),
    ('line2d_groups', 'conversion_utils.py', 'seismic_file_producer_2d', ('assign', 'n_trace_groups', 0), 'Nat'),
    ('line2d_last_group', 'conversion_utils.py', 'seismic_file_producer_2d', ('ifassign', 'traces_to_read', 0), 'Prop'),
    ('line2d_traces', 'conversion_utils.py', 'seismic_file_producer_2d', ('assign', 'traces_to_read', 0), 'Nat'),
    ('line2d_trace_id', 'conversion_utils.py', 'io_thread_func_2d', ('assign', 'trace_id', 0), 'Nat'),
    ('irregular_inline_number', 'conversion_utils.py', 'unstructured_io_thread_func', ('assign_elt', 'index', 0, 0), 'Int'),
    ('irregular_t_store', 'conversion_utils.py', 'unstructured_io_thread_func', ('assign', 't_store', 0), 'Nat'),
    # sgz_xarray.py
    ('xarray_int_key', 'sgz_xarray.py', 'SeismicZfpBackendArray._raw_indexing_method', ('assign', 'k', 0), 'Int'),
    # dispatch conditions: which loader / path a call takes
    ('dispatch_inline', 'read.py', 'SgzReader.read_inline', ('ifcall', 'read_and_decompress_il_set', 0), 'Prop'),
    ('dispatch_crossline', 'read.py', 'SgzReader.read_crossline', ('ifcall', 'read_and_decompress_xl_set', 0), 'Prop'),
    ('dispatch_zslice', 'read.py', 'SgzReader.read_zslice', ('ifcall', 'read_and_decompress_zslice_set', 0), 'Prop'),
    ('dispatch_zslice_adv', 'read.py', 'SgzReader.read_zslice', ('ifcall', 'read_and_decompress_zslice_set_adv', 0), 'Prop'),
    ('dispatch_subvolume', 'read.py', 'SgzReader.read_subvolume', ('ifcall', 'read_and_decompress_chunk_range', 0), 'Prop'),
    ('dispatch_trace2d', 'read.py', 'SgzReader.get_trace', ('ifcall', 'read_and_decompress_trace_range', 1), 'Prop'),
    ('dispatch_crop', 'cropping.py', 'SgzCropper.write_cropped_file_by_indexes', ('ifcall', 'read_chunk_range', 0), 'Prop'),
    ('dispatch_producer', 'conversion_utils.py', 'seismic_file_producer', ('ifcall', 'put', 0), 'Prop'),
    ('dispatch_numpy', 'conversion_utils.py', 'numpy_producer', ('ifcall', 'put', 0), 'Prop'),
    ('dispatch_2d', 'conversion_utils.py', 'seismic_file_producer_2d', ('ifcall', 'put', 0), 'Prop'),
    # loader.py: z-slice reads on N x M x 4 layouts (integral bit rates)
    ('adv_sub_block', 'loader.py', 'SgzLoader3d.read_and_decompress_zslice_set_adv', ('assign', 'sub_block_size_bytes', 0), 'Nat'),
    ('adv_count', 'loader.py', 'SgzLoader3d.read_and_decompress_zslice_set_adv', ('callarg', 'range', 0, 0), 'Nat'),
    ('adv_block_i', 'loader.py', 'SgzLoader3d._distribute_chunk_into_buffer', ('assign', 'block_i', 0), 'Nat'),
    ('adv_block_x', 'loader.py', 'SgzLoader3d._distribute_chunk_into_buffer', ('assign', 'block_x', 0), 'Nat'),
    ('adv_block_num', 'loader.py', 'SgzLoader3d._distribute_chunk_into_buffer', ('assign', 'block_num', 0), 'Nat'),
    ('adv_fetch_offset', 'loader.py', 'SgzLoader3d._distribute_chunk_into_buffer', ('callarg', '_get_compressed_bytes', 0, 0), 'Nat'),
    ('adv_rows', 'loader.py', 'SgzLoader3d._distribute_chunk_into_buffer', ('callarg', 'range', 0, 0), 'Nat'),
    ('adv_buf_start', 'loader.py', 'SgzLoader3d._distribute_chunk_into_buffer', ('assign', 'buf_start', 0), 'Nat'),
    ('adv_src_lo', 'loader.py', 'SgzLoader3d._distribute_chunk_into_buffer', ('subscript', 'temp_buf', 0, 0, 'lower'), 'Nat'),
    # conversion.py: SEG-Y export -- where the copied SEG-Y file header is read, what segyio is asked for
    ('export_ext_lo', 'conversion.py', 'SgzConverter.convert_to_segy', ('subscript', 'headerbytes', 0, 0, 'lower'), 'Nat'),
    ('export_ext_hi', 'conversion.py', 'SgzConverter.convert_to_segy', ('subscript', 'headerbytes', 0, 0, 'upper'), 'Nat'),
    ('export_ext_format', 'conversion.py', 'SgzConverter.convert_to_segy', ('callarg', 'unpack', 0, 0), 'String'),
    ('export_ext_count', 'conversion.py', 'SgzConverter.convert_to_segy', ('assign_attr', 'ext_headers', 0), 'Int'),
    ('export_fmt_lo', 'conversion.py', 'SgzConverter.convert_to_segy', ('subscript', 'headerbytes', 1, 0, 'lower'), 'Nat'),
    ('export_fmt_hi', 'conversion.py', 'SgzConverter.convert_to_segy', ('subscript', 'headerbytes', 1, 0, 'upper'), 'Nat'),
    ('export_fmt_format', 'conversion.py', 'SgzConverter.convert_to_segy', ('callarg', 'unpack', 1, 0), 'String'),
    ('export_fmt_kept', 'conversion.py', 'SgzConverter.convert_to_segy', ('iftest', 1), 'Prop'),
    ('export_filehdr_lo', 'conversion.py', 'SgzConverter.write_segy', ('subscript', 'headerbytes', 0, 0, 'lower'), 'Nat'),
    ('export_filehdr_hi', 'conversion.py', 'SgzConverter.write_segy', ('subscript', 'headerbytes', 0, 0, 'upper'), 'Nat'),
    # utils.py: axis inferred from the line numbers present (irregular surveys); the length check of every range read
    ('infer_min', 'utils.py', 'InferredGeometry3d.get_range', ('return', 0, 0), 'Int'),
    ('infer_max', 'utils.py', 'InferredGeometry3d.get_range', ('return', 0, 1), 'Int'),
    ('infer_step', 'utils.py', 'InferredGeometry3d.get_range', ('return', 0, 2), 'Int'),
    ('infer_stop_il', 'utils.py', 'InferredGeometry3d.__init__', ('callarg', '__init__', 0, 1), 'Int'),
    ('infer_stop_xl', 'utils.py', 'InferredGeometry3d.__init__', ('callarg', '__init__', 0, 3), 'Int'),
    ('range_short', 'utils.py', 'check_range_length', ('iftest', 0), 'Prop'),
    # sgzconstants.py
    ('const_disk_block', 'sgzconstants.py', '<module>', ('assign', 'DISK_BLOCK_BYTES', 0), 'Nat'),
    ('const_segy_file_header', 'sgzconstants.py', '<module>', ('assign', 'SEGY_FILE_HEADER_BYTES', 0), 'Nat'),
    ('const_segy_text_header', 'sgzconstants.py', '<module>', ('assign', 'SEGY_TEXT_HEADER_BYTES', 0), 'Nat'),
    ('const_segy_trace_header', 'sgzconstants.py', '<module>', ('assign', 'SEGY_TRACE_HEADER_BYTES', 0), 'Nat'),
    ('segyraw_seek', 'conversion_utils.py', 'MinimalInlineReader.read_line', ('callarg', 'seek', 0, 0), 'Nat'),
    ('segyraw_length', 'conversion_utils.py', 'MinimalInlineReader.read_line', ('callarg', 'read', 0, 0), 'Nat'),
    # loader.py, 2D
    ('trace_range_offset', 'loader.py', 'SgzLoader2d.read_and_decompress_trace_range', ('assign', 'block_offset', 0), 'Nat'),
    ('trace_range_length', 'loader.py', 'SgzLoader2d.read_and_decompress_trace_range', ('callarg', '_get_compressed_bytes', 0, 1), 'Nat'),
    ('unshuffle2d_z_blocks', 'loader.py', 'SgzLoader2d.read_unshuffle_and_decompress_chunk_range_2d', ('assign', 'z_blocks', 0), 'Nat'),
    ('unshuffle2d_xl_blocks', 'loader.py', 'SgzLoader2d.read_unshuffle_and_decompress_chunk_range_2d', ('assign', 'xl_blocks', 0), 'Nat'),
    ('unshuffle2d_bytes_start', 'loader.py', 'SgzLoader2d.read_unshuffle_and_decompress_chunk_range_2d', ('assign', 'bytes_start', 0), 'Nat'),
]


class Skip(Exception):
    """this sample is outside what the definition is claimed for (division by zero, a negative intermediate in Nat)"""


class Ev:
    """Independent evaluation of the selected Python expression, with Python's own integer semantics, under an assignment of
    the parameters the translator introduced: the reference the generated Lean definitions are validated against."""
    def __init__(self, env_, nat):
        self.env, self.nat, self.tr = dict(env_), nat, Tr('Int')

    def val(self, e):
        if isinstance(e, ast.Constant):
            return e.value
        r = self.tr.ref(e)
        if r is not None:
            return self.env[r]
        if isinstance(e, ast.BinOp):
            a, b = self.val(e.left), self.val(e.right)
            if isinstance(e.op, (ast.FloorDiv, ast.Mod)) and b == 0:
                raise Skip()
            v = {ast.Add: lambda: a + b, ast.Sub: lambda: a - b, ast.Mult: lambda: a * b, ast.FloorDiv: lambda: a // b,
                 ast.Mod: lambda: a % b}[type(e.op)]()
            if self.nat and v < 0:
                raise Skip()
            return v
        if isinstance(e, ast.UnaryOp) and isinstance(e.op, ast.USub):
            return -self.val(e.operand)
        if isinstance(e, ast.UnaryOp) and isinstance(e.op, ast.Not):
            return not self.val(e.operand)
        if isinstance(e, ast.Call):
            f, a = e.func.id, e.args
            if f == 'int':
                return int(self.val(a[0]))
            if f == 'abs':
                return abs(self.val(a[0]))
            if f in ('min', 'max') and len(a) == 1:
                return self.env[f'{f}_' + self.tr.ref(a[0])]
            if f in ('min', 'max'):
                return (min if f == 'min' else max)(self.val(a[0]), self.val(a[1]))
            if f == 'len':
                r = self.tr.ref(a[0])
                if r is None:
                    r = f'{self.tr.ref(a[0].func.value)}_{a[0].func.attr}'
                return self.env['len_' + r]
            if f in ('bytes_to_int', 'bytes_to_signed_int'):
                return a[0].slice.lower.value
            if f == 'pad':
                o, m = self.val(a[0]), self.val(a[1])
                if m == 0:
                    raise Skip()
                return o if o % m == 0 else m * (o // m + 1)
        if isinstance(e, ast.Compare):
            if len(e.ops) == 1 and isinstance(e.ops[0], (ast.Is, ast.IsNot)):
                given = self.env[self.tr.ref(e.left) + '_given']
                return given if isinstance(e.ops[0], ast.IsNot) else not given
            if len(e.ops) == 1 and isinstance(e.ops[0], (ast.In, ast.NotIn)):
                member = self.val(e.left) in [self.val(c) for c in e.comparators[0].elts]
                return member if isinstance(e.ops[0], ast.In) else not member
            left, ok = self.val(e.left), True
            for op, right in zip(e.ops, e.comparators):
                r = self.val(right)
                ok = ok and {ast.Lt: left < r, ast.LtE: left <= r, ast.Gt: left > r, ast.GtE: left >= r, ast.Eq: left == r,
                             ast.NotEq: left != r}[type(op)]
                left = r
            return ok
        if isinstance(e, ast.BoolOp):
            vs = [self.val(v) for v in e.values]
            return all(vs) if isinstance(e.op, ast.And) else any(vs)
        if isinstance(e, ast.IfExp):
            return self.val(e.body) if self.val(e.test) else self.val(e.orelse)
        raise TranslationError('evaluator: ' + ast.dump(e)[:60])

    def run(self, stmts):
        for k, s in enumerate(stmts):
            if isinstance(s, ast.Expr):
                continue
            if isinstance(s, ast.Return):
                return self.val(s.value)
            if isinstance(s, ast.Assign):
                self.env[self.tr.ref(s.targets[0])] = self.val(s.value)
                continue
            if isinstance(s, ast.If):
                return self.run(s.body if self.val(s.test) else (s.orelse if s.orelse else stmts[k + 1:]))
        raise TranslationError('evaluator: fall-through')


def _node_and_params(name, fname, qual, sel, ty):
    """(ast node or function, ordered parameter names as in the generated definition, parameter type)"""
    path = os.path.join(env.REPO, 'seismic_zfp', fname)
    tree = ast.parse(open(path, encoding='utf-8').read())
    fn = _find_function(tree, qual)
    tr = Tr(ty, 'Nat' if name == 'ver_dev' else None)
    if sel[0] == 'func':
        args = [tr.ref(ast.Name(a.arg)) for a in fn.args.args if a.arg != 'self']
        tr.body(fn.body)
        return fn, args + sorted(p for p in tr.params if p not in args), tr.pty
    node = _select(fn, sel[:-1] if sel[-1] in ('orelse', 'body') else sel)
    if sel[-1] in ('orelse', 'body'):
        node = getattr(node, sel[-1])
    tr.expr(node)
    params = sorted(tr.params)
    return node, [p for p in params if not p.endswith('_given')] + [p for p in params if p.endswith('_given')], tr.pty


def validation(rng_seed=0, per_def=3):
    """(lean source of `#eval`s, expected outputs): every generated definition at random parameter values, to be compared
    with Python's own evaluation of the source expression — the translator is validated on every run, not just trusted"""
    import random
    rnd = random.Random(rng_seed)
    lines, expected = ['import Sgz.Generated.Source', 'open Sgz.Gen'], []
    for (name, fname, qual, sel, ty) in SPEC:
        try:
            node, params, pty = _node_and_params(name, fname, qual, sel, ty)
        except (TranslationError, OSError, SyntaxError):
            continue
        done = 0
        for _ in range(per_def * 6):
            if done >= per_def:
                break
            vals = {}
            for p_ in params:
                if p_.endswith('_given'):
                    vals[p_] = rnd.random() < .7
                elif pty == 'Nat':
                    vals[p_] = rnd.choice([1, 2, 3, 4, 5, 7, 8, 16, 63, 64, 65, 100, 255, 256, 1000, 4096, 70001, 2 ** 32 + 5])
                else:
                    vals[p_] = rnd.choice([-70001, -65, -64, -5, -4, -3, -2, -1, 0, 1, 2, 3, 4, 5, 64, 65, 1000, 70001])
            try:
                ev = Ev(vals, nat=(pty == 'Nat' and ty != 'Prop') or (ty == 'Prop' and pty == 'Nat'))
                got = ev.run(node.body) if sel[0] == 'func' else ev.val(node)
            except Skip:
                continue
            args = ' '.join(('True' if v else 'False') if isinstance(v, bool) else (f'({v})' if v < 0 else str(v))
                            for v in (vals[p_] for p_ in params))
            if ty == 'Prop':
                lines.append(f'#eval decide ({name} {args})')
                expected.append((name, args, 'true' if got else 'false'))
            elif ty == 'String':
                lines.append(f'#eval {name}')
                expected.append((name, '', '"' + got + '"'))
            else:
                lines.append(f'#eval ({name} {args} : {ty})')
                expected.append((name, args, str(got)))
            done += 1
    return '\n'.join(lines) + '\n', expected


def translate_one(name, fname, qual, sel, ty):
    path = os.path.join(env.REPO, 'seismic_zfp', fname)
    tree = ast.parse(open(path, encoding='utf-8').read())
    fn = _find_function(tree, qual)
    tr = Tr(ty, 'Nat' if name == 'ver_dev' else None)
    if sel[0] == 'func':
        args = [a.arg for a in fn.args.args if a.arg != 'self']
        tr.locals = set()
        term = tr.body(fn.body)
        params = args + sorted(p for p in tr.params if p not in args)
    else:
        node = _select(fn, sel[:-1] if sel[-1] in ('orelse', 'body') else sel)
        if sel[-1] in ('orelse', 'body'):
            if not isinstance(node, ast.IfExp):
                raise TranslationError('conditional expression expected')
            node = getattr(node, sel[-1])
        term = tr.expr(node)
        params = sorted(tr.params)
    pty = 'Int' if ty == 'Prop' else ty
    if name == 'ver_dev':
        pty = 'Nat'
    plain = [p for p in params if not p.endswith('_given')]
    given = [p for p in params if p.endswith('_given')]
    sig = (f'({" ".join(plain)} : {pty}) ' if plain else '') + (f'({" ".join(given)} : Prop) ' if given else '')
    text = f'/-- `{fname}`: `{qual}` ({" ".join(str(s) for s in sel)}) -/\ndef {name} {sig}: {ty} :=\n  {term}\n'
    if ty == 'Prop':
        dec = ''.join(f'[Decidable {g}] ' for g in given)
        text += (f'\ninstance {sig}{dec}: Decidable ({name} {" ".join(plain + given)}) := by\n'
                 f'  unfold {name}; infer_instance\n')
    return text


def generate(write=True):
    """(text, errors): the generated Lean file for the current source; written to lean/Sgz/Generated/Source.lean when it
    differs from what is there"""
    out = ['/-! GENERATED by harness/sgzv/translate.py from the Python source of the repository on every run — do not edit. -/',
           'namespace Sgz.Gen', '']
    errors = []
    for (name, fname, qual, sel, ty) in SPEC:
        try:
            out.append(translate_one(name, fname, qual, sel, ty))
        except (TranslationError, OSError, SyntaxError) as e:
            errors.append((name, f'{fname}:{qual}: {e}'))
            out.append(f'-- {name}: NOT TRANSLATED ({e})\n')
    out.append('end Sgz.Gen\n')
    text = '\n'.join(out)
    if write:
        os.makedirs(os.path.dirname(OUT), exist_ok=True)
        old = open(OUT).read() if os.path.exists(OUT) else None
        if old != text:
            with open(OUT, 'w') as f:
                f.write(text)
    return text, errors


if __name__ == '__main__':
    t, e = generate()
    print(t)
    print(e)
