"""Thin wrappers around the real converters/readers of /repo (public API only)."""
import numpy as np
import segyio

from . import env, spec
from seismic_zfp.conversion import SegyConverter, NumpyConverter, SgzConverter  # noqa: E402
from seismic_zfp.read import SgzReader  # noqa: E402


def bpv_arg(q, style=0):
    """a bits_per_voxel argument denoting rate q/4 in one of the accepted presentations"""
    if q >= 4:
        return [q // 4, float(q // 4), str(q // 4)][style % 3]
    return [q / 4, -(4 // q), str(q / 4)][style % 3]


def numpy_to_sgz(arr, out, q, bs, ilines=None, xlines=None, samples=None, trace_headers=None, style=0):
    kw = {}
    if trace_headers is not None:
        kw['trace_headers'] = trace_headers
    with NumpyConverter(arr, ilines=ilines, xlines=xlines, samples=samples, **kw) as c:
        env.quiet(c.run, out, bits_per_voxel=bpv_arg(q, style), blockshape=tuple(bs))
    return out


def segy_to_sgz(sgy, out, q, bs, reduce_iops=False, header_detection='heuristic', window=None, style=0):
    kw = {}
    if window is not None:
        kw = dict(min_il=window[0], max_il=window[1], min_xl=window[2], max_xl=window[3])
    def go():
        with SegyConverter(sgy, **kw) as c:
            c.run(out, bits_per_voxel=bpv_arg(q, style), blockshape=None if bs is None else tuple(bs),
                  reduce_iops=reduce_iops, header_detection=header_detection)
    env.quiet(go)
    return out


def segy_cube(sgy):
    """source samples as segyio delivers them (A2), shape (n_il, n_xl, ns)"""
    with segyio.open(sgy, strict=False) as f:
        if f.unstructured:
            return np.stack([np.asarray(t).copy() for t in f.trace[:]])[None, :, :]
        return segyio.tools.cube(f).copy()


def fidelity_problems(sgz, src, q, fill='edge', is2d=False, check_bytes=True):
    """C01/C09 oracle: list of problems of written file `sgz` against source cube `src`
    (3D: (il,xl,z); 2D: (traces,z))"""
    probs = []
    h, _ = spec.read_header(sgz)
    lay = h.layout()
    rate = q / 4
    if lay.q != q:
        return [f'rate in header {lay.q}/4 != requested {q}/4']
    want_n = (1,) + tuple(src.shape) if is2d else tuple(src.shape)
    if lay.n != want_n:
        return [f'dimensions in header {lay.n} != source {want_n}']
    if fill == 'edge':
        ref = spec.reference_image(src, rate)
    else:
        pads = [(0, (-s) % 4) for s in src.shape]
        ref = spec.reference_image(np.pad(src, pads, 'constant'), rate)[tuple(slice(0, s) for s in src.shape)]
    with SgzReader(sgz) as r:
        vol = r.read_subplane(0, src.shape[0], 0, src.shape[1]) if is2d else r.read_volume()
    if vol.shape != src.shape:
        probs.append(f'read-back shape {vol.shape} != {src.shape}')
    elif not np.array_equal(vol.view(np.uint32), ref.view(np.uint32)):
        bad = np.argwhere(vol.view(np.uint32) != ref.view(np.uint32))
        probs.append(f'read-back differs from the ZFP image of the edge-extended source at {len(bad)} voxels, '
                     f'first {bad[0].tolist()}: got {vol[tuple(bad[0])]!r} want {ref[tuple(bad[0])]!r}')
    # the same read-back through the other ways a reader can be given the file: an open file object, a blob client
    # (parallel range reads on a worker pool) -- the decoded volume must not depend on the entry point
    from . import iolog
    for how, mk in (('an open file object', lambda: open(sgz, 'rb')), ('a blob client', lambda: iolog.LoggedBlob(sgz))):
        try:
            with SgzReader(mk()) as r2:
                vol2 = r2.read_subplane(0, src.shape[0], 0, src.shape[1]) if is2d else r2.read_volume()
            if vol2.shape != vol.shape or not np.array_equal(vol2.view(np.uint32), vol.view(np.uint32)):
                probs.append(f'read-back through {how} differs from the read-back through the path')
        except Exception as e:  # noqa
            probs.append(f'read-back through {how} failed: {type(e).__name__}: {str(e)[:80]}')
    if check_bytes:
        with open(sgz, 'rb') as f:
            f.seek(h.data_start())
            data = f.read(spec.DISK * h.data_blocks)
        want = spec.encode_data_section(src, lay, fill=fill)
        if data != want:
            nb = min(len(data), len(want)) // spec.DISK
            first = next((b for b in range(nb) if data[b*4096:(b+1)*4096] != want[b*4096:(b+1)*4096]), None)
            probs.append(f'data section differs from the reference encoder (len {len(data)} vs {len(want)}, '
                         f'first differing block {first})')
    return probs
