"""Reads on files no generator could afford to write: data sections beyond 4 GiB (and 2^31 bytes), axes beyond 65535 lines,
single range reads beyond 256 MiB.  The file is virtual (virtualfile.py); the reader is the real one, on the local and the
blob backend; every answer (status, shape, provenance of every returned element, byte ranges fetched) is compared with the
Lean model's (K), whose arithmetic is over unbounded naturals."""
import numpy as np

from . import spec, readops, readcheck, symcodec, iolog, virtualfile
from seismic_zfp.read import SgzReader  # noqa: E402

# (n, blockshape, q): what makes the geometry extreme
GEOMETRIES = [
    ((1_100_000, 8, 64), (4, 4, 64), 128, 'default layout, 1.1e6 inlines: 4.2 GiB of data, inline sets beyond 2^32 bytes'),
    ((8, 70_000, 2048), (4, 4, 64), 128, 'default layout, 70000 crosslines x 2048 samples: 4.3 GiB, long traces (32 blocks)'),
    ((340_000, 40, 40), (8, 8, 16), 128, 'general layout (8,8,16): 2.2 GB of data, block ids beyond 2^16, offsets beyond 2^31'),
    ((40_000, 26_000, 20), (64, 64, 4), 8, 'z-slice layout at 2 bit: 5.2 GiB of data, 2.5e5 tiles'),
    ((1, 9_000_000, 128), (1, 16, 64), 128, '2D line of 9e6 traces: 4.3 GiB, trace groups beyond 2^32 bytes'),
]
WIDE = ((8, 4 * 65537, 64), (4, 4, 64), 128, 'default layout, inline set of 65537 blocks: one range read of 256 MiB + 4 KiB')


def far_ops(rng, lay):
    """in-range ops whose results are small, placed at the far end, the middle and the start"""
    n = lay.n
    ops = []
    if lay.is2d:
        T = n[1]
        for t in (T - 1, T - 17, T // 2 + 3, 5):
            ops.append(('tr', t))
            ops.append(('trw', t, max(0, n[2] - 9), n[2]))
        t0 = T - int(rng.integers(2, 40))
        ops.append(('subp', t0, min(T, t0 + int(rng.integers(1, 30))), 3, min(n[2], 3 + int(rng.integers(1, 60)))))
        return ops
    T = n[0] * n[1]
    small = lambda *dims: int(np.prod(dims)) <= 3_000_000
    for i in (n[0] - 1, n[0] - 5, n[0] // 2 + 1, 2):
        if small(n[1], n[2]):
            ops.append(('il', i))
    few = lambda count: count <= 3000          # (one range read per chunk / unit / tile: keep the fan-out modest)
    for x in (n[1] - 1, n[1] // 2):
        if small(n[0], n[2]) and few(lay.P[0] // 4 if tuple(lay.bs[:2]) == (4, 4) else lay.NB[0] * lay.NB[2]):
            ops.append(('xl', x))
    if small(n[0], n[1]) and few(lay.NB[0] * lay.NB[1]):
        ops.append(('zs', n[2] - 1))
    for t in (T - 1, T - n[1] - 2, T // 2 + 7, 3):
        ops.append(('tr', t))
        ops.append(('trw', t, max(0, n[2] - 7), n[2]))
    for _ in range(3):
        a = [int(rng.integers(max(0, m - 40), m)) for m in n]
        b = [min(m, lo + int(rng.integers(1, 12))) for lo, m in zip(a, n)]
        ops.append(('sub', a[0], b[0], a[1], b[1], a[2], b[2]))
    c = n[0] - min(n[0], n[1])
    ops.append(('cdc', c, max(0, min(n[0] - c, n[1]) - 5), min(n[0] - c, n[1])))
    ops.append(('adc', n[0] + n[1] - 2 - 6, 0, 5))
    return ops


def beyond_ops(lay):
    """arguments just outside the extent and at the magnitudes where fixed-width arithmetic wraps"""
    n = lay.n
    if lay.is2d:
        T = n[1]
        return [('tr', T), ('tr', 2 ** 31), ('tr', 2 ** 32 + 3), ('tr', T + 2 ** 32), ('trw', 5, 0, n[2] + 1),
                ('subp', T - 3, T + 1, 0, 8), ('subp', 2 ** 32, 2 ** 32 + 4, 0, 8)]
    T = n[0] * n[1]
    return [('il', n[0]), ('il', 2 ** 32 + 1), ('il', n[0] + 2 ** 32), ('xl', n[1]), ('xl', 2 ** 31), ('zs', n[2]), ('zs', 2 ** 32),
            ('tr', T), ('tr', 2 ** 32 + 7), ('tr', T + 2 ** 32), ('trw', 3, 0, n[2] + 1),
            ('sub', n[0] - 2, n[0] + 1, 0, 2, 0, 2), ('sub', 2 ** 32, 2 ** 32 + 2, 0, 2, 0, 2),
            ('sub', 0, 2, n[1] - 1, n[1] + 2 ** 32, 0, 2)]


def run_geometry(ctx, model, rng, geom, blob=False, ops=None):
    n, bs, q, why = geom
    lay = spec.Layout(n, bs, q, is2d=(bs[0] == 1))
    fi = readops.FileInfo(lay, il=(1, 1), xl=(1, 1), z=(0, 4000))
    fi.mask = None
    vf = virtualfile.VirtualSgz(lay)
    handle = iolog.LoggedBlob(vf) if blob else iolog.LoggedFile(vf)
    cell = 16 if lay.is2d else 64
    desc = {'n': n, 'bs': bs, 'q': q, 'what': why, 'backend': 'blob' if blob else 'file', 'bytes': vf.size}
    with symcodec.symbolic_decoder():
        r = SgzReader(handle)
        try:
            for op in (ops or far_ops(rng, lay)):
                req = readcheck.model_request(fi, op)
                if req is None:
                    continue
                handle.log.clear()
                r.loader.clear_cache()
                r._read_containing_chunk_cached.cache_clear()
                got = readops.outcome(r, op)
                impl = readcheck.impl_answer(got, list(handle.log), vf.data_start)
                ctx.stats['corr_requests'] += 1
                ctx.stats['huge_ops'] += 1
                m = readcheck.parse_model(model.ask(req))
                if m[0] == 'ok':
                    m = (m[0], m[1], m[2], virtualfile.expected_codes(m[3], cell))
                ctx.case(('huge', n, bs, op, blob), sample=dict(desc, op=list(op)) if ctx.stats['huge_ops'] <= 2 else None)
                if not readcheck.answers_agree(m, impl):
                    ctx.corr_fail('Model.Reader/huge', req, readcheck.brief(m), readcheck.brief(impl), dict(desc, op=list(op)))
                    # the property itself, on the real answer: a read of in-range arguments must succeed, and everything it
                    # returns must be decoded from the unit of the voxel it stands for
                    if impl[0] != 'ok':
                        ctx.fail(f'{op} on a {why} raised {impl[1]}', dict(desc, op=list(op)))
                    elif m[0] == 'ok' and (m[1] != impl[1] or not np.array_equal(m[3], impl[3])):
                        ctx.fail(f'{op} on a {why}: returned elements are not decoded from the units of the voxels they stand '
                                 f'for (an address is wrong)', dict(desc, op=list(op)))
                    elif m[0] == 'ok' and m[2] != impl[2]:
                        ctx.fail(f'{op} on a {why}: byte ranges fetched differ from the blocks the request needs '
                                 f'(model {m[2][:3]}, real {impl[2][:3]})', dict(desc, op=list(op)))
        finally:
            r.close()


def run_preload(ctx, model, rng, blob=True):
    """preload of a data section just beyond 256 MiB: fetched exactly once, by range reads that stay inside it; reads
    afterwards come from memory and are the same as without preload"""
    n, bs, q = (4, 4 * 65537, 64), (4, 4, 64), 128      # 65537 blocks: an odd count, one block beyond 256 MiB
    lay = spec.Layout(n, bs, q)
    fi = readops.FileInfo(lay, il=(1, 1), xl=(1, 1), z=(0, 4000))
    fi.mask = None
    vf = virtualfile.VirtualSgz(lay)
    handle = iolog.LoggedBlob(vf) if blob else iolog.LoggedFile(vf)
    data_bytes = spec.DISK * lay.n_blocks
    desc = {'n': n, 'bs': bs, 'q': q, 'what': 'preload of a data section of 256 MiB + 4 KiB (65537 blocks)', 'backend': 'blob' if blob else 'file'}
    with symcodec.symbolic_decoder():
        try:
            r = SgzReader(handle, preload=True)
        except Exception as e:  # noqa
            ctx.fail(f'opening with preload raised {type(e).__name__}: {str(e)[:100]}', desc)
            return
        try:
            log = [(o, l) for (o, l, _) in handle.log if o + l > vf.data_start]
            ctx.case(('huge-preload', n, blob), sample=dict(desc, requests=len(log)))
            ctx.stats['huge_preloads'] += 1
            beyond = [(o, l) for (o, l) in log if o < vf.data_start or o + l > vf.data_start + data_bytes]
            if beyond:
                ctx.fail(f'preload fetched bytes outside the data section: {beyond[:2]} (data section '
                         f'[{vf.data_start}, {vf.data_start + data_bytes}))', desc)
            elif sum(l for _, l in log) != data_bytes or iolog.overlap_bytes(log):
                ctx.fail(f'preload did not fetch the data section exactly once: {len(log)} requests, '
                         f'{sum(l for _, l in log)} bytes for a section of {data_bytes}', desc)
            handle.log.clear()
            for op in (('tr', n[0] * n[1] - 1), ('sub', 1, 4, n[1] - 9, n[1], 10, 40)):
                got = readops.outcome(r, op)
                impl = readcheck.impl_answer(got, [], vf.data_start)
                m = readcheck.parse_model(model.ask(readcheck.model_request(fi, op)))
                ctx.stats['corr_requests'] += 1
                if m[0] == 'ok':
                    m = (m[0], m[1], m[2], virtualfile.expected_codes(m[3], 64))
                if not readcheck.answers_agree(m, impl, compare_fetch=False):
                    ctx.corr_fail('Model.Reader/huge', f'preload then {op}', readcheck.brief(m), readcheck.brief(impl), desc)
                    ctx.fail(f'{op} after preload of a large data section: not the elements the request denotes', desc)
            if handle.log:
                ctx.fail(f'reads after preload went back to storage: {[(o, l) for (o, l, _) in handle.log][:2]}', desc)
        finally:
            r.close()


def run(ctx, model, rng, blob_too=True, wide=True, beyond=False):
    geoms = GEOMETRIES if not ctx.quick or ctx.boost > 1 else [GEOMETRIES[i] for i in (0, 2, 4)]
    for k, g in enumerate(geoms):
        run_geometry(ctx, model, rng, g, blob=False)
        if beyond:
            lay = spec.Layout(g[0], g[1], g[2], is2d=(g[1][0] == 1))
            run_geometry(ctx, model, rng, g, blob=False, ops=beyond_ops(lay))
        if blob_too and (k % 2 == 0 or not ctx.quick):
            run_geometry(ctx, model, rng, g, blob=True)
    if wide:
        run_preload(ctx, model, rng, blob=True)
        if not ctx.quick:
            # one inline of the wide geometry on the blob backend: a single range read beyond 256 MiB (about a minute)
            run_geometry(ctx, model, rng, WIDE, blob=True, ops=[('il', 5)])
