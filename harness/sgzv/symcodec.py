"""Symbolic codec: swaps zfpy's two entry points (library level, nothing in /repo is touched) so that arrays
returned by the real reader *are* their own provenance tables, and files written by the real writer record
which source samples went into which compressed unit.

decode: unit bytes hold the little-endian integer J (J-1 = index of the unit in the data section; 0 = never
        written); decoded voxel at position p of the cell = J * 4^d + p.
encode: every 4^d cell handed to the compressor gets a fresh id, stored little-endian in the unit; the cell's
        source values are recorded in `cells[id]`.
"""
import contextlib

import numpy as np
import zfpy


def _unit_bytes(d, rate):
    bits = (4 ** d) * rate
    assert bits % 8 == 0, (d, rate)
    return int(bits) // 8


def sym_decompress(buf, ztype, shape, out=None, rate=-1, **kw):
    shape = tuple(int(s) for s in shape)
    d = len(shape)
    assert d in (2, 3) and all(s % 4 == 0 and s > 0 for s in shape), shape
    u = _unit_bytes(d, rate)
    cells = tuple(s // 4 for s in shape)
    ncell = int(np.prod(cells))
    raw = np.frombuffer(bytes(buf), dtype=np.uint8)
    need = ncell * u
    if raw.size < need:  # a short buffer: the missing units read as "never written"
        raw = np.concatenate([raw, np.zeros(need - raw.size, dtype=np.uint8)])
    raw = raw[:need].reshape(ncell, u)
    w = min(u, 8)
    ids = np.zeros(ncell, dtype=np.uint64)
    for b in range(w):
        ids |= raw[:, b].astype(np.uint64) << np.uint64(8 * b)
    ids = ids.astype(np.float64).reshape(cells)
    if d == 3:
        p = ((np.arange(4)[:, None, None] * 4 + np.arange(4)[None, :, None]) * 4 + np.arange(4)[None, None, :])
        v = ids[:, None, :, None, :, None] * 64 + p[None, :, None, :, None, :]
    else:
        p = np.arange(4)[:, None] * 4 + np.arange(4)[None, :]
        v = ids[:, None, :, None] * 16 + p[None, :, None, :]
    v = v.reshape(shape).astype(np.float32)
    if out is not None:
        out[...] = v
        return out
    return v


class SymEncoder:
    def __init__(self):
        self.cells = {}      # id -> np.ndarray (4,4,4)/(4,4) of source values
        self.calls = []      # (shape, rate, first_id)
        self.next_id = 1

    def compress_numpy(self, arr, tolerance=-1, rate=-1, precision=-1, write_header=True):
        assert not write_header
        arr = np.asarray(arr)
        d = arr.ndim
        shape = arr.shape
        assert all(s % 4 == 0 for s in shape), shape
        u = _unit_bytes(d, rate)
        cells = tuple(s // 4 for s in shape)
        ncell = int(np.prod(cells))
        first = self.next_id
        self.calls.append((shape, rate, first))
        out = np.zeros((ncell, u), dtype=np.uint8)
        ids = np.arange(first, first + ncell, dtype=np.uint64)
        for b in range(min(u, 8)):
            out[:, b] = (ids >> np.uint64(8 * b)) & np.uint64(255)
        if d == 3:
            blocks = arr.reshape(cells[0], 4, cells[1], 4, cells[2], 4).transpose(0, 2, 4, 1, 3, 5).reshape(ncell, 4, 4, 4)
        else:
            blocks = arr.reshape(cells[0], 4, cells[1], 4).transpose(0, 2, 1, 3).reshape(ncell, 4, 4)
        for k in range(ncell):
            self.cells[first + k] = blocks[k].copy()
        self.next_id += ncell
        return out.tobytes()


@contextlib.contextmanager
def symbolic_decoder():
    orig = zfpy._decompress
    zfpy._decompress = sym_decompress
    try:
        yield
    finally:
        zfpy._decompress = orig


@contextlib.contextmanager
def symbolic_encoder():
    enc = SymEncoder()
    orig = zfpy.compress_numpy
    zfpy.compress_numpy = enc.compress_numpy
    try:
        yield enc
    finally:
        zfpy.compress_numpy = orig


def check_codec_assumption(rng, d3=True):
    """A1: real zfpy fixed-rate coding is cellwise, raster-ordered and fixed-size.  Returns list of failures."""
    fails = []
    zt = zfpy.dtype_to_ztype(np.dtype('float32'))
    rates = (0.25, 0.5, 1, 2, 4, 8, 16, 32) if d3 else (1, 2, 4, 8, 16, 32)
    for rate in rates:
        shape = (8, 4, 12) if d3 else (8, 12)
        a = (rng.standard_normal(shape) * 100).astype(np.float32)
        whole = zfpy.compress_numpy(a, rate=rate, write_header=False)
        u = _unit_bytes(len(shape), rate)
        parts = b''
        if d3:
            for i in range(2):
                for x in range(1):
                    for z in range(3):
                        parts += zfpy.compress_numpy(np.ascontiguousarray(a[4*i:4*i+4, 4*x:4*x+4, 4*z:4*z+4]),
                                                     rate=rate, write_header=False)[:u]
        else:
            for x in range(2):
                for z in range(3):
                    parts += zfpy.compress_numpy(np.ascontiguousarray(a[4*x:4*x+4, 4*z:4*z+4]), rate=rate,
                                                 write_header=False)[:u]
        # (zfp pads a stream to its 64-bit word; every array the library codes is a multiple of 8 bytes)
        total = u * (a.size // (64 if d3 else 16))
        if whole[:total] != parts or len(whole) != -(-total // 8) * 8:
            fails.append((rate, shape))
        dec = zfpy._decompress(whole, zt, shape, rate=rate)
        k = 4 if d3 else 3  # an arbitrary cell decoded alone
        if d3:
            alone = zfpy._decompress(whole[k*u:(k+1)*u] + bytes(8), zt, (4, 4, 4), rate=rate)
            ref = dec[4:8, 0:4, 4:8]
        else:
            alone = zfpy._decompress(whole[k*u:(k+1)*u] + bytes(8), zt, (4, 4), rate=rate)
            ref = dec[4:8, 0:4]
        if not np.array_equal(alone, ref):
            fails.append((rate, 'decode-alone'))
    return fails
