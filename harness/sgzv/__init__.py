"""sgzv - verification harness for equinor/seismic-zfp (see /verif/DESIGN.md)."""
