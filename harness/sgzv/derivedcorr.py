"""Correspondence of Model/Derived (the header of a cropped / re-blocked file) with the real cropper and re-blocker: the 19
fixed header words of the output file vs the model's, computed from the 19 words of the source file."""
import struct

OFFS = list(range(0, 76, 4))
SIGNED = {16, 20, 24, 28, 32, 36}


def words(path):
    raw = open(path, 'rb').read(100)
    return [struct.unpack('<I', raw[o:o + 4])[0] for o in OFFS], raw


def field_args(path):
    """the source header as the 19 integers the driver expects (signed where the model holds an Int, rate as quarter-bits)"""
    w, raw = words(path)
    out = []
    for o, v in zip(OFFS, w):
        if o in SIGNED:
            v = v - (1 << 32) if v >= (1 << 31) else v
        if o == 40:
            r = v - (1 << 32) if v >= (1 << 31) else v
            v = 4 // -r if r < 0 else 4 * r
        out.append(v)
    return out, raw


def check_crop(ctx, model, src, out, box, structured, pop, desc):
    """box = (i0, i1, x0, x1, z0, z1) actually written"""
    args, raw = field_args(src)
    req = 'dhdr crop ' + ' '.join(str(v) for v in args) + ' ' + ' '.join(str(int(v)) for v in box) + f' {int(structured)} {int(pop)}'
    ctx.stats['corr_requests'] += 1
    ans = model.ask(req)
    got, _ = words(out)
    real = [str(v) for v in got]
    m = ans.split()
    # the start-time word is the truncation of a binary64 value: compared when the cropped start is a whole millisecond and
    # the source does not use the double-precision start/interval fields (A4)
    whole = (args[4] * 1000 + args[7] * box[4]) % 1000 == 0 and raw[92:100] == bytes(8)
    if not whole and len(m) == 19:
        m[4] = real[4]
        ctx.stats['crop_header_fractional_start'] += 1
    if m != real:
        diff = [(OFFS[i], m[i], real[i]) for i in range(min(len(m), len(real))) if m[i] != real[i]]
        ctx.corr_fail('Model.Derived/cropHeader', req, {'differs_at(offset, model, file)': diff[:4]} if len(m) == 19 else ans, ' '.join(real), desc)
        return False
    return True


def check_reblock(ctx, model, src, out, desc):
    args, _ = field_args(src)
    req = 'dhdr reblock ' + ' '.join(str(v) for v in args)
    ctx.stats['corr_requests'] += 1
    ans = model.ask(req)
    got, _ = words(out)
    real = ' '.join(str(v) for v in got)
    if ans != real:
        ctx.corr_fail('Model.Derived/reblockHeader', req, ans, real, desc)
        return False
    return True
