"""Independent SGZ codec written from docs/file-specification.md (plus the version conventions the
property C03 names: footer padding and trace-count field after 0.2.1, microsecond interval after 0.1.6).

Shares no code with seismic_zfp.  Used as
  * the "decoder written from the specification alone" (C02, C03),
  * the reference encoder (raw bytes of the data section, C01),
  * the builder of synthetic files (symbolic data section, arbitrary version word) for read-side checks.
"""
import struct

import numpy as np
import zfpy

DISK = 4096

# The 89 SEG-Y trace header fields (start bytes), in SEG-Y / segyio order (assumption A2: segyio's table).
import segyio as _segyio
FIELDS = [int(f) for f in _segyio.TraceField.enums()[0:89]]
assert len(FIELDS) == 89 and FIELDS[0] == 1 and FIELDS[-1] == 231 and 189 in FIELDS and 193 in FIELDS


def pad(n, m):
    return ((n + m - 1) // m) * m


def version_encode(major, minor, patch, released):
    return (major << 21) + (minor << 11) + (patch << 1) + (1 if released else 0)


def version_decode(n):
    return n >> 21, (n >> 11) & 1023, (n >> 1) & 1023, bool(n & 1)


V_0_1_6 = version_encode(0, 1, 6, True)
V_0_2_1 = version_encode(0, 2, 1, True)


class Layout:
    """Geometry + compression layout of one SGZ file (real extents, blockshape, rate as a Fraction-like pair)."""

    def __init__(self, n, bs, rate_q, is2d=False):
        # n = (n_il, n_xl, n_samples) (2D: (1, n_traces, n_samples)); rate_q = 4*rate (int)
        self.n = tuple(int(v) for v in n)
        self.bs = tuple(int(v) for v in bs)
        self.q = int(rate_q)
        self.is2d = is2d
        d = 2 if is2d else 3
        assert (4 ** d * self.q) % 32 == 0, "unit not a whole number of bytes"
        self.u = 4 ** d * self.q // 32
        self.P = tuple(pad(a, b) for a, b in zip(self.n, self.bs))
        self.NB = tuple(p // b for p, b in zip(self.P, self.bs))
        cells = [max(b // 4, 1) for b in self.bs]
        self.cpb = cells[0] * cells[1] * cells[2]
        assert self.cpb * self.u == DISK, (self.bs, self.q)
        self.n_blocks = self.NB[0] * self.NB[1] * self.NB[2]
        self.n_units = self.n_blocks * self.cpb

    @property
    def rate(self):
        return self.q / 4 if self.q % 4 else self.q // 4

    def unit_of(self, i, x, z):
        """unit index (within the data section) and position inside the 4x4x4 (4x4) cell of a padded voxel"""
        b0, b1, b2 = self.bs
        if self.is2d:
            block = (x // b1) * self.NB[2] + z // b2
            cell = ((x % b1) // 4) * (b2 // 4) + (z % b2) // 4
            return block * self.cpb + cell, (x % 4) * 4 + z % 4
        block = ((i // b0) * self.NB[1] + x // b1) * self.NB[2] + z // b2
        cell = (((i % b0) // 4) * (b1 // 4) + (x % b1) // 4) * (b2 // 4) + (z % b2) // 4
        return block * self.cpb + cell, ((i % 4) * 4 + x % 4) * 4 + z % 4

    def unit_grid(self):
        """array over the padded *cell* grid giving the unit index of each cell (vectorised unit_of)"""
        b0, b1, b2 = self.bs
        if self.is2d:
            x = np.arange(0, self.P[1], 4)[:, None]
            z = np.arange(0, self.P[2], 4)[None, :]
            block = (x // b1) * self.NB[2] + z // b2
            cell = ((x % b1) // 4) * (b2 // 4) + (z % b2) // 4
            return (block * self.cpb + cell)[None, :, :]
        i = np.arange(0, self.P[0], 4)[:, None, None]
        x = np.arange(0, self.P[1], 4)[None, :, None]
        z = np.arange(0, self.P[2], 4)[None, None, :]
        block = ((i // b0) * self.NB[1] + x // b1) * self.NB[2] + z // b2
        cell = (((i % b0) // 4) * (b1 // 4) + (x % b1) // 4) * (b2 // 4) + (z % b2) // 4
        return block * self.cpb + cell

    def provenance_volume(self):
        """expected symbolic value of every padded voxel: (unit+1)*4^d + pos"""
        ug = self.unit_grid() + 1
        if self.is2d:
            p = (np.arange(4)[:, None] * 4 + np.arange(4)[None, :])
            v = ug[0][:, None, :, None] * 16 + p[None, :, None, :]
            return v.reshape(1, self.P[1], self.P[2])
        p = (np.arange(4)[:, None, None] * 4 + np.arange(4)[None, :, None]) * 4 + np.arange(4)[None, None, :]
        v = ug[:, None, :, None, :, None] * 64 + p[None, :, None, :, None, :]
        return v.reshape(self.P)


def all_layouts_3d():
    out = []
    for q in (1, 2, 4, 8, 16, 32, 64, 128):
        prod = 32768 * 4 // q
        b0 = 4
        while b0 <= prod:
            b1 = 4
            while b0 * b1 <= prod:
                b2 = prod // (b0 * b1)
                if b0 * b1 * b2 == prod and b2 >= 4 and (b2 & (b2 - 1)) == 0:
                    out.append((q, (b0, b1, b2)))
                b1 *= 2
            b0 *= 2
    return out


def all_layouts_2d(min_q=4):
    out = []
    for q in (1, 2, 4, 8, 16, 32, 64, 128):
        if q < min_q:
            continue
        prod = 32768 * 4 // q
        b1 = 4
        while b1 * 4 <= prod:
            b2 = prod // b1
            if b1 * b2 == prod and (b2 & (b2 - 1)) == 0 and b2 >= 4:
                out.append((q, (1, b1, b2)))
            b1 *= 2
    return out


# ------------------------------------------------------------------------------------------------ header table

def encode_hw_table(consts=None, stored=None, dups=None):
    """89 x (code, constant, duplicate-of) int32 rows. stored: list of codes with their own array;
    dups: {code: code_of_array_it_duplicates}; consts: {code: value}"""
    consts = consts or {}
    stored = stored or []
    dups = dups or {}
    buf = bytearray(1068)
    for r, code in enumerate(FIELDS):
        c, d = 0, 0
        if code in stored:
            d = code
        elif code in dups:
            d = dups[code]
        elif code in consts:
            c = consts[code]
        buf[r * 12:r * 12 + 12] = struct.pack('<iii', code, c, d)
    return bytes(buf)


def decode_hw_table(raw):
    """-> (consts {code: value}, stored [codes in table order], dups {code: code})"""
    consts, stored, dups = {}, [], {}
    for r in range(89):
        code, c, d = struct.unpack('<iii', raw[r * 12:r * 12 + 12])
        if c != 0 or d == 0:
            consts[code] = c
        elif d == code:
            stored.append(code)
        else:
            dups[code] = d
    return consts, stored, dups


# ------------------------------------------------------------------------------------------------------ header

class Header:
    """Parsed first-4K header fields, by the table of the specification."""

    def __init__(self, raw):
        g = lambda a, f: struct.unpack(f, raw[a:a + struct.calcsize(f)])[0]
        self.n_header_blocks = g(0, '<I')
        self.n_samples, self.n_xl, self.n_il = g(4, '<I'), g(8, '<I'), g(12, '<I')
        self.z0, self.xl0, self.il0 = g(16, '<i'), g(20, '<i'), g(24, '<i')
        self.dz, self.dxl, self.dil = g(28, '<i'), g(32, '<i'), g(36, '<i')
        bpv = g(40, '<i')
        self.q = 4 * bpv if bpv > 0 else (4 // -bpv if bpv < 0 else 0)
        self.bs = (g(44, '<I'), g(48, '<I'), g(52, '<I'))
        self.data_blocks, self.array_bytes, self.n_arrays = g(56, '<I'), g(60, '<I'), g(64, '<I')
        self.tracecount_field = g(68, '<I')
        self.version = g(72, '<I')
        self.source, self.detection = g(76, '<I'), g(80, '<I')
        self.z0_f, self.dz_f = g(84, '<d'), g(92, '<d')
        self.hash = bytes(raw[960:980])
        self.table_raw = bytes(raw[980:2048])
        self.consts, self.stored, self.dups = decode_hw_table(self.table_raw)
        self.is2d = self.bs[0] == 1
        if self.bs == (0, 0, 0) or ((self.bs[0] == 0 or self.bs[1] == 0) and self.bs[2] == 0):
            # files older than the blockshape field: 4 x 4 x (one disk block of units)
            self.bs = (4, 4, 2048 * 4 // self.q)
        self.padded_footer = self.version > V_0_2_1
        self.microseconds = self.version > V_0_1_6
        if self.padded_footer:
            self.tracecount = self.tracecount_field
            self.stride = pad(self.array_bytes, 512)
        else:
            self.tracecount = self.n_il * self.n_xl
            self.stride = self.array_bytes

    def layout(self):
        if self.is2d:
            return Layout((1, self.tracecount, self.n_samples), self.bs, self.q, is2d=True)
        return Layout((self.n_il, self.n_xl, self.n_samples), self.bs, self.q)

    def data_start(self):
        return DISK * self.n_header_blocks

    def footer_offset(self, k):
        return self.data_start() + DISK * self.data_blocks + k * self.stride

    def expected_file_length(self):
        return self.data_start() + DISK * self.data_blocks + self.n_arrays * self.stride

    def axes(self):
        """(ilines, xlines, samples) as the specification defines them (int32 origin + k*step)"""
        il = [self.il0 + k * self.dil for k in range(self.n_il)]
        xl = [self.xl0 + k * self.dxl for k in range(self.n_xl)]
        if self.dz_f != 0:
            z = [self.z0_f + k * (self.dz_f / 1000.0) for k in range(self.n_samples)]
        else:
            step = self.dz / 1000 if self.microseconds else self.dz
            z = [self.z0 + k * step for k in range(self.n_samples)]
        return il, xl, z


def read_header(path):
    with open(path, 'rb') as f:
        first = f.read(DISK)
        nb = struct.unpack('<I', first[0:4])[0]
        f.seek(0)
        raw = f.read(DISK * nb)
    return Header(raw), raw


def conformance_problems(path):
    """C03: list of ways in which the file at `path` fails to conform (empty list = conformant)."""
    import os
    problems = []
    size = os.path.getsize(path)
    if size < DISK:
        return ['shorter than one header block']
    h, raw = read_header(path)
    if len(raw) < DISK * h.n_header_blocks:
        return ['header blocks missing']
    try:
        lay = h.layout()
    except AssertionError as e:
        return [f'blockshape/bit rate do not make a 4096-byte block: {e}']
    padded_voxels = lay.P[0] * lay.P[1] * lay.P[2]
    if padded_voxels * lay.q % (32 * DISK):
        problems.append('padded voxels x bits / 8 is not a whole number of disk blocks')
    if h.data_blocks != padded_voxels * lay.q // (32 * DISK):
        problems.append(f'disk-block count {h.data_blocks} != padded voxels x bits / 8 / 4096 = '
                        f'{padded_voxels * lay.q // (32 * DISK)}')
    grid = h.tracecount if h.is2d else h.n_il * h.n_xl
    if h.array_bytes != 4 * grid:
        problems.append(f'array length {h.array_bytes} != 4 x grid traces {4 * grid}')
    if h.n_arrays != len(h.stored):
        problems.append(f'array count {h.n_arrays} != arrays named by the table {len(h.stored)}')
    if size != h.expected_file_length():
        problems.append(f'file length {size} != header+data+footer {h.expected_file_length()}')
    if h.padded_footer and not h.is2d and h.tracecount > h.n_il * h.n_xl:
        problems.append('trace count exceeds grid')
    return problems


# ------------------------------------------------------------------------------------------------------ decode

_ZT = zfpy.dtype_to_ztype(np.dtype('float32'))


def _dec(buf, shape, rate):
    return zfpy._decompress(bytes(buf), _ZT, shape, rate=rate)


def decode_volume(path, cellwise=None):
    """Decode every sample from the specification alone: each 4x4x4 (4x4) unit on its own, from the address
    Layout.unit_of gives.  Returns the real (unpadded) volume; 2D: (n_traces, n_samples)."""
    h, _ = read_header(path)
    lay = h.layout()
    with open(path, 'rb') as f:
        f.seek(h.data_start())
        data = f.read(DISK * h.data_blocks)
    if len(data) != DISK * h.data_blocks:
        raise IOError('data section truncated')
    rate = lay.q / 4
    if cellwise is None:
        cellwise = lay.n_units <= 6000
    ug = lay.unit_grid()
    if lay.is2d:
        vol = np.zeros((lay.P[1], lay.P[2]), dtype=np.float32)
        if cellwise:
            for cx in range(lay.P[1] // 4):
                for cz in range(lay.P[2] // 4):
                    k = int(ug[0, cx, cz])
                    vol[4 * cx:4 * cx + 4, 4 * cz:4 * cz + 4] = _dec(data[k * lay.u:(k + 1) * lay.u] + bytes(8), (4, 4), rate)
        else:
            b1, b2 = lay.bs[1], lay.bs[2]
            for bx in range(lay.NB[1]):
                for bz in range(lay.NB[2]):
                    blk = bx * lay.NB[2] + bz
                    vol[bx * b1:(bx + 1) * b1, bz * b2:(bz + 1) * b2] = _dec(data[blk * DISK:(blk + 1) * DISK],
                                                                           (b1, b2), rate)
        return vol[:lay.n[1], :lay.n[2]]
    vol = np.zeros(lay.P, dtype=np.float32)
    if cellwise:
        for ci in range(lay.P[0] // 4):
            for cx in range(lay.P[1] // 4):
                for cz in range(lay.P[2] // 4):
                    k = int(ug[ci, cx, cz])
                    vol[4 * ci:4 * ci + 4, 4 * cx:4 * cx + 4, 4 * cz:4 * cz + 4] = \
                        _dec(data[k * lay.u:(k + 1) * lay.u] + bytes(8), (4, 4, 4), rate)
    else:
        b0, b1, b2 = lay.bs
        for bi in range(lay.NB[0]):
            for bx in range(lay.NB[1]):
                for bz in range(lay.NB[2]):
                    blk = (bi * lay.NB[1] + bx) * lay.NB[2] + bz
                    vol[bi * b0:(bi + 1) * b0, bx * b1:(bx + 1) * b1, bz * b2:(bz + 1) * b2] = \
                        _dec(data[blk * DISK:(blk + 1) * DISK], (b0, b1, b2), rate)
    return vol[:lay.n[0], :lay.n[1], :lay.n[2]]


def read_footer_arrays(path):
    """{field code: int32 array (grid traces)} for every stored array, at the offsets the spec+version imply"""
    h, _ = read_header(path)
    out = {}
    with open(path, 'rb') as f:
        for k, code in enumerate(h.stored):
            f.seek(h.footer_offset(k))
            b = f.read(h.array_bytes)
            if len(b) != h.array_bytes:
                raise IOError('footer truncated')
            out[code] = np.frombuffer(b, dtype='<i4')
    return out


def trace_header(path, grid_index, arrays=None):
    """All 89 fields of the trace stored at grid position `grid_index` (regular 3D: trace ordinal)"""
    h, _ = read_header(path)
    arrays = read_footer_arrays(path) if arrays is None else arrays
    out = {}
    for code in FIELDS:
        if code in h.consts:
            out[code] = h.consts[code]
        elif code in arrays:
            out[code] = int(arrays[code][grid_index])
        else:
            out[code] = int(arrays[h.dups[code]][grid_index])
    return out


# ------------------------------------------------------------------------------------------------------ encode

def reference_image(arr, rate, d3=True):
    """ZFP fixed-rate image of `arr` extended to a multiple of 4 in every dimension by edge replication"""
    pads = [(0, (-s) % 4) for s in arr.shape]
    p = np.pad(arr, pads, 'edge')
    c = zfpy.compress_numpy(np.ascontiguousarray(p), rate=rate, write_header=False)
    d = zfpy._decompress(c, _ZT, p.shape, rate=rate)
    return d[tuple(slice(0, s) for s in arr.shape)]


def encode_data_section(arr, lay, fill='edge'):
    """Reference encoder: the data section the specification implies for source `arr` (3D: (il,xl,z); 2D:
    (traces,z)), padded to the blockshape by edge replication (fill='edge') or zeros, block after block."""
    rate = lay.q / 4
    if lay.is2d:
        pads = [(0, lay.P[1] - arr.shape[0]), (0, lay.P[2] - arr.shape[1])]
    else:
        pads = [(0, lay.P[k] - arr.shape[k]) for k in range(3)]
    p = np.pad(arr, pads, 'edge') if fill == 'edge' else np.pad(arr, pads, 'constant')
    out = bytearray()
    if lay.is2d:
        b1, b2 = lay.bs[1], lay.bs[2]
        for bx in range(lay.NB[1]):
            for bz in range(lay.NB[2]):
                blk = np.ascontiguousarray(p[bx * b1:(bx + 1) * b1, bz * b2:(bz + 1) * b2])
                out += zfpy.compress_numpy(blk, rate=rate, write_header=False)
    else:
        b0, b1, b2 = lay.bs
        for bi in range(lay.NB[0]):
            for bx in range(lay.NB[1]):
                for bz in range(lay.NB[2]):
                    blk = np.ascontiguousarray(p[bi * b0:(bi + 1) * b0, bx * b1:(bx + 1) * b1, bz * b2:(bz + 1) * b2])
                    out += zfpy.compress_numpy(blk, rate=rate, write_header=False)
    assert len(out) == DISK * lay.n_blocks, (len(out), lay.n_blocks)
    return bytes(out)


def symbolic_data_section(lay):
    """unit j holds the little-endian integer j+1 (0 = 'never written')"""
    w = min(lay.u, 8)
    ids = np.arange(1, lay.n_units + 1, dtype=np.uint64)
    assert lay.n_units + 1 < 2 ** (8 * w)
    raw = np.zeros((lay.n_units, lay.u), dtype=np.uint8)
    for b in range(w):
        raw[:, b] = (ids >> np.uint64(8 * b)) & np.uint64(255)
    return raw.tobytes()


def header_bytes(lay, version, il=(0, 1), xl=(0, 1), z=(0, 4000), arrays=None, consts=None, dups=None,
                 tracecount=None, filehdr=None, source=0, detection=0, hashbytes=b'\0' * 20, n_header_blocks=2):
    """the header blocks of an SGZ file under the conventions of `version` (encoded word). il/xl = (origin, step);
    z = (start_ms, interval_us). arrays: ordered {code: ...} (only the codes matter here)."""
    arrays = arrays or {}
    hdr = bytearray(DISK * n_header_blocks)
    grid = lay.n[1] if lay.is2d else lay.n[0] * lay.n[1]
    P = lambda a, f, v: hdr.__setitem__(slice(a, a + struct.calcsize(f)), struct.pack(f, v))
    P(0, '<I', n_header_blocks)
    P(4, '<I', lay.n[2])
    if not lay.is2d:
        P(8, '<I', lay.n[1])
        P(12, '<I', lay.n[0])
        P(20, '<i', xl[0])
        P(24, '<i', il[0])
        P(32, '<i', xl[1])
        P(36, '<i', il[1])
    P(16, '<i', z[0])
    P(28, '<i', z[1] if version > V_0_1_6 else z[1] // 1000)
    P(40, '<i', lay.q // 4 if lay.q >= 4 else -(4 // lay.q))
    P(44, '<I', lay.bs[0])
    P(48, '<I', lay.bs[1])
    P(52, '<I', lay.bs[2])
    P(56, '<I', lay.n_blocks)
    P(60, '<I', 4 * grid)
    P(64, '<I', len(arrays))
    P(68, '<I', grid if tracecount is None else tracecount)
    P(72, '<I', version)
    P(76, '<I', source)
    P(80, '<I', detection)
    hdr[960:980] = hashbytes
    hdr[980:2048] = encode_hw_table(consts, list(arrays.keys()), dups)
    if filehdr is not None and n_header_blocks >= 2:
        hdr[DISK:DISK + 3600] = filehdr
    return bytes(hdr)


def build_file(path, lay, version, il=(0, 1), xl=(0, 1), z=(0, 4000), arrays=None, consts=None, dups=None,
               data=None, tracecount=None, filehdr=None, source=0, detection=0, hashbytes=b'\0' * 20,
               n_header_blocks=2, pad_footer=None):
    """Write an SGZ file under the conventions of `version` (encoded word). il/xl = (origin, step);
    z = (start_ms, interval_us). arrays: ordered {code: int32 array over grid traces}. data: bytes of the data
    section (default: symbolic)."""
    arrays = arrays or {}
    grid = lay.n[1] if lay.is2d else lay.n[0] * lay.n[1]
    hdr = header_bytes(lay, version, il=il, xl=xl, z=z, arrays=arrays, consts=consts, dups=dups, tracecount=tracecount,
                       filehdr=filehdr, source=source, detection=detection, hashbytes=hashbytes,
                       n_header_blocks=n_header_blocks)
    if pad_footer is None:
        pad_footer = version > V_0_2_1
    with open(path, 'wb') as f:
        f.write(hdr)
        f.write(symbolic_data_section(lay) if data is None else data)
        for code, a in arrays.items():
            b = np.asarray(a, dtype='<i4').tobytes()
            assert len(b) == 4 * grid
            f.write(b)
            if pad_footer:
                f.write(bytes(-len(b) % 512))
    return path
