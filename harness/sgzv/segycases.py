"""Seeded SEG-Y source cases shared by the conversion-side checks."""
import numpy as np

from . import gen, mksegy


def axes(rng, n):
    il0, xl0 = int(rng.integers(-50, 500)), int(rng.integers(-50, 5000))
    ils = int(rng.choice([1, 2, 3, -1, -2, 7]))
    xls = int(rng.choice([1, 2, 4, -1, -3, 5]))
    il = [il0 + ils * i for i in range(n[0])]
    xl = [xl0 + xls * j for j in range(n[1])]
    return il, xl


def regular_case(ctx, rng, n, name='src.sgy', fmt=None, headers=None, ext=0, dt_us=None, t0=None, il=None, xl=None,
                 binfields=None):
    arr = gen.cube(rng, n)
    a_il, a_xl = axes(rng, n)
    il = a_il if il is None else il
    xl = a_xl if xl is None else xl
    fmt = int(rng.choice([1, 5])) if fmt is None else fmt
    dt_us = int(rng.choice([4000, 2000, 1000, 500, 1001, 333, 250, 65535, 1])) if dt_us is None else dt_us
    t0 = int(rng.choice([0, 0, 100, -200, 1500, -32768, 32767])) if t0 is None else t0
    path = ctx.path(name)
    if headers is not None and hasattr(headers, 'set_final'):
        headers.set_final(n[0] * n[1] - 1)
    mksegy.make_segy(path, arr, ilines=il, xlines=xl, t0=t0, dt_us=dt_us, fmt=fmt, headers=headers, ext_headers=ext,
                     binfields=binfields)
    return {'path': path, 'n': n, 'il': il, 'xl': xl, 'fmt': fmt, 'dt_us': dt_us, 't0': t0, 'ext': ext, 'arr': arr}


def heuristic_hypothesis(hdrs):
    """C04: every field constant or differing between first and last trace, and no two differing fields coincide on
    both ends.  hdrs: list of {field: value} for all traces."""
    first, last = hdrs[0], hdrs[-1]
    varying = []
    for f in first:
        vals = set(h[f] for h in hdrs)
        if len(vals) > 1:
            if first[f] == last[f]:
                return False
            varying.append(f)
    ends = [(first[f], last[f]) for f in varying]
    return len(set(ends)) == len(ends)
