"""Shared engine of the read-side checks (C02, C07, C14, C09): runs read ops on the real reader under the
symbolic decoder with a logging file object, and compares
  O: with what the property says (slice of the decoded volume / refusal; needed-block predicate), and
  K: with the Lean model's answer for the same request (status, shape, provenance of every element, fetch set).
"""
import numpy as np

from . import env, spec, readops, symcodec, iolog, gen
from seismic_zfp.read import SgzReader  # noqa: E402


def model_request(fi, op):
    """line-protocol request for `op` on file `fi`; None if the model has no such entry point"""
    g = fi.lay
    geo = f"read {g.n[0]} {g.n[1]} {g.n[2]} {g.bs[0]} {g.bs[1]} {g.bs[2]} {g.u}"
    k = op[0]
    n2 = g.n[2]
    N = lambda v: 'N' if v is None else str(v)
    if k in ('il', 'xl', 'zs'):
        return f"{geo} {k} {op[1]}"
    if k == 'vol':
        return f"{geo} vol"
    if k in ('ilno', 'xlno') and not fi.is2d and fi.mask is None:
        ax = fi.il if k == 'ilno' else fi.xl
        step = int(ax[1] - ax[0]) if len(ax) > 1 else 1
        return f"{geo} {k} {int(ax[0])} {step} {int(op[1])}"
    if k == 'sub':
        return f"{geo} sub " + ' '.join(str(v) for v in op[1:7])
    if k == 'subp':
        return f"{geo} subp " + ' '.join(str(v) for v in op[1:5])
    if k == 'tr' and fi.mask is None:
        return f"{geo} tr {op[1]} 0 {n2}"
    if k == 'trw' and fi.mask is None:
        return f"{geo} tr {op[1]} {op[2]} {op[3]}"
    if k in ('cd', 'ad'):
        return f"{geo} {k} {op[1]} N N N N"
    if k in ('cdc', 'adc'):
        return f"{geo} {k[:2]} {op[1]} {op[2]} {op[3]} N N"
    if k in ('cdw', 'adw'):
        return f"{geo} {k[:2]} {op[1]} {op[2]} {op[3]} {op[4]} {op[5]}"
    return None


def impl_answer(got, log, data_start):
    """canonical answer of the implementation, comparable with the parsed model answer"""
    if got[0] == 'err':
        return ('err', got[1])
    if got[0] == 'exc':
        return ('exc', got[1])
    a = np.asarray(got[1])
    fetch = iolog.coalesce([(o - data_start, l) for (o, l, _) in log])
    return ('ok', tuple(a.shape), fetch, a.astype(np.int64).ravel())


def parse_model(ans):
    if ans.startswith('err '):
        return ('err', ans[4:].strip())
    if not ans.startswith('ok '):
        return ('bad', ans[:80])
    shape_s, fetch_s, vals_s = ans[3:].split('|')
    shape = tuple(int(v) for v in shape_s.strip().split(',') if v)
    fetch = iolog.coalesce([tuple(int(x) for x in f.split(':')) for f in fetch_s.strip().split(',') if f])
    vals = np.array(vals_s.split(), dtype=np.int64) if vals_s.strip() else np.zeros(0, dtype=np.int64)
    return ('ok', shape, fetch, vals)


def answers_agree(m, i, compare_fetch=True):
    if m[0] != i[0]:
        return False
    if m[0] != 'ok':
        return m[1] == i[1]
    if m[1] != i[1]:
        return False
    if compare_fetch and m[2] != i[2]:
        return False
    return m[3].shape == i[3].shape and bool(np.array_equal(m[3], i[3]))


def brief(ans):
    if ans[0] != 'ok':
        return list(ans)
    return ['ok', list(ans[1]), [list(f) for f in ans[2][:6]], ans[3][:12].tolist()]


class ReadSession:
    """one synthetic file opened through a logging handle under the symbolic decoder"""
    def __init__(self, fi, preload=False, chunk_cache_size=None, blob=False):
        self.fi = fi
        self.blob = blob
        self.handle = iolog.LoggedBlob(fi.path) if blob else iolog.LoggedFile(fi.path)
        self.open_log = None
        self._cm = symcodec.symbolic_decoder()
        self._cm.__enter__()
        try:
            self.r = SgzReader(self.handle, preload=preload, chunk_cache_size=chunk_cache_size)
        except Exception:
            self._cm.__exit__(None, None, None)
            raise
        self.open_log = list(self.handle.log)
        self.handle.log.clear()
        self.data_start = getattr(fi, 'data_start', spec.DISK * 2)

    def cold(self):
        self.r.loader.clear_cache()
        self.r._read_containing_chunk_cached.cache_clear()
        self.r.clear_variant_headers()
        self.r.mask = None

    def run(self, op, cold=True):
        if cold:
            self.cold()
        self.handle.log.clear()
        got = readops.outcome(self.r, op)
        return got, list(self.handle.log)

    def close(self):
        try:
            self.r.close()
        except Exception:
            pass
        self._cm.__exit__(None, None, None)


def in_range_ops(rng, fi, count=1):
    """read ops with in-range arguments on interesting residues, for every read path of the file's kind"""
    n0, n1, n2 = fi.n
    b0, b1, b2 = fi.lay.bs
    ops = []
    pick = lambda n, b: int(rng.choice(sorted(set(v for v in [0, 1, 3, 4, b - 1, b, b + 1, 2 * b - 1, 2 * b, n - 1, n // 2,
                                                              int(rng.integers(n))] if 0 <= v < n))))
    for _ in range(count):
        if fi.is2d:
            t0, t1 = gen.bounds_on_residues(rng, n1, b1)
            z0, z1 = gen.bounds_on_residues(rng, n2, b2)
            ops += [('tr', pick(n1, b1)), ('trw', pick(n1, b1), z0, z1), ('subp', t0, t1, z0, z1),
                    ('subp', 0, n1, 0, n2), ('subp', pick(n1, b1), n1, 0, n2)]
            ops[-1] = ('subp', min(ops[-1][1], n1 - 1), n1, 0, n2)
            continue
        i0, i1 = gen.bounds_on_residues(rng, n0, b0)
        x0, x1 = gen.bounds_on_residues(rng, n1, b1)
        z0, z1 = gen.bounds_on_residues(rng, n2, b2)
        ops += [('il', pick(n0, b0)), ('xl', pick(n1, b1)), ('zs', pick(n2, b2)), ('zs', pick(n2, b2)),
                ('sub', i0, i1, x0, x1, z0, z1), ('tr', pick(fi.tracecount, b1)),
                ('trw', pick(fi.tracecount, b1), z0, z1)]
        if n2 > b2:
            # traces longer than one block along z: boxes several trace columns wide whose sample range covers exactly one
            # block's worth of samples -- one whole z-block, and the same length straddling two z-blocks
            kz = int(rng.integers(0, n2 // b2))
            ops.append(('sub', i0, i1, 0, n1, kz * b2, min(n2, (kz + 1) * b2)))
            if 2 * b2 - 6 <= n2 and b2 > 8:
                ops.append(('sub', 0, n0, x0, x1 if x1 - x0 > 4 else n1, b2 - 2, 2 * b2 - 6))
        c = int(rng.integers(-n1 + 1, n0))
        L = readops.cd_len(c, n0, n1)
        a, b = gen.bounds_on_residues(rng, L, 4)
        ops += [('cd', c), ('cdc', c, a, b), ('cdw', c, a, b, z0, z1)]
        c = int(rng.integers(0, n0 + n1 - 1))
        L = readops.ad_len(c, n0, n1)
        a, b = gen.bounds_on_residues(rng, L, 4)
        ops += [('ad', c), ('adc', c, a, b), ('adw', c, a, b, z0, z1)]
        ops += [('ilno', fi.il[pick(n0, b0)]), ('xlno', fi.xl[pick(n1, b1)]), ('zsc', fi.z[pick(n2, b2)])]
        za, zb = sorted(rng.choice(n2 + 1, size=2, replace=False).tolist())
        step = fi.z[-1] - fi.z[-2] if n2 > 1 else 0
        zb_c = fi.z[zb] if zb < n2 else fi.z[-1] + step
        ops += [('trc', pick(fi.tracecount, b1), fi.z[za], zb_c), ('trc', pick(fi.tracecount, b1), None, None)]
    return ops


def out_of_range_ops(rng, fi, count=1):
    """read ops with at least one component outside its valid range (C14's quantifier)"""
    n0, n1, n2 = fi.n
    P0, P1, P2 = fi.lay.P
    ops = []
    oor = gen.out_of_range_values
    ch = lambda xs: int(rng.choice(xs))
    T_ = fi.tracecount
    grid = (P1 if fi.is2d else P0 * P1)
    for v in sorted(set([T_, T_ + 1, grid - 1, grid, grid + 3, 127, 128, 10 * T_ + 7, -T_ - 1, -5 * T_, -1, -2])):
        if not (0 <= v < T_):
            ops.append(('hdr', v))
    for _ in range(count):
        if fi.is2d:
            bt, bz = oor(n1, P1), oor(n2, P2)
            t_in, z0, z1 = int(rng.integers(n1)), 0, n2
            ops += [('tr', ch(bt)), ('trw', t_in, ch(bz), n2), ('trw', t_in, 0, ch([v for v in bz if v > 0] + [n2 + 1])),
                    ('trw', t_in, 3 if n2 > 3 else 1, 3 if n2 > 3 else 1), ('trw', t_in, min(2, n2), 1),
                    ('subp', ch(bt), n1, 0, n2), ('subp', 0, ch([v for v in bt if v != 0]), 0, n2),
                    ('subp', 0, n1, ch(bz), n2), ('subp', 0, n1, 0, ch(bz)), ('subp', 1 if n1 > 1 else 0, 1 if n1 > 1 else 0, 0, n2),
                    ('subp', 0, n1, min(2, n2), 1),
                    ('il', 0), ('xl', 0), ('zs', 0), ('sub', 0, 1, 0, 1, 0, 1), ('vol',), ('cd', 0), ('ad', 0)]
            continue
        b_i, b_x, b_z = oor(n0, P0), oor(n1, P1), oor(n2, P2)
        T = fi.tracecount
        ops += [('il', ch(b_i)), ('xl', ch(b_x)), ('zs', ch(b_z)),
                ('sub', ch(b_i), n0, 0, n1, 0, n2), ('sub', 0, ch([v for v in b_i if v != 0]), 0, n1, 0, n2),
                ('sub', 0, n0, ch(b_x), n1, 0, n2), ('sub', 0, n0, 0, ch([v for v in b_x if v != 0]), 0, n2),
                ('sub', 0, n0, 0, n1, ch(b_z), n2), ('sub', 0, n0, 0, n1, 0, ch([v for v in b_z if v != 0])),
                ('sub', 1 if n0 > 1 else 0, 1 if n0 > 1 else 0, 0, n1, 0, n2), ('sub', 0, n0, min(2, n1), 1, 0, n2),
                ('sub', 0, n0, 0, n1, n2 - 1, n2 - 1),
                ('tr', ch(oor(T, P0 * P1))), ('trw', int(rng.integers(T)), ch(b_z), n2),
                ('trw', int(rng.integers(T)), 0, ch([v for v in b_z if v > 0])),
                ('trw', int(rng.integers(T)), n2 - 1, n2 - 1), ('trw', int(rng.integers(T)), min(2, n2), 1),
                ('cd', ch([-n1, -n1 - 1, n0, n0 + 1, 5 * n0, -7 * n1])), ('ad', ch([-1, n0 + n1 - 1, n0 + n1, -5, 3 * (n0 + n1)])),
                ('subp', 0, 1, 0, 1)]
        c = int(rng.integers(-n1 + 1, n0))
        L = readops.cd_len(c, n0, n1)
        ops += [('cdc', c, ch([-1, L, L + 1]), L), ('cdc', c, 0, ch([0, L + 1, -1, L + 5])), ('cdc', c, L - 1, L - 1),
                ('cdw', c, 0, L, ch(b_z), n2), ('cdw', c, 0, L, 0, ch([v for v in b_z if v != 0])), ('cdw', c, 0, L, min(2, n2), 1)]
        if L > 1:
            ops += [('cdc', c, 1, 1), ('cdc', c, L - 1, 1)]
        c = int(rng.integers(0, n0 + n1 - 1))
        L = readops.ad_len(c, n0, n1)
        ops += [('adc', c, ch([-1, L, L + 1]), L), ('adc', c, 0, ch([0, L + 1, -1, L + 5])),
                ('adw', c, 0, L, ch(b_z), n2), ('adw', c, 0, L, 0, ch([v for v in b_z if v != 0])), ('adw', c, 0, L, n2 - 1, n2 - 1)]
        no_il = [v for v in [fi.il[0] - (fi.il[1] - fi.il[0] if n0 > 1 else 1), fi.il[-1] + (fi.il[1] - fi.il[0] if n0 > 1 else 1),
                             fi.il[0] + 100003] if v not in fi.il]
        no_xl = [v for v in [fi.xl[0] - (fi.xl[1] - fi.xl[0] if n1 > 1 else 1), fi.xl[-1] + (fi.xl[1] - fi.xl[0] if n1 > 1 else 1),
                             fi.xl[0] + 100003] if v not in fi.xl]
        ops += [('ilno', ch(no_il)), ('xlno', ch(no_xl)), ('zsc', fi.z[0] - 1.0), ('zsc', fi.z[-1] + (fi.z[1] - fi.z[0] if n2 > 1 else 1))]
        if n0 > 1 and abs(fi.il[1] - fi.il[0]) > 1:
            ops.append(('ilno', fi.il[0] + (1 if fi.il[1] > fi.il[0] else -1)))
    return ops


def check_ops(ctx, model, sess, ops, props=('C02', 'C07', 'C14'), cold=True, tag=''):
    """Run ops; record property failures for the properties in `props` and correspondence failures.
    Returns number of ops run."""
    fi = sess.fi
    desc = {'n': fi.n, 'bs': fi.lay.bs, 'q': fi.lay.q, 'is2d': fi.is2d, 'irregular': fi.mask is not None,
            'il': fi.il[:2], 'xl': fi.xl[:2], 'z': fi.z[:2], 'tag': tag}
    for op in ops:
        got, log = sess.run(op, cold=cold)
        want = readops.expected(fi, op)
        inrange = want[0] == 'ok'
        ctx.case((desc['n'], desc['bs'], desc['q'], op), nontrivial=True,
                 sample={'file': desc, 'op': op, 'expected': want[0], 'got': got[0]})
        ctx.stats['op_' + op[0]] += 1
        ctx.stats['layout_' + ('2d' if fi.is2d else 'default' if fi.lay.bs[:2] == (4, 4) else
                               'zslice' if fi.lay.bs[2] == 4 else 'general')] += 1
        ctx.stats['ops_in_range' if inrange else 'ops_out_of_range'] += 1
        # ---- O: the property on the real code
        if inrange:
            if got[0] != 'ok':
                if 'C02' in props:
                    ctx.fail(f'in-range read {op} did not return: {got}', {'file': desc, 'op': op})
            elif op[0] == 'hdr':
                if not readops.same(got[1], want[1]) and ('C02' in props or 'C14' in props):
                    ctx.fail(f'trace header {op[1]} differs from the stored one', {'file': desc, 'op': op})
                continue
            elif not readops.same(got[1], want[1]):
                if 'C02' in props or 'C09' in props:
                    a, w = np.asarray(got[1]), np.asarray(want[1])
                    ctx.fail(f'read {op} is not the corresponding slice of the decoded volume '
                             f'(shape {a.shape} vs {w.shape})', {'file': desc, 'op': op,
                                                                'got_head': a.ravel()[:8].tolist(),
                                                                'want_head': w.ravel()[:8].tolist()})
            if 'C02' in props and got[0] == 'ok' and op[0] in ('sub', 'subp', 'tr', 'trw'):
                # the optional keyword arguments of the read methods, away from their defaults, on in-range arguments:
                # the same slice (decompression without worker threads; bounds relaxed to the padded extent; the grid
                # ordinal taken as it is - on a file without holes that is the trace ordinal)
                r = sess.r
                variants = []
                if op[0] == 'sub':
                    variants = [('multithreading=False', lambda: r.read_subvolume(*op[1:7], multithreading=False)),
                                ('access_padding=True', lambda: r.read_subvolume(*op[1:7], access_padding=True))]
                elif op[0] == 'subp':
                    variants = [('access_padding=True', lambda: r.read_subplane(*op[1:5], access_padding=True))]
                elif fi.mask is None and not fi.is2d:
                    variants = [('override_unstructured_mapping=True',
                                 lambda: r.get_trace(*op[1:], override_unstructured_mapping=True))]
                for vname, fn in variants:
                    ctx.stats['keyword_variants'] += 1
                    try:
                        gv = fn()
                    except Exception as e:  # noqa
                        ctx.fail(f'in-range read {op} with {vname} raised {type(e).__name__}', {'file': desc, 'op': op, 'keyword': vname})
                        continue
                    if not readops.same(gv, want[1]):
                        ctx.fail(f'read {op} with {vname} is not the corresponding slice of the decoded volume',
                                 {'file': desc, 'op': op, 'keyword': vname})
            if ('C02' in props or 'C09' in props) and got[0] == 'ok' and op[0] in ('il', 'xl', 'zs', 'tr', 'trw', 'sub', 'subp') \
                    and isinstance(op[1], int) and ctx.stats['ops_in_range'] % 3 == 0:
                # a read that fails part-way (its first range read raises) between two good ones: the call made again must
                # return its own slice, not what the reader still holds from the read before the failure
                nb = None
                for dlt in (4, -4, 1, -1, fi.lay.bs[1], -fi.lay.bs[1]):
                    cand = (op[0], op[1] + dlt) + tuple(op[2:]) if op[0] not in ('sub', 'subp') else \
                        (op[0], op[1] + dlt, op[2] + dlt) + tuple(op[3:])
                    if cand != op and readops.expected(fi, cand)[0] == 'ok':
                        nb = cand
                        break
                if nb is not None:
                    sess.handle.plan = iolog.FaultPlan({0: 'exc'})
                    try:
                        failed, _ = sess.run(nb, cold=False)
                    finally:
                        sess.handle.plan = None
                    again, _ = sess.run(nb, cold=False)
                    ctx.stats['retry_after_failed_read'] += 1
                    wnb = readops.expected(fi, nb)
                    if again[0] != 'ok' or not readops.same(again[1], wnb[1]):
                        ctx.fail(f'read {nb} repeated after it had failed with an I/O error (earlier good read: {op}) '
                                 + ('did not return' if again[0] != 'ok' else 'is not the corresponding slice of the decoded volume'),
                                 {'file': desc, 'sequence': [op, f'{nb} with its first range read failing ({failed[0]})', nb]})
                    if failed[0] == 'ok' and not readops.same(failed[1], wnb[1]):
                        ctx.fail(f'read {nb} whose first range read failed returned a value that is not its slice',
                                 {'file': desc, 'sequence': [op, nb]})
            if 'C07' in props and got[0] == 'ok':
                need = readops.needed_blocks(fi, op)
                tb, outside = readops.touched_blocks(fi, log, sess.data_start)
                if fi.mask is not None and op[0] in ('tr', 'trw', 'trc'):
                    # scoping (DESIGN.md C07): an irregular file's ordinal->grid map is one footer array, fetched whole
                    # at most once per reader; it is header information, not sample data
                    foot = sess.data_start + spec.DISK * fi.lay.n_blocks
                    mask_reads = [l for l in log if l[0] >= foot]
                    if len(mask_reads) <= 1 and all(l[1] == 4 * fi.n[0] * fi.n[1] for l in mask_reads):
                        outside -= sum(l[1] for l in mask_reads)
                dup = iolog.overlap_bytes(log)
                short = [l for l in log if l[2] != l[1]]
                if tb - need or outside or dup or (cold and need - tb):
                    ctx.fail(f'read {op} fetched {len(tb - need)} blocks holding nothing requested, {outside} bytes '
                             f'outside the data section, {dup} bytes twice'
                             + (f', {len(need - tb)} needed blocks untouched' if cold and need - tb else ''),
                             {'file': desc, 'op': op, 'ranges': log[:12]})
        else:
            ctx.stats['err_' + want[1]] += 1
            alt = readops.negative_ordinal_alternative(fi, op)
            if 'C14' in props and got[0] == 'ok' and alt is not None and readops.same(got[1], alt[1]):
                ctx.stats['negative_ordinal_python_semantics'] += 1
            elif 'C14' in props:
                if got[0] == 'ok':
                    ctx.fail(f'out-of-range read {op} returned '
                             + ('a header' if isinstance(got[1], dict) else f'an array of shape {np.asarray(got[1]).shape}')
                             + f' instead of raising {want[1]}', {'file': desc, 'op': op})
                elif got[0] == 'exc' or got[1] != want[1]:
                    ctx.fail(f'out-of-range read {op} raised {got[1]} instead of {want[1]}', {'file': desc, 'op': op})
        # ---- K: model vs implementation
        if model is not None:
            req = model_request(fi, op)
            if req is not None and op[0] not in ('zsc', 'trc'):
                ctx.stats['corr_requests'] += 1
                m = parse_model(model.ask(req))
                i = impl_answer(got, log, sess.data_start)
                if not answers_agree(m, i, compare_fetch=cold and 'C07' in props):
                    ctx.corr_fail('Model.Reader', req, brief(m), brief(i), {'file': desc, 'op': op})
    return len(ops)
