"""Seeded generators shared by the checks: geometries, layouts, cubes, boxes."""
import numpy as np

from . import spec


def rng_for(seed, *salt):
    import zlib
    return np.random.default_rng([int(seed) & 0xffffffff] + [zlib.crc32(str(s).encode()) & 0xffffffff for s in salt])


def extents_for_block(rng, b, small_cap=None):
    """an extent hitting an interesting residue class relative to block size b"""
    cands = [1, 2, 3, 4, 5, 6, 7, 8, 9, b - 1, b, b + 1, 2 * b - 1, 2 * b, 2 * b + 1, 2 * b + 2, 3 * b + 2]
    cands = [c for c in cands if c >= 2 and (small_cap is None or c <= small_cap)]
    return int(rng.choice(cands))


def pick_layout_3d(rng, klass=None):
    lays = spec.all_layouts_3d()
    if klass == 'default':
        lays = [l for l in lays if l[1][0] == 4 and l[1][1] == 4]
    elif klass == 'zslice':
        lays = [l for l in lays if l[1][2] == 4]
    elif klass == 'general':
        lays = [l for l in lays if not (l[1][0] == 4 and l[1][1] == 4) and l[1][2] != 4]
    elif klass == 'b0is4':
        lays = [l for l in lays if l[1][0] == 4 and l[1][1] != 4]
    return lays[int(rng.integers(len(lays)))]


def geometry_3d(rng, klass=None, max_voxels=400_000, max_units=60_000):
    """(n, bs, q): real extents on interesting residues of the blockshape, capped in total size"""
    for _ in range(200):
        q, bs = pick_layout_3d(rng, klass)
        n = tuple(extents_for_block(rng, b) for b in bs)
        lay = spec.Layout(n, bs, q)
        if lay.P[0] * lay.P[1] * lay.P[2] <= max_voxels and lay.n_units < max_units:
            return n, bs, q
    q, bs = 16, (4, 4, 512)
    return (5, 6, 7), bs, q


def geometry_2d(rng, max_voxels=300_000):
    lays = spec.all_layouts_2d()
    for _ in range(200):
        q, bs = lays[int(rng.integers(len(lays)))]
        n = (1, extents_for_block(rng, bs[1]), extents_for_block(rng, bs[2]))
        lay = spec.Layout(n, bs, q, is2d=True)
        if lay.P[1] * lay.P[2] <= max_voxels:
            return n, bs, q
    return (1, 9, 70), (1, 16, 256), 32


def cube(rng, n, rare=True):
    """finite float32 cube with structure (so that low rates are not all-zero) and full-range noise; rare=False: without
    the rare value classes (for checks that recognise *positions* by comparing decoded samples with the source within
    the codec's error, which is relative to the largest value of a 4x4x4 block, not of a trace)"""
    i, x, z = np.meshgrid(np.arange(n[0]), np.arange(n[1]), np.arange(n[2]), indexing='ij')
    base = np.sin(0.3 * i + 0.17 * x + 0.05 * z) * 1000.0 + 13.0 * i - 7.0 * x
    noise = rng.standard_normal(n) * 50.0
    a = (base + noise).astype(np.float32)
    # now and then, rare but valid sample values: constant cubes, zero and -0.0 regions, huge and tiny magnitudes,
    # denormals, the largest finite floats
    r = rng.random()
    if rare and r < 0.16:
        k = int(r / 0.02)
        sl = tuple(slice(int(rng.integers(0, m)), None) for m in n)
        if k == 0:
            a[...] = np.float32(rng.choice([0.0, 1.0, -7.25, 3.0e10]))
        elif k == 1:
            a[sl] = 0.0
        elif k == 2:
            a[sl] = -0.0
        elif k == 3:
            a *= np.float32(1e30)
        elif k == 4:
            a *= np.float32(1e-30)
        elif k == 5:
            a[sl] = (a[sl] * np.float32(1e-42)).astype(np.float32)          # denormals
        elif k == 6:
            a[sl] = np.where(rng.random(a[sl].shape) < .5, np.finfo(np.float32).max, -np.finfo(np.float32).max)
        else:
            a[0:1] = a[0, 0, 0]                                               # one constant inline
    return a


def linear_cube(n):
    """value = own linear index (exact in float32 below 2^24): used with the symbolic encoder"""
    assert n[0] * n[1] * n[2] < 2 ** 24
    return np.arange(n[0] * n[1] * n[2], dtype=np.float32).reshape(n)


def bounds_on_residues(rng, n, b, pad_n=None):
    """an in-range [lo, hi) on interesting residues mod 4 and mod b"""
    marks = sorted(set(v for v in [0, 1, 3, 4, 5, b - 1, b, b + 1, 2 * b - 1, 2 * b, 2 * b + 1, n - 1, n - 2, n // 2,
                                   int(rng.integers(0, n))] if 0 <= v < n))
    lo = int(rng.choice(marks))
    his = sorted(set(v for v in [lo + 1, lo + 2, lo + 4, lo + 5, lo + b, lo + b + 1, n, n - 1, 4 * ((lo // 4) + 1),
                                 b * ((lo // b) + 1), int(rng.integers(lo + 1, n + 1))] if lo < v <= n))
    hi = int(rng.choice(his))
    return lo, hi


def out_of_range_values(n, p):
    """ordinals outside [0, n): just outside, far, negative, inside padding"""
    return sorted(set([-1, -2, -n, -n - 1, n, n + 1, p - 1, p, p + 1, 10 * n + 7, -10 * n - 3]) - set(range(0, n)))


def noncontiguous(arr, k):
    """an array equal to `arr` (same dtype, shape, values) whose memory layout is not C-contiguous: what a caller gets from
    a transpose, a Fortran-ordered load or a strided view of a larger cube -- all valid NumpyConverter inputs"""
    kind = k % 4
    if kind == 0:
        return np.asfortranarray(arr)
    if kind == 1:
        big = np.zeros((arr.shape[0], arr.shape[1] * 2, arr.shape[2] + 3), dtype=arr.dtype)
        big[:, ::2, 1:1 + arr.shape[2]] = arr
        return big[:, ::2, 1:1 + arr.shape[2]]
    if kind == 2:
        return np.ascontiguousarray(arr.transpose(2, 0, 1)).transpose(1, 2, 0)
    return np.ascontiguousarray(arr[::-1])[::-1]


def broadcast_view(arr, k):
    """(view, values): a read-only zero-stride view (np.broadcast_to of one trace sample / one crossline / one inline along
    the remaining axis) and the cube of values it denotes -- what a caller gets when a horizon, a wavelet or a constant is
    broadcast into a cube; a valid NumpyConverter input like any other ndarray"""
    ax = k % 3
    sl = [slice(None)] * 3
    sl[ax] = slice(0, 1)
    view = np.broadcast_to(arr[tuple(sl)], arr.shape)
    return view, np.array(view)
