"""Source anchors: is the code each property is anchored in (properties.jsonl: anchors.files) still, statement for statement,
the code the model was transcribed from?  A hash of each file's AST (docstrings and comments do not count) is recorded in
/verif/anchors.json when the model is (re)validated against a tree.  A differing hash is not a violation - a harmless
rewrite changes it too - but it tells the check that the hand-written model may no longer describe the code, so the
correspondence and the search for a failing input run deeper (Ctx.boost) on exactly those runs."""
import ast
import hashlib
import json
import os

from . import env

V = os.path.dirname(os.path.dirname(os.path.dirname(os.path.abspath(__file__))))
RECORD = os.path.join(V, 'anchors.json')


def _strip(tree):
    for node in ast.walk(tree):
        if isinstance(node, (ast.FunctionDef, ast.ClassDef, ast.AsyncFunctionDef, ast.Module)):
            b = node.body
            if b and isinstance(b[0], ast.Expr) and isinstance(getattr(b[0], 'value', None), ast.Constant) \
                    and isinstance(b[0].value.value, str):
                node.body = b[1:] or [ast.Pass()]
    return tree


def file_hash(path):
    try:
        src = open(path, encoding='utf-8').read()
        return hashlib.sha1(ast.dump(_strip(ast.parse(src)), include_attributes=False).encode()).hexdigest()[:16]
    except (OSError, SyntaxError) as e:
        return f'unreadable:{type(e).__name__}'


def all_files():
    d = os.path.join(env.REPO, 'seismic_zfp')
    return sorted(f'seismic_zfp/{f}' for f in os.listdir(d) if f.endswith('.py'))


def current(files=None):
    return {f: file_hash(os.path.join(env.REPO, f)) for f in (files or all_files())}


def property_files(pid):
    for line in open(os.path.join(V, 'properties.jsonl')):
        d = json.loads(line)
        if d['id'] == pid:
            return sorted(d['anchors']['files'])
    return []


def status(pid):
    """{'recorded_at', 'files', 'changed'}: changed = anchored files whose AST differs from the recorded one (or that are gone)"""
    try:
        rec = json.load(open(RECORD))
    except OSError:
        return {'recorded_at': None, 'files': property_files(pid), 'changed': ['<no anchors.json>']}
    files = [f for f in property_files(pid) if f.endswith('.py')]
    cur = current(files)
    changed = sorted(f for f in files if rec['files'].get(f) != cur[f])
    return {'recorded_at': rec.get('repo_head'), 'files': files, 'changed': changed}
