"""Generators of synthetic read-side files (symbolic data section) over layouts, kinds and format versions."""
import numpy as np

from . import gen, spec, synth

VERSIONS = [(0, 2, 9, True), (0, 2, 9, False), (0, 2, 2, True), (0, 2, 2, False), (0, 2, 1, True), (0, 1, 7, True),
            (0, 1, 6, True), (0, 0, 0, False)]


def read_files(ctx, rng, count, kinds=('default', 'zslice', 'general', 'b0is4', 'default', '2d', 'irregular', None),
               max_voxels=40_000, versions=False):
    """yield FileInfo objects; file is at ctx.path('s<k>.sgz') and is overwritten by the next one"""
    for k in range(count):
        kind = kinds[k % len(kinds)]
        p = ctx.path('synth.sgz')
        ver = None
        if versions:
            ver = spec.version_encode(*VERSIONS[int(rng.integers(len(VERSIONS)))])
        if kind == '2d':
            n, bs, q = gen.geometry_2d(rng, max_voxels=max_voxels)
            yield synth.make(p, n, bs, q, rng, is2d=True, version=ver if ver and ver > spec.V_0_2_1 else None)
        elif kind == 'irregular':
            n, bs, q = gen.geometry_3d(rng, klass='default' if rng.random() < .6 else None, max_voxels=max_voxels)
            if n[0] * n[1] < 4:
                n = (max(n[0], 2), max(n[1], 3), n[2])
            yield synth.make(p, n, bs, q, rng, irregular=True, n_arrays=int(rng.integers(2, 5)), il_dup=bool(rng.random() < .4))
        else:
            n, bs, q = gen.geometry_3d(rng, klass=kind, max_voxels=max_voxels)
            yield synth.make(p, n, bs, q, rng, version=ver, n_arrays=int(rng.integers(0, 5)), dups=bool(rng.random() < .3))
