"""Synthetic SGZ files for read-side checks: header and footer by the harness' spec encoder, data section
symbolic (unit j holds j+1) or real."""
import numpy as np

from . import spec, readops


def make(path, n, bs, q, rng=None, is2d=False, version=None, il=None, xl=None, z=None, n_arrays=2, irregular=False,
         holes=0.2, data=None, dups=False, n_header_blocks=2, il_dup=False):
    """returns FileInfo with the expected symbolic provenance volume"""
    rng = rng or np.random.default_rng(0)
    lay = spec.Layout(n, bs, q, is2d=is2d)
    version = spec.version_encode(0, 2, 9, True) if version is None else version
    il_given, xl_given = il is not None, xl is not None
    il = il or (int(rng.integers(-30, 300)), int(rng.choice([1, 2, 5, -1, -3])))
    xl = xl or (int(rng.integers(-30, 3000)), int(rng.choice([1, 3, 4, -2])))
    # large-magnitude line numbers (survey numbering in the 10^5..10^9 range, near the int32 limits): a coordinate
    # lookup that is not exact (tolerance, float32) only shows there
    big = [100000, 123456, 1000003, 16777217, 2 ** 31 - 1 - 6 * max(n[0], n[1]), -(2 ** 31) + 6 * max(n[0], n[1]), -250000]
    if not il_given and rng.random() < 0.3:
        il = (int(rng.choice(big)), int(rng.choice([1, 2, -1, 5])) if abs(il[1]) > 5 else il[1])
    if not xl_given and rng.random() < 0.3:
        xl = (int(rng.choice(big)), int(rng.choice([1, 2, -2, 4])) if abs(xl[1]) > 4 else xl[1])
    for ax_name, ax, cnt in (('il', il, n[0]), ('xl', xl, n[1])):
        last = ax[0] + ax[1] * (cnt - 1)
        if not (-2 ** 31 <= last < 2 ** 31):
            if ax_name == 'il':
                il = (ax[0] - ax[1] * (cnt - 1), ax[1])
            else:
                xl = (ax[0] - ax[1] * (cnt - 1), ax[1])
    z = z or (int(rng.integers(-100, 500)), int(rng.choice([4000, 2000, 1000, 500, 1001, 333])))
    if version <= spec.V_0_1_6 and z[1] % 1000:
        z = (z[0], 1000 * (z[1] // 1000 + 1))   # interval in whole milliseconds up to 0.1.6
    grid = n[1] if is2d else n[0] * n[1]
    mask = None
    tracecount = grid
    arrays = {}
    consts = {115: n[2], 117: z[1] if z[1] < 32768 else 0, 109: z[0]}
    dupmap = {}
    if not is2d:
        ilg = np.repeat(np.array([il[0] + k * il[1] for k in range(n[0])]), n[1])
        xlg = np.tile(np.array([xl[0] + k * xl[1] for k in range(n[1])]), n[0])
        if irregular:
            mask = rng.random(grid) >= holes
            # keep every line populated
            m2 = mask.reshape(n[0], n[1])
            for i in range(n[0]):
                if not m2[i].any():
                    m2[i, int(rng.integers(n[1]))] = True
            for x in range(n[1]):
                if not m2[:, x].any():
                    m2[int(rng.integers(n[0])), x] = True
            if m2.all():
                m2[-1, -1] = False
            mask = m2.reshape(-1)
            mask &= (ilg != 0)   # a stored inline number 0 *is* a hole in this format
            tracecount = int(mask.sum())
            ilg = np.where(mask, ilg, 0)
            xlg = np.where(mask, xlg, 0)
    extra_codes = [181, 185, 1, 5, 21, 73, 77]
    if not is2d:
        arrays[189] = ilg
        arrays[193] = xlg
    for c in extra_codes[:max(0, n_arrays - len(arrays))]:
        a = rng.integers(-2 ** 31, 2 ** 31 - 1, size=grid)
        arrays[c] = np.where(mask, a, 0) if mask is not None else a
    arrays = dict(sorted(arrays.items()))
    if dups and 181 in arrays:
        dupmap = {197: 181}
    if il_dup and not is2d:
        # the inline numbers are stored under an earlier header word (FieldRecord, code 9) and INLINE_3D is recorded as its
        # duplicate -- what heuristic detection writes for a SEG-Y whose field record number equals its inline number
        arrays[9] = arrays.pop(189)
        arrays = dict(sorted(arrays.items()))
        dupmap[189] = 9
    # the source-data hash field: a function of the samples alone (symbolic data: of the layout), as in real files --
    # two files with the same samples and different headers carry the same hash
    import hashlib
    hashbytes = hashlib.sha1(repr((tuple(n), tuple(bs), q, bool(is2d), None if data is None else len(data))).encode()).digest()
    spec.build_file(path, lay, version, il=il, xl=xl, z=z, arrays=arrays, consts=consts, dups=dupmap, data=data,
                    tracecount=tracecount, n_header_blocks=n_header_blocks, hashbytes=hashbytes)
    fi = readops.FileInfo(lay, il=il, xl=xl, z=z, tracecount=tracecount, mask=mask,
                          volume=lay.provenance_volume() if data is None else None,
                          arrays=arrays, consts=consts, dups=dupmap)
    fi.path = path
    fi.version = version
    fi.data_start = spec.DISK * n_header_blocks
    return fi
