"""Known findings (DESIGN.md section 12): /verif/known_findings.json lists them; the predicates below decide
whether a failing input *is* that finding.  The JSON file is never written at run time."""
import json
import os

from . import env

_PRED = {}


def predicate(fid):
    def deco(f):
        _PRED[fid] = f
        return f
    return deco


def load():
    p = os.path.join(env.VERIF, 'known_findings.json')
    if not os.path.exists(p):
        return []
    return json.load(open(p)).get('findings', [])


def match(pid, what, inp):
    for f in load():
        if f.get('status') != 'finding' or f.get('property') != pid:
            continue
        pred = _PRED.get(f['id'])
        try:
            if pred is not None and pred(what, inp):
                return f
        except Exception:
            continue
    return None


# ---- predicates (kept next to the readable form in known_findings.json)

@predicate('KF-C08-inline-zero')
def _kf_c08_inline_zero(what, inp):
    return isinstance(inp, dict) and inp.get('irregular') and 0 in inp.get('ilines', [])


@predicate('KF-C08-segyio-structured')
def _kf_c08_segyio_structured(what, inp):
    return isinstance(inp, dict) and inp.get('irregular') and inp.get('segyio_reports_structured')


@predicate('KF-C19-2d-subbit')
def _kf_c19_2d_subbit(what, inp):
    if not (isinstance(inp, dict) and inp.get('is2d') and 'not resolved to itself' in what and inp.get('impl') == 'err value'):
        return False
    exp = str(inp.get('expected', '')).split()
    return len(exp) == 5 and exp[0] == 'ok' and exp[1] in ('1', '2') and exp[2] == '1'
