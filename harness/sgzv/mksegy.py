"""Seeded SEG-Y sources, written with segyio (assumption A2: segyio is the oracle for the source side)."""
import struct

import numpy as np
import segyio

TF = segyio.TraceField
ALL_FIELDS = [int(f) for f in TF.enums()[0:89]]
_W = {}
for _i, _c in enumerate(ALL_FIELDS):
    _nxt = ALL_FIELDS[_i + 1] if _i + 1 < len(ALL_FIELDS) else 233
    _W[_c] = 4 if _nxt - _c >= 4 else 2
FIELD_WIDTH = _W  # bytes per field (2 or 4), derived from consecutive start bytes


def field_range(code):
    return (-2 ** 15, 2 ** 15 - 1) if FIELD_WIDTH[code] == 2 else (-2 ** 31, 2 ** 31 - 1)


def make_segy(path, data, ilines=None, xlines=None, t0=0, dt_us=4000, fmt=5, headers=None, skip=None, two_d=False,
              ext_headers=0, binfields=None, text=None, il_field_2d=None):
    """data: (n_il, n_xl, ns) float32 (2D: (1, n_tr, ns)).  headers: callable (i, x, t) -> {field: value} merged
    over the defaults.  skip: set of (i, x) ordinals omitted (irregular file, written unstructured).
    Returns list of (i, x) per written trace."""
    n_il, n_xl, ns = data.shape
    ilines = list(range(1, n_il + 1)) if ilines is None else [int(v) for v in ilines]
    xlines = list(range(1, n_xl + 1)) if xlines is None else [int(v) for v in xlines]
    spec = segyio.spec()
    spec.format = fmt
    spec.samples = t0 + np.arange(ns) * dt_us / 1000.0
    if ext_headers:
        spec.ext_headers = ext_headers
    order = [(i, x) for i in range(n_il) for x in range(n_xl) if not (skip and (i, x) in skip)]
    if skip or two_d:
        spec.tracecount = len(order)
    else:
        spec.sorting = 2
        spec.ilines = ilines
        spec.xlines = xlines
        spec.offsets = [0]
    with segyio.create(path, spec) as f:
        if text is not None:
            f.text[0] = text
        for k in range(1, ext_headers + 1):
            f.text[k] = (b'EXT %d ' % k) * 400
        for t, (i, x) in enumerate(order):
            f.trace[t] = np.ascontiguousarray(data[i, x], dtype=np.float32)
            h = {TF.TRACE_SAMPLE_COUNT: ns, TF.TRACE_SAMPLE_INTERVAL: dt_us, TF.DelayRecordingTime: int(t0)}
            if not two_d:
                h[TF.INLINE_3D] = ilines[i]
                h[TF.CROSSLINE_3D] = xlines[x]
            elif il_field_2d is not None:
                h.update(il_field_2d(t))
            if headers:
                h.update(headers(i, x, t))
            f.header[t] = h
        b = {segyio.BinField.Interval: dt_us, segyio.BinField.Samples: ns, segyio.BinField.Format: fmt}
        if ext_headers:
            b[segyio.BinField.ExtendedHeaders] = ext_headers
        if binfields:
            b.update(binfields)
        f.bin = b
    return order


def header_plan(rng, n_fields=6, kinds=None, heuristic_safe=False):
    """Choose fields and a behaviour for each: returns callable (i,x,t)->dict and a description.
    kinds: 'const', 'vary', 'dup', 'coincide' (varies but first==last), 'extreme'"""
    avoid = {int(TF.INLINE_3D), int(TF.CROSSLINE_3D), int(TF.TRACE_SAMPLE_COUNT), int(TF.TRACE_SAMPLE_INTERVAL),
             int(TF.DelayRecordingTime), int(TF.offset), int(TF.ScalarTraceHeader)}   # (215 scales the delay time in segyio)   # offset (37) takes part in segyio's sorting detection
    cand = [c for c in ALL_FIELDS if c not in avoid]
    fields = list(rng.choice(cand, size=min(n_fields, len(cand)), replace=False))
    kinds = kinds or ['const', 'vary', 'dup', 'coincide', 'extreme', 'vary', 'const', 'vary0', 'const0last']
    plan = []
    vary_fields = []
    for c in fields:
        c = int(c)
        k = str(rng.choice(kinds))
        if heuristic_safe and k == 'coincide':
            k = 'vary'
        lo, hi = field_range(c)
        if k == 'const':
            v = int(rng.integers(max(lo, -30000), min(hi, 30000)))
            plan.append((c, k, v))
        elif k == 'extreme':
            plan.append((c, k, (lo, hi)))
        elif k == 'dup' and vary_fields and not heuristic_safe:
            plan.append((c, k, int(rng.choice(vary_fields))))
        elif k == 'coincide':
            plan.append((c, k, int(rng.integers(1, 100))))
        elif k == 'vary0':      # varies, and is exactly 0 in the first trace
            plan.append((c, k, int(rng.integers(1, 9)) * (1 if rng.random() < .7 else -1)))
            vary_fields.append(c)
        elif k == 'const0last':  # varies, and is exactly 0 in the last trace
            plan.append((c, k, int(rng.integers(1, 9))))
            vary_fields.append(c)
        else:
            a, b = int(rng.integers(-50, 50)), int(rng.integers(1, 9)) * (1 if rng.random() < .7 else -1)
            plan.append((c, 'vary', (a, b)))
            vary_fields.append(c)

    last = {}

    def fn(i, x, t, _n=[None]):
        out = {}
        for c, k, p in plan:
            lo, hi = field_range(c)
            if k == 'const':
                out[c] = p
            elif k == 'vary':
                out[c] = int(np.clip(p[0] + p[1] * (t + 1) + 3 * i, lo, hi))
            elif k == 'extreme':
                out[c] = p[0] if t % 2 == 0 else p[1]
            elif k == 'vary0':
                out[c] = int(np.clip(p * t, lo, hi))
            elif k == 'const0last':
                out[c] = 0 if last.get('final') == t else int(np.clip(p * (t + 1), 1, hi))
            elif k == 'coincide':
                out[c] = p if t == 0 or last.get('final') == t else p + 1 + (t % 5)
        for c, k, p in plan:
            if k == 'dup':
                out[c] = out[p]
        return out

    fn.plan = plan
    fn.set_final = lambda t: last.__setitem__('final', t)
    return fn


def patch_trace_header_bytes(path, trace_index, ns, field, value, ext_headers=0):
    """raw write of one header field (big-endian) - independent of segyio's writer"""
    w = FIELD_WIDTH[field]
    off = 3600 + 3200 * ext_headers + trace_index * (240 + 4 * ns) + field - 1
    with open(path, 'r+b') as f:
        f.seek(off)
        f.write(struct.pack('>i' if w == 4 else '>h', value))
