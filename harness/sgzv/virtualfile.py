"""Virtual SGZ files of any size: nothing is stored, every byte is computed when it is read.

Header blocks come from the harness' spec encoder; the data section is symbolic (unit j holds the little-endian integer
(j mod M) + 1, so that provenance codes stay exact in float32 whatever the size: an address that is off by a multiple of
2^32 / 2^31 bytes, or by one unit, still shows); there are no footer arrays.  Geometries with data sections far beyond 4 GiB,
axes beyond 65535 lines and single range reads beyond 256 MiB cost no disk space and little time."""
import numpy as np

from . import spec

M = 200003   # prime, (M + 1) * 64 < 2^24


class VirtualSgz:
    def __init__(self, lay, version=None, il=(1, 1), xl=(1, 1), z=(0, 4000), tail=3 * 4096):
        self.lay = lay
        self.name = 'virtual.sgz'
        version = spec.version_encode(0, 2, 9, True) if version is None else version
        self.hdr = spec.header_bytes(lay, version, il=il, xl=xl, z=z, arrays={}, consts={115: lay.n[2] % 32768})
        self.data_start = len(self.hdr)
        self.data_end = self.data_start + spec.DISK * lay.n_blocks
        self.size = self.data_end + tail            # bytes after the data section (where footer arrays would be): zeros
        self.u = lay.u
        assert self.u >= 4
        self._pos = 0
        self.closed = False

    def seek(self, off, whence=0):
        pos = off if whence == 0 else (self._pos + off if whence == 1 else self.size + off)
        if pos < 0:
            raise OSError(22, 'Invalid argument')       # as a real file does
        self._pos = int(pos)
        return self._pos

    def tell(self):
        return self._pos

    def read(self, n=-1):
        lo = self._pos
        hi = self.size if n is None or n < 0 else min(self.size, lo + n)
        if hi <= lo:
            return b''
        out = np.zeros(hi - lo, dtype=np.uint8)
        if lo < self.data_start:
            h = min(hi, self.data_start)
            out[:h - lo] = np.frombuffer(self.hdr[lo:h], dtype=np.uint8)
        d0 = max(lo, self.data_start)
        d1 = min(hi, self.data_end)
        if d1 > d0:
            a, b = d0 - self.data_start, d1 - self.data_start          # byte range inside the data section
            u0, u1 = a // self.u, (b + self.u - 1) // self.u            # units it meets
            raw = np.zeros((u1 - u0, self.u), dtype=np.uint8)
            ids = np.arange(u0, u1, dtype=np.int64) % M + 1
            for k in range(3):
                raw[:, k] = (ids >> (8 * k)) & 255
            out[d0 - lo:d1 - lo] = raw.reshape(-1)[a - u0 * self.u: b - u0 * self.u]
        self._pos = hi
        return out.tobytes()

    def close(self):
        self.closed = True


def expected_codes(vals, cell):
    """the model's provenance codes ((unit + 1) * cell + pos) as the virtual file's decoder output shows them"""
    vals = np.asarray(vals, dtype=np.int64)
    unit = vals // cell - 1
    return np.where(vals == 0, 0, (unit % M + 1) * cell + vals % cell)
