"""Check driver plumbing: context, verdict logic (DESIGN.md section 6), evidence and replay files."""
import collections
import fcntl
import hashlib
import json
import os
import re
import shutil
import subprocess
import sys
import tempfile
import time
import traceback

from . import env

VERIF = env.VERIF
LEAN_DIR = os.path.join(VERIF, 'lean')
# (SGZV_OUT: scratch runs against a patched copy of the repository keep their evidence and replays out of /verif)
_OUT = os.environ.get('SGZV_OUT') or VERIF
EVIDENCE_DIR = os.path.join(_OUT, 'evidence')
REPLAY_DIR = os.path.join(_OUT, 'replays')
ALLOWED_AXIOMS = {'propext', 'Classical.choice', 'Quot.sound'}
FORBIDDEN = re.compile(r'\b(sorry|admit|native_decide|bv_decide|implemented_by|unsafe)\b|^\s*axiom\s|maxHeartbeats\s+0\b',
                       re.M)

TRUSTED_BASE = [
    "Lean 4.33 kernel; axioms allowed: propext, Classical.choice, Quot.sound (no native_decide, no bv_decide, no sorry)",
    "hand-written Lean model (lean/Sgz/Model), tied to /repo only by the differential correspondence run in this check",
    "harness: generators, symbolic codec, logging/fault file objects, spec codec (harness/sgzv)",
    "A1 zfpy fixed-rate coding is cellwise/raster/fixed-size (re-validated each run); A2 segyio/pyvds/pyzgy deliver the source",
    "A3 CPython queue/threading/hashlib semantics; A4 binary64 arithmetic correctly rounded; A5 OS read/write semantics",
]


def _json_default(o):
    import numpy as np
    if isinstance(o, (np.integer,)):
        return int(o)
    if isinstance(o, (np.floating,)):
        return float(o)
    if isinstance(o, np.ndarray):
        return o.tolist()
    if isinstance(o, (bytes, bytearray)):
        return o.hex()
    if isinstance(o, (set, frozenset, tuple)):
        return list(o)
    return repr(o)


class Ctx:
    def __init__(self, pid, tier, seed):
        self.pid, self.tier, self.seed = pid, tier, seed
        self.t0 = time.time()
        self.tmp = tempfile.mkdtemp(prefix=f'sgzv_{pid}_', dir=os.environ.get('SGZV_TMP', None))
        self.evaluations = 0
        self.nontrivial = set()
        self.samples = []
        self.stats = collections.Counter()
        self.failures = []          # property failing inputs found on the real code
        self.corr_failures = []     # model/implementation disagreements
        self.known = []             # known findings re-observed
        self.notes = []
        self.assumption_failures = []
        self.quick = tier == 'quick'
        self.boost = 1              # > 1 when the anchored source differs from what the model was transcribed from
        self.anchor = None

    def n(self, quick, thorough):
        """how many cases: the quick count (times the boost, never beyond the thorough count) or the thorough count"""
        return min(thorough, quick * self.boost) if self.quick else thorough

    # ---- bookkeeping
    def case(self, key, nontrivial=True, sample=None):
        """count one explored case; key identifies it for the distinct count"""
        self.evaluations += 1
        if nontrivial:
            self.nontrivial.add(hashlib.sha1(repr(key).encode()).hexdigest()[:16])
        if sample is not None and len(self.samples) < 8:
            self.samples.append(sample)

    def path(self, name):
        return os.path.join(self.tmp, name)

    def time_left(self, budget):
        return budget - (time.time() - self.t0)

    # ---- outcomes
    def fail(self, what, inp, finding=None):
        """the property fails on the real code for input `inp`"""
        from . import findings
        kf = findings.match(self.pid, what, inp) if finding is None else finding
        if kf is not None:
            if kf['id'] not in [k['id'] for k in self.known]:
                self.known.append(kf)
            self.stats['known_finding_hits'] += 1
            return
        if len(self.failures) < 20:
            self.failures.append({'what': what, 'input': inp})
        self.stats['failures'] += 1

    def corr_fail(self, component, request, model_answer, impl_answer, inp=None):
        if len(self.corr_failures) < 20:
            self.corr_failures.append({'component': component, 'request': request, 'model': model_answer,
                                       'impl': impl_answer, 'input': inp})
        self.stats['corr_failures'] += 1

    def cleanup(self):
        shutil.rmtree(self.tmp, ignore_errors=True)


# ------------------------------------------------------------------------------------------------- Lean side

def _lean_lock():
    os.makedirs(os.path.join(LEAN_DIR, '.lake'), exist_ok=True)
    f = open(os.path.join(LEAN_DIR, '.lake', 'verif.lock'), 'w')
    fcntl.flock(f, fcntl.LOCK_EX)
    return f


def lean_build():
    """lake build under a lock; returns (ok, log)"""
    lock = _lean_lock()
    try:
        p = subprocess.run(['lake', 'build'], cwd=LEAN_DIR, stdout=subprocess.PIPE, stderr=subprocess.STDOUT,
                           text=True, timeout=3600)
        return p.returncode == 0, p.stdout
    finally:
        lock.close()


def lean_source_scan():
    bad = []
    for root, _, files in os.walk(os.path.join(LEAN_DIR, 'Sgz')):
        for fn in files:
            if not fn.endswith('.lean'):
                continue
            src = open(os.path.join(root, fn)).read()
            src = re.sub(r'/-.*?-/', '', src, flags=re.S)
            src = re.sub(r'--.*', '', src)
            for m in FORBIDDEN.finditer(src):
                bad.append(f'{os.path.relpath(os.path.join(root, fn), LEAN_DIR)}: {m.group(0).strip()}')
    main = os.path.join(LEAN_DIR, 'Main.lean')
    return bad


def obligations():
    return json.load(open(os.path.join(LEAN_DIR, 'obligations.json')))


def lean_audit(pid, thorough=False):
    """Check every theorem listed for `pid`: exists, kernel-checked, axioms within the allowed set.
    Returns dict(obligations, discharged, problems[list of (theorem, problem)], theorems)."""
    ob = obligations().get(pid, {})
    theorems = ob.get('theorems', [])
    res = {'obligations': len(theorems), 'discharged': 0, 'problems': [], 'theorems': theorems,
           'model_components': ob.get('components', [])}
    ok, log = lean_build()
    if not ok:
        res['problems'].append(('lake build', log[-3000:]))
    scan = lean_source_scan()
    for b in scan:
        res['problems'].append(('source scan', b))
    if not theorems:
        return res
    mods = sorted(set(ob.get('modules', [f'Sgz.Props.{pid}'])))
    src = ''.join(f'import {m}\n' for m in mods) + ''.join(f'#print axioms {t}\n' for t in theorems)
    with tempfile.NamedTemporaryFile('w', suffix='.lean', dir=LEAN_DIR, delete=False) as f:
        f.write(src)
        tmpf = f.name
    try:
        lock = _lean_lock()
        try:
            p = subprocess.run(['lake', 'env', 'lean', tmpf], cwd=LEAN_DIR, stdout=subprocess.PIPE,
                               stderr=subprocess.STDOUT, text=True, timeout=1800)
        finally:
            lock.close()
    finally:
        os.unlink(tmpf)
    out = p.stdout
    # parse "'name' depends on axioms: [a, b]" / "'name' does not depend on any axioms"
    seen = {}
    for m in re.finditer(r"'([^']+)' depends on axioms: \[([^\]]*)\]", out, flags=re.S):
        seen[m.group(1)] = set(a.strip() for a in m.group(2).replace('\n', ' ').split(',') if a.strip())
    for m in re.finditer(r"'([^']+)' does not depend on any axioms", out):
        seen[m.group(1)] = set()
    for t in theorems:
        if t not in seen:
            res['problems'].append((t, 'theorem missing or does not check: ' + out[-800:]))
        elif not seen[t] <= ALLOWED_AXIOMS:
            res['problems'].append((t, f'foreign axioms {sorted(seen[t] - ALLOWED_AXIOMS)}'))
        elif ok and not scan:
            res['discharged'] += 1
    res['axioms'] = {t: sorted(a) for t, a in seen.items()}
    tie_audit(ob.get('tie', []), res, ok and not scan)
    if thorough and ok:
        try:
            lock = _lean_lock()
            try:
                p = subprocess.run(['lake', 'env', 'leanchecker'] + mods, cwd=LEAN_DIR, stdout=subprocess.PIPE,
                                   stderr=subprocess.STDOUT, text=True, timeout=3000)
            finally:
                lock.close()
            res['leanchecker'] = 'ok' if p.returncode == 0 else p.stdout[-1500:]
            if p.returncode != 0:
                res['problems'].append(('leanchecker', p.stdout[-1500:]))
        except Exception as e:  # pragma: no cover
            res['leanchecker'] = f'not run: {e}'
    return res


def tie_audit(tie, res, rest_ok):
    """The translator tie: regenerate lean/Sgz/Generated/Source.lean from the repository's source as it is now, and check the
    listed theorems of lean/Sgz/Tie/Source.lean against it (each says: the generated definition is the model's expression).
    One critical section, so that concurrent checks on different trees do not see each other's generated file."""
    if not tie:
        return
    from . import translate
    res['obligations'] += len(tie)
    res['theorems'] = list(res['theorems']) + list(tie)
    lock = _lean_lock()
    try:
        _, errors = translate.generate()
        res['translator'] = {'definitions': len(translate.SPEC), 'errors': errors}
        b = subprocess.run(['lake', 'build', 'Sgz.Generated.Source', 'Sgz.Model.Loader', 'Sgz.Model.Reader', 'Sgz.Model.Crop',
                            'Sgz.Model.Reblock', 'Sgz.Model.Writer', 'Sgz.Model.Window', 'Sgz.Model.Derived', 'Sgz.Model.Header', 'Sgz.Model.Container',
                            'Sgz.Model.HeaderReads', 'Sgz.Model.Version', 'Sgz.Model.Emul', 'Sgz.Model.Irregular', 'Sgz.Model.Xarray', 'Sgz.Model.SegyRaw', 'Sgz.Model.Export', 'Sgz.Model.IO'], cwd=LEAN_DIR,
                           stdout=subprocess.PIPE, stderr=subprocess.STDOUT, text=True, timeout=1800)
        # the translator is validated, not just trusted: every generated definition is evaluated by Lean at random parameter
        # values and compared with Python's own evaluation of the source expression it was derived from
        vsrc, vexp = translate.validation(rng_seed=int(os.environ.get('VERIF_SEED', '0') or 0))
        with tempfile.NamedTemporaryFile('w', suffix='.lean', dir=LEAN_DIR, delete=False) as f:
            f.write(vsrc)
            vtmp = f.name
        try:
            pv = subprocess.run(['lake', 'env', 'lean', vtmp], cwd=LEAN_DIR, stdout=subprocess.PIPE,
                                stderr=subprocess.STDOUT, text=True, timeout=1800)
        finally:
            os.unlink(vtmp)
        vout = [l.strip() for l in pv.stdout.splitlines() if l.strip()]
        vbad = [f'{e[0]} {e[1]}: Lean {o}, Python {e[2]}' for e, o in zip(vexp, vout) if e[2] != o]
        if b.returncode == 0 and len(vout) != len(vexp):
            vbad.append(f'{len(vout)} outputs for {len(vexp)} evaluations: {pv.stdout[-300:]}')
        res['translator'].update({'validated_evaluations': len(vexp), 'validation_mismatches': vbad[:5]})
        src = open(os.path.join(LEAN_DIR, 'Sgz', 'Tie', 'Source.lean')).read()
        src += '\n' + ''.join(f'#print axioms {t}\n' for t in tie)
        with tempfile.NamedTemporaryFile('w', suffix='.lean', dir=LEAN_DIR, delete=False) as f:
            f.write(src)
            tmpf = f.name
        try:
            p = subprocess.run(['lake', 'env', 'lean', tmpf], cwd=LEAN_DIR, stdout=subprocess.PIPE,
                               stderr=subprocess.STDOUT, text=True, timeout=1800)
        finally:
            os.unlink(tmpf)
    finally:
        lock.close()
    out = p.stdout
    seen = {}
    for m in re.finditer(r"'([^']+)' depends on axioms: \[([^\]]*)\]", out, flags=re.S):
        seen[m.group(1)] = set(a.strip() for a in m.group(2).replace('\n', ' ').split(',') if a.strip())
    for m in re.finditer(r"'([^']+)' does not depend on any axioms", out):
        seen[m.group(1)] = set()
    for t in tie:
        if b.returncode != 0:
            res['problems'].append((t, 'generated definitions do not compile: ' + b.stdout[-600:]))
        elif vbad:
            res['problems'].append((t, 'translator validation failed (a generated definition does not evaluate like its '
                                       'source expression): ' + '; '.join(vbad[:2])))
        elif t not in seen:
            res['problems'].append((t, 'tie theorem missing: ' + out[-600:]))
        elif not seen[t] <= ALLOWED_AXIOMS:
            why = 'the source expression is no longer the model\'s (tie does not check)' if 'sorryAx' in seen[t] \
                else f'foreign axioms {sorted(seen[t] - ALLOWED_AXIOMS)}'
            res['problems'].append((t, why))
        elif rest_ok:
            res['discharged'] += 1
    res.setdefault('axioms', {}).update({t: sorted(a) for t, a in seen.items() if t in tie})


class Model:
    """line-protocol client of the compiled Lean driver (lean/.lake/build/bin/sgzmodel)"""
    def __init__(self):
        exe = os.path.join(LEAN_DIR, '.lake', 'build', 'bin', 'sgzmodel')
        if not os.path.exists(exe):
            lean_build()
        if os.path.exists(exe):
            cmd = [exe]
        else:
            cmd = ['lake', 'env', 'lean', '--run', 'Main.lean']
        self.p = subprocess.Popen(cmd, cwd=LEAN_DIR, stdin=subprocess.PIPE, stdout=subprocess.PIPE, text=True, bufsize=1)
        self.n = 0

    def ask(self, line):
        self.n += 1
        self.p.stdin.write(line + '\n')
        self.p.stdin.flush()
        out = self.p.stdout.readline()
        if not out:
            raise RuntimeError(f'model driver died on request: {line}')
        return out.rstrip('\n')

    def ask_many(self, lines):
        return [self.ask(l) for l in lines]

    def close(self):
        try:
            self.p.stdin.close()
            self.p.wait(timeout=10)
        except Exception:
            self.p.kill()


# ------------------------------------------------------------------------------------------------- verdict

def _write_replay(pid, obj):
    os.makedirs(REPLAY_DIR, exist_ok=True)
    blob = json.dumps(obj, default=_json_default, sort_keys=True, indent=1)
    h = hashlib.sha1(blob.encode()).hexdigest()[:12]
    path = os.path.join(REPLAY_DIR, f'{pid}-{h}.json')
    with open(path, 'w') as f:
        f.write(blob)
    return os.path.relpath(path, VERIF)


def finish(ctx, audit, level_note_assumptions, explanation, extra_cov=None):
    """apply the verdict logic, write evidence, print KNOWN-FINDING / VIOLATION lines, return exit code"""
    lines = []
    violations = 0
    for kf in ctx.known:
        lines.append(f"KNOWN-FINDING: property={ctx.pid} {kf['id']}: {kf['what']}")
    proof_broken = [p for p in audit['problems']]
    # 1. failing inputs on the real code: violations with replay
    for f in ctx.failures[:5]:
        rp = _write_replay(ctx.pid, {'property': ctx.pid, 'seed': ctx.seed, 'tier': ctx.tier, 'kind': 'failing-input',
                                     'what': f['what'], 'input': f['input'],
                                     'broken': [p[0] for p in proof_broken] + [c['component'] for c in ctx.corr_failures[:3]]})
        lines.append(f"VIOLATION property={ctx.pid} replay={rp}")
        violations += 1
    # 2. proof/correspondence broken but no failing input found
    if not ctx.failures and (proof_broken or ctx.corr_failures or ctx.assumption_failures):
        rp = _write_replay(ctx.pid, {'property': ctx.pid, 'seed': ctx.seed, 'tier': ctx.tier,
                                     'kind': 'no-failing-input-found',
                                     'broken_theorems': proof_broken[:10],
                                     'broken_correspondence': ctx.corr_failures[:10],
                                     'broken_assumptions': ctx.assumption_failures[:10]})
        lines.append(f"VIOLATION property={ctx.pid} replay={rp} no-failing-input-found")
        violations += 1
    wall = time.time() - ctx.t0
    cov = {
        'obligations': max(audit['obligations'], 1) if audit['obligations'] else 0,
        'discharged': audit['discharged'],
        'checker_cmd': 'cd lean && lake build && lake env lean <#print axioms of every listed theorem>'
                       + (' && lake env leanchecker <modules>' if ctx.tier == 'thorough' else ''),
        'trusted_base': TRUSTED_BASE,
        'theorems': audit['theorems'],
        'axioms': audit.get('axioms', {}),
        'proof_problems': [list(p) for p in proof_broken[:10]],
        'evaluations': ctx.evaluations,
        'distinct_nontrivial': len(ctx.nontrivial),
        'rule': explanation,
        'samples': ctx.samples[:8] or ['(no sample recorded)'],
        'traces_validated_against_impl': ctx.stats.get('corr_requests', 0),
        'disagreements_checked': ctx.stats.get('corr_requests', 0),
        'correspondence_failures': ctx.stats.get('corr_failures', 0),
        'input_distribution': {k: v for k, v in sorted(ctx.stats.items())},
        'source_anchor': dict(ctx.anchor or {}, boost=ctx.boost),
        'known_findings_reobserved': [k['id'] for k in ctx.known],
        'exhaustive': False,
    }
    if not audit['obligations']:
        # no theorem is listed for this property yet: do not present proof-level keys (the exploration counts remain)
        for k in ('obligations', 'discharged'):
            cov.pop(k)
        cov['note'] = 'no theorem listed in lean/obligations.json for this property'
    if 'leanchecker' in audit:
        cov['leanchecker'] = audit['leanchecker']
    if 'translator' in audit:
        cov['translator'] = audit['translator']
    if extra_cov:
        cov.update(extra_cov)
    ev = {'property_id': ctx.pid, 'tier': ctx.tier, 'seed': ctx.seed, 'level': 'proof', 'coverage': cov,
          'assumptions': level_note_assumptions, 'wall_s': round(wall, 2), 'violations': violations,
          'notes': ctx.notes[:20]}
    os.makedirs(EVIDENCE_DIR, exist_ok=True)
    with open(os.path.join(EVIDENCE_DIR, f'{ctx.pid}.json'), 'w') as f:
        json.dump(ev, f, default=_json_default, indent=1)
    for l in lines:
        print(l)
    print(f"[{ctx.pid}] tier={ctx.tier} seed={ctx.seed} theorems={audit['discharged']}/{audit['obligations']} "
          f"cases={ctx.evaluations} distinct={len(ctx.nontrivial)} corr={ctx.stats.get('corr_requests', 0)} "
          f"violations={violations} known={len(ctx.known)} wall={wall:.1f}s")
    sys.stdout.flush()
    return 1 if violations else 0


def guarded(ctx, fn, *a, **k):
    """run one case; an unexpected exception in the *harness* is a harness error (exit 2), not a verdict"""
    try:
        return fn(*a, **k)
    except Exception:
        raise
