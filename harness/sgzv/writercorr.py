"""Correspondence of Model/Writer with the real producers: the symbolic compressor records, for every unit of the written
data section, the source samples its cell was coded from (source cube value = own linear index); a hashlib wrapper
records the byte stream fed to the hash.  Both are compared with the Lean model (`writer`, `hashfeed` requests)."""
import contextlib
import hashlib

import numpy as np

from . import spec, symcodec, conv, mksegy, gen


@contextlib.contextmanager
def hash_log():
    """record every update() made on hash objects created through hashlib.new while active"""
    log = []
    orig = hashlib.new

    class H:
        def __init__(self, *a, **k):
            self._h = orig(*a, **k)

        def update(self, b):
            log.append(bytes(np.ascontiguousarray(b)) if isinstance(b, np.ndarray) else bytes(b))
            self._h.update(b)

        def __getattr__(self, n):
            return getattr(self._h, n)

    hashlib.new = H
    try:
        yield log
    finally:
        hashlib.new = orig


def unit_digests(path, lay, enc, data_start):
    with open(path, 'rb') as f:
        f.seek(data_start)
        data = f.read(spec.DISK * lay.n_blocks)
    if len(data) != spec.DISK * lay.n_blocks:
        return None
    ids = np.frombuffer(data, dtype=np.uint8).reshape(lay.n_units, lay.u)[:, :min(lay.u, 8)]
    idv = np.zeros(lay.n_units, dtype=np.int64)
    for b in range(ids.shape[1]):
        idv |= ids[:, b].astype(np.int64) << (8 * b)
    out = []
    for j in range(lay.n_units):
        c = enc.cells.get(int(idv[j]))
        if c is None:
            out.append(-1)
        else:
            v = c.astype(np.int64).ravel()
            out.append(int((v[0] * 1000003 + v[-1] * 10007 + int(v.sum())) % 2147483647))
    return out


def feed_digest(log):
    vs = np.frombuffer(b''.join(log), dtype=np.float32).astype(np.int64)
    h = 7
    for v in vs.tolist():
        h = (h * 31 + v + 1) % 2147483647
    return f'{len(vs)} {h}'


def run_route(ctx, n, bs, q, route, tag='w'):
    """convert the linear-index cube of shape n by `route` under the symbolic compressor and the hash log;
    returns (sgz path, encoder, hash log)"""
    lin = gen.linear_cube(n)
    out = ctx.path(f'{tag}k.sgz')
    with symcodec.symbolic_encoder() as enc, hash_log() as hl:
        if route == 'numpy':
            ctx.stats['_numpy_layout'] += 1
            conv.numpy_to_sgz(gen.noncontiguous(lin, ctx.stats['_numpy_layout'] // 2) if ctx.stats['_numpy_layout'] % 2 else lin,
                              out, q, bs)
        else:
            sgy = ctx.path(f'{tag}k.sgy')
            if bs[0] == 1:
                mksegy.make_segy(sgy, lin, two_d=True, fmt=5)
            else:
                mksegy.make_segy(sgy, lin, ilines=[5 + 3 * i for i in range(n[0])], xlines=[40 - 2 * j for j in range(n[1])],
                                 fmt=5)
            conv.segy_to_sgz(sgy, out, q, bs, reduce_iops=(route == 'segy-ri'))
    return out, enc, hl


def check(ctx, model, n, bs, q, route, desc=None, want_hash=True):
    """one writer-placement + hash-feed correspondence case"""
    desc = dict(desc or {}, n=n, bs=bs, q=q, route=route)
    is2d = bs[0] == 1
    lay = spec.Layout(n, bs, q, is2d=is2d)
    try:
        out, enc, hl = run_route(ctx, n, bs, q, route)
    except Exception as e:  # noqa
        ctx.corr_fail('Model.Writer', f'writer {n} {bs} {q} {route}', 'conversion succeeds', f'{type(e).__name__}: {e}', desc)
        return
    h, _ = spec.read_header(out)
    impl = unit_digests(out, lay, enc, h.data_start())
    req = f"{n[0]} {n[1]} {n[2]} {bs[0]} {bs[1]} {bs[2]} {lay.u}"
    ctx.stats['corr_requests'] += 1
    ctx.stats['writer_corr_' + route + ('_2d' if is2d else '')] += 1
    ans = model.ask('writer ' + req)
    m = [int(v) for v in ans.split()] if ans != 'bad-op' else None
    if m != impl:
        first = None if (m is None or impl is None) else next((j for j in range(min(len(m), len(impl))) if m[j] != impl[j]), None)
        ctx.corr_fail('Model.Writer', 'writer ' + req + ' ' + route,
                      f'{None if m is None else len(m)} units, first differing unit {first}',
                      f'{None if impl is None else len(impl)} units', desc)
    if want_hash:
        ctx.stats['corr_requests'] += 1
        ans = model.ask('hashfeed ' + req)
        got = feed_digest(hl)
        if ans != got:
            ctx.corr_fail('Model.Writer.hashFeed', 'hashfeed ' + req + ' ' + route, ans, got, desc)
