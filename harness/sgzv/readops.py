"""Vocabulary of read operations shared by C02, C07, C14, C15, C17, C18:
how to apply one to a real reader, what the *property* says its result is (as a slice of the decoded
volume, or a refusal), and which 4 KiB blocks hold what it asks for.

An op is a tuple; its first element names the read path."""
import numpy as np

from . import env, spec
from seismic_zfp.utils import WrongDimensionalityError  # noqa: E402  (exception class of the public API)

IDX, DIM = 'index', 'dimensionality'


class FileInfo:
    """What the harness knows about a file independently of the reader under test."""
    def __init__(self, lay, il=(0, 1), xl=(0, 1), z=(0, 4000), tracecount=None, mask=None, volume=None,
                 arrays=None, consts=None, dups=None):
        self.lay = lay
        self.n = lay.n
        self.is2d = lay.is2d
        self.il = [il[0] + k * il[1] for k in range(lay.n[0])]
        self.xl = [xl[0] + k * xl[1] for k in range(lay.n[1])]
        self.z = [z[0] + k * (z[1] / 1000) for k in range(lay.n[2])]
        self.mask = mask  # irregular: bool array over grid traces
        self.tracecount = tracecount if tracecount is not None else (lay.n[1] if lay.is2d else lay.n[0] * lay.n[1])
        self.volume = volume  # padded decoded volume (symbolic provenance or real decode), shape P
        self.arrays = arrays or {}
        self.consts = consts or {}
        self.dups = dups or {}
        self.grid_of = None
        if mask is not None:
            self.grid_of = [int(g) for g in np.nonzero(mask)[0]]

    def real(self):
        n = self.n
        return self.volume[:n[0], :n[1], :n[2]]


# ---------------------------------------------------------------------------------------------- application

def apply(r, op):
    """call the read path `op` on reader `r` (SgzReader, or the emulator for 'em:' ops)"""
    k = op[0]
    if k == 'il':
        return r.read_inline(op[1])
    if k == 'xl':
        return r.read_crossline(op[1])
    if k == 'zs':
        return r.read_zslice(op[1])
    if k == 'ilno':
        return r.read_inline_number(op[1])
    if k == 'xlno':
        return r.read_crossline_number(op[1])
    if k == 'zsc':
        return r.read_zslice_coord(op[1])
    if k == 'sub':
        return r.read_subvolume(*op[1:7])
    if k == 'vol':
        return r.read_volume()
    if k == 'tr':
        return r.get_trace(op[1])
    if k == 'trw':
        return r.get_trace(op[1], op[2], op[3])
    if k == 'trc':
        return r.get_trace_by_coord(op[1], op[2], op[3])
    if k == 'cd':
        return r.read_correlated_diagonal(op[1])
    if k == 'cdc':
        return r.read_correlated_diagonal(op[1], op[2], op[3])
    if k == 'cdw':
        return r.read_correlated_diagonal(op[1], op[2], op[3], op[4], op[5])
    if k == 'ad':
        return r.read_anticorrelated_diagonal(op[1])
    if k == 'adc':
        return r.read_anticorrelated_diagonal(op[1], op[2], op[3])
    if k == 'adw':
        return r.read_anticorrelated_diagonal(op[1], op[2], op[3], op[4], op[5])
    if k == 'subp':
        return r.read_subplane(*op[1:5])
    if k == 'hdr':
        return r.gen_trace_header(op[1])
    if k == 'hdrall':
        return r.gen_trace_header(op[1], load_all_headers=True)
    if k == 'tfv':
        return r.get_tracefield_values(op[1])
    if k == 'rvh':     # loads header arrays in one padding mode; returns nothing
        return r.read_variant_headers(include_padding=op[1])
    raise ValueError(op)


def outcome(r, op):
    """('ok', array) | ('err', class) | ('exc', repr) for unexpected exception classes"""
    try:
        v = apply(r, op)
    except IndexError:
        return ('err', IDX)
    except WrongDimensionalityError:
        return ('err', DIM)
    except Exception as e:  # noqa
        return ('exc', type(e).__name__ + ': ' + str(e)[:120])
    return ('ok', v)


# ------------------------------------------------------------------------------------------------- expected

def _rng_ok(lo, hi, n):
    return 0 <= lo < hi <= n


def cd_len(c, n0, n1):
    """number of grid points on correlated diagonal c (il - xl = c)"""
    return max(0, min(n0, n1 + c) - max(c, 0))


def ad_len(a, n0, n1):
    """number of grid points on anti-correlated diagonal a (il + xl = a)"""
    return max(0, min(a, n0 - 1) - max(0, a - n1 + 1) + 1)


def cd_points(c, n0, n1):
    L = cd_len(c, n0, n1)
    return [(d + max(c, 0), d - min(c, 0)) for d in range(L)]


def ad_points(a, n0, n1):
    L = ad_len(a, n0, n1)
    i0 = max(0, a - n1 + 1)
    return [(i0 + d, a - i0 - d) for d in range(L)]


def expected_header(fi, t):
    """all 89 fields of trace ordinal t from what the harness put into the synthetic file"""
    import numpy as _np
    out = {}
    sel = (lambda a: _np.asarray(a)[fi.mask][t]) if fi.mask is not None else (lambda a: _np.asarray(a)[t])
    for code in spec.FIELDS:
        if code in fi.arrays:
            out[code] = int(_np.int32(sel(fi.arrays[code])))
        elif code in fi.dups:
            out[code] = int(_np.int32(sel(fi.arrays[fi.dups[code]])))
        else:
            out[code] = int(fi.consts.get(code, 0))
    return out


def expected(fi, op):
    """The property's verdict for `op` on file `fi`: ('ok', array) with the slice of the decoded volume, or
    ('err', class).  Empty and inverted ranges/windows are out of range (DESIGN.md C14)."""
    k = op[0]
    n0, n1, n2 = fi.n
    V = fi.volume
    if k == 'hdr':
        return ('ok', expected_header(fi, op[1])) if 0 <= op[1] < fi.tracecount else ('err', IDX)
    if fi.is2d:
        if k in ('il', 'xl', 'zs', 'ilno', 'xlno', 'zsc', 'sub', 'vol', 'cd', 'cdc', 'cdw', 'ad', 'adc', 'adw'):
            return ('err', DIM)
        if k == 'tr':
            t = op[1]
            return ('ok', V[0, t, :n2]) if 0 <= t < fi.tracecount else ('err', IDX)
        if k == 'trw':
            t, a, b = op[1:4]
            return ('ok', V[0, t, a:b]) if 0 <= t < fi.tracecount and _rng_ok(a, b, n2) else ('err', IDX)
        if k == 'subp':
            t0, t1, z0, z1 = op[1:5]
            if _rng_ok(t0, t1, fi.tracecount) and _rng_ok(z0, z1, n2):
                return ('ok', V[0, t0:t1, z0:z1])
            return ('err', IDX)
        raise ValueError(op)
    if k == 'subp':
        return ('err', DIM)
    if k == 'il':
        return ('ok', V[op[1], :n1, :n2]) if 0 <= op[1] < n0 else ('err', IDX)
    if k == 'xl':
        return ('ok', V[:n0, op[1], :n2]) if 0 <= op[1] < n1 else ('err', IDX)
    if k == 'zs':
        return ('ok', V[:n0, :n1, op[1]]) if 0 <= op[1] < n2 else ('err', IDX)
    if k == 'ilno':
        return expected(fi, ('il', fi.il.index(op[1]))) if op[1] in fi.il else ('err', IDX)
    if k == 'xlno':
        return expected(fi, ('xl', fi.xl.index(op[1]))) if op[1] in fi.xl else ('err', IDX)
    if k == 'zsc':
        return expected(fi, ('zs', fi.z.index(op[1]))) if op[1] in fi.z else ('err', IDX)
    if k == 'sub':
        i0, i1, x0, x1, z0, z1 = op[1:7]
        if _rng_ok(i0, i1, n0) and _rng_ok(x0, x1, n1) and _rng_ok(z0, z1, n2):
            return ('ok', V[i0:i1, x0:x1, z0:z1])
        return ('err', IDX)
    if k == 'vol':
        return ('ok', V[:n0, :n1, :n2])
    if k in ('tr', 'trw', 'trc'):
        t = op[1]
        if not 0 <= t < fi.tracecount:
            return ('err', IDX)
        g = fi.grid_of[t] if fi.grid_of is not None else t
        i, x = g // n1, g % n1
        if k == 'tr':
            return ('ok', V[i, x, :n2])
        if k == 'trw':
            a, b = op[2], op[3]
            return ('ok', V[i, x, a:b]) if _rng_ok(a, b, n2) else ('err', IDX)
        za, zb = op[2], op[3]
        a = 0 if za is None else (fi.z.index(za) if za in fi.z else None)
        step = fi.z[-1] - fi.z[-2] if n2 > 1 else 0
        if zb is None:
            b = n2
        elif zb in fi.z:
            b = fi.z.index(zb)
        elif n2 > 1 and zb == fi.z[-1] + step:
            b = n2
        else:
            b = None
        if a is None or b is None or not _rng_ok(a, b, n2):
            return ('err', IDX)
        return ('ok', V[i, x, a:b])
    if k in ('cd', 'cdc', 'cdw', 'ad', 'adc', 'adw'):
        c = op[1]
        if k[0] == 'c':
            if not -n1 < c < n0:
                return ('err', IDX)
            pts = cd_points(c, n0, n1)
        else:
            if not 0 <= c < n0 + n1 - 1:
                return ('err', IDX)
            pts = ad_points(c, n0, n1)
        a, b = (0, len(pts)) if len(k) == 2 else (op[2], op[3])
        s, e = (0, n2) if k[-1] != 'w' else (op[4], op[5])
        if not _rng_ok(a, b, len(pts)) or not _rng_ok(s, e, n2):
            return ('err', IDX)
        return ('ok', np.stack([V[i, x, s:e] for (i, x) in pts[a:b]]))
    raise ValueError(op)


def negative_ordinal_alternative(fi, op):
    """Where an ordinal is negative and within [-count, 0), Python indexing denotes a real item; the property accepts
    that item as well as a refusal.  Returns the alternative expected ('ok', array) or None."""
    if op[0] in ('tr', 'trw', 'hdr') and isinstance(op[1], int) and -fi.tracecount <= op[1] < 0:
        alt = expected(fi, (op[0], fi.tracecount + op[1]) + tuple(op[2:]))
        return alt if alt[0] == 'ok' else None
    return None


def same(got, want):
    """bit-for-bit equality of a returned array with the expected slice (shape included)"""
    if isinstance(want, dict):
        try:
            return {int(k): int(v) for k, v in got.items()} == want
        except Exception:
            return False
    got = np.asarray(got)
    want = np.asarray(want)
    if got.shape != want.shape:
        return False
    if got.dtype == np.float32 and want.dtype == np.float32:
        return bool(np.array_equal(got.view(np.uint32), want.view(np.uint32)))
    return bool(np.array_equal(got.astype(np.float64), want.astype(np.float64)))


# ------------------------------------------------------------------------------------------- needed blocks

def request_box(fi, op):
    """list of (i0,i1,x0,x1,z0,z1) real-voxel boxes the op asks for (in-range ops only)"""
    k = op[0]
    n0, n1, n2 = fi.n
    if fi.is2d:
        if k == 'tr':
            return [(0, 1, op[1], op[1] + 1, 0, n2)]
        if k == 'trw':
            return [(0, 1, op[1], op[1] + 1, op[2], op[3])]
        if k == 'subp':
            return [(0, 1, op[1], op[2], op[3], op[4])]
    if k == 'il':
        return [(op[1], op[1] + 1, 0, n1, 0, n2)]
    if k == 'xl':
        return [(0, n0, op[1], op[1] + 1, 0, n2)]
    if k == 'zs':
        return [(0, n0, 0, n1, op[1], op[1] + 1)]
    if k == 'ilno':
        return request_box(fi, ('il', fi.il.index(op[1])))
    if k == 'xlno':
        return request_box(fi, ('xl', fi.xl.index(op[1])))
    if k == 'zsc':
        return request_box(fi, ('zs', fi.z.index(op[1])))
    if k == 'sub':
        return [tuple(op[1:7])]
    if k == 'vol':
        return [(0, n0, 0, n1, 0, n2)]
    if k in ('tr', 'trw', 'trc'):
        g = fi.grid_of[op[1]] if fi.grid_of is not None else op[1]
        a, b = (0, n2) if k == 'tr' else (op[2], op[3])
        if k == 'trc':
            a = 0 if op[2] is None else fi.z.index(op[2])
            b = n2 if op[3] is None or op[3] not in fi.z else fi.z.index(op[3])
        return [(g // n1, g // n1 + 1, g % n1, g % n1 + 1, a, b)]
    if k in ('cd', 'cdc', 'cdw', 'ad', 'adc', 'adw'):
        pts = cd_points(op[1], n0, n1) if k[0] == 'c' else ad_points(op[1], n0, n1)
        a, b = (0, len(pts)) if len(k) == 2 else (op[2], op[3])
        s, e = (0, n2) if k[-1] != 'w' else (op[4], op[5])
        return [(i, i + 1, x, x + 1, s, e) for (i, x) in pts[a:b]]
    raise ValueError(op)


def needed_blocks(fi, op):
    """set of disk-block indices (within the data section) that contain a unit holding a requested sample"""
    lay = fi.lay
    need = set()
    ug = lay.unit_grid()
    for (i0, i1, x0, x1, z0, z1) in request_box(fi, op):
        sub = ug[i0 // 4:(i1 + 3) // 4, x0 // 4:(x1 + 3) // 4, z0 // 4:(z1 + 3) // 4]
        need.update(np.unique(sub * lay.u // spec.DISK).tolist())
    return need


def touched_blocks(fi, ranges, data_start):
    """blocks of the data section touched by byte ranges (absolute file offsets); also bytes outside it"""
    lay = fi.lay
    end = data_start + spec.DISK * lay.n_blocks
    blocks, outside = set(), 0
    for off, ln in [(r[0], r[1]) for r in ranges]:
        a, b = off, off + ln
        if a < data_start:
            outside += min(b, data_start) - a
        if b > end:
            outside += b - max(a, end)
        a, b = max(a, data_start), min(b, end)
        if a < b:
            blocks.update(range((a - data_start) // spec.DISK, (b - 1 - data_start) // spec.DISK + 1))
    return blocks, outside
