"""Correspondence of Model/Cache with the real reader: a history of read calls over several readers of one file
(class-level loader caches, per-reader chunk LRU, preload) -- per call: outcome, shape, digest of the provenance array and
the range reads actually issued, vs the Lean model's `hist` answer."""
import numpy as np

from . import readops, readcheck, symcodec, iolog, spec
from seismic_zfp.read import SgzReader  # noqa: E402
from seismic_zfp.utils import get_chunk_cache_size  # noqa: E402

P = 2147483647


def digest(a):
    v = np.asarray(a).astype(np.int64).ravel() + 1
    w = np.arange(1, v.size + 1, dtype=np.int64)
    # (i+1)*(v+1) < 2^45, partial sums reduced blockwise to stay inside int64
    tot = 0
    for s in range(0, v.size, 4096):
        tot = (tot + int(np.sum((w[s:s + 4096] * v[s:s + 4096]) % P))) % P
    return tot


def op_line(rid, op, n2=0):
    k = op[0]
    if k in ('il', 'xl', 'zs'):
        return f'{rid} {k} {op[1]}'
    if k == 'vol':
        return f'{rid} vol'
    if k == 'sub':
        return f'{rid} sub ' + ' '.join(str(v) for v in op[1:7])
    if k == 'subp':
        return f'{rid} subp ' + ' '.join(str(v) for v in op[1:5])
    if k == 'tr':
        return f'{rid} tr {op[1]} 0 {n2}'
    if k == 'trw':
        return f'{rid} tr {op[1]} {op[2]} {op[3]}'
    if k == 'close':
        return f'{rid} close'
    if k in ('cd', 'ad'):
        return f'{rid} {k} {op[1]} N N N N'
    if k in ('cdc', 'adc'):
        return f'{rid} {k[:2]} {op[1]} {op[2]} {op[3]} N N'
    if k in ('cdw', 'adw'):
        return f'{rid} {k[:2]} {op[1]} {op[2]} {op[3]} {op[4]} {op[5]}'
    return None


def run_history(ctx, model, fi, hist, cfgs, desc):
    """hist: list of (rid, op); cfgs: list of (preload, chunk_cache_size) per reader id.  Returns True if it agreed."""
    lay = fi.lay
    default_cap = get_chunk_cache_size(lay.P[0] // lay.bs[0], lay.P[1] // lay.bs[1]) if not fi.is2d else 1
    head = f"hist {lay.n[0]} {lay.n[1]} {lay.n[2]} {lay.bs[0]} {lay.bs[1]} {lay.bs[2]} {lay.u} {len(cfgs)} " + \
        ' '.join(f"{1 if p else 0} {default_cap if c is None else c}" for p, c in cfgs)
    lines = [op_line(rid, op, lay.n[2]) for rid, op in hist]
    assert all(l is not None for l in lines)
    data_start = getattr(fi, 'data_start', spec.DISK * 2)
    impl = []
    with symcodec.symbolic_decoder():
        handles = [iolog.LoggedFile(fi.path) for _ in cfgs]
        readers = [SgzReader(h, preload=p, chunk_cache_size=c) for h, (p, c) in zip(handles, cfgs)]
        try:
            readers[0].loader.clear_cache()   # class-level slots start empty, as in the model's initial state
            for rid, op in hist:
                h = handles[rid]
                h.log.clear()
                if op[0] == 'close':
                    readers[rid].loader.clear_cache()   # what close() does to the shared state (handle kept for logging)
                    readers[rid]._read_containing_chunk_cached.cache_clear()
                    impl.append('err other')
                    continue
                got = readops.outcome(readers[rid], op)
                if got[0] == 'ok':
                    a = np.asarray(got[1])
                    fs = ','.join(f'{o - data_start}:{l}' for (o, l, _) in h.log)
                    impl.append(f"ok {','.join(str(v) for v in a.shape)} {digest(a)} {fs}".rstrip() if fs else
                                f"ok {','.join(str(v) for v in a.shape)} {digest(a)} ")
                elif got[0] == 'err':
                    impl.append(f'err {got[1]}')
                else:
                    impl.append(f'exc {got[1]}')
        finally:
            for r in readers:
                try:
                    r.close()
                except Exception:
                    pass
    ctx.stats['corr_requests'] += 1
    ans = model.ask(head + ' ; ' + ' ; '.join(lines))
    m = [x.strip() for x in ans.split(' ; ')] if ans != 'bad-op' else None
    im = [x.strip() for x in impl]
    if m != im:
        first = None if m is None else next((j for j in range(min(len(m), len(im))) if m[j] != im[j]), None)
        ctx.corr_fail('Model.Cache', (head + ' ; ' + ' ; '.join(lines))[:600],
                      None if m is None else {'first_diff': first, 'model': (m[first][:160] if first is not None else len(m))},
                      {'impl': im[first][:160] if first is not None else len(im),
                       'history_before': [lines[j] for j in range(max(0, (first or 0) - 4), (first or 0) + 1)]}, desc)
        return False
    return True
