"""Everything the public API reports about one SGZ file, gathered through the real reader: used to compare a derived
file (crop, re-block, windowed conversion, export) with its source."""
import numpy as np
import segyio

from . import env, spec
from seismic_zfp.read import SgzReader  # noqa: E402


def sgz_view(path, headers=True, max_headers=400):
    v = {}
    with SgzReader(path) as r:
        v['is2d'] = bool(r.is_2d)
        v['tracecount'] = int(r.tracecount)
        v['structured'] = bool(r.structured)
        v['zslices'] = np.asarray(r.zslices, dtype=np.float64)
        v['hash'] = r.get_source_data_hash()
        v['filehdr'] = bytes(r.headerbytes[4096:4096 + 3600]) if len(r.headerbytes) >= 8192 else b''
        v['stored'] = [int(k) for k in r.stored_header_keys]
        v['version'] = r.file_version.encoding
        if r.is_2d:
            v['ilines'] = v['xlines'] = None
            v['volume'] = r.read_subplane(0, r.tracecount, 0, r.n_samples).copy()
        else:
            v['ilines'] = np.asarray(r.ilines, dtype=np.int64)
            v['xlines'] = np.asarray(r.xlines, dtype=np.int64)
            v['volume'] = r.read_volume().copy()
        if headers:
            v['tracefields'] = {}
            for k in r.stored_header_keys:
                r.clear_variant_headers()
                v['tracefields'][int(k)] = np.asarray(r.get_tracefield_values(k)).copy()
            r.clear_variant_headers()
            idx = list(range(r.tracecount)) if r.tracecount <= max_headers else \
                sorted(set(np.linspace(0, r.tracecount - 1, max_headers).astype(int).tolist()))
            v['header_idx'] = idx
            v['headers'] = [{int(k): int(val) for k, val in r.gen_trace_header(i).items()} for i in idx]
    return v


def diff_views(a, b, keys=('tracecount', 'structured', 'ilines', 'xlines', 'zslices', 'volume', 'hash', 'filehdr',
                           'tracefields', 'headers')):
    """list of differences between two views (b is the expectation)"""
    out = []
    for k in keys:
        x, y = a.get(k), b.get(k)
        if k in ('ilines', 'xlines', 'zslices', 'volume'):
            if x is None or y is None:
                if not (x is None and y is None):
                    out.append(f'{k}: {None if x is None else "array"} vs {None if y is None else "array"}')
                continue
            x, y = np.asarray(x), np.asarray(y)
            if x.shape != y.shape:
                out.append(f'{k}: shape {x.shape} vs {y.shape}')
            elif k == 'zslices':
                if not np.allclose(x, y, rtol=0, atol=1e-9 * max(1.0, float(np.abs(y).max()) if y.size else 1.0)):
                    out.append(f'zslices: {x[:3].tolist()}... vs {y[:3].tolist()}...')
            elif k == 'volume':
                if not np.array_equal(x.astype(np.float32).view(np.uint32), y.astype(np.float32).view(np.uint32)):
                    bad = np.argwhere(x != y)
                    out.append(f'volume differs at {len(bad)} voxels, first {bad[0].tolist() if len(bad) else "?"}')
            elif not np.array_equal(x, y):
                out.append(f'{k}: {x[:4].tolist()}... vs {y[:4].tolist()}...')
        elif k == 'tracefields':
            if sorted(x) != sorted(y):
                out.append(f'stored tracefields {sorted(x)} vs {sorted(y)}')
            else:
                for f in x:
                    if x[f].shape != y[f].shape or not np.array_equal(x[f], y[f]):
                        out.append(f'tracefield {f}: shape {x[f].shape} vs {y[f].shape} or values differ')
        elif k == 'headers':
            if len(x) != len(y):
                out.append(f'headers: {len(x)} vs {len(y)}')
            else:
                for i, (h1, h2) in enumerate(zip(x, y)):
                    if h1 != h2:
                        d = {f: (h1.get(f), h2.get(f)) for f in set(h1) | set(h2) if h1.get(f) != h2.get(f)}
                        out.append(f'header {i}: fields differ {dict(list(d.items())[:4])}')
                        break
        elif x != y:
            out.append(f'{k}: {str(x)[:60]} vs {str(y)[:60]}')
    return out


def restrict(v, box, mask=None):
    """view of the source restricted to index box ((i0,i1),(x0,x1),(z0,z1)) - what a crop must equal; `mask`: the
    populated grid positions of an irregular source (the crop holds the live traces of the box)"""
    (i0, i1), (x0, x1), (z0, z1) = box
    n1 = len(v['xlines'])
    live = (i1 - i0) * (x1 - x0) if mask is None else \
        int(np.count_nonzero(np.asarray(mask).reshape(len(v['ilines']), n1)[i0:i1, x0:x1]))
    out = {'is2d': False, 'tracecount': live, 'structured': live == (i1 - i0) * (x1 - x0),
           'ilines': v['ilines'][i0:i1], 'xlines': v['xlines'][x0:x1], 'zslices': v['zslices'][z0:z1],
           'volume': v['volume'][i0:i1, x0:x1, z0:z1], 'hash': v['hash'], 'stored': v['stored']}
    if 'tracefields' in v:
        out['tracefields'] = {k: a[i0:i1, x0:x1] for k, a in v['tracefields'].items()}
    return out


def segy_view(path, max_headers=400):
    """what segyio reports about a SEG-Y file (A2)"""
    v = {}
    with segyio.open(path, strict=False) as f:
        v['tracecount'] = int(f.tracecount)
        v['unstructured'] = bool(f.unstructured)
        v['samples'] = np.asarray(f.samples, dtype=np.float64)
        v['ilines'] = None if f.unstructured else np.asarray(f.ilines, dtype=np.int64)
        v['xlines'] = None if f.unstructured else np.asarray(f.xlines, dtype=np.int64)
        idx = list(range(f.tracecount)) if f.tracecount <= max_headers else \
            sorted(set(np.linspace(0, f.tracecount - 1, max_headers).astype(int).tolist()))
        v['header_idx'] = idx
        v['headers'] = [{int(k): int(val) for k, val in f.header[i].items()} for i in idx]
        v['traces'] = np.stack([np.asarray(f.trace[i]).copy() for i in range(f.tracecount)])
    with open(path, 'rb') as fh:
        v['filehdr'] = fh.read(3600)
    v['path'] = path
    return v
