"""C08 — irregular 3D surveys."""
import numpy as np
import segyio

from .. import env, core, gen, conv, spec, mksegy, view
from seismic_zfp.read import SgzReader  # noqa: E402
import seismic_zfp  # noqa: E402

ASSUMPTIONS = ["sources sorted ascending by (inline, crossline) (the route stores the grid in ascending line-number order)",
               "A1, A2", "KF-C08-inline-zero: a trace on inline number 0 cannot be told from a hole (format limit)"]
RULE = ("random proper subsets of n_il x n_xl grids (every line keeps >=1 trace; 1-40% holes incl. adjacent pairs, corners, "
        "first/last trace) with independent starts and unequal increments x detection modes heuristic/thorough/exhaustive x "
        "layouts: inferred axes, tracecount, structured=False, trace i/header i == i-th source trace/header, tracefield grids "
        "with zeros at holes, volume reads == zfpy image of the zero-filled grid bit for bit"
        "; K: Model/Irregular inferRange vs the header grid and populated (ordinal -> grid slot) vs the reader's mask, on executions of the irregular route"
        "; Model/HeaderReads.run vs real header histories on files with holes (masked and padded mode)")


def one(ctx, rng, k):
    n = (int(rng.integers(2, 12)), int(rng.integers(2, 12)), int(rng.integers(2, 40)))
    il0, xl0 = int(rng.integers(1, 400)), int(rng.integers(-300, 3000))
    if k % 9 == 8:
        il0 = -int(rng.integers(0, n[0])) * 1  # axis crossing inline number 0 (known finding)
    ils, xls = int(rng.choice([1, 2, 3, 5])), int(rng.choice([1, 2, 4, 7]))
    il = [il0 + ils * i for i in range(n[0])]
    xl = [xl0 + xls * j for j in range(n[1])]
    if k % 6 == 5:
        # rare but valid line numbers: near the int32 limits, huge increments, axes spanning 2^31 and more (ascending,
        # inline number 0 avoided -- see the known finding)
        from .c05 import big_axis
        il, xl = sorted(big_axis(rng, n[0])), sorted(big_axis(rng, n[1]))
        if 0 in il:
            il = sorted(big_axis(rng, n[0]))
        if 0 in il:
            il = [il0 + ils * i for i in range(n[0])]
    cells = [(i, x) for i in range(n[0]) for x in range(n[1])]
    frac = float(rng.choice([.03, .1, .25, .4]))
    skip = set(c for c in cells if rng.random() < frac)
    if k % 3 == 0 and n[1] > 3:   # an adjacent pair and the first/last trace
        skip |= {(min(1, n[0] - 1), 1), (min(1, n[0] - 1), 2)}
    if k % 4 == 0:
        skip |= {(0, 0)}
    if k % 5 == 0:
        skip |= {(n[0] - 1, n[1] - 1)}
    for i in range(n[0]):
        if all((i, x) in skip for x in range(n[1])):
            skip.discard((i, int(rng.integers(n[1]))))
    for x in range(n[1]):
        if all((i, x) in skip for i in range(n[0])):
            skip.discard((int(rng.integers(n[0])), x))
    if not skip:
        skip = {(n[0] // 2, n[1] // 2)} if n[0] * n[1] > 4 else {(n[0] - 1, n[1] - 1)}
    # the grid must stay recoverable: first & last line of each axis populated is implied by "every line carries a trace"
    arr = gen.cube(rng, n)
    plan = mksegy.header_plan(rng, n_fields=int(rng.integers(0, 5)))
    sgy = ctx.path('ir.sgy')
    order = mksegy.make_segy(sgy, arr, ilines=il, xlines=xl, headers=plan, skip=skip, fmt=5, dt_us=2000)
    mode = ['heuristic', 'thorough', 'exhaustive'][k % 3]
    q, bs = [(16, None), (32, (4, 4, -1)), (16, (8, 8, -1)), (8, (16, 16, 4 * 32768 // (8 * 256)))][k % 4]
    out = ctx.path('ir.sgz')
    desc = {'irregular': True, 'n': n, 'ilines': il, 'xlines': xl[:3], 'holes': sorted(skip)[:12], 'n_holes': len(skip),
            'mode': mode, 'q': q, 'bs': bs}
    ctx.case((n, tuple(il[:2]), tuple(xl[:2]), tuple(sorted(skip)), mode, q), sample=desc)
    ctx.stats['mode_' + mode] += 1
    ctx.stats['holes_%s' % ('1' if len(skip) == 1 else '2+')] += 1
    from seismic_zfp.seismicfile import SeismicFile
    with SeismicFile.open(sgy) as sf:
        # (known finding KF-C08-segyio-structured: segyio's own geometry inference takes some irregular files for a regular
        #  cube or a single line; everything downstream of that is the recorded finding, also a refused conversion)
        desc['segyio_reports_structured'] = bool(sf.structured)
    try:
        conv.segy_to_sgz(sgy, out, q, bs, header_detection=mode)
    except Exception as e:  # noqa
        ctx.fail(f'irregular conversion failed: {type(e).__name__}: {str(e)[:120]}', desc)
        return
    for p in spec.conformance_problems(out):
        ctx.fail('irregular file not conformant: ' + p, desc)
    src = view.segy_view(sgy)
    ctx.stats['segyio_reports_structured'] += int(desc['segyio_reports_structured'])
    try:
        verify(ctx, rng, out, src, order, n, il, xl, q, mode, desc)
    except Exception as e:  # noqa
        ctx.fail(f'irregular file cannot be read back: {type(e).__name__}: {str(e)[:120]}', desc)


def verify(ctx, rng, out, src, order, n, il, xl, q, mode, desc):
    grid = np.zeros(n, dtype=np.float32)
    for t, (i, x) in enumerate(order):
        grid[i, x] = src['traces'][t]
    with SgzReader(out) as r:
        m = MODEL.get('m')
        if m is not None and not desc.get('segyio_reports_structured'):
            # (when segyio itself takes the file for a regular cube - the recorded finding KF-C08-segyio-structured - the
            #  converter runs its regular route and Model/Irregular does not describe that execution)
            # K: Model/Irregular.inferRange vs the grid in the written header; Irregular.populated (ordinal -> grid slot)
            # vs the reader's mapping, from the stored inline-number array
            import struct as _st
            raw = open(out, 'rb').read(64)
            ils = sorted(set(il[i] for (i, x) in order))
            xls = sorted(set(xl[x] for (i, x) in order))
            for name, ids, o0, od, cnt in (('il', ils, 24, 36, 12), ('xl', xls, 20, 32, 8)):
                ctx.stats['corr_requests'] += 1
                ids_shuffled = [ids[j] for j in rng.permutation(len(ids))]
                ans = m.ask('irr infer ' + ' '.join(str(v) for v in ids_shuffled))
                start, step, count = _st.unpack('<i', raw[o0:o0 + 4])[0], _st.unpack('<i', raw[od:od + 4])[0], \
                    _st.unpack('<I', raw[cnt:cnt + 4])[0]
                real = f'{start} {start + step * (count - 1)} {step}'
                if ans != real:
                    ctx.corr_fail('Model.Irregular/inferRange', 'irr infer ' + ' '.join(str(v) for v in ids_shuffled), ans, real,
                                  dict(desc, axis=name))
            arrs = spec.read_footer_arrays(out)
            if 189 in arrs:
                ctx.stats['corr_requests'] += 1
                stored = [int(v) for v in np.asarray(arrs[189]).ravel()]
                ans = m.ask('irr pop ' + ' '.join(str(v) for v in stored))
                r.get_unstructured_mask()
                real = ' '.join(str(int(v)) for v in np.flatnonzero(r.mask))
                if ans != real:
                    ctx.corr_fail('Model.Irregular/populated', f'irr pop <{len(stored)} values>', ans[:120], real[:120], desc)
        # the grid as a decoder written from the specification reads it from the header (origin and increment of each axis
        # at their documented byte positions), not only as the library's own reader reports it
        hs = spec.read_header(out)[0]
        s_il = [hs.il0 + hs.dil * j for j in range(hs.n_il)]
        s_xl = [hs.xl0 + hs.dxl * j for j in range(hs.n_xl)]
        if s_il != il or s_xl != xl:
            ctx.fail(f'header read from the specification alone states il {s_il[:3]}.. xl {s_xl[:3]}.., the inferred grid is '
                     f'il {il[:3]}.. xl {xl[:3]}..', desc)
        if list(map(int, r.ilines)) != il or list(map(int, r.xlines)) != xl:
            ctx.fail(f'inferred grid il {list(map(int, r.ilines))[:3]} xl {list(map(int, r.xlines))[:3]} != '
                     f'il {il[:3]} xl {xl[:3]}', desc)
            return
        if r.tracecount != len(order) or r.structured:
            ctx.fail(f'tracecount {r.tracecount} (source {len(order)}), structured={r.structured}', desc)
            return
        for p in conv.fidelity_problems(out, grid, q, fill='zero'):
            ctx.fail('irregular ' + p, desc)
        ref = spec.reference_image(np.pad(grid, [(0, (-s) % 4) for s in n], 'constant'), q / 4)[:n[0], :n[1], :n[2]]
        # every volume-style read path places traces at their grid position
        i, x, z = int(rng.integers(n[0])), int(rng.integers(n[1])), int(rng.integers(n[2]))
        for name, got, want in (('inline', lambda: r.read_inline(i), ref[i]), ('crossline', lambda: r.read_crossline(x), ref[:, x]),
                                ('zslice', lambda: r.read_zslice(z), ref[:, :, z])):
            g = got()
            if g.shape != want.shape or not np.array_equal(g.view(np.uint32), np.ascontiguousarray(want).view(np.uint32)):
                ctx.fail(f'irregular read_{name} differs from the image of the zero-filled grid', desc)
        c = int(rng.integers(-n[1] + 1, n[0]))
        g = r.read_correlated_diagonal(c)
        from ..readops import cd_points
        want = np.stack([ref[a, b] for a, b in cd_points(c, n[0], n[1])])
        if g.shape != want.shape or not np.array_equal(g.astype(np.float32).view(np.uint32), want.view(np.uint32)):
            ctx.fail(f'irregular correlated diagonal {c} differs from the image of the zero-filled grid', desc)
        # trace i / header i are the i-th source trace / header
        for t in sorted(set([0, len(order) - 1] + rng.integers(0, len(order), size=6).tolist())):
            i2, x2 = order[t]
            tr = r.get_trace(t)
            if not np.array_equal(tr.view(np.uint32), np.ascontiguousarray(ref[i2, x2]).view(np.uint32)):
                ctx.fail(f'get_trace({t}) is not the {t}-th source trace (grid position {(i2, x2)})', dict(desc, trace=t))
                break
        hyp = mode != 'heuristic'
        if not hyp:
            from ..segycases import heuristic_hypothesis
            hyp = heuristic_hypothesis(src['headers'])
        if hyp:
            for t, want in zip(src['header_idx'], src['headers']):
                got = {int(kk): int(v) for kk, v in r.gen_trace_header(t).items()}
                if got != want:
                    d = {f: (got.get(f), want.get(f)) for f in want if got.get(f) != want.get(f)}
                    ctx.fail(f'header {t} is not the {t}-th source header: {dict(list(d.items())[:3])}', dict(desc, trace=t))
                    break
        r.clear_variant_headers()
        if 193 in [int(kk) for kk in r.stored_header_keys]:   # (a constant/duplicate field has no array: refusal)
            tf = np.asarray(r.get_tracefield_values(segyio.TraceField.CROSSLINE_3D))
            want = np.zeros(n[:2], dtype=np.int64)
            for (i2, x2) in order:
                want[i2, x2] = xl[x2]
            if tf.shape != want.shape or not np.array_equal(tf, want):
                ctx.fail('get_tracefield_values(CROSSLINE_3D) is not the grid with zeros at holes', desc)
    with seismic_zfp.open(out) as f:
        t = len(order) // 2
        i2, x2 = order[t]
        if not np.array_equal(np.asarray(f.trace[t]).view(np.uint32), np.ascontiguousarray(ref[i2, x2]).view(np.uint32)):
            ctx.fail(f'emulator trace[{t}] is not the {t}-th source trace', dict(desc, trace=t))


MODEL = {}


def run(ctx):
    MODEL['m'] = core.Model()
    try:
        run_(ctx)
    finally:
        MODEL.pop('m').close()
    # K: the header-read state machine (Model/HeaderReads) on files with holes: header t = header of the t-th populated slot
    from . import c15
    c15.header_histories(ctx, n_quick=10, n_thorough=200, kinds=('irregular',), tag='c08-headers')


def run_(ctx):
    rng = gen.rng_for(ctx.seed, 'c08')
    for k in range(ctx.n(45, 900)):
        one(ctx, rng, k)


def replay(ctx, rp):
    run(ctx)
