"""C02, accessor part: segyio-style accessors, subvolume[...] with steps, tools.cube and the xarray backend must
return slices of the same decoded volume (symbolic decoder: returned arrays are provenance tables)."""
import numpy as np

from .. import env, gen, synth, symcodec, readops
import seismic_zfp  # noqa: E402


def _eq(ctx, what, got, want, inp):
    ctx.case((inp.get('n'), inp.get('bs'), what), sample=None)
    ctx.stats['accessor_exprs'] += 1
    try:
        g = got()
    except Exception as e:  # noqa
        ctx.fail(f'{what} raised {type(e).__name__}: {str(e)[:100]}', dict(inp, expr=what))
        return
    if not readops.same(np.asarray(g), np.asarray(want)):
        ctx.fail(f'{what} is not the corresponding slice of the decoded volume (shape {np.asarray(g).shape} vs '
                 f'{np.asarray(want).shape})', dict(inp, expr=what))


def xarray_keys(ctx, model, rng, fi, V, n, inp):
    """K: Model/Xarray (the backend's `_raw_indexing_method`: bounding box read + strides on the decoded box) vs the real
    method, on keys of basic indexers (integers incl. negative, slices with positive step incl. omitted / negative /
    out-of-range bounds); and the result vs numpy indexing of the decoded volume with the same key"""
    from seismic_zfp.sgz_xarray import SeismicZfpBackendArray
    from seismic_zfp.read import SgzReader
    r = SgzReader(fi.path)
    calls = []
    orig = r.read_subvolume

    def rec(**kw):
        calls.append(tuple(int(kw[k]) for k in ('min_il', 'max_il', 'min_xl', 'max_xl', 'min_z', 'max_z')))
        return orig(**kw)
    r.read_subvolume = rec
    arr = SeismicZfpBackendArray(tuple(n), np.float32, r)
    Nn = lambda v: 'N' if v is None else str(int(v))
    try:
        for _ in range(8):
            key, words = [], []
            for m in n:
                if rng.random() < .3:
                    k = int(rng.integers(-m, m))
                    key.append(k)
                    words.append(f'i:{k}')
                else:
                    a, b = (int(v) for v in rng.integers(-m - 2, m + 3, size=2))
                    a = [None, a][int(rng.integers(2))]
                    b = [None, b][int(rng.integers(2))]
                    c = [None, 1, 2, 3, 5][int(rng.integers(5))]
                    key.append(slice(a, b, c))
                    words.append(f's:{Nn(a)}:{Nn(b)}:{Nn(c)}')
            calls.clear()
            ctx.stats['corr_requests'] += 1
            ctx.stats['xarray_keys'] += 1
            req = f'xr {n[0]} {n[1]} {n[2]} ' + ' '.join(words)
            ans = model.ask(req)
            want = V[tuple(key)]
            try:
                got = np.asarray(arr._raw_indexing_method(tuple(key)))
            except Exception as e:  # noqa
                ctx.fail(f'xarray backend key {words} raised {type(e).__name__}: {str(e)[:100]}', dict(inp, key=words))
                continue
            d = dict(inp, key=words)
            ctx.case((tuple(n), tuple(words)))
            if got.shape != want.shape or (want.size and not readops.same(got, want)):
                ctx.fail(f'xarray backend key {words}: result is not the decoded volume indexed with the same key '
                         f'(shape {got.shape} vs {want.shape})', d)
            parts = [x.strip() for x in ans.split('|')]
            if len(parts) != 4 or 'err' in parts:
                ctx.corr_fail('Model.Xarray', req, ans, 'a result', d)
                continue
            pos = [[int(v) for v in p_.split()] for p_ in parts[:3]]
            mbox = parts[3]
            rbox = 'none' if not calls else ' '.join(str(v) for v in calls[0])
            sel = V[np.ix_(*[np.asarray(p_, dtype=np.int64) for p_ in pos])] if all(pos) else None
            if sel is not None:
                sel = sel[tuple(0 if not isinstance(k, slice) else slice(None) for k in key)]
            ok = (mbox == rbox and len(calls) <= 1 and
                  ((sel is None and got.size == 0) or (sel is not None and sel.shape == got.shape and readops.same(got, sel))))
            if not ok:
                ctx.corr_fail('Model.Xarray', req, ans, f'box {rbox}; shape {got.shape}', d)
    finally:
        r.close()


def run(ctx, rng, model=None, n_quick=10, n_thorough=120):
    n_files = ctx.n(n_quick, n_thorough)
    for k in range(n_files):
        n, bs, q = gen.geometry_3d(rng, klass=['default', 'general', 'zslice', None][k % 4], max_voxels=30_000)
        n = tuple(max(v, 3) for v in n)
        if n[2] < 6:
            n = (n[0], n[1], 6)    # at least two groups of four samples (results of different groups held together below)
        il = (int(rng.integers(-20, 50)), int(rng.choice([1, 2, -1, -3])))
        xl = (int(rng.integers(-20, 50)), int(rng.choice([1, 3, -2])))
        if k % 3 == 1:   # line number 0 on the axis, at any position (first, inside, last)
            il = (-il[1] * int(rng.integers(0, n[0])), il[1])
        if k % 3 == 2:
            xl = (-xl[1] * int(rng.integers(0, n[1])), xl[1])
        z = (int(rng.integers(0, 100)) * 4, int(rng.choice([4000, 2000, 1000])))
        if k % 4 == 3:
            # a sample interval that is not a whole number of milliseconds: the subvolume accessor addresses samples by
            # the truncated times (0, 2, 5, 7, 10, ... at 2.5 ms) -- an integer axis that is not an arithmetic progression
            z = (z[0], int(rng.choice([2500, 1500, 3500])))
        fi = synth.make(ctx.path('em.sgz'), n, bs, q, rng, il=il, xl=xl, z=z)
        V = fi.real()
        inp = {'n': n, 'bs': bs, 'q': q, 'il': il, 'xl': xl, 'z': z}
        with symcodec.symbolic_decoder():
            with seismic_zfp.open(fi.path) as f:
                i, x, s = int(rng.integers(n[0])), int(rng.integers(n[1])), int(rng.integers(n[2]))
                t = int(rng.integers(n[0] * n[1]))
                _eq(ctx, 'iline[no]', lambda: f.iline[fi.il[i]], V[i], inp)
                _eq(ctx, 'xline[no]', lambda: f.xline[fi.xl[x]], V[:, x], inp)
                _eq(ctx, 'depth_slice[k]', lambda: f.depth_slice[s], V[:, :, s], inp)
                _eq(ctx, 'depth_slice[-k]', lambda: f.depth_slice[s - n[2]], V[:, :, s], inp)
                _eq(ctx, 'trace[k]', lambda: f.trace[t], V[t // n[1], t % n[1]], inp)
                _eq(ctx, 'trace[-k]', lambda: f.trace[t - n[0] * n[1]], V[t // n[1], t % n[1]], inp)
                # two results of the same accessor held at the same time (first and last item): a result must not be a view of
                # memory the next read rewrites
                for nm_, acc_, k0, k1, w0, w1 in (('depth_slice', f.depth_slice, 0, n[2] - 1, V[:, :, 0], V[:, :, n[2] - 1]),
                                                  ('iline', f.iline, fi.il[0], fi.il[-1], V[0], V[n[0] - 1]),
                                                  ('xline', f.xline, fi.xl[0], fi.xl[-1], V[:, 0], V[:, n[1] - 1]),
                                                  ('trace', f.trace, 0, n[0] * n[1] - 1, V[0, 0], V[n[0] - 1, n[1] - 1])):
                    try:
                        r0 = acc_[k0]
                        r1 = acc_[k1]
                        both = (np.asarray(r0), np.asarray(r1))
                    except Exception as e:  # noqa
                        ctx.fail(f'{nm_}[first], {nm_}[last] raised {type(e).__name__}: {str(e)[:100]}', dict(inp, expr=nm_))
                        continue
                    ctx.stats['accessor_exprs'] += 1
                    if not (readops.same(both[0], np.asarray(w0)) and readops.same(both[1], np.asarray(w1))):
                        ctx.fail(f'{nm_}[first] and {nm_}[last] held together: the first result changed when the second was read',
                                 dict(inp, expr=f'{nm_}[{k0}], {nm_}[{k1}]'))
                a, b = sorted(rng.choice(n[0] * n[1] + 1, size=2, replace=False).tolist())
                st = int(rng.choice([1, 2, 3]))
                _eq(ctx, 'trace[a:b:c]', lambda: np.array(f.trace[a:b:st]),
                    V.reshape(-1, n[2])[a:b:st], inp)
                a, b = sorted(rng.choice(n[2] + 1, size=2, replace=False).tolist())
                _eq(ctx, 'depth_slice[a:b:c]', lambda: np.array(f.depth_slice[a:b:st]),
                    np.moveaxis(V[:, :, a:b:st], 2, 0), inp)
                # subvolume[a:b:c, ...] by coordinates; steps are multiples of the axis increment (axis order)
                sl, idx = [], []
                zint = [int(z[0] + j * z[1] / 1000.0) for j in range(n[2] + 1)]
                for ax, (o, d), m in ((0, il, n[0]), (1, xl, n[1]), (2, (z[0], z[1] // 1000), n[2])):
                    lo, hi = sorted(rng.choice(m + 1, size=2, replace=False).tolist())
                    c = int(rng.choice([1, 1, 2, 3]))
                    start = None if (lo == 0 and rng.random() < .3) else o + lo * d
                    stop = None if (hi == m and rng.random() < .3) else o + hi * d
                    step = None if (c == 1 and rng.random() < .5) else c * d
                    if ax == 2 and z[1] % 1000:
                        c = 1
                        start = None if start is None else zint[lo]
                        stop = None if stop is None else (zint[hi] if hi < m else zint[m - 1] + (zint[1] - zint[0]))
                        step = None
                    sl.append(slice(start, stop, step))
                    idx.append(slice(lo, hi, c))
                _eq(ctx, f'subvolume[{sl}]', lambda: f.subvolume[sl[0], sl[1], sl[2]], V[idx[0], idx[1], idx[2]],
                    dict(inp, slices=[(v.start, v.stop, v.step) for v in sl]))
                if model is not None:
                    # K: Model/Emul.subvolumeAxis (range check, coordinate lookup, index step, numpy step) vs the accessor's own
                    # helpers, per axis, also for subscripts outside the documented grammar (must be refused alike)
                    acc = f.subvolume
                    Nn = lambda v: 'N' if v is None else str(int(v))
                    for name, coords in (('Inline', acc.ilines), ('Crossline', acc.xlines), ('Samples', acc.zslices_int)):
                        coords = [int(v) for v in coords]
                        d = coords[1] - coords[0]
                        cands = [sl[['Inline', 'Crossline', 'Samples'].index(name)]]
                        for _ in range(3):
                            a_, b_ = (int(v) for v in rng.integers(min(coords) - 2 * abs(d), max(coords) + 3 * abs(d), size=2))
                            cands.append(slice([None, a_][int(rng.integers(2))], [None, b_][int(rng.integers(2))],
                                               [None, int(rng.choice([d, 2 * d, -d, d + 1, 3 * d]))][int(rng.integers(2))]))
                        for s_ in cands:
                            ctx.stats['corr_requests'] += 1
                            req = f"emul subax {','.join(str(v) for v in coords)} {Nn(s_.start)} {Nn(s_.stop)} {Nn(s_.step)}"
                            ans = model.ask(req)
                            try:
                                acc._check_subscripts(s_, np.asarray(coords), name)
                                a0_, st_, b0_ = acc._get_index_subscripts(s_, np.asarray(coords))
                                if not (0 <= a0_ < b0_ <= len(coords)):
                                    raise IndexError('empty or inverted index range (read_subvolume refuses)')
                                real = ' '.join(str(v) for v in np.arange(a0_, b0_)[::int(st_)])
                            except (IndexError, ValueError):
                                real = 'err'
                            if ans != real:
                                ctx.corr_fail('Model.Emul/subvolumeAxis', req, ans, real, dict(inp, axis=name))
            _eq(ctx, 'tools.cube', lambda: seismic_zfp.tools.cube(fi.path), V, inp)
            # xarray backend
            try:
                import xarray as xr
            except Exception:  # pragma: no cover
                xr = None
            if xr is not None:
                ds = xr.open_dataset(fi.path, engine='sgz_engine')
                try:
                    i0, i1 = sorted(rng.choice(n[0] + 1, size=2, replace=False).tolist())
                    x0, x1 = sorted(rng.choice(n[1] + 1, size=2, replace=False).tolist())
                    z0, z1 = sorted(rng.choice(n[2] + 1, size=2, replace=False).tolist())
                    c = int(rng.choice([2, 3]))
                    _eq(ctx, 'xarray data[i0:i1, x0:x1, z0:z1]', lambda: ds.data[i0:i1, x0:x1, z0:z1].values,
                        V[i0:i1, x0:x1, z0:z1], inp)
                    _eq(ctx, 'xarray data[i0:i1:c, :, z0:z1]', lambda: ds.data[i0:i1:c, :, z0:z1].values,
                        V[i0:i1:c, :, z0:z1], dict(inp, box=(i0, i1, c)))
                    _eq(ctx, 'xarray data[i, :, s]', lambda: ds.data[i, :, s].values, V[i, :, s], inp)
                    _eq(ctx, 'xarray data[::-1, x, :]', lambda: ds.data[::-1, x, :].values, V[::-1, x, :], inp)
                    _eq(ctx, 'xarray sel(il=..)', lambda: ds.data.sel(il=fi.il[i]).values, V[i], inp)
                    _eq(ctx, 'xarray data[:, x0:x1:c, s]', lambda: ds.data[:, x0:x1:c, s].values, V[:, x0:x1:c, s], inp)
                finally:
                    ds.close()
                if model is not None:
                    xarray_keys(ctx, model, rng, fi, V, n, inp)
