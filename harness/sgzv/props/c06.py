"""C06 — SEG-Y export round trip."""
import os
import numpy as np
import segyio

from .. import env, core, gen, conv, spec, mksegy, segycases, view
from seismic_zfp.read import SgzReader  # noqa: E402
from seismic_zfp.conversion import SgzConverter  # noqa: E402

ASSUMPTIONS = ["A2 segyio writes/reads SEG-Y and converts IEEE<->IBM", "delay recording time constant over the source",
               "headers compared under 'exhaustive'/'thorough' detection or when the heuristic's hypothesis holds"]
RULE = ("generated SEG-Y sources (IBM/IEEE; regular with ascending/descending/non-unit axes, irregular, 2D; header plans; binary "
        "header fields incl. ensemble fold >= 256; t0 incl. negative) x compression settings incl. non-square blockshapes x "
        "{API, CLI}: exported file opens in segyio with the same geometry/trace count/sample axis, first 3600 bytes identical, "
        "every trace header equal, samples == SgzReader values exactly (IEEE) / within 2^-20 relative (IBM), trace order kept"
        "; K: Model/Export format decision and header bytes, also for format codes segyio never writes (patched stored header)")


def one(ctx, rng, k):
    kind = ['regular', 'regular', '2d', 'irregular', 'regular'][k % 5]
    fmt = [5, 1][k % 2]
    if kind == 'regular':
        n = (int(rng.integers(2, 8)), int(rng.integers(2, 20)), int(rng.integers(2, 30)))
    elif kind == '2d':
        n = (1, int(rng.choice([2, 3, 15, 16, 17, 33, 64, 65, 300])) if k % 2 else int(rng.integers(2, 40)), int(rng.integers(2, 30)))
    else:
        n = (int(rng.integers(3, 8)), int(rng.integers(3, 8)), int(rng.integers(2, 20)))
    arr = gen.cube(rng, n)
    il, xl = segycases.axes(rng, n)
    skip = None
    if kind == 'irregular':
        il, xl = sorted(il), sorted(xl)
        il = [v + 1000 for v in il] if min(il) <= 0 <= max(il) else il
        # holes: last trace and an inner one; or an incomplete first inline (first trace missing); or random holes
        pat = (k // 5) % 3
        if pat == 0:
            skip = {(n[0] - 1, n[1] - 1), (1, 1)}
        elif pat == 1:
            skip = {(0, 0), (0, 1), (n[0] - 1, 0)}
        else:
            cells = [(i, x) for i in range(n[0]) for x in range(n[1])]
            skip = set(c for c in cells if rng.random() < .2)
            for i in range(n[0]):
                if all((i, x) in skip for x in range(n[1])):
                    skip.discard((i, int(rng.integers(n[1]))))
            for x in range(n[1]):
                if all((i, x) in skip for i in range(n[0])):
                    skip.discard((int(rng.integers(n[0])), x))
            skip = skip or {(1, 1)}
    t0 = int(rng.choice([0, 0, 100, -200, 1500]))
    dt = int(rng.choice([4000, 2000, 1000, 500]))
    plan = mksegy.header_plan(rng, n_fields=int(rng.integers(0, 6)))
    sgy = ctx.path('e.sgy')
    binf = {segyio.BinField.EnsembleFold: int(rng.choice([1, 255, 256, 300, 1000]))} if k % 3 == 0 else None
    ntr = n[0] * n[1] - (len(skip) if skip else 0)
    plan.set_final(ntr - 1)
    ext = int([0, 0, 0, 1, 2][(k // 3) % 5])
    mksegy.make_segy(sgy, arr, ilines=il, xlines=xl, fmt=fmt, t0=t0, dt_us=dt, headers=plan, skip=skip, two_d=(kind == '2d'),
                     binfields=binf, ext_headers=ext)
    src = view.segy_view(sgy)
    if kind == '2d':
        q, bs = int(rng.choice([16, 32, 64])), None
    else:
        q, bs = [(16, None), (32, (4, 8, -1)), (16, (8, 4, -1)), (8, (4, 16, -1)), (64, (4, 4, -1)), (16, (16, 16, -1))][k % 6]
    mode = ['exhaustive', 'thorough', 'heuristic'][k % 3]
    via_cli = k % 4 == 3
    sgz, exp = ctx.path('e.sgz'), ctx.path('x.sgy')
    desc = {'kind': kind, 'n': n, 'fmt': fmt, 'q': q, 'bs': bs, 'mode': mode, 'cli': via_cli, 't0': t0, 'dt_us': dt, 'ext_text_headers': ext,
            'il': il[:2], 'xl': xl[:2], 'binfields': {int(a): b for a, b in (binf or {}).items()}}
    ctx.case((kind, n, fmt, q, bs, mode, via_cli, t0, dt), sample=desc)
    ctx.stats['kind_' + kind] += 1
    ctx.stats['fmt_%d' % fmt] += 1
    try:
        conv.segy_to_sgz(sgy, sgz, q, bs, header_detection=mode)
        if via_cli:
            from click.testing import CliRunner
            from seismic_zfp import cli
            r = CliRunner().invoke(cli.cli, ['sgz2sgy', sgz, exp])
            if r.exit_code != 0:
                raise RuntimeError(f'CLI exit {r.exit_code}: {r.exception!r}')
        else:
            ckw = [{}, {'preload': True}, {'chunk_cache_size': 1}][(k // 3) % 3]     # (the exporter's reader options)
            desc['converter_options'] = ckw
            ctx.stats['exporter_preload'] += int(bool(ckw.get('preload')))
            with SgzConverter(sgz, **ckw) as c:
                # the exporting object may have been used for header look-ups before (either padding mode)
                pre = (k // 4) % 6
                desc['reads_before_export'] = ['none', 'gen_trace_header', 'read_variant_headers(include_padding=True)',
                                               'read_variant_headers(include_padding=True) + gen_trace_header',
                                               'get_tracefield_values of every stored field',
                                               'read_variant_headers(include_padding=True), then clear_variant_headers()'][pre]
                ctx.stats['pre_export_reads_%d' % pre] += 1
                if pre in (2, 3):
                    c.read_variant_headers(include_padding=True)
                if pre in (1, 3):
                    c.gen_trace_header(0)
                if pre == 5:
                    c.read_variant_headers(include_padding=True)
                    c.clear_variant_headers()
                if pre == 4:
                    # (whole-grid arrays, zero at the holes of an irregular survey, asked for before the export)
                    for key in list(c.stored_header_keys):
                        c.get_tracefield_values(key)
                env.quiet(c.convert_to_segy, exp)
    except Exception as e:  # noqa
        ctx.fail(f'convert/export failed: {type(e).__name__}: {str(e)[:140]}', desc)
        return
    try:
        out = view.segy_view(exp)
    except Exception as e:  # noqa
        ctx.fail(f'segyio cannot open the exported file: {type(e).__name__}: {str(e)[:120]}', desc)
        return
    probs = []
    if out['filehdr'] != src['filehdr']:
        nb = next(i for i in range(3600) if out['filehdr'][i:i + 1] != src['filehdr'][i:i + 1])
        probs.append(f'textual/binary file header differs (first at byte {nb})')
    if out['tracecount'] != src['tracecount']:
        probs.append(f"trace count {out['tracecount']} != {src['tracecount']}")
    if out['samples'].shape != src['samples'].shape or not np.allclose(out['samples'], src['samples'], rtol=0, atol=1e-6):
        probs.append(f"sample axis {out['samples'][:2].tolist()} != {src['samples'][:2].tolist()}")
    if kind == 'regular':
        if out['ilines'] is None or list(out['ilines']) != list(src['ilines']) or list(out['xlines']) != list(src['xlines']):
            probs.append('geometry (ilines/xlines) differs')
    hyp = mode != 'heuristic' or (len(src['headers']) == src['tracecount'] and segycases.heuristic_hypothesis(src['headers']))
    if hyp and not probs:
        for i, (a, b) in enumerate(zip(out['headers'], src['headers'])):
            if a != b:
                d = {f: (a.get(f), b.get(f)) for f in b if a.get(f) != b.get(f)}
                probs.append(f'trace header {i} differs: {dict(list(d.items())[:3])}')
                break
    if not probs:
        # decoded values from the specification decoder (independent of the read path the exporter uses)
        vol = spec.decode_volume(sgz)
        if kind == '2d':
            dec = vol
        elif kind == 'regular':
            dec = vol.reshape(-1, vol.shape[2])
        else:
            m = spec.read_footer_arrays(sgz)[189] != 0
            dec = vol.reshape(-1, vol.shape[2])[m]
        if dec.shape != out['traces'].shape:
            probs.append(f"exported traces {out['traces'].shape} vs decoded {dec.shape}")
        elif fmt == 5:
            if not np.array_equal(dec.view(np.uint32), out['traces'].view(np.uint32)):
                bad = np.argwhere(dec != out['traces'])
                probs.append(f'IEEE export: samples differ from the SGZ decode at {len(bad)} positions, first trace {bad[0][0]}')
        else:
            err = np.abs(out['traces'].astype(np.float64) - dec.astype(np.float64))
            tol = np.abs(dec.astype(np.float64)) * 2.0 ** -20 + 1e-30
            if (err > tol).any():
                bad = np.argwhere(err > tol)
                probs.append(f'IBM export: samples beyond 2^-20 relative of the SGZ decode at {len(bad)} positions, first trace {bad[0][0]}')
    for p in probs:
        ctx.fail('exported SEG-Y: ' + p, desc)
    format_correspondence(ctx, rng, sgz, desc)


MODEL = {}


def format_correspondence(ctx, rng, sgz, desc):
    """K: Model/Export (format code read big-endian at bytes 3225-3226 of the stored file header; unknown codes fall back to
    IBM with the field rewritten) vs the real exporter, also for codes segyio itself would not write"""
    m = MODEL.get('m')
    if m is None:
        return
    raw = bytearray(open(sgz, 'rb').read())
    for code in (None, int(rng.choice([0, 2, 3, 8, 256, 1280, 261]))):
        if code is not None:
            raw[4096 + 3224: 4096 + 3226] = bytes([code >> 8, code & 255])
        b0, b1 = raw[4096 + 3224], raw[4096 + 3225]
        e0, e1 = raw[4096 + 3504], raw[4096 + 3505]
        mod = ctx.path('fmt.sgz')
        with open(mod, 'wb') as f:
            f.write(raw)
        exp = ctx.path('fmt.sgy')
        ctx.stats['corr_requests'] += 1
        with SgzReader(mod) as r0:
            ns_, ntr_ = r0.n_samples, r0.tracecount
        ans = m.ask(f'export {b0} {b1} {e0} {e1} {ns_} {ntr_}')
        try:
            with SgzConverter(mod) as c:
                env.quiet(c.convert_to_segy, exp)
            hb = open(exp, 'rb').read(3600)
            with segyio.open(exp, strict=False) as f:
                fmt = int(f.format)
            # (offset of the trace after the last = the length of the exported file)
            real = f'{fmt} {hb[3224]} {hb[3225]} {os.path.getsize(exp)}'
        except Exception as e:  # noqa
            real = f'{type(e).__name__}: {str(e)[:80]}'
        if ans != real:
            ctx.corr_fail('Model.Export', f'export {b0} {b1} {e0} {e1} {ns_} {ntr_}', ans, real, dict(desc, patched_code=code))


def spec_built_sources(ctx, rng):
    """export of SGZ files laid out by the harness's own encoder from docs/file-specification.md (what any conformant
    writer, this release or an earlier one, leaves on disk): trace counts on both sides of multiples of 128, several
    stored header arrays -- the exported trace headers, geometry and file headers are the original's"""
    for k in range(ctx.n(6, 60)):
        n = [(8, 16, 6), (4, 32, 5), (16, 16, 4), (5, 7, 9), (8, 17, 6), (2, 64, 3)][k % 6]
        arr = gen.cube(rng, n, rare=False)
        il, xl = segycases.axes(rng, n)
        plan = mksegy.header_plan(rng, n_fields=int(rng.integers(2, 6)), kinds=['vary', 'vary', 'const', 'vary0'])
        plan.set_final(n[0] * n[1] - 1)
        sgy = ctx.path('sb.sgy')
        dt = int(rng.choice([4000, 2000, 1000]))
        mksegy.make_segy(sgy, arr, ilines=il, xlines=xl, fmt=5, headers=plan, dt_us=dt, t0=0)
        src = view.segy_view(sgy)
        cube = conv.segy_cube(sgy)[0] if isinstance(conv.segy_cube(sgy), tuple) else conv.segy_cube(sgy)
        q, bs = [(16, (4, 4, 512)), (32, (4, 4, 256)), (8, (4, 4, 1024))][k % 3]
        lay = spec.Layout(n, bs, q)
        arrays, consts = {}, {}
        for c in spec.FIELDS:
            vals = np.array([h[c] for h in src['headers']], dtype=np.int64)
            if len(set(vals.tolist())) > 1:
                arrays[c] = vals.astype(np.int32)
            elif vals[0] != 0:
                consts[c] = int(vals[0])
        sgz, exp = ctx.path('sb.sgz'), ctx.path('sb_exp.sgy')
        spec.build_file(sgz, lay, spec.version_encode(0, 2, 9, True), il=(il[0], il[1] - il[0]), xl=(xl[0], xl[1] - xl[0]),
                        z=(0, dt), arrays=arrays, consts=consts, data=spec.encode_data_section(cube, lay),
                        filehdr=src['filehdr'], hashbytes=bytes(range(1, 21)))
        desc = {'source': 'SGZ laid out from the specification', 'n': n, 'traces': n[0] * n[1], 'stored_arrays': sorted(arrays),
                'q': q, 'bs': bs}
        ctx.case(('spec-built', n, tuple(sorted(arrays)), q), sample=desc)
        ctx.stats['spec_built_sources'] += 1
        try:
            with SgzConverter(sgz) as c:
                env.quiet(c.convert_to_segy, exp)
            out = view.segy_view(exp)
        except Exception as e:  # noqa
            ctx.fail(f'export of a conformant SGZ file failed: {type(e).__name__}: {str(e)[:120]}', desc)
            continue
        probs = []
        if out['filehdr'] != src['filehdr']:
            probs.append('textual/binary file header differs')
        if out['tracecount'] != src['tracecount'] or out['ilines'] is None or list(out['ilines']) != list(src['ilines']) \
                or list(out['xlines']) != list(src['xlines']):
            probs.append('geometry / trace count differs')
        else:
            for i, (a, b) in enumerate(zip(out['headers'], src['headers'])):
                if a != b:
                    d = {f: (a.get(f), b.get(f)) for f in b if a.get(f) != b.get(f)}
                    probs.append(f'trace header {i} differs: {dict(list(d.items())[:3])}')
                    break
            dec = spec.decode_volume(sgz).reshape(-1, n[2])
            if dec.shape != out['traces'].shape or not np.array_equal(dec.view(np.uint32), out['traces'].view(np.uint32)):
                probs.append('samples differ from the decode of the SGZ')
        for p_ in probs:
            ctx.fail('SEG-Y exported from a conformant SGZ: ' + p_, desc)


def run(ctx):
    MODEL['m'] = core.Model()
    try:
        run_(ctx)
    finally:
        MODEL.pop('m').close()


def run_(ctx):
    rng = gen.rng_for(ctx.seed, 'c06')
    for k in range(ctx.n(50, 900)):
        one(ctx, rng, k)
    spec_built_sources(ctx, gen.rng_for(ctx.seed, 'c06-spec-built'))


def replay(ctx, rp):
    run(ctx)
