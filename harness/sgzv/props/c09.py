"""C09 — 2D lines."""
import numpy as np
import segyio

from .. import env, core, gen, conv, spec, mksegy, view, files, readcheck, synth, writercorr
from seismic_zfp.read import SgzReader  # noqa: E402
import seismic_zfp  # noqa: E402

ASSUMPTIONS = ["A1 zfpy cellwise in 2D for rates >= 1 (2D rates below 1 cannot be byte aligned: zfp's minimum of 9 bits per "
               "float block; they are never executed in-process)", "A2 segyio"]
RULE = ("2D SEG-Y sections (no il/xl numbering, single inline, single crossline) with trace counts around 1,2,3 trace groups "
        "and sample counts around 1,2,3 z-blocks x all valid (1,n,m) blockshapes x rates 1..32: decoded section == 2D zfpy "
        "image of the edge-extended section bit for bit, data bytes == reference encoder, trace i / header i == source, "
        "sample axis, trace count; read-side: synthetic 2D files under the symbolic decoder: get_trace / read_subplane windows "
        "on every residue vs spec address function and vs the Lean model; volume-style reads refused"
        "; K also: Model/Writer cells2d / hashFeed2d vs the real 2D producer under the symbolic compressor and hash log")


def write_side(ctx, rng, k):
    n, bs, q = gen.geometry_2d(rng, max_voxels=ctx.n(60_000, 250_000))
    n = (1, max(n[1], 2), max(n[2], 2))
    style = ['plain', 'single-il', 'single-xl'][k % 3]
    arr = gen.cube(rng, n)
    sgy = ctx.path('l.sgy')
    plan = mksegy.header_plan(rng, n_fields=int(rng.integers(0, 6)))
    plan.set_final(n[1] - 1)
    if style == 'plain':
        mksegy.make_segy(sgy, arr, two_d=True, headers=plan, fmt=[5, 1][k % 2], dt_us=int(rng.choice([4000, 1000, 500])),
                         t0=int(rng.choice([0, 600, -100, 32000])))
    elif style == 'single-il':
        mksegy.make_segy(sgy, arr, ilines=[7], xlines=list(range(10, 10 + n[1])), headers=plan, fmt=5, dt_us=2000,
                         t0=int(rng.choice([0, 600, -100])))
    else:
        a2 = arr.transpose(1, 0, 2)
        mksegy.make_segy(sgy, a2, ilines=list(range(3, 3 + n[1])), xlines=[55], headers=plan, fmt=5, dt_us=2000,
                         t0=int(rng.choice([0, 1500, -200])))
    src = view.segy_view(sgy)
    out = ctx.path('l.sgz')
    desc = {'n_traces': n[1], 'n_samples': n[2], 'bs': bs, 'q': q, 'style': style}
    ctx.case((n, bs, q, style), sample=desc)
    ctx.stats['style_' + style] += 1
    ctx.stats['groups_%d' % min(3, -(-n[1] // bs[1]))] += 1
    try:
        conv.segy_to_sgz(sgy, out, q, bs, header_detection=['heuristic', 'thorough', 'exhaustive'][k % 3])
    except Exception as e:  # noqa
        ctx.fail(f'2D conversion failed: {type(e).__name__}: {str(e)[:120]}', desc)
        return
    from . import c03 as _c03
    _c03.container_correspondence(ctx, out, desc, '2D converter output')   # K: Model/Header make/parse on the 2D header
    for p in spec.conformance_problems(out):
        ctx.fail('2D file not conformant: ' + p, desc)
    h, _ = spec.read_header(out)
    if not h.is2d or h.tracecount != n[1] or (h.n_il, h.n_xl, h.il0, h.xl0, h.dil, h.dxl) != (0, 0, 0, 0, 0, 0):
        ctx.fail(f'2D header layout wrong: bs0={h.bs[0]} tracecount={h.tracecount} 3D geometry bytes '
                 f'{(h.n_il, h.n_xl, h.il0, h.xl0, h.dil, h.dxl)}', desc)
        return
    for p in conv.fidelity_problems(out, src['traces'], q, is2d=True):
        ctx.fail('2D ' + p, desc)
    with SgzReader(out) as r:
        if r.tracecount != src['tracecount'] or len(r.zslices) != len(src['samples']) or \
                not np.allclose(r.zslices, src['samples'], rtol=0, atol=1e-9 * max(1.0, np.abs(src['samples']).max())):
            ctx.fail('2D trace count / sample axis differ from the source', desc)
        ref = spec.reference_image(src['traces'], q / 4)
        for i in sorted(set([0, n[1] - 1, int(rng.integers(n[1])), min(n[1] - 1, bs[1]), min(n[1] - 1, max(0, bs[1] - 1))])):
            t = r.get_trace(i)
            if t.shape != (n[2],) or not np.array_equal(t.view(np.uint32), ref[i].view(np.uint32)):
                ctx.fail(f'2D get_trace({i}) is not row {i} of the ZFP image of the source section', desc)
                break
        if k % 3 == 2 or segy_hyp(src):
            for i, want in zip(src['header_idx'], src['headers']):
                got = {int(kk): int(v) for kk, v in r.gen_trace_header(i).items()}
                if got != want:
                    d = {f: (got.get(f), want.get(f)) for f in want if got.get(f) != want.get(f)}
                    ctx.fail(f'2D header {i} differs from the source: {dict(list(d.items())[:3])}', desc)
                    break
    with seismic_zfp.open(out) as f:
        t = np.asarray(f.trace[n[1] - 1])
        if not np.array_equal(t.view(np.uint32), ref[n[1] - 1].view(np.uint32)):
            ctx.fail('2D emulator trace[-1] wrong', desc)


def segy_hyp(src):
    from ..segycases import heuristic_hypothesis
    return len(src['headers']) == src['tracecount'] and heuristic_hypothesis(src['headers'])


def run(ctx):
    rng = gen.rng_for(ctx.seed, 'c09')
    model = core.Model()
    from . import c03 as _c03
    _c03.MODEL['m'] = model
    try:
        for k in range(ctx.n(40, 1000)):
            write_side(ctx, rng, k)
        # K: 2D producer placement + hash feed under the symbolic compressor vs Model/Writer (cells2d, hashFeed2d)
        for k in range(ctx.n(30, 600)):
            n, bs, q = gen.geometry_2d(rng, max_voxels=40_000)
            n = (1, max(n[1], 2), max(n[2], 2))
            ctx.case(('writer2d', n, bs, q))
            writercorr.check(ctx, model, n, bs, q, 'segy')
        for fi in files.read_files(ctx, rng, ctx.n(30, 500), kinds=('2d',), max_voxels=60_000):
            s = readcheck.ReadSession(fi)
            try:
                ops = readcheck.in_range_ops(rng, fi, 6) + readcheck.out_of_range_ops(rng, fi, 1)
                readcheck.check_ops(ctx, model, s, ops, props=('C09', 'C02', 'C14'))
            finally:
                s.close()
    finally:
        model.close()


def replay(ctx, rp):
    run(ctx)
