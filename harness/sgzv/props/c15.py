"""C15 — history independence."""
import numpy as np

from .. import env, core, gen, files, synth, readops, readcheck, symcodec, histcorr, hdrcorr
from seismic_zfp.read import SgzReader  # noqa: E402
import seismic_zfp  # noqa: E402

ASSUMPTIONS = ["results compared as outcome class + bit-exact arrays / header dicts", "symbolic decoder (provenance): a stale or "
               "mis-keyed cache entry shows as a different provenance table", "model Sgz.Model.Cache: memo table with arbitrary "
               "retention (covers LRU of any size, clear-on-close)"]
RULE = ("near-collision histories (pairs of calls differing in exactly one argument, repeated and alternating, length <=40 quick "
        "/ <=400 thorough) over 1-3 readers opened by path + one emulator object (seven accessors on one handle) on the same "
        "synthetic file (3D all layouts, irregular, 2D), preload in {F,T}, chunk_cache_size in {1,2,default}, with other readers "
        "opened and closed meanwhile; the result of every operation (not only the last) is compared with the same operation on "
        "a fresh reader"
        "; K: Model/Cache.run vs real histories over 1-3 SgzReaders with logging handles: per call outcome, provenance digest and the range reads issued (hits, cross-reader evictions, preload, close)"
        "; Model/HeaderReads.run vs real histories of gen_trace_header / get_tracefield_values / clear_variant_headers on regular, irregular and 2D files with position-encoded footer arrays")


def emu_apply(em, fi, op):
    k = op[0]
    if k == 'il':
        return em.iline[fi.il[op[1]]]
    if k == 'xl':
        return em.xline[fi.xl[op[1]]]
    if k == 'zs':
        return em.depth_slice[op[1]]
    if k == 'tr':
        return em.trace[op[1]]
    if k == 'hdr':
        return em.header[op[1]]
    if k == 'hdrall':
        return em.gen_trace_header(op[1], load_all_headers=True)
    if k == 'tfv':
        return em.attributes(op[1])[:]
    return readops.apply(em, op)


def canon(out):
    if out[0] != 'ok':
        return out
    v = out[1]
    if isinstance(v, dict):
        return ('ok', ('hdr', tuple(sorted((int(a), int(b)) for a, b in v.items()))))
    a = np.asarray(v)
    return ('ok', (a.shape, a.astype(np.float64).tobytes()))


def outcome(fn):
    try:
        return ('ok', fn())
    except IndexError:
        return ('err', 'index')
    except seismic_zfp.utils.WrongDimensionalityError:
        return ('err', 'dimensionality')
    except Exception as e:  # noqa
        return ('exc', type(e).__name__ + ': ' + str(e)[:80])


def vary(rng, fi, op):
    """an op differing from `op` in exactly one argument (near collision)"""
    op = list(op)
    if op[0] in ('zsc', 'trc') and len(fi.z) > 1:
        # reads by sample coordinate: a neighbouring sample of the axis (fractional on sub-millisecond axes, where two
        # coordinates share their integer part)
        js = [i for i in range(1, len(op)) if isinstance(op[i], float)] if op[0] == 'trc' else [1]
        if js:
            i = int(rng.choice(js))
            zl = [float(v) for v in fi.z]
            at = min(range(len(zl)), key=lambda j: abs(zl[j] - float(op[i])))
            op[i] = type(op[i])(zl[min(len(zl) - 1, max(0, at + int(rng.choice([-1, 1, 2, -2]))))])
            return tuple(op)
    idx = [i for i in range(1, len(op)) if isinstance(op[i], int) and not isinstance(op[i], bool)]
    if not idx:
        return tuple(op)
    i = int(rng.choice(idx))
    op[i] = max(0, op[i] + int(rng.choice([-1, 1, 4, -4])))
    return tuple(op)


def history(rng, fi, length):
    base = readcheck.in_range_ops(rng, fi, 2)
    base = [o for o in base if o[0] != 'vol']      # (reads by line number and by sample coordinate included)
    T = fi.tracecount
    stored = sorted(fi.arrays)
    if stored:
        base += [('hdr', int(rng.integers(T))), ('tfv', int(rng.choice(stored))), ('hdr', int(rng.integers(T))),
                 ('tfv', int(rng.choice(stored))), ('hdrall', int(rng.integers(T))), ('rvh', bool(rng.random() < .6))]
    h = []
    while len(h) < length:
        o = base[int(rng.integers(len(base)))]
        r = rng.random()
        if r < .35:
            h += [o, vary(rng, fi, o)]
        elif r < .5:
            h += [o, o]
        elif r < .65:
            o2 = vary(rng, fi, o)
            h += [o, o2, o]
        else:
            h.append(o)
    return h[:length]


def model_histories(ctx):
    """K: histories over 1-3 readers vs the Lean cache state machine (Model/Cache): per call the outcome, the provenance
    digest and the range reads actually issued (hits issue none; class-level slots are shared between readers)"""
    rng = gen.rng_for(ctx.seed, 'c15-model')
    model = core.Model()
    try:
        kinds = ('default', '2d', 'general', 'zslice', 'default', 'b0is4')
        for hnum, fi in enumerate(files.read_files(ctx, rng, ctx.n(36, 600), kinds=kinds, max_voxels=12_000)):
            nread = 1 + hnum % 3
            cfgs = [(bool((hnum + r) % 4 == 3), [1, 2, None][(hnum + r) % 3]) for r in range(nread)]
            base = readcheck.in_range_ops(rng, fi, 2) + readcheck.out_of_range_ops(rng, fi, 1)[:2]
            base = [o for o in base if histcorr.op_line(0, o) is not None]
            hist = []
            while len(hist) < (ctx.n(30, 80)):
                o = base[int(rng.integers(len(base)))]
                rid = int(rng.integers(nread))
                r = rng.random()
                if r < .3:
                    hist += [(rid, o), (rid, vary(rng, fi, o))]
                elif r < .45:
                    hist += [(rid, o), (rid, o)]
                elif r < .6:
                    hist += [(rid, o), ((rid + 1) % nread, o), (rid, o)]
                elif r < .65:
                    hist += [(rid, ('close',))]
                else:
                    hist.append((rid, o))
            desc = {'n': fi.n, 'bs': fi.lay.bs, 'q': fi.lay.q, 'is2d': fi.is2d, 'readers': cfgs}
            ctx.case(('modelhist', fi.n, fi.lay.bs, hnum), sample={'file': desc, 'history_head': [histcorr.op_line(r, o) for r, o in hist[:5]]} if hnum < 2 else None)
            ctx.stats['model_history_ops'] += len(hist)
            histcorr.run_history(ctx, model, fi, hist, cfgs, desc)
    finally:
        model.close()


def header_histories(ctx, n_quick=30, n_thorough=600, kinds=('regular', 'irregular', '2d', 'irregular', '2d-const'), tag='c15-headers'):
    """K: histories of header / tracefield reads and `clear_variant_headers` on one reader vs the Lean header-read state
    machine (Model/HeaderReads): per call the outcome class, the digest of the values and the range reads issued"""
    rng = gen.rng_for(ctx.seed, tag)
    model = core.Model()
    try:
        for hnum in range(ctx.n(n_quick, n_thorough)):
            kind = kinds[hnum % len(kinds)]
            p = ctx.path('hh.sgz')
            fd = hdrcorr.make_file(p, rng, kind)
            T = fd['grid'] - len(fd['holes'])
            ops = []
            for _ in range(ctx.n(14, 30)):
                r = rng.random()
                t = int(rng.choice([0, T - 1, T, fd['grid'] - 1, fd['grid'], int(rng.integers(fd['grid'] + 2))]))
                if r < .35:
                    ops.append(('hdr', t))
                elif r < .45:
                    ops.append(('hdrall', t))
                elif r < .7:
                    ops.append(('tfv', int(rng.choice(fd['stored'] + [1, 197, 115]))))
                elif r < .8:
                    ops.append(('rvh', bool(rng.random() < .5)))
                elif r < .88:
                    ops.append(('rvh1', bool(rng.random() < .5), int(rng.choice(fd['stored'] + [115]))))
                else:
                    ops.append(('clear',))
            desc = {'kind': kind, 'grid': fd['grid'], 'holes': len(fd['holes']), 'stored': fd['stored'][:8]}
            ctx.case(('hdrhist', kind, fd['grid'], hnum), sample={'file': desc, 'ops_head': ops[:5]} if hnum < 3 else None)
            ctx.stats['header_history_ops'] += len(ops)
            ctx.stats['header_history_' + kind] += 1
            hdrcorr.run_history(ctx, model, p, fd, ops, desc)
            if hnum < len(set(kinds)) * 2:
                # every short history over a small alphabet (deeper when the correspondence has just broken or thorough)
                broken = any(c['component'] == 'Model.HeaderReads' for c in ctx.corr_failures)
                hdrcorr.enumerate_short_histories(ctx, model, p, fd, desc, depth=3 if (broken or not ctx.quick) else 2)
    finally:
        model.close()


def run(ctx):
    model_histories(ctx)
    header_histories(ctx)
    rng = gen.rng_for(ctx.seed, 'c15')
    n_hist = ctx.n(60, 1500)
    length = ctx.n(40, 200)
    kinds = ('default', 'irregular', '2d', 'general', 'zslice', 'default', 'irregular', 'b0is4')
    gen_files = files.read_files(ctx, rng, n_hist, kinds=kinds, max_voxels=20_000)
    for hnum, fi in enumerate(gen_files):
        preload = bool(hnum % 2)
        ccs = [1, 2, None][hnum % 3]
        desc = {'n': fi.n, 'bs': fi.lay.bs, 'q': fi.lay.q, 'is2d': fi.is2d, 'irregular': fi.mask is not None, 'preload': preload,
                'chunk_cache_size': ccs}
        with symcodec.symbolic_decoder():
            readers = [SgzReader(fi.path, preload=preload, chunk_cache_size=ccs) for _ in range(1 + hnum % 3)]
            em = seismic_zfp.open(fi.path, chunk_cache_size=ccs)
            extra = []
            fresh_cache = {}
            hist = history(rng, fi, length)
            done = []
            held = None
            try:
                for step, op in enumerate(hist):
                    who = int(rng.integers(len(readers) + 1))
                    if rng.random() < .08:
                        extra.append(SgzReader(fi.path, preload=bool(rng.random() < .5)))
                        readops.outcome(extra[-1], hist[int(rng.integers(len(hist)))])
                    if extra and rng.random() < .08:
                        extra.pop(int(rng.integers(len(extra)))).close()
                    if op[0] == 'rvh':
                        # loads the header arrays in one padding mode and returns nothing; its refusal of a second mode
                        # on one reader is the library's pinned contract - what must not change is every later read
                        tgt = em if who == len(readers) else readers[who]
                        outcome(lambda: readops.apply(tgt, op))
                        done.append((f'reader{who}' if who < len(readers) else 'emulator', op))
                        ctx.stats['padding_mode_loads'] += 1
                        continue
                    if who == len(readers):
                        got = outcome(lambda: emu_apply(em, fi, op))
                        via = 'emulator'
                    else:
                        got = readops.outcome(readers[who], op)
                        via = f'reader{who}'
                    done.append((via, op))
                    key = (op, via == 'emulator')
                    if key not in fresh_cache:
                        if via == 'emulator':
                            with seismic_zfp.open(fi.path) as f2:
                                fresh_cache[key] = canon(outcome(lambda: emu_apply(f2, fi, op)))
                        else:
                            with SgzReader(fi.path) as r2:
                                fresh_cache[key] = canon(readops.outcome(r2, op))
                    ctx.case((fi.n, fi.lay.bs, step, op, via, preload, ccs), sample={'file': desc, 'history_tail': done[-3:]} if step == 5 else None)
                    ctx.stats['ops'] += 1
                    ctx.stats['via_' + ('emulator' if via == 'emulator' else 'reader')] += 1
                    c = canon(got)
                    # the result of the previous call is still held by its caller: reading again must not change it
                    if held is not None and canon(held[0]) != held[1]:
                        ctx.fail(f'the array returned by {held[2]} changed when {via}.{op} was read afterwards (a result aliases '
                                 f'memory that a later read rewrites)', {'file': desc, 'history': done[-4:]})
                        break
                    held = (got, c, f'{via}.{op}')
                    if c != fresh_cache[key]:
                        ctx.fail(f'{via}.{op} after {step} earlier operations returned {c[0]}:{str(c[1])[:60] if c[0] != "ok" else "array"} '
                                 f'but a fresh reader returns {fresh_cache[key][0]}:{str(fresh_cache[key][1])[:60] if fresh_cache[key][0] != "ok" else "array"}',
                                 {'file': desc, 'history': done[-12:]})
                        break
            finally:
                for r in readers + extra:
                    try:
                        r.close()
                    except Exception:
                        pass
                try:
                    em.__exit__(None, None, None)
                except Exception:
                    pass
        ctx.stats['histories'] += 1


def replay(ctx, rp):
    run(ctx)
