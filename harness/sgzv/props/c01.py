"""C01 — write-then-read fidelity."""
import os

import numpy as np

from .. import segyrawcorr, env, core, gen, conv, spec, mksegy, symcodec, writercorr
from seismic_zfp.read import SgzReader  # noqa: E402

ASSUMPTIONS = ["A1 zfpy cellwise (validated in-run)", "A2 segyio/pyvds/pyzgy deliver the source samples (IBM->IEEE, VDS, ZGY)",
               "version string pinned at library level (pkg_resources) because the sandbox checkout is untagged"]
RULE = ("seeded cubes with extents on every residue mod 4 / mod blockshape (sub-block to 3 blocks per axis) x every layout "
        "class (4x4xN, 4xNxM, NxNx4, general) x all 8 rates x routes {NumPy, SEG-Y/segyio, SEG-Y/reduced-I/O, CLI} x "
        "{IEEE, IBM} x {0,1,2 extended textual headers} x 3 presentations of bits_per_voxel; oracle: data section bytes == "
        "independent reference encoder, read_volume() == zfpy image of the edge-extended source bit for bit; "
        "correspondence: unit->source-cell table recorded by the symbolic compressor vs Lean Writer model")


def cli_convert(sgy, out, q, bs, reduce_iops):
    from click.testing import CliRunner
    from seismic_zfp import cli
    args = ['sgy2sgz', sgy, out, '--bits-per-voxel', str(q // 4 if q >= 4 else -(4 // q)),
            '--blockshape', str(bs[0]), str(bs[1]), str(bs[2]), '--reduce-iops', str(bool(reduce_iops))]
    r = CliRunner().invoke(cli.cli, args)
    if r.exit_code != 0:
        raise RuntimeError(f'CLI exit {r.exit_code}: {r.output[-200:]} {r.exception!r}')


def one_case(ctx, rng, k, model):
    klass = ['default', 'b0is4', 'zslice', 'general', None, 'default', 'b0is4'][k % 7]
    n, bs, q = gen.geometry_3d(rng, klass=klass, max_voxels=ctx.n(60_000, 250_000))
    n = tuple(max(v, 2) for v in n)
    route = ['numpy', 'segy', 'segy-ri', 'numpy', 'cli', 'segy-ri', 'segy', 'cli-ri'][k % 8]
    arr = gen.cube(rng, n)
    out = ctx.path('w.sgz')
    desc = {'n': n, 'bs': bs, 'q': q, 'route': route}
    free = int(rng.integers(0, 5))  # which of (bpv, b0, b1, b2) is left as -1 (4 = none)
    bs_arg = tuple(-1 if free == j + 1 else b for j, b in enumerate(bs))
    try:
        if route == 'numpy':
            if k % 16 == 3:
                # extents that are exact multiples of the block shape (no plane set needs padding) and a zero-stride
                # broadcast view as input
                reps = [int(rng.integers(1, 4)) for _ in range(3)]
                while reps[0] * bs[0] * reps[1] * bs[1] * reps[2] * bs[2] > 4 * ctx.n(60_000, 250_000) and max(reps) > 1:
                    reps[int(np.argmax(reps))] -= 1
                n = tuple(r * b for r, b in zip(reps, bs))
                arr, src = gen.broadcast_view(gen.cube(rng, n), k // 16)
                desc.update(n=n, input='broadcast view, block-aligned extents')
                ctx.stats['numpy_broadcast_aligned'] += 1
                conv.numpy_to_sgz(arr, out, q, bs_arg, style=k // 8)
            else:
                conv.numpy_to_sgz(gen.noncontiguous(arr, k // 16) if (k // 8) % 2 else arr, out, q, bs_arg, style=k // 8)
                src = arr
        else:
            fmt = [5, 1][(k // 8) % 2]
            ext = [0, 0, 1, 2][(k // 16) % 4]
            desc.update(fmt=fmt, ext=ext)
            sgy = ctx.path('w.sgy')
            mksegy.make_segy(sgy, arr, ilines=[3 + 2 * i for i in range(n[0])], xlines=[100 - j for j in range(n[1])],
                             fmt=fmt, ext_headers=ext, dt_us=2000)
            src = conv.segy_cube(sgy)
            if route.startswith('cli'):
                cli_convert(sgy, out, q, bs, route.endswith('ri'))
            elif k % 5 == 3 and n[0] >= 3:
                # the same route through an inline window that keeps every crossline (a sub-cube is a cube: C01 applies
                # to it, whichever reader the converter selects for a window)
                a0 = int(rng.integers(1, n[0] - 1))
                a1 = int(rng.integers(a0 + 1, n[0] + 1))
                desc.update(window=(a0, a1, 0, n[1]))
                conv.segy_to_sgz(sgy, out, q, bs_arg, reduce_iops=route.endswith('ri'), style=k // 8, window=(a0, a1, 0, n[1]))
                src = src[a0:a1]
                ctx.stats['windowed'] += 1
            elif route == 'segy-ri':
                # K: Model/SegyRaw - the range reads the reduced-I/O reader issues on the SEG-Y file
                with segyrawcorr.logged_reads() as rlog:
                    conv.segy_to_sgz(sgy, out, q, bs_arg, reduce_iops=True, style=k // 8)
                if ext == 0 and model is not None:
                    segyrawcorr.check(ctx, model, list(rlog), n, bs[0], desc)
            else:
                conv.segy_to_sgz(sgy, out, q, bs_arg, reduce_iops=route.endswith('ri'), style=k // 8)
    except Exception as e:  # noqa
        ctx.fail(f'valid setting refused / conversion crashed: {type(e).__name__}: {str(e)[:160]}', desc)
        ctx.case((n, bs, q, route))
        return
    probs = conv.fidelity_problems(out, src, q)
    ctx.case((n, bs, q, route), sample=dict(desc, problems=probs))
    ctx.stats['route_' + route] += 1
    ctx.stats['layout_' + klass if klass else 'layout_any'] += 1
    ctx.stats['multiblock_z'] += int(n[2] > bs[2])
    for p in probs:
        ctx.fail(p, desc)
    # K: writer placement under the symbolic compressor, every route: unit j <- which source cell (Model/Writer)
    if k % 2 == 0 and n[0] * n[1] * n[2] < 2 ** 22:
        kroute = ['numpy', 'segy', 'segy-ri'][(k // 2) % 3]
        writercorr.check(ctx, model, n, bs, q, kroute, desc, want_hash=False)


def vds_zgy(ctx):
    """VDS/ZGY routes on the fixtures of test_data (sources read through pyvds/pyzgy, A2)"""
    from seismic_zfp.conversion import VdsConverter, ZgyConverter
    cases = []
    try:
        import pyvds
        cases.append(('vds', os.path.join(env.REPO, 'test_data', 'vds', 'small.vds'), pyvds, VdsConverter))
    except Exception:
        ctx.notes.append('pyvds not importable: VDS route not exercised')
    try:
        import pyzgy
        for nm in ('small-32bit.zgy', 'small-16bit.zgy', 'small-8bit.zgy'):
            cases.append(('zgy', os.path.join(env.REPO, 'test_data', 'zgy', nm), pyzgy, ZgyConverter))
    except Exception:
        ctx.notes.append('pyzgy not importable: ZGY route not exercised')
    for kind, path, lib, Conv in cases:
        for q in (16, 64):
            out = ctx.path('v.sgz')
            desc = {'route': kind, 'file': os.path.basename(path), 'q': q}
            try:
                with Conv(path) as c:
                    env.quiet(c.run, out, bits_per_voxel=q // 4)
                with lib.open(path) as f:
                    src = np.stack([np.asarray(f.iline[il]) for il in f.ilines]).astype(np.float32)
            except Exception as e:  # noqa
                ctx.fail(f'{kind} conversion crashed: {type(e).__name__}: {str(e)[:160]}', desc)
                continue
            ctx.case((kind, os.path.basename(path), q), sample=desc)
            ctx.stats['route_' + kind] += 1
            for p in conv.fidelity_problems(out, src, q):
                ctx.fail(p, desc)


def run(ctx):
    bad = symcodec.check_codec_assumption(np.random.default_rng(ctx.seed))
    if bad:
        ctx.assumption_failures.append({'assumption': 'A1', 'detail': bad})
    model = core.Model()
    rng = gen.rng_for(ctx.seed, 'c01')
    try:
        for k in range(ctx.n(160, 3000)):
            one_case(ctx, rng, k, model)
        vds_zgy(ctx)
    finally:
        model.close()


def replay(ctx, rp):
    run(ctx)
