"""C19 — configuration soundness."""
import os
from fractions import Fraction

import numpy as np

from .. import env, core, gen, conv, spec, mksegy
from seismic_zfp.utils import define_blockshape_3d, define_blockshape_2d  # noqa: E402

ASSUMPTIONS = ["A4: for non-dyadic bits_per_voxel the code computes in binary64, the model in exact rationals (agreement "
               "checked on the whole grid)", "KF-C19-2d-subbit: 2D at 1/4 and 1/2 bit cannot be coded by zfp (9-bit minimum per "
               "4x4 float block); such settings are refused, which the 'is accepted' clause forbids"]
RULE = ("resolver: every valid 3D setting (344) and 2D setting in every presentation (int / float / string / negative "
        "reciprocal rate; each one of the four parameters left as -1 or none), every near-miss (each parameter +-1, x2, /2, "
        "non-powers of two, rates -16..-2, 0.3, 3, 5, 64) and a seeded sample of the remaining grid: exception class or result "
        "vs the Lean model; every *accepted* setting is then used for a tiny conversion (NumPy / 2D SEG-Y route) whose output "
        "must be conformant and faithful (C01/C03 oracles); every valid setting must be accepted")

DIMS = [-1, 1, 2, 3, 4, 5, 6, 8, 12, 16, 32, 64, 100, 128, 256, 512, 1024, 2048, 4096, 8192]
RATES = [-16, -8, -5, -4, -3, -2, 0.25, 0.5, 1, 2, 3, 4, 5, 8, 16, 32, 64, 0.3, 0.75, 1.5, '0.25', '0.5', '2', '4', '0.3',
         '16', 1.0, 2.0, 4.0, 8.0, -1, '-1', '-2', '-4']


def frac_of(bpv):
    if isinstance(bpv, str):
        bpv = float(bpv)
    return Fraction(bpv)


def call_impl(bpv, bs, is2d):
    try:
        r, b = (define_blockshape_2d if is2d else define_blockshape_3d)(bpv, tuple(bs))
        fr = Fraction(r) * 4
        if fr.denominator != 1:
            return f'ok-nonquarter {r} {tuple(b)}'
        return f'ok {int(fr)} {int(b[0])} {int(b[1])} {int(b[2])}'
    except ValueError:
        return 'err value'
    except AssertionError:
        return 'err assertion'
    except Exception as e:  # noqa
        return 'err other'


def presentations(q, bs):
    """all the ways of writing the valid setting (q/4, bs) with at most one free parameter"""
    rate = Fraction(q, 4)
    rs = [float(rate) if q < 4 else q // 4, str(float(rate)) if q < 4 else str(q // 4), float(rate)]
    if q < 4:
        rs.append(-(4 // q))
        rs.append(str(-(4 // q)))
    out = []
    for r in rs:
        out.append((r, tuple(bs)))
        for j in range(3):
            if bs[0] == 1 and j == 0:
                continue
            b = list(bs)
            b[j] = -1
            out.append((r, tuple(b)))
    out.append((-1, tuple(bs)))
    out.append(('-1', tuple(bs)))
    return out


def tiny_conversion(ctx, q, bs, desc):
    """an accepted setting must give a conformant, faithful file"""
    rng = np.random.default_rng(q * 7919 + bs[1] * 31 + bs[2])
    out = ctx.path('cfg.sgz')
    if bs[0] == 1:
        n = (1, 6, 9)
        arr = gen.cube(rng, n)
        sgy = ctx.path('cfg.sgy')
        mksegy.make_segy(sgy, arr, two_d=True, fmt=5)
        conv.segy_to_sgz(sgy, out, q, bs)
        probs = conv.fidelity_problems(out, conv.segy_cube(sgy)[0], q, is2d=True)
    else:
        # extents whose paddings differ per axis and per block dimension (a swapped index must show)
        n = (5, 9, 7) if bs[0] * bs[1] > 4096 else (bs[0] + 1, 2 * bs[1] + 1 if bs[1] <= 32 else bs[1] + 1, 7)
        arr = gen.cube(rng, n)
        conv.numpy_to_sgz(arr, out, q, bs)
        probs = conv.fidelity_problems(out, arr, q)
    probs += spec.conformance_problems(out)
    for p in probs:
        ctx.fail(f'accepted setting gives an unfaithful file: {p}', desc)


def run(ctx):
    model = core.Model()
    rng = gen.rng_for(ctx.seed, 'c19')
    seen = set()

    def check(bpv, bs, is2d, must_accept=None, convert=False):
        key = (repr(bpv), tuple(bs), is2d)
        if key in seen:
            return None
        seen.add(key)
        impl = call_impl(bpv, bs, is2d)
        fr = frac_of(bpv)
        m = model.ask(f'cfg {fr.numerator} {fr.denominator} {bs[0]} {bs[1]} {bs[2]} {1 if is2d else 0}')
        ctx.stats['corr_requests'] += 1
        ctx.stats['resolver_' + impl.split()[0] + ('_' + impl.split()[1] if impl.startswith('err') else '')] += 1
        desc = {'bits_per_voxel': repr(bpv), 'blockshape': tuple(bs), 'is2d': is2d, 'impl': impl}
        ctx.case(key, sample=desc if len(ctx.samples) < 4 or impl.startswith('err') else None)
        if m != impl:
            ctx.corr_fail('Model.Config', f'cfg {bpv!r} {bs} 2d={is2d}', m, impl, desc)
        if impl.startswith('ok-nonquarter'):
            ctx.fail('resolver accepted a bit rate that is not a multiple of 1/4', desc)
        elif impl.startswith('ok'):
            q, b0, b1, b2 = (int(v) for v in impl.split()[1:])
            try:
                spec.Layout((5, 6, 7) if b0 != 1 else (1, 6, 7), (b0, b1, b2), q, is2d=(b0 == 1))
                valid = q in (1, 2, 4, 8, 16, 32, 64, 128) and all(v >= 4 and v & (v - 1) == 0 for v in (b1, b2)) \
                    and (b0 == 1 and is2d or (not is2d and b0 >= 4 and b0 & (b0 - 1) == 0))
            except AssertionError:
                valid = False
            if not valid:
                ctx.fail(f'resolver accepted an invalid setting: rate {q}/4, blockshape {(b0, b1, b2)}', desc)
            elif convert:
                try:
                    tiny_conversion(ctx, q, (b0, b1, b2), desc)
                    ctx.stats['tiny_conversions'] += 1
                except Exception as e:  # noqa
                    ctx.fail(f'accepted setting: conversion failed: {type(e).__name__}: {str(e)[:120]}', desc)
        if must_accept is not None and impl != must_accept:
            desc['expected'] = must_accept
            ctx.fail(f'valid setting not resolved to itself: got {impl}, expected {must_accept}', desc)
        return impl

    try:
        valid3 = spec.all_layouts_3d()
        valid2 = spec.all_layouts_2d(min_q=1)
        conv_every = 7 if ctx.quick else 1
        for k, (q, bs) in enumerate(valid3):
            for j, (r, b) in enumerate(presentations(q, bs)):
                check(r, b, False, must_accept=f'ok {q} {bs[0]} {bs[1]} {bs[2]}', convert=(j == 0 and k % conv_every == ctx.seed % conv_every))
        for k, (q, bs) in enumerate(valid2):
            for j, (r, b) in enumerate(presentations(q, bs)):
                check(r, b, True, must_accept=f'ok {q} {bs[0]} {bs[1]} {bs[2]}', convert=(j == 0 and k % 3 == ctx.seed % 3))
        # near misses of valid settings
        for k, (q, bs) in enumerate(valid3 + valid2):
            if ctx.quick and k % 5 != ctx.seed % 5:
                continue
            is2d = bs[0] == 1
            rate = q / 4 if q < 4 else q // 4
            for j in range(3):
                for f in (lambda v: v + 1, lambda v: v - 1, lambda v: v * 2, lambda v: v // 2, lambda v: 3 * v // 4):
                    b = list(bs)
                    b[j] = f(b[j])
                    if b[j] >= 1:
                        check(rate, b, is2d, convert=True)
                        b2 = list(b)
                        b2[(j + 1) % 3] = -1
                        if not (is2d and (j + 1) % 3 == 0):
                            check(rate, b2, is2d, convert=True)
            for r in RATES:
                check(r, bs, is2d, convert=True)
                b = list(bs)
                b[2] = -1
                check(r, b, is2d, convert=True)
        # the rest of the grid, sampled
        for _ in range(1500 if ctx.quick else 300000):
            r = RATES[int(rng.integers(len(RATES)))]
            b = [DIMS[int(rng.integers(len(DIMS)))] for _ in range(3)]
            if abs(b[0] * b[1] * b[2]) > 2 ** 17:
                continue
            check(r, b, False, convert=True)
            if rng.random() < .3:
                b[0] = 1
                check(r, b, True, convert=True)
    finally:
        model.close()


def replay(ctx, rp):
    run(ctx)
