"""C19 — configuration soundness."""
import os
from fractions import Fraction

import numpy as np

from .. import env, core, gen, conv, spec, mksegy
from seismic_zfp.utils import define_blockshape_3d, define_blockshape_2d  # noqa: E402

ASSUMPTIONS = ["A4: for non-dyadic bits_per_voxel the code computes in binary64, the model in exact rationals (agreement "
               "checked on the whole grid)", "KF-C19-2d-subbit: 2D at 1/4 and 1/2 bit cannot be coded by zfp (9-bit minimum per "
               "4x4 float block); such settings are refused, which the 'is accepted' clause forbids"]
RULE = ("resolver: every valid 3D setting (344) and 2D setting in every presentation (int / float / string / negative "
        "reciprocal rate; each one of the four parameters left as -1 or none), every near-miss (each parameter +-1, x2, /2, "
        "non-powers of two, rates -16..-2, 0.3, 3, 5, 64) and a seeded sample of the remaining grid: exception class or result "
        "vs the Lean model; every *accepted* setting is then used for a tiny conversion (NumPy / 2D SEG-Y route) whose output "
        "must be conformant and faithful (C01/C03 oracles); every valid setting must be accepted"
        "; the command-line front end (sgy2sgz --bits-per-voxel/--blockshape, 3D and 2D, defaults and -1): header of the written file or refusal vs the model on the setting the options denote")

DIMS = [-1, 1, 2, 3, 4, 5, 6, 8, 12, 16, 32, 64, 100, 128, 256, 512, 1024, 2048, 4096, 8192]
RATES = [-16, -8, -5, -4, -3, -2, 0.25, 0.5, 1, 2, 3, 4, 5, 8, 16, 32, 64, 0.3, 0.75, 1.5, '0.25', '0.5', '2', '4', '0.3',
         '16', 1.0, 2.0, 4.0, 8.0, -1, '-1', '-2', '-4']


def frac_of(bpv):
    if isinstance(bpv, str):
        bpv = float(bpv)
    return Fraction(bpv)


def call_impl(bpv, bs, is2d):
    try:
        r, b = (define_blockshape_2d if is2d else define_blockshape_3d)(bpv, tuple(bs))
        fr = Fraction(r) * 4
        if fr.denominator != 1:
            return f'ok-nonquarter {r} {tuple(b)}'
        return f'ok {int(fr)} {int(b[0])} {int(b[1])} {int(b[2])}'
    except ValueError:
        return 'err value'
    except AssertionError:
        return 'err assertion'
    except Exception as e:  # noqa
        return 'err other'


def presentations(q, bs):
    """all the ways of writing the valid setting (q/4, bs) with at most one free parameter"""
    rate = Fraction(q, 4)
    rs = [float(rate) if q < 4 else q // 4, str(float(rate)) if q < 4 else str(q // 4), float(rate)]
    if q < 4:
        rs.append(-(4 // q))
        rs.append(str(-(4 // q)))
    out = []
    for r in rs:
        out.append((r, tuple(bs)))
        for j in range(3):
            if bs[0] == 1 and j == 0:
                continue
            b = list(bs)
            b[j] = -1
            out.append((r, tuple(b)))
    out.append((-1, tuple(bs)))
    out.append(('-1', tuple(bs)))
    return out


def tiny_conversion(ctx, q, bs, desc):
    """an accepted setting must give a conformant, faithful file"""
    rng = np.random.default_rng(q * 7919 + bs[1] * 31 + bs[2])
    out = ctx.path('cfg.sgz')
    if bs[0] == 1:
        n = (1, 6, 9)
        arr = gen.cube(rng, n)
        sgy = ctx.path('cfg.sgy')
        mksegy.make_segy(sgy, arr, two_d=True, fmt=5)
        conv.segy_to_sgz(sgy, out, q, bs)
        probs = conv.fidelity_problems(out, conv.segy_cube(sgy)[0], q, is2d=True)
    else:
        # extents whose paddings differ per axis and per block dimension (a swapped index must show)
        n = (5, 9, 7) if bs[0] * bs[1] > 4096 else (bs[0] + 1, 2 * bs[1] + 1 if bs[1] <= 32 else bs[1] + 1, 7)
        arr = gen.cube(rng, n)
        conv.numpy_to_sgz(arr, out, q, bs)
        probs = conv.fidelity_problems(out, arr, q)
        if not probs:
            # "reads back faithfully" is about every reader, each of which has its own code per layout class and rate
            # (z-slices of N x M x 4 layouts, inline / crossline sets of 4 x 4 x N ones, the general chunk reader)
            from seismic_zfp.read import SgzReader
            ref = spec.reference_image(arr, q / 4)
            with SgzReader(out) as r:
                reads = [(f'read_zslice({z})', lambda z=z: r.read_zslice(z), ref[:, :, z]) for z in sorted({0, n[2] // 2, n[2] - 1})]
                reads += [(f'read_inline({i})', lambda i=i: r.read_inline(i), ref[i]) for i in sorted({0, n[0] - 1})]
                reads += [(f'read_crossline({x})', lambda x=x: r.read_crossline(x), ref[:, x]) for x in sorted({0, n[1] - 1})]
                reads += [(f'get_trace({t})', lambda t=t: r.get_trace(t), ref.reshape(-1, n[2])[t]) for t in sorted({0, n[0] * n[1] - 1})]
                reads += [('read_subvolume(1..)', lambda: r.read_subvolume(1, n[0], 1, n[1], 1, n[2]), ref[1:, 1:, 1:])]
                for name, fn, want in reads:
                    got = np.asarray(fn())
                    if got.shape != want.shape or not np.array_equal(got.view(np.uint32), np.ascontiguousarray(want).view(np.uint32)):
                        probs.append(f'{name} differs from the decoded volume')
    probs += spec.conformance_problems(out)
    for p in probs:
        ctx.fail(f'accepted setting gives an unfaithful file: {p}', desc)


def container_presentations(ctx, model, rng):
    """the same settings handed over as a list, a NumPy integer array (also with NumPy integer / float rates), and one array
    object used for several resolutions in a row (a sweep over bit rates with one settings object): the answer must be that
    of the tuple, every time, and the caller's object must come back unchanged"""
    valid3 = spec.all_layouts_3d()
    for _ in range(ctx.n(40, 1500)):
        q, bs = valid3[int(rng.integers(len(valid3)))]
        j = int(rng.integers(3))
        open_bs = [(-1 if i == j else v) for i, v in enumerate(bs)]
        kind = int(rng.integers(4))
        arg = [list(open_bs), np.array(open_bs), np.array(open_bs, dtype=np.int32), np.array(open_bs, dtype=np.int64)][kind]
        before = list(int(v) for v in arg)
        # a second valid setting that shares the two given dimensions with the first: another rate, another free dimension
        others = [(q2, b2) for (q2, b2) in valid3 if all(b2[i] == bs[i] for i in range(3) if i != j) and q2 != q]
        seq = [(q, bs)] + ([others[int(rng.integers(len(others)))]] if others else []) + [(q, bs)]
        for step, (qq, bb) in enumerate(seq):
            rate = [qq / 4 if qq < 4 else qq // 4, np.int64(qq // 4) if qq >= 4 else np.float64(qq / 4)][int(rng.integers(2))]
            want = f'ok {qq} {bb[0]} {bb[1]} {bb[2]}'
            got = call_impl_raw(rate, arg)
            desc = {'bits_per_voxel': repr(rate), 'blockshape': before, 'container': type(arg).__name__ +
                    (f'[{arg.dtype}]' if hasattr(arg, 'dtype') else ''), 'call_number_on_the_same_object': step + 1}
            ctx.case(('container', kind, qq, tuple(bb), j, step), sample=desc if len(ctx.samples) < 8 else None)
            ctx.stats['container_presentations'] += 1
            fr = frac_of(float(rate))
            m = model.ask(f'cfg {fr.numerator} {fr.denominator} {before[0]} {before[1]} {before[2]} 0')
            ctx.stats['corr_requests'] += 1
            if m != got:
                ctx.corr_fail('Model.Config', f'cfg {rate!r} {before} ({desc["container"]}, call {step + 1})', m, got, desc)
            if got != want:
                ctx.fail(f'valid setting not resolved to itself: got {got}, expected {want}', desc)
            if list(int(v) for v in arg) != before:
                ctx.fail(f'the resolver changed the caller\'s blockshape object: {before} became {list(int(v) for v in arg)}', desc)
                break


def call_impl_raw(bpv, bs):
    try:
        r, b = define_blockshape_3d(bpv, bs)
        fr = Fraction(float(r)) * 4
        if fr.denominator != 1:
            return f'ok-nonquarter {r} {tuple(b)}'
        return f'ok {int(fr)} {int(b[0])} {int(b[1])} {int(b[2])}'
    except ValueError:
        return 'err value'
    except AssertionError:
        return 'err assertion'
    except Exception as e:  # noqa
        return 'err other'


def cli_route(ctx, model, rng):
    """the command-line front end: `sgy2sgz --bits-per-voxel B [--blockshape I X Z]` (integers; a negative B is a reciprocal,
    an omitted blockshape the route's default) must resolve exactly as the API does for the same setting — K: Model/Config on
    the setting the options denote vs the header of the file the command writes (or its refusal)"""
    from click.testing import CliRunner
    from seismic_zfp import cli
    cube3, line2 = ctx.path('cli3.sgy'), ctx.path('cli2.sgy')
    mksegy.make_segy(cube3, gen.cube(rng, (5, 6, 9)), fmt=5)
    mksegy.make_segy(line2, gen.cube(rng, (1, 7, 9)), two_d=True, fmt=5)
    opts = [(b, bs) for b in (4, 1, 2, 8, 16, -2, -4, -1, 3, 0) for bs in (None, (4, 4, -1), (8, 8, -1), (-1, 4, 256), (4, 4, 512),
                                                                            (1, 16, -1), (1, -1, 512), (1, 64, 512))]
    pick = [opts[i] for i in rng.choice(len(opts), size=ctx.n(14, len(opts)), replace=False)]
    for bits, bs in pick:
        for is2d, src in ((False, cube3), (True, line2)):
            if bs is not None and (bs[0] == 1) != is2d:
                continue
            eff = bs if bs is not None else ((1, 16, -1) if is2d else (4, 4, -1))
            out = ctx.path('cli.sgz')
            if os.path.exists(out):
                os.unlink(out)
            args = ['sgy2sgz', src, out, '--bits-per-voxel', str(bits)] + (['--blockshape'] + [str(v) for v in bs] if bs else [])
            r = env.quiet(CliRunner().invoke, cli.cli, args)
            desc = {'cli': args[3:], 'is2d': is2d}
            ctx.case(('cli', bits, bs, is2d), sample=desc if len(ctx.samples) < 6 else None)
            ctx.stats['cli_invocations'] += 1
            fr = frac_of(bits)
            m = model.ask(f'cfg {fr.numerator} {fr.denominator} {eff[0]} {eff[1]} {eff[2]} {1 if is2d else 0}')
            ctx.stats['corr_requests'] += 1
            if r.exit_code == 0 and os.path.exists(out):
                h, _ = spec.read_header(out)
                real = f'ok {h.q} {h.bs[0]} {h.bs[1]} {h.bs[2]}'
                for p_ in spec.conformance_problems(out):
                    ctx.fail(f'file written by the command line is not conformant: {p_}', desc)
            else:
                real = 'err ' + (type(r.exception).__name__ if r.exception is not None else f'exit {r.exit_code}')
            if m.split()[0] != real.split()[0] or (m.startswith('ok') and m != real):
                ctx.corr_fail('Model.Config/cli', ' '.join(args[3:]), m, real, desc)
            if real.startswith('err') and os.path.exists(out) and os.path.getsize(out) > 0 and m.startswith('err'):
                pass   # (a refused setting may leave an empty output file behind: not part of C19)


def run(ctx):
    model = core.Model()
    rng = gen.rng_for(ctx.seed, 'c19')
    seen = set()

    def check(bpv, bs, is2d, must_accept=None, convert=False):
        key = (repr(bpv), tuple(bs), is2d)
        if key in seen:
            return None
        seen.add(key)
        impl = call_impl(bpv, bs, is2d)
        fr = frac_of(bpv)
        m = model.ask(f'cfg {fr.numerator} {fr.denominator} {bs[0]} {bs[1]} {bs[2]} {1 if is2d else 0}')
        ctx.stats['corr_requests'] += 1
        ctx.stats['resolver_' + impl.split()[0] + ('_' + impl.split()[1] if impl.startswith('err') else '')] += 1
        desc = {'bits_per_voxel': repr(bpv), 'blockshape': tuple(bs), 'is2d': is2d, 'impl': impl}
        ctx.case(key, sample=desc if len(ctx.samples) < 4 or impl.startswith('err') else None)
        if m != impl:
            ctx.corr_fail('Model.Config', f'cfg {bpv!r} {bs} 2d={is2d}', m, impl, desc)
        if impl.startswith('ok-nonquarter'):
            ctx.fail('resolver accepted a bit rate that is not a multiple of 1/4', desc)
        elif impl.startswith('ok'):
            q, b0, b1, b2 = (int(v) for v in impl.split()[1:])
            try:
                spec.Layout((5, 6, 7) if b0 != 1 else (1, 6, 7), (b0, b1, b2), q, is2d=(b0 == 1))
                valid = q in (1, 2, 4, 8, 16, 32, 64, 128) and all(v >= 4 and v & (v - 1) == 0 for v in (b1, b2)) \
                    and (b0 == 1 and is2d or (not is2d and b0 >= 4 and b0 & (b0 - 1) == 0))
            except AssertionError:
                valid = False
            if not valid:
                ctx.fail(f'resolver accepted an invalid setting: rate {q}/4, blockshape {(b0, b1, b2)}', desc)
            elif convert:
                try:
                    tiny_conversion(ctx, q, (b0, b1, b2), desc)
                    ctx.stats['tiny_conversions'] += 1
                except Exception as e:  # noqa
                    ctx.fail(f'accepted setting: conversion failed: {type(e).__name__}: {str(e)[:120]}', desc)
        if must_accept is not None and impl != must_accept:
            desc['expected'] = must_accept
            ctx.fail(f'valid setting not resolved to itself: got {impl}, expected {must_accept}', desc)
        return impl

    try:
        valid3 = spec.all_layouts_3d()
        valid2 = spec.all_layouts_2d(min_q=1)
        conv_every = ctx.n(7, 1)
        for k, (q, bs) in enumerate(valid3):
            for j, (r, b) in enumerate(presentations(q, bs)):
                check(r, b, False, must_accept=f'ok {q} {bs[0]} {bs[1]} {bs[2]}', convert=(j == 0 and (k % conv_every == ctx.seed % conv_every or (bs[2] == 4 and q < 4))))
        for k, (q, bs) in enumerate(valid2):
            for j, (r, b) in enumerate(presentations(q, bs)):
                check(r, b, True, must_accept=f'ok {q} {bs[0]} {bs[1]} {bs[2]}', convert=(j == 0 and k % 3 == ctx.seed % 3))
        # near misses of valid settings
        for k, (q, bs) in enumerate(valid3 + valid2):
            if ctx.quick and k % 5 != ctx.seed % 5:
                continue
            is2d = bs[0] == 1
            rate = q / 4 if q < 4 else q // 4
            for j in range(3):
                for f in (lambda v: v + 1, lambda v: v - 1, lambda v: v * 2, lambda v: v // 2, lambda v: 3 * v // 4):
                    b = list(bs)
                    b[j] = f(b[j])
                    if b[j] >= 1:
                        check(rate, b, is2d, convert=True)
                        b2 = list(b)
                        b2[(j + 1) % 3] = -1
                        if not (is2d and (j + 1) % 3 == 0):
                            check(rate, b2, is2d, convert=True)
            for r in RATES:
                check(r, bs, is2d, convert=True)
                b = list(bs)
                b[2] = -1
                check(r, b, is2d, convert=True)
        # the rest of the grid, sampled
        for _ in range(ctx.n(1500, 300000)):
            r = RATES[int(rng.integers(len(RATES)))]
            b = [DIMS[int(rng.integers(len(DIMS)))] for _ in range(3)]
            if abs(b[0] * b[1] * b[2]) > 2 ** 17:
                continue
            check(r, b, False, convert=True)
            if rng.random() < .3:
                b[0] = 1
                check(r, b, True, convert=True)
        cli_route(ctx, model, gen.rng_for(ctx.seed, 'c19-cli'))
        container_presentations(ctx, model, gen.rng_for(ctx.seed, 'c19-containers'))
    finally:
        model.close()


def replay(ctx, rp):
    run(ctx)
