"""C05 — geometry preservation."""
import os

import numpy as np
import segyio

from .. import env, core, gen, conv, spec, mksegy, segycases, view
from seismic_zfp.read import SgzReader  # noqa: E402
from seismic_zfp.cropping import SgzCropper  # noqa: E402
from seismic_zfp.conversion import SgzConverter  # noqa: E402
import seismic_zfp  # noqa: E402

ASSUMPTIONS = ["A2 segyio's axes are the source's", "A4 binary64 arithmetic (interval rounding lemma is over Q with |e|<=2^-53)",
               "sample axis compared to within float rounding of start + i*interval (1e-9 relative)"]
RULE = ("axis triples (start, step, count) drawn on sign/magnitude classes incl. |v| up to 2^31-1, descending and non-unit "
        "steps (NumPy route: any; SEG-Y route: via segyio) x sample intervals (all hard cases 1,7,333,999,1001,65535 + seeded "
        "sample; thorough: every interval 1..65535 x 6 start times) x start times incl. -32768, 32767: "
        "ilines/xlines/zslices/tracecount/structured and the emulator's ilines/xlines/samples vs the source; also after "
        "crop, re-block and SEG-Y export"
        "; K: Model/Axes packI32/decodeAxis vs the stored origin/increment words and the reader's axes")


def big_axis(rng, count):
    klass = int(rng.integers(8))
    lim = 2 ** 31 - 1
    if klass == 0:
        start, step = int(rng.integers(-100, 100)), int(rng.choice([1, -1, 2, -3, 10]))
    elif klass == 1:
        step = int(rng.choice([1, 7, 1000, 65536]))
        start = lim - step * (count - 1) - int(rng.integers(0, 3))
    elif klass == 2:
        step = -int(rng.choice([1, 7, 1000, 65536]))
        start = -lim - 1 - step * (count - 1) + int(rng.integers(0, 3))
        start = max(start, -lim)
    elif klass == 3:
        start = int(rng.choice([2 ** 24 + 1, 20000001, -30000001, 123456789, 2 ** 30 + 3, -2 ** 30 - 5]))
        step = int(rng.choice([1, 3, -2]))
    elif klass == 4:
        step = int(rng.choice([2 ** 20, -2 ** 20, 2 ** 24 + 1, -(2 ** 24 + 3)]))
        start = -step * (count // 2)
    elif klass in (6, 7) and count >= 3:
        # an axis spanning 2^31 or more in total (|last - first| >= 2^31): differences of its entries overflow int32
        # (the increment itself must fit the header's signed 32-bit field: that needs at least three lines)
        span = int(rng.integers(2 ** 31, 2 ** 32 - 2 * count))
        step = min(span // (count - 1), 2 ** 31 - 1)
        start = -(step * (count - 1)) // 2 + int(rng.integers(-3, 3))
        if klass == 7:
            start, step = start + step * (count - 1), -step
    else:
        start, step = int(rng.integers(-2 ** 20, 2 ** 20)), int(rng.integers(1, 50)) * int(rng.choice([1, -1]))
    ax = [start + step * k for k in range(count)]
    assert all(-lim - 1 <= v <= lim for v in ax), ax
    return ax


MODEL = {}


def model_axes(ctx, sgz, r, il, xl, desc, what):
    """K: Model/Axes vs the real header writer and reader: stored words == packI32 of the source origin/increment, and the
    reader's axis == decodeAxis of the stored words (unsigned read, int64 arithmetic, wrap to int32)"""
    m = MODEL.get('m')
    if m is None or r.is_2d:
        return
    import struct
    raw = open(sgz, 'rb').read(64)
    xl0, il0, dxl, dil = struct.unpack('<I', raw[20:24])[0], struct.unpack('<I', raw[24:28])[0], \
        struct.unpack('<I', raw[32:36])[0], struct.unpack('<I', raw[36:40])[0]
    for name, ax, su, du, got in (('il', il, il0, dil, r.ilines), ('xl', xl, xl0, dxl, r.xlines)):
        ctx.stats['corr_requests'] += 1
        dec = m.ask(f'axes dec {su} {du} {len(ax)}')
        if dec != ' '.join(str(int(v)) for v in got):
            ctx.corr_fail('Model.Axes/decodeAxis', f'axes dec {su} {du} {len(ax)}', dec[:120],
                          ' '.join(str(int(v)) for v in got)[:120], dict(desc, what=what, axis=name))
        if len(ax) > 1:
            for v, w in ((ax[0], su), (ax[1] - ax[0], du)):
                ctx.stats['corr_requests'] += 1
                pk = m.ask(f'axes pack {int(v)}')
                if pk != str(w):
                    ctx.corr_fail('Model.Axes/packI32', f'axes pack {int(v)}', pk, str(w), dict(desc, what=what, axis=name))


def check_axes(ctx, sgz, il, xl, samples, tracecount, desc, what='converted file'):
    with SgzReader(sgz) as r:
        model_axes(ctx, sgz, r, il, xl, desc, what)
        probs = []
        if list(map(int, r.ilines)) != list(il):
            probs.append(f'ilines {list(map(int, r.ilines))[:3]}.. != source {list(il)[:3]}..')
        if list(map(int, r.xlines)) != list(xl):
            probs.append(f'xlines {list(map(int, r.xlines))[:3]}.. != source {list(xl)[:3]}..')
        z = np.asarray(r.zslices, dtype=np.float64)
        s = np.asarray(samples, dtype=np.float64)
        if z.shape != s.shape:
            probs.append(f'sample axis has {z.shape[0]} entries, source {s.shape[0]}')
        elif not np.allclose(z, s, rtol=0, atol=1e-9 * max(1.0, float(np.abs(s).max()))):
            probs.append(f'sample axis {z[:3].tolist()}.. != source {s[:3].tolist()}.. (max diff {np.abs(z - s).max():g})')
        if r.tracecount != tracecount:
            probs.append(f'tracecount {r.tracecount} != {tracecount}')
        if not r.structured:
            probs.append('structured flag False for a regular source')
    with seismic_zfp.open(sgz) as f:
        if list(map(int, f.ilines)) != list(il) or list(map(int, f.xlines)) != list(xl) or len(f.samples) != len(samples):
            probs.append('emulator ilines/xlines/samples differ from the source')
    # the same file behind a blob client, while a reader on a *different* blob of the same name (another container) is
    # open: the axes are those of the file that is read
    from .. import iolog, synth
    decoy_path = ctx.path('decoy_other_container.sgz')
    if not os.path.exists(decoy_path):
        synth.make(decoy_path, (3, 4, 5), (4, 4, 512), 16, np.random.default_rng(5), il=(7000, 10), xl=(90, -2), z=(12, 3000))
    decoy_blob, blob = iolog.LoggedBlob(decoy_path), iolog.LoggedBlob(sgz)
    decoy_blob.blob_name = blob.blob_name = 'survey.sgz'
    with SgzReader(decoy_blob) as other:
        with SgzReader(blob) as r:
            if list(map(int, r.ilines)) != list(il) or list(map(int, r.xlines)) != list(xl) or len(r.zslices) != len(samples) \
                    or r.tracecount != tracecount:
                probs.append('through a blob client (another blob of the same name open): axes / trace count differ from the source')
        if list(map(int, other.ilines)) != [7000, 7010, 7020]:
            probs.append('a reader on another blob of the same name changed its axes')
    for p in probs:
        ctx.fail(f'{what}: {p}', desc)
    return not probs


def numpy_axes(ctx, rng, k):
    n = (int(rng.integers(2, 7)), int(rng.integers(2, 7)), int(rng.integers(2, 60)))
    il, xl = big_axis(rng, n[0]), big_axis(rng, n[1])
    dt = int(rng.choice([1, 7, 250, 333, 500, 999, 1000, 1001, 2000, 4000, 65535, int(rng.integers(1, 65536))]))
    t0 = int(rng.choice([0, -32768, 32767, 100, -1, int(rng.integers(-32768, 32768))]))
    samples = t0 + np.arange(n[2]) * (dt / 1000.0)
    arr = gen.cube(rng, n)
    out = ctx.path('g.sgz')
    desc = {'route': 'numpy', 'n': n, 'il': il[:2], 'xl': xl[:2], 'dt_us': dt, 't0': t0}
    ctx.case(('numpy', n, tuple(il[:2]), tuple(xl[:2]), dt, t0), sample=desc)
    ctx.stats['route_numpy'] += 1
    try:
        conv.numpy_to_sgz(arr, out, 16, (4, 4, -1), ilines=np.array(il), xlines=np.array(xl), samples=samples)
    except Exception as e:  # noqa
        ctx.fail(f'conversion failed: {type(e).__name__}: {str(e)[:120]}', desc)
        return
    check_axes(ctx, out, il, xl, samples, n[0] * n[1], desc)


def _sweep_chunk(args):
    """one worker process: conversions of a 2x2x5 cube for a chunk of (dt, t0) pairs; returns (cases, failures).
    (Every conversion leaves its two daemon worker threads parked for good, so a long sweep must be spread over
    short-lived processes.)"""
    import tempfile, shutil, os
    dts, t0s = args
    arr = np.zeros((2, 2, 5), dtype=np.float32)
    d = tempfile.mkdtemp(prefix='sgzv_sweep_')
    out = os.path.join(d, 'i.sgz')
    fails, n = [], 0
    try:
        for dt in dts:
            for t0 in t0s:
                samples = t0 + np.arange(5) * (dt / 1000.0)
                n += 1
                conv.numpy_to_sgz(arr, out, 16, (4, 4, -1), samples=samples)
                h, _ = spec.read_header(out)
                if h.dz != dt or h.z0 != t0:
                    fails.append((f'interval/start stored as ({h.dz} us, {h.z0} ms), source ({dt} us, {t0} ms)', {'dt_us': dt, 't0': t0}))
                    continue
                with SgzReader(out) as r:
                    z = np.asarray(r.zslices)
                if z.shape != samples.shape or not np.allclose(z, samples, rtol=0, atol=1e-9 * max(1, abs(t0) + 400)):
                    fails.append((f'sample axis {z.tolist()} != {samples.tolist()}', {'dt_us': dt, 't0': t0}))
    finally:
        shutil.rmtree(d, ignore_errors=True)
    return n, fails


def interval_sweep(ctx, rng):
    """sample-interval round trip through the real header writer and reader (NumPy route, 2x2xN cube)"""
    if ctx.quick:
        dts = sorted(set([1, 2, 3, 7, 9, 333, 999, 1001, 1003, 4001, 16383, 32767, 32768, 65534, 65535]
                         + rng.integers(1, 65536, size=120).tolist()))
        t0s = [0, -32768, 32767, 100]
        results = [_sweep_chunk((dts, t0s))]
    else:
        import multiprocessing as mp
        dts = list(range(1, 65536))
        t0s = [-32768, -1, 0, 1, 100, 32767]
        chunks = [(dts[i:i + 64], t0s) for i in range(0, len(dts), 64)]
        with mp.get_context('fork').Pool(processes=8, maxtasksperchild=1) as pool:
            results = pool.map(_sweep_chunk, chunks, chunksize=1)
    for n, fails in results:
        ctx.stats['interval_cases'] += n
        for what, inp in fails:
            ctx.fail(what, inp)
    for dt in dts:
        for t0 in t0s:
            ctx.case(('interval', dt, t0), sample=None)


def segy_axes(ctx, rng, k):
    n = (int(rng.integers(2, 7)), int(rng.integers(2, 7)), int(rng.choice([2, 3, 8, 50, 77])))
    # every second source uses the extreme axis classes (near the int32 limits, spans of 2^31 and more, huge steps)
    kw = dict(il=big_axis(rng, n[0]), xl=big_axis(rng, n[1])) if k % 2 else {}
    case = segycases.regular_case(ctx, rng, n, name='g.sgy', **kw)
    with segyio.open(case['path']) as f:
        il, xl, samples, tc = list(map(int, f.ilines)), list(map(int, f.xlines)), np.asarray(f.samples), f.tracecount
    out = ctx.path('g.sgz')
    desc = {'route': 'segy', 'n': n, 'il': il[:2], 'xl': xl[:2], 'dt_us': case['dt_us'], 't0': case['t0'], 'fmt': case['fmt']}
    ctx.case(('segy', n, tuple(il[:2]), tuple(xl[:2]), case['dt_us'], case['t0']), sample=desc)
    ctx.stats['route_segy'] += 1
    q, bs = (8, (4, 4, 1024)) if k % 3 == 0 else (16, None)
    try:
        # (C04's hypothesis for the default heuristic detection: two varying fields must not coincide on the first and on the
        #  last trace; inline and crossline numbers do when both axes start and end alike, so those sources are converted
        #  with exhaustive detection -- C05 is about geometry, not about header detection)
        coincide = il[0] == xl[0] and il[-1] == xl[-1]
        conv.segy_to_sgz(case['path'], out, q, bs, reduce_iops=bool(k % 2),
                         header_detection='exhaustive' if coincide else 'heuristic')
    except Exception as e:  # noqa
        ctx.fail(f'conversion failed: {type(e).__name__}: {str(e)[:120]}', desc)
        return
    if not check_axes(ctx, out, il, xl, samples, tc, desc):
        return
    # after crop (inline/crossline ranges; sample axis start stays on a whole millisecond when z is not cropped)
    if n[0] > 5 or n[1] > 5:   # keep >= 2 lines per axis (the property quantifies over counts >= 2)
        i0, x0 = (4 if n[0] > 5 else 0), (4 if n[1] > 5 else 0)
        c = ctx.path('gc.sgz')
        try:
            with SgzCropper(out) as cr:
                env.quiet(cr.write_cropped_file_by_indexes, c, (i0, n[0]), (x0, n[1]), None)
            check_axes(ctx, c, il[i0:], xl[x0:], samples, (n[0] - i0) * (n[1] - x0), dict(desc, crop=(i0, x0)), 'cropped file')
            ctx.stats['after_crop'] += 1
        except Exception as e:  # noqa
            ctx.fail(f'crop failed: {type(e).__name__}: {str(e)[:120]}', desc)
    if q == 8:
        a = ctx.path('ga.sgz')
        try:
            with SgzConverter(out) as cv:
                env.quiet(cv.convert_to_adv_sgz, a)
            check_axes(ctx, a, il, xl, samples, tc, desc, 're-blocked file')
            ctx.stats['after_reblock'] += 1
        except Exception as e:  # noqa
            ctx.fail(f're-block failed: {type(e).__name__}: {str(e)[:120]}', desc)
    e = ctx.path('ge.sgy')
    try:
        with SgzConverter(out) as cv:
            env.quiet(cv.convert_to_segy, e)
        with segyio.open(e) as f:
            ok = (list(map(int, f.ilines)) == il and list(map(int, f.xlines)) == xl and f.tracecount == tc
                  and len(f.samples) == len(samples)
                  and np.allclose(np.asarray(f.samples), samples, rtol=0, atol=1e-6 * max(1.0, np.abs(samples).max())))
            if not ok:
                ctx.fail(f'exported SEG-Y: geometry differs (il {list(map(int, f.ilines))[:2]}, xl {list(map(int, f.xlines))[:2]}, '
                         f'samples {np.asarray(f.samples)[:2].tolist()} vs {samples[:2].tolist()})', desc)
        ctx.stats['after_export'] += 1
    except Exception as ex:  # noqa
        ctx.fail(f'export failed: {type(ex).__name__}: {str(ex)[:120]}', desc)


def z_crop_axes(ctx, rng):
    """the sample axis after cropping along z: for sample intervals that are not whole milliseconds the start of a crop is
    `start + k·interval` with k a multiple of the block depth — every such k is tried (layouts with 4-sample blocks), the
    axis of the cropped file must be the source's restricted, to 1e-6 ms"""
    from fractions import Fraction
    from .. import synth
    from seismic_zfp.cropping import SgzCropper
    combos = [(-100, 4350), (0, 1001), (7, 333), (-2000, 1333), (250, 2500), (0, 4000), (-100, 500), (13, 4999)]
    n2 = 404
    for ci, (start, dt) in enumerate(combos if not ctx.quick else combos[:5]):
        src = ctx.path('zc.sgz')
        fi = synth.make(src, (3, 3, n2), (64, 64, 4), 8, rng, z=(start, dt), il=(5, 1), xl=(9, 2), n_arrays=2)
        ks = list(range(4, n2 - 3, 4))
        if ctx.quick:
            ks = sorted(set([4, 100, 200, 300, n2 - 4] + [int(v) for v in rng.choice(ks, size=min(ctx.n(30, 100), len(ks)), replace=False)]))
        with SgzCropper(src) as cr:
            for k in ks:
                out = ctx.path('zc_out.sgz')
                if os.path.exists(out):
                    os.unlink(out)
                desc = {'start_ms': start, 'interval_us': dt, 'crop_z': (k, n2), 'layout': (64, 64, 4)}
                ctx.case(('zcrop', start, dt, k), sample=desc if k == ks[0] and ci < 2 else None)
                ctx.stats['z_crops'] += 1
                try:
                    env.quiet(cr.write_cropped_file_by_indexes, out, None, None, (k, n2))
                    with SgzReader(out) as r:
                        got = np.asarray(r.zslices, dtype=np.float64)
                except Exception as e:  # noqa
                    ctx.fail(f'z-crop failed: {type(e).__name__}: {str(e)[:100]}', desc)
                    break
                want = np.array([float(Fraction(start) + Fraction((k + j) * dt, 1000)) for j in range(n2 - k)])
                if got.shape != want.shape or np.abs(got - want).max() > 1e-6:
                    j = int(np.argmax(np.abs(got - want))) if got.shape == want.shape else 0
                    ctx.fail(f'sample axis after a crop at sample {k}: {got[:2].tolist()}.. (len {len(got)}) is not the '
                             f"source's axis restricted ({want[:2].tolist()}.., len {len(want)}); first/largest deviation at {j}",
                             desc)
                    break


def z_crop_chains(ctx, rng):
    """crops of crops along z: once a crop starts between whole milliseconds the file carries its start and interval in the
    double-precision fields, and every later crop must keep them right - also when an intermediate start is exactly 0.0 ms"""
    from fractions import Fraction
    from .. import synth
    n2 = 404
    for ci in range(ctx.n(4, 40)):
        if ci % 2 == 0:
            # first crop starts between whole milliseconds (the file switches to its double-precision fields), the second
            # lands on exactly 0.0 ms, the third on a whole millisecond again
            dt = int([125, 375, 625, 875][(ci // 2) % 4])
            k1, k2, k3 = 4, 4 + 8 * int(rng.integers(0, 4)), 8 * int(rng.integers(1, 4))
            start = -Fraction((k1 + k2) * dt, 1000)
        else:
            dt = int([125, 250, 500, 333, 4350, 2500][ci % 6])
            k1, k2, k3 = (4 * int(rng.integers(1, 6)) for _ in range(3))
            start = Fraction(int(rng.integers(-50, 50)))
        if start.denominator != 1:
            continue        # (the source's start is an integer number of milliseconds in the 32-bit field)
        src = ctx.path('zch0.sgz')
        synth.make(src, (3, 3, n2), (64, 64, 4), 8, rng, z=(int(start), dt), il=(5, 1), xl=(9, 2), n_arrays=2)
        cur, off = src, 0
        for step, k in enumerate((k1, k2, k3)):
            out = ctx.path(f'zch{step + 1}.sgz')
            if os.path.exists(out):
                os.unlink(out)
            off += k
            desc = {'source_start_ms': int(start), 'interval_us': dt, 'chain_of_z_crops': [k1, k2, k3][:step + 1]}
            ctx.case(('zchain', int(start), dt, k1, k2, k3, step), sample=desc if ci < 2 and step == 2 else None)
            ctx.stats['z_crop_chain_steps'] += 1
            try:
                with SgzCropper(cur) as cr:
                    m = len(cr.zslices)
                    env.quiet(cr.write_cropped_file_by_indexes, out, None, None, (k, m))
                with SgzReader(out) as r:
                    got = np.asarray(r.zslices, dtype=np.float64)
            except Exception as e:  # noqa
                ctx.fail(f'z-crop chain failed at step {step + 1}: {type(e).__name__}: {str(e)[:100]}', desc)
                break
            want = np.array([float(start + Fraction((off + j) * dt, 1000)) for j in range(n2 - off)])
            if got.shape != want.shape or np.abs(got - want).max() > 1e-6:
                ctx.fail(f'sample axis after {step + 1} successive z-crops: starts {got[:2].tolist()} (len {len(got)}), the source '
                         f'restricted starts {want[:2].tolist()} (len {len(want)})', desc)
                break
            cur = out


def z_crop_export(ctx, rng):
    """SEG-Y -> SGZ (every header-detection mode) -> crop along z from a later sample -> SEG-Y: segyio must see the sample
    axis of the source restricted to the crop (the start time is regenerated from the cropped file, whatever the footer holds)"""
    for ci, mode in enumerate(['exhaustive', 'thorough', 'heuristic']):
        n = (5, 6, 48)
        t0, dt = int(rng.choice([0, 100, -48])), int(rng.choice([2000, 4000, 1000]))
        sgy, sgz, crp, exp = ctx.path('ze.sgy'), ctx.path('ze.sgz'), ctx.path('ze_c.sgz'), ctx.path('ze_x.sgy')
        mksegy.make_segy(sgy, gen.cube(rng, n), ilines=[3 + i for i in range(n[0])], xlines=[20 + 2 * j for j in range(n[1])], fmt=5,
                         t0=t0, dt_us=dt, headers=mksegy.header_plan(rng, n_fields=2))
        k = 4 * int(rng.integers(1, 8))
        desc = {'mode': mode, 't0_ms': t0, 'interval_us': dt, 'crop_z': (k, n[2]), 'layout': (64, 64, 4)}
        ctx.case(('zcrop-export', mode, t0, dt, k), sample=desc if ci == 0 else None)
        ctx.stats['z_crop_exports'] += 1
        try:
            conv.segy_to_sgz(sgy, sgz, 8, (64, 64, 4), header_detection=mode)
            with SgzCropper(sgz) as cr:
                env.quiet(cr.write_cropped_file_by_indexes, crp, None, None, (k, n[2]))
            with SgzConverter(crp) as cv:
                env.quiet(cv.convert_to_segy, exp)
            with segyio.open(exp) as f:
                got = np.asarray(f.samples, dtype=np.float64)
        except Exception as e:  # noqa
            ctx.fail(f'convert / z-crop / export failed: {type(e).__name__}: {str(e)[:100]}', desc)
            continue
        want = np.array([t0 + (k + j) * dt / 1000 for j in range(n[2] - k)])
        if got.shape != want.shape or np.abs(got - want).max() > 1e-6:
            ctx.fail(f'exported z-cropped file: segyio sees samples {got[:2].tolist()}.. (len {len(got)}), the crop holds '
                     f'{want[:2].tolist()}.. (len {len(want)})', desc)


def run(ctx):
    MODEL['m'] = core.Model()
    try:
        run_(ctx)
    finally:
        MODEL.pop('m').close()


def run_(ctx):
    rng = gen.rng_for(ctx.seed, 'c05')
    for k in range(ctx.n(60, 1500)):
        numpy_axes(ctx, rng, k)
    for k in range(ctx.n(30, 600)):
        segy_axes(ctx, rng, k)
    interval_sweep(ctx, rng)
    z_crop_axes(ctx, gen.rng_for(ctx.seed, 'c05-zcrop'))
    z_crop_export(ctx, gen.rng_for(ctx.seed, 'c05-zcrop-export'))
    z_crop_chains(ctx, gen.rng_for(ctx.seed, 'c05-zcrop-chains'))


def replay(ctx, rp):
    run(ctx)
