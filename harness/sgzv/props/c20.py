"""C20 — source-data hash."""
import hashlib

import numpy as np

from .. import env, core, gen, conv, spec, mksegy, segycases, writercorr
from seismic_zfp.read import SgzReader  # noqa: E402
from seismic_zfp.conversion import SgzConverter  # noqa: E402

ASSUMPTIONS = ["A3 hashlib SHA-1 is streaming and collision-free on the inputs seen", "A2 segyio delivers the source samples"]
RULE = ("cubes and 2D sections with extents on residues of the blockshape (partial last plane set / trace group, padding in "
        "every dimension and in none) x layouts x rates x routes {NumPy, SEG-Y segyio, SEG-Y reduced-I/O, 2D}: "
        "get_source_data_hash() == SHA-1 of the source's real float32 samples in trace order; equal across settings; all "
        "single-sample perturbations of small cubes change it; re-blocking carries it unchanged; correspondence: logged "
        "hash_object.update stream vs Lean Writer.hashFeed"
        "; K: byte stream fed to the hash (hashlib wrapper) vs Lean Writer.hashFeed/hashFeed2d on every route")


def sha(arr):
    return hashlib.sha1(np.ascontiguousarray(arr, dtype=np.float32).tobytes()).hexdigest()


def stored_hash(path):
    with SgzReader(path) as r:
        return r.get_source_data_hash()


def run(ctx):
    rng = gen.rng_for(ctx.seed, 'c20')
    n_cases = ctx.n(60, 1200)
    # K: the byte stream fed to the hash (hashlib wrapper) vs Lean Writer.hashFeed / hashFeed2d, every route
    model = core.Model()
    try:
        for k in range(ctx.n(40, 800)):
            route = ['numpy', 'segy', 'segy-ri', '2d'][k % 4]
            if route == '2d':
                n, bs, q = gen.geometry_2d(rng, max_voxels=30_000)
                n = (1, max(n[1], 2), max(n[2], 2))
            else:
                n, bs, q = gen.geometry_3d(rng, klass=['default', 'b0is4', 'general', 'zslice', None][k % 5], max_voxels=30_000)
                n = tuple(max(v, 2) for v in n)
            ctx.case(('hashfeed', route, n, bs, q))
            writercorr.check(ctx, model, n, bs, q, 'segy' if route == '2d' else route)
    finally:
        model.close()
    for k in range(n_cases):
        kind = ['numpy', 'segy', 'segy-ri', '2d', 'numpy', 'segy'][k % 6]
        if kind == '2d':
            n, bs, q = gen.geometry_2d(rng, max_voxels=60_000)
            n = (1, max(n[1], 2), max(n[2], 2))
        else:
            n, bs, q = gen.geometry_3d(rng, klass=['default', 'b0is4', 'general', 'zslice', None][k % 5], max_voxels=60_000)
            n = tuple(max(v, 2) for v in n)
            if k % 4 == 0:   # no padding needed in crossline and sample direction, partial last plane set
                n = (bs[0] + 2 if bs[0] <= 64 else n[0], bs[1], bs[2])
                if n[0] * n[1] * n[2] > 300_000:
                    n = (n[0], bs[1], min(bs[2], 8))
        arr = gen.cube(rng, n)
        desc = {'route': kind, 'n': n, 'bs': bs, 'q': q}
        ctx.case((kind, n, bs, q), sample=desc)
        ctx.stats['route_' + kind] += 1
        ctx.stats['partial_last_set'] += int(n[0] % bs[0] != 0 if kind != '2d' else n[1] % bs[1] != 0)
        out = ctx.path('h.sgz')
        try:
            if kind == 'numpy':
                src_arr = gen.noncontiguous(arr, k // 12) if (k // 6) % 2 == 1 else arr
                if (k // 6) % 4 == 2:
                    src_arr, arr = gen.broadcast_view(arr, k // 24)   # zero-stride view; `arr` = the values it denotes
                    desc['memory_layout'] = 'broadcast view'
                    ctx.stats['numpy_broadcast_view'] += 1
                else:
                    desc['memory_layout'] = 'non-contiguous' if src_arr is not arr else 'C'
                    ctx.stats['numpy_noncontiguous'] += int(src_arr is not arr)
                conv.numpy_to_sgz(src_arr, out, q, bs)
                want = sha(arr)
            else:
                sgy = ctx.path('h.sgy')
                mksegy.make_segy(sgy, arr, fmt=[5, 1][k % 2], two_d=(kind == '2d'), dt_us=2000)
                src = conv.segy_cube(sgy)
                want = sha(src)
                conv.segy_to_sgz(sgy, out, q, bs, reduce_iops=(kind == 'segy-ri'))
        except Exception as e:  # noqa
            ctx.fail(f'conversion failed: {type(e).__name__}: {str(e)[:120]}', desc)
            continue
        got = stored_hash(out)
        if got != want:
            ctx.fail(f'stored hash {got} != SHA-1 of the source samples {want}', desc)
        # re-blocking carries the hash
        if kind != '2d' and k % 5 == 0:
            n2 = (int(rng.choice([5, 64, 66])), int(rng.choice([3, 65])), 9)
            a2 = gen.cube(rng, n2)
            conv.numpy_to_sgz(a2, out, 8, (4, 4, 1024))
            adv = ctx.path('adv.sgz')
            with SgzConverter(out) as c:
                env.quiet(c.convert_to_adv_sgz, adv)
            ctx.case(('reblock', n2))
            if stored_hash(adv) != sha(a2):
                ctx.fail('re-blocked file does not carry the source hash', {'n': n2})
    # single-sample perturbations
    n = (3, 5, 6)
    base = gen.cube(rng, n)
    out = ctx.path('p.sgz')
    conv.numpy_to_sgz(base, out, 16, (4, 4, -1))
    h0 = stored_hash(out)
    idxs = [(i, x, z) for i in range(n[0]) for x in range(n[1]) for z in range(n[2])]
    if ctx.quick:
        idxs = [idxs[j] for j in rng.choice(len(idxs), size=40, replace=False)]
    seen = {h0}
    for (i, x, z) in idxs:
        a = base.copy()
        a[i, x, z] = np.nextafter(a[i, x, z], np.float32(np.inf))
        conv.numpy_to_sgz(a, out, 16, (4, 4, -1))
        h = stored_hash(out)
        ctx.case(('perturb', i, x, z))
        ctx.stats['perturbations'] += 1
        if h == h0 or h != sha(a):
            ctx.fail(f'perturbing sample {(i, x, z)} by one ulp: hash {"unchanged" if h == h0 else "wrong"}', {'n': n, 'idx': (i, x, z)})


def replay(ctx, rp):
    run(ctx)
