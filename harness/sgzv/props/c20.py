"""C20 — source-data hash."""
import hashlib

import numpy as np

from .. import env, core, gen, conv, spec, mksegy, segycases, writercorr
from seismic_zfp.read import SgzReader  # noqa: E402
from seismic_zfp.conversion import SgzConverter  # noqa: E402

ASSUMPTIONS = ["A3 hashlib SHA-1 is streaming and collision-free on the inputs seen", "A2 segyio delivers the source samples"]
RULE = ("cubes and 2D sections with extents on residues of the blockshape (partial last plane set / trace group, padding in "
        "every dimension and in none) x layouts x rates x routes {NumPy, SEG-Y segyio, SEG-Y reduced-I/O, 2D}: "
        "get_source_data_hash() == SHA-1 of the source's real float32 samples in trace order; equal across settings; all "
        "single-sample perturbations of small cubes change it; re-blocking carries it unchanged; correspondence: logged "
        "hash_object.update stream vs Lean Writer.hashFeed"
        "; K: byte stream fed to the hash (hashlib wrapper) vs Lean Writer.hashFeed/hashFeed2d on every route")


def sha(arr):
    return hashlib.sha1(np.ascontiguousarray(arr, dtype=np.float32).tobytes()).hexdigest()


def stored_hash(path):
    with SgzReader(path) as r:
        return r.get_source_data_hash()


def run(ctx):
    rng = gen.rng_for(ctx.seed, 'c20')
    n_cases = ctx.n(60, 1200)
    # K: the byte stream fed to the hash (hashlib wrapper) vs Lean Writer.hashFeed / hashFeed2d, every route
    model = core.Model()
    try:
        for k in range(ctx.n(40, 800)):
            route = ['numpy', 'segy', 'segy-ri', '2d'][k % 4]
            if route == '2d':
                n, bs, q = gen.geometry_2d(rng, max_voxels=30_000)
                n = (1, max(n[1], 2), max(n[2], 2))
            else:
                n, bs, q = gen.geometry_3d(rng, klass=['default', 'b0is4', 'general', 'zslice', None][k % 5], max_voxels=30_000)
                n = tuple(max(v, 2) for v in n)
            ctx.case(('hashfeed', route, n, bs, q))
            writercorr.check(ctx, model, n, bs, q, 'segy' if route == '2d' else route)
    finally:
        model.close()
    for k in range(n_cases):
        kind = ['numpy', 'segy', 'segy-ri', '2d', 'numpy', 'segy'][k % 6]
        if kind == '2d':
            n, bs, q = gen.geometry_2d(rng, max_voxels=60_000)
            n = (1, max(n[1], 2), max(n[2], 2))
        else:
            n, bs, q = gen.geometry_3d(rng, klass=['default', 'b0is4', 'general', 'zslice', None][k % 5], max_voxels=60_000)
            n = tuple(max(v, 2) for v in n)
            if k % 4 == 0:   # no padding needed in crossline and sample direction, partial last plane set
                n = (bs[0] + 2 if bs[0] <= 64 else n[0], bs[1], bs[2])
                if n[0] * n[1] * n[2] > 300_000:
                    n = (n[0], bs[1], min(bs[2], 8))
        arr = gen.cube(rng, n)
        desc = {'route': kind, 'n': n, 'bs': bs, 'q': q}
        ctx.case((kind, n, bs, q), sample=desc)
        ctx.stats['route_' + kind] += 1
        ctx.stats['partial_last_set'] += int(n[0] % bs[0] != 0 if kind != '2d' else n[1] % bs[1] != 0)
        out = ctx.path('h.sgz')
        try:
            if kind == 'numpy':
                src_arr = gen.noncontiguous(arr, k // 12) if (k // 6) % 2 == 1 else arr
                if (k // 6) % 4 == 2:
                    src_arr, arr = gen.broadcast_view(arr, k // 24)   # zero-stride view; `arr` = the values it denotes
                    desc['memory_layout'] = 'broadcast view'
                    ctx.stats['numpy_broadcast_view'] += 1
                else:
                    desc['memory_layout'] = 'non-contiguous' if src_arr is not arr else 'C'
                    ctx.stats['numpy_noncontiguous'] += int(src_arr is not arr)
                conv.numpy_to_sgz(src_arr, out, q, bs)
                want = sha(arr)
            else:
                sgy = ctx.path('h.sgy')
                mksegy.make_segy(sgy, arr, fmt=[5, 1][k % 2], two_d=(kind == '2d'), dt_us=2000)
                src = conv.segy_cube(sgy)
                want = sha(src)
                conv.segy_to_sgz(sgy, out, q, bs, reduce_iops=(kind == 'segy-ri'))
        except Exception as e:  # noqa
            ctx.fail(f'conversion failed: {type(e).__name__}: {str(e)[:120]}', desc)
            continue
        got = stored_hash(out)
        if got != want:
            ctx.fail(f'stored hash {got} != SHA-1 of the source samples {want}', desc)
        # re-blocking carries the hash
        if kind != '2d' and k % 5 == 0:
            n2 = (int(rng.choice([5, 64, 66])), int(rng.choice([3, 65])), 9)
            a2 = gen.cube(rng, n2)
            conv.numpy_to_sgz(a2, out, 8, (4, 4, 1024))
            adv = ctx.path('adv.sgz')
            with SgzConverter(out) as c:
                env.quiet(c.convert_to_adv_sgz, adv)
            ctx.case(('reblock', n2))
            if stored_hash(adv) != sha(a2):
                ctx.fail('re-blocked file does not carry the source hash', {'n': n2})
    reused_converters(ctx, gen.rng_for(ctx.seed, 'c20-reused'))
    # single-sample perturbations
    n = (3, 5, 6)
    base = gen.cube(rng, n)
    out = ctx.path('p.sgz')
    conv.numpy_to_sgz(base, out, 16, (4, 4, -1))
    h0 = stored_hash(out)
    idxs = [(i, x, z) for i in range(n[0]) for x in range(n[1]) for z in range(n[2])]
    if ctx.quick:
        idxs = [idxs[j] for j in rng.choice(len(idxs), size=40, replace=False)]
    seen = {h0}
    for (i, x, z) in idxs:
        a = base.copy()
        a[i, x, z] = np.nextafter(a[i, x, z], np.float32(np.inf))
        conv.numpy_to_sgz(a, out, 16, (4, 4, -1))
        h = stored_hash(out)
        ctx.case(('perturb', i, x, z))
        ctx.stats['perturbations'] += 1
        if h == h0 or h != sha(a):
            ctx.fail(f'perturbing sample {(i, x, z)} by one ulp: hash {"unchanged" if h == h0 else "wrong"}', {'n': n, 'idx': (i, x, z)})


def reused_converters(ctx, rng):
    """one converter object run twice, the source changed in one sample in between (the array it refers to modified in
    place; the SEG-Y file rewritten under the same name): every written file carries the SHA-1 of the samples it holds"""
    from seismic_zfp.conversion import NumpyConverter, SegyConverter
    for k in range(ctx.n(4, 40)):
        n = (int(rng.integers(3, 9)), int(rng.integers(3, 9)), int(rng.integers(4, 12)))
        arr = gen.cube(rng, n)
        out1, out2 = ctx.path('rc1.sgz'), ctx.path('rc2.sgz')
        at = tuple(int(rng.integers(v)) for v in n)
        desc = {'n': n, 'perturbed_sample': at, 'route': ['numpy', 'segy', 'segy-ri', '2d'][k % 4]}
        ctx.case(('reused-converter', desc['route'], n, at), sample=desc)
        ctx.stats['reused_converters'] += 1
        try:
            if k % 4 == 0:
                with NumpyConverter(arr) as c:
                    env.quiet(c.run, out1, bits_per_voxel=4)
                    w1 = sha(arr)
                    arr[at] = np.nextafter(arr[at], np.float32(np.inf))
                    env.quiet(c.run, out2, bits_per_voxel=[4, 8][k % 8 // 4])
                    w2 = sha(arr)
            else:
                two_d = k % 4 == 3
                a = arr[:1] if two_d else arr
                sgy = ctx.path('rc.sgy')
                mksegy.make_segy(sgy, a, fmt=5, two_d=two_d, dt_us=2000)
                with SegyConverter(sgy) as c:
                    env.quiet(c.run, out1, bits_per_voxel=4, reduce_iops=(k % 4 == 2))
                    w1 = sha(conv.segy_cube(sgy))
                    a2 = a.copy()
                    a2[(0,) + at[1:] if two_d else at] = np.nextafter(a2[(0,) + at[1:] if two_d else at], np.float32(np.inf))
                    off = 3600 + ((0 if two_d else at[0]) * n[1] + at[1]) * (240 + 4 * n[2]) + 240 + 4 * at[2]
                    with open(sgy, 'r+b') as f:      # one sample rewritten in place (big-endian IEEE)
                        f.seek(off)
                        f.write(np.asarray(a2[(0,) + at[1:] if two_d else at], dtype='>f4').tobytes())
                    env.quiet(c.run, out2, bits_per_voxel=4, reduce_iops=(k % 4 == 2))
                    w2 = sha(conv.segy_cube(sgy))
        except Exception as e:  # noqa
            ctx.fail(f'second run of a converter object failed: {type(e).__name__}: {str(e)[:120]}', desc)
            continue
        if w1 == w2:
            continue
        if stored_hash(out1) != w1:
            ctx.fail('first file of a reused converter: stored hash is not the SHA-1 of the source samples', desc)
        if stored_hash(out2) != w2:
            ctx.fail('second file of a reused converter (one source sample changed in between): stored hash is not the SHA-1 of '
                     'the samples it was written from' + (' -- it is the first run\'s hash' if stored_hash(out2) == w1 else ''), desc)


def replay(ctx, rp):
    run(ctx)
