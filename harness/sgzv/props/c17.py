"""C17 — I/O failures are reported, never turned into samples."""
import numpy as np

from .. import env, core, gen, files, readops, readcheck, iolog, symcodec
from seismic_zfp.read import SgzReader  # noqa: E402

ASSUMPTIONS = ["faults injected at the file / blob object the reader is given (exception, short read = a proper prefix, empty read)",
               "A3: bytearray slice assignment of equal length is atomic under the GIL; thread-pool completion order is permuted by "
               "per-range delays (remote backend)", "any exception counts as 'the call raises'"]
RULE = ("synthetic files (all layouts, irregular, 2D) x every read path x every position k in the sequence of range reads the "
        "call issues x fault kind {exception, short, empty} (thorough: also pairs of faults), local file object and blob object "
        "(20 workers) with permuted completion orders; the call must raise, or return exactly the fault-free value; fault-free "
        "calls under permuted completion order must return the true value")


def canon(got):
    if got[0] != 'ok':
        return ('raised',)
    v = got[1]
    if isinstance(v, dict):
        return ('ok', tuple(sorted((int(a), int(b)) for a, b in v.items())))
    a = np.asarray(v)
    return ('ok', a.shape, a.astype(np.float64).tobytes())


def run(ctx):
    rng = gen.rng_for(ctx.seed, 'c17')
    n_files = 10 if ctx.quick else 120
    kinds = ('default', 'zslice', 'general', '2d', 'irregular', 'default', 'b0is4')
    for fnum, fi in enumerate(files.read_files(ctx, rng, n_files, kinds=kinds, max_voxels=6_000)):
        desc = {'n': fi.n, 'bs': fi.lay.bs, 'q': fi.lay.q, 'is2d': fi.is2d, 'irregular': fi.mask is not None}
        ops = readcheck.in_range_ops(rng, fi, 1)
        ops = [o for o in ops if o[0] not in ('ilno', 'xlno', 'zsc', 'trc')]
        if fi.arrays:
            ops += [('hdr', int(rng.integers(fi.tracecount))), ('tfv', sorted(fi.arrays)[0])]
        for blob in (False, True):
            delay = None
            if blob:
                dl = gen.rng_for(ctx.seed, 'delay', fnum)
                delay = lambda off, ln, dl=dl: float(dl.random()) * 0.002
            s = readcheck.ReadSession(fi, blob=blob)
            if blob:
                s.handle.delay = delay
            try:
                for op in ops:
                    s.handle.plan = None
                    truth, log = s.run(op)
                    if truth[0] != 'ok':
                        continue
                    tcanon = canon(truth)
                    nreads = len(log)
                    ctx.stats['fault_free_calls'] += 1
                    # permuted completion order, no fault: must equal the truth (blob backend)
                    if blob:
                        again, _ = s.run(op)
                        ctx.case((fi.n, fi.lay.bs, op, 'reorder'))
                        if canon(again) != tcanon:
                            ctx.fail(f'read {op} under a different completion order of its parallel range reads returned a '
                                     f'different result', {'file': desc, 'op': op, 'blob': True})
                    positions = list(range(nreads))
                    if ctx.quick and nreads > 6:
                        positions = sorted(set([0, 1, nreads - 1, nreads // 2] + rng.integers(0, nreads, size=2).tolist()))
                    plans = [{k: kind} for k in positions for kind in ('exc', 'short', 'empty')]
                    if not ctx.quick and nreads >= 2:
                        for _ in range(6):
                            a, b = rng.choice(nreads, size=2, replace=False).tolist()
                            plans.append({int(a): str(rng.choice(['exc', 'short', 'empty'])), int(b): str(rng.choice(['exc', 'short', 'empty']))})
                    for plan in plans:
                        s.handle.plan = iolog.FaultPlan(plan)
                        got, _ = s.run(op)
                        fired = list(s.handle.plan.fired)
                        s.handle.plan = None
                        ctx.case((fi.n, fi.lay.bs, op, tuple(sorted(plan.items())), blob),
                                 sample={'file': desc, 'op': op, 'plan': plan, 'blob': blob, 'outcome': got[0]} if len(ctx.samples) < 6 else None)
                        ctx.stats['fault_' + '+'.join(sorted(plan.values()))] += 1
                        ctx.stats['backend_' + ('blob' if blob else 'file')] += 1
                        c = canon(got)
                        if c[0] == 'ok' and c != tcanon:
                            ctx.fail(f'read {op}: range read #{sorted(plan)} failed ({plan}) but the call returned a value that '
                                     f'differs from the true one', {'file': desc, 'op': op, 'plan': plan, 'blob': blob, 'fired': fired[:3]})
                        elif c[0] == 'ok' and fired and any(f[1] == 'exc' or f[3] > 0 for f in fired):
                            # the faulted read was issued on behalf of this call, yet the call returned (the true value)
                            ctx.fail(f'read {op}: range read #{sorted(plan)} failed ({plan}) but the call did not raise',
                                     {'file': desc, 'op': op, 'plan': plan, 'blob': blob, 'fired': fired[:3]})
            finally:
                s.close()


def replay(ctx, rp):
    run(ctx)
