"""C17 — I/O failures are reported, never turned into samples."""
import numpy as np

from .. import env, core, gen, files, readops, readcheck, iolog, symcodec
from seismic_zfp.read import SgzReader  # noqa: E402

ASSUMPTIONS = ["faults injected at the file / blob object the reader is given (exception, short read = a proper prefix, empty read)",
               "A3: bytearray slice assignment of equal length is atomic under the GIL; thread-pool completion order is permuted by "
               "per-range delays (remote backend)", "any exception counts as 'the call raises'"]
RULE = ("synthetic files (all layouts, irregular, 2D) x every read path x every position k in the sequence of range reads the "
        "call issues x fault kind {exception, short, empty} (thorough: also pairs of faults), local file object and blob object "
        "(20 workers) with permuted completion orders; the call must raise, or return exactly the fault-free value; fault-free "
        "calls under permuted completion order must return the true value"
        "; K: model fetch sequence vs observed range reads (exact order on the local backend, multiset on the 20-worker backend); Lean faultRaises verdict per fault position; a clean call after every faulted call")


def canon(got):
    if got[0] != 'ok':
        return ('raised',)
    v = got[1]
    if isinstance(v, dict):
        return ('ok', tuple(sorted((int(a), int(b)) for a, b in v.items())))
    a = np.asarray(v)
    return ('ok', a.shape, a.astype(np.float64).tobytes())


def raw_fetches(ans):
    """the model's fetch list in issue order (not coalesced); None when the model refuses / has no entry"""
    if not ans.startswith('ok '):
        return None
    fetch_s = ans[3:].split('|')[1]
    return [tuple(int(x) for x in f.split(':')) for f in fetch_s.strip().split(',') if f]


def run(ctx):
    model = core.Model()
    try:
        run_(ctx, model)
    finally:
        model.close()


def run_(ctx, model):
    rng = gen.rng_for(ctx.seed, 'c17')
    n_files = ctx.n(10, 120)
    kinds = ('default', 'zslice', 'general', '2d', 'irregular', 'default', 'b0is4')
    def long_fanouts():
        # calls that issue more range reads than the remote backend has workers (20): a crossline of a 96-inline cube is
        # 24 reads, a z-slice 48, on the default layout; the fault positions below include the very first reads
        from .. import synth
        yield synth.make(ctx.path('fan.sgz'), (96, 8, 8), (4, 4, 512), 16, rng)
        if not ctx.quick or ctx.seed % 2 == 0:
            yield synth.make(ctx.path('fan2.sgz'), (9, 100, 8), (4, 4, 256), 32, rng)
        # more range reads in one call than one batch of a batched fan-out would hold (33 x 33 = 1089 trace columns)
        yield synth.make(ctx.path('fan3.sgz'), (132, 130, 4), (4, 4, 256), 32, rng)
    import itertools
    for fnum, fi in enumerate(itertools.chain(long_fanouts(), files.read_files(ctx, rng, n_files, kinds=kinds, max_voxels=6_000))):
        desc = {'n': fi.n, 'bs': fi.lay.bs, 'q': fi.lay.q, 'is2d': fi.is2d, 'irregular': fi.mask is not None}
        ops = readcheck.in_range_ops(rng, fi, 1)
        ops = [o for o in ops if o[0] not in ('ilno', 'xlno', 'zsc', 'trc')]
        if fi.arrays:
            ops += [('hdr', int(rng.integers(fi.tracecount))), ('tfv', sorted(fi.arrays)[0])]
        if fi.n[0] * fi.n[1] > 10_000:
            ops = [('zs', int(rng.integers(fi.n[2]))), ('xl', int(rng.integers(fi.n[1])))]
        for blob in (False, True):
            delay = None
            if blob:
                dl = gen.rng_for(ctx.seed, 'delay', fnum)
                delay = lambda off, ln, dl=dl: float(dl.random()) * 0.002
            s = readcheck.ReadSession(fi, blob=blob)
            if blob:
                s.handle.delay = delay
            try:
                for op in ops:
                    s.handle.plan = None
                    truth, log = s.run(op)
                    if truth[0] != 'ok':
                        continue
                    tcanon = canon(truth)
                    nreads = len(log)
                    ctx.stats['fault_free_calls'] += 1
                    # K: the sequence of range reads the call issues vs the model's fetch list (Model/Loader, Model/IO):
                    # same reads in the same order on the sequential local backend, same multiset on the 20-worker backend
                    req = readcheck.model_request(fi, op)
                    mf = None
                    if req is not None:
                        ctx.stats['corr_requests'] += 1
                        mf = raw_fetches(model.ask(req))
                        obs = [(o - s.data_start, l) for (o, l, _) in log]
                        if mf is None or (sorted(mf) != sorted(obs)) or (not blob and mf != obs):
                            ctx.corr_fail('Model.IO/fetch-sequence', req, (mf or [])[:8], obs[:8],
                                          {'file': desc, 'op': op, 'blob': blob})
                            mf = None
                    # permuted completion order, no fault: must equal the truth (blob backend)
                    if blob:
                        again, _ = s.run(op)
                        ctx.case((fi.n, fi.lay.bs, op, 'reorder'))
                        if canon(again) != tcanon:
                            ctx.fail(f'read {op} under a different completion order of its parallel range reads returned a '
                                     f'different result', {'file': desc, 'op': op, 'blob': True})
                    positions = list(range(nreads))
                    if not ctx.quick and nreads > 64:
                        # (a call with hundreds of range reads: the first, the last, the batch boundaries and a sample)
                        positions = sorted(set([0, 1, 2, 19, 20, 21, nreads // 2, nreads - 21, nreads - 20, nreads - 2, nreads - 1]
                                               + [p_ for p_ in (1023, 1024, 1025) if p_ < nreads]
                                               + rng.integers(0, nreads, size=24).tolist()))
                    if ctx.quick and nreads > 6:
                        positions = sorted(set([0, 1, nreads - 1, nreads // 2] + rng.integers(0, nreads, size=2).tolist()))
                    plans = [{k: kind} for k in positions for kind in ('exc', 'short', 'empty')]
                    if not ctx.quick and nreads >= 2:
                        for _ in range(6):
                            a, b = rng.choice(nreads, size=2, replace=False).tolist()
                            plans.append({int(a): str(rng.choice(['exc', 'short', 'empty'])), int(b): str(rng.choice(['exc', 'short', 'empty']))})
                    for plan in plans:
                        s.handle.plan = iolog.FaultPlan(plan)
                        got, _ = s.run(op)
                        fired = list(s.handle.plan.fired)
                        s.handle.plan = None
                        ctx.case((fi.n, fi.lay.bs, op, tuple(sorted(plan.items())), blob),
                                 sample={'file': desc, 'op': op, 'plan': plan, 'blob': blob, 'outcome': got[0]} if len(ctx.samples) < 6 else None)
                        ctx.stats['fault_' + '+'.join(sorted(plan.values()))] += 1
                        ctx.stats['backend_' + ('blob' if blob else 'file')] += 1
                        c = canon(got)
                        # K: the model's verdict for this fault position (Lean `faultRaises`, theorem
                        # read_call_fault_is_reported) vs what the real call did
                        if mf is not None and len(plan) == 1:
                            (k0, _kind), = plan.items()
                            ctx.stats['corr_requests'] += 1
                            verdict = model.ask(f'io fault {k0} ' + req[len('read '):])
                            real = 'raise' if c[0] != 'ok' else 'value'
                            if verdict != real:
                                ctx.corr_fail('Model.IO/faultRaises', f'io fault {k0} {req}', verdict, real,
                                              {'file': desc, 'op': op, 'plan': plan, 'blob': blob})
                        # the fault is over: the same call, fault-free, on the same reader must give the true value again
                        if len(ctx.nontrivial) % 3 == 0 or not ctx.quick:
                            again, _ = s.run(op, cold=False)
                            if canon(again) != tcanon:
                                ctx.fail(f'read {op}: after an earlier call on this reader failed with an injected I/O fault '
                                         f'({plan}), the fault-free call returned {"a different value" if again[0] == "ok" else "an error"}',
                                         {'file': desc, 'op': op, 'plan': plan, 'blob': blob, 'sequence': 'faulted call, then clean call'})
                        if c[0] == 'ok' and c != tcanon:
                            ctx.fail(f'read {op}: range read #{sorted(plan)} failed ({plan}) but the call returned a value that '
                                     f'differs from the true one', {'file': desc, 'op': op, 'plan': plan, 'blob': blob, 'fired': fired[:3]})
                        elif c[0] == 'ok' and fired and any(f[1] == 'exc' or f[3] > 0 for f in fired):
                            # the faulted read was issued on behalf of this call, yet the call returned (the true value)
                            ctx.fail(f'read {op}: range read #{sorted(plan)} failed ({plan}) but the call did not raise',
                                     {'file': desc, 'op': op, 'plan': plan, 'blob': blob, 'fired': fired[:3]})
            finally:
                s.close()


def replay(ctx, rp):
    run(ctx)
