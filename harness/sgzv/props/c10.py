"""C10 — cropping."""
import os

import numpy as np

from .. import derivedcorr, env, core, gen, files, synth, spec, symcodec, view, histcorr
from seismic_zfp.cropping import SgzCropper  # noqa: E402
from seismic_zfp.utils import WrongDimensionalityError  # noqa: E402

ASSUMPTIONS = ["regular (structured) 3D sources; symbolic decoder makes 'bitwise the restriction' a statement about unit ids",
               "model Sgz.Model.Crop tied to cropping.py by this run's correspondence only"]
RULE = ("synthetic sources (all layout classes, 0-5 stored arrays incl. duplicate fields, negative/descending axes, footer "
        "lengths on both sides of multiples of 512) x index and coordinate boxes (aligned/unaligned, clipped, full, outside, "
        "empty, inverted, none); the cropped file must be conformant (spec decoder) and every API view of it (volume under "
        "the symbolic decoder, axes, trace count, structured, every trace header, every tracefield array) must equal the "
        "source's restricted to the box widened to block boundaries; refusals must be IndexError and leave no file"
        "; K: Model/Crop (refusal, written box, copied source units in output order) vs the real cropper on symbolic sources; one cropper instance writes sequences of crops")


def widen(lo, hi, b, n):
    return max(0, lo - lo % b), min(n, hi if hi % b == 0 else hi - hi % b + b)


def boxes(rng, n, bs, count):
    out = []
    for _ in range(count):
        box = []
        for ax in range(3):
            r = rng.random()
            if r < .2:
                box.append(None)
            else:
                lo, hi = gen.bounds_on_residues(rng, n[ax], bs[ax])
                box.append((lo, hi))
        if all(b is None for b in box):
            box[int(rng.integers(3))] = (0, n[0] if False else 1)
            ax = [i for i, b in enumerate(box) if b is not None][0]
            box[ax] = (0, n[ax])
        out.append(('ok', box))
    # refusals
    ax = int(rng.integers(3))
    bad = [None, None, None]
    bad[ax] = (int(rng.choice([-1, -4])), n[ax])
    out.append(('refuse', bad))
    bad = [None, None, None]
    bad[ax] = (0, n[ax] + int(rng.choice([1, 4, 100])))
    out.append(('refuse', bad))
    bad = [None, None, None]
    v = int(rng.integers(n[ax] + 1))
    bad[ax] = (v, v)
    out.append(('refuse', bad))
    if n[ax] > 1:
        bad = [None, None, None]
        bad[ax] = (n[ax] - 1, 0) if rng.random() < .5 else (min(n[ax], 3), 1)
        out.append(('refuse', bad))
    out.append(('refuse', [None, None, None]))
    return out


def zero_coordinate_boxes(ctx, rng):
    """crops by coordinate whose box starts (or stops) exactly at coordinate 0 -- line number 0, 0.0 ms -- on axes that
    reach 0 somewhere after their first entry"""
    for k in range(ctx.n(4, 40)):
        n = (int(rng.integers(9, 20)), int(rng.integers(9, 20)), 300 + int(rng.integers(0, 300)))
        ji, jx, jz = 4 * int(rng.integers(1, 3)), 4 * int(rng.integers(1, 3)), 256
        di, dx = int(rng.choice([1, 2, -1, 3])), int(rng.choice([1, -2, 4]))
        dz = int(rng.choice([1000, 2000, 4000]))
        fi = synth.make(ctx.path('zc_src.sgz'), n, (4, 4, 256), 32, rng, il=(-di * ji, di), xl=(-dx * jx, dx),
                        z=(-jz * dz // 1000, dz), n_arrays=3)
        with symcodec.symbolic_decoder():
            src_view = view.sgz_view(fi.path)
            for which in range(4):
                bi = (ji, min(n[0], ji + 4)) if which in (0, 3) else None
                bx = (jx, min(n[1], jx + 4)) if which in (1, 3) else None
                bz = (jz, n[2]) if which == 2 else None
                co = lambda a, r: None if r is None else (type(a[0])(a[r[0]]), a[r[1]] if r[1] < len(a) else a[-1] + (a[-1] - a[-2]))
                cbox = (co(fi.il, bi), co(fi.xl, bx), co(fi.z, bz))
                d = {'n': n, 'il': fi.il[:2], 'xl': fi.xl[:2], 'z': fi.z[:2], 'coordinate_box': cbox, 'index_box': (bi, bx, bz)}
                ctx.case(('zero-coordinate', n, which, di, dx, dz), sample=d if which == 0 else None)
                ctx.stats['zero_coordinate_boxes'] += 1
                out = ctx.path('zc.sgz')
                try:
                    with SgzCropper(fi.path) as c:
                        env.quiet(c.write_cropped_file_by_coords, out, cbox[0], cbox[1], cbox[2])
                except Exception as e:  # noqa
                    ctx.fail(f'crop by coordinates starting at coordinate 0 failed: {type(e).__name__}: {str(e)[:100]}', d)
                    continue
                wbox = tuple(widen(*(b if b is not None else (0, n[ax])), fi.lay.bs[ax], n[ax]) for ax, b in enumerate((bi, bx, bz)))
                probs = spec.conformance_problems(out)
                try:
                    probs += view.diff_views(view.sgz_view(out), view.restrict(src_view, wbox),
                                             keys=('tracecount', 'structured', 'ilines', 'xlines', 'zslices', 'volume', 'tracefields'))
                except Exception as e:  # noqa
                    probs.append(f'cropped file cannot be read: {type(e).__name__}: {str(e)[:100]}')
                for p_ in probs:
                    ctx.fail('crop by coordinates starting at coordinate 0: ' + p_, d)


def run(ctx):
    rng = gen.rng_for(ctx.seed, 'c10')
    n_files = ctx.n(24, 300)
    model = core.Model()
    try:
        for k, fi in enumerate(files.read_files(ctx, rng, n_files, kinds=('default', 'zslice', 'general', 'irregular', 'default', 'b0is4', None, 'irregular'),
                                                max_voxels=30_000, versions=(k_versions := True))):
            desc = {'n': fi.n, 'bs': fi.lay.bs, 'q': fi.lay.q, 'arrays': sorted(fi.arrays), 'dups': fi.dups,
                    'il': fi.il[:2], 'xl': fi.xl[:2], 'z': fi.z[:2], 'version': spec.version_decode(fi.version)}
            with symcodec.symbolic_decoder():
                src_view = view.sgz_view(fi.path)
                # one cropper instance writes all the crops of this source, in sequence (a tool that tiles a survey does
                # exactly that): the k-th output must not depend on the crops written before it
                # (the cropper's own reader options away from their defaults for some sources: data section loaded when
                #  it opens, a one-chunk cache)
                ckw = [{}, {'preload': True}, {}, {'chunk_cache_size': 1}, {'preload': True, 'chunk_cache_size': 2}][k % 5]
                desc['cropper_options'] = ckw
                ctx.stats['cropper_preload'] += int(bool(ckw.get('preload')))
                shared = SgzCropper(fi.path, **ckw) if k % 3 != 2 else None
                for kind, box in boxes(rng, fi.n, fi.lay.bs, ctx.n(6, 25)):
                    out = ctx.path('crop.sgz')
                    if os.path.exists(out):
                        os.unlink(out)
                    by_coord = bool(rng.random() < .4)
                    d = dict(desc, box=box, by_coord=by_coord)
                    ctx.case((fi.n, fi.lay.bs, box, by_coord), sample=d)
                    ctx.stats['box_' + kind] += 1
                    try:
                        import contextlib
                        with (contextlib.nullcontext(shared) if shared is not None else SgzCropper(fi.path, **ckw)) as c:
                            # a cropper is a reader: header look-ups made on the object before (or between) crops must not
                            # change what it writes
                            pre = int(rng.integers(5))
                            d['reads_before_crop'] = ['none', 'gen_trace_header', 'gen_trace_header(load_all)',
                                                      'read_variant_headers(subset)', 'get_tracefield_values'][pre]
                            if pre == 1:
                                c.gen_trace_header(0)
                            elif pre == 2:
                                c.gen_trace_header(0, load_all_headers=True)
                            elif pre == 3 and fi.arrays:
                                c.read_variant_headers(tracefields=[sorted(fi.arrays)[-1]])
                            elif pre == 4 and fi.arrays:
                                c.get_tracefield_values(sorted(fi.arrays)[0])
                            if by_coord and kind == 'ok':
                                axes = (fi.il, fi.xl, fi.z)
                                def co(ax, r):
                                    if r is None:
                                        return None
                                    a = axes[ax]
                                    stop = a[r[1]] if r[1] < len(a) else a[-1] + (a[-1] - a[-2] if len(a) > 1 else 1)
                                    return (a[r[0]], stop)
                                if any(b is not None and len(axes[i]) < 2 and b[1] >= len(axes[i]) for i, b in enumerate(box)):
                                    by_coord = False
                                    env.quiet(c.write_cropped_file_by_indexes, out, box[0], box[1], box[2])
                                else:
                                    env.quiet(c.write_cropped_file_by_coords, out, co(0, box[0]), co(1, box[1]), co(2, box[2]))
                            else:
                                env.quiet(c.write_cropped_file_by_indexes, out, box[0], box[1], box[2])
                        outcome = 'written'
                    except IndexError:
                        outcome = 'IndexError'
                    except Exception as e:  # noqa
                        outcome = f'{type(e).__name__}: {str(e)[:100]}'
                    # K: Model/Crop (refusal, written box, copied units in output order) vs the real cropper
                    lay = fi.lay
                    rq = lambda r: 'N N' if r is None else f'{r[0]} {r[1]}'
                    req = (f"crop {lay.n[0]} {lay.n[1]} {lay.n[2]} {lay.bs[0]} {lay.bs[1]} {lay.bs[2]} {lay.u} "
                           f"{rq(box[0])} {rq(box[1])} {rq(box[2])}")
                    ctx.stats['corr_requests'] += 1
                    ans = model.ask(req)
                    if outcome == 'IndexError':
                        real = 'err index'
                    elif outcome == 'written':
                        try:
                            ho, _ = spec.read_header(out)
                            with open(out, 'rb') as fo:
                                fo.seek(ho.data_start())
                                raw = np.frombuffer(fo.read(spec.DISK * ho.data_blocks), dtype=np.uint8)
                            lo = ho.layout()
                            ids = raw.reshape(-1, lay.u)[:, :min(lay.u, 8)].astype(np.int64)
                            idv = sum(ids[:, b_] << (8 * b_) for b_ in range(ids.shape[1])) - 1
                            i0 = list(fi.il).index(ho.il0) if not by_coord or True else 0
                            x0 = list(fi.xl).index(ho.xl0)
                            z0 = int(round((ho.axes()[2][0] - fi.z[0]) / (fi.z[1] - fi.z[0]))) if len(fi.z) > 1 else 0
                            real = (f"ok {i0} {i0 + lo.n[0]} {x0} {x0 + lo.n[1]} {z0} {z0 + lo.n[2]} | {len(idv)} "
                                    f"{histcorr.digest(idv)}")
                            # K: Model/Derived.cropHeader: the 19 fixed header words of the cropped file
                            wb = (i0, i0 + lo.n[0], x0, x0 + lo.n[1], z0, z0 + lo.n[2])
                            if fi.mask is not None:
                                mk = np.asarray(fi.mask).reshape(fi.n[0], fi.n[1])
                                structured_, pop_ = False, int(np.count_nonzero(mk[wb[0]:wb[1], wb[2]:wb[3]]))
                            else:
                                structured_, pop_ = True, lo.n[0] * lo.n[1]
                            derivedcorr.check_crop(ctx, model, fi.path, out, wb, structured_, pop_, d)
                        except Exception as e:  # noqa
                            real = f'unreadable output: {type(e).__name__}: {e}'
                    else:
                        real = outcome
                    if ans != real:
                        ctx.corr_fail('Model.Crop', req, ans, real, d)
                    if kind == 'refuse':
                        if outcome != 'IndexError':
                            ctx.fail(f'crop request that must be refused with IndexError gave: {outcome}', d)
                        elif os.path.exists(out):
                            ctx.fail('refused crop left an output file', d)
                        continue
                    if outcome != 'written':
                        ctx.fail(f'valid crop request failed: {outcome}', d)
                        continue
                    wbox = tuple(widen(*(b if b is not None else (0, fi.n[ax])), fi.lay.bs[ax], fi.n[ax])
                                 for ax, b in enumerate(box))
                    probs = spec.conformance_problems(out)
                    try:
                        got = view.sgz_view(out)
                        probs += view.diff_views(got, view.restrict(src_view, wbox, mask=fi.mask),
                                                 keys=('tracecount', 'structured', 'ilines', 'xlines', 'zslices', 'volume',
                                                       'hash', 'tracefields'))
                        # every trace header of the crop == header of the corresponding source trace
                        (i0, i1), (x0, x1), _ = wbox
                        n1 = fi.n[1]
                        src_h = {t: h for t, h in zip(src_view['header_idx'], src_view['headers'])}
                        if fi.mask is not None:
                            # irregular source: trace ordinals count the populated grid positions, in the source and in
                            # the box alike
                            mk = np.asarray(fi.mask).reshape(fi.n[0], n1)
                            src_ord = np.cumsum(mk.reshape(-1)) - 1
                            live_in_box = [(i, x) for i in range(i0, i1) for x in range(x0, x1) if mk[i, x]]
                        for t, h in zip(got['header_idx'], got['headers']):
                            if fi.mask is not None:
                                if t >= len(live_in_box):
                                    continue
                                st = int(src_ord[live_in_box[t][0] * n1 + live_in_box[t][1]])
                            else:
                                st = (i0 + t // (x1 - x0)) * n1 + x0 + t % (x1 - x0)
                            if st in src_h and src_h[st] != h:
                                dd = {f: (h.get(f), src_h[st].get(f)) for f in h if h.get(f) != src_h[st].get(f)}
                                probs.append(f'header of cropped trace {t} != source trace {st}: {dict(list(dd.items())[:3])}')
                                break
                    except Exception as e:  # noqa
                        probs.append(f'cropped file cannot be read: {type(e).__name__}: {str(e)[:120]}')
                    for p in probs:
                        ctx.fail('cropped file: ' + p, dict(d, widened=wbox, shared_cropper=shared is not None))
                if shared is not None:
                    shared.close()
        # the sample axis of crops along z (every block multiple, intervals that are not whole milliseconds) and of crops of
        # crops (double-precision start / interval fields, an intermediate start of exactly 0.0 ms): shared with C05
        from . import c05
        c05.z_crop_axes(ctx, gen.rng_for(ctx.seed, 'c10-zcrop'))
        c05.z_crop_chains(ctx, gen.rng_for(ctx.seed, 'c10-zcrop-chains'))
        zero_coordinate_boxes(ctx, gen.rng_for(ctx.seed, 'c10-zero-coordinate'))
    finally:
        model.close()


def replay(ctx, rp):
    run(ctx)
