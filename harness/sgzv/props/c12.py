"""C12 — re-blocking to the 64x64x4 layout."""
import os

import numpy as np

from .. import derivedcorr, env, core, gen, synth, spec, symcodec, view, histcorr
from seismic_zfp.conversion import SgzConverter  # noqa: E402

ASSUMPTIONS = ["symbolic decoder: 'bitwise identical on every real voxel' is a statement about which source unit each output "
               "unit holds", "model Sgz.Model.Reblock tied to conversion.convert_to_adv_sgz by this run's correspondence only"]
RULE = ("synthetic default-layout 2-bit sources with each dimension below/at/above one and two 64-blocks, 0-5 stored arrays "
        "(incl. duplicate fields), regular and irregular, old and new footer conventions; the 64x64x4 output must be "
        "conformant and every API view (volume, axes, trace count, file headers, every trace header, tracefields, hash) must "
        "equal the source's; non-2-bit / non-default-layout inputs must be refused without output"
        "; K: Model/Reblock.units (source unit or zero per output unit) vs the real output")


def model_units(ctx, model, fi, out, desc):
    """K: Model/Reblock.units (which source unit every output unit holds, zero-filled ones included) vs the real output"""
    lay = fi.lay
    req = f"reblock {lay.n[0]} {lay.n[1]} {lay.n[2]} {lay.bs[0]} {lay.bs[1]} {lay.bs[2]} {lay.u}"
    ctx.stats['corr_requests'] += 1
    ans = model.ask(req)
    if out is None:
        real = 'err assertion'
    else:
        ho, _ = spec.read_header(out)
        with open(out, 'rb') as fo:
            fo.seek(ho.data_start())
            raw = np.frombuffer(fo.read(spec.DISK * ho.data_blocks), dtype=np.uint8)
        ids = raw.reshape(-1, lay.u)[:, :min(lay.u, 8)].astype(np.int64)
        idv = sum(ids[:, b_] << (8 * b_) for b_ in range(ids.shape[1]))   # source unit + 1, 0 = zero-filled
        real = f'ok {len(idv)} {histcorr.digest(idv)}'
    if ans != real:
        ctx.corr_fail('Model.Reblock', req, ans, real, desc)


def run(ctx):
    model = core.Model()
    try:
        run_(ctx, model)
        same_samples_other_headers(ctx, gen.rng_for(ctx.seed, 'c12-twins'))
    finally:
        model.close()


def run_(ctx, model):
    rng = gen.rng_for(ctx.seed, 'c12')
    n_files = ctx.n(50, 600)
    ext = [2, 5, 63, 64, 65, 67, 68, 127, 128, 129, 4, 60]
    for k in range(n_files):
        if k % 7 == 6:   # unsupported input
            n, bs, q = gen.geometry_3d(rng, klass=[None, 'default'][k % 2], max_voxels=20_000)
            if (q, tuple(bs)) == (8, (4, 4, 1024)):
                q, bs = 16, (4, 4, 512)
            fi = synth.make(ctx.path('src.sgz'), n, bs, q, rng)
            out = ctx.path('adv.sgz')
            if os.path.exists(out):
                os.unlink(out)
            ctx.case(('unsupported', n, bs, q))
            ctx.stats['unsupported'] += 1
            try:
                with SgzConverter(fi.path) as c:
                    env.quiet(c.convert_to_adv_sgz, out)
                ctx.fail('unsupported input was not refused', {'n': n, 'bs': bs, 'q': q})
            except Exception:
                model_units(ctx, model, fi, None, {'n': n, 'bs': bs, 'q': q})
                if os.path.exists(out):
                    ctx.fail('refused re-block left an output file', {'n': n, 'bs': bs, 'q': q})
            continue
        n = (int(rng.choice(ext)), int(rng.choice(ext)), int(rng.choice([3, 4, 5, 9, 16])))
        if n[0] * n[1] > 9000:
            n = (n[0], int(rng.choice([2, 5, 63, 64, 65])), n[2])
        if k % 4 == 1:   # traces longer than one 1024-sample block: a source chunk spans several disk blocks
            n = (int(rng.choice([3, 4, 66])) if k % 8 == 1 else int(rng.choice([2, 5])), int(rng.choice([5, 65, 68, 130])),
                 int(rng.choice([1025, 1100, 2049, 2050])))
        irregular = k % 5 == 3
        ver = spec.version_encode(*[(0, 2, 9, True), (0, 2, 1, True), (0, 2, 2, False), (0, 1, 3, True)][k % 4])
        if irregular:
            ver = spec.version_encode(0, 2, 9, True)
        fi = synth.make(ctx.path('src.sgz'), n, (4, 4, 1024), 8, rng, version=ver, irregular=irregular,
                        n_arrays=int(rng.integers(0, 6)), dups=bool(k % 3 == 0))
        desc = {'n': n, 'irregular': irregular, 'arrays': sorted(fi.arrays), 'dups': fi.dups,
                'version': spec.version_decode(ver)}
        ctx.case(('reblock', n, irregular, tuple(sorted(fi.arrays)), ver), sample=desc)
        ctx.stats['irregular' if irregular else 'regular'] += 1
        out = ctx.path('adv.sgz')
        with symcodec.symbolic_decoder():
            try:
                # (every third file through a converter that loads the data section when it opens: preload=True)
                desc['preload'] = preload = bool(k % 3 == 1)
                ctx.stats['preload_' + str(preload)] += 1
                with SgzConverter(fi.path, preload=preload) as c:
                    pre = k % 4
                    desc['reads_before_reblock'] = ['none', 'gen_trace_header', 'read_variant_headers(subset)',
                                                    'gen_trace_header(load_all)'][pre]
                    if pre == 1:
                        c.gen_trace_header(0)
                    elif pre == 2 and fi.arrays:
                        c.read_variant_headers(tracefields=[sorted(fi.arrays)[-1]])
                    elif pre == 3:
                        c.gen_trace_header(0, load_all_headers=True)
                    env.quiet(c.convert_to_adv_sgz, out)
            except Exception as e:  # noqa
                ctx.fail(f're-block of a supported file failed: {type(e).__name__}: {str(e)[:120]}', desc)
                continue
            model_units(ctx, model, fi, out, desc)
            derivedcorr.check_reblock(ctx, model, fi.path, out, desc)   # K: Model/Derived.reblockHeader, the 19 header words
            probs = spec.conformance_problems(out)
            h, _ = spec.read_header(out)
            if h.bs != (64, 64, 4):
                probs.append(f'blockshape {h.bs}')
            try:
                a, b = view.sgz_view(out), view.sgz_view(fi.path)
                # output units keep the source's ids: under the symbolic decoder equal volumes == same source units
                probs += view.diff_views(a, b)
            except Exception as e:  # noqa
                probs.append(f're-blocked file cannot be read: {type(e).__name__}: {str(e)[:120]}')
            # the same comparison by a decoder written from the specification alone (every disk block at the place the
            # specification gives it): a re-blocker and a reader that agree with each other only do not pass this
            try:
                da, db = spec.decode_volume(out), spec.decode_volume(fi.path)
                if da.shape != db.shape or not np.array_equal(da.view(np.uint32), db.view(np.uint32)):
                    bad = int(np.count_nonzero(da.view(np.uint32) != db.view(np.uint32))) if da.shape == db.shape else -1
                    probs.append(f'decoded from the specification alone, the re-blocked file differs from the source on {bad} voxels')
            except Exception as e:  # noqa
                probs.append(f're-blocked file cannot be decoded from the specification: {type(e).__name__}: {str(e)[:100]}')
        for p in probs:
            ctx.fail('re-blocked file: ' + p, desc)


def same_samples_other_headers(ctx, rng):
    """two sources with the same samples and grid (hence the same source-data hash) and different header arrays, re-blocked
    one after the other in this process by fresh converter objects: each output carries its own source's headers"""
    for k in range(ctx.n(3, 30)):
        n = (int(rng.choice([5, 8, 66])), int(rng.choice([6, 65, 9])), int(rng.choice([4, 9])))
        na = int(rng.integers(1, 5))
        srcs, outs = [], []
        for j in range(2):
            fi = synth.make(ctx.path(f'twin{j}.sgz'), n, (4, 4, 1024), 8, gen.rng_for(ctx.seed, 'c12-twin', k, j), n_arrays=na,
                            dups=False)
            srcs.append(fi)
        if sorted(srcs[0].arrays) != sorted(srcs[1].arrays):
            continue
        desc = {'n': n, 'arrays': sorted(srcs[0].arrays), 'twins': 'same samples and grid, different header values'}
        ctx.case(('twins', n, tuple(sorted(srcs[0].arrays))), sample=desc)
        ctx.stats['twin_sources'] += 1
        with symcodec.symbolic_decoder():
            for j, fi in enumerate(srcs):
                out = ctx.path(f'twin{j}_adv.sgz')
                try:
                    with SgzConverter(fi.path) as c:
                        if j == 0:
                            for key in list(c.stored_header_keys):
                                c.get_tracefield_values(key)
                        env.quiet(c.convert_to_adv_sgz, out)
                except Exception as e:  # noqa
                    ctx.fail(f're-block of twin source {j} failed: {type(e).__name__}: {str(e)[:100]}', desc)
                    break
                want = spec.read_footer_arrays(fi.path)
                got = spec.read_footer_arrays(out)
                for code in want:
                    if code not in got or not np.array_equal(np.asarray(got[code]), np.asarray(want[code])):
                        ctx.fail(f're-blocked file of source {j}: stored header array {code} is not that source\'s '
                                 f'(another source with the same samples was re-blocked before)', dict(desc, source=j))
                        break


def replay(ctx, rp):
    run(ctx)
