"""C13 — segyio emulation."""
import numpy as np
import segyio

from .. import env, core, gen, conv, spec, mksegy, segycases
import seismic_zfp  # noqa: E402
from seismic_zfp.utils import WrongDimensionalityError  # noqa: E402

ASSUMPTIONS = ["A2: segyio itself is the oracle for the SEG-Y side", "rejections are compared as 'rejected' (segyio raises "
               "KeyError/IndexError/..., seismic_zfp IndexError): the property only asks that they be rejected too",
               "samples compared with the SGZ's own decoded volume (read_volume), header values with segyio's"]
RULE = ("regular cubes with ascending/descending, unit/non-unit axes (incl. negative numbers) converted with exhaustive "
        "headers x expressions generated from the documented grammar: iline[n]/xline[n] (present/absent n), line slices with "
        "every combination of start/stop/step present (bounds existing line numbers, steps multiples of the increment in axis "
        "order), iteration, len(), depth_slice/trace/header with int, negative int and slices of any non-zero step, "
        "attributes(field)[...], ilines/xlines/samples/tracecount, bin, text[0], tools.dt, tools.cube; canonical form "
        "(kind, length, shapes, key order, values) on seismic_zfp.open(sgz) vs segyio.open(sgy) vs the Lean model of both"
        "; K: Model/Emul sliceIndices/pyRange vs CPython; lineSlice vs accessors.SliceAccessor and vs segyio.Line.ranges (also outside the property's grammar); accessorSlice vs accessors.Accessor"
        "; subvolume[a:b:c, ...] on synthetic files whose axes ascend, descend and pass through line number 0 at any position: samples vs the decoded volume (symbolic decoder), subvolumeAxis vs the accessor's helpers")


def canon(v, vol_lookup=None):
    """canonical, comparable structure of an expression value"""
    if isinstance(v, np.ndarray):
        return ('array', tuple(v.shape))
    if isinstance(v, (list, tuple)) or hasattr(v, '__next__') or type(v).__name__ in ('generator', 'filter', 'map', 'zip'):
        items = list(v)
        return ('seq', len(items), tuple(canon(x) for x in items[:64]))
    if isinstance(v, dict) or type(v).__name__ == 'Field':
        return ('map', tuple(sorted((int(k), int(val)) for k, val in dict(v).items())))
    if isinstance(v, (int, np.integer)):
        return ('int', int(v))
    if isinstance(v, (float, np.floating)):
        return ('float', round(float(v), 6))
    if isinstance(v, (bytes, bytearray)):
        return ('bytes', bytes(v))
    return ('other', type(v).__name__)


def evaluate(f, expr):
    try:
        return ('ok', expr(f))
    except (IndexError, KeyError, ValueError, TypeError) as e:
        return ('rejected', type(e).__name__)
    except Exception as e:  # noqa
        return ('crash', type(e).__name__ + ': ' + str(e)[:80])


def arrays_of(v):
    if isinstance(v, np.ndarray):
        return [v]
    if isinstance(v, (list, tuple)):
        out = []
        for x in v:
            out += arrays_of(x)
        return out
    return []


def line_slices(rng, axis):
    """slices per the property's grammar for a line axis"""
    n = len(axis)
    d = axis[1] - axis[0]
    out = [slice(None, None, None)]
    for _ in range(6):
        a, b = sorted(rng.choice(n, size=2, replace=False).tolist())
        k = int(rng.choice([1, 1, 2, 3]))
        start = [None, axis[a]][int(rng.integers(2))]
        stop = [None, axis[b]][int(rng.integers(2))]
        step = [None, k * d][int(rng.integers(2))]
        if step is None and d < 0:
            # forward slice in segyio's sense: ascending numbers
            start, stop = (None if start is None else axis[b]), (None if stop is None else axis[a])
        out.append(slice(start, stop, step))
    return out


def N(v):
    return 'N' if v is None else str(int(v))


def cpython_slices(ctx, model, rng):
    """K: Model/Emul.sliceIndices / pyRange vs CPython's slice.indices / range"""
    for _ in range(ctx.n(400, 20000)):
        L = int(rng.integers(0, 12))
        a, b = (int(x) for x in rng.integers(-L - 3, L + 4, size=2))
        st = int(rng.choice([1, 2, 3, -1, -2, -3, 5, 0])) if rng.random() < .9 else 0
        a = [None, a][int(rng.integers(2))]
        b = [None, b][int(rng.integers(2))]
        st = [None, st][int(rng.integers(2))]
        ctx.stats['corr_requests'] += 1
        try:
            t = slice(a, b, st).indices(L)
            real = f'{t[0]} {t[1]} {t[2]}'
            rr = ' '.join(str(v) for v in range(*t))
        except ValueError:
            real, rr = 'err', None
        m = model.ask(f'emul indices {N(a)} {N(b)} {N(st)} {L}')
        if m != real:
            ctx.corr_fail('Model.Emul/sliceIndices', f'emul indices {N(a)} {N(b)} {N(st)} {L}', m, real)
        elif rr is not None:
            m2 = model.ask('emul range ' + real)
            if m2 != rr:
                ctx.corr_fail('Model.Emul/pyRange', 'emul range ' + real, m2, rr)


def visited(acc, sub):
    """the keys / ordinals an accessor hands to its read method for this subscript"""
    orig = acc.values_function
    acc.values_function = lambda v: int(v)
    try:
        out = list(acc[sub])
        # (an accessor that does not go through values_function hands back real items: reported as such, the model's answer
        #  is then compared with nothing it could equal)
        return [int(v) if isinstance(v, (int, np.integer)) else f'<{type(v).__name__}>' for v in out]
    finally:
        acc.values_function = orig


def model_subscripts(ctx, model, rng, fz, fy, il, xl, n, desc):
    """K: Model/Emul.lineSlice (= accessors.SliceAccessor) and Segyio.lineSlice (= segyio.Line.ranges), and
    Emul.accessorSlice (= accessors.Accessor) vs the two implementations"""
    for nm, axis, accz, accy in (('iline', il, fz.iline, fy.iline), ('xline', xl, fz.xline, fy.xline)):
        d = axis[1] - axis[0]
        subs = line_slices(rng, axis)
        # beyond the property's grammar too (bounds that are not line numbers, steps that are not multiples): the model
        # must still agree with what both implementations do
        for _ in range(4):
            a, b = (int(x) for x in rng.integers(min(axis) - 3, max(axis) + 4, size=2))
            st = int(rng.choice([1, 2, -1, -2, d, -d, 3]))
            subs.append(slice([None, a][int(rng.integers(2))], [None, b][int(rng.integers(2))], [None, st][int(rng.integers(2))]))
        for sl in subs:
            ctx.stats['corr_requests'] += 1
            req = f"emul line {','.join(str(v) for v in axis)} {N(sl.start)} {N(sl.stop)} {N(sl.step)}"
            ans = model.ask(req)
            try:
                rz = ' '.join(str(v) for v in visited(accz, sl))
            except Exception as e:  # noqa
                rz = 'err'
            try:
                ry = ' '.join(str(int(v)) for v in accy.ranges(sl, accy.default_offset)[0])
            except Exception as e:  # noqa
                ry = 'err'
            if ans != f'{rz} | {ry}':
                ctx.corr_fail('Model.Emul/lineSlice', req, ans, f'{rz} | {ry}', dict(desc, accessor=nm))
    T = n[0] * n[1]
    for nm, L, acc in (('depth_slice', n[2], fz.depth_slice), ('trace', T, fz.trace), ('header', T, fz.header)):
        for _ in range(5):
            a, b = (int(x) for x in rng.integers(-L - 2, L + 3, size=2))
            st = int(rng.choice([1, 2, 3, -1, -2]))
            sl = slice([None, a][int(rng.integers(2))], [None, b][int(rng.integers(2))], [None, st][int(rng.integers(2))])
            ctx.stats['corr_requests'] += 1
            req = f'emul acc {L} {N(sl.start)} {N(sl.stop)} {N(sl.step)}'
            ans = model.ask(req)
            rz = ' '.join(str(v) for v in visited(acc, sl))
            if ans != rz:
                ctx.corr_fail('Model.Emul/accessorSlice', req, ans, rz, dict(desc, accessor=nm))


def run(ctx):
    rng = gen.rng_for(ctx.seed, 'c13')
    model = core.Model()
    try:
        cpython_slices(ctx, model, rng)
        for k in range(ctx.n(16, 300)):
            n = (int(rng.integers(3, 8)), int(rng.integers(3, 8)), int(rng.integers(3, 12)))
            arr = gen.cube(rng, n, rare=False)   # (positions are recognised by value: see gen.cube)
            il0, xl0 = int(rng.integers(1, 60)), int(rng.integers(1, 600))
            ils = int([1, -1, 2, -2, 3, -3][k % 6])
            xls = int([1, 2, -1, -3, 1, 4][(k // 2) % 6])
            if ils < 0:
                il0 += -ils * n[0]
            if xls < 0:
                xl0 += -xls * n[1]
            if k % 4 == 3:
                # an axis whose lowest line number is exactly 0, or below 0 (slice bounds and Python's negative-index
                # conventions meet there)
                low = 0 if k % 8 == 3 else -2 * abs(ils)
                il0 = low if ils > 0 else low - ils * (n[0] - 1)
                lowx = 0 if k % 8 == 7 else -abs(xls)
                xl0 = lowx if xls > 0 else lowx - xls * (n[1] - 1)
            il = [il0 + ils * i for i in range(n[0])]
            xl = [xl0 + xls * j for j in range(n[1])]
            plan = mksegy.header_plan(rng, n_fields=3)
            plan.set_final(n[0] * n[1] - 1)
            sgy, sgz = ctx.path('m.sgy'), ctx.path('m.sgz')
            mksegy.make_segy(sgy, arr, ilines=il, xlines=xl, fmt=5, dt_us=int(rng.choice([4000, 2000, 1000])),
                             t0=int(rng.choice([0, 100])), headers=plan)
            conv.segy_to_sgz(sgy, sgz, 64, (4, 4, -1), header_detection='exhaustive')
            desc = {'n': n, 'il': il, 'xl': xl}
            with segyio.open(sgy) as fy, seismic_zfp.open(sgz) as fz:
                vol = fz.read_volume()
                model_subscripts(ctx, model, rng, fz, fy, il, xl, n, desc)
                exprs = []
                T = n[0] * n[1]
                for nm, axis, getter in (('iline', il, lambda f: f.iline), ('xline', xl, lambda f: f.xline)):
                    g = getter
                    for v in (axis[0], axis[-1], axis[len(axis) // 2]):
                        exprs.append((f'{nm}[{v}]', lambda f, g=g, v=v: g(f)[v]))
                    absent = [axis[0] - abs(axis[1] - axis[0]), max(axis) + 1000] + \
                             ([axis[0] + (1 if axis[1] > axis[0] else -1)] if abs(axis[1] - axis[0]) > 1 else [])
                    for v in absent:
                        exprs.append((f'{nm}[{v}] (absent)', lambda f, g=g, v=v: g(f)[v]))
                    for s in line_slices(rng, axis):
                        exprs.append((f'{nm}[{s.start}:{s.stop}:{s.step}]', lambda f, g=g, s=s: [np.copy(x) for x in g(f)[s]]))
                    exprs.append((f'list({nm})', lambda f, g=g: [np.copy(x) for x in g(f)]))
                    exprs.append((f'len({nm})', lambda f, g=g: len(g(f))))
                for nm, L, getter in (('depth_slice', n[2], lambda f: f.depth_slice), ('trace', T, lambda f: f.trace),
                                      ('header', T, lambda f: f.header)):
                    g = getter
                    for v in (0, L - 1, -1, -L, int(rng.integers(L)), L, -L - 1, L + 5):
                        exprs.append((f'{nm}[{v}]', lambda f, g=g, v=v: (g(f)[v] if nm != 'header' else dict(g(f)[v]))))
                    for _ in range(4):
                        a, b = (int(x) for x in rng.integers(-L - 2, L + 3, size=2))
                        st = int(rng.choice([1, 2, 3, -1, -2]))
                        a = [None, a][int(rng.integers(2))]
                        b = [None, b][int(rng.integers(2))]
                        st = [None, st][int(rng.integers(2))]
                        if nm == 'header':
                            exprs.append((f'{nm}[{a}:{b}:{st}]', lambda f, g=g, a=a, b=b, st=st: [dict(x) for x in g(f)[a:b:st]]))
                        else:
                            exprs.append((f'{nm}[{a}:{b}:{st}]', lambda f, g=g, a=a, b=b, st=st: [np.copy(x) for x in g(f)[a:b:st]]))
                    exprs.append((f'len({nm})', lambda f, g=g: len(g(f))))
                fld = int([c for c, kk, _ in plan.plan][0]) if plan.plan else 189
                exprs += [('ilines', lambda f: np.asarray(f.ilines)), ('xlines', lambda f: np.asarray(f.xlines)),
                          ('samples', lambda f: np.asarray(f.samples)), ('tracecount', lambda f: f.tracecount),
                          ('attributes(INLINE_3D)[:]', lambda f: np.asarray(f.attributes(189)[:])),
                          (f'attributes({fld})[2:7:2]', lambda f: np.asarray(f.attributes(fld)[2:7:2])),
                          (f'attributes({fld})[3]', lambda f: np.asarray(f.attributes(fld)[3]).reshape(-1)),
                          ('bin', lambda f: dict(f.bin)), ('text[0]', lambda f: bytes(f.text[0])),
                          ('unstructured', lambda f: bool(f.unstructured))]
                for name, ex in exprs:
                    a, b = evaluate(fz, ex), evaluate(fy, ex)
                    ctx.case((tuple(il[:2]), tuple(xl[:2]), n, name), sample={'cube': desc, 'expr': name, 'segyio': b[0]})
                    ctx.stats['expr_' + name.split('[')[0].split('(')[0]] += 1
                    ctx.stats['outcome_' + b[0]] += 1
                    d = dict(desc, expr=name)
                    if b[0] == 'crash':
                        continue
                    if a[0] != b[0]:
                        ctx.fail(f'{name}: seismic_zfp {a[0]} ({a[1] if a[0] != "ok" else canon(a[1])[:2]}), segyio {b[0]} '
                                 f'({b[1] if b[0] != "ok" else canon(b[1])[:2]})', d)
                        continue
                    if a[0] != 'ok':
                        continue
                    ca, cb = canon(a[1]), canon(b[1])
                    if name in ('samples',):
                        if not np.allclose(a[1], b[1]):
                            ctx.fail(f'{name} differ', d)
                    elif name.startswith('text'):
                        pass  # text is decoded differently (bytearray of ascii vs bytes): kind compared below
                    elif name in ('ilines', 'xlines') or name.startswith('attributes'):
                        if not np.array_equal(np.asarray(a[1]).astype(np.int64), np.asarray(b[1]).astype(np.int64)):
                            ctx.fail(f'{name}: values differ from segyio: {np.asarray(a[1]).ravel()[:5].tolist()} vs '
                                     f'{np.asarray(b[1]).ravel()[:5].tolist()}', d)
                    elif ca != cb:
                        ctx.fail(f'{name}: structure differs from segyio: {str(ca)[:120]} vs {str(cb)[:120]}', d)
                    else:
                        # samples must be the SGZ's own decoded values at the positions segyio's result denotes:
                        # compare arrays with the closest slice of the decoded volume via segyio's own values (codec error is
                        # tiny at 16 bits): position check by correlation of exact equality with the volume
                        za, ya = arrays_of(a[1]), arrays_of(b[1])
                        for x, y in zip(za, ya):
                            if x.shape != y.shape or not np.allclose(x, y, rtol=1e-3, atol=1e-2 * max(1.0, float(np.abs(y).max()))):
                                ctx.fail(f'{name}: samples are not those segyio returns for the same expression (line order / '
                                         f'position differs)', d)
                                break
                # tools
                dtz, dty = seismic_zfp.tools.dt(fz), segyio.tools.dt(fy)
                ctx.case((tuple(il[:2]), n, 'tools.dt'))
                if abs(dtz - dty) > 1e-6 * max(1.0, abs(dty)):
                    ctx.fail(f'tools.dt {dtz} != segyio {dty}', desc)
            cz = seismic_zfp.tools.cube(sgz)
            ctx.case((tuple(il[:2]), n, 'tools.cube'))
            if cz.shape != tuple(n) or not np.array_equal(cz, vol):
                ctx.fail('tools.cube differs from the decoded volume', desc)
        # subvolume[a:b:c, ...] by line numbers / sample times (steps in axis order, axes ascending, descending, through 0):
        # samples vs the decoded volume, and K: Model/Emul.subvolumeAxis vs the accessor's helpers
        from . import c02_emul
        c02_emul.run(ctx, gen.rng_for(ctx.seed, 'c13-subvolume'), model, n_quick=12, n_thorough=150)
    finally:
        model.close()


def replay(ctx, rp):
    run(ctx)
