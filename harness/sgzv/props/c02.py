"""C02 — access-path coherence (DESIGN.md section 8)."""
import glob
import os

import numpy as np

from .. import env, core, gen, files, readcheck, readops, spec, symcodec
from seismic_zfp.read import SgzReader  # noqa: E402

ASSUMPTIONS = ["A1 (codec cellwise) validated in-run against zfpy", "A2 segyio",
               "model Sgz.Model.{Geo,Loader,Reader} is tied to read.py/loader.py by this run's correspondence only"]
RULE = ("synthetic SGZ files (spec encoder; symbolic data section: unit j decodes to (j+1)*64+pos) over every layout class, "
        "2D, irregular and old format versions x in-range ops of every read path with bounds on residues mod 4 and mod the "
        "blockshape; each op = one case, distinct by (geometry, layout, rate, op); non-trivial: the op returns >=1 sample. "
        "Compared: real reader vs slice of the spec address function (oracle) and vs the Lean model (status, shape, "
        "provenance of every element). Plus fixtures of test_data with the real codec vs the spec decoder.")


def fixtures(ctx):
    """real codec: every read path of every fixture vs the spec decoder's volume (independent cell-by-cell decode)"""
    for p in sorted(glob.glob(os.path.join(env.REPO, 'test_data', '*.sgz'))):
        name = os.path.basename(p)
        h, _ = spec.read_header(p)
        if name == 'small_v0.0.1.sgz':
            continue  # one header block, no size fields: predates the specification (read via legacy rules only)
        vol = spec.decode_volume(p, cellwise=True)
        lay = h.layout()
        V = np.zeros(lay.P, dtype=np.float32)
        if lay.is2d:
            V[0, :vol.shape[0], :vol.shape[1]] = vol
        else:
            V[:vol.shape[0], :vol.shape[1], :vol.shape[2]] = vol
        mask = None
        if not lay.is2d and h.tracecount != h.n_il * h.n_xl:
            mask = spec.read_footer_arrays(p)[189] != 0
        fi = readops.FileInfo(lay, il=(h.il0, h.dil), xl=(h.xl0, h.dxl),
                              z=(h.z0, h.dz if h.microseconds else h.dz * 1000), tracecount=h.tracecount, mask=mask,
                              volume=V)
        rng = gen.rng_for(ctx.seed, 'fx', name)
        with SgzReader(p) as r:
            for op in readcheck.in_range_ops(rng, fi, 2):
                got = readops.outcome(r, op)
                want = readops.expected(fi, op)
                ctx.case((name, op), sample=None)
                ctx.stats['fixture_ops'] += 1
                if got[0] != 'ok' or not readops.same(np.asarray(got[1], dtype=np.float32),
                                                      np.asarray(want[1], dtype=np.float32)):
                    ctx.fail(f'fixture {name}: read {op} is not the slice of the specification decode',
                             {'fixture': name, 'op': op, 'got': got[0]})


def run(ctx):
    bad = symcodec.check_codec_assumption(np.random.default_rng(ctx.seed))
    bad += symcodec.check_codec_assumption(np.random.default_rng(ctx.seed), d3=False)
    if bad:
        ctx.assumption_failures.append({'assumption': 'A1', 'detail': bad})
    model = core.Model()
    rng = gen.rng_for(ctx.seed, 'c02')
    n_files = ctx.n(60, 1500)
    try:
        for fi in files.read_files(ctx, rng, n_files, max_voxels=ctx.n(40_000, 150_000), versions=True):
            s = readcheck.ReadSession(fi)
            try:
                readcheck.check_ops(ctx, model, s, readcheck.in_range_ops(rng, fi, ctx.n(3, 6)) + [('vol',)]
                                    if not fi.is2d else readcheck.in_range_ops(rng, fi, 4), props=('C02',))
            finally:
                s.close()
        fixtures(ctx)
        from . import c02_emul
        c02_emul.run(ctx, rng, model)
        # K: virtual files beyond 4 GiB / 65535 lines / 2^31 bytes (hugecheck): every returned element vs the model
        from .. import hugecheck
        hugecheck.run(ctx, model, gen.rng_for(ctx.seed, 'c02-huge'), wide=False)
    finally:
        model.close()


def replay(ctx, rp):
    run(ctx)
