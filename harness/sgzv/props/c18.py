"""C18 — partial files."""
import builtins
import os

import numpy as np
import segyio

from .. import env, core, gen, conv, spec, mksegy, readops, readcheck
from seismic_zfp.read import SgzReader  # noqa: E402

ASSUMPTIONS = ["A5: a crash leaves a state of the write-log model: byte prefix of the appended stream (header, blocks, footer "
               "arrays; Python's buffered writer may split or merge writes) plus in-place patches (array count, table, hash) "
               "applied whole, partly or not at all in program order; the buffered footer may reach the disk after the hash patch",
               "the 20-byte source hash is not a sample or header (its correctness on complete files is C20)"]
RULE = ("real conversions (NumPy route; SEG-Y route with heuristic / thorough / exhaustive / strip detection, incl. all-constant "
        "headers) with the write log captured at the file objects x crash states: prefixes of the appended stream at every write "
        "boundary and cuts inside writes, each in-place patch applied partly / wholly, footer prefix independent of the hash "
        "patch; plus byte truncations of the finished file (thorough: every length of small files) x every read path (samples, "
        "trace headers, tracefield arrays, text/binary file headers): the partial file must fail to open / the call must raise, "
        "or return exactly what the complete file returns"
        "; K: Lean truncRaises verdict for every sample read on every crash state vs what the real call did")


class WriteLog:
    def __init__(self, out_path):
        self.out = str(out_path)
        self.events = []   # (handle_no, mode, position, bytes)
        self.ops = []      # every state-changing file operation in program order: ('write', pos, bytes) | ('truncate', size)
        self.n = 0
        self.real_open = builtins.open

    def __enter__(self):
        log = self

        class H:
            def __init__(self, f, no, mode):
                self.f, self.no, self.mode, self.name = f, no, mode, f.name

            def write(self, b):
                log.events.append((self.no, self.mode, self.f.tell(), bytes(b)))
                log.ops.append(('write', self.f.tell(), bytes(b)))
                return self.f.write(b)

            def truncate(self, size=None):
                size = self.f.tell() if size is None else int(size)
                log.ops.append(('truncate', size))
                return self.f.truncate(size)

            def __getattr__(self, k):
                return getattr(self.f, k)

            def __enter__(self):
                return self

            def __exit__(self, *a):
                self.f.close()

        def open_(path, mode='r', *a, **k):
            f = log.real_open(path, mode, *a, **k)
            if str(path) == log.out and ('w' in mode or '+' in mode):
                log.n += 1
                log.ops.append(('open', mode))      # ('w' truncates what was at the path; 'r+' keeps it)
                return H(f, log.n, mode)
            return f
        builtins.open = open_
        return self

    def __exit__(self, *a):
        builtins.open = self.real_open


def crash_states(events, rng, quick):
    """yield (label, bytes) of partial files reachable under the write-log model"""
    appends = [e for e in events if e[1] == 'wb']
    patches = [e for e in events if e[1] != 'wb']
    stream = b''.join(e[3] for e in appends)
    bounds = np.cumsum([len(e[3]) for e in appends]).tolist()
    # which appended writes happen before the first patch in program order (header + blocks), which after (footer)
    first_patch = events.index(patches[0]) if patches else len(events)
    pre = sum(len(e[3]) for e in events[:first_patch] if e[1] == 'wb')
    total = len(stream)
    # S1: prefixes of header+blocks
    cuts = sorted(set([0, 1, 100, 4095, 4096, 4097, 8191, 8192, 8193] + [b for b in bounds if b <= pre]
                      + [b - 1 for b in bounds if 0 < b <= pre] + [b + 17 for b in bounds if b + 17 < pre]
                      + rng.integers(0, max(pre, 1), size=(3 if quick else 12)).tolist()))
    for L in cuts:
        if 0 <= L <= pre:
            yield (f'append-prefix {L}/{total}', stream[:L])
    # S2: after the loop: patches in order, footer prefix independent
    base = bytearray(stream[:pre])
    foot_cuts = sorted(set([0, 1, total - pre] + [b - pre for b in bounds if b > pre] + [b - pre - 3 for b in bounds if b - 3 > pre]
                           + rng.integers(0, max(total - pre, 1), size=(2 if quick else 8)).tolist()))
    foot_cuts = [c for c in foot_cuts if 0 <= c <= total - pre]
    cur = bytearray(base)
    staged = [('no patch', bytes(cur))]
    for (no, mode, pos, data) in patches:
        pcuts = sorted(set([1, len(data) // 2, len(data) - 1] + ([12 * 40, 12 * 40 + 5, 12 * 88] if len(data) > 1000 else [])))
        for c in pcuts:
            if 0 < c < len(data):
                t = bytearray(cur)
                t[pos:pos + c] = data[:c]
                staged.append((f'patch@{pos} cut {c}/{len(data)}', bytes(t)))
        cur[pos:pos + len(data)] = data
        staged.append((f'patch@{pos} whole', bytes(cur)))
    # footer begins (in program order) after the table patches; the hash patch comes after the footer writes but can
    # reach the disk before them
    footer_start_stage = 0
    for i, (lab, _) in enumerate(staged):
        if 'patch@980 whole' in lab:
            footer_start_stage = i
    for i, (lab, b) in enumerate(staged):
        if i < footer_start_stage:
            yield (lab, b)
        else:
            for f in foot_cuts:
                yield (f'{lab} + footer {f}/{total - pre}', b + stream[pre:pre + f])


def op_prefix_states(ops, initial=b''):
    """the file as it is on disk after each prefix of the operations performed on it (writes at their positions, truncate /
    pre-allocation included: a hole reads as zeros), starting from what was at the path before (`initial`)"""
    cur = bytearray(initial)
    yield ('0 operations', bytes(cur))
    for k, op in enumerate(ops):
        if op[0] == 'open':
            if 'w' in op[1]:
                del cur[:]
            continue
        if op[0] == 'write':
            pos, data = op[1], op[2]
            if pos > len(cur):
                cur.extend(bytes(pos - len(cur)))
            cur[pos:pos + len(data)] = data
        else:
            size = op[1]
            if size < len(cur):
                del cur[size:]
            else:
                cur.extend(bytes(size - len(cur)))
        yield (f'after {k + 1}/{len(ops)} file operations ({op[0]})', bytes(cur))


def copy_case(ctx, rng, model, kind, cnum):
    """interrupted *copies*: the cropper and the re-blocker write their output through the same kind of write sequence"""
    from seismic_zfp.cropping import SgzCropper
    from seismic_zfp.conversion import SgzConverter
    n = (int(rng.integers(5, 9)), int(rng.integers(5, 9)), int(rng.integers(5, 12)))
    arr = gen.cube(rng, n)
    src = ctx.path('copysrc.sgz')
    hd = {181: rng.integers(-99, 99, size=n[:2]), 185: rng.integers(-2 ** 31, 2 ** 31 - 1, size=n[:2])}
    if kind == 'reblock':
        conv.numpy_to_sgz(arr, src, 8, (4, 4, 1024), trace_headers=hd)
    else:
        conv.numpy_to_sgz(arr, src, [32, 16][cnum % 2], (4, 4, -1), trace_headers=hd)
    out = ctx.path('copy.sgz')
    with WriteLog(out) as wl:
        if kind == 'reblock':
            with SgzConverter(src) as c:
                env.quiet(c.convert_to_adv_sgz, out)
        else:
            with SgzCropper(src) as c:
                env.quiet(c.write_cropped_file_by_indexes, out, (0, n[0]), (0, 4), None)
    full = open(out, 'rb').read()
    with SgzReader(out) as r:
        tcount = r.tracecount
    lay = spec.read_header(out)[0].layout()
    fi = readops.FileInfo(lay)
    ops = [o for o in readcheck.in_range_ops(rng, fi, 1) if o[0] not in ('ilno', 'xlno', 'zsc', 'trc')][:10]
    fields = list(spec.FIELDS)
    truth = probe(out, ops, fields, tcount)
    desc = {'route': kind, 'n': lay.n, 'bs': lay.bs, 'file_operations': [(o[0], o[1] if o[0] in ('truncate', 'open') else (o[1], len(o[2]))) for o in wl.ops][:14]}
    states = list(op_prefix_states(wl.ops))[:-1]
    if len(states) > 40:
        keep = sorted(set([0, 1, 2, 3, len(states) - 1, len(states) - 2, len(states) - 3] + rng.integers(0, len(states), size=20).tolist()))
        states = [states[j] for j in keep]
    tr = sorted(set([len(full) - 1, len(full) - 512, 8192, 4096] + rng.integers(1, len(full), size=4).tolist()))
    states += [(f'truncate {L}/{len(full)}', full[:L]) for L in tr if 0 < L < len(full)]
    part = ctx.path('partial.sgz')
    for label, content in states:
        with open(part, 'wb') as f:
            f.write(content)
        got = probe(part, ops, fields, tcount)
        ctx.case((cnum, kind, label), sample={'case': desc, 'state': label, 'open': got['open'][0]} if len(ctx.samples) < 8 else None)
        ctx.stats['states'] += 1
        ctx.stats['copy_states_' + kind] += 1
        if got['open'][0] != 'ok':
            continue
        for k, v in got.items():
            if v[0] == 'ok' and v != truth.get(k):
                ctx.fail(f'partial {kind} output ({label}): {k} returned a value that differs from the complete file\'s',
                         {'case': desc, 'state': label, 'call': k})
                break


def probe(path, ops, fields, tcount, extra_hdr=(), **reader_kw):
    """outcomes of every read path on the file at `path`"""
    out = {}
    try:
        r = SgzReader(path, **reader_kw)
    except Exception as e:  # noqa
        return {'open': ('raised', type(e).__name__)}
    try:
        out['open'] = ('ok',)
        for op in ops:
            g = readops.outcome(r, op)
            out[op] = ('raised',) if g[0] != 'ok' else ('ok', np.asarray(g[1]).shape, np.asarray(g[1]).astype(np.float64).tobytes())
        for t in sorted(set([0, tcount - 1, tcount // 2] + [int(v) for v in extra_hdr if 0 <= int(v) < tcount])):
            try:
                h = r.gen_trace_header(t)
                # (a value that is not an integer - None, say - is kept as it is: it is a returned value, not a refusal)
                out[('hdr', t)] = ('ok', tuple(sorted((int(a), int(b) if isinstance(b, (int, np.integer)) else repr(b))
                                                      for a, b in h.items())))
            except Exception:
                out[('hdr', t)] = ('raised',)
        for f in fields:
            try:
                r.clear_variant_headers()
                out[('tfv', f)] = ('ok', np.asarray(r.get_tracefield_values(f)).tobytes())
            except Exception:
                out[('tfv', f)] = ('raised',)
        try:
            out['text'] = ('ok', bytes(r.get_file_text_header()[0]))
            out['bin'] = ('ok', tuple(sorted((int(a), int(b)) for a, b in dict(r.get_file_binary_header()).items())))
        except Exception:
            out['text'] = out['bin'] = ('raised',)
    finally:
        try:
            r.close()
        except Exception:
            pass
    return out


def run(ctx):
    model = core.Model()
    try:
        run_(ctx, model)
    finally:
        model.close()


def run_(ctx, model):
    rng = gen.rng_for(ctx.seed, 'c18')
    for cnum, kind in enumerate(['reblock', 'crop'] * (ctx.n(1, 8))):
        copy_case(ctx, rng, model, kind, cnum)
    cases = [('numpy', None), ('segy', 'heuristic'), ('segy', 'thorough'), ('segy', 'exhaustive'), ('segy', 'strip'),
             ('segy-const', 'thorough'), ('2d', 'heuristic')]
    if not ctx.quick:
        cases = cases * 6
    for cnum, (route, mode) in enumerate(cases):
        n = (int(rng.integers(3, 7)), int(rng.integers(3, 7)), int(rng.integers(5, 20)))
        if route == '2d':
            n = (1, int(rng.integers(5, 22)), n[2])
        arr = gen.cube(rng, n)
        out = ctx.path('full.sgz')
        q, bs = [(32, (4, 4, -1)), (16, None), (64, (8, 8, -1))][cnum % 3]
        if route in ('2d', 'segy-const'):
            bs = None
        # (every other case: an older, longer, complete SGZ file of another survey is at the output path already; a
        #  conversion stopped early must not leave a file that answers with that survey's samples or headers)
        old_bytes = b''
        if cnum % 2 == 1:
            oldp = ctx.path('older_survey.sgz')
            if not os.path.exists(oldp):
                conv.numpy_to_sgz(gen.cube(np.random.default_rng(11), (9, 9, 40), rare=False), oldp, 64, (4, 4, -1),
                                  trace_headers={181: np.arange(81).reshape(9, 9) + 5000, 185: np.arange(81).reshape(9, 9) - 7})
            old_bytes = open(oldp, 'rb').read()
            with open(out, 'wb') as f:
                f.write(old_bytes)
        with WriteLog(out) as wl:
            if route == 'numpy':
                hd = {181: rng.integers(-99, 99, size=n[:2]), 185: rng.integers(-2 ** 31, 2 ** 31 - 1, size=n[:2])}
                conv.numpy_to_sgz(arr, out, q, bs or (4, 4, -1), trace_headers=hd)
            else:
                sgy = ctx.path('src.sgy')
                plan = None if route == 'segy-const' else mksegy.header_plan(rng, n_fields=4)
                if plan:
                    plan.set_final(n[0] * n[1] - 1)
                if route == 'segy-const':
                    # every header field constant: no stored array at all after 'thorough' demotion
                    mksegy.make_segy(sgy, arr, two_d=True, fmt=5)
                else:
                    mksegy.make_segy(sgy, arr, fmt=5, headers=plan, two_d=(route == '2d'))
                conv.segy_to_sgz(sgy, out, q, bs if route != 'segy-const' else None, header_detection=mode)
        full = open(out, 'rb').read()
        with SgzReader(out) as r:
            is2d, tcount = r.is_2d, r.tracecount
            # every one of the 89 fields is probed: a field that is constant in the finished file (KeyError) must not
            # read as an array from a partial file either
            fields = list(spec.FIELDS)
            n_real = (1, tcount, r.n_samples) if is2d else (r.n_ilines, r.n_xlines, r.n_samples)
        lay = spec.read_header(out)[0].layout()
        fi = readops.FileInfo(lay)
        ops = [o for o in readcheck.in_range_ops(rng, fi, 1) if o[0] not in ('ilno', 'xlno', 'zsc', 'trc')]
        ops = ops[:10]
        truth = probe(out, ops, fields, tcount)
        desc = {'route': route, 'mode': mode, 'n': n_real, 'q': q, 'bs': lay.bs, 'writes': [(e[0], e[1], e[2], len(e[3])) for e in wl.events][:14]}
        # K: Model/WriteOrder.shape - the kinds of the file operations in program order (append at the end / in-place patch
        # at an offset): in `thorough` mode count and table are patched before the first footer array is appended
        cur, kinds = 0, []
        for o in wl.ops:
            if o[0] == 'open':
                continue
            if o[0] != 'write':
                kinds.append('T')
            elif o[1] == cur:
                kinds.append('A')
                cur += len(o[2])
            elif o[1] + len(o[2]) <= cur:
                kinds.append(f'P{o[1]}')
            else:
                kinds.append(f'X{o[1]}')
        n_arrays = spec.read_header(out)[0].n_arrays if hasattr(spec.read_header(out)[0], 'n_arrays') else len(spec.read_footer_arrays(out))
        n_blocks = kinds.count('A') - 1 - n_arrays
        ctx.stats['corr_requests'] += 1
        want = model.ask(f"worder {1 if mode == 'thorough' else 0} {max(n_blocks, 0)} {n_arrays}")
        if want != ' '.join(kinds):
            ctx.corr_fail('Model.WriteOrder', f"worder {mode} blocks={n_blocks} arrays={n_arrays}", want[:200], ' '.join(kinds)[:200], desc)
        part = ctx.path('partial.sgz')
        states = list(crash_states(wl.events, rng, ctx.quick))
        if any(o[0] == 'truncate' for o in wl.ops):
            states += list(op_prefix_states(wl.ops))[:-1]
        if old_bytes:
            over = list(op_prefix_states(wl.ops, initial=old_bytes))[1:-1]
            states += [('over an older file: ' + lab, b) for lab, b in over if b != full]
            desc['older_file_at_output_path'] = len(old_bytes)
        # byte truncations of the finished file
        tr = sorted(set([len(full) - 1, len(full) - 4, len(full) - 512, 8192, 8191, 4096] + rng.integers(1, len(full), size=(ctx.n(6, 60))).tolist()))
        states += [(f'truncate {L}/{len(full)}', full[:L]) for L in tr if 0 < L < len(full)]
        # cuts inside the footer that split one 4-byte header value (every residue of the cut length modulo 4), with the
        # header of the trace whose value is split, and of its neighbours, among the reads probed
        hd0 = spec.read_header(out)[0]
        straddle = {}
        if hd0.n_arrays:
            f0 = hd0.footer_offset(0)
            for _ in range(ctx.n(6, 40)):
                j = hd0.n_arrays - 1 if rng.random() < .7 else int(rng.integers(hd0.n_arrays))   # (mostly the last array: with an
                # earlier one cut, every look-up already fails on the arrays behind it)
                p_ = int(rng.integers(0, max(1, hd0.array_bytes // 4)))
                L = f0 + j * hd0.stride + 4 * p_ + int(rng.integers(1, 4))
                if 0 < L < len(full):
                    states.append((f'truncate {L}/{len(full)} (inside value {p_} of footer array {j})', full[:L]))
                    straddle[len(states) - 1] = [p_ - 1, p_, p_ + 1]
        truth_all = probe(out, ops, fields, tcount, extra_hdr=range(tcount) if tcount <= 400 else ())
        for si, (label, content) in enumerate(states):
            with open(part, 'wb') as f:
                f.write(content)
            got = probe(part, ops, fields, tcount, extra_hdr=straddle.get(si, ()))
            ctx.case((cnum, route, mode, label), sample={'case': desc, 'state': label, 'open': got['open'][0]} if len(ctx.samples) < 6 else None)
            ctx.stats['states'] += 1
            ctx.stats['state_' + label.split()[0]] += 1
            ctx.stats['open_' + got['open'][0]] += 1
            # the same partial file through a reader that loads the whole data section when it opens (preload=True):
            # what it answers must again be what the complete file answers
            if si % 2 == cnum % 2 or label.startswith('truncate'):
                gotp = probe(part, ops, fields, tcount, extra_hdr=straddle.get(si, ()), preload=True)
                ctx.stats['states_preload'] += 1
                ctx.stats['preload_open_' + gotp['open'][0]] += 1
                for k, v in gotp.items():
                    if v[0] == 'ok' and v != truth_all.get(k, truth.get(k)):
                        ctx.fail(f'partial file ({label}), reader with preload=True: {k} returned a value that differs from '
                                 f'the complete file\'s', {'case': desc, 'state': label, 'call': k, 'preload': True})
                        break
            if got['open'][0] != 'ok':
                continue
            # K: the model's verdict (Lean `truncRaises`, theorem read_call_on_truncated_file) for every sample read on a
            # file of this length vs what the real call did: raises iff one of its range reads reaches beyond the cut
            for op in ops:
                req = readcheck.model_request(fi, op)
                if req is None or op not in got:
                    continue
                ctx.stats['corr_requests'] += 1
                verdict = model.ask(f'io trunc {spec.DISK * 2} {len(content)} ' + req[len('read '):])
                real = 'raise' if got[op][0] != 'ok' else 'value'
                if verdict != real:
                    ctx.corr_fail('Model.IO/truncRaises', f'io trunc {spec.DISK * 2} {len(content)} {req}', verdict, real,
                                  {'case': desc, 'state': label, 'call': op})
            for k, v in got.items():
                if v[0] == 'ok' and v != truth_all.get(k, truth.get(k)):
                    ctx.fail(f'partial file ({label}): {k} returned a value that differs from the complete file\'s',
                             {'case': desc, 'state': label, 'call': k})
                    break


def replay(ctx, rp):
    run(ctx)
