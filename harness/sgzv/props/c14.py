"""C14 — bounds safety."""
from .. import env, core, gen, files, readcheck

ASSUMPTIONS = ["empty and inverted ranges/windows count as out of range (DESIGN.md C14 scoping)",
               "model Sgz.Model.Reader guards tied to read.py by this run's correspondence only"]
RULE = ("synthetic files (3D all layouts, irregular, 2D) x argument tuples with >=1 component outside its valid range: just "
        "outside, far outside, negative, inside the padded but outside the real extent, empty and reversed ranges, for every "
        "read path; the real reader must raise IndexError / the dimensionality error (class compared with the model's), and "
        "anything returned must be the real item (provenance under the symbolic decoder)"
        "; K: Model/HeaderReads.run vs real header histories with ordinals at / beyond the trace count and the grid, either padding mode")


def emulator_ordinals(ctx, rng):
    """the segyio-style accessors on 3D, irregular and 2D files (with and without stored header arrays): ordinals -L-1, L and
    far outside must raise IndexError; -1 and -L denote the last and the first item"""
    import seismic_zfp
    from .. import synth
    for k in range(ctx.n(8, 80)):
        kind = ['2d', '2d', 'default', 'irregular'][k % 4]
        if kind == '2d':
            n, bs, q = (1, int(rng.integers(2, 40)), int(rng.integers(4, 30))), (1, 16, 512), 16
        else:
            n, bs, q = gen.geometry_3d(rng, klass='default', max_voxels=4000)
        fi = synth.make(ctx.path('eo.sgz'), n, bs, q, rng, is2d=(kind == '2d'), n_arrays=[0, 2][k % 2] if kind == '2d' else 2,
                        irregular=(kind == 'irregular'))
        T = fi.tracecount
        desc = {'kind': kind, 'n': n, 'tracecount': T, 'stored_arrays': sorted(fi.arrays)}
        with seismic_zfp.open(fi.path) as f:
            accs = [('header', f.header, T), ('trace', f.trace, T)] + ([('depth_slice', f.depth_slice, n[2])] if kind != '2d' else [])
            for name, acc, L in accs:
                for v in (-L - 1, L, L + 7, -L - 40, 2 ** 31):
                    ctx.case((kind, n, name, v))
                    ctx.stats['emulator_ordinals'] += 1
                    try:
                        acc[v]
                        ctx.fail(f'{name}[{v}] on a file with {L} items returned an item instead of raising IndexError',
                                 dict(desc, expr=f'{name}[{v}]'))
                    except IndexError:
                        pass
                    except Exception as e:  # noqa
                        ctx.fail(f'{name}[{v}] raised {type(e).__name__} instead of IndexError', dict(desc, expr=f'{name}[{v}]'))
                if name == 'header':
                    try:
                        if dict(acc[-1]) != dict(acc[L - 1]) or dict(acc[-L]) != dict(acc[0]):
                            ctx.fail('header[-1] / header[-L] are not the last / first header', desc)
                    except Exception as e:  # noqa
                        ctx.fail(f'header[-1] / header[-L] raised {type(e).__name__}', desc)


def run(ctx):
    model = core.Model()
    rng = gen.rng_for(ctx.seed, 'c14')
    n_files = ctx.n(60, 1500)
    try:
        for fi in files.read_files(ctx, rng, n_files, max_voxels=20_000):
            s = readcheck.ReadSession(fi)
            try:
                ops = readcheck.out_of_range_ops(rng, fi, ctx.n(2, 5)) + readcheck.in_range_ops(rng, fi, 1)
                ops += [('hdr', int(t)) for t in rng.integers(0, fi.tracecount, size=2)]
                readcheck.check_ops(ctx, model, s, ops, props=('C14', 'C02'))
                # the same header ordinals again on a reader that has first fetched whole tracefield arrays (and, once,
                # all headers): bounds must not depend on what the reader has cached
                hops = [o for o in ops if o[0] == 'hdr']
                if fi.arrays and hops:
                    s.cold()
                    for f_ in sorted(fi.arrays):
                        s.run(('tfv', f_), cold=False)
                    readcheck.check_ops(ctx, None, s, hops, props=('C14', 'C02'), cold=False, tag='after-tracefield-prefetch')
                    s.run(hops[-1], cold=False)
                    readcheck.check_ops(ctx, None, s, hops, props=('C14', 'C02'), cold=False, tag='after-header-read')
            finally:
                s.close()
        emulator_ordinals(ctx, gen.rng_for(ctx.seed, 'c14-emulator'))
        # K: virtual files beyond 4 GiB with arguments just outside the extent and at 2^31 / 2^32 (+ extent)
        from .. import hugecheck
        hugecheck.run(ctx, model, gen.rng_for(ctx.seed, 'c14-huge'), blob_too=False, wide=False, beyond=True)
    finally:
        model.close()
    # K: the header-read state machine (Model/HeaderReads) on histories with ordinals at and beyond the trace count / grid
    from . import c15
    c15.header_histories(ctx, n_quick=12, n_thorough=200, tag='c14-headers')


def replay(ctx, rp):
    run(ctx)
