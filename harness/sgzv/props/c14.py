"""C14 — bounds safety."""
from .. import env, core, gen, files, readcheck

ASSUMPTIONS = ["empty and inverted ranges/windows count as out of range (DESIGN.md C14 scoping)",
               "model Sgz.Model.Reader guards tied to read.py by this run's correspondence only"]
RULE = ("synthetic files (3D all layouts, irregular, 2D) x argument tuples with >=1 component outside its valid range: just "
        "outside, far outside, negative, inside the padded but outside the real extent, empty and reversed ranges, for every "
        "read path; the real reader must raise IndexError / the dimensionality error (class compared with the model's), and "
        "anything returned must be the real item (provenance under the symbolic decoder)"
        "; K: Model/HeaderReads.run vs real header histories with ordinals at / beyond the trace count and the grid, either padding mode")


def run(ctx):
    model = core.Model()
    rng = gen.rng_for(ctx.seed, 'c14')
    n_files = ctx.n(60, 1500)
    try:
        for fi in files.read_files(ctx, rng, n_files, max_voxels=20_000):
            s = readcheck.ReadSession(fi)
            try:
                ops = readcheck.out_of_range_ops(rng, fi, ctx.n(2, 5)) + readcheck.in_range_ops(rng, fi, 1)
                ops += [('hdr', int(t)) for t in rng.integers(0, fi.tracecount, size=2)]
                readcheck.check_ops(ctx, model, s, ops, props=('C14', 'C02'))
                # the same header ordinals again on a reader that has first fetched whole tracefield arrays (and, once,
                # all headers): bounds must not depend on what the reader has cached
                hops = [o for o in ops if o[0] == 'hdr']
                if fi.arrays and hops:
                    s.cold()
                    for f_ in sorted(fi.arrays):
                        s.run(('tfv', f_), cold=False)
                    readcheck.check_ops(ctx, None, s, hops, props=('C14', 'C02'), cold=False, tag='after-tracefield-prefetch')
                    s.run(hops[-1], cold=False)
                    readcheck.check_ops(ctx, None, s, hops, props=('C14', 'C02'), cold=False, tag='after-header-read')
            finally:
                s.close()
        # K: virtual files beyond 4 GiB with arguments just outside the extent and at 2^31 / 2^32 (+ extent)
        from .. import hugecheck
        hugecheck.run(ctx, model, gen.rng_for(ctx.seed, 'c14-huge'), blob_too=False, wide=False, beyond=True)
    finally:
        model.close()
    # K: the header-read state machine (Model/HeaderReads) on histories with ordinals at and beyond the trace count / grid
    from . import c15
    c15.header_histories(ctx, n_quick=12, n_thorough=200, tag='c14-headers')


def replay(ctx, rp):
    run(ctx)
