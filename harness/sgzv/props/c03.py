"""C03 — container conformance and version word."""
import os

import numpy as np
import segyio

from .. import derivedcorr, env, core, gen, conv, spec, mksegy, segycases, view, synth, symcodec
from seismic_zfp.version import SeismicZfpVersion  # noqa: E402
from seismic_zfp.read import SgzReader  # noqa: E402
from seismic_zfp.cropping import SgzCropper  # noqa: E402
from seismic_zfp.conversion import SgzConverter  # noqa: E402

ASSUMPTIONS = ["setuptools_scm's string grammar taken from its documentation (guess-next-dev + node-and-date)",
               "model Sgz.Model.Version tied to version.py by this run's correspondence (thorough: all 8 388 608 words)",
               "spec decoder written from docs/file-specification.md + the version conventions named by the property"]
RULE = ("(a) version: field boundaries, gate neighbours and seeded words (thorough: every word with major<4) through "
        "SeismicZfpVersion and the Lean model (decode, re-encode, both gates, comparison), every setuptools_scm string shape; "
        "(b) every writer (NumPy, SEG-Y regular/irregular/2D, cropper, re-blocker) and compositions convert->crop->re-block->"
        "export: file bytes judged by the spec decoder (dimensions, axes, rate, blockshape, trace count, block count = padded "
        "voxels x bits / 8, footer array count/length/offsets, file length) and every sample + header decoded from the spec "
        "alone equals what the real reader returns; (c) gate-neighbour files laid out by the spec encoder under versions "
        "0.1.6.dev..0.2.2 read through the real reader"
        "; K also: Model/Container (disk blocks, reader footer offsets, file length) and Model/Header (make/parse of the 76 fixed header bytes) vs every real writer output")


def ver_fields(v):
    return (v.major, v.minor, v.patch, 1 if v.changes_exist else 0)


def version_part(ctx, model, rng):
    words = set()
    for M in (0, 1, 3):
        for m in (0, 1, 2, 3, 1022, 1023):
            for p in (0, 1, 2, 5, 6, 7, 1022, 1023):
                for r in (0, 1):
                    words.add(spec.version_encode(M, m, p, bool(r)))
    for w in (spec.V_0_1_6, spec.V_0_2_1):
        words.update(range(w - 4, w + 5))
    words.update([0, 1, 2, 2047, 2048, 2049, 2 ** 21 - 1, 2 ** 21, 2 ** 21 + 1, 2 ** 23 - 1, 2 ** 32 - 1, 209762323])
    if ctx.quick:
        words.update(int(x) for x in rng.integers(0, 2 ** 23, size=20000))
        words = sorted(words)
    else:
        words = range(0, 2 ** 23)
    g1, g2 = SeismicZfpVersion("0.2.1"), SeismicZfpVersion("0.1.6")
    n = 0
    for w in words:
        v = SeismicZfpVersion(int(w))
        impl = f"{v.major} {v.minor} {v.patch} {1 if v.changes_exist else 0} {v.encoding} {1 if v > g1 else 0} {1 if v > g2 else 0}"
        m = model.ask(f"ver dec {w}")
        n += 1
        if m != impl:
            ctx.corr_fail('Model.Version', f'ver dec {w}', m, impl)
            # failing-input search: does the real codec break the property on this word?
        if v.encoding != w:
            ctx.fail(f'version word {w} decodes to {ver_fields(v)} which re-encodes to {v.encoding}: not a bijection', {'word': int(w)})
        # release order preserved across the two gates
        M, mi, p, dev = spec.version_decode(int(w))
        want_g1 = (M, mi, p, 0 if not dev else 1) > (0, 2, 1, 1) if False else (M, mi, p) > (0, 2, 1)
        want_g2 = (M, mi, p) > (0, 1, 6)
        if (v > g1) != want_g1 or (v > g2) != want_g2:
            ctx.fail(f'version word {w} = {(M, mi, p, dev)}: gates (>0.2.1, >0.1.6) evaluate to {(v > g1, v > g2)}', {'word': int(w)})
    ctx.stats['corr_requests'] += n
    ctx.stats['version_words'] += n
    ctx.evaluations += n
    ctx.nontrivial.update(f'w{w}' for w in list(words)[:5000])
    # tuple/encode direction and comparison
    for _ in range(ctx.n(3000, 200000)):
        a = (int(rng.integers(0, 4)), int(rng.integers(0, 1024)), int(rng.integers(0, 1024)), int(rng.integers(0, 2)))
        b = (a[0], a[1], a[2] + int(rng.integers(-1, 2)), int(rng.integers(0, 2))) if rng.random() < .5 else \
            (int(rng.integers(0, 4)), int(rng.integers(0, 1024)), int(rng.integers(0, 1024)), int(rng.integers(0, 2)))
        b = (b[0], b[1], min(max(b[2], 0), 1023), b[3])
        va = SeismicZfpVersion(a[:3] + (('.dev',) if a[3] == 0 else ()))
        vb = SeismicZfpVersion(b[:3] + (('.dev',) if b[3] == 0 else ()))
        ctx.stats['corr_requests'] += 2
        ctx.evaluations += 1
        ma = model.ask(f"ver enc {a[0]} {a[1]} {a[2]} {1 if a[3] == 0 else 0}")
        if int(ma) != va.encoding:
            ctx.corr_fail('Model.Version', f'ver enc {a}', ma, va.encoding)
        mg = model.ask(f"ver gt {va.encoding} {vb.encoding}")
        if (mg == '1') != (va > vb):
            ctx.corr_fail('Model.Version', f'ver gt {va.encoding} {vb.encoding}', mg, va > vb)
        # released order: (major, minor, patch, released) lexicographic
        if (va > vb) != (a > b):
            ctx.fail(f'comparison of {a} and {b} (last = released) through the encoding disagrees with release order', {'a': a, 'b': b})
    # strings setuptools_scm can emit
    strings = []
    for (M, mi, p) in [(0, 2, 9), (0, 1, 6), (0, 2, 1), (1, 0, 0), (0, 2, 10), (3, 1023, 1023), (0, 0, 0), (12, 34, 56)]:
        strings += [(f'{M}.{mi}.{p}', (M, mi, p, 0)), (f'{M}.{mi}.{p}rc1', (M, mi, p, 1)), (f'{M}.{mi}.{p}rc12', (M, mi, p, 1)),
                    (f'{M}.{mi}.{p}.dev3+g1a2b3c4', (M, mi, p, 1)), (f'{M}.{mi}.{p}.dev3+g1a2b3c4.d20260929', (M, mi, p, 1)),
                    (f'{M}.{mi}.{p}+d20260929', (M, mi, p, 1)), (f'{M}.{mi}.{p}.dev0+g0000000', (M, mi, p, 1)),
                    (f'{M}.{mi}.{p}.post1', (M, mi, p, 1)), (f'{M}.{mi}.dev1+g45bcf9689', (M, mi, 0, 1)),
                    (f'{M}.{mi}.dev14+g45bcf9689.d20260929', (M, mi, 0, 1)), (f'{M}.{mi}.{p}.dev', (M, mi, p, 1))]
    for s, want in strings:
        ctx.case(('verstr', s))
        ctx.stats['version_strings'] += 1
        ctx.stats['corr_requests'] += 1
        m = model.ask(f'ver parse {s}')
        try:
            v = SeismicZfpVersion(s)
            impl = ' '.join(str(x) for x in ver_fields(v))
        except Exception as e:  # noqa
            impl = 'err'
        if m != impl:
            ctx.corr_fail('Model.Version', f'ver parse {s}', m, impl)
        if impl != ' '.join(str(x) for x in want):
            ctx.fail(f"version string '{s}' parses to {impl}, expected {want} (dev bit iff the string carries a dev/local part)", {'string': s})


MODEL = {}


def container_correspondence(ctx, path, desc, what):
    """K: Model/Container (disk-block count, footer offsets per format version, file length) vs the bytes a real writer
    produced and the offsets the real reader derives"""
    m = MODEL.get('m')
    if m is None:
        return
    import os
    try:
        h, _ = spec.read_header(path)
        lay = h.layout()
        if not lay.is2d:
            req = (f"container {lay.n[0]} {lay.n[1]} {lay.n[2]} {lay.bs[0]} {lay.bs[1]} {lay.bs[2]} {lay.u} {lay.q} {h.version} "
                   f"{h.n_header_blocks} {h.array_bytes} {h.n_arrays}")
            ctx.stats['corr_requests'] += 1
            ans = m.ask(req)
            with SgzReader(path) as r:
                from seismic_zfp.utils import FileOffset
                offs = sorted(set(int(v) for v in r.segy_traceheader_template.values() if isinstance(v, FileOffset)))
            real = f"{h.data_blocks} | {' '.join(str(o) for o in offs)} | {os.path.getsize(path)}"
            if ans != real:
                ctx.corr_fail('Model.Container', req, ans[:200], real[:200], dict(desc, what=what))
        # K: Model/Header: the reader's parsed fields == Header.parse of the bytes; Header.make of those fields == the bytes
        raw = open(path, 'rb').read(76)
        with SgzReader(path) as r:
            if bytes(r.headerbytes[84:100]) == bytes(16) and r.file_version > __import__('seismic_zfp').version.SeismicZfpVersion('0.2.1'):
                import struct as _st
                ival = int(_st.unpack('<i', raw[28:32])[0])
                rate_q = int(round(4 * r.rate))
                two_d = r.is_2d   # 2D layout: no 3D geometry words at all (bytes 8-15, 20-27, 32-39 zero)
                fields = [r.n_header_blocks, r.n_samples, 0 if two_d else r.n_xlines, 0 if two_d else r.n_ilines, int(r.zslices[0]),
                          0 if two_d else int(r.xlines[0]), 0 if two_d else int(r.ilines[0]), ival,
                          0 if two_d else (int(r.xlines[1] - r.xlines[0]) if r.n_xlines > 1 else int(_st.unpack('<i', raw[32:36])[0])),
                          0 if two_d else (int(r.ilines[1] - r.ilines[0]) if r.n_ilines > 1 else int(_st.unpack('<i', raw[36:40])[0])),
                          rate_q, r.blockshape[0], r.blockshape[1], r.blockshape[2], r.compressed_data_diskblocks,
                          r.header_entry_length_bytes, r.n_header_arrays, r.tracecount, r.file_version.encoding]
                fl = ' '.join(str(int(v)) for v in fields)
                ctx.stats['corr_requests'] += 2
                pa = m.ask('header parse ' + ' '.join(str(b) for b in raw))
                if pa != fl:
                    ctx.corr_fail('Model.Header/parse', 'header parse <76 bytes>', pa, fl, dict(desc, what=what))
                mk = m.ask('header make ' + fl)
                if mk != ' '.join(str(b) for b in raw):
                    ctx.corr_fail('Model.Header/make', 'header make ' + fl, mk[:200], ' '.join(str(b) for b in raw)[:200],
                                  dict(desc, what=what))
    except Exception as e:  # noqa
        ctx.corr_fail('Model.Container', str(path), 'readable file', f'{type(e).__name__}: {str(e)[:100]}', dict(desc, what=what))


def file_matches_reader(ctx, path, desc, what):
    """the decoder written from the specification alone reads every sample and header the real reader reads"""
    if 'stamped' not in what and 'gate' not in what:
        container_correspondence(ctx, path, desc, what)
    probs = spec.conformance_problems(path)
    if not probs:
        try:
            h, _ = spec.read_header(path)
            vol = spec.decode_volume(path)
            arrays = spec.read_footer_arrays(path)
            with SgzReader(path) as r:
                rv = r.read_subplane(0, r.tracecount, 0, r.n_samples) if r.is_2d else r.read_volume()
                if rv.shape != vol.shape or not np.array_equal(rv.view(np.uint32), vol.view(np.uint32)):
                    probs.append('samples decoded from the specification differ from the reader\'s')
                il, xl, z = h.axes()
                if not r.is_2d and (list(map(int, r.ilines)) != il or list(map(int, r.xlines)) != xl):
                    probs.append('axes decoded from the specification differ from the reader\'s')
                if len(z) != len(r.zslices) or not np.allclose(z, r.zslices, rtol=0, atol=1e-9 * max(1, abs(z[0]) + abs(z[-1]))):
                    probs.append('sample axis decoded from the specification differs from the reader\'s')
                if h.tracecount != r.tracecount:
                    probs.append(f'trace count {h.tracecount} vs reader {r.tracecount}')
                if sorted(arrays) != sorted(int(k) for k in r.stored_header_keys):
                    probs.append(f'table names arrays {sorted(arrays)}, reader finds {sorted(int(k) for k in r.stored_header_keys)}')
                else:
                    for k in r.stored_header_keys:
                        r.clear_variant_headers()
                        a = np.asarray(r.get_tracefield_1d(k))
                        if a.shape != arrays[int(k)].shape or not np.array_equal(a, arrays[int(k)]):
                            probs.append(f'footer array {int(k)} read from the spec offsets differs from the reader\'s')
                            break
                if r.structured and not r.is_2d:
                    t = r.tracecount - 1
                    got = {int(k): int(v) for k, v in r.gen_trace_header(t).items()}
                    if got != spec.trace_header(path, t, arrays):
                        probs.append(f'trace header {t} decoded from the specification differs from the reader\'s')
        except Exception as e:  # noqa
            probs.append(f'spec decoder / reader failed: {type(e).__name__}: {str(e)[:120]}')
    for p in probs:
        ctx.fail(f'{what}: {p}', desc)
    return not probs


def writers_part(ctx, rng):
    n_cases = ctx.n(40, 800)
    for k in range(n_cases):
        kind = ['numpy', 'segy', '2d', 'irregular', 'segy', 'numpy'][k % 6]
        if kind == '2d':
            n, bs, q = gen.geometry_2d(rng, max_voxels=40_000)
            n = (1, max(n[1], 2), max(n[2], 2))
        elif k % 4 == 0:
            n, bs, q = (int(rng.choice([5, 64, 70])), int(rng.choice([6, 32, 128])), int(rng.choice([5, 9]))), (4, 4, 1024), 8
        else:
            n, bs, q = gen.geometry_3d(rng, klass=['default', 'b0is4', 'general', 'zslice', None][k % 5], max_voxels=40_000)
            n = tuple(max(v, 2) for v in n)
        if kind == 'irregular':
            n = (max(n[0], 3), max(n[1], 3), n[2])
        arr = gen.cube(rng, n)
        out = ctx.path('c.sgz')
        desc = {'writer': kind, 'n': n, 'bs': bs, 'q': q}
        ctx.case((kind, n, bs, q), sample=desc)
        ctx.stats['writer_' + kind] += 1
        try:
            if kind == 'numpy':
                hd = {int(c): rng.integers(-1000, 1000, size=n[:2]) for c in rng.choice([1, 5, 181, 185, 201, 205], size=int(rng.integers(0, 4)), replace=False)}
                conv.numpy_to_sgz(arr, out, q, bs, trace_headers=hd)
            else:
                sgy = ctx.path('c.sgy')
                il, xl = segycases.axes(rng, n)
                skip = None
                if kind == 'irregular':
                    il, xl = sorted(il), sorted(xl)
                    il = [v + 1000 for v in il] if min(il) <= 0 else il
                    skip = {(n[0] - 1, n[1] - 1), (0, 1)}
                plan = mksegy.header_plan(rng, n_fields=int(rng.integers(0, 6)))
                plan.set_final(n[0] * n[1] - 1 - (len(skip) if skip else 0))
                mksegy.make_segy(sgy, arr, ilines=il, xlines=xl, fmt=[1, 5][k % 2], headers=plan, skip=skip,
                                 two_d=(kind == '2d'), dt_us=int(rng.choice([4000, 1001, 500])), t0=int(rng.choice([0, -100, 250])))
                mode = ['heuristic', 'thorough', 'exhaustive', 'strip'][k % 4]
                if kind == 'irregular' and mode == 'strip':
                    mode = 'thorough'   # an irregular file needs its inline-number array (C08 scoping)
                desc['mode'] = mode
                conv.segy_to_sgz(sgy, out, q, bs, header_detection=mode)
        except Exception as e:  # noqa
            ctx.fail(f'writer failed on accepted input: {type(e).__name__}: {str(e)[:120]}', desc)
            continue
        if not file_matches_reader(ctx, out, desc, f'{kind} converter output'):
            continue
        cur = out
        if kind in ('numpy', 'segy') and (n[0] > 4 or n[1] > 4):
            c = ctx.path('c_crop.sgz')
            box = ((0, n[0]) if n[0] <= bs[0] else (bs[0], n[0]), (0, n[1]) if n[1] <= bs[1] else (0, bs[1]), None)
            try:
                with SgzCropper(cur) as cr:
                    env.quiet(cr.write_cropped_file_by_indexes, c, box[0], box[1], box[2])
                ctx.case((kind, n, bs, q, 'crop'))
                ctx.stats['writer_crop'] += 1
                if MODEL.get('m') is not None:
                    # K: Model/Derived.cropHeader (closure theorem `cropped_file_conformant` is about this function)
                    derivedcorr.check_crop(ctx, MODEL['m'], cur, c, (box[0][0], box[0][1], box[1][0], box[1][1], 0, n[2]),
                                           True, (box[0][1] - box[0][0]) * (box[1][1] - box[1][0]), dict(desc, box=box))
                if file_matches_reader(ctx, c, dict(desc, box=box), 'convert->crop output'):
                    cur = c
            except Exception as e:  # noqa
                ctx.fail(f'crop of a conformant file failed: {type(e).__name__}: {str(e)[:120]}', dict(desc, box=box))
        if (q, tuple(bs)) == (8, (4, 4, 1024)) and kind in ('numpy', 'segy', 'irregular'):
            a = ctx.path('c_adv.sgz')
            try:
                with SgzConverter(cur) as cv:
                    env.quiet(cv.convert_to_adv_sgz, a)
                ctx.case((kind, n, bs, q, 'reblock'))
                ctx.stats['writer_reblock'] += 1
                if MODEL.get('m') is not None:
                    derivedcorr.check_reblock(ctx, MODEL['m'], cur, a, desc)   # K: Model/Derived.reblockHeader
                if file_matches_reader(ctx, a, desc, 'convert->(crop->)re-block output'):
                    cur = a
            except Exception as e:  # noqa
                ctx.fail(f're-block of a conformant file failed: {type(e).__name__}: {str(e)[:120]}', desc)
        if kind != 'numpy':
            e = ctx.path('c_exp.sgy')
            try:
                with SgzConverter(cur) as cv:
                    env.quiet(cv.convert_to_segy, e)
                with segyio.open(e, strict=False) as f:
                    ok = f.tracecount > 0
                ctx.case((kind, n, bs, q, 'export'))
                ctx.stats['writer_export'] += 1
            except Exception as ex:  # noqa
                ctx.fail(f'export at the end of a writer composition failed: {type(ex).__name__}: {str(ex)[:120]}', desc)


def gate_files(ctx, rng):
    """files laid out by the spec encoder under each convention, read through the real reader"""
    vers = [(0, 1, 6, False), (0, 1, 6, True), (0, 1, 7, False), (0, 1, 7, True), (0, 2, 1, False), (0, 2, 1, True),
            (0, 2, 2, False), (0, 2, 2, True), (0, 2, 9, True), (0, 1, 5, True), (1, 0, 0, True)]
    for V in vers:
        ver = spec.version_encode(*V)
        for n in ((5, 7, 9), (8, 16, 5), (3, 43, 6)):   # 35, 128, 129 traces
            dt = 1001 if ver > spec.V_0_1_6 else 3000
            fi = synth.make(ctx.path('gate.sgz'), n, (4, 4, 256), 32, rng, version=ver, n_arrays=4, z=(12, dt))
            desc = {'version': V, 'n': n, 'arrays': sorted(fi.arrays), 'dt_us': dt}
            ctx.case(('gate', V, n), sample=desc)
            ctx.stats['gate_files'] += 1
            with symcodec.symbolic_decoder():
                try:
                    with SgzReader(fi.path) as r:
                        probs = []
                        if r.tracecount != n[0] * n[1]:
                            probs.append(f'tracecount {r.tracecount}')
                        want_z = np.array(fi.z)
                        if len(r.zslices) != n[2] or not np.allclose(r.zslices, want_z, rtol=0, atol=1e-9 * 100):
                            probs.append(f'sample axis {np.asarray(r.zslices)[:2].tolist()} != {want_z[:2].tolist()}')
                        for c, a in fi.arrays.items():
                            r.clear_variant_headers()
                            got = np.asarray(r.get_tracefield_1d(segyio.TraceField(c)))
                            if got.shape != (n[0] * n[1],) or not np.array_equal(got, np.asarray(a, dtype=np.int32)):
                                probs.append(f'footer array {c} read from the wrong place')
                                break
                        t = n[0] * n[1] - 1
                        hd = r.gen_trace_header(t)
                        for c, a in fi.arrays.items():
                            if int(hd[segyio.TraceField(c)]) != int(np.asarray(a, dtype=np.int32)[t]):
                                probs.append(f'gen_trace_header({t})[{c}] wrong')
                                break
                except Exception as e:  # noqa
                    probs = [f'reader failed: {type(e).__name__}: {str(e)[:100]}']
            for p in probs:
                ctx.fail(f'file written under the conventions of version {V} is not read under them: {p}', desc)


def reused_writers(ctx, rng):
    """one cropper object writing several files in sequence: every output states its own true axes (the optional
    double-precision start / interval fields included), whatever was written before it"""
    for k in range(ctx.n(3, 30)):
        dt = int(rng.choice([200, 300, 700, 1100]))       # sample positions on fractional milliseconds
        n = (int(rng.integers(4, 9)), int(rng.integers(4, 9)), 3 * 256 + int(rng.integers(1, 200)))
        fi = synth.make(ctx.path('rw_src.sgz'), n, (4, 4, 256), 32, rng, z=(int(rng.integers(0, 3)) * 10, dt), n_arrays=2)
        boxes = [(256, 512), (0, 256), (512, n[2]), (0, 256), (256, n[2])]
        order = [boxes[j] for j in rng.permutation(len(boxes))[:4]]
        desc = {'n': n, 'dt_us': dt, 'z0': fi.z[0], 'crops_in_order': order}
        with symcodec.symbolic_decoder():
            try:
                with SgzCropper(fi.path) as cr:
                    for j, (z0, z1) in enumerate(order):
                        out = ctx.path(f'rw_{j}.sgz')
                        env.quiet(cr.write_cropped_file_by_indexes, out, None, None, (z0, z1))
                        ctx.case(('reused-cropper', n, dt, tuple(order[:j + 1])), sample=desc if j == 0 else None)
                        ctx.stats['reused_cropper_outputs'] += 1
                        d = dict(desc, output=j, z_range=(z0, z1))
                        for p_ in spec.conformance_problems(out):
                            ctx.fail(f'crop #{j} of a reused cropper not conformant: {p_}', d)
                        with SgzReader(out) as r:
                            got = np.asarray(r.zslices, dtype=np.float64)
                        want = np.asarray(fi.z[z0:z1], dtype=np.float64)
                        if got.shape != want.shape or not np.allclose(got, want, rtol=0, atol=1e-6):
                            ctx.fail(f'crop #{j} of a reused cropper states sample axis {got[:2].tolist()}.., the source axis '
                                     f'restricted to the box is {want[:2].tolist()}..', d)
            except Exception as e:  # noqa
                ctx.fail(f'reused cropper failed: {type(e).__name__}: {str(e)[:120]}', desc)


def irregular_crops(ctx, rng):
    """crops of irregular surveys (inline numbers stored under INLINE_3D, or under an earlier header word with INLINE_3D
    recorded as its duplicate): the header of the cropped file states the number of traces that are in the box, and the
    stored arrays of the box, as the specification reads them"""
    for k in range(ctx.n(6, 60)):
        n = (int(rng.integers(5, 14)), int(rng.integers(5, 14)), int(rng.integers(3, 9)))
        fi = synth.make(ctx.path('irc_src.sgz'), n, (4, 4, 256), 32, rng, irregular=True, n_arrays=int(rng.integers(2, 5)),
                        il_dup=bool(k % 2), holes=float(rng.choice([.1, .3])))
        mk = np.asarray(fi.mask).reshape(n[0], n[1])
        i0 = 4 * int(rng.integers(0, (n[0] + 3) // 4)); i1 = min(n[0], i0 + 4 * int(rng.integers(1, 3)))
        x0 = 4 * int(rng.integers(0, (n[1] + 3) // 4)); x1 = min(n[1], x0 + 4 * int(rng.integers(1, 3)))
        if i1 - i0 < 2 or x1 - x0 < 2:
            i0, i1, x0, x1 = 0, min(n[0], 8), 0, min(n[1], 8)
        live = int(np.count_nonzero(mk[i0:i1, x0:x1]))
        desc = {'n': n, 'inline_numbers_stored_as_duplicate_of_field_9': bool(k % 2), 'box': ((i0, i1), (x0, x1)),
                'live_traces_in_box': live, 'grid_positions_in_box': (i1 - i0) * (x1 - x0)}
        ctx.case(('irregular-crop', n, bool(k % 2), (i0, i1, x0, x1)), sample=desc)
        ctx.stats['irregular_crops'] += 1
        out = ctx.path('irc.sgz')
        with symcodec.symbolic_decoder():
            try:
                with SgzCropper(fi.path) as cr:
                    env.quiet(cr.write_cropped_file_by_indexes, out, (i0, i1), (x0, x1), None)
            except Exception as e:  # noqa
                if live == 0:
                    continue
                ctx.fail(f'crop of an irregular survey failed: {type(e).__name__}: {str(e)[:120]}', desc)
                continue
        h = spec.read_header(out)[0]
        if h.tracecount_field != live:
            ctx.fail(f'cropped irregular file states {h.tracecount_field} traces, the box holds {live}', desc)
        for p_ in spec.conformance_problems(out):
            ctx.fail(f'cropped irregular file not conformant: {p_}', desc)
        want = spec.read_footer_arrays(fi.path)
        got = spec.read_footer_arrays(out)
        for code, a in want.items():
            w = np.asarray(a).reshape(n[0], n[1])[i0:i1, x0:x1].reshape(-1)
            if code not in got or not np.array_equal(np.asarray(got[code]).reshape(-1), w):
                ctx.fail(f'cropped irregular file: stored array {code} is not the source array restricted to the box', desc)
                break
        if MODEL.get('m') is not None:
            derivedcorr.check_crop(ctx, MODEL['m'], fi.path, out, (i0, i1, x0, x1, 0, n[2]), live == (i1 - i0) * (x1 - x0) and False, live, desc)


def run(ctx):
    model = core.Model()
    rng = gen.rng_for(ctx.seed, 'c03')
    MODEL['m'] = model
    try:
        version_part(ctx, model, rng)
        writers_part(ctx, rng)
        gate_files(ctx, rng)
        reused_writers(ctx, gen.rng_for(ctx.seed, 'c03-reused'))
        irregular_crops(ctx, gen.rng_for(ctx.seed, 'c03-irregular-crops'))
    finally:
        model.close()


def replay(ctx, rp):
    run(ctx)
