"""C16 — writer pipeline."""
import itertools

import numpy as np

from .. import env, core, gen, conv, spec, mksegy, sched
from seismic_zfp.conversion import NumpyConverter, SegyConverter  # noqa: E402

ASSUMPTIONS = ["A3: each queue.Queue operation is atomic and has the documented put/get/task_done/join semantics",
               "the scheduler serialises threads at queue operations, thread start and file writes (the property's granularity)",
               "model Sgz.Pipeline tied to run_conversion_loop/compressor/writer by replaying every observed schedule"]
RULE = ("real conversions (NumPy, SEG-Y, 2D routes; 1-3 plane sets / trace groups; queue capacity forced to 1, 2, 16) under a "
        "controlled scheduler: adversarial strategies (run main as far as possible, starve writer, starve compressor, strict "
        "alternation), systematically enumerated schedule prefixes and seeded random schedules; every schedule must terminate, "
        "leave the file byte-identical to the sequential run, with no worker write after the loop returns; the observed "
        "(thread, enabled-set) sequence and the write log are replayed in the Lean transition system (7N+5 actions)")


def make_job(ctx, rng, route, n_sets):
    out = ctx.path('p.sgz')
    if route == 'numpy':
        n = (4 * n_sets - int(rng.integers(0, 3)), 5, 9)
        n = (max(n[0], 1 if n_sets == 1 else 4 * (n_sets - 1) + 1), 5, 9)
        arr = gen.cube(rng, n)
        return out, (lambda: NumpyConverter(arr).run(out, bits_per_voxel=8, blockshape=(4, 4, -1))), n_sets
    if route in ('segy-8x8', 'numpy-8x8'):
        # a layout whose plane sets are cut into disk blocks before queueing (one block per plane set here: the cube
        # is not wider than a block, so the slice is the whole buffer)
        n = (8 * n_sets - 1 if n_sets > 1 else 5, 5, 9)
        arr = gen.cube(rng, n)
        if route == 'numpy-8x8':
            return out, (lambda: NumpyConverter(arr).run(out, bits_per_voxel=8, blockshape=(8, 8, -1))), n_sets
        sgy = ctx.path('p8.sgy')
        mksegy.make_segy(sgy, arr, fmt=5)

        def go8():
            with SegyConverter(sgy) as c:
                c.run(out, bits_per_voxel=8, blockshape=(8, 8, -1))
        return out, go8, n_sets
    if route == 'segy':
        n = (4 * n_sets - 1 if n_sets > 1 else 3, 4, 6)
        arr = gen.cube(rng, n)
        sgy = ctx.path('p.sgy')
        mksegy.make_segy(sgy, arr, fmt=5)

        def go():
            with SegyConverter(sgy) as c:
                c.run(out, bits_per_voxel=8)
        return out, go, n_sets
    # 2D: blockshape (1,16,-1) default: one queue item per (group, z-block); (1,4,-1): one per group
    n = (1, 4 * n_sets - 1 if n_sets > 1 else 3, 6)
    arr = gen.cube(rng, n)
    sgy = ctx.path('p2.sgy')
    mksegy.make_segy(sgy, arr, two_d=True, fmt=5)

    def go2():
        with SegyConverter(sgy) as c:
            c.run(out, bits_per_voxel=8, blockshape=(1, 4, -1))
    return out, go2, n_sets


def run_one(ctx, model, job, cap, strategy, label, desc, seq_bytes):
    out, fn, N = job
    s = sched.run_controlled(fn, out, strategy, force_cap=cap)
    d = dict(desc, capacity=cap, strategy=label, schedule=''.join(t[0] for t in s.trace if t[0] in ('M', 'C', 'W')))
    ctx.case((desc['route'], N, cap, d['schedule']), sample=d if len(ctx.samples) < 3 else None)
    ctx.stats['schedules'] += 1
    ctx.stats['cap_%d' % cap] += 1
    ctx.stats['route_' + desc['route']] += 1
    if s.deadlock or s.error == 'deadlock':
        ctx.fail('conversion deadlocked under this schedule', d)
        return
    if s.error:
        ctx.fail(f'conversion raised under this schedule: {s.error}', d)
        return
    if s.late_writes:
        ctx.fail(f'a worker thread wrote {s.late_writes[:2]} after the conversion loop had returned', d)
    try:
        got = open(out, 'rb').read()
    except Exception:
        got = b''
    if got != seq_bytes:
        loop_writes = [(w[0], w[1], w[2]) for w in s.writes if w[3]]
        ctx.fail(f'output differs from the sequential run (length {len(got)} vs {len(seq_bytes)}); writes during the loop: '
                 f'{loop_writes[:8]}', d)
    # K: replay in the Lean model
    if any(t[0] not in ('M', 'C', 'W') for t in s.trace):
        ctx.corr_fail('Model.Pipeline', f'pipe {N} {cap}', 'threads M,C,W only', sorted(set(t[0] for t in s.trace)), d)
        return
    ctx.stats['corr_requests'] += 1
    ans = model.ask(f"pipe {N} {cap} {d['schedule']}")
    ok, ens, log, done, stuck = [x.strip() for x in ans.split('|')]
    impl_ens = ','.join(''.join(sorted(en, key='MCW'.index)) for (_, _, _, en) in s.trace)
    impl_log = ' '.join(['H'] + [f'B{i}' for i in range(N)]) if got == seq_bytes else '?'
    loop_writes = [w for w in s.writes if w[3]]
    impl_nwrites = len(loop_writes)
    if ok != '1' or ens != impl_ens or done != '1' or len(d['schedule']) != 7 * N + 5 or \
            (got == seq_bytes and (log != impl_log or impl_nwrites != N + 1)):
        ctx.corr_fail('Model.Pipeline', f"pipe {N} {cap} {d['schedule']}",
                      {'ok': ok, 'enabled': ens[:200], 'log': log, 'done': done},
                      {'enabled': impl_ens[:200], 'writes': impl_nwrites, 'steps': len(d['schedule'])}, d)


def run(ctx):
    rng = gen.rng_for(ctx.seed, 'c16')
    model = core.Model()
    try:
        for route in ('numpy', 'segy', '2d', 'segy-8x8', 'numpy-8x8'):
            for n_sets in ((1, 2, 3) if '8x8' not in route else (2, 3)):
                job = make_job(ctx, rng, route, n_sets)
                out, fn, N = job
                env.quiet(fn)
                seq_bytes = open(out, 'rb').read()
                desc = {'route': route, 'plane_sets': n_sets}
                strategies = [('main-first', sched.strat_prefer('MCW')), ('starve-writer', sched.strat_prefer('MCW'[::1].replace('W', '') + 'W')),
                              ('starve-compressor', sched.strat_prefer('MWC')), ('writer-first', sched.strat_prefer('WCM')),
                              ('compressor-first', sched.strat_prefer('CWM')), ('alternate', sched.strat_alternate())]
                n_rand = (ctx.n(6, 120))
                strategies += [(f'random{i}', sched.strat_random(ctx.seed * 1000 + i)) for i in range(n_rand)]
                # systematic: every schedule prefix of length L over {M,C,W} (continued main-last), smallest instance first
                L = (ctx.n(3, 6)) if n_sets == 1 else (ctx.n(2, 4))
                for pre in itertools.product('MCW', repeat=L):
                    strategies.append(('prefix-' + ''.join(pre), sched.strat_scripted('MM' + ''.join(pre), sched.strat_prefer('CWM'))))
                for cap in (1, 2, 16):
                    for label, st in strategies:
                        if cap == 16 and label.startswith('prefix-') and ctx.quick:
                            continue
                        run_one(ctx, model, job, cap, st, label, desc, seq_bytes)
    finally:
        model.close()


def replay(ctx, rp):
    run(ctx)
