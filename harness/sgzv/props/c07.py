"""C07 — I/O proportionality."""
import numpy as np

from .. import env, core, gen, files, readcheck, readops, iolog, spec, synth, symcodec
from seismic_zfp.read import SgzReader  # noqa: E402

ASSUMPTIONS = ["range reads observed at the file / blob object the reader is given (public constructor paths)",
               "model Sgz.Model.{Loader,Reader} fetch lists tied to loader.py by this run's correspondence only"]
RULE = ("synthetic files over all layout classes/2D/irregular x in-range ops of every read path; each op on a cold reader "
        "(and again warm): the set of (offset,length) range reads observed at a logging file object / blob object is "
        "compared with the model's fetch list (coalesced sets) and judged by the property's predicate: every fetched byte in "
        "a 4 KiB block holding a requested sample, none outside the data section, none twice, every needed block touched "
        "when cold; open reads header blocks only; structured header regeneration costs 4 bytes per stored array; preload "
        "fetches the data section once"
        "; K: Model/HeaderReads.run vs the range reads of real header / tracefield histories")


def header_and_open_io(ctx, fi, rng, model=None):
    desc = {'n': fi.n, 'bs': fi.lay.bs, 'q': fi.lay.q, 'arrays': len(fi.arrays), 'dups': len(fi.dups)}
    for blob in (False, True):
        s = readcheck.ReadSession(fi, blob=blob)
        try:
            ctx.case(('open', desc['n'], desc['bs'], blob))
            bad = [l for l in s.open_log if l[0] + l[1] > s.data_start]
            if bad:
                ctx.fail(f'opening a reader touched bytes beyond the header blocks: {bad[:3]}', {'file': desc, 'blob': blob})
            if not fi.is2d and fi.mask is None and fi.arrays:
                t = int(rng.integers(fi.tracecount))
                s.handle.log.clear()
                s.r.gen_trace_header(t)
                log = list(s.handle.log)
                ctx.case(('hdr', desc['n'], t, blob))
                stride = spec.pad(4 * fi.n[0] * fi.n[1], 512) if fi.version > spec.V_0_2_1 else 4 * fi.n[0] * fi.n[1]
                want = sorted((s.data_start + spec.DISK * fi.lay.n_blocks + k * stride + 4 * t, 4)
                              for k in range(len(fi.arrays)))
                got = sorted((o, l) for (o, l, _) in log)
                if model is not None:
                    # K: Model/Container.headerReads / openReads vs the observed reads (offsets from the file's own version)
                    ctx.stats['corr_requests'] += 1
                    ans = model.ask(f'hdrio {fi.version} {s.data_start // spec.DISK} {fi.lay.n_blocks} {4 * fi.n[0] * fi.n[1]} '
                                    f'{len(fi.arrays)} {t}')
                    real = (','.join(f'{o}:{l}' for (o, l) in got) + ' | '
                            + ','.join(f'{o}:{l}' for (o, l, _) in s.open_log))
                    if ans != real:
                        ctx.corr_fail('Model.Container/headerReads', f'hdrio ... {t}', ans[:160], real[:160], {'file': desc, 'blob': blob})
                if got != want:
                    ctx.fail(f'gen_trace_header({t}) of a regular file read {len(got)} ranges totalling '
                             f'{sum(l for _, l in got)} bytes; the property allows 4 bytes per stored array '
                             f'({len(fi.arrays)} arrays)', {'file': desc, 'trace': t, 'ranges': got[:8], 'want': want[:8]})
        finally:
            s.close()
    # preload: one fetch of the data section at open, none later
    s = readcheck.ReadSession(fi, preload=True)
    try:
        ctx.case(('preload', desc['n'], desc['bs']))
        data_reads = [l for l in s.open_log if l[0] + l[1] > s.data_start]
        if data_reads != [(s.data_start, spec.DISK * fi.lay.n_blocks, spec.DISK * fi.lay.n_blocks)]:
            ctx.fail(f'preload did not fetch exactly the data section once: {data_reads[:4]}', {'file': desc})
        for op in readcheck.in_range_ops(rng, fi, 1):
            if op[0] in ('hdr', 'tfv'):
                continue
            got, log = s.run(op)
            if [l for l in log if l[0] >= s.data_start and l[0] < s.data_start + spec.DISK * fi.lay.n_blocks]:
                ctx.fail(f'with preload, read {op} fetched from the data section again: {log[:3]}', {'file': desc, 'op': op})
    finally:
        s.close()


def diagonal_chunk_corr(ctx, model, fi, rng):
    """K: Model/Lru.fetched (the chunks a diagonal read fetches through a chunk LRU of a given capacity) vs the chunks the
    real reader fetches (`_read_containing_chunk` -> `read_subvolume(..., access_padding=True)` calls), for the smallest
    capacities and the default one; O: no chunk fetched twice within the call"""
    from seismic_zfp.read import SgzReader
    n0, n1, _ = fi.n
    b0, b1, _ = fi.lay.bs
    for cap in (1, 2, None, 3):
        kind = 'cd' if rng.random() < .5 else 'ad'
        if kind == 'cd':
            c = int(rng.integers(-n1 + 1, n0))
            L = readops.cd_len(c, n0, n1)
        else:
            c = int(rng.integers(0, n0 + n1 - 1))
            L = readops.ad_len(c, n0, n1)
        lo, hi = (0, L) if rng.random() < .5 else sorted(rng.choice(L + 1, size=2, replace=False).tolist()) if L >= 1 else (0, 0)
        if hi <= lo:
            continue
        with symcodec.symbolic_decoder():
            r = SgzReader(fi.path, chunk_cache_size=cap)
            try:
                calls = []
                real_sub = r.read_subvolume

                def rec(*a, **k):
                    if k.get('access_padding'):
                        calls.append((int(a[0]), int(a[2])))
                    return real_sub(*a, **k)
                r.read_subvolume = rec
                real_cap = r._read_containing_chunk_cached.cache_info().maxsize
                if kind == 'cd':
                    r.read_correlated_diagonal(c, lo, hi)
                else:
                    r.read_anticorrelated_diagonal(c, lo, hi)
            finally:
                r.close()
        desc = {'n': fi.n, 'bs': fi.lay.bs, 'diagonal': (kind, c, lo, hi), 'chunk_cache_size': cap}
        ctx.case(('diag-chunks', fi.n, fi.lay.bs, kind, c, lo, hi, cap), sample=desc if len(ctx.samples) < 8 else None)
        ctx.stats['diagonal_chunk_sequences'] += 1
        if len(set(calls)) != len(calls):
            ctx.fail(f'{kind} diagonal {c} [{lo}:{hi}) with chunk_cache_size={cap}: a chunk was fetched twice within the call: '
                     f'{calls[:12]}', desc)
        ctx.stats['corr_requests'] += 1
        ans = model.ask(f'lru {cap or 0} {n0} {n1} {b0} {b1} {kind} {c} {lo} {hi}')
        real = f'{real_cap} ' + ','.join(f'{a}:{b}' for a, b in calls)
        if ans != real:
            ctx.corr_fail('Model.Lru/fetched', f'lru {cap or 0} {n0} {n1} {b0} {b1} {kind} {c} {lo} {hi}', ans[:200], real[:200], desc)


def run(ctx):
    model = core.Model()
    rng = gen.rng_for(ctx.seed, 'c07')
    n_files = ctx.n(50, 1200)
    try:
        for k, fi in enumerate(files.read_files(ctx, rng, n_files, max_voxels=ctx.n(40_000, 150_000))):
            for blob in ((False, True) if k % 3 == 0 else (False,)):
                # (the reader's chunk cache at its smallest sizes too: a diagonal visits its chunks in monotone order, so
                #  even one slot must keep every byte from being fetched twice -- Props/C07.diagonal_fetches_each_chunk_once)
                ccs = [None, 1, 2, None][(k // 3) % 4]
                ctx.stats['chunk_cache_size_' + str(ccs)] += 1
                s = readcheck.ReadSession(fi, blob=blob, chunk_cache_size=ccs)
                try:
                    ops = readcheck.in_range_ops(rng, fi, ctx.n(2, 4))
                    ops = [o for o in ops if o[0] not in ('vol',)] + ([('vol',)] if not fi.is2d else [])
                    readcheck.check_ops(ctx, model, s, ops, props=('C07',), cold=True, tag='blob' if blob else 'file')
                    # warm: the same ops again without clearing caches may only read less
                    readcheck.check_ops(ctx, None, s, ops[:6], props=('C07',), cold=False, tag='warm')
                finally:
                    s.close()
            if k % 4 == 0:
                header_and_open_io(ctx, fi, rng, model)
            if not fi.is2d and k % 2 == 1:
                diagonal_chunk_corr(ctx, model, fi, rng)
        # legacy files with ONE header block (format 0.0.x: no SEG-Y file-header block): open and reads, both backends
        for k in range(ctx.n(6, 60)):
            n, bs, q = gen.geometry_3d(rng, klass='default', max_voxels=20_000)
            fi = synth.make(ctx.path('legacy.sgz'), n, bs, q, rng, version=0, n_arrays=0, n_header_blocks=1)
            ctx.stats['legacy_one_header_block'] += 1
            header_and_open_io(ctx, fi, rng, model)
            for blob in (False, True):
                s = readcheck.ReadSession(fi, blob=blob)
                try:
                    ops = [o for o in readcheck.in_range_ops(rng, fi, 1) if o[0] not in ('hdr', 'tfv')]
                    readcheck.check_ops(ctx, model, s, ops, props=('C07',), cold=True, tag='legacy-blob' if blob else 'legacy')
                finally:
                    s.close()
        # K: virtual files beyond 4 GiB, blob backend, preload of a section beyond 256 MiB: byte ranges fetched vs the model
        from .. import hugecheck
        hugecheck.run(ctx, model, gen.rng_for(ctx.seed, 'c07-huge'))
    finally:
        model.close()
    # K: the header-read state machine (Model/HeaderReads): the range reads every header / tracefield look-up issues (four
    # bytes per stored array on structured files; whole arrays, the mask once, nothing twice on the others)
    from . import c15
    c15.header_histories(ctx, n_quick=12, n_thorough=200, tag='c07-headers')


def replay(ctx, rp):
    run(ctx)
