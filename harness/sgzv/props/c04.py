"""C04 — trace-header and file-header preservation."""
import numpy as np
import segyio

from .. import env, core, gen, conv, spec, mksegy, segycases, view
from seismic_zfp.read import SgzReader  # noqa: E402
import seismic_zfp  # noqa: E402

ASSUMPTIONS = ["A2 segyio reports the source headers", "get_tracefield_values on a constant field raises KeyError (refusal, "
               "not flagged)", "model Sgz.Model.HwTable tied to headers.py by this run's correspondence only"]
RULE = ("generated SEG-Y (regular / irregular / 2D; header plans: constant, varying, duplicate-of, varying-but-coinciding at "
        "first&last, 2- and 4-byte extremes, negative; trace counts incl. multiples of 128) x detection modes {heuristic, "
        "thorough, exhaustive, strip}: all 89 fields of every trace via gen_trace_header / header[i] / tracefield arrays vs "
        "segyio on the source, file header bytes; NumPy route: header dicts of any integer dtype / field set"
        "; K: Model/Headers.classify (table rows, stored fields, array count from the first and last trace) vs the table bytes written in heuristic mode")

MODES = ['thorough', 'exhaustive', 'heuristic', 'strip']


def compare_headers(ctx, sgz, src_view, mode, desc, hyp):
    with SgzReader(sgz) as r:
        if bytes(r.headerbytes[4096:4096 + 3600]) != src_view['filehdr']:
            ctx.fail('textual/binary file headers not byte-identical', desc)
        if r.tracecount != src_view['tracecount']:
            ctx.fail(f"trace count {r.tracecount} != source {src_view['tracecount']}", desc)
            return
        for i, want in zip(src_view['header_idx'], src_view['headers']):
            got = {int(k): int(v) for k, v in r.gen_trace_header(i).items()}
            if mode == 'strip':
                if any(v != 0 for v in got.values()):
                    ctx.fail(f"'strip' header {i} has non-zero fields", desc)
                    return
                continue
            if mode == 'heuristic' and not hyp:
                continue
            if got != want:
                d = {f: (got.get(f), want.get(f)) for f in want if got.get(f) != want.get(f)}
                ctx.fail(f'{mode}: trace header {i} differs from the source in fields {dict(list(d.items())[:4])}', desc)
                return
        if mode in ('thorough', 'exhaustive') or (mode == 'heuristic' and hyp):
            # tracefield arrays of stored fields
            full = src_view['tracecount'] == len(src_view['header_idx'])
            for k in list(r.stored_header_keys)[:6]:
                r.clear_variant_headers()
                a = np.asarray(r.get_tracefield_1d(k))
                if full and r.structured:
                    want = np.array([h[int(k)] for h in src_view['headers']])
                    if a.shape != want.shape or not np.array_equal(a, want):
                        ctx.fail(f'{mode}: tracefield array {int(k)} differs from the source', desc)
                        return
    # the file headers through the accessors, also on an object that has exported the file before (the export may have to
    # touch the format code of its own copy: the stored header, and what the accessors return, stay the source's)
    from seismic_zfp.conversion import SgzConverter
    with segyio.open(src_view['path'], strict=False) as fy:
        want_bin = {int(k): int(v) for k, v in fy.bin.items()}
    with SgzReader(sgz) as r0:
        # (the accessor returns the textual header decoded from EBCDIC: compared with what a fresh reader returns for the
        #  stored bytes, which are compared with the source's above)
        want_text = bytes(r0.get_file_text_header()[0])
    for export_first in (False, True):
        try:
            with SgzConverter(sgz) as c:
                if export_first:
                    try:
                        env.quiet(c.convert_to_segy, ctx.path('hdr_export.sgy'))
                    except Exception:  # noqa
                        # (whether this file can be exported is C06's matter -- an irregular survey converted with
                        #  'strip' has no inline numbers to find its traces by; C04 is about what is read afterwards)
                        ctx.stats['export_before_header_read_failed'] += 1
                got_text = bytes(c.get_file_text_header()[0])
                got_bin = {int(k): int(v) for k, v in dict(c.get_file_binary_header()).items()}
        except Exception as e:  # noqa
            ctx.fail(f'file header accessors{" after an export" if export_first else ""} raised {type(e).__name__}: {str(e)[:80]}', desc)
            continue
        if got_text != want_text:
            ctx.fail(f'textual file header{" after an export from the same object" if export_first else ""} differs from what a fresh reader returns', desc)
        if got_bin != want_bin:
            d = {k: (got_bin.get(k), v) for k, v in want_bin.items() if got_bin.get(k) != v}
            ctx.fail(f'binary file header{" after an export from the same object" if export_first else ""} differs from the source: '
                     f'{dict(list(d.items())[:3])}', desc)
    # emulator: header[i]
    if mode != 'strip' and (mode != 'heuristic' or hyp):
        with seismic_zfp.open(sgz) as f:
            for i in (0, src_view['tracecount'] - 1, src_view['tracecount'] // 2):
                if i in src_view['header_idx']:
                    got = {int(k): int(v) for k, v in f.header[i].items()}
                    want = src_view['headers'][src_view['header_idx'].index(i)]
                    if got != want:
                        ctx.fail(f'{mode}: emulator header[{i}] differs from the source', desc)
                        return


MODEL = {}


def table_correspondence(ctx, out, src, desc):
    """K: Model/Headers.classify vs the table the real converter wrote (heuristic mode): rows, stored fields (footer
    order) and array count, from the first and last trace header of the source"""
    m = MODEL.get('m')
    if m is None or not src['headers'] or src['header_idx'][0] != 0 or src['header_idx'][-1] != src['tracecount'] - 1:
        return
    import struct
    first, last = src['headers'][0], src['headers'][-1]
    req = 'hwtable ' + ' '.join(str(first[c]) for c in spec.FIELDS) + ' | ' + ' '.join(str(last[c]) for c in spec.FIELDS)
    ctx.stats['corr_requests'] += 1
    ans = m.ask(req)
    raw = open(out, 'rb').read(2048)
    rows, stored = [], []
    for i in range(89):
        code, const, dup = struct.unpack('<iii', raw[980 + 12 * i: 992 + 12 * i])
        if code != spec.FIELDS[i]:
            rows.append(f'?{code}')
            continue
        rows.append(f'{const}:{spec.FIELDS.index(dup) + 1 if dup in spec.FIELDS else (0 if dup == 0 else -1)}')
    n_arrays = struct.unpack('<I', raw[64:68])[0]
    h = spec.read_header(out)[0]
    real = f"{' '.join(rows)} | {' '.join(str(spec.FIELDS.index(c)) for c in h.stored)} | {n_arrays}"
    if ans != real:
        ctx.corr_fail('Model.Headers/classify', req[:200], ans[:300], real[:300], desc)
        return
    # K: Model/Header.putTable (the byte image of those rows at 980 … 2047) vs the bytes the converter wrote
    mrows = []
    for i, w in enumerate(ans.split(' | ')[0].split()):
        c_, d_ = w.split(':')
        mrows.append(f'{spec.FIELDS[i]}:{c_}:{spec.FIELDS[int(d_) - 1] if int(d_) > 0 else 0}')
    table_bytes(ctx, m, mrows, raw, desc)


def table_bytes(ctx, m, rows, raw, desc):
    ctx.stats['corr_requests'] += 1
    enc = m.ask('tblenc ' + ' '.join(rows))
    if enc != raw[980:2048].hex():
        bad = next((i for i in range(0, 2136, 24) if enc[i:i + 24] != raw[980:2048].hex()[i:i + 24]), None)
        ctx.corr_fail('Model.Header/putTable', 'tblenc ' + ' '.join(rows)[:160], f'row {None if bad is None else bad // 24}: {enc[bad:bad + 24] if bad is not None else enc[:24]}',
                      f'{raw[980:2048].hex()[bad:bad + 24] if bad is not None else ""}', desc)


def segy_route(ctx, rng, k):
    kind = ['regular', 'regular', 'irregular', '2d', 'regular'][k % 5]
    tc = int(rng.choice([2, 5, 25, 127, 128, 129, 256, 30]))
    if kind == 'regular':
        n0 = int(rng.choice([d for d in (2, 4, 5, 8, 16, 32) if tc % d == 0 and tc // d >= 2] or [1]))
        if n0 == 1:
            n0, tc = 2, 2 * max(2, tc // 2)
        n = (n0, tc // n0, int(rng.integers(2, 9)))
    elif kind == 'irregular':
        n = (int(rng.integers(3, 9)), int(rng.integers(3, 9)), int(rng.integers(2, 6)))
    else:
        n = (1, tc, int(rng.integers(2, 9)))
    safe = bool(rng.random() < .35)
    plan = mksegy.header_plan(rng, n_fields=int(rng.integers(0, 10)), heuristic_safe=safe)
    il, xl = segycases.axes(rng, n)
    if kind == 'irregular':
        # C08 scoping: the irregular route stores the grid in ascending line-number order, so "trace i is the i-th
        # source trace" is only meaningful for sources sorted ascending by (inline, crossline)
        il, xl = sorted(il), sorted(xl)
        if 0 in il:
            il = [v + 1000 for v in il]
    skip = None
    if kind == 'irregular':
        cells = [(i, x) for i in range(n[0]) for x in range(n[1])]
        m = rng.random(len(cells)) < .25
        skip = set(c for c, d in zip(cells, m) if d)
        for i in range(n[0]):
            if all((i, x) in skip for x in range(n[1])):
                skip.discard((i, int(rng.integers(n[1]))))
        for x in range(n[1]):
            if all((i, x) in skip for i in range(n[0])):
                skip.discard((int(rng.integers(n[0])), x))
        if not skip:
            skip = {(n[0] - 1, n[1] - 1)}
    arr = gen.cube(rng, n)
    sgy = ctx.path('h.sgy')
    ntr = n[0] * n[1] - (len(skip) if skip else 0)
    plan.set_final(ntr - 1)
    mksegy.make_segy(sgy, arr, ilines=il, xlines=xl, fmt=5, headers=plan, skip=skip, two_d=(kind == '2d'),
                     dt_us=int(rng.choice([4000, 2000, 1000])), t0=int(rng.choice([0, 100])))
    blank = None
    if kind == '2d' and ntr >= 5 and (k // 5) % 2 == 0:
        # a null trace inside the line: its 240-byte header is entirely zero (every field, also those constant elsewhere)
        blank = int(rng.integers(1, ntr - 1))
        with open(sgy, 'r+b') as f:
            f.seek(3600 + blank * (240 + 4 * n[2]))
            f.write(bytes(240))
    wide = None
    if rng.random() < .3:
        # the two fields the plan leaves alone, at 16-bit values with the top bit set (segyio reports bytes 115-116, the
        # trace's sample count, unsigned: traces of 32768..65535 samples are legal); written raw, big-endian
        wide = [str(rng.choice(['const', 'vary', 'last'])) for _ in range(2)]
        for t in range(ntr):
            for c, w in zip((115, 117), wide):
                u = {'const': 40000, 'vary': 32768 + 7 * t, 'last': 65535 if t == ntr - 1 else 6}[w]
                mksegy.patch_trace_header_bytes(sgy, t, n[2], c, u - 65536 if u >= 32768 else u)
    int_samples = bool(rng.random() < .25)
    if int_samples:
        # a SEG-Y with 4-byte integer samples (format code 2): the same bytes, read as two's-complement integers
        with open(sgy, 'r+b') as f:
            f.seek(3224)
            f.write((2).to_bytes(2, 'big'))
    src = view.segy_view(sgy)
    hyp = segycases.heuristic_hypothesis(src['headers']) if len(src['headers']) == src['tracecount'] else False
    for mode in MODES:
        desc = {'kind': kind, 'n': n, 'traces': ntr, 'mode': mode, 'plan': [(c, kk) for c, kk, _ in plan.plan], 'blank_trace': blank, 'wide_115_117': wide, 'integer_samples': int_samples,
                'il': il[:2], 'xl': xl[:2], 'heuristic_hypothesis': hyp}
        ctx.case((kind, n, mode, tuple(desc['plan']), tuple(il[:2]), tuple(xl[:2])), sample=desc)
        ctx.stats['mode_' + mode] += 1
        ctx.stats['kind_' + kind] += 1
        ctx.stats['hypothesis_' + str(hyp)] += int(mode == 'heuristic')
        out = ctx.path('h.sgz')
        try:
            conv.segy_to_sgz(sgy, out, 16, None, header_detection=mode)
        except Exception as e:  # noqa
            ctx.fail(f'conversion failed: {type(e).__name__}: {str(e)[:120]}', desc)
            continue
        for p in spec.conformance_problems(out):
            ctx.fail('written file not conformant: ' + p, desc)
        if mode == 'heuristic' and kind != 'irregular':
            table_correspondence(ctx, out, src, desc)
        try:
            compare_headers(ctx, out, src, mode, desc, hyp)
        except Exception as e:  # noqa
            ctx.fail(f'header read-back failed: {type(e).__name__}: {str(e)[:120]}', desc)


def numpy_route(ctx, rng, k):
    n = (int(rng.integers(2, 9)), int(rng.integers(2, 40)), int(rng.integers(2, 6)))
    if k % 3 == 0:
        n = (8, 16, 4)  # 128 traces: 4x length is a multiple of 512
    arr = gen.cube(rng, n)
    il, xl = segycases.axes(rng, n)
    # every integer dtype, both byte orders (an array made with np.frombuffer(segy_bytes, '>i4') is big-endian)
    dtypes = [np.dtype(t) for t in (np.int64, np.int32, np.int16, np.uint16, np.int8, np.uint8, '>i4', '>u4', '>i2', '>i8', '<u4')]
    cand = [c for c in mksegy.ALL_FIELDS if c not in (189, 193)]
    codes = sorted(int(c) for c in rng.choice(cand, size=int(rng.integers(0, 6)), replace=False))
    hd = {}
    want = {}
    for c in codes:
        dt = dtypes[int(rng.integers(len(dtypes)))]
        info = np.iinfo(dt)
        a = rng.integers(max(info.min, -2 ** 31), min(info.max, 2 ** 31 - 1), size=n[:2], endpoint=True).astype(dt)
        hd[int(c)] = a
        want[c] = a.astype(np.int64)
    # now and then a key segyio's TraceField enum knows but the SGZ header-word table (89 rows) has no row for: the
    # converter may refuse the dict; if it accepts it, the array must read back like any other ("all header dicts accepted")
    beyond = sorted(set(int(v) for v in segyio.tracefield.keys.values()) - set(mksegy.ALL_FIELDS))
    extra = None
    if beyond and rng.random() < .15:
        extra = int(rng.choice(beyond))
        a = rng.integers(-1000, 1000, size=n[:2]).astype(np.int32)
        hd[extra] = a
        want[extra] = a.astype(np.int64)
        codes = codes + [extra]
    give_il = bool(rng.random() < .4)
    if give_il:
        hd[int(segyio.TraceField.INLINE_3D)] = np.broadcast_to(np.array(il, dtype=np.int64)[:, None], n[:2])
    want[189] = np.broadcast_to(np.array(il)[:, None], n[:2])
    want[193] = np.broadcast_to(np.array(xl)[None, :], n[:2])
    desc = {'route': 'numpy', 'n': n, 'fields': {c: str(hd[int(c)].dtype) for c in codes}, 'key_beyond_table': extra, 'il': il[:2],
            'xl': xl[:2], 'il_header_given': give_il}
    ctx.case(('numpy', n, tuple(desc['fields'].items()), give_il), sample=desc)
    ctx.stats['route_numpy'] += 1
    out = ctx.path('n.sgz')
    try:
        ax_dt = [np.int64, '>i4', np.int32, '>i8', np.int16][k % 5] if max(map(abs, il + xl)) < 2 ** 15 else [np.int64, '>i4', '>i8'][k % 3]
        desc['axes_dtype'] = str(np.dtype(ax_dt))
        conv.numpy_to_sgz(arr, out, 16, (4, 4, -1), ilines=np.array(il, dtype=ax_dt), xlines=np.array(xl, dtype=ax_dt),
                          samples=4.0 * np.arange(n[2]), trace_headers=dict(hd))
    except Exception as e:  # noqa
        if extra is not None:
            ctx.stats['numpy_key_beyond_table_refused'] += 1
            return
        ctx.fail(f'NumPy conversion failed: {type(e).__name__}: {str(e)[:120]}', desc)
        return
    if extra is not None:
        ctx.stats['numpy_key_beyond_table_accepted'] += 1
    elif MODEL.get('m') is not None:
        given = set(int(c) for c in want)
        table_bytes(ctx, MODEL['m'], [f'{c}:0:{c if c in given else 0}' for c in spec.FIELDS], open(out, 'rb').read(2048), desc)
    for p in spec.conformance_problems(out):
        ctx.fail('written file not conformant: ' + p, desc)
    try:
        r = SgzReader(out)
    except Exception as e:  # noqa
        ctx.fail(f'file written from an accepted header dict cannot be opened: {type(e).__name__}: {str(e)[:80]}', desc)
        return
    with r:
        for c, a in want.items():
            try:
                got = np.asarray(r.get_tracefield_values(segyio.TraceField(c)))
            except Exception as e:  # noqa
                ctx.fail(f'tracefield {c} unreadable: {type(e).__name__}: {str(e)[:80]}', desc)
                continue
            if got.shape != a.shape or not np.array_equal(got.astype(np.int64), a):
                ctx.fail(f'NumPy route: header array {c} ({desc["fields"].get(c, "default")}) does not read back', desc)
        t = int(rng.integers(n[0] * n[1]))
        try:
            h = r.gen_trace_header(t)
        except Exception as e:  # noqa
            ctx.fail(f'NumPy route: gen_trace_header({t}) refused on a complete file: {type(e).__name__}: {str(e)[:100]}', desc)
            return
        for c, a in want.items():
            if int(h[segyio.TraceField(c)]) != int(a[t // n[1], t % n[1]]):
                ctx.fail(f'NumPy route: gen_trace_header({t})[{c}] wrong', desc)


def run(ctx):
    MODEL['m'] = core.Model()
    try:
        run_(ctx)
    finally:
        MODEL.pop('m').close()


def run_(ctx):
    rng = gen.rng_for(ctx.seed, 'c04')
    for k in range(ctx.n(28, 500)):
        segy_route(ctx, rng, k)
    for k in range(ctx.n(30, 600)):
        numpy_route(ctx, rng, k)


def replay(ctx, rp):
    run(ctx)
