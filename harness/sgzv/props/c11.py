"""C11 — windowed conversion."""
import numpy as np
import segyio

from .. import env, core, gen, conv, spec, mksegy, segycases, view

ASSUMPTIONS = ["A2 segyio", "the reference is the real converter run on a SEG-Y that holds only the windowed traces (same file "
               "headers), so C11 is relative to C01/C03/C04 on that file"]
RULE = ("SEG-Y cubes x windows 0<=min<max<=n on both axes (starting at 0, ending at n, single line excluded, interior; window "
        "trace counts on both sides of multiples of 128) x reduce_iops on/off x detection modes x layouts: the windowed SGZ "
        "must be byte-identical to the SGZ converted from a SEG-Y containing only the windowed traces (header fields, data "
        "section, footer, hash); plus fidelity/conformance of the windowed file itself"
        "; K: Model/Window.tStore (source trace held by every header slot) vs the stored arrays of the windowed file; window classes: all crosslines with min_il>0, all inlines, whole file")


def one(ctx, rng, k):
    n = (int(rng.integers(3, 12)), int(rng.integers(3, 12)), int(rng.integers(2, 20)))
    if k % 6 == 0:
        n = (10, 16, 3)
    arr = gen.cube(rng, n)
    il, xl = segycases.axes(rng, n)
    plan = mksegy.header_plan(rng, n_fields=int(rng.integers(0, 6)))
    plan.set_final(-1)
    H = [[plan(i, x, i * n[1] + x) for x in range(n[1])] for i in range(n[0])]
    sgy = ctx.path('full.sgy')
    fmt = [5, 1][k % 2]
    dt = int(rng.choice([4000, 2000, 1001]))
    a0, a1 = sorted(rng.choice(n[0] + 1, size=2, replace=False).tolist())
    b0, b1 = sorted(rng.choice(n[1] + 1, size=2, replace=False).tolist())
    # window classes a reader-selection guard may treat specially: every crossline kept (inline sub-range only, starting
    # above 0, inline count on every residue mod 4), every inline kept, the whole file given as a window
    klass = k % 5
    if klass == 1:
        b0, b1 = 0, n[1]
        a0 = max(a0, 1)
        a1 = max(a1, a0 + 1) if a0 < n[0] else n[0]
        a0 = min(a0, a1 - 1)
    elif klass == 2:
        a0, a1 = 0, n[0]
    elif klass == 3 and k % 10 == 3:
        a0, a1, b0, b1 = 0, n[0], 0, n[1]
    if k % 4 == 0:
        a0 = 0
    if k % 4 == 1:
        b0 = 0
    if k % 5 == 0:
        a1, b1 = n[0], n[1]
    if k % 6 == 0:
        a0, a1, b0, b1 = 1, 9, 0, 16   # 128 traces
    if a1 - a0 < 2:
        a0, a1 = (0, 2) if a0 == 0 else (a1 - 2, a1) if a1 >= 2 else (0, 2)
    if b1 - b0 < 2:
        b0, b1 = (0, 2) if b0 == 0 else (b1 - 2, b1) if b1 >= 2 else (0, 2)
    # header content adversarial to the window: pairs of fields that coincide, and fields that take a special value,
    # exactly on a chosen subset of {file first, file last, window first, window last} - what a heuristic evaluated
    # at the wrong traces gets wrong
    special = {'file_first': (0, 0), 'file_last': (n[0] - 1, n[1] - 1), 'win_first': (a0, b0), 'win_last': (a1 - 1, b1 - 1)}
    cand = [c for c in mksegy.ALL_FIELDS if mksegy.FIELD_WIDTH[c] == 4 and c not in (189, 193, 37, 115, 117) and c not in [p_[0] for p_ in plan.plan]]
    picks = [int(c) for c in rng.choice(cand, size=6, replace=False)]
    names = list(special)
    S1 = set(names[j] for j in range(4) if rng.random() < .5)
    S2 = set(names[j] for j in range(4) if rng.random() < .5)
    S3 = set(names[j] for j in range(4) if rng.random() < .5)
    # (mostly a single corner: a dead first or last trace of the file that the window leaves out)
    r4 = rng.random()
    S4 = {'file_first'} if r4 < .35 else {'file_last'} if r4 < .55 else {'win_first'} if r4 < .65 else \
        set(names[j] for j in range(4) if rng.random() < .5)
    for i in range(n[0]):
        for x in range(n[1]):
            t = i * n[1] + x
            at = set(nm for nm, pos in special.items() if pos == (i, x))
            H[i][x][picks[0]] = 7 + 3 * t
            H[i][x][picks[1]] = 7 + 3 * t if at & S1 else 100000 + 5 * t      # coincides with picks[0] exactly on S1
            H[i][x][picks[2]] = 0 if at & S2 else 11 + t                       # zero exactly on S2
            H[i][x][picks[3]] = 4242 if (at & S3 or not at) else 17 + t        # constant except on the special traces not in S3
            H[i][x][picks[4]] = 7 + 3 * t if at & (set(names) - S1) else -5 - t  # coincides with picks[0] on the complement
            H[i][x][picks[5]] = 0 if at & S4 else 777                          # one constant value, zero exactly on S4
    mksegy.make_segy(sgy, arr, ilines=il, xlines=xl, fmt=fmt, dt_us=dt, headers=lambda i, x, t: H[i][x])
    sub = ctx.path('sub.sgy')
    mksegy.make_segy(sub, arr[a0:a1, b0:b1], ilines=il[a0:a1], xlines=xl[b0:b1], fmt=fmt, dt_us=dt,
                     headers=lambda i, x, t: H[i + a0][x + b0])
    with open(sgy, 'rb') as f1, open(sub, 'r+b') as f2:   # same textual + binary file header in both sources
        f2.write(f1.read(3600))
    mode = ['heuristic', 'thorough', 'exhaustive', 'strip'][(k + k // 4) % 4]   # (every mode meets every window class)
    ri = bool((k // 2) % 2)
    q, bs = [(16, None), (32, (4, 4, -1)), (16, (8, 8, -1)), (8, (4, 8, -1))][k % 4]
    desc = {'n': n, 'window': (a0, a1, b0, b1), 'mode': mode, 'reduce_iops': ri, 'q': q, 'bs': bs, 'il': il[:2], 'xl': xl[:2],
            'fmt': fmt, 'plan': [(c, kk) for c, kk, _ in plan.plan],
            'coincide_on': sorted(S1), 'zero_on': sorted(S2), 'const_except': sorted(set(names) - S3), 'const_zero_on': sorted(S4), 'fields': picks}
    ctx.case((n, (a0, a1, b0, b1), mode, ri, q, bs), sample=desc)
    ctx.stats['mode_' + mode] += 1
    ctx.stats['window_starts_at_0'] += int(a0 == 0 or b0 == 0)
    ctx.stats['reduce_iops'] += int(ri)
    w, r = ctx.path('w.sgz'), ctx.path('r.sgz')
    try:
        conv.segy_to_sgz(sgy, w, q, bs, reduce_iops=ri, header_detection=mode, window=(a0, a1, b0, b1))
    except Exception as e:  # noqa
        ctx.fail(f'windowed conversion failed: {type(e).__name__}: {str(e)[:120]}', desc)
        return
    conv.segy_to_sgz(sub, r, q, bs, reduce_iops=ri, header_detection=mode)
    bw, br = open(w, 'rb').read(), open(r, 'rb').read()
    # K: Model/Window.tStore (header slot of every window trace) vs the real windowed conversion: field picks[0] carries
    # 7 + 3 * (source trace ordinal), so the stored array tells which source trace sits in which slot
    m = MODEL.get('m')
    if m is not None and mode in ('exhaustive', 'thorough') and not spec.Header(bw[:8192]).is2d:
        try:
            arrs = spec.read_footer_arrays(w)
            if picks[0] in arrs:
                ctx.stats['corr_requests'] += 1
                real = ' '.join(str((int(v) - 7) // 3 if int(v) != 0 else -1) for v in np.asarray(arrs[picks[0]]).ravel())
                ans = m.ask(f'window {n[1]} {a0} {a1} {b0} {b1}').split(' | ')[0]
                if ans != real:
                    ctx.corr_fail('Model.Window/tStore', f'window {n[1]} {a0} {a1} {b0} {b1}', ans[:160], real[:160], desc)
        except Exception as e:  # noqa
            ctx.corr_fail('Model.Window/tStore', f'window {n[1]} {a0} {a1} {b0} {b1}', 'readable footer', f'{type(e).__name__}: {e}', desc)
    # K: Model/Window.axisWords + windowAxis (header words of both line axes of the windowed file, and the axis regenerated
    # from them) vs the real windowed file's header and vs the source axis slice
    if m is not None:
        try:
            hw0 = spec.Header(bw[:8192])
            if not hw0.is2d:
                for nm, ax, c0, c1, real3 in (('il', il, a0, a1, (hw0.n_il, hw0.il0, hw0.dil)), ('xl', xl, b0, b1, (hw0.n_xl, hw0.xl0, hw0.dxl))):
                    ctx.stats['corr_requests'] += 1
                    req = f'winaxes {int(ax[0])} {int(ax[1]) - int(ax[0])} {c0} {c1}'
                    ans = m.ask(req)
                    real = ' '.join(str(int(v)) for v in real3) + ' | ' + ' '.join(str(int(v)) for v in ax[c0:c1])
                    if ans != real:
                        ctx.corr_fail('Model.Window/axisWords', req, ans[:160], real[:160], desc)
        except Exception as e:  # noqa
            ctx.corr_fail('Model.Window/axisWords', f'winaxes {a0} {a1} {b0} {b1}', 'readable header', f'{type(e).__name__}: {e}', desc)
    if bw != br:
        probs = []
        hw, hr = spec.Header(bw[:8192]), spec.Header(br[:8192])
        for f in ('n_samples', 'n_xl', 'n_il', 'z0', 'xl0', 'il0', 'dz', 'dxl', 'dil', 'q', 'bs', 'data_blocks', 'array_bytes',
                  'n_arrays', 'tracecount_field', 'version', 'detection', 'hash', 'table_raw'):
            if getattr(hw, f) != getattr(hr, f):
                probs.append(f'header field {f}: {str(getattr(hw, f))[:40]} vs {str(getattr(hr, f))[:40]}')
        if len(bw) != len(br):
            probs.append(f'file length {len(bw)} vs {len(br)}')
        ds = 8192
        de = ds + 4096 * hr.data_blocks
        if bw[ds:de] != br[ds:de]:
            probs.append('data section differs')
        if bw[de:] != br[de:]:
            probs.append('footer differs')
        if bw[4096:8192] != br[4096:8192]:
            probs.append('stored SEG-Y file header differs')
        ctx.fail('windowed SGZ differs from the SGZ of the windowed cube: ' + '; '.join(probs[:5] or ['bytes differ']), desc)
    else:
        src = conv.segy_cube(sub)
        for p in conv.fidelity_problems(w, src, q) + spec.conformance_problems(w):
            ctx.fail('windowed file: ' + p, desc)


MODEL = {}


def run(ctx):
    rng = gen.rng_for(ctx.seed, 'c11')
    MODEL['m'] = core.Model()
    try:
        for k in range(ctx.n(48, 900)):
            one(ctx, rng, k)
    finally:
        MODEL.pop('m').close()


def replay(ctx, rp):
    run(ctx)
