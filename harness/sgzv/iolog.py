"""File-like and blob-like objects that log / fault the range reads the real reader issues.
Passed to SgzReader through its public constructor paths (file handle; object with download_blob)."""
import io
import threading


class IOFault(IOError):
    pass


class FaultPlan:
    """which range read (by ordinal since arming) fails, and how: 'exc' | 'short' | 'empty'"""
    def __init__(self, faults=None):
        self.faults = dict(faults or {})
        self.count = 0
        self.lock = threading.Lock()
        self.fired = []

    def next(self):
        with self.lock:
            k = self.count
            self.count += 1
        return k, self.faults.get(k)


class LoggedFile(io.RawIOBase):
    """file handle whose seek/read pairs are recorded as (offset, requested, returned)"""
    def __init__(self, path):
        super().__init__()
        self._f = path if hasattr(path, 'read') else open(path, 'rb')     # a path, or a (virtual) file object
        self.name = getattr(path, 'name', path)
        self.log = []
        self.plan = None
        self._pos = 0
        self.armed = True

    def seek(self, off, whence=0):
        self._pos = self._f.seek(off, whence)
        return self._pos

    def tell(self):
        return self._pos

    def readable(self):
        return True

    def read(self, n=-1):
        off = self._pos
        self._f.seek(off)
        kind = None
        if self.plan is not None and self.armed:
            k, kind = self.plan.next()
            if kind == 'exc':
                self.plan.fired.append((k, kind, off, n))
                self.log.append((off, n, -1))
                raise IOFault(f'injected failure of range read #{k} [{off},+{n})')
        data = self._f.read(n)
        if kind == 'short' and len(data) > 0:
            data = data[:max(0, len(data) - max(1, len(data) // 3))]
            self.plan.fired.append((k, kind, off, n))
        elif kind == 'empty':
            data = b''
            self.plan.fired.append((k, kind, off, n))
        self._pos = off + len(data)
        if self.armed:
            self.log.append((off, n, len(data)))
        return data

    def close(self):
        try:
            self._f.close()
        finally:
            super().close()


class _Downloader:
    def __init__(self, fn):
        self._fn = fn

    def readall(self):
        return self._fn()


class LoggedBlob:
    """stands in for azure.storage.blob.BlobClient (public constructor path: hasattr(file,'download_blob'))"""
    def __init__(self, path, delay=None):
        self.path = path
        self.virtual = path if hasattr(path, 'read') else None      # a (virtual) file object instead of a path
        self.blob_name = getattr(path, 'name', path)
        self.log = []
        self.plan = None
        self.lock = threading.Lock()
        self.delay = delay   # callable(offset, length) -> seconds, to permute completion order
        self.armed = True

    def download_blob(self, offset=None, length=None):
        def go():
            kind = None
            if self.plan is not None and self.armed:
                k, kind = self.plan.next()
                if kind == 'exc':
                    self.plan.fired.append((k, kind, offset, length))
                    with self.lock:
                        self.log.append((offset, length, -1))
                    raise IOFault(f'injected failure of blob range read #{k} [{offset},+{length})')
            if self.delay is not None:
                import time
                time.sleep(self.delay(offset, length))
            if self.virtual is not None:
                with self.lock:
                    self.virtual.seek(offset)
                    data = self.virtual.read(length)
            else:
                with open(self.path, 'rb') as f:
                    f.seek(offset)
                    data = f.read(length)
            if kind == 'short' and len(data) > 0:
                data = data[:max(0, len(data) - max(1, len(data) // 3))]
                self.plan.fired.append((k, kind, offset, length))
            elif kind == 'empty':
                data = b''
                self.plan.fired.append((k, kind, offset, length))
            if self.armed:
                with self.lock:
                    self.log.append((offset, length, len(data)))
            return data
        return _Downloader(go)

    def close(self):
        pass


def coalesce(ranges):
    """sorted, merged list of (offset, length) from (offset, length[, got]) tuples"""
    rs = sorted((r[0], r[0] + r[1]) for r in ranges if r[1] > 0)
    out = []
    for a, b in rs:
        if out and a <= out[-1][1]:
            out[-1][1] = max(out[-1][1], b)
        else:
            out.append([a, b])
    return [(a, b - a) for a, b in out]


def overlap_bytes(ranges):
    """number of bytes requested more than once"""
    rs = sorted((r[0], r[0] + r[1]) for r in ranges if r[1] > 0)
    total = sum(b - a for a, b in rs)
    return total - sum(l for _, l in coalesce(ranges))
