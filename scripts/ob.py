#!/usr/bin/env python3
"""ob.py <Cxx> <module[,module]> <component[,component]> <theorem...>  -- (re)register the theorem list of one property"""
import json, sys, os
V = os.path.dirname(os.path.dirname(os.path.abspath(__file__)))
p = os.path.join(V, 'lean', 'obligations.json')
ob = json.load(open(p))
pid, mods, comps, *ths = sys.argv[1:]
e = ob.setdefault(pid, {'modules': [], 'theorems': [], 'components': []})
for m in mods.split(','):
    if m and m not in e['modules']:
        e['modules'].append(m)
for c in comps.split(','):
    if c and c not in e['components']:
        e['components'].append(c)
for t in ths:
    if t not in e['theorems']:
        e['theorems'].append(t)
ob = {k: ob[k] for k in sorted(ob)}
json.dump(ob, open(p, 'w'), indent=1)
print(pid, len(e['theorems']), 'theorems')
