#!/usr/bin/env python3
"""Run the repository's pinned baseline (guard OFF) and compare with /root/.vp/BASELINE.json stable_pass."""
import json, os, subprocess, sys, tempfile, xml.etree.ElementTree as ET
base = json.load(open('/root/.vp/BASELINE.json'))
env = dict(os.environ)
env.pop('SEISMIC_ZFP_VERIF', None)
with tempfile.TemporaryDirectory() as d:
    x = os.path.join(d, 'j.xml')
    cmd = base['cmd'].replace('<file>', x)
    p = subprocess.run(cmd, shell=True, env=env, stdout=subprocess.PIPE, stderr=subprocess.STDOUT, text=True)
    passed = set()
    for tc in ET.parse(x).getroot().iter('testcase'):
        if not any(c.tag in ('failure', 'error', 'skipped') for c in tc):
            passed.add(f"{tc.get('classname')}::{tc.get('name')}")
missing = [t for t in base['stable_pass'] if t not in passed]
print(f"baseline: {len(base['stable_pass']) - len(missing)}/{len(base['stable_pass'])} stable tests pass; {len(passed)} pass in total")
for m in missing:
    print("  MISSING", m)
sys.exit(1 if missing else 0)
