#!/usr/bin/env python3
"""Confirm each staged mutant in a scratch worktree of /repo (never in /repo itself) and file it under seeded/<id>/.
For every /verif/seeded/_staging/out_<Cxx>: patch applies to HEAD; pinned baseline (93 stable tests) still passes with
it; demo.py FAILs with the patch and PASSes without; then run our check on it (apply to /repo, run, undo)."""
import json, os, shutil, subprocess, sys, glob
V = '/verif'
WT = '/tmp/mut/confirm_wt'
base = json.load(open('/root/.vp/BASELINE.json'))
def sh(cmd, cwd=None, env=None, timeout=1800):
    p = subprocess.run(cmd, shell=True, cwd=cwd, env=env, stdout=subprocess.PIPE, stderr=subprocess.STDOUT, text=True, timeout=timeout)
    return p.returncode, p.stdout
subprocess.run(f'git -C /repo worktree remove --force {WT}', shell=True, capture_output=True)
rc, out = sh(f'git -C /repo worktree add -q --detach {WT} HEAD')
assert rc == 0, out
head = sh('git -C /repo rev-parse --short HEAD')[1].strip()
env = dict(os.environ, PYTHONPATH=f'{WT}:/verif/scripts')
def stable_pass():
    import tempfile, xml.etree.ElementTree as ET
    with tempfile.TemporaryDirectory() as d:
        x = os.path.join(d, 'j.xml')
        rc, out = sh(f'/venv/bin/python -m pytest -q -p no:cacheprovider --timeout=900 --junitxml={x}', cwd=WT, env=dict(os.environ, PYTHONPATH=WT))
        ok = set()
        for tc in ET.parse(x).getroot().iter('testcase'):
            if not any(c.tag in ('failure', 'error', 'skipped') for c in tc):
                ok.add(f"{tc.get('classname')}::{tc.get('name')}")
    return [t for t in base['stable_pass'] if t not in ok]
results = {}
STAGING = os.environ.get('STAGING', f'{V}/seeded/_staging')
SUFFIX = os.environ.get('SUFFIX', '')
only = sys.argv[1:]
for d in sorted(glob.glob(f'{STAGING}/out_C*')):
    pid = os.path.basename(d)[4:]
    if only and pid not in only:
        continue
    patch = os.path.join(d, 'patch.diff')
    demo = os.path.join(d, 'demo.py')
    r = {'property': pid, 'repo_head': head}
    rc, out = sh(f'git apply --check {patch}', cwd=WT)
    r['applies'] = rc == 0
    if rc != 0:
        r['apply_error'] = out[-300:]
        results[pid] = r
        print(pid, r); continue
    rc0, out0 = sh(f'/venv/bin/python {demo}', cwd=WT, env=env)
    r['demo_clean'] = (rc0, out0.strip().splitlines()[-1][:200] if out0.strip() else '')
    sh(f'git apply {patch}', cwd=WT)
    missing = stable_pass()
    r['baseline_missing_with_patch'] = missing
    rc1, out1 = sh(f'/venv/bin/python {demo}', cwd=WT, env=env)
    r['demo_patched'] = (rc1, [l for l in out1.strip().splitlines() if 'FAIL' in l][:1] or out1.strip().splitlines()[-1:])
    sh('git checkout -- . && git clean -fdq', cwd=WT)
    # our check against it (apply to /repo, run, undo straight afterwards)
    sh(f'git -C /repo apply {patch}')
    try:
        rcc, outc = sh(f'/venv/bin/python harness/check.py {pid} --tier quick', cwd=V, env=dict(os.environ, SGZV_OUT='/tmp/mut/confirm_out'))
    finally:
        sh('git -C /repo checkout -- .')
    r['check_exit'] = rcc
    r['check_lines'] = [l for l in outc.splitlines() if l.startswith('VIOLATION') or l.startswith('[C')][:3]
    r['confirmed'] = bool(r['applies'] and rc0 == 0 and rc1 != 0 and not missing)
    r['caught'] = rcc == 1
    results[pid] = r
    print(pid, 'confirmed' if r['confirmed'] else 'NOT CONFIRMED', 'caught' if r['caught'] else 'MISSED', r['demo_clean'], r['demo_patched'], missing[:2])
    if r['confirmed']:
        dst = f'{V}/seeded/{pid}{SUFFIX}'
        os.makedirs(dst, exist_ok=True)
        for f in ('patch.diff', 'demo.py', 'notes.md'):
            if os.path.exists(os.path.join(d, f)):
                shutil.copy(os.path.join(d, f), dst)
        notes = open(os.path.join(d, 'notes.md')).read() if os.path.exists(os.path.join(d, 'notes.md')) else ''
        meta = {'property': pid, 'breaks': pid, 'source': 'independent sub-agent given only the property text and a scratch worktree',
                'needs_to_manifest': notes[:1500],
                'confirmed_on_repo_head': head,
                'what_was_run': ['git apply --check patch.diff (scratch worktree of /repo at HEAD)',
                                 'baseline: /venv/bin/python -m pytest (all 93 stable tests of BASELINE.json still pass with the patch)',
                                 'demo.py on the clean worktree: exit 0 / PASS', 'demo.py with the patch applied: exit 1 / FAIL',
                                 f'harness/check.py {pid} --tier quick with the patch applied to /repo (undone afterwards)'],
                'demo_clean': r['demo_clean'], 'demo_patched': r['demo_patched'],
                'our_check': {'exit': rcc, 'lines': r['check_lines'], 'caught': r['caught']}}
        json.dump(meta, open(os.path.join(dst, 'meta.json'), 'w'), indent=1)
for p in glob.glob(f'{V}/replays/*.json'):
    os.unlink(p)
subprocess.run(f'git -C /repo worktree remove --force {WT}', shell=True, capture_output=True)
os.makedirs('/tmp/mut', exist_ok=True)
json.dump(results, open('/tmp/mut/confirm_results.json', 'w'), indent=1)
