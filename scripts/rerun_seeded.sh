#!/bin/bash
# re-run the property's quick check against every seeded change (applied to /repo, undone straight afterwards)
# usage: rerun_seeded.sh [ids...]   -> one line per seeded change: caught / MISSED
cd /verif
ids=${@:-$(ls seeded | grep '^C')}
for s in $ids; do
  pid=$(python3 -c "import json;print(json.load(open('seeded/$s/meta.json'))['property'])")
  if ! git -C /repo apply --check /verif/seeded/$s/patch.diff 2>/dev/null; then echo "$s $pid PATCH-DOES-NOT-APPLY"; continue; fi
  git -C /repo apply /verif/seeded/$s/patch.diff
  out=$(/venv/bin/python harness/check.py $pid --tier quick 2>&1); rc=$?
  git -C /repo checkout -- . 
  n=$(echo "$out" | grep -c '^VIOLATION')
  fi_=$(echo "$out" | grep '^VIOLATION' | grep -vc 'no-failing-input-found')
  echo "$s $pid exit=$rc violations=$n with-failing-input=$fi_ $([ $rc -eq 1 ] && echo caught || echo MISSED)"
done
rm -rf /verif/replays
git -C /repo status --short | head -3
