#!/usr/bin/env python3
"""Record the AST hash of every source file of /repo's package in /verif/anchors.json (run after the model has been
re-validated against the tree: all quick checks clean)."""
import json, os, subprocess, sys
sys.path.insert(0, '/verif/harness')
from sgzv import anchors
head = subprocess.run('git -C /repo rev-parse --short HEAD', shell=True, capture_output=True, text=True).stdout.strip()
dirty = subprocess.run('git -C /repo status --porcelain -- seismic_zfp', shell=True, capture_output=True, text=True).stdout.strip()
assert not dirty, 'refusing to record anchors on a modified tree:\n' + dirty
json.dump({'repo_head': head, 'files': anchors.current()}, open(anchors.RECORD, 'w'), indent=1)
print('recorded', head, len(anchors.current()), 'files')
