#!/usr/bin/env python3
"""Writes /verif/MANIFEST.json from the per-property table below (kept in one place so that it stays consistent)."""
import json, os
V = os.path.dirname(os.path.dirname(os.path.abspath(__file__)))
ob = json.load(open(os.path.join(V, 'lean', 'obligations.json')))
props = {json.loads(l)['id']: json.loads(l) for l in open(os.path.join(V, 'properties.jsonl'))}
TEXT = {
 'C01': ("Lean: the producers' emission order is the specification's unit order (whole-plane-set and per-block emission), the three "
         "edge-replication steps compose to a clamp, composition with C02 gives write-then-read for all cube shapes/layouts/rates; "
         "tie: per-unit source-cell table recorded by a symbolic compressor vs the model on every route; oracle: bit-exact zfpy image "
         "and reference encoder", "8/C01, App. D"),
 'C02': ("Lean: every read method returns exactly the slice of the decoded volume the specification's address function defines "
         "(all geometries, all in-range arguments, every layout branch); tie: provenance of every returned element (symbolic "
         "decoder) vs the model; oracle: slices of read_volume() and of the spec decoder", "8/C02, App. D"),
 'C03': ("Lean: version word codec bijective and order preserving, gates characterised; disk-block count exact with no remainder; "
         "footer offsets writer = reader; file length; tie: version words, container figures of real outputs; oracle: spec "
         "decoder on every writer and composition", "8/C03, App. D"),
 'C04': ("Lean: classification + capture + regeneration returns every field of every trace (exhaustive/thorough unconditionally; "
         "heuristic under the property's hypothesis, with decided counter-examples without it); tie: table bytes vs model; oracle: "
         "segyio on the source", "8/C04, App. D"),
 'C05': ("Lean: int32 axis round trip through unsigned read, int64 arithmetic and wrap for all starts/steps/counts; interval "
         "rounding lemma over Q (A4); tie: stored words and reader axes vs model; oracle: segyio axes, interval sweep", "8/C05, App. D"),
 'C06': ("Lean: export format field, file-header identity, exported headers equal the source's (via C04), trace order; tie: format "
         "decision incl. unknown codes; oracle: round trips vs segyio and the spec decoder (IEEE exact / IBM 2^-20)", "8/C06, App. D"),
 'C07': ("Lean: for every read path the 4 KiB blocks touched are exactly the blocks holding requested samples and the range reads "
         "are pairwise disjoint (same loader definitions as C02); tie: (offset,length) sets at logging file/blob objects vs model; "
         "oracle: needed-block predicate, open/header/preload counts", "8/C07, App. D"),
 'C08': ("Lean: inferred axis = true axis when every line is populated; ordinal->grid map = source order; inline-0 witness; tie: "
         "inferRange / populated vs header and reader mask; oracle: source traces/headers, zero-filled image", "8/C08, App. D"),
 'C09': ("Lean: 2D address function, loaders, guards, 2D emission order and edge replication, write-then-read; tie: 2D reads and "
         "2D writer/hash feed vs model; oracle: 2D zfpy image bit-exact", "8/C09, App. D"),
 'C10': ("Lean: the copied units are the address map of the sub-cube in every layout, positions preserved, bounds widened outward "
         "and clipped, refusal conditions; tie: box and copied-unit list vs real cropper; oracle: every API view of the crop", "8/C10, App. D"),
 'C11': ("Lean: window fill = sub-cube fill, header slots in window raster order (bijection), detection traces; tie: slot table "
         "vs stored arrays; oracle: byte identity with the SGZ of the windowed SEG-Y, both readers", "8/C11, App. D"),
 'C12': ("Lean: every real voxel keeps its source unit under re-blocking, output geometry valid, unsupported inputs refused; tie: "
         "unit list of the real output; oracle: every API view vs source", "8/C12, App. D"),
 'C13': ("Lean: emulator line slices = segyio's resolution for all key sets/slices; ordinal slices stay in range; negative "
         "ordinals; tie: model vs CPython slice.indices/range, vs accessors and vs segyio.Line.ranges; oracle: expression grammar "
         "on seismic_zfp.open vs segyio.open", "8/C13, App. D"),
 'C14': ("Lean: out-of-range arguments give index/dimensionality errors for every method and arbitrary integers; with C02 "
         "in-range results address real voxels only; tie/oracle: out-of-range tuples of every class", "8/C14, App. D"),
 'C15': ("Lean: cache state machine (class-level loader slots, per-reader chunk LRU, preload, close): every call of every history "
         "returns the fresh reader's array (inductive invariant); tie: per-call outcome, digest and range reads of real histories; "
         "oracle: near-collision histories incl. emulator", "8/C15, App. D"),
 'C16': ("Lean: inductive invariant of the 3-thread/2-queue transition system for every N, capacity and schedule: safety at "
         "return, no deadlock, exactly 7N+5 actions; tie: controlled scheduler replays in the model; oracle: bytes vs sequential "
         "run with lazy compression", "8/C16, App. D"),
 'C17': ("Lean: any program over length-checked range reads under any fault plan raises or returns the fault-free value; a fault "
         "at an issued read raises; fan-out buffer independent of completion order; tie: fetch sequences and fault verdicts; "
         "oracle: every position x kind, file and blob", "8/C17, App. D"),
 'C18': ("Lean: any program over length-checked range reads on a byte prefix (or with a pending patch in an unused region) "
         "raises or agrees with the complete file; explicit verdict for model read calls; tie: truncation verdicts on crash "
         "states; oracle: captured write logs and truncations x all read paths", "8/C18, App. D"),
 'C19': ("Lean: resolve = error or a Valid configuration (soundness); every valid configuration resolves to itself from each "
         "presentation (completeness); Valid implies the geometry hypotheses of C01-C03; tie: whole valid grid + near misses; "
         "oracle: tiny conversions", "8/C19, App. D"),
 'C20': ("Lean: the stream fed to the hash is exactly the real samples in trace order for every shape/layout, 3D and 2D; tie: "
         "logged hash updates vs model on every route; oracle: SHA-1 of the source, perturbations, re-block", "8/C20, App. D"),
}
checks = []
for pid in sorted(props):
    text, ref = TEXT[pid]
    n = len(ob.get(pid, {}).get('theorems', []))
    nt = len(ob.get(pid, {}).get('tie', []))
    checks.append({
        'property_id': pid,
        'quick_cmd': f'/venv/bin/python harness/check.py {pid} --tier quick',
        'thorough_cmd': f'/venv/bin/python harness/check.py {pid} --tier thorough',
        'evidence_file': f'evidence/{pid}.json',
        'replay_cmd_template': f'/venv/bin/python harness/check.py {pid} --replay {{path}}',
        'engine': 'lean4-proof+correspondence',
        'level_claimed': {'category': 'proof', 'text': text + f' ({n} kernel-checked theorems' + (f' + {nt} translator-tie theorems' if nt else '') + ' listed in lean/obligations.json)',
                          'design_ref': 'DESIGN.md section ' + ref},
        'level_note': 'Trusted: Lean 4.33 kernel (axioms propext, Classical.choice, Quot.sound only); the hand-written model, tied to '
                      '/repo by the differential correspondence and direct oracle run by this check' + ('; its offset / count / guard arithmetic is also tied to the source text by definitions regenerated from it on every run (harness/sgzv/translate.py, itself validated each run by evaluating every generated definition against the evaluation of the source expression by Python) and the tie theorems of lean/Sgz/Tie' if nt else '') + '; harness generators, symbolic '
                      'codec and spec codec; assumptions A1-A5 of DESIGN.md section 7 (zfpy cellwise coding, segyio/pyvds/pyzgy, CPython '
                      'queue/hashlib, binary64, OS prefix semantics).',
        'technique': 'machine-checked proof in Lean 4 (theorems over a hand-written executable model, kernel-checked, axioms audited '
                     'each run)' + (' + translator tie (Lean definitions regenerated from the Python source on every run, proved equal to the model\'s)' if nt else '') + ' + differential correspondence of the compiled model driver with the real code + direct oracle '
                     'on the real code as failing-input search',
    })
m = {
 'version': 1,
 'setup_cmd': 'cd lean && lake build',
 'hooks': {'guard': 'SEISMIC_ZFP_VERIF', 'enable': 'no source hooks: instrumentation is library-level patching inside the harness process '
           '(pkg_resources.get_distribution, zfpy.compress_numpy/_decompress, queue.Queue, threading.Thread.start, builtins.open); the '
           'guard variable is set by the harness but /repo contains no guarded code',
           'baseline_off_cmd': '/venv/bin/python scripts/baseline.py', 'source_commits': [], 'add_only': True},
 'engines': [{'name': 'lean4-proof+correspondence', 'path': 'lean/ + harness/', 'serves_properties': sorted(props),
              'kind_free_text': 'Lean 4 model (lean/Sgz/Model) and theorems (lean/Sgz/Props); Python harness drives the compiled model '
                                'driver and the real code on the same requests'}],
 'checks': checks,
 'notes': 'Every check: (1) lake build + #print axioms audit of the theorems listed for the property, incl. the translator-tie theorems against definitions regenerated from the current source, (2) correspondence of the model '
          'components with /repo\'s working tree, (3) direct oracle on the real code; verdict logic in DESIGN.md section 6. '
          'known_findings.json lists recorded defects; fix: commits are listed there as fixed.',
 'not_applicable': [],
}
json.dump(m, open(os.path.join(V, 'MANIFEST.json'), 'w'), indent=1)
print('wrote MANIFEST.json with', len(checks), 'checks')
