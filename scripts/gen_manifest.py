#!/usr/bin/env python3
"""Writes /verif/MANIFEST.json from the per-property table below (kept in one place so that it stays consistent)."""
import json, os
V = os.path.dirname(os.path.dirname(os.path.abspath(__file__)))
ob = json.load(open(os.path.join(V, 'lean', 'obligations.json')))
props = {json.loads(l)['id']: json.loads(l) for l in open(os.path.join(V, 'properties.jsonl'))}
TEXT = {
 'C01': ("Lean: Writer emission order is the specification's unit order and edge replication composes to a clamp (all cube shapes, layouts); "
         "tie: symbolic-compressor unit table vs model, bit-exact reference image and reference encoder on every route", "8/C01"),
 'C02': ("Lean: every loader's provenance equals the specification's address function for all geometries and in-range arguments; tie: "
         "provenance of every element returned by the real reader (symbolic decoder) vs model and vs spec decoder", "8/C02"),
 'C03': ("Lean: version word codec is a bijection preserving release order, gates characterised (all words, unbounded); header/footer size "
         "equations; tie: all/seeded version words through both, spec decoder on every writer's output and compositions", "8/C03"),
 'C04': ("Lean: classification + capture + regeneration returns every field of every trace (exhaustive/thorough; heuristic under the "
         "property's hypothesis, with a decided counter-example without it); tie: generated SEG-Y header plans vs segyio", "8/C04"),
 'C05': ("Lean: int32 axis codec round trip through the unsigned read + wrap for all |values| < 2^31; interval rounding lemma over Q; "
         "tie: axis classes incl. extremes, interval sweep (thorough: all 65535 x 6)", "8/C05"),
 'C06': ("Lean: export model composes C04/C05 facts (header i, file-header bytes, format-code field); tie: round trips vs segyio and vs the "
         "spec decoder, IEEE exact / IBM 2^-20", "8/C06"),
 'C07': ("Lean: on the same loader definitions as C02, fetched ranges are exactly the needed blocks, pairwise disjoint; tie: (offset,length) "
         "sets at logging file/blob objects vs model fetch lists, needed-block predicate", "8/C07"),
 'C08': ("Lean: inferred geometry = true axes when every line is populated; ordinal->grid map is the rank of populated positions; tie: "
         "generated irregular surveys vs segyio and zero-filled reference image", "8/C08"),
 'C09': ("Lean: 2D address function, 2D loaders coherent, guards; tie: 2D conversions bit-exact vs 2D reference image, symbolic reads vs "
         "model", "8/C09"),
 'C10': ("Lean: crop unit permutation carries Spec.addr of the source to Spec.addr of the output, refusal conditions; tie: every API view "
         "of cropped file vs source restricted (symbolic decoder), spec conformance", "8/C10"),
 'C11': ("Lean: window remap is a bijection onto [0,|w|) in raster order; tie: windowed SGZ byte-identical to SGZ of the windowed SEG-Y", "8/C11"),
 'C12': ("Lean: re-block permutation: output unit at Spec.addr g64 c holds source unit Spec.addr g c for every real cell; tie: all API "
         "views of re-blocked file vs source", "8/C12"),
 'C13': ("Lean: emulator line-slice = model of segyio's sanitize_slice+indices+membership for all axes/slices; Python slice.indices model; "
         "tie: expression grammar on seismic_zfp.open vs segyio.open", "8/C13"),
 'C14': ("Lean: out-of-range arguments give index/dimensionality errors and in-range arguments address only real voxels (same Reader "
         "definitions as C02); tie: out-of-range tuples of every class vs model and provenance oracle", "8/C14"),
 'C15': ("Lean: memo table with arbitrary retention answers like the pure function after any history (induction over List Op); tie: "
         "near-collision histories over several readers + emulator vs fresh reader", "8/C15"),
 'C16': ("Lean: inductive invariant of the 3-thread/2-queue transition system for every N, capacity and schedule: safety at return, "
         "no deadlock, exactly 7N+5 actions; tie: controlled scheduler replays in the model", "8/C16"),
 'C17': ("Lean: fan-out buffer is independent of completion order (disjoint writes) and a checked read is all-or-error; tie: fault "
         "injection at every read position x kind on file and blob backends", "8/C17"),
 'C18': ("Lean: a length-checked read on a prefix file is error or equal to the complete file's; tie: crash states from captured write "
         "logs and byte truncations x every read path", "8/C18"),
 'C19': ("Lean: resolve = error or a Valid configuration; every valid configuration resolves to itself from each presentation; tie: the "
         "complete valid grid + near misses + sampled grid through define_blockshape_* and tiny conversions", "8/C19"),
 'C20': ("Lean: hash feed = serialisation of the real samples in trace order for every shape/layout (plane-set and trace-group "
         "producers); tie: SHA-1 of source vs stored hash over routes/settings, single-sample perturbations", "8/C20"),
}
checks = []
for pid in sorted(props):
    text, ref = TEXT[pid]
    n = len(ob.get(pid, {}).get('theorems', []))
    checks.append({
        'property_id': pid,
        'quick_cmd': f'/venv/bin/python harness/check.py {pid} --tier quick',
        'thorough_cmd': f'/venv/bin/python harness/check.py {pid} --tier thorough',
        'evidence_file': f'evidence/{pid}.json',
        'replay_cmd_template': f'/venv/bin/python harness/check.py {pid} --replay {{path}}',
        'engine': 'lean4-proof+correspondence',
        'level_claimed': {'category': 'proof', 'text': text + f' ({n} kernel-checked theorems listed in lean/obligations.json)',
                          'design_ref': 'DESIGN.md section ' + ref},
        'level_note': 'Trusted: Lean 4.33 kernel (axioms propext, Classical.choice, Quot.sound only); the hand-written model, tied to '
                      '/repo only by the differential correspondence and direct oracle run by this check; harness generators, symbolic '
                      'codec and spec codec; assumptions A1-A5 of DESIGN.md section 7 (zfpy cellwise coding, segyio/pyvds/pyzgy, CPython '
                      'queue/hashlib, binary64, OS prefix semantics).',
        'technique': 'Lean 4 theorems over a hand-written executable model + differential correspondence (model driver vs real code) '
                     '+ direct oracle for failing-input search',
    })
m = {
 'version': 1,
 'setup_cmd': 'cd lean && lake build',
 'hooks': {'guard': 'SEISMIC_ZFP_VERIF', 'enable': 'no source hooks: instrumentation is library-level patching inside the harness process '
           '(pkg_resources.get_distribution, zfpy.compress_numpy/_decompress, queue.Queue, threading.Thread.start, builtins.open); the '
           'guard variable is set by the harness but /repo contains no guarded code',
           'baseline_off_cmd': '/venv/bin/python scripts/baseline.py', 'source_commits': [], 'add_only': True},
 'engines': [{'name': 'lean4-proof+correspondence', 'path': 'lean/ + harness/', 'serves_properties': sorted(props),
              'kind_free_text': 'Lean 4 model (lean/Sgz/Model) and theorems (lean/Sgz/Props); Python harness drives the compiled model '
                                'driver and the real code on the same requests'}],
 'checks': checks,
 'notes': 'Every check: (1) lake build + #print axioms audit of the theorems listed for the property, (2) correspondence of the model '
          'components with /repo\'s working tree, (3) direct oracle on the real code; verdict logic in DESIGN.md section 6. '
          'known_findings.json lists recorded defects; fix: commits are listed there as fixed.',
 'not_applicable': [],
}
json.dump(m, open(os.path.join(V, 'MANIFEST.json'), 'w'), indent=1)
print('wrote MANIFEST.json with', len(checks), 'checks')
