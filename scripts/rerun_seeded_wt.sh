#!/bin/bash
# as rerun_seeded.sh, but on a scratch worktree of /repo (SGZ_REPO) so that /repo itself is never touched:
# usage: rerun_seeded_wt.sh [ids...]
cd /verif
WT=/tmp/seedwt_$$
git -C /repo worktree add -q --detach $WT HEAD || exit 3
ids=${@:-$(ls seeded | grep '^C')}
for s in $ids; do
  pid=$(python3 -c "import json;print(json.load(open('seeded/$s/meta.json'))['property'])")
  if ! git -C $WT apply --check /verif/seeded/$s/patch.diff 2>/dev/null; then echo "$s $pid PATCH-DOES-NOT-APPLY"; continue; fi
  git -C $WT apply /verif/seeded/$s/patch.diff
  t0=$(date +%s)
  out=$(SGZ_REPO=$WT SGZV_OUT=$WT.out /venv/bin/python harness/check.py $pid --tier quick 2>&1); rc=$?
  t1=$(date +%s)
  git -C $WT checkout -- . ; git -C $WT clean -fdq
  n=$(echo "$out" | grep -c '^VIOLATION')
  fi_=$(echo "$out" | grep '^VIOLATION' | grep -vc 'no-failing-input-found')
  echo "$s $pid exit=$rc violations=$n with-failing-input=$fi_ $((t1-t0))s $([ $rc -eq 1 ] && echo caught || echo MISSED)"
done
git -C /repo worktree remove --force $WT
rm -rf $WT.out
