"""pytest plugin (scratch use only): pin the installed seismic_zfp version string so that the repository's
write-path tests run with a released version number (the sandbox checkout is untagged)."""
import os, types, pkg_resources
_VER = os.environ.get('SGZ_VER', '0.2.9')
_orig = pkg_resources.get_distribution
def _gd(name):
    if str(name).replace('-', '_') == 'seismic_zfp':
        return types.SimpleNamespace(version=_VER)
    return _orig(name)
pkg_resources.get_distribution = _gd
