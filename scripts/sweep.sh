#!/bin/bash
# sweep.sh <seeds...>: run every quick check with each seed; print only summary/violation lines
cd /verif
for s in "$@"; do
  for p in C01 C02 C03 C04 C05 C06 C07 C08 C09 C10 C11 C12 C13 C14 C15 C16 C17 C18 C19 C20; do
    VERIF_SEED=$s /venv/bin/python harness/check.py $p --tier quick 2>&1 | grep -E "^\[C|VIOLATION|HARNESS" | tail -2
  done
done
