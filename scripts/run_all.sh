#!/bin/bash
# run every quick check on the current tree; prints one summary line per property
cd /verif
tier=${1:-quick}
for p in C01 C02 C03 C04 C05 C06 C07 C08 C09 C10 C11 C12 C13 C14 C15 C16 C17 C18 C19 C20; do
  /venv/bin/python harness/check.py $p --tier $tier 2>&1 | grep -E "^\[C|VIOLATION|HARNESS" | tail -3
done
