#!/bin/bash
# usage: try_mutant.sh <patch> <check ids...>   -- apply patch to /repo, run checks, undo
patch=$1; shift
cd /repo && git apply "$patch" || { echo "PATCH DOES NOT APPLY"; exit 3; }
for c in "$@"; do
  (cd /verif/harness && /venv/bin/python check.py $c 2>&1 | grep -E "^\[C|VIOLATION|KNOWN|HARNESS|Error" | head -4)
done
cd /repo && git checkout -- . && git status --short | head -3
