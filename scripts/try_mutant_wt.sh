#!/bin/bash
# usage: try_mutant_wt.sh <patch> <check ids...>   -- apply the patch to a scratch worktree of /repo, run the checks on it
# (SGZ_REPO), remove the worktree; /repo and /verif/evidence are never touched
patch=$1; shift
WT=/tmp/trywt_$$
git -C /repo worktree add -q --detach $WT HEAD || exit 3
git -C $WT apply "$patch" || { echo "PATCH DOES NOT APPLY"; git -C /repo worktree remove --force $WT; exit 3; }
for c in "$@"; do
  (cd /verif && SGZ_REPO=$WT SGZV_OUT=$WT.out /venv/bin/python harness/check.py $c --tier quick 2>&1 | grep -E "^\[C|VIOLATION|KNOWN|HARNESS|Error" | head -4)
done
git -C /repo worktree remove --force $WT; rm -rf $WT.out
