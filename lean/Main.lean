import Sgz.Model.Reader
import Sgz.Model.Version
import Sgz.Model.Config
import Sgz.Model.Pipeline
import Sgz.Model.Writer
import Sgz.Model.IO
import Sgz.Model.Cache
import Sgz.Model.Axes
import Sgz.Model.Emul
import Sgz.Model.Headers
import Sgz.Model.Crop
import Sgz.Model.Reblock
import Sgz.Model.Irregular
import Sgz.Model.Export
import Sgz.Model.Window
import Sgz.Model.Container
import Sgz.Model.Header
import Sgz.Model.Coords
import Sgz.Model.HeaderReads
import Sgz.Model.Derived
import Sgz.Model.Xarray
import Sgz.Model.SegyRaw
import Sgz.Model.WriteOrder
import Sgz.Model.Lru
/-!
Line-protocol driver over the executable model (`Sgz/Model`, Mathlib-free).  One request per line, one answer per
line.  The Python harness sends the same request to the real implementation and diffs canonical answers.
-/
open Sgz

def ints (ws : List String) : Option (List Int) := ws.mapM String.toInt?

def optPair (a b : String) : Option (Option (Int × Int)) :=
  if a == "N" || b == "N" then some none
  else match a.toInt?, b.toInt? with
    | some x, some y => some (some (x, y))
    | _, _ => none

def joinNat (xs : List Nat) : String := " ".intercalate (xs.map toString)

def showR (r : R) : String :=
  match r with
  | .error e => s!"err {e}"
  | .ok o =>
    let shape := ",".intercalate (o.arr.shape.map toString)
    let fs := ",".intercalate (o.fetches.map fun (a, b) => s!"{a}:{b}")
    s!"ok {shape} | {fs} | {joinNat o.arr.flat}"

def mkGeo (xs : List Int) : Option Geo :=
  match xs with
  | [n0, n1, n2, b0, b1, b2, u] =>
    some { n0 := n0.toNat, n1 := n1.toNat, n2 := n2.toNat, b0 := b0.toNat, b1 := b1.toNat, b2 := b2.toNat, u := u.toNat }
  | _ => none

def parseRead (ws : List String) : Option R :=
  match ints (ws.take 7) with
  | none => none
  | some gs =>
    match mkGeo gs with
    | none => none
    | some g =>
      match ws.drop 7 with
      | ["il", k] => k.toInt?.map (Reader.readInline g)
      | ["xl", k] => k.toInt?.map (Reader.readCrossline g)
      | ["zs", k] => k.toInt?.map (Reader.readZslice g)
      | ["vol"] => some (Reader.readVolume g)
      | ["ilno", a, d, v] =>
        match a.toInt?, d.toInt?, v.toInt? with
        | some a, some d, some v => some (Coords.readInlineNumber g a d v)
        | _, _, _ => none
      | ["xlno", a, d, v] =>
        match a.toInt?, d.toInt?, v.toInt? with
        | some a, some d, some v => some (Coords.readCrosslineNumber g a d v)
        | _, _, _ => none
      | "sub" :: rest =>
        match ints rest with
        | some [i0, i1, x0, x1, z0, z1] => some (Reader.readSubvolume g false i0 i1 x0 x1 z0 z1)
        | _ => none
      | "subp" :: rest =>
        match ints rest with
        | some [t0, t1, z0, z1] => some (Reader.readSubplane g false t0 t1 z0 z1)
        | _ => none
      | "tr" :: rest =>
        match ints rest with
        | some [t, a, b] => some (Reader.getTrace g t a b)
        | _ => none
      | ["cd", c, lo, hi, s, e] =>
        match c.toInt?, optPair lo hi, optPair s e with
        | some c, some rng, some win => some (Reader.readCorrelatedDiagonal g c rng win)
        | _, _, _ => none
      | ["ad", c, lo, hi, s, e] =>
        match c.toInt?, optPair lo hi, optPair s e with
        | some c, some rng, some win => some (Reader.readAnticorrelatedDiagonal g c rng win)
        | _, _, _ => none
      | _ => none

def handleRead (ws : List String) : String :=
  match parseRead ws with
  | some r => showR r
  | none => "bad-op"

/-- `io trunc DS L <read request>`: the call on a file cut at byte length L (data section starting at DS);
`io fault K <read request>`: the call when its K-th range read fails.  Answers: `err <class>` (refused before any
read), `raise` (I/O error), `value` (the true result) -/
def handleIO (ws : List String) : String :=
  match ws with
  | "trunc" :: ds :: l :: rest =>
    match ds.toNat?, l.toNat?, parseRead rest with
    | some ds, some l, some r =>
      match r with
      | .error e => s!"err {e}"
      | .ok o => if truncRaises ds l o then "raise" else "value"
    | _, _, _ => "bad-op"
  | "fault" :: k :: rest =>
    match k.toNat?, parseRead rest with
    | some k, some r =>
      match r with
      | .error e => s!"err {e}"
      | .ok o => if faultRaises k o then "raise" else "value"
    | _, _ => "bad-op"
  | _ => "bad-op"

def b2s (b : Bool) : String := if b then "1" else "0"

def handleVer (ws : List String) : String :=
  match ws with
  | ["dec", n] =>
    match n.toNat? with
    | some n =>
      let v := Ver.decode n
      s!"{v.major} {v.minor} {v.patch} {b2s v.dev} {v.encode} {b2s (Ver.paddedFooter n)} {b2s (Ver.microseconds n)}"
    | none => "bad-op"
  | ["enc", a, b, c, d] =>
    match a.toNat?, b.toNat?, c.toNat?, d.toNat? with
    | some a, some b, some c, some d => toString (Ver.encode ⟨a, b, c, d == 1⟩)
    | _, _, _, _ => "bad-op"
  | ["gt", a, b] =>
    match a.toNat?, b.toNat? with
    | some a, some b => b2s (Ver.gt (Ver.decode a) (Ver.decode b))
    | _, _ => "bad-op"
  | ["parse", s] =>
    match Ver.parse s with
    | some v => s!"{v.major} {v.minor} {v.patch} {b2s v.dev}"
    | none => "err"
  | _ => "bad-op"

def handleCfg (ws : List String) : String :=
  match ints ws with
  | some [num, den, b0, b1, b2, is2d] =>
    if den ≤ 0 then "bad-op" else
    match Config.resolve { num := num, den := den.toNat } b0 b1 b2 (is2d == 1) with
    | .ok c => s!"ok {c.q} {c.b0} {c.b1} {c.b2}"
    | .error e => s!"err {e}"
  | _ => "bad-op"

def tidOf (c : Char) : Option Pipeline.Tid :=
  if c == 'M' then some .M else if c == 'C' then some .C else if c == 'W' then some .W else none

def enabledSet (N cap : Nat) (s : Pipeline.St) : String :=
  String.ofList ((['M', 'C', 'W'].zip [Pipeline.Tid.M, .C, .W]).filterMap fun (ch, t) =>
    if (Pipeline.step N cap s t).isSome then some ch else none)

def showWr : Pipeline.Wr → String
  | .H => "H"
  | .B i => s!"B{i}"

/-- `pipe N cap SCHEDULE`: replay a schedule (string over M/C/W); answer: enabled set before every step,
whether every chosen thread was enabled, final write log, main done? -/
def handlePipe (ws : List String) : String :=
  match ws with
  | [n, c, sched] =>
    match n.toNat?, c.toNat? with
    | some N, some cap =>
      let rec go (s : Pipeline.St) (cs : List Char) (acc : List String) (ok : Bool) : Pipeline.St × List String × Bool :=
        match cs with
        | [] => (s, acc.reverse, ok)
        | ch :: rest =>
          match tidOf ch with
          | none => (s, acc.reverse, false)
          | some t =>
            let en := enabledSet N cap s
            match Pipeline.step N cap s t with
            | some s' => go s' rest (en :: acc) ok
            | none => go s rest (en :: acc) false
      let (s, ens, ok) := go Pipeline.init sched.toList [] true
      let log := " ".intercalate (s.log.map showWr)
      let stuck := enabledSet N cap s
      s!"{b2s ok} | {",".intercalate ens} | {log} | {b2s (s.m == .done)} | {stuck}"
    | _, _ => "bad-op"
  | _ => "bad-op"

/-- `writer n0 n1 n2 b0 b1 b2 u`: per unit of the data section (file order) the digest of the 64 (16) source values -/
def handleWriter (ws : List String) : String :=
  match ints ws with
  | some gs =>
    match mkGeo gs with
    | some g =>
      if g.b0 == 1 then joinNat ((Writer.cells2d g).map fun c => Writer.digest (Writer.cellValues2d g c))
      else joinNat ((Writer.cells g).map fun c => Writer.digest (Writer.cellValues g c))
    | none => "bad-op"
  | none => "bad-op"

/-- `hashfeed n0 n1 n2 b0 b1 b2 u`: number of samples fed to the hash, and a digest of their linear indices -/
def handleHashFeed (ws : List String) : String :=
  match ints ws with
  | some gs =>
    match mkGeo gs with
    | some g =>
      let vs := if g.b0 == 1 then (Writer.hashFeed2d g).map fun s => s.1 * g.n2 + s.2
                else (Writer.hashFeed g).map (Writer.lin g)
      let h := vs.foldl (fun acc v => (acc * 31 + v + 1) % 2147483647) 7
      s!"{vs.length} {h}"
    | none => "bad-op"
  | none => "bad-op"

/-- order-sensitive digest `Σ (i+1)·(xᵢ+1) mod 2³¹−1` (the harness computes the same with numpy) -/
def digestNat (xs : List Nat) : Nat :=
  (xs.foldl (fun (acc : Nat × Nat) v => (acc.1 + 1, (acc.2 + (acc.1 + 1) * (v + 1)) % 2147483647)) (0, 0)).2

def showRBrief (r : R) : String :=
  match r with
  | .error e => s!"err {e}"
  | .ok o =>
    let shape := ",".intercalate (o.arr.shape.map toString)
    let fs := ",".intercalate (o.fetches.map fun (a, b) => s!"{a}:{b}")
    s!"ok {shape} {digestNat o.arr.flat} {fs}"

def parseCacheOp (ws : List String) : Option (Nat × Cache.Op) :=
  match ws with
  | rid :: rest =>
    match rid.toNat? with
    | none => none
    | some rid =>
      match rest with
      | ["il", k] => k.toInt?.map fun k => (rid, .il k)
      | ["xl", k] => k.toInt?.map fun k => (rid, .xl k)
      | ["zs", k] => k.toInt?.map fun k => (rid, .zs k)
      | ["vol"] => some (rid, .vol)
      | ["close"] => some (rid, .close)
      | "sub" :: r =>
        match ints r with
        | some [a, b, c, d, e, f] => some (rid, .sub a b c d e f)
        | _ => none
      | "subp" :: r =>
        match ints r with
        | some [a, b, c, d] => some (rid, .subp a b c d)
        | _ => none
      | "tr" :: r =>
        match ints r with
        | some [t, a, b] => some (rid, .tr t a b)
        | _ => none
      | ["cd", c, lo, hi, s, e] =>
        match c.toInt?, optPair lo hi, optPair s e with
        | some c, some rng, some win => some (rid, .cd c rng win)
        | _, _, _ => none
      | ["ad", c, lo, hi, s, e] =>
        match c.toInt?, optPair lo hi, optPair s e with
        | some c, some rng, some win => some (rid, .ad c rng win)
        | _, _, _ => none
      | _ => none
  | [] => none

/-- `hist <geo> <R> <preload_0> <cap_0> … ; <rid> <op> … ; …`: a history of read calls over R readers of one file;
answer: per call the outcome (status, shape, digest of the array) and the range reads issued, `;`-separated -/
def handleHist (line : String) : String :=
  match line.splitOn ";" with
  | [] => "bad-op"
  | head :: ops =>
    let ws := (head.trimAscii.toString.splitOn " ").filter (· ≠ "")
    match ints (ws.take 7), (ws.drop 7) with
    | some gs, nr :: cfgs =>
      match mkGeo gs, nr.toNat?, ints cfgs with
      | some g, some _, some cs =>
        let pre := fun (rid : Nat) => (cs.getD (2 * rid) 0) == 1
        let cap := fun (rid : Nat) => (cs.getD (2 * rid + 1) 1).toNat
        let parsed := ops.map fun o => parseCacheOp ((o.trimAscii.toString.splitOn " ").filter (· ≠ ""))
        if parsed.any (·.isNone) then "bad-op" else
        let h := parsed.filterMap id
        " ; ".intercalate ((Cache.run g { preload := pre, cap := cap } Cache.St.init h).map showRBrief)
      | _, _, _ => "bad-op"
    | _, _ => "bad-op"

/-- `axes pack V` (the word `struct.pack('<i')` stores, or `err`), `axes dec SU DU N` (the axis the reader regenerates) -/
def handleAxes (ws : List String) : String :=
  match ws with
  | ["pack", v] =>
    match v.toInt? with
    | some v => match Axes.packI32 v with | some w => toString w | none => "err"
    | none => "bad-op"
  | ["dec", su, du, n] =>
    match su.toNat?, du.toNat?, n.toNat? with
    | some su, some du, some n => " ".intercalate ((Axes.decodeAxis su du n).map toString)
    | _, _, _ => "bad-op"
  | _ => "bad-op"

def optInt (w : String) : Option (Option Int) := if w == "N" then some none else w.toInt?.map some

def showInts (xs : List Int) : String := " ".intercalate (xs.map toString)

/-- `xr N0 N1 N2 K K K` with a key `i:K` (integer) or `s:START:STOP:STEP` (`N` = omitted): per axis the positions held by
the result, then the box handed to `read_subvolume` (`none` = nothing read) -/
def handleXr (ws : List String) : String :=
  let key (w : String) : Option Xarray.Key :=
    match w.splitOn ":" with
    | ["i", k] => k.toInt?.map Xarray.Key.idx
    | ["s", a, b, c] =>
      match optInt a, optInt b, optInt c with
      | some a, some b, some c => some (Xarray.Key.sl ⟨a, b, c⟩)
      | _, _, _ => none
    | _ => none
  match ws with
  | [n0, n1, n2, k0, k1, k2] =>
    match n0.toNat?, n1.toNat?, n2.toNat?, key k0, key k1, key k2 with
    | some n0, some n1, some n2, some k0, some k1, some k2 =>
      let ax (k : Xarray.Key) (n : Nat) : String :=
        match Xarray.axisPositions k n with
        | some xs => showInts xs
        | none => "err"
      let bx := match Xarray.box k0 k1 k2 n0 n1 n2 with
        | none => "err"
        | some none => "none"
        | some (some ((a0, b0), (a1, b1), (a2, b2))) => s!"{a0} {b0} {a1} {b1} {a2} {b2}"
      s!"{ax k0 n0} | {ax k1 n1} | {ax k2 n2} | {bx}"
    | _, _, _, _, _, _ => "bad-op"
  | _ => "bad-op"

/-- `segyraw NIL NXL NS B0`: the range reads of a `reduce_iops` conversion on the SEG-Y file -/
def handleSegyRaw (ws : List String) : String :=
  match ws.mapM String.toNat? with
  | some [nil, nxl, ns, b0] =>
    if b0 == 0 then "bad-op" else
    ",".intercalate ((SegyRaw.conversionReads nil nxl ns b0).map fun (a, b) => s!"{a}:{b}")
  | _ => "bad-op"

/-- `worder THOROUGH NBLOCKS NARRAYS`: kinds of the file operations of a conversion, in order -/
def handleWOrder (ws : List String) : String :=
  match ws.mapM String.toNat? with
  | some [th, nb, na] =>
    " ".intercalate ((WriteOrder.shape (th == 1) nb na).map fun k =>
      match k with
      | .A => "A"
      | .P off => s!"P{off}")
  | _ => "bad-op"

/-- `emul indices S E T LEN`, `emul range A B C`, `emul acc LEN S E T`, `emul line K1,K2,… S E T` (emulator | segyio) -/
def handleEmul (ws : List String) : String :=
  match ws with
  | ["indices", a, b, c, n] =>
    match optInt a, optInt b, optInt c, n.toNat? with
    | some a, some b, some c, some n =>
      match Emul.sliceIndices ⟨a, b, c⟩ n with
      | some (x, y, z) => s!"{x} {y} {z}"
      | none => "err"
    | _, _, _, _ => "bad-op"
  | ["range", a, b, c] =>
    match a.toInt?, b.toInt?, c.toInt? with
    | some a, some b, some c => showInts (Emul.pyRange a b c)
    | _, _, _ => "bad-op"
  | ["acc", n, a, b, c] =>
    match n.toNat?, optInt a, optInt b, optInt c with
    | some n, some a, some b, some c =>
      match Emul.accessorSlice n ⟨a, b, c⟩ with
      | some xs => showInts xs
      | none => "err"
    | _, _, _, _ => "bad-op"
  | ["subax", ks, a, b, c] =>
    match (ks.splitOn ",").mapM String.toInt?, optInt a, optInt b, optInt c with
    | some keys, some a, some b, some c =>
      match Emul.subvolumeAxis keys ⟨a, b, c⟩ with
      | some xs => showInts xs
      | none => "err"
    | _, _, _, _ => "bad-op"
  | ["line", ks, a, b, c] =>
    match (ks.splitOn ",").mapM String.toInt?, optInt a, optInt b, optInt c with
    | some keys, some a, some b, some c =>
      let sh (o : Option (List Int)) : String := match o with | some xs => showInts xs | none => "err"
      s!"{sh (Emul.lineSlice keys ⟨a, b, c⟩)} | {sh (Segyio.lineSlice keys ⟨a, b, c⟩)}"
    | _, _, _, _ => "bad-op"
  | _ => "bad-op"

/-- `hwtable <first-trace values …> | <last-trace values …>`: the heuristic header-word table (`const:code` per field,
code = 1 + index of the representative field), the stored fields in footer order, and the array count -/
def handleHwTable (line : String) : String :=
  match line.splitOn "|" with
  | [a, b] =>
    let pa := ((a.trimAscii.toString.splitOn " ").filter (· ≠ "")).mapM String.toInt?
    let pb := ((b.trimAscii.toString.splitOn " ").filter (· ≠ "")).mapM String.toInt?
    match pa, pb with
    | some fa, some fb =>
      if fa.length != fb.length then "bad-op" else
      let s : Headers.Src := { F := fa.length, T := 2, h := fun t f => if t == 0 then fa.getD f 0 else fb.getD f 0 }
      let tbl := Headers.classify s
      let rows := " ".intercalate (tbl.map fun (c, d) => s!"{c}:{d}")
      s!"{rows} | {joinNat (Headers.storedFields tbl)} | {Headers.arrayCount tbl}"
    | _, _ => "bad-op"
  | _ => "bad-op"

def optRange (a b : String) : Option Crop.Range :=
  if a == "N" || b == "N" then some none
  else match a.toInt?, b.toInt? with
    | some x, some y => some (some (x, y))
    | _, _ => none

/-- `crop <geo> I0 I1 X0 X1 Z0 Z1` (`N N` = axis not cropped): refusal, or the written box, the number of copied units and
a digest of the source unit indices in output order -/
def handleCrop (ws : List String) : String :=
  match ints (ws.take 7), ws.drop 7 with
  | some gs, [a, b, c, d, e, f] =>
    match mkGeo gs, optRange a b, optRange c d, optRange e f with
    | some g, some ri, some rx, some rz =>
      if Crop.refuses g ri rx rz then "err index" else
      let bx := Crop.box g ri rx rz
      let us := Crop.units g bx
      s!"ok {bx.i0} {bx.i1} {bx.x0} {bx.x1} {bx.z0} {bx.z1} | {us.length} {digestNat us}"
    | _, _, _, _ => "bad-op"
  | _, _ => "bad-op"

/-- `reblock <geo>`: refusal, or the number of output units and a digest of (source unit + 1, 0 = zero-filled) -/
def handleReblock (ws : List String) : String :=
  match ints ws with
  | some gs =>
    match mkGeo gs with
    | some g =>
      if !Reblock.supported g then "err assertion" else
      let us := (Reblock.units g).map fun o => match o with | some k => k + 1 | none => 0
      s!"ok {us.length} {digestNat us}"
    | none => "bad-op"
  | none => "bad-op"

/-- `irr infer ID…` (distinct line numbers present → `min max step` or `err`), `irr pop V…` (stored inline-number array →
populated grid slots in ordinal order) -/
def handleIrr (ws : List String) : String :=
  match ws with
  | "infer" :: ids =>
    match ids.mapM String.toInt? with
    | some xs => match Irregular.inferRange xs with
      | some (a, b, c) => s!"{a} {b} {c}"
      | none => "err"
    | none => "bad-op"
  | "pop" :: vs =>
    match vs.mapM String.toInt? with
    | some xs => joinNat (Irregular.populated xs)
    | none => "bad-op"
  | _ => "bad-op"

/-- `export B3224 B3225`: format handed to segyio and the two bytes of the exported file header -/
def handleExport (ws : List String) : String :=
  match ws.mapM String.toNat? with
  | some [a, b] =>
    let fh : Nat → Nat := fun i => if i == 3224 then a else if i == 3225 then b else 0
    s!"{Export.exportFormat fh} {Export.exportFileHeader fh 3224} {Export.exportFileHeader fh 3225}"
  | some [a, b, c, d, ns, t] =>
    -- with the two bytes of the extended-header count: also the file offset of trace `t` (traces of `ns` samples)
    let fh : Nat → Nat := fun i => if i == 3224 then a else if i == 3225 then b else if i == 3504 then c else if i == 3505 then d else 0
    s!"{Export.exportFormat fh} {Export.exportFileHeader fh 3224} {Export.exportFileHeader fh 3225} {Export.exportTraceOffset fh ns t}"
  | _ => "bad-op"

/-- `window N1 A0 A1 B0 B1`: for every header slot `0 … |w|−1` the source trace ordinal stored there (−1 = never written),
then the first and last trace used by detection -/
def handleWindow (ws : List String) : String :=
  match ws.mapM String.toNat? with
  | some [n1, a0, a1, b0, b1] =>
    let w : Window.Win := ⟨a0, a1, b0, b1⟩
    let size := (a1 - a0) * (b1 - b0)
    let pairs := (List.range (a1 - a0)).flatMap fun il => (List.range (b1 - b0)).map fun j =>
      (Window.tStore n1 w (Window.startTrace n1 w il + j), Window.startTrace n1 w il + j)
    let slots := (List.range size).map fun sl =>
      match pairs.reverse.find? (fun p => p.1 == sl) with
      | some p => toString p.2
      | none => "-1"
    s!"{" ".intercalate slots} | {Window.firstTrace n1 w} {Window.lastTrace n1 w}"
  | _ => "bad-op"

/-- `winaxes START STEP C0 C1`: header words (count origin increment) of one line axis of a windowed conversion, then the
axis a reader regenerates from them -/
def handleWinAxes (ws : List String) : String :=
  match ws with
  | [st, sp, c0, c1] =>
    match st.toInt?, sp.toInt?, c0.toNat?, c1.toNat? with
    | some st, some sp, some c0, some c1 =>
      let w := Window.axisWords st sp c0 c1
      s!"{w.1} {w.2.1} {w.2.2} | {" ".intercalate ((Window.windowAxis st sp c0 c1).map toString)}"
    | _, _, _, _ => "bad-op"
  | _ => "bad-op"

/-- `hdrio VERSION NHB D LEN NARRAYS T`: range reads of `gen_trace_header(T)` on a regular file, then those of opening -/
def handleHdrIO (ws : List String) : String :=
  match ws.mapM String.toNat? with
  | some [ver, nhb, d, len, na, t] =>
    let sh (fs : List (Nat × Nat)) : String := ",".intercalate (fs.map fun (a, b) => s!"{a}:{b}")
    s!"{sh (Container.headerReads ver nhb d len na t)} | {sh (Container.openReads nhb)}"
  | _ => "bad-op"

/-- `container <geo> Q VERSION NHB LEN NARRAYS`: disk blocks, the offset a reader of that version derives for every
array, and the length a writer's output has -/
def handleContainer (ws : List String) : String :=
  match ints (ws.take 7), (ws.drop 7).mapM String.toNat? with
  | some gs, some [q, ver, nhb, len, na] =>
    match mkGeo gs with
    | some g =>
      let d := Container.diskBlocks g q
      let offs := (List.range na).map fun k => Container.readerFooterOffset ver nhb d len k
      s!"{d} | {joinNat offs} | {Container.fileLength nhb d len na}"
    | none => "bad-op"
  | _, _ => "bad-op"

def fieldsLine (f : Header.Fields) : String :=
  s!"{f.nHeaderBlocks} {f.nSamples} {f.nXl} {f.nIl} {f.zStart} {f.xl0} {f.il0} {f.interval} {f.dXl} {f.dIl} {f.q} {f.b0} {f.b1} {f.b2} {f.dataBlocks} {f.arrayBytes} {f.nArrays} {f.tracecount} {f.version}"

/-- `header make <19 fields>` → the first 76 header bytes (decimal, space separated) or `err`;
`header parse <76 bytes>` → the 19 fields -/
def handleHeader (ws : List String) : String :=
  match ws with
  | "make" :: rest =>
    match ints rest with
    | some [a, b, c, d, e, f, g, h, i, j, k, l, m, n, o, p, q, r, s] =>
      let fl : Header.Fields :=
        { nHeaderBlocks := a.toNat, nSamples := b.toNat, nXl := c.toNat, nIl := d.toNat, zStart := e,
          xl0 := f, il0 := g, interval := h, dXl := i, dIl := j, q := k.toNat, b0 := l.toNat, b1 := m.toNat,
          b2 := n.toNat, dataBlocks := o.toNat, arrayBytes := p.toNat, nArrays := q.toNat, tracecount := r.toNat,
          version := s.toNat }
      match Header.make fl with
      | some hb => joinNat ((List.range 76).map hb)
      | none => "err"
    | _ => "bad-op"
  | "parse" :: rest =>
    match rest.mapM String.toNat? with
    | some bs => if bs.length != 76 then "bad-op" else fieldsLine (Header.parse fun i => bs.getD i 0)
    | none => "bad-op"
  | _ => "bad-op"

def fieldsOf (xs : List Int) : Option Header.Fields :=
  match xs with
  | [a, b, c, d, e, f, g, h, i, j, k, l, m, n, o, p, q, r, s] =>
    some { nHeaderBlocks := a.toNat, nSamples := b.toNat, nXl := c.toNat, nIl := d.toNat, zStart := e,
           xl0 := f, il0 := g, interval := h, dXl := i, dIl := j, q := k.toNat, b0 := l.toNat, b1 := m.toNat,
           b2 := n.toNat, dataBlocks := o.toNat, arrayBytes := p.toNat, nArrays := q.toNat, tracecount := r.toNat,
           version := s.toNat }
  | _ => none

/-- `dhdr crop <19 source fields> I0 I1 X0 X1 Z0 Z1 STRUCTURED POP` / `dhdr reblock <19 source fields>`: the 19 header
words (offsets 0,4,…,72) of the derived file -/
def handleDerived (ws : List String) : String :=
  let words (f : Header.Fields) := joinNat ((Header.writes f).map (·.2))
  match ws with
  | "crop" :: rest =>
    match ints rest with
    | some xs =>
      match fieldsOf (xs.take 19), xs.drop 19 with
      | some f, [i0, i1, x0, x1, z0, z1, st, pop] =>
        words (Derived.cropHeader f ⟨i0.toNat, i1.toNat, x0.toNat, x1.toNat, z0.toNat, z1.toNat⟩ (st == 1) pop.toNat)
      | _, _ => "bad-op"
    | none => "bad-op"
  | "reblock" :: rest =>
    match ints rest with
    | some xs => match fieldsOf xs with
      | some f => words (Derived.reblockHeader f)
      | none => "bad-op"
    | none => "bad-op"
  | _ => "bad-op"

def digestInt (xs : List Int) : Nat := digestNat (xs.map fun v => (v + 2147483648).toNat)

/-- `hhist GRID IS3D STRUCTURED FOOTER STRIDE LEN ILFIELD ; c:d c:d … ; hole hole … ; op ; op …` with ops `hdr T`, `hdrall T`, `tfv F`,
`rvh 0|1`, `rvh1 0|1 F`, `clear`: the header-reading state machine of one reader on a file whose footer array `k` holds `(k+1)·10⁶ + p + 1` at grid
slot `p` (0 at holes and at the listed `zK:P` entries).  Answer per op: outcome, digest of the values, range reads issued. -/
def handleHHist (line : String) : String :=
  match line.splitOn ";" with
  | head :: rowsS :: holesS :: ops =>
    let toks (x : String) := (x.trimAscii.toString.splitOn " ").filter (· ≠ "")
    match (toks head).mapM String.toNat? with
    | some [grid, is3d, structured, footer, stride, len, ilField] =>
      let rows := (toks rowsS).map fun w =>
        match w.splitOn ":" with
        | [c, d] => ((c.toInt?.getD 0, d.toNat?.getD 0) : Headers.Row)
        | _ => (0, 0)
      let holes := (toks holesS).filterMap String.toNat?
      -- `zK:P`: array `K` stores 0 at the populated slot `P` (a header value that happens to be zero)
      let zeros : List (Nat × Nat) := (toks holesS).filterMap fun w =>
        if w.startsWith "z" then
          match (w.drop 1).toString.splitOn ":" with
          | [k, q] => (k.toNat?.bind fun a => q.toNat?.map fun b => (a, b))
          | _ => none
        else none
      let h : HeaderReads.HFile :=
        { tbl := rows, grid := grid, is3d := is3d == 1, structured := structured == 1,
          hole := fun p => holes.contains p, footer := footer, stride := stride, len := len,
          val := fun k p => if holes.contains p || zeros.contains (k, p) then 0 else ((k + 1) * 1000000 + p + 1 : Nat) }
      let ilArray := (HeaderReads.arrayOf h ilField).getD 0
      let parsed := ops.map fun o =>
        match toks o with
        | ["hdr", t] => t.toNat?.map HeaderReads.HOp.hdr
        | ["hdrall", t] => t.toNat?.map HeaderReads.HOp.hdrAll
        | ["tfv", f] => f.toNat?.map HeaderReads.HOp.tfv
        | ["rvh", b] => b.toNat?.map fun v => HeaderReads.HOp.rvh (v == 1)
        | ["rvh1", b, f] => b.toNat?.bind fun v => f.toNat?.map fun g => HeaderReads.HOp.rvh1 (v == 1) g
        | ["clear"] => some HeaderReads.HOp.clear
        | _ => none
      if parsed.any (·.isNone) then "bad-op" else
      let rs := HeaderReads.run h ilArray HeaderReads.HSt.init (parsed.filterMap id)
      " ; ".intercalate (rs.map fun r =>
        match r with
        | .error e => s!"err {e}"
        | .ok o => s!"ok {o.vals.length} {digestInt o.vals} {",".intercalate (o.fetches.map fun (a, b) => s!"{a}:{b}")}")
    | _ => "bad-op"
  | _ => "bad-op"

/-- `lru CAP N0 N1 B0 B1 cd|ad C LO HI`: the chunks (`ref_il:ref_xl`) fetched, in order, when traces `LO ≤ d < HI` of a
diagonal are read through a chunk LRU of capacity `CAP` (0 = the reader's default, `get_chunk_cache_size`) -/
def handleLru (args : List String) : String :=
  match args with
  | [cap, n0, n1, b0, b1, kind, c, lo, hi] =>
    match [cap, n0, n1, b0, b1, lo, hi].mapM String.toNat?, c.toInt? with
    | some [cap, n0, n1, b0, b1, lo, hi], some c =>
      let g : Geo := { n0 := n0, n1 := n1, n2 := 4, b0 := b0, b1 := b1, b2 := 4, u := 8 }
      let cap := if cap == 0 then Lru.chunkCacheSize g.NB0 g.NB1 else cap
      let keys := if kind == "cd" then Lru.cdKeys g c lo hi else Lru.adKeys g c.toNat lo hi
      s!"{cap} " ++ ",".intercalate ((Lru.fetched cap [] keys).map fun (a, b) => s!"{a}:{b}")
    | _, _ => "bad-op"
  | _ => "bad-op"

/-- `tblenc c:k:d c:k:d …`: the bytes 980 … of a zeroed header block after `Header.putTable` of these rows, as hex -/
def handleTblEnc (ws : List String) : String :=
  let rows : Option (List Header.TRow) := ws.mapM fun w =>
    match w.splitOn ":" with
    | [a, b, c] => (a.toInt?.bind fun x => b.toInt?.bind fun y => c.toInt?.map fun z => (x, y, z))
    | _ => none
  match rows with
  | none => "bad-op"
  | some rs =>
    let h := Header.putTable (fun _ => 0) rs
    let hex (n : Nat) : String := String.mk [Nat.digitChar (n / 16), Nat.digitChar (n % 16)]
    String.join ((List.range (12 * rs.length)).map fun i => hex (h (Header.tableAt + i)))

def handle (line : String) : String :=
  if line.startsWith "hist " then handleHist (line.drop 5).toString else
  if line.startsWith "hhist " then handleHHist (line.drop 6).toString else
  if line.startsWith "hwtable " then handleHwTable (line.drop 8).toString else
  match (line.trimAscii.toString.splitOn " ").filter (· ≠ "") with
  | "read" :: rest => handleRead rest
  | "dhdr" :: rest => handleDerived rest
  | "ver" :: rest => handleVer rest
  | "cfg" :: rest => handleCfg rest
  | "pipe" :: rest => handlePipe rest
  | "writer" :: rest => handleWriter rest
  | "io" :: rest => handleIO rest
  | "axes" :: rest => handleAxes rest
  | "emul" :: rest => handleEmul rest
  | "xr" :: rest => handleXr rest
  | "segyraw" :: rest => handleSegyRaw rest
  | "worder" :: rest => handleWOrder rest
  | "crop" :: rest => handleCrop rest
  | "reblock" :: rest => handleReblock rest
  | "irr" :: rest => handleIrr rest
  | "export" :: rest => handleExport rest
  | "window" :: rest => handleWindow rest
  | "winaxes" :: rest => handleWinAxes rest
  | "container" :: rest => handleContainer rest
  | "header" :: rest => handleHeader rest
  | "hdrio" :: rest => handleHdrIO rest
  | "hashfeed" :: rest => handleHashFeed rest
  | "lru" :: rest => handleLru rest
  | "tblenc" :: rest => handleTblEnc rest
  | ["ping"] => "pong"
  | _ => "bad-op"

partial def loop (h : IO.FS.Stream) (out : IO.FS.Stream) : IO Unit := do
  let line ← h.getLine
  if line.isEmpty then return ()
  out.putStrLn (handle line)
  out.flush
  loop h out

def main : IO Unit := do loop (← IO.getStdin) (← IO.getStdout)
