import Sgz.Generated.Source
import Mathlib.Tactic.Ring
import Sgz.Model.Loader
import Sgz.Model.Reader
import Sgz.Model.Crop
import Sgz.Model.Reblock
import Sgz.Model.Writer
import Sgz.Model.Window
import Sgz.Model.Derived
import Sgz.Model.Header
import Sgz.Model.Container
import Sgz.Model.HeaderReads
import Sgz.Model.Version
import Sgz.Model.Emul
import Sgz.Model.Irregular
import Sgz.Model.Xarray
import Sgz.Model.SegyRaw
import Sgz.Model.Export
import Sgz.Model.IO
/-!
# Tie/Source — the model's arithmetic is the arithmetic of the source as it is now

`Sgz/Generated/Source.lean` is regenerated from the repository's Python source on every run (harness/sgzv/translate.py).
Each theorem states that a generated definition — read with the reader's attributes at their modelled values
(`chunk_bytes = g.chunk`, `shape_pad = (P0, P1, P2)`, `unit_bytes = g.u`, `block_bytes = 4096`, `blockshape = (b0, b1, b2)`,
`block_dims = (NB0, NB1, NB2)`) — is the expression the hand-written model uses at the same place.  If the source
expression changes, the generated definition changes with it and the theorem stops checking.
-/
namespace Sgz.Tie
open Sgz

/-- closes a tie: by unfolding alone when the source expression is the model's, up to reassociation and commutation of
`+` and `*` otherwise (so that an operand swap in the source costs nothing) -/
macro "tie" : tactic =>
  `(tactic| first
    | rfl
    | (simp only [Nat.mul_comm, Nat.mul_left_comm, Nat.mul_assoc, Nat.add_comm, Nat.add_left_comm, Nat.add_assoc,
                  Int.mul_comm, Int.mul_left_comm, Int.mul_assoc, Int.add_comm, Int.add_left_comm, Int.add_assoc]))

theorem pad_eq (n m : Nat) : Gen.pad n m = Sgz.pad n m := by
  unfold Gen.pad Sgz.pad; tie

theorem cd_length_eq (cd nIl nXl : Int) : Gen.cd_length cd nIl nXl = Reader.cdLen cd nIl nXl := by
  unfold Gen.cd_length Reader.cdLen; tie

theorem ad_length_eq (ad nIl nXl : Int) : Gen.ad_length ad nIl nXl = Reader.adLen ad nIl nXl := by
  unfold Gen.ad_length Reader.adLen; tie

/-- `read_and_decompress_il_set` -/
theorem il_set (g : Geo) (i : Nat) :
    Loader.ilSetCopies g i = [{ bufStart := 0, fileOff := Gen.il_set_offset g.chunk i g.P1,
                                len := Gen.il_set_length g.chunk g.P1 }] := by
  unfold Loader.ilSetCopies Gen.il_set_offset Gen.il_set_length; tie

/-- `read_and_decompress_xl_set` -/
theorem xl_set (g : Geo) (x : Nat) :
    Loader.xlSetCopies g x = (List.range (Gen.xl_set_count g.P0)).map fun c =>
      { bufStart := Gen.xl_set_bufstart g.chunk c
        fileOff := Gen.xl_set_fileoff c (Gen.xl_set_increment g.chunk g.P1) (Gen.xl_set_first g.chunk x)
        len := g.chunk } := by
  unfold Loader.xlSetCopies Gen.xl_set_count Gen.xl_set_bufstart Gen.xl_set_fileoff Gen.xl_set_increment Gen.xl_set_first
  tie

/-- `read_and_decompress_zslice_set` (called with `blocks_per_dim = (NB0, NB1)`, `zslice_first_block_offset = zid / b2`) -/
theorem zslice_set (g : Geo) (zid : Nat) :
    Loader.zsliceSetCopies g zid = (List.range (Gen.zslice_count g.NB0 g.NB1)).map fun n =>
      { bufStart := Gen.zslice_bufstart n g.u
        fileOff := Gen.zslice_fileoff 4096 n g.chunk g.u (zid / g.b2) (Gen.zslice_unit_in_block g.b2 zid)
        len := g.u } := by
  unfold Loader.zsliceSetCopies Gen.zslice_count Gen.zslice_bufstart Gen.zslice_fileoff Gen.zslice_unit_in_block
  tie

/-- `read_chunk_range` -/
theorem chunk_range_copies (g : Geo) (minIl minXl minZ ilU xlU zU : Nat) :
    Loader.chunkRangeCopies g minIl minXl minZ ilU xlU zU =
      (List.range ilU).flatMap fun i => (List.range xlU).map fun x =>
        { bufStart := Gen.chunk_buf_start i g.u x xlU zU
          fileOff := Gen.chunk_bytes_start i minIl minXl minZ g.P1 g.P2 g.u x
          len := Gen.chunk_read_length g.u zU } := by
  unfold Loader.chunkRangeCopies Gen.chunk_buf_start Gen.chunk_bytes_start Gen.chunk_read_length
  tie

/-- `read_and_decompress_chunk_range`: the unit counts -/
theorem chunk_range_units (g : Geo) (maxIl maxXl maxZ minIl minXl minZ : Nat) :
    (Loader.chunkRange g maxIl maxXl maxZ minIl minXl minZ).fetches =
      fetchesOf (Loader.chunkRangeCopies g minIl minXl minZ (Gen.chunk_il_units maxIl minIl) (Gen.chunk_xl_units maxXl minXl)
        (Gen.chunk_z_units maxZ minZ)) := by
  unfold Loader.chunkRange Gen.chunk_il_units Gen.chunk_xl_units Gen.chunk_z_units
  tie

/-- `read_unshuffle_and_decompress_chunk_range` -/
theorem unshuffle_fetches (g : Geo) (maxIl maxXl maxZ minIl minXl minZ : Nat) :
    Loader.unshuffleFetches g maxIl maxXl maxZ minIl minXl minZ =
      (List.range (Gen.unshuffle_il_blocks g.b0 maxIl minIl)).flatMap fun ni =>
        (List.range (Gen.unshuffle_xl_blocks g.b1 maxXl minXl)).flatMap fun nx =>
          (List.range (Gen.unshuffle_z_blocks g.b2 maxZ minZ)).map fun nz =>
            (Gen.unshuffle_bytes_start 4096 g.NB1 g.NB2 (minIl / g.b0 + ni) (minXl / g.b1 + nx) (minZ / g.b2 + nz), 4096) := by
  unfold Loader.unshuffleFetches Gen.unshuffle_il_blocks Gen.unshuffle_xl_blocks Gen.unshuffle_z_blocks
    Gen.unshuffle_bytes_start cdiv
  tie

/-- 2D `read_and_decompress_trace_range` -/
theorem trace_range (g : Geo) (minId maxId : Nat) :
    Loader.traceRangeCopies g minId maxId =
      [{ bufStart := 0, fileOff := Gen.trace_range_offset g.b1 g.chunk minId,
         len := Gen.trace_range_length g.b1 g.chunk maxId minId }] := by
  unfold Loader.traceRangeCopies Gen.trace_range_offset Gen.trace_range_length; tie

/-- 2D `read_unshuffle_and_decompress_chunk_range_2d` -/
theorem unshuffle2d_fetches (g : Geo) (maxId maxZ minId minZ : Nat) :
    Loader.unshuffle2dFetches g maxId maxZ minId minZ =
      (List.range (Gen.unshuffle2d_xl_blocks g.b1 maxId minId)).flatMap fun nx =>
        (List.range (Gen.unshuffle2d_z_blocks g.b2 maxZ minZ)).map fun nz =>
          (Gen.unshuffle2d_bytes_start 4096 g.chunk (minId / g.b1 + nx) (minZ / g.b2 + nz), 4096) := by
  unfold Loader.unshuffle2dFetches Gen.unshuffle2d_xl_blocks Gen.unshuffle2d_z_blocks Gen.unshuffle2d_bytes_start cdiv
  tie

/-! ### read.py: guards -/

theorem inline_guard (g : Geo) (k : Int) :
    Gen.inline_guard k g.n0 ↔ (decide (0 ≤ k) && decide (k < (g.n0 : Int))) = true := by
  unfold Gen.inline_guard; simp

theorem crossline_guard (g : Geo) (k : Int) :
    Gen.crossline_guard g.n1 k ↔ (decide (0 ≤ k) && decide (k < (g.n1 : Int))) = true := by
  unfold Gen.crossline_guard; simp

theorem zslice_guard (g : Geo) (k : Int) :
    Gen.zslice_guard g.n2 k ↔ (decide (0 ≤ k) && decide (k < (g.n2 : Int))) = true := by
  unfold Gen.zslice_guard; simp

theorem subvolume_guards (lo hi upper : Int) :
    (Gen.subvolume_guard_il hi lo upper ↔ Reader.rangeOk lo hi upper = true)
    ∧ (Gen.subvolume_guard_xl hi lo upper ↔ Reader.rangeOk lo hi upper = true)
    ∧ (Gen.subvolume_guard_z hi lo upper ↔ Reader.rangeOk lo hi upper = true) := by
  unfold Gen.subvolume_guard_il Gen.subvolume_guard_xl Gen.subvolume_guard_z Reader.rangeOk
  simp only [Bool.and_eq_true, decide_eq_true_eq, gt_iff_lt]
  refine ⟨?_, ?_, ?_⟩ <;> constructor <;> intro h <;> omega

theorem subplane_guards (lo hi upper : Int) :
    (Gen.subplane_guard_t hi lo upper ↔ Reader.rangeOk lo hi upper = true)
    ∧ (Gen.subplane_guard_z hi lo upper ↔ Reader.rangeOk lo hi upper = true) := by
  unfold Gen.subplane_guard_t Gen.subplane_guard_z Reader.rangeOk
  simp only [Bool.and_eq_true, decide_eq_true_eq, gt_iff_lt]
  refine ⟨?_, ?_⟩ <;> constructor <;> intro h <;> omega

theorem trace_guards (g : Geo) (index a b : Int) :
    (Gen.trace_guard_window b a g.n2 ↔ Reader.windowOk g a b = true)
    ∧ (Gen.trace_guard_2d index g.n1 ↔ (decide (0 ≤ index) && decide (index < (g.n1 : Int))) = true)
    ∧ (Gen.trace_guard_3d index g.n0 g.n1 ↔ (decide (0 ≤ index) && decide (index < (g.n0 : Int) * (g.n1 : Int))) = true)
    ∧ (∀ tracecount : Nat, Gen.trace_guard_irregular index tracecount ↔ ∃ i : Nat, index = i ∧ i < tracecount) := by
  unfold Gen.trace_guard_window Gen.trace_guard_2d Gen.trace_guard_3d Gen.trace_guard_irregular Reader.windowOk
  simp only [Bool.and_eq_true, decide_eq_true_eq]
  refine ⟨?_, ?_, ?_, ?_⟩
  · constructor <;> intro h <;> omega
  · constructor <;> intro h <;> omega
  · constructor <;> intro h <;> omega
  · intro tc
    constructor
    · intro h; exact ⟨index.toNat, by omega, by omega⟩
    · rintro ⟨i, rfl, hi⟩; omega

/-! ### read.py: set selection, indices, crops (the model's method, restated with the generated expressions) -/

theorem chunk_bytes (g : Geo) : g.chunk = Gen.chunk_bytes 4096 g.b2 g.P2 := by
  unfold Geo.chunk Gen.chunk_bytes Geo.NB2; tie

theorem read_inline (g : Geo) (k : Int) :
    Reader.readInline g k =
      (if g.is2d then .error .dim else
       if !(0 ≤ k && k < g.n0) then .error .index else
       let k := k.toNat
       if Reader.isDefault g then
         let L := Loader.ilSet g (Gen.inline_set k)
         .ok { arr := .a2 g.n1 g.n2 fun x z => L.src (Gen.inline_index g.b0 k) x z, fetches := L.fetches }
       else Reader.squeeze0 (Reader.readSubvolume g false k (k + 1) 0 g.n1 0 g.n2)) := by
  unfold Reader.readInline Gen.inline_set Gen.inline_index; tie

theorem read_crossline (g : Geo) (k : Int) :
    Reader.readCrossline g k =
      (if g.is2d then .error .dim else
       if !(0 ≤ k && k < g.n1) then .error .index else
       let k := k.toNat
       if Reader.isDefault g then
         let L := Loader.xlSet g (Gen.crossline_set k)
         .ok { arr := .a2 g.n0 g.n2 fun i z => L.src i (Gen.crossline_index g.b1 k) z, fetches := L.fetches }
       else Reader.squeeze1 (Reader.readSubvolume g false 0 g.n0 k (k + 1) 0 g.n2)) := by
  unfold Reader.readCrossline Gen.crossline_set Gen.crossline_index; tie

theorem read_zslice (g : Geo) (k : Int) :
    Reader.readZslice g k =
      (if g.is2d then .error .dim else
       if !(0 ≤ k && k < g.n2) then .error .index else
       let k := k.toNat
       if Reader.isDefault g then
         let L := Loader.zsliceSet g k
         .ok { arr := .a2 g.n0 g.n1 fun i x => L.src i x (Gen.zslice_index k), fetches := L.fetches }
       else if g.b2 == 4 then
         let L := Loader.zsliceAdv g (Gen.zslice_first_block g.b2 k)
         .ok { arr := .a2 g.n0 g.n1 fun i x => L.src i x (Gen.zslice_adv_index k), fetches := L.fetches }
       else Reader.squeeze2 (Reader.readSubvolume g false 0 g.n0 0 g.n1 k (k + 1))) := by
  unfold Reader.readZslice Gen.zslice_index Gen.zslice_first_block Gen.zslice_adv_index; tie

/-- the crops of `read_subvolume` (default and general layout) and `read_subplane` start where the model says -/
theorem crops (g : Geo) (lo hi : Nat) :
    Gen.subvolume_crop_lo lo = lo % 4 ∧ Gen.subvolume_gcrop_lo g.b1 lo = lo % g.b1 ∧ Gen.subplane_crop_lo g.b1 lo = lo % g.b1
    ∧ (lo ≤ hi → Gen.subvolume_crop_hi hi lo - Gen.subvolume_crop_lo lo = hi - lo)
    ∧ (lo ≤ hi → Gen.subvolume_gcrop_hi g.b1 hi lo - Gen.subvolume_gcrop_lo g.b1 lo = hi - lo) := by
  unfold Gen.subvolume_crop_lo Gen.subvolume_gcrop_lo Gen.subplane_crop_lo Gen.subvolume_crop_hi Gen.subvolume_gcrop_hi
  refine ⟨rfl, rfl, rfl, fun h => by omega, fun h => ?_⟩
  generalize lo % g.b1 = r
  omega

/-- `read_subplane`: the box handed to the 2D block loader -/
theorem read_subplane_box (g : Geo) (t0 t1 z0 z1 : Nat) :
    Loader.unshuffle2d g (g.b1 * cdiv t1 g.b1) (g.b2 * cdiv z1 g.b2) (g.b1 * (t0 / g.b1)) (g.b2 * (z0 / g.b2)) =
      Loader.unshuffle2d g (Gen.subplane_max_t g.b1 t1) (Gen.subplane_max_z g.b2 z1) (Gen.subplane_min_t g.b1 t0)
        (Gen.subplane_min_z g.b2 z0) := by
  unfold Gen.subplane_max_t Gen.subplane_max_z Gen.subplane_min_t Gen.subplane_min_z cdiv; tie

/-- `get_trace`: the block column / trace group read and the position of the trace inside it -/
theorem get_trace_arith (g : Geo) (t a b : Nat) :
    Gen.trace2d_min_trace g.b1 t = g.b1 * (t / g.b1) ∧ Gen.trace2d_min_z g.b2 a = g.b2 * (a / g.b2)
    ∧ Gen.trace2d_max_z g.b2 b = g.b2 * cdiv b g.b2 ∧ Gen.trace2d_index g.b1 t = t % g.b1
    ∧ Gen.trace_il t g.n1 = t / g.n1 ∧ Gen.trace_xl t g.n1 = t % g.n1
    ∧ Gen.trace_min_il g.b0 (t / g.n1) = g.b0 * ((t / g.n1) / g.b0)
    ∧ Gen.trace_min_xl g.b1 (t % g.n1) = g.b1 * ((t % g.n1) / g.b1)
    ∧ Gen.trace_min_z g.b2 a = g.b2 * (a / g.b2) ∧ Gen.trace_max_z g.b2 b = g.b2 * cdiv b g.b2
    ∧ Gen.trace_index_il g.b0 (t / g.n1) = (t / g.n1) % g.b0 ∧ Gen.trace_index_xl g.b1 (t % g.n1) = (t % g.n1) % g.b1
    ∧ Gen.trace_crop_lo a (g.b2 * (a / g.b2)) = a - g.b2 * (a / g.b2) := by
  unfold Gen.trace2d_min_trace Gen.trace2d_min_z Gen.trace2d_max_z Gen.trace2d_index Gen.trace_il Gen.trace_xl
    Gen.trace_min_il Gen.trace_min_xl Gen.trace_min_z Gen.trace_max_z Gen.trace_index_il Gen.trace_index_xl
    Gen.trace_crop_lo cdiv
  refine ⟨?_, ?_, ?_, ?_, ?_, ?_, ?_, ?_, ?_, ?_, ?_, ?_, ?_⟩ <;> tie

/-- the reader's footer stride (files after 0.2.1) is the writer's padded array length -/
theorem padded_entry (len : Nat) (h : 0 < len) : Gen.padded_entry_bytes len = pad len 512 := by
  unfold Gen.padded_entry_bytes pad
  split <;> omega

/-! ### cropping.py -/

/-- `correct_bounds` -/
theorem crop_correct (lo hi b n : Nat) :
    Crop.correct lo hi b n = (Gen.crop_lo_clipped (Gen.crop_lo_aligned b lo), Gen.crop_hi_clipped n (Gen.crop_hi_aligned b hi)) := by
  unfold Crop.correct Gen.crop_lo_clipped Gen.crop_lo_aligned Gen.crop_hi_clipped Gen.crop_hi_aligned
  simp only [bne_iff_ne, ne_eq]

/-- the refusal conditions of `check_and_correct_bounds`, per axis -/
theorem crop_refusals (lo hi : Int) (n : Nat) :
    ((Gen.crop_bad_il lo hi n ∨ Gen.crop_empty lo hi) ↔ (decide (lo < 0) || decide (hi > (n : Int)) || decide (lo ≥ hi)) = true)
    ∧ ((Gen.crop_bad_xl n lo hi ∨ Gen.crop_empty lo hi) ↔ (decide (lo < 0) || decide (hi > (n : Int)) || decide (lo ≥ hi)) = true)
    ∧ ((Gen.crop_bad_z n lo hi ∨ Gen.crop_empty lo hi) ↔ (decide (lo < 0) || decide (hi > (n : Int)) || decide (lo ≥ hi)) = true) := by
  unfold Gen.crop_bad_il Gen.crop_bad_xl Gen.crop_bad_z Gen.crop_empty
  simp only [Bool.or_eq_true, decide_eq_true_eq]
  refine ⟨?_, ?_, ?_⟩ <;> constructor <;> intro h <;> omega

/-- the copied units: counts (default layout) and block ids (other layouts) -/
theorem crop_units (g : Geo) (b : Crop.Box) :
    Crop.units g b =
      if g.b0 == 4 && g.b1 == 4 then
        (List.range (Gen.crop_il_units b.i0 b.i1)).flatMap fun i => (List.range (Gen.crop_xl_units b.x0 b.x1)).flatMap fun x =>
          (List.range (Gen.crop_z_units g.b2 b.z0 b.z1)).map fun z =>
            ((b.i0 / 4 + i) * (g.P1 / 4) * (g.P2 / 4) + (b.x0 / 4 + x) * (g.P2 / 4) + b.z0 / 4) + z
      else
        (List.range (pad b.i1 g.b0 / g.b0 - b.i0 / g.b0)).flatMap fun i =>
          (List.range (pad b.x1 g.b1 / g.b1 - b.x0 / g.b1)).flatMap fun x =>
            (List.range (pad b.z1 g.b2 / g.b2 - b.z0 / g.b2)).flatMap fun z =>
              (List.range g.cpb).map fun c =>
                Gen.crop_block_id (b.i0 / g.b0 + i) g.NB1 g.NB2 (b.x0 / g.b1 + x) (b.z0 / g.b2 + z) * g.cpb + c := by
  unfold Crop.units Gen.crop_il_units Gen.crop_xl_units Gen.crop_z_units Gen.crop_block_id
  simp only [pad_eq]

theorem crop_block_offset (id : Nat) : Gen.crop_block_offset 4096 id = 4096 * id := rfl

/-- bytes of one header array of the cropped file -/
theorem crop_array_bytes (f : Header.Fields) (b : Crop.Box) (s : Bool) (p : Nat) :
    (Derived.cropHeader f b s p).arrayBytes = Gen.crop_array_bytes (b.i1 - b.i0) (b.x1 - b.x0) := by
  unfold Derived.cropHeader Gen.crop_array_bytes; rfl

/-! ### conversion.py: re-blocker -/

theorem reblock_count (n t : Nat) :
    Reblock.count n t = if (t + 1) * 64 > n then Gen.reblock_i_count n 64 else 16 := by
  unfold Reblock.count Gen.reblock_i_count; rfl

theorem reblock_count_x (n t : Nat) :
    Reblock.count n t = if (t + 1) * 64 > n then Gen.reblock_x_count n 64 else 16 := by
  unfold Reblock.count Gen.reblock_x_count; rfl

theorem reblock_last (n t : Nat) :
    (Gen.reblock_last_il t n 64 ↔ (t + 1) * 64 > n) ∧ (Gen.reblock_last_xl n 64 t ↔ (t + 1) * 64 > n) := by
  unfold Gen.reblock_last_il Gen.reblock_last_xl
  constructor <;> constructor <;> intro h <;> omega

/-! ### conversion_utils.py: producers -/

/-- `planes_to_read` -/
theorem producer_planes (n b s : Nat) :
    Writer.toRead n b s = if (s + 1) * b > n then Gen.producer_planes b n else b := by
  unfold Writer.toRead Gen.producer_planes; rfl

theorem producer_last_set (n b s : Nat) : Gen.producer_last_set b n s ↔ (s + 1) * b > n := by
  unfold Gen.producer_last_set
  constructor <;> intro h
  · exact_mod_cast h
  · exact_mod_cast h

/-- `start_trace` and the header slot `t_store` of `io_thread_func` -/
theorem io_header_slots (N1 : Nat) (w : Window.Win) (b0 s i t : Nat) :
    Gen.io_start_trace b0 w.a0 w.b0 i N1 s = Window.startTrace N1 w (s * b0 + i)
    ∧ Gen.io_t_store w.a0 w.b0 (w.b1 - w.b0) (Gen.io_t_il N1 t) (Gen.io_t_xl N1 t) = Window.tStore N1 w t := by
  unfold Gen.io_start_trace Window.startTrace Gen.io_t_store Gen.io_t_il Gen.io_t_xl Window.tStore
  constructor
  · simp only [Nat.add_assoc]
  · rfl

/-! ### the fixed header words: `make_header` writes and the reader parses at the offsets of `Model/Header` -/

/-- the writer's stores, field by field (the irregular branch writes the increments at the same offsets) -/
theorem header_writer_offsets (f : Header.Fields) :
    (Header.writes f).map (·.1) =
      [Gen.w_header_blocks, Gen.w_n_samples, Gen.w_n_xl, Gen.w_n_il, Gen.w_z_start, Gen.w_xl0, Gen.w_il0, Gen.w_interval,
       Gen.w_dxl, Gen.w_dil, Gen.w_rate, Gen.w_b0, Gen.w_b1, Gen.w_b2, Gen.w_data_blocks, Gen.w_array_bytes, Gen.w_n_arrays,
       Gen.w_tracecount, Gen.w_version]
    ∧ Gen.w_dxl_irregular = Gen.w_dxl ∧ Gen.w_dil_irregular = Gen.w_dil ∧ Gen.w_table = 980 := by
  refine ⟨rfl, rfl, rfl, rfl⟩

/-- the reader's loads, field by field -/
theorem header_reader_offsets (h : Header.Bytes) :
    let p := Header.parse h
    p.nHeaderBlocks = Header.get32 h Gen.r_header_blocks ∧ p.nSamples = Header.get32 h Gen.r_n_samples
    ∧ p.nXl = Header.get32 h Gen.r_n_xl ∧ p.nIl = Header.get32 h Gen.r_n_il
    ∧ p.zStart = Header.toSigned (Header.get32 h Gen.r_z_start)
    ∧ p.xl0 = Axes.wrapI32 (Header.get32 h Gen.r_xl0) ∧ p.il0 = Axes.wrapI32 (Header.get32 h Gen.r_il0)
    ∧ p.interval = Header.toSigned (Header.get32 h Gen.r_interval)
    ∧ p.dXl = Axes.wrapI32 (Header.get32 h Gen.r_dxl) ∧ p.dIl = Axes.wrapI32 (Header.get32 h Gen.r_dil)
    ∧ p.q = Header.decodeRate (Header.toSigned (Header.get32 h Gen.r_rate))
    ∧ p.b0 = Header.get32 h Gen.r_b0 ∧ p.b1 = Header.get32 h Gen.r_b1 ∧ p.b2 = Header.get32 h Gen.r_b2
    ∧ p.dataBlocks = Header.get32 h Gen.r_data_blocks ∧ p.arrayBytes = Header.get32 h Gen.r_array_bytes
    ∧ p.nArrays = Header.get32 h Gen.r_n_arrays ∧ p.tracecount = Header.get32 h Gen.r_tracecount
    ∧ p.version = Header.get32 h Gen.r_version := by
  refine ⟨rfl, rfl, rfl, rfl, rfl, rfl, rfl, rfl, rfl, rfl, rfl, rfl, rfl, rfl, rfl, rfl, rfl, rfl, rfl⟩

/-- bytes of one header array as the 3D converter states them -/
theorem header_array_bytes (nIl nXl : Nat) : Gen.w_array_bytes_value nIl nXl = nXl * nIl * 32 / 8 := rfl

/-! ### headers.py / footer writers -/

/-- where a reader of the file's version looks for stored array `k` (the stride is `padded_entry` above for files after 0.2.1) -/
theorem header_array_offset (version nHB d len k : Nat) :
    Container.readerFooterOffset version nHB d len k =
      Gen.hdr_offset 4096 d k nHB (if Ver.paddedFooter version then pad len 512 else len) := by
  unfold Container.readerFooterOffset Gen.hdr_offset; rfl

/-- … which is the offset the header-read model uses, with `footer` the offset of array 0 -/
theorem header_array_offset_model (h : HeaderReads.HFile) (nHB d k : Nat) (hf : h.footer = 4096 * nHB + 4096 * d) :
    HeaderReads.offsetOf h k = Gen.hdr_offset 4096 d k nHB h.stride := by
  unfold HeaderReads.offsetOf Gen.hdr_offset; rw [hf]

/-- a table row is a constant exactly when the model says so -/
theorem header_row_constant (c : Int) (code : Nat) :
    Gen.hdr_invariant c code ↔ (c != 0 || code == 0) = true := by
  unfold Gen.hdr_invariant
  simp only [Bool.or_eq_true, bne_iff_ne, ne_eq, beq_iff_eq]
  constructor <;> intro h <;> rcases h with h | h
  · exact .inl h
  · exact .inr (by exact_mod_cast h)
  · exact .inl h
  · exact .inr (by exact_mod_cast h)

/-- every footer writer pads an array to the next multiple of 512 bytes -/
theorem footer_padding (len : Nat) :
    (len : Int) + Gen.footer_pad_segy len = Container.footerArrayBytes len
    ∧ (len : Int) + Gen.footer_pad_numpy len = Container.footerArrayBytes len := by
  unfold Gen.footer_pad_segy Gen.footer_pad_numpy Container.footerArrayBytes
  rw [Int.fmod_eq_emod_of_nonneg _ (by decide)]
  constructor <;> omega

/-! ### version.py and the version gates -/

theorem version_decode (n : Nat) :
    Ver.decode n = { major := Gen.ver_major n, minor := Gen.ver_minor n (Gen.ver_major n),
                     patch := Gen.ver_patch n (Gen.ver_major n) (Gen.ver_minor n (Gen.ver_major n)),
                     dev := n % 2 == 0 }
    ∧ (Gen.ver_dev n ↔ (n % 2 == 0) = true) := by
  unfold Ver.decode Gen.ver_major Gen.ver_minor Gen.ver_patch Gen.ver_dev
  exact ⟨rfl, by simp⟩

theorem version_encode (v : Ver) :
    Ver.encode v = Gen.ver_encoding v.major v.minor v.patch - (if v.dev then 1 else 0) := by
  unfold Ver.encode Gen.ver_encoding; rfl

/-- the gates compare with the releases the model names -/
theorem version_gates :
    Ver.parse Gen.gate_reader_footer = some Ver.v_0_2_1 ∧ Ver.parse Gen.gate_reader_interval = some Ver.v_0_1_6
    ∧ Ver.parse Gen.gate_cropper_footer = some Ver.v_0_2_1 := by
  refine ⟨by decide, by decide, by decide⟩

/-! ### read.py: diagonals (guards, branch, the grid index of the d-th trace) -/

theorem correlated_diagonal (g : Geo) (cd d lo hi maxLen s e : Int) :
    (Gen.cd_guard cd g.n0 g.n1 ↔ (decide (-(g.n1 : Int) < cd) && decide (cd < (g.n0 : Int))) = true)
    ∧ (Gen.cd_guard_lo maxLen lo ↔ (decide (0 ≤ lo) && decide (lo < maxLen)) = true)
    ∧ (Gen.cd_guard_hi hi maxLen ↔ (decide (0 < hi) && decide (hi ≤ maxLen)) = true)
    ∧ (Gen.cd_guard_order hi lo ↔ lo < hi)
    ∧ (Gen.cd_guard_window e s g.n2 ↔ Reader.windowOk g s e = true)
    ∧ (Gen.cd_branch cd ↔ cd ≥ 0)
    ∧ Gen.cd_index_a cd d g.n1 = (d + cd) * g.n1 + d
    ∧ Gen.cd_index_b cd d g.n1 = d * g.n1 + d - cd := by
  unfold Gen.cd_guard Gen.cd_guard_lo Gen.cd_guard_hi Gen.cd_guard_order Gen.cd_guard_window Gen.cd_branch
    Gen.cd_index_a Gen.cd_index_b Reader.windowOk
  simp only [Bool.and_eq_true, decide_eq_true_eq]
  refine ⟨?_, ?_, ?_, ?_, ?_, ?_, ?_, ?_⟩ <;>
    first | trivial | rfl | exact Iff.rfl | (constructor <;> intro h <;> omega)

theorem anticorrelated_diagonal (g : Geo) (ad d lo hi maxLen s e : Int) :
    (Gen.ad_guard ad g.n0 g.n1 ↔ (decide (0 ≤ ad) && decide (ad < (g.n0 : Int) + g.n1 - 1)) = true)
    ∧ (Gen.ad_guard_lo maxLen lo ↔ (decide (0 ≤ lo) && decide (lo < maxLen)) = true)
    ∧ (Gen.ad_guard_hi hi maxLen ↔ (decide (0 < hi) && decide (hi ≤ maxLen)) = true)
    ∧ (Gen.ad_guard_order hi lo ↔ lo < hi)
    ∧ (Gen.ad_guard_window e s g.n2 ↔ Reader.windowOk g s e = true)
    ∧ (Gen.ad_branch ad g.n1 ↔ ad < g.n1)
    ∧ Gen.ad_index_a ad d g.n1 = ad + d * ((g.n1 : Int) - 1)
    ∧ Gen.ad_index_b ad d g.n1 = (ad - g.n1 + 1 + d) * g.n1 + ((g.n1 : Int) - d - 1) := by
  unfold Gen.ad_guard Gen.ad_guard_lo Gen.ad_guard_hi Gen.ad_guard_order Gen.ad_guard_window Gen.ad_branch
    Gen.ad_index_a Gen.ad_index_b Reader.windowOk
  simp only [Bool.and_eq_true, decide_eq_true_eq]
  refine ⟨?_, ?_, ?_, ?_, ?_, ?_, ?_, ?_⟩ <;>
    first | trivial | rfl | exact Iff.rfl | (constructor <;> intro h <;> omega)

/-! ### accessors.py: `subvolume[...]` subscripts, negative ordinals -/

/-- `_check_subscripts`, bound by bound: with `c0, c1, cl` the first, second and last coordinate of the axis, and
`d = c1 - c0`; a given bound passes exactly when the model's conjunct holds -/
theorem subvolume_check_bounds (c0 c1 cl v : Int) :
    let d := c1 - c0
    let sign : Int := if d > 0 then 1 else -1
    Gen.acc_sign c0 c1 = sign
    ∧ Gen.acc_first c0 sign = sign * c0
    ∧ Gen.acc_end c0 c1 cl sign = sign * (cl + d)
    ∧ ((¬ Gen.acc_bad_start (sign * (cl + d)) (sign * c0) sign v True)
        ↔ (decide (sign * c0 ≤ sign * v) && decide (sign * v < sign * (cl + d))) = true)
    ∧ ((¬ Gen.acc_bad_stop (sign * (cl + d)) (sign * c0) sign v True)
        ↔ (decide (sign * c0 < sign * v) && decide (sign * v ≤ sign * (cl + d))) = true)
    ∧ ((¬ Gen.acc_bad_step c0 c1 v True) ↔ (v % d == 0) = true) := by
  intro d sign
  unfold Gen.acc_sign Gen.acc_first Gen.acc_end Gen.acc_bad_start Gen.acc_bad_stop Gen.acc_bad_step
  refine ⟨rfl, rfl, ?_, ?_, ?_, ?_⟩
  · show sign * (cl + c1 - c0) = sign * (cl + (c1 - c0))
    rw [Int.add_sub_assoc]
  · simp
  · simp
  · simp only [true_and, Decidable.not_not, beq_iff_eq, Int.fmod_eq_emod]
    show (v % (c1 - c0) + (if 0 ≤ c1 - c0 ∨ c1 - c0 ∣ v then 0 else c1 - c0)) = 0 ↔ v % (c1 - c0) = 0
    by_cases h : 0 ≤ c1 - c0 ∨ c1 - c0 ∣ v
    · rw [if_pos h]; simp
    · rw [if_neg h]
      have hneg : c1 - c0 < 0 := by omega
      have hnd : ¬ (c1 - c0 ∣ v) := fun hd => h (.inr hd)
      have h1 : 0 ≤ v % (c1 - c0) := Int.emod_nonneg _ (by omega)
      have h2 : v % (c1 - c0) ≠ 0 := fun h0 => hnd (Int.dvd_of_emod_eq_zero h0)
      have h3 : v % (c1 - c0) < -(c1 - c0) := by
        have := Int.emod_lt_of_pos v (show 0 < -(c1 - c0) by omega)
        rwa [Int.emod_neg] at this
      constructor <;> intro hh <;> omega

theorem subvolume_index (c0 c1 cl v : Int) (n k : Int) :
    Gen.acc_step v c0 c1 = Int.fdiv v (c1 - c0)
    ∧ (Gen.acc_stop_is_end v c0 c1 cl True ↔ v = cl + c1 - c0)
    ∧ Gen.acc_negative_index n k = n + k ∧ (Gen.acc_is_negative k ↔ k < 0) := by
  unfold Gen.acc_step Gen.acc_stop_is_end Gen.acc_negative_index Gen.acc_is_negative
  refine ⟨rfl, ?_, rfl, Iff.rfl⟩
  simp

/-! ### conversion_utils.py: NumPy, 2D and irregular producers; sgz_xarray.py -/

/-- `numpy_producer`: plane sets, planes hashed, the slab taken from the input and its padding to a whole set -/
theorem numpy_producer (g : Geo) (n b s : Nat) (hb : 0 < b) :
    Gen.numpy_sets g.b0 g.P0 = g.NB0
    ∧ Writer.toRead n b s = (if (s + 1) * b > n then Gen.numpy_planes b n else b)
    ∧ (Gen.numpy_last_set b n s ↔ (s + 1) * b > n)
    ∧ Gen.numpy_slab_lo b s = s * b ∧ Gen.numpy_slab_hi b s = (s + 1) * b
    ∧ Gen.numpy_planes b n + Gen.numpy_pad_planes b n = b := by
  unfold Gen.numpy_sets Gen.numpy_planes Gen.numpy_last_set Gen.numpy_slab_lo Gen.numpy_slab_hi Gen.numpy_pad_planes
    Writer.toRead Geo.NB0
  refine ⟨rfl, rfl, ?_, rfl, rfl, ?_⟩
  · constructor <;> intro h <;> exact_mod_cast h
  · have := Nat.mod_lt n hb; omega

/-- `seismic_file_producer_2d` / `io_thread_func_2d` -/
theorem line2d_producer (g : Geo) (n b s i : Nat) :
    Gen.line2d_groups g.b1 g.P1 = g.NB1
    ∧ Writer.toRead n b s = (if (s + 1) * b > n then Gen.line2d_traces b n else b)
    ∧ (Gen.line2d_last_group b n s ↔ (s + 1) * b > n)
    ∧ Gen.line2d_trace_id b i s = s * b + i := by
  unfold Gen.line2d_groups Gen.line2d_traces Gen.line2d_last_group Gen.line2d_trace_id Writer.toRead Geo.NB1
  refine ⟨rfl, rfl, ?_, rfl⟩
  constructor <;> intro h <;> exact_mod_cast h

/-- `unstructured_io_thread_func`: the inline number looked up for plane `i` of set `s`, and the header slot of the trace
found there at crossline position `xlId` — the slot `Irregular.tStore` assigns to those line numbers -/
theorem irregular_slots (minIl ilStep minXl xlStep : Int) (hil : 0 < ilStep) (hxl : 0 < xlStep) (nXl b0 s i xlId : Nat) :
    Irregular.tStore minIl ilStep minXl xlStep nXl (Gen.irregular_inline_number b0 ilStep minIl i s)
        (minXl + xlStep * (xlId : Int))
      = (Gen.irregular_t_store b0 i nXl s xlId : Nat) := by
  unfold Irregular.tStore Gen.irregular_inline_number Gen.irregular_t_store
  have e1 : minXl + xlStep * (xlId : Int) - minXl = xlStep * (xlId : Int) := by omega
  have e2 : ((s : Int) * (b0 : Int) + (i : Int)) * ilStep + minIl - minIl = ((s : Int) * (b0 : Int) + (i : Int)) * ilStep := by omega
  rw [e1, e2, Int.mul_ediv_cancel_left _ (by omega), Int.mul_ediv_cancel _ (by omega)]
  push_cast
  rfl

/-- `sgz_xarray`: an integer key -/
theorem xarray_int_key (k : Int) (n : Nat) :
    Xarray.axisPlan (.idx k) n = some (Gen.xarray_int_key k n, Gen.xarray_int_key k n + 1, none) := by
  unfold Xarray.axisPlan Gen.xarray_int_key; rfl

/-! ### dispatch: which loader / copy path / queueing a call takes -/

theorem dispatch (g : Geo) (minZ maxZ : Nat) :
    (Gen.dispatch_inline g.b0 g.b1 ↔ Reader.isDefault g = true)
    ∧ (Gen.dispatch_crossline g.b0 g.b1 ↔ Reader.isDefault g = true)
    ∧ (Gen.dispatch_zslice g.b0 g.b1 ↔ Reader.isDefault g = true)
    ∧ (Gen.dispatch_zslice_adv g.b2 ↔ (g.b2 == 4) = true)
    ∧ (Gen.dispatch_subvolume g.b0 g.b1 ↔ Reader.isDefault g = true)
    ∧ (Gen.dispatch_trace2d g.b1 maxZ minZ g.P2 ↔ (g.b1 == 4 && minZ == 0 && maxZ == g.P2) = true)
    ∧ (Gen.dispatch_crop g.b0 g.b1 ↔ (g.b0 == 4 && g.b1 == 4) = true)
    ∧ (Gen.dispatch_producer g.b0 g.b1 ↔ (g.b0 == 4 && g.b1 == 4) = true)
    ∧ (Gen.dispatch_numpy g.b0 g.b1 ↔ (g.b0 == 4 && g.b1 == 4) = true)
    ∧ (Gen.dispatch_2d g.b1 ↔ (g.b1 == 4) = true) := by
  unfold Gen.dispatch_inline Gen.dispatch_crossline Gen.dispatch_zslice Gen.dispatch_zslice_adv Gen.dispatch_subvolume
    Gen.dispatch_trace2d Gen.dispatch_crop Gen.dispatch_producer Gen.dispatch_numpy Gen.dispatch_2d Reader.isDefault
  simp only [Bool.and_eq_true, beq_iff_eq]
  refine ⟨?_, ?_, ?_, ?_, ?_, ?_, ?_, ?_, ?_, ?_⟩ <;> constructor <;> intro h <;> omega

/-! ### loader.py: z-slices on N×M×4 layouts (`read_and_decompress_zslice_set_adv`, `_distribute_chunk_into_buffer`) -/

/-- with an integral bit rate `r` (unit of `8·r` bytes) and extents padded to multiples of 4: the fetch of every block and
the row-by-row placement of its sub-blocks are the model's -/
theorem zslice_adv (g : Geo) (zb r : Nat) (hu : g.u = 8 * r) (hb1 : 4 ∣ g.b1) (hP1 : 4 ∣ g.P1) :
    Gen.adv_count g.NB0 g.NB1 = g.NB0 * g.NB1 ∧ Gen.adv_rows g.b0 = g.b0 / 4
    ∧ Gen.adv_sub_block g.b1 r = (g.b1 / 4) * g.u
    ∧ (∀ id, Loader.zsliceAdvFetch g zb id =
        (Gen.adv_fetch_offset 4096 (Gen.adv_block_num (Gen.adv_block_i id g.NB1) (Gen.adv_block_x id g.NB1) g.NB1) g.NB2 zb, 4096))
    ∧ (∀ id row, Gen.adv_buf_start 4096 (Gen.adv_block_i id g.NB1) (Gen.adv_block_x id g.NB1) g.NB1 r g.P1 row
          (Gen.adv_sub_block g.b1 r)
        = (id / g.NB1) * 4096 * g.NB1 + (id % g.NB1) * ((g.b1 / 4) * g.u) + row * ((g.P1 / 4) * g.u))
    ∧ (∀ row, Gen.adv_src_lo row (Gen.adv_sub_block g.b1 r) = row * ((g.b1 / 4) * g.u)) := by
  obtain ⟨k1, hk1⟩ := hb1
  obtain ⟨kp, hkp⟩ := hP1
  have esub : Gen.adv_sub_block g.b1 r = (g.b1 / 4) * g.u := by
    unfold Gen.adv_sub_block
    rw [hu, hk1, Nat.mul_div_cancel_left _ (by decide : 0 < 4)]
    have : 4 * 4 * (4 * k1) * r = 8 * (k1 * (8 * r)) := by
      simp only [Nat.mul_comm, Nat.mul_left_comm]
    rw [this, Nat.mul_div_cancel_left _ (by decide : 0 < 8)]
  have erow : g.P1 * 4 * 4 * r / 8 = (g.P1 / 4) * g.u := by
    rw [hu, hkp, Nat.mul_div_cancel_left _ (by decide : 0 < 4)]
    have : 4 * kp * 4 * 4 * r = 8 * (kp * (8 * r)) := by
      simp only [Nat.mul_comm, Nat.mul_left_comm]
    rw [this, Nat.mul_div_cancel_left _ (by decide : 0 < 8)]
  refine ⟨rfl, rfl, esub, ?_, ?_, ?_⟩
  · intro id
    unfold Loader.zsliceAdvFetch Gen.adv_fetch_offset Gen.adv_block_num Gen.adv_block_i Gen.adv_block_x
    rfl
  · intro id row
    unfold Gen.adv_buf_start Gen.adv_block_i Gen.adv_block_x
    rw [esub, erow]
  · intro row
    unfold Gen.adv_src_lo
    rw [esub]

/-! ### constants; the reduced-I/O SEG-Y reader -/

theorem constants :
    Gen.const_disk_block = 4096 ∧ Gen.const_segy_file_header = 3600 ∧ Gen.const_segy_text_header = 3200
    ∧ Gen.const_segy_trace_header = 240 := ⟨rfl, rfl, rfl, rfl⟩

/-- `MinimalInlineReader.read_line(i)`: the one range read -/
theorem segyraw_read_line (nxl ns i : Nat) :
    SegyRaw.readLine nxl ns i = (Gen.segyraw_seek Gen.const_segy_file_header i ns nxl,
                                  Gen.segyraw_length Gen.const_segy_trace_header ns nxl) := by
  unfold SegyRaw.readLine Gen.segyraw_seek Gen.segyraw_length Gen.const_segy_file_header Gen.const_segy_trace_header; rfl

/-! ### SEG-Y export: where the copied file header is read; axis inference of irregular surveys; the range-read length check -/

/-- `convert_to_segy` / `write_segy`: the two binary-header fields are read at the model's positions of the stored SEG-Y
file header, with the decodings the model uses; segyio is asked for `max(n, 0)` extended headers; formats 1 and 5 are kept;
the first 3600 bytes of the stored header are written back -/
theorem export_positions :
    Gen.export_fmt_lo Gen.const_disk_block = Export.segyHeaderAt + Export.formatAt
    ∧ Gen.export_fmt_hi Gen.const_disk_block = Export.segyHeaderAt + Export.formatAt + 2
    ∧ Gen.export_fmt_format = ">H"
    ∧ Gen.export_ext_lo Gen.const_disk_block = Export.segyHeaderAt + Export.extCountAt
    ∧ Gen.export_ext_hi Gen.const_disk_block = Export.segyHeaderAt + Export.extCountAt + 2
    ∧ Gen.export_ext_format = ">h"
    ∧ Gen.export_filehdr_lo Gen.const_disk_block = Export.segyHeaderAt
    ∧ Gen.export_filehdr_hi Gen.const_disk_block Gen.const_segy_file_header = Export.segyHeaderAt + Export.fileHeaderBytes :=
  ⟨rfl, rfl, rfl, rfl, rfl, rfl, rfl, rfl⟩

theorem export_ext_count (fh : Nat → Nat) (h0 : fh Export.extCountAt < 256) (h1 : fh (Export.extCountAt + 1) < 256) :
    Gen.export_ext_count (Export.signed16 (fh Export.extCountAt * 256 + fh (Export.extCountAt + 1)))
      = (Export.extCount fh : Int) := by
  unfold Gen.export_ext_count Export.signed16 Export.extCount
  simp only
  split <;> omega

theorem export_format_kept (c : Nat) : Gen.export_fmt_kept (c : Int) ↔ Export.supportedFormat c = true := by
  unfold Gen.export_fmt_kept Export.supportedFormat
  simp only [Bool.or_eq_true, beq_iff_eq]
  omega

/-- `InferredGeometry3d.get_range` and the grid it hands to `Geometry3d` -/
theorem infer_range (ids : List Int) (h : 1 < ids.length) :
    Irregular.inferRange ids = some (Gen.infer_min (Irregular.minOf ids), Gen.infer_max (Irregular.maxOf ids),
      Gen.infer_step ids.length (Irregular.maxOf ids) (Irregular.minOf ids)) := by
  unfold Irregular.inferRange Gen.infer_min Gen.infer_max Gen.infer_step
  rw [if_neg (by omega)]
  have hpos : (0 : Int) ≤ (ids.length : Int) - 1 := by omega
  rw [Int.fdiv_eq_ediv_of_nonneg _ hpos]

theorem infer_stop (m : Int) : Gen.infer_stop_il m = m + 1 ∧ Gen.infer_stop_xl m = m + 1 := ⟨rfl, rfl⟩

/-- `check_range_length`: a range read is refused exactly when it does not deliver the requested number of bytes — for a
read that cannot deliver more than was asked (`file.read(n)`, a blob range) that is `File.readRange`'s / `runFaulty`'s
"fewer than requested" -/
theorem range_short (got len : Nat) (h : got ≤ len) : Gen.range_short (got : Int) (len : Int) ↔ got < len := by
  unfold Gen.range_short; omega

/-! ### the cropper's and the re-blocker's header patches; the re-blocker's byte moves -/

/-- `regenerate_header` patches every field at the offset at which `make_header` wrote it, with the box lengths of
`Derived.cropHeader` -/
theorem crop_header_patches (b : Crop.Box) :
    Gen.cw_n_samples = Gen.w_n_samples ∧ Gen.cw_n_xl = Gen.w_n_xl ∧ Gen.cw_n_il = Gen.w_n_il ∧ Gen.cw_z_start = Gen.w_z_start
    ∧ Gen.cw_xl0 = Gen.w_xl0 ∧ Gen.cw_il0 = Gen.w_il0 ∧ Gen.cw_data_blocks = Gen.w_data_blocks
    ∧ Gen.cw_array_bytes = Gen.w_array_bytes ∧ Gen.cw_tracecount = Gen.w_tracecount
    ∧ Gen.cw_len_z b.z0 b.z1 = b.z1 - b.z0 ∧ Gen.cw_len_x b.x0 b.x1 = b.x1 - b.x0 ∧ Gen.cw_len_i b.i0 b.i1 = b.i1 - b.i0
    ∧ Gen.cw_tracecount_structured (b.i1 - b.i0) (b.x1 - b.x0) = (b.x1 - b.x0) * (b.i1 - b.i0) :=
  ⟨rfl, rfl, rfl, rfl, rfl, rfl, rfl, rfl, rfl, rfl, rfl, rfl, rfl⟩

/-- `convert_to_adv_sgz` patches blockshape and data length where `make_header` wrote them, to the values of
`Derived.reblockHeader` (2 bits per voxel: `q = 8`) -/
theorem reblock_header_patches (f : Header.Fields) (hq : f.q = 8) :
    Gen.rb_w_b0 = Gen.w_b0 ∧ Gen.rb_w_b1 = Gen.w_b1 ∧ Gen.rb_w_b2 = Gen.w_b2 ∧ Gen.rb_w_data_blocks = Gen.w_data_blocks
    ∧ (Derived.reblockHeader f).b0 = Gen.rb_b0 ∧ (Derived.reblockHeader f).b1 = Gen.rb_b1 ∧ (Derived.reblockHeader f).b2 = Gen.rb_b2
    ∧ (Derived.reblockHeader f).dataBlocks =
        Gen.rb_data_blocks Gen.const_disk_block (Reblock.outGeo (Derived.geoOf f)).P0 (Reblock.outGeo (Derived.geoOf f)).P1
          (Reblock.outGeo (Derived.geoOf f)).P2 2 := by
  refine ⟨rfl, rfl, rfl, rfl, rfl, rfl, rfl, ?_⟩
  unfold Derived.reblockHeader Container.diskBlocks Gen.rb_data_blocks Gen.const_disk_block
  simp only [hq]
  generalize (Reblock.outGeo (Derived.geoOf f)).P0 = a
  generalize (Reblock.outGeo (Derived.geoOf f)).P1 = b
  generalize (Reblock.outGeo (Derived.geoOf f)).P2 = c
  have e : 8 * c * b * a = 4 * (2 * c * b * a) := by ring
  rw [e, Nat.mul_div_cancel_left _ (by omega : 0 < 4), Nat.div_div_eq_div_mul]

/-- the loops of the re-blocker run over the tiles and depths of `Reblock.units` -/
theorem reblock_loops (g : Geo) :
    Gen.rb_tiles_i Gen.rb_b0 (Reblock.outGeo g).P0 = (Reblock.outGeo g).NB0
    ∧ Gen.rb_tiles_x Gen.rb_b1 (Reblock.outGeo g).P1 = (Reblock.outGeo g).NB1
    ∧ Gen.rb_depths Gen.rb_b2 (Reblock.outGeo g).P2 = (Reblock.outGeo g).NB2 := ⟨rfl, rfl, rfl⟩

/-- **where the bytes of an output unit come from.**  Output unit `u = 16·n + m` at depth `z` of tile `(i, x)` is filled
from buffer position `rb_src_lo`, which lies `m·chunk + z·unit` bytes into the read made for row `n` (stored at
`rb_idx_lo`), i.e. from file offset `rb_seek + m·chunk + z·unit`: that is the source unit
`((16·i + n)·(P1/4) + (16·x + m))·(P2/4) + z` of `Reblock.units`, 16 bytes each, in a source of layout (4,4,1024) at 2 bits
(`chunk = 4·P2`, `P1 = 4·a`, `P2 = 4·c`) -/
theorem reblock_source_bytes (ds a c i x n m z : Nat) :
    let P1 := 4 * a
    let P2 := 4 * c
    let chunk := 4 * P2
    Gen.rb_src_lo chunk (16 * n + m) 16 z = Gen.rb_idx_lo chunk n + (m * chunk + z * 16)
    ∧ Gen.rb_seek chunk ds i (Gen.rb_inline_bytes 2 P1 P2) n x + (m * chunk + z * 16)
        = ds + 16 * (((16 * i + n) * (P1 / 4) + (16 * x + m)) * (P2 / 4) + z) := by
  intro P1 P2 chunk
  unfold Gen.rb_src_lo Gen.rb_idx_lo Gen.rb_seek Gen.rb_inline_bytes
  have h1 : P1 / 4 = a := Nat.mul_div_cancel_left a (by omega)
  have h2 : P2 / 4 = c := Nat.mul_div_cancel_left c (by omega)
  have h3 : P2 * P1 * 2 / 8 = 4 * a * c := by
    show 4 * c * (4 * a) * 2 / 8 = 4 * a * c
    have : 4 * c * (4 * a) * 2 = 8 * (4 * a * c) := by ring
    rw [this, Nat.mul_div_cancel_left _ (by omega : 0 < 8)]
  rw [h1, h2, h3]
  constructor
  · show (16 * n + m) * (4 * (4 * c)) + z * 16 = n * (4 * (4 * c)) * 16 + (m * (4 * (4 * c)) + z * 16)
    ring
  · show ds + x * (4 * (4 * c)) * 16 + 4 * (n + i * 16) * (4 * a * c) + (m * (4 * (4 * c)) + z * 16)
        = ds + 16 * (((16 * i + n) * a + (16 * x + m)) * c + z)
    ring

/-- one row read of the re-blocker: `x_count` chunk columns, stored at the row's place in the tile buffer -/
theorem reblock_row_read (chunk n xc : Nat) :
    Gen.rb_read_len chunk xc = chunk * xc ∧ Gen.rb_idx_hi chunk n xc = Gen.rb_idx_lo chunk n + Gen.rb_read_len chunk xc
    ∧ ∀ u z unit, Gen.rb_src_hi chunk u unit z = Gen.rb_src_lo chunk u unit z + unit := by
  refine ⟨rfl, ?_, ?_⟩
  · unfold Gen.rb_idx_hi Gen.rb_idx_lo Gen.rb_read_len; rw [Nat.mul_comm xc chunk]
  · intro u z unit; unfold Gen.rb_src_hi Gen.rb_src_lo; rw [Nat.add_mul, Nat.one_mul, Nat.add_assoc]

/-! ### windowed conversion: which traces header detection looks at -/

/-- `get_blank_header_info` hands the heuristic the first and the last trace *of the window* (`Window.firstTrace`,
`lastTrace`), and sizes the header arrays for the window's traces -/
theorem window_detection_traces (N1 : Nat) (w : Window.Win) :
    Gen.win_first_trace w.a0 w.b0 N1 = Window.firstTrace N1 w
    ∧ Gen.win_last_trace (w.a1 - 1) (w.b1 - 1) N1 = Window.lastTrace N1 w
    ∧ Gen.win_n_traces (w.a1 - w.a0) (w.b1 - w.b0) = (w.a1 - w.a0) * (w.b1 - w.b0) := ⟨rfl, rfl, rfl⟩

/-- every trace header the heuristic detection of `HeaderwordInfo` consults is the one at `first_trace` or `last_trace`
(`Headers.Src.first` / `last`): the table constants, "differs between first and last", "non-zero in the first trace", and
the duplicate test -/
theorem heuristic_traces (ft lt : Nat) :
    Gen.hw_init_trace_a ft = ft ∧ Gen.hw_init_trace_b ft = ft ∧ Gen.hw_fl_first ft = ft ∧ Gen.hw_fl_last lt = lt
    ∧ Gen.hw_nonzero_trace ft = ft ∧ Gen.hw_dup_first ft = ft ∧ Gen.hw_dup_last lt = lt := ⟨rfl, rfl, rfl, rfl, rfl, rfl, rfl⟩

/-! ### the header-word table: where its rows are stored and read -/

/-- `to_buffer` stores the three words of row `i` at `12·i`, `12·i + 4`, `12·i + 8` of a 1068-byte buffer (89 rows), which
`make_header` places — and the `thorough` converter patches — at byte 980; the reader slices bytes 980 … 2048 and reads
row `i`, word `j` at `12·i + j`: the offsets of `Header.rowAt` / `tableWrites` / `getRow`.  The array count is patched where
`make_header` wrote it. -/
theorem header_table_layout (i : Nat) :
    Gen.tbl_bytes = 12 * Header.tableRows
    ∧ Gen.w_table + Gen.tbl_code_lo (Gen.tbl_row_start i) = Header.rowAt i
    ∧ Gen.w_table + Gen.tbl_const_lo (Gen.tbl_row_start i) = Header.rowAt i + 4
    ∧ Gen.w_table + Gen.tbl_dup_lo (Gen.tbl_row_start i) = Header.rowAt i + 8
    ∧ Gen.tbl_code_hi (Gen.tbl_row_start i) = Gen.tbl_code_lo (Gen.tbl_row_start i) + 4
    ∧ Gen.tbl_const_hi (Gen.tbl_row_start i) = Gen.tbl_const_lo (Gen.tbl_row_start i) + 4
    ∧ Gen.tbl_dup_hi (Gen.tbl_row_start i) = Gen.tbl_dup_lo (Gen.tbl_row_start i) + 4
    ∧ Gen.tblr_slice_lo = Header.tableAt ∧ Gen.tblr_slice_hi = Header.tableAt + 12 * Header.tableRows
    ∧ (∀ j, Gen.tblr_slice_lo + Gen.tblr_lo i j = Header.rowAt i + j ∧ Gen.tblr_hi i j = Gen.tblr_lo i j + 4)
    ∧ Gen.tbl_patch_seek = Header.tableAt ∧ Gen.tbl_patch_count_seek = Gen.w_n_arrays := by
  unfold Gen.tbl_bytes Gen.w_table Gen.tbl_code_lo Gen.tbl_const_lo Gen.tbl_dup_lo Gen.tbl_code_hi Gen.tbl_const_hi
    Gen.tbl_dup_hi Gen.tbl_row_start Gen.tblr_slice_lo Gen.tblr_slice_hi Gen.tblr_lo Gen.tblr_hi Gen.tbl_patch_seek
    Gen.tbl_patch_count_seek Gen.w_n_arrays Header.rowAt Header.tableAt Header.tableRows
  refine ⟨rfl, by omega, by omega, by omega, by omega, by omega, by omega, rfl, rfl, fun j => ⟨by omega, by omega⟩, rfl, rfl⟩

end Sgz.Tie
