import Sgz.Model.WriteOrder
import Sgz.Proofs.IO
import Sgz.Proofs.HeaderReads
/-!
# Proofs/WriteOrder — every state a conversion can be interrupted in is harmless to a reader (C18)
-/
namespace Sgz
namespace WriteOrder

theorem isPrefix_refl (f : File) : IsPrefix f f := ⟨Nat.le_refl _, fun _ _ => rfl⟩

theorem isPrefix_trans {a b c : File} (h1 : IsPrefix a b) (h2 : IsPrefix b c) : IsPrefix a c :=
  ⟨Nat.le_trans h1.1 h2.1, fun i hi => (h1.2 i hi).trans (h2.2 i (Nat.lt_of_lt_of_le hi h1.1))⟩

theorem append_isPrefix (f : File) (bs : List Nat) : IsPrefix f (File.append f bs) := by
  refine ⟨by simp [File.append], fun i hi => ?_⟩
  simp only [File.append]
  rw [if_neg (by omega)]

theorem run_apps_isPrefix (l : List (List Nat)) : ∀ f : File, IsPrefix f (run f (l.map Step.app)) := by
  induction l with
  | nil => intro f; exact isPrefix_refl f
  | cons b bs ih =>
    intro f
    simp only [run, List.map_cons, List.foldl_cons]
    exact isPrefix_trans (append_isPrefix f b) (ih _)

theorem run_apps_len (l : List (List Nat)) : ∀ f : File, (run f (l.map Step.app)).len = f.len + (l.map List.length).sum := by
  induction l with
  | nil => intro f; simp [run]
  | cons b bs ih =>
    intro f
    simp only [run, List.map_cons, List.foldl_cons, List.sum_cons]
    have := ih (File.append f b)
    simp only [run] at this
    show (List.foldl Step.run (File.append f b) (List.map Step.app bs)).len = _
    rw [this]
    simp only [File.append]
    omega

theorem sum_take_le (l : List Nat) (k : Nat) : (l.take k).sum ≤ l.sum := by
  induction l generalizing k with
  | nil => simp
  | cons a as ih =>
    cases k with
    | zero => simp
    | succ k => simp only [List.take_succ_cons, List.sum_cons]; have := ih k; omega

/-- bytes of header blocks and compressed blocks: where the footer starts -/
def dataEnd (hdr : List Nat) (blocks : List (List Nat)) : Nat := hdr.length + (blocks.map List.length).sum

theorem phase1_len (hdr : List Nat) (blocks : List (List Nat)) (k : Nat) :
    (phase1 hdr blocks k).len ≤ dataEnd hdr blocks := by
  unfold phase1 dataEnd
  have : run empty (Step.app hdr :: (blocks.take k).map Step.app)
      = run (File.append empty hdr) ((blocks.take k).map Step.app) := rfl
  rw [this, run_apps_len]
  have h1 : (File.append empty hdr).len = hdr.length := by simp [File.append, empty]
  rw [h1]
  have := sum_take_le (blocks.map List.length) k
  rw [← List.map_take] at this
  omega

theorem patched_len (hdr : List Nat) (blocks : List (List Nat)) (cnt tbl : List Nat) :
    (patched hdr blocks cnt tbl).len ≤ dataEnd hdr blocks ∧
    (File.patch (phase1 hdr blocks blocks.length) 64 cnt).len ≤ dataEnd hdr blocks :=
  ⟨phase1_len hdr blocks blocks.length, phase1_len hdr blocks blocks.length⟩

theorem phase2_isPrefix (base : File) (arrays : List (List Nat)) (j : Nat) :
    IsPrefix (phase2 base arrays j) (phase2 base arrays arrays.length) := by
  unfold phase2
  have e : arrays.take arrays.length = arrays.take j ++ arrays.drop j := by
    rw [List.take_length, List.take_append_drop]
  rw [e, List.map_append]
  unfold run
  rw [List.foldl_append]
  exact run_apps_isPrefix (arrays.drop j) _

def hashRegion (i : Nat) : Bool := decide (960 ≤ i) && decide (i < 980)

theorem patch_agreesOutside (f : File) (off : Nat) (bs : List Nat) (R : Nat → Bool)
    (hR : ∀ i, off ≤ i → i < off + bs.length → R i = true) : AgreesOutside R f (File.patch f off bs) := by
  refine ⟨Nat.le_refl _, fun i _ hRi => ?_⟩
  simp only [File.patch]
  by_cases hin : off ≤ i ∧ i < off + bs.length
  · have := hR i hin.1 hin.2; rw [this] at hRi; cases hRi
  · rw [if_neg hin]

theorem agrees_of_prefix (R : Nat → Bool) {s m fin : File} (h1 : IsPrefix s m) (h2 : AgreesOutside R m fin) :
    AgreesOutside R s fin :=
  ⟨Nat.le_trans h1.1 h2.1, fun i hi hRi => (h1.2 i hi).trans (h2.2 i (Nat.lt_of_lt_of_le hi h1.1) hRi)⟩

/-- **footer phase**: after any number of appended arrays the file agrees with the finished one except inside the hash field -/
theorem phase2_agrees (base : File) (arrays : List (List Nat)) (hash : List Nat) (hh : hash.length = 20) (j : Nat) :
    AgreesOutside hashRegion (phase2 base arrays j) (finished base arrays hash) := by
  apply agrees_of_prefix hashRegion (phase2_isPrefix base arrays j)
  apply patch_agreesOutside
  intro i h1 h2
  simp only [hashRegion, Bool.and_eq_true, decide_eq_true_eq]
  omega

/-- the computation cannot finish without a range read that reaches beyond byte `D` -/
inductive NeedsBeyond {α : Type} (D : Nat) : Prog α → Prop
  | fail (e : Err) : NeedsBeyond D (.fail e)
  | here (off len : Nat) (k : List Nat → Prog α) : D < off + len → NeedsBeyond D (.read off len k)
  | later (off len : Nat) (k : List Nat → Prog α) : (∀ bs, NeedsBeyond D (k bs)) → NeedsBeyond D (.read off len k)

theorem needsBeyond_raises {α : Type} (D : Nat) (p : File) (hp : p.len ≤ D) (prog : Prog α) (h : NeedsBeyond D prog) :
    ∃ e, prog.run p = .error e := by
  induction h with
  | fail e => exact ⟨e, rfl⟩
  | here off len k hlt =>
    refine ⟨.io, ?_⟩
    unfold Prog.run File.readRange
    rw [if_neg (by omega)]
  | later off len k _ ih =>
    unfold Prog.run
    cases hr : p.readRange off len with
    | none => exact ⟨.io, rfl⟩
    | some bs => exact ih bs

/-- reading a list of ranges and then answering: the shape of a header / tracefield look-up -/
def fetchAll {α : Type} (fs : List (Nat × Nat)) (k : List (List Nat) → α) : Prog α :=
  match fs with
  | [] => .done (k [])
  | (o, l) :: rest => .read o l fun bs => fetchAll rest fun more => k (bs :: more)

theorem fetchAll_needsBeyond {α : Type} (D : Nat) (fs : List (Nat × Nat)) (h : ∃ f ∈ fs, D < f.1 + f.2) :
    ∀ k : List (List Nat) → α, NeedsBeyond D (fetchAll fs k) := by
  induction fs with
  | nil => obtain ⟨f, hf, _⟩ := h; cases hf
  | cons f rest ih =>
    intro k
    obtain ⟨o, l⟩ := f
    obtain ⟨g, hg, hlt⟩ := h
    rcases List.mem_cons.mp hg with rfl | hg'
    · exact NeedsBeyond.here o l _ hlt
    · exact NeedsBeyond.later o l _ fun bs => ih ⟨g, hg', hlt⟩ _

theorem fetchAll_insensitive {α : Type} (R : Nat → Bool) (fs : List (Nat × Nat))
    (h : ∀ f ∈ fs, ∀ i, i < f.2 → R (f.1 + i) = false) : ∀ k : List (List Nat) → α, Insensitive R (fetchAll fs k) := by
  induction fs with
  | nil => intro k; exact Insensitive.done _
  | cons f rest ih =>
    intro k
    obtain ⟨o, l⟩ := f
    refine Insensitive.read o l _ ?_ ?_
    · intro bs bs' h1 h2 hag
      have : bs = bs' := by
        apply List.ext_getElem?
        intro i
        by_cases hi : i < l
        · exact hag i hi (h (o, l) List.mem_cons_self i hi)
        · rw [List.getElem?_eq_none (by omega), List.getElem?_eq_none (by omega)]
      rw [this]
    · intro bs
      exact ih (fun g hg => h g (List.mem_cons_of_mem _ hg)) _

/-- a header look-up on a structured file cannot answer without a footer byte: it reads four bytes of every stored array -/
theorem structured_header_fetches_footer (h : HeaderReads.HFile) (il : Nat) (st : HeaderReads.HSt) (t : Nat)
    (hs : h.structured = true) (h3 : h.is3d = true) (ht : t < h.grid) (hsto : HeaderReads.hasStored h = true) :
    ∃ o, (HeaderReads.genTraceHeader h il st t false).2 = .ok o
      ∧ (∃ f ∈ o.fetches, h.footer < f.1 + f.2) ∧ (∀ f ∈ o.fetches, h.footer ≤ f.1) := by
  obtain ⟨_, o, ho, hf, _, hmem⟩ := HeaderReads.structured_header_io h il st t hs h3 ht
  refine ⟨o, ho, ?_, ?_⟩
  · obtain ⟨f, hf1, hf2⟩ := List.any_eq_true.mp hsto
    cases hk : HeaderReads.arrayOf h f with
    | none => simp [hk] at hf2
    | some k =>
      have hkm : k ∈ HeaderReads.distinctArrays h := (hmem k).mpr ⟨f, List.mem_range.mp hf1, hk⟩
      refine ⟨(HeaderReads.offsetOf h k + 4 * t, 4), ?_, ?_⟩
      · rw [hf]; exact List.mem_map.mpr ⟨k, hkm, rfl⟩
      · simp only [HeaderReads.offsetOf]; omega
  · intro f hfm
    rw [hf] at hfm
    obtain ⟨k, _, rfl⟩ := List.mem_map.mp hfm
    simp only [HeaderReads.offsetOf]; omega

/-- **C18, `thorough` mode, all write-prefix states**: a computation that cannot answer without a byte of the footer, and
does not use the hash field, raises or agrees with the finished file in every state the conversion can be interrupted in:
(1) header blocks and `k` compressed blocks written; (2) count patched; (3) count and table patched; (4) `j` kept arrays
appended (hash field pending).  Before the patches no footer byte exists, so the stale header (89 arrays) is never
honoured; after them the file is a prefix of the finished one. -/
theorem thorough_states_raise_or_agree {α : Type} (hdr : List Nat) (blocks : List (List Nat)) (cnt tbl : List Nat)
    (arrays : List (List Nat)) (hash : List Nat) (hh : hash.length = 20) (prog : Prog α)
    (hneed : NeedsBeyond (dataEnd hdr blocks) prog) (hins : Insensitive hashRegion prog) :
    let base := patched hdr blocks cnt tbl
    let fin := finished base arrays hash
    (∀ k, ∃ e, prog.run (phase1 hdr blocks k) = .error e)
    ∧ (∃ e, prog.run (File.patch (phase1 hdr blocks blocks.length) 64 cnt) = .error e)
    ∧ (∃ e, prog.run base = .error e)
    ∧ (∀ j, prog.run (phase2 base arrays j) = .error .io ∨ prog.run (phase2 base arrays j) = prog.run fin) := by
  refine ⟨fun k => needsBeyond_raises _ _ (phase1_len hdr blocks k) prog hneed,
    needsBeyond_raises _ _ (patched_len hdr blocks cnt tbl).2 prog hneed,
    needsBeyond_raises _ _ (patched_len hdr blocks cnt tbl).1 prog hneed,
    fun j => run_agreesOutside hashRegion _ _ (phase2_agrees _ arrays hash hh j) prog hins⟩

/-- the other modes (no in-place patch before the footer): every write-prefix state agrees with the finished file outside
the hash field -/
theorem plain_states_raise_or_agree {α : Type} (hdr : List Nat) (blocks arrays : List (List Nat)) (hash : List Nat)
    (hh : hash.length = 20) (prog : Prog α) (hins : Insensitive hashRegion prog) (k j : Nat) :
    let base := phase1 hdr blocks blocks.length
    let fin := finished base arrays hash
    (prog.run (phase1 hdr blocks k) = .error .io ∨ prog.run (phase1 hdr blocks k) = prog.run fin)
    ∧ (prog.run (phase2 base arrays j) = .error .io ∨ prog.run (phase2 base arrays j) = prog.run fin) := by
  intro base fin
  refine ⟨?_, run_agreesOutside hashRegion _ _ (phase2_agrees _ arrays hash hh j) prog hins⟩
  -- a phase-1 state is a prefix of the last phase-1 state, which is phase-2 state 0
  have h1 : IsPrefix (phase1 hdr blocks k) base := by
    unfold phase1
    have e : blocks.take blocks.length = blocks.take k ++ blocks.drop k := by
      rw [List.take_length, List.take_append_drop]
    show IsPrefix _ (run empty (Step.app hdr :: (blocks.take blocks.length).map Step.app))
    rw [e, List.map_append]
    unfold run
    rw [List.foldl_cons, List.foldl_cons, List.foldl_append]
    exact run_apps_isPrefix (blocks.drop k) _
  have h0 : base = phase2 base arrays 0 := by simp [phase2, run]
  have h2 : AgreesOutside hashRegion base fin := by
    have := phase2_agrees base arrays hash hh 0
    rw [← h0] at this; exact this
  exact run_agreesOutside hashRegion _ _ (agrees_of_prefix hashRegion h1 h2) prog hins

section
open HeaderReads

/-- every range read `read_variant_headers` issues is one whole footer array -/
theorem vhFold_fetches (h : HFile) (il : Nat) (ip : Bool) (fields : List Nat) :
    ∀ acc : HSt × List (Nat × Nat),
      (∀ f ∈ acc.2, ∃ x, f = (offsetOf h x, h.len)) →
      ∀ f ∈ (fields.foldl (vhStep h il ip) acc).2, ∃ x, f = (offsetOf h x, h.len) := by
  induction fields with
  | nil => intro acc hacc; exact hacc
  | cons g gs ih =>
    intro acc hacc
    simp only [List.foldl_cons]
    apply ih
    unfold vhStep
    cases hg : arrayOf h g with
    | none => exact hacc
    | some k =>
      by_cases hany : acc.1.vh.any (·.1 == g) = true
      · simp only [hany, if_true]; exact hacc
      · simp only [hany, Bool.false_eq_true, if_false]
        intro f hf
        rcases List.mem_append.mp hf with hf | hf
        · rcases List.mem_append.mp hf with hf | hf
          · exact hacc f hf
          · by_cases hm : ((h.is3d && !(h.structured || ip)) && !acc.1.maskLoaded) = true
            · rw [if_pos hm] at hf
              simp only [List.mem_singleton] at hf
              exact ⟨il, hf⟩
            · rw [if_neg hm] at hf; cases hf
        · simp only [List.mem_singleton] at hf
          exact ⟨k, hf⟩

/-- a fresh reader that loads any stored field issues at least one range read -/
theorem vhFold_fetches_nonempty (h : HFile) (il : Nat) (ip : Bool) (fields : List Nat) :
    ∀ acc : HSt × List (Nat × Nat),
      (acc.2 ≠ [] ∨ ∃ g ∈ fields, (arrayOf h g).isSome = true ∧ acc.1.vh.any (·.1 == g) = false) →
      (fields.foldl (vhStep h il ip) acc).2 ≠ [] := by
  induction fields with
  | nil =>
    intro acc hacc
    rcases hacc with hacc | ⟨g, hg, _⟩
    · exact hacc
    · cases hg
  | cons g gs ih =>
    intro acc hacc
    simp only [List.foldl_cons]
    apply ih
    -- either the step already fetched, or the witness is still to come and still not loaded
    by_cases hne : acc.2 ≠ []
    · left
      unfold vhStep
      cases hg : arrayOf h g with
      | none => exact hne
      | some k =>
        by_cases hany : acc.1.vh.any (·.1 == g) = true
        · simp only [hany, if_true]; exact hne
        · simp only [hany, Bool.false_eq_true, if_false]; simp
    · rcases hacc with hacc | ⟨w, hw, hws, hwn⟩
      · exact absurd hacc hne
      · rcases List.mem_cons.mp hw with rfl | hw'
        · left
          unfold vhStep
          cases hg : arrayOf h w with
          | none => rw [hg] at hws; cases hws
          | some k => simp only [hwn, Bool.false_eq_true, if_false]; simp
        · by_cases hgw : g = w
          · subst hgw
            left
            unfold vhStep
            cases hg : arrayOf h g with
            | none => rw [hg] at hws; cases hws
            | some k => simp only [hwn, Bool.false_eq_true, if_false]; simp
          · -- the step for g does not load w
            unfold vhStep
            cases hg : arrayOf h g with
            | none => exact .inr ⟨w, hw', hws, hwn⟩
            | some k =>
              by_cases hany : acc.1.vh.any (·.1 == g) = true
              · simp only [hany, if_true]; exact .inr ⟨w, hw', hws, hwn⟩
              · simp only [hany, Bool.false_eq_true, if_false]
                left; simp

/-- a header look-up by a fresh reader on an unstructured file (irregular 3D, 2D): when it answers, it has read whole footer
arrays — at least one -/
theorem unstructured_header_fetches (h : HFile) (il t : Nat) (hs : h.structured = false) (hsto : hasStored h = true)
    (o : HOut) (hok : (genTraceHeader h il HSt.init t false).2 = .ok o) :
    o.fetches ≠ [] ∧ ∀ f ∈ o.fetches, ∃ x, f = (offsetOf h x, h.len) := by
  unfold genTraceHeader at hok
  by_cases hb : (!(decide (t < h.grid))) = true
  · rw [if_pos hb] at hok; cases hok
  rw [if_neg hb] at hok
  simp only [hs, Bool.false_and, Bool.false_eq_true, if_false, HSt.init, Option.getD_none, Bool.not_false,
    hsto, Bool.not_true] at hok
  unfold readVariantHeaders at hok
  simp only [hs, Option.getD_none, bne_self_eq_false, Bool.and_false, Bool.false_eq_true, if_false] at hok
  by_cases hn : (lookup h (List.foldl (vhStep h il false) ({ includePadding := some false, maskLoaded := false, vh := [], tf := [] }, [])
      (List.range h.tbl.length)).1.vh t).any (·.isNone) = true
  · rw [if_pos hn] at hok; cases hok
  · rw [if_neg hn] at hok
    injection hok with hok
    subst hok
    simp only [List.nil_append]
    constructor
    · apply vhFold_fetches_nonempty
      right
      obtain ⟨g, hg1, hg2⟩ := List.any_eq_true.mp hsto
      exact ⟨g, hg1, hg2, rfl⟩
    · apply vhFold_fetches
      intro f hf; cases hf

end

end WriteOrder
end Sgz
