import Sgz.Proofs.Loaders
/-!
# Proofs/Loaders2d — the two 2D loaders
-/
namespace Sgz
open Geo

namespace Geo
variable {g : Geo}
theorem v2_b1_pos (hg : g.Valid2d) : 0 < g.b1 := hg.2.2.2.2.1
theorem v2_b2_pos (hg : g.Valid2d) : 0 < g.b2 := hg.2.2.2.2.2.1
theorem v2_u_pos (hg : g.Valid2d) : 0 < g.u := hg.2.2.2.2.2.2.1
theorem v2_dvd1 (hg : g.Valid2d) : 4 ∣ g.b1 := hg.2.2.1
theorem v2_dvd2 (hg : g.Valid2d) : 4 ∣ g.b2 := hg.2.2.2.1
theorem v2_cpb_u (hg : g.Valid2d) : g.cpb2d * g.u = 4096 := hg.2.2.2.2.2.2.2.1
theorem v2_P2_div4 (hg : g.Valid2d) : g.P2 / 4 = g.NB2 * (g.b2 / 4) := pad_div4 g.n2 g.b2 (v2_dvd2 hg) (v2_b2_pos hg)
end Geo

/-- 2D general loader: voxel (t,z) of the brick-assembled array is file voxel `(b1·(minId/b1) + t, b2·(minZ/b2) + z)` -/
theorem unshuffle2d_src (g : Geo) (hg : g.Valid2d) (maxId maxZ minId minZ k t z : Nat) :
    (Loader.unshuffle2d g maxId maxZ minId minZ).src k t z
      = Spec.code2 g (g.b1 * (minId / g.b1) + t) (g.b2 * (minZ / g.b2) + z) := by
  have hu := v2_u_pos hg
  have hb1 := v2_b1_pos hg
  have hb2 := v2_b2_pos hg
  have hc := v2_cpb_u hg
  simp only [Loader.unshuffle2d, Spec.code2]
  have eT : (g.b1 * (minId / g.b1) + t) / g.b1 = minId / g.b1 + t / g.b1 := by rw [Nat.mul_add_div hb1]
  have eZ : (g.b2 * (minZ / g.b2) + z) / g.b2 = minZ / g.b2 + z / g.b2 := by rw [Nat.mul_add_div hb2]
  have mT : (g.b1 * (minId / g.b1) + t) % g.b1 = t % g.b1 := by rw [Nat.mul_add_mod]
  have mZ : (g.b2 * (minZ / g.b2) + z) % g.b2 = z % g.b2 := by rw [Nat.mul_add_mod]
  have hbyte : g.chunk * (minId / g.b1 + t / g.b1) + 4096 * (minZ / g.b2 + z / g.b2)
      + (t % g.b1 / 4 * (g.b2 / 4) + z % g.b2 / 4) * g.u
      = Spec.unit2d g (g.b1 * (minId / g.b1) + t) (g.b2 * (minZ / g.b2) + z) * g.u := by
    simp only [Spec.unit2d, eT, eZ, mT, mZ, chunk]
    rw [← hc]; ring
  rw [hbyte, Nat.mul_mod_left, if_pos rfl, Nat.mul_div_cancel _ hu]
  have : Spec.pos2d (t % g.b1) (z % g.b2) = Spec.pos2d (g.b1 * (minId / g.b1) + t) (g.b2 * (minZ / g.b2) + z) := by
    unfold Spec.pos2d
    rw [mod4_of_mod t g.b1 (v2_dvd1 hg), mod4_of_mod z g.b2 (v2_dvd2 hg), add_mul_mod4 _ _ _ (v2_dvd1 hg),
      add_mul_mod4 _ _ _ (v2_dvd2 hg)]
  rw [this]

/-- 2D trace-group loader (`blockshape[1] = 4`): voxel (t,z) (t < 4) of the decoded `(4, P2)` array is file voxel
`(4m + t, z)` -/
theorem traceRange_src (g : Geo) (hg : g.Valid2d) (h1 : g.b1 = 4) (m k t z : Nat) (ht : t < 4) (hz : z < g.P2) :
    (Loader.traceRange g (4 * m) (4 * m + 4)).src k t z = Spec.code2 g (4 * m + t) z := by
  have hu := v2_u_pos hg
  have hZ : z / 4 < g.P2 / 4 := div_lt_of_lt_pad z g.n2 g.b2 (v2_dvd2 hg) (v2_b2_pos hg) hz
  have hblock : (g.b2 / 4) * g.u = 4096 := by
    have := v2_cpb_u hg; simp only [cpb2d, h1] at this; simpa using this
  have hchunk : g.chunk = (g.P2 / 4) * g.u := by
    rw [chunk, v2_P2_div4 hg, ← hblock]; ring
  have ht4 : t / 4 = 0 := by omega
  have hlen : (4 * m + 4 - 4 * m + g.b1 - 1) / g.b1 = 1 := by rw [h1]; omega
  have h4m : 4 * m / g.b1 = m := by rw [h1]; exact Nat.mul_div_cancel_left m (by omega)
  simp only [Loader.traceRange, decomp2, Loader.traceRangeCopies, Spec.code2, ht4, Nat.zero_mul, Nat.zero_add, hlen,
    h4m, Nat.mul_one]
  have hk : z / 4 * g.u < g.chunk := by rw [hchunk]; exact Nat.mul_lt_mul_of_pos_right hZ hu
  have hsrc := bufSrc_single (g.chunk * m) g.chunk _ hk
  have hunit : unitAt g.u [(⟨0, g.chunk * m, g.chunk⟩ : Copy)] (z / 4 * g.u) = some (Spec.unit2d g (4 * m + t) z) := by
    apply unitAt_of_bufSrc g.u _ _ _ _ hsrc _ hu
    have e1 : (4 * m + t) / 4 = m := by omega
    have e2 : (4 * m + t) % 4 / 4 = 0 := by omega
    simp only [Spec.unit2d, cpb2d, h1, e1, e2]
    rw [hchunk, v2_P2_div4 hg, div4_split z g.b2 (v2_dvd2 hg) (v2_b2_pos hg)]
    ring
  rw [hunit]
  have : Spec.pos2d (4 * m + t) z = Spec.pos2d t z := by unfold Spec.pos2d; congr 2; omega
  rw [this]

end Sgz
