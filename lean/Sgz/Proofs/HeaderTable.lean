import Sgz.Model.HeaderTable
import Sgz.Proofs.Header
namespace Sgz
namespace HeaderTable

theorem fieldOf_spec (code : Nat → Int) (c : Int) : ∀ F, fieldOf code F c = 0 ∨ ∃ a, a < F ∧ code a = c ∧ fieldOf code F c = a + 1 := by
  intro F
  induction F with
  | zero => left; rfl
  | succ F ih =>
    unfold fieldOf
    rcases ih with h0 | ⟨a, ha, hc, hf⟩
    · rw [if_pos h0]
      by_cases hcF : code F = c
      · rw [if_pos hcF]; right; exact ⟨F, by omega, hcF, rfl⟩
      · rw [if_neg hcF]; left; rfl
    · rw [if_neg (by omega)]
      right; exact ⟨a, by omega, hc, hf⟩

theorem fieldOf_code (code : Nat → Int) (inj : ∀ a b, code a = code b → a = b) :
    ∀ (F g : Nat), g < F → fieldOf code F (code g) = g + 1 := by
  intro F
  induction F with
  | zero => intro g hg; omega
  | succ F ih =>
    intro g hg
    unfold fieldOf
    by_cases hlt : g < F
    · rw [ih g hlt, if_neg (by omega)]
    · have hgF : g = F := by omega
      subst hgF
      rcases fieldOf_spec code (code g) g with h0 | ⟨a, ha, hc, _⟩
      · rw [if_pos h0, if_pos rfl]
      · have := inj a g hc; omega

/-- **the table survives its stored form**: for an injective code assignment, a table whose duplicate codes name fields
`≤ F` is recovered from its stored rows -/
theorem ofTRows_toTRows (code : Nat → Int) (inj : ∀ a b, code a = code b → a = b) (nz : ∀ a, code a ≠ 0)
    (tbl : List Headers.Row) (hd : ∀ r ∈ tbl, r.2 ≤ tbl.length) :
    ofTRows code tbl.length (toTRows code tbl) = tbl := by
  apply List.ext_getElem
  · simp [ofTRows, toTRows]
  · intro i h1 h2
    simp only [ofTRows, toTRows, List.getElem_map, List.getElem_range]
    have hget : tbl.getD i (0, 0) = tbl[i] := by
      rw [List.getD_eq_getElem?_getD, List.getElem?_eq_getElem h2]; rfl
    rw [hget]
    have hle := hd tbl[i] (List.getElem_mem h2)
    by_cases hz : tbl[i].2 = 0
    · simp only [hz, if_true]
      exact Prod.ext rfl hz.symm
    · simp only [hz, if_false]
      rw [if_neg (nz _), fieldOf_code code inj tbl.length (tbl[i].2 - 1) (by omega)]
      exact Prod.ext rfl (by simp only; omega)

end HeaderTable
end Sgz
