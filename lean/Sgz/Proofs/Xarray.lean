import Sgz.Model.Xarray
import Mathlib.Tactic.Ring
import Mathlib.Tactic.Linarith
/-!
# Proofs/Xarray — reading the bounding box and striding the decoded box selects what the key denotes
-/
namespace Sgz
namespace Xarray
open Emul

theorem sliceIndices_step (s : PySlice) (n : Nat) (a b c : Int) (h : sliceIndices s n = some (a, b, c)) :
    c = s.step.getD 1 := by
  unfold sliceIndices at h
  by_cases h0 : s.step.getD 1 = 0
  · simp [h0] at h
  · simp only [h0, if_false, Option.some.injEq, Prod.mk.injEq] at h
    exact h.2.2.symm

theorem strided_eq (a : Int) (L c : Nat) (hL : 0 < L) (hc : 0 < c) :
    (strided L c).map (fun (j : Nat) => a + (j : Int)) = pyRange a (a + L) c := by
  unfold strided pyRange rangeLen
  have hc' : (0 : Int) < (c : Int) := by exact_mod_cast hc
  have hlt : a < a + (L : Int) := by have : (0 : Int) < (L : Int) := by exact_mod_cast hL
                                     linarith
  rw [if_pos hc', if_pos hlt]
  have hlen : ((a + (L : Int) - a - 1) / (c : Int) + 1).toNat = (L + c - 1) / c := by
    have e1 : a + (L : Int) - a - 1 = ((L - 1 : Nat) : Int) := by
      rw [Nat.cast_sub hL]; ring
    rw [e1, ← Int.natCast_ediv]
    have : ((((L - 1) / c : Nat) : Int) + 1).toNat = (L - 1) / c + 1 := by
      have : (((L - 1) / c : Nat) : Int) + 1 = (((L - 1) / c + 1 : Nat) : Int) := by push_cast; ring
      rw [this, Int.toNat_natCast]
    rw [this]
    have : L + c - 1 = (L - 1) + c := by omega
    rw [this, Nat.add_div_right _ hc]
  rw [hlen, List.map_map]
  apply List.map_congr_left
  intro k _
  simp only [Function.comp]
  push_cast
  ring

/-- **a slice with a positive step**: the positions kept are exactly `range(*slice.indices(n))` — what numpy basic
indexing of the whole cube with the same slice selects -/
theorem axisPositions_slice (s : PySlice) (n : Nat) (hs : 0 < s.step.getD 1) :
    axisPositions (.sl s) n = (sliceIndices s n).map fun (a, b, c) => pyRange a b c := by
  unfold axisPositions axisPlan
  dsimp only
  cases h : sliceIndices s n with
  | none => rfl
  | some t =>
    obtain ⟨a, b, c⟩ := t
    have hc : c = s.step.getD 1 := sliceIndices_step s n a b c h
    have hc0 : 0 < c := hc ▸ hs
    simp only [Option.map_some]
    congr 1
    by_cases hba : b ≤ a
    · rw [if_pos hba]
      unfold pyRange rangeLen
      rw [if_pos hc0, if_neg (by omega)]
      rfl
    · rw [if_neg hba]
      have hL : 0 < (b - a).toNat := by omega
      have hcn : 0 < c.toNat := by omega
      have := strided_eq a (b - a).toNat c.toNat hL hcn
      have e1 : a + ((b - a).toNat : Int) = b := by omega
      have e2 : ((c.toNat : Nat) : Int) = c := by omega
      rw [e1, e2] at this
      exact this

/-- **an integer key** selects that position (counted from the end when negative) -/
theorem axisPositions_idx (k : Int) (n : Nat) :
    axisPositions (.idx k) n = some [if k < 0 then k + (n : Int) else k] := by
  unfold axisPositions axisPlan
  dsimp only
  simp only [Option.map_some]
  rw [if_neg (by omega)]

end Xarray
end Sgz
