import Sgz.Model.Geo
/-!
# Proofs/Arith — padding and mixed-radix facts used by every placement proof
Core Lean only (`omega`, `Nat.*` lemmas).
-/
namespace Sgz

theorem pad_eq (n m : Nat) (hm : 0 < m) : pad n m = m * ((n + m - 1) / m) := by
  unfold pad
  by_cases h : n % m = 0
  · simp only [h, if_true]
    obtain ⟨k, hk⟩ := Nat.dvd_of_mod_eq_zero h
    subst hk
    have : (m * k + m - 1) / m = k := by
      have h1 : m * k + m - 1 = m * k + (m - 1) := by omega
      rw [h1, Nat.mul_add_div hm]
      have : (m - 1) / m = 0 := Nat.div_eq_of_lt (by omega)
      omega
    rw [this]
  · simp only [h, if_false]
    congr 1
    have h0 : 0 < n % m := Nat.pos_of_ne_zero h
    have hlt := Nat.mod_lt n hm
    have hn : n = m * (n / m) + n % m := (Nat.div_add_mod n m).symm
    have h1 : n + m - 1 = m * (n / m + 1) + (n % m - 1) := by
      have : m * (n / m + 1) = m * (n / m) + m := by rw [Nat.mul_add, Nat.mul_one]
      omega
    rw [h1, Nat.mul_add_div hm]
    have : (n % m - 1) / m = 0 := Nat.div_eq_of_lt (by omega)
    omega

theorem pad_dvd (n m : Nat) (hm : 0 < m) : m ∣ pad n m := by
  rw [pad_eq n m hm]; exact Nat.dvd_mul_right _ _

theorem le_pad (n m : Nat) (hm : 0 < m) : n ≤ pad n m := by
  unfold pad
  split
  · exact Nat.le_refl _
  · have := Nat.div_add_mod n m
    have := Nat.mod_lt n hm
    have : m * (n / m + 1) = m * (n / m) + m := by rw [Nat.mul_add, Nat.mul_one]
    omega

theorem pad_lt (n m : Nat) (hm : 0 < m) : pad n m < n + m := by
  unfold pad
  by_cases h : n % m = 0
  · simp only [h, if_true]; omega
  · simp only [h, if_false]
    have := Nat.div_add_mod n m
    have : m * (n / m + 1) = m * (n / m) + m := by rw [Nat.mul_add, Nat.mul_one]
    have : 0 < n % m := Nat.pos_of_ne_zero h
    omega

theorem pad_div_mul (n m : Nat) (hm : 0 < m) : pad n m / m * m = pad n m :=
  Nat.div_mul_cancel (pad_dvd n m hm)

/-- splitting a unit index along a block boundary: for `4 ∣ b`, `z/4 = (z/b)·(b/4) + (z%b)/4` -/
theorem div4_split (z b : Nat) (hb : 4 ∣ b) (hpos : 0 < b) : z / 4 = (z / b) * (b / 4) + (z % b) / 4 := by
  obtain ⟨c, hc⟩ := hb
  subst hc
  have hz : z = 4 * c * (z / (4 * c)) + z % (4 * c) := (Nat.div_add_mod z (4 * c)).symm
  have h4c : 4 * c / 4 = c := Nat.mul_div_cancel_left c (by omega)
  rw [h4c]
  generalize z / (4 * c) = q at hz ⊢
  generalize z % (4 * c) = r at hz ⊢
  subst hz
  have : 4 * c * q + r = 4 * (c * q) + r := by rw [Nat.mul_assoc]
  rw [this, Nat.mul_add_div (by omega : 0 < 4), Nat.mul_comm q c]

theorem mod4_of_mod (z b : Nat) (hb : 4 ∣ b) : (z % b) % 4 = z % 4 := Nat.mod_mod_of_dvd z hb

/-- the quotient of a remainder: `(z % b)/4 < b/4` -/
theorem mod_div4_lt (z b : Nat) (hb : 4 ∣ b) (hpos : 0 < b) : (z % b) / 4 < b / 4 := by
  obtain ⟨c, hc⟩ := hb
  subst hc
  have := Nat.mod_lt z hpos
  have h4c : 4 * c / 4 = c := Nat.mul_div_cancel_left c (by omega)
  rw [h4c]
  omega

/-- mixed radix: position of a pair is below the product -/
theorem lt_of_mixed (a b n m : Nat) (ha : a < n) (hb : b < m) : a * m + b < n * m := by
  have h1 : (a + 1) * m ≤ n * m := Nat.mul_le_mul_right m ha
  rw [Nat.add_mul, Nat.one_mul] at h1
  omega

/-- mixed radix: the high digit is determined by the half-open interval -/
theorem mixed_unique (m a b a' : Nat) (hb : b < m)
    (h1 : a' * m ≤ a * m + b) (h2 : a * m + b < a' * m + m) : a = a' := by
  rcases Nat.lt_trichotomy a a' with h | h | h
  · exfalso
    have h3 : (a + 1) * m ≤ a' * m := Nat.mul_le_mul_right m h
    rw [Nat.add_mul, Nat.one_mul] at h3; omega
  · exact h
  · exfalso
    have h3 : (a' + 1) * m ≤ a * m := Nat.mul_le_mul_right m h
    rw [Nat.add_mul, Nat.one_mul] at h3; omega

theorem div_lt_of_lt_pad (x n b : Nat) (hb : 4 ∣ b) (hpos : 0 < b) (hx : x < pad n b) : x / 4 < pad n b / 4 := by
  obtain ⟨k, hk⟩ := Nat.dvd_trans hb (pad_dvd n b hpos)
  rw [hk] at hx ⊢
  have : 4 * k / 4 = k := Nat.mul_div_cancel_left k (by omega)
  rw [this]; omega

end Sgz

namespace Sgz
theorem div_mixed (a b m : Nat) (hb : b < m) : (a * m + b) / m = a := by
  have hm : 0 < m := by omega
  rw [Nat.add_comm, Nat.add_mul_div_right _ _ hm, Nat.div_eq_of_lt hb, Nat.zero_add]

theorem mod_mixed (a b m : Nat) (hb : b < m) : (a * m + b) % m = b := by
  rw [Nat.add_comm, Nat.add_mul_mod_self_right, Nat.mod_eq_of_lt hb]

theorem div_add_mod' (n m : Nat) : n / m * m + n % m = n := by
  rw [Nat.mul_comm]; exact Nat.div_add_mod n m
end Sgz

namespace Sgz
/-- unit index of a voxel, split into block index and unit-in-block: quotient part -/
theorem div4_div (z b : Nat) (hb : 4 ∣ b) (hpos : 0 < b) : (z / 4) / (b / 4) = z / b := by
  rw [div4_split z b hb hpos]; exact div_mixed _ _ _ (mod_div4_lt z b hb hpos)

/-- … and remainder part -/
theorem div4_mod (z b : Nat) (hb : 4 ∣ b) (hpos : 0 < b) : (z / 4) % (b / 4) = (z % b) / 4 := by
  rw [div4_split z b hb hpos]; exact mod_mixed _ _ _ (mod_div4_lt z b hb hpos)
end Sgz

namespace Sgz
theorem pad_div4 (n b : Nat) (hb : 4 ∣ b) (hpos : 0 < b) : pad n b / 4 = (pad n b / b) * (b / 4) := by
  have h := pad_div_mul n b hpos
  obtain ⟨c, hc⟩ := hb
  have hc4 : b / 4 = c := by rw [hc]; exact Nat.mul_div_cancel_left c (by omega)
  rw [hc4]
  have : pad n b = 4 * (pad n b / b * c) := by
    calc pad n b = pad n b / b * b := h.symm
      _ = pad n b / b * (4 * c) := by rw [← hc]
      _ = 4 * (pad n b / b * c) := by rw [Nat.mul_left_comm]
  rw [this, Nat.mul_div_cancel_left _ (by omega : 0 < 4)]
  congr 1
  rw [← this]
end Sgz
