import Sgz.Model.Reader
import Sgz.Proofs.Loaders2d
/-!
# Proofs/Reader — the public read methods return the samples the specification assigns to the requested voxels
-/
namespace Sgz
open Geo

theorem not2d_of_valid (g : Geo) (hg : g.Valid) : g.is2d = false := by
  have h4 := dvd0 hg
  have hp := b0_pos hg
  simp only [Geo.is2d, beq_eq_false_iff_ne]
  obtain ⟨c, hc⟩ := h4
  omega

theorem is2d_of_valid2d (g : Geo) (hg : g.Valid2d) : g.is2d = true := by
  simp [Geo.is2d, hg.1]

theorem rangeOk_iff (lo hi up : Int) : Reader.rangeOk lo hi up = true ↔ 0 ≤ lo ∧ lo < hi ∧ hi ≤ up := by
  simp only [Reader.rangeOk, Bool.and_eq_true, decide_eq_true_eq]
  omega

/-- **sub-volume**: for every valid geometry and every box inside the (real, or with `access_padding` padded) extents
the result has the shape of the box and element (a,b,c) is decoded from the unit, and the position in it, that the
specification assigns to voxel `(i0+a, x0+b, z0+c)`. -/
theorem readSubvolume_ok (g : Geo) (hg : g.Valid) (ap : Bool) (i0 i1 x0 x1 z0 z1 : Nat)
    (hi : i0 < i1 ∧ i1 ≤ (if ap then g.P0 else g.n0)) (hx : x0 < x1 ∧ x1 ≤ (if ap then g.P1 else g.n1))
    (hz : z0 < z1 ∧ z1 ≤ (if ap then g.P2 else g.n2)) :
    ∃ f fs, Reader.readSubvolume g ap i0 i1 x0 x1 z0 z1 = .ok ⟨.a3 (i1 - i0) (x1 - x0) (z1 - z0) f, fs⟩ ∧
      ∀ a b c, a < i1 - i0 → b < x1 - x0 → c < z1 - z0 → f a b c = Spec.code3 g (i0 + a) (x0 + b) (z0 + c) := by
  have h2d := not2d_of_valid g hg
  have r0 : Reader.rangeOk (i0 : Int) i1 (if ap then (g.P0 : Int) else g.n0) = true := by
    rw [rangeOk_iff]; cases ap <;> simp at hi ⊢ <;> omega
  have r1 : Reader.rangeOk (x0 : Int) x1 (if ap then (g.P1 : Int) else g.n1) = true := by
    rw [rangeOk_iff]; cases ap <;> simp at hx ⊢ <;> omega
  have r2 : Reader.rangeOk (z0 : Int) z1 (if ap then (g.P2 : Int) else g.n2) = true := by
    rw [rangeOk_iff]; cases ap <;> simp at hz ⊢ <;> omega
  unfold Reader.readSubvolume
  simp only [h2d, r0, r1, r2, Bool.false_eq_true, if_false, Bool.not_true, Int.toNat_natCast]
  by_cases hd : Reader.isDefault g = true
  · simp only [hd, if_true]
    refine ⟨_, _, rfl, ?_⟩
    intro a b c ha hb hc
    have h0 : g.b0 = 4 := by simp [Reader.isDefault] at hd; exact hd.1
    have h1 : g.b1 = 4 := by simp [Reader.isDefault] at hd; exact hd.2
    have := chunkRange_src g hg h0 h1 i1 x1 z1 i0 x0 z0 (i0 % 4 + a) (x0 % 4 + b) (z0 % 4 + c)
      (by omega) (by omega) (by omega)
    rw [this]
    congr 1 <;> omega
  · simp only [hd, Bool.false_eq_true, if_false]
    refine ⟨_, _, rfl, ?_⟩
    intro a b c _ _ _
    rw [unshuffle_src g hg]
    have e0 : g.b0 * (i0 / g.b0) + (i0 % g.b0 + a) = i0 + a := by rw [← Nat.add_assoc, Nat.div_add_mod]
    have e1 : g.b1 * (x0 / g.b1) + (x0 % g.b1 + b) = x0 + b := by rw [← Nat.add_assoc, Nat.div_add_mod]
    have e2 : g.b2 * (z0 / g.b2) + (z0 % g.b2 + c) = z0 + c := by rw [← Nat.add_assoc, Nat.div_add_mod]
    rw [e0, e1, e2]

end Sgz

namespace Sgz
open Geo

theorem guard_nat (k n : Nat) (h : k < n) : (!(decide (0 ≤ (k : Int)) && decide ((k : Int) < (n : Int)))) = false := by
  simp; omega

/-- **inline** by ordinal -/
theorem readInline_ok (g : Geo) (hg : g.Valid) (k : Nat) (hk : k < g.n0) :
    ∃ f fs, Reader.readInline g k = .ok ⟨.a2 g.n1 g.n2 f, fs⟩ ∧
      ∀ x z, x < g.n1 → z < g.n2 → f x z = Spec.code3 g k x z := by
  have h2d := not2d_of_valid g hg
  unfold Reader.readInline
  simp only [h2d, guard_nat k g.n0 hk, Bool.false_eq_true, if_false, Int.toNat_natCast]
  by_cases hd : Reader.isDefault g = true
  · simp only [hd, if_true]
    refine ⟨_, _, rfl, ?_⟩
    intro x z hx hz
    have h0 : g.b0 = 4 := by simp [Reader.isDefault] at hd; exact hd.1
    have h1 : g.b1 = 4 := by simp [Reader.isDefault] at hd; exact hd.2
    have := ilSet_src g hg h0 h1 (k / 4) (k % 4) x z (by omega) (Nat.lt_of_lt_of_le hx (n1_le hg))
      (Nat.lt_of_lt_of_le hz (n2_le hg))
    rw [h0, this]
    congr 1; omega
  · simp only [hd, Bool.false_eq_true, if_false]
    obtain ⟨f, fs, hf, hcoh⟩ := readSubvolume_ok g hg false k (k + 1) 0 g.n1 0 g.n2
      (by simp; omega) (by simp; exact hg.2.2.2.2.2.2.2.2.2.1) (by simp; exact hg.2.2.2.2.2.2.2.2.2.2)
    have hf' : Reader.readSubvolume g false (k : Int) ((k : Int) + 1) 0 (g.n1 : Int) 0 (g.n2 : Int)
        = .ok ⟨.a3 (k + 1 - k) (g.n1 - 0) (g.n2 - 0) f, fs⟩ := by
      have := hf; push_cast at this; exact this
    rw [hf']
    simp only [Reader.squeeze0, Except.map, Nat.sub_zero]
    refine ⟨_, _, rfl, ?_⟩
    intro x z hx hz
    have := hcoh 0 x z (by omega) (by omega) (by omega)
    simpa using this

/-- **crossline** by ordinal -/
theorem readCrossline_ok (g : Geo) (hg : g.Valid) (k : Nat) (hk : k < g.n1) :
    ∃ f fs, Reader.readCrossline g k = .ok ⟨.a2 g.n0 g.n2 f, fs⟩ ∧
      ∀ i z, i < g.n0 → z < g.n2 → f i z = Spec.code3 g i k z := by
  have h2d := not2d_of_valid g hg
  unfold Reader.readCrossline
  simp only [h2d, guard_nat k g.n1 hk, Bool.false_eq_true, if_false, Int.toNat_natCast]
  by_cases hd : Reader.isDefault g = true
  · simp only [hd, if_true]
    refine ⟨_, _, rfl, ?_⟩
    intro i z hi hz
    have h0 : g.b0 = 4 := by simp [Reader.isDefault] at hd; exact hd.1
    have h1 : g.b1 = 4 := by simp [Reader.isDefault] at hd; exact hd.2
    have := xlSet_src g hg h0 h1 (k / 4) i (k % 4) z (Nat.lt_of_lt_of_le hi (n0_le hg)) (by omega)
      (Nat.lt_of_lt_of_le hz (n2_le hg))
    rw [h1, this]
    congr 1; omega
  · simp only [hd, Bool.false_eq_true, if_false]
    obtain ⟨f, fs, hf, hcoh⟩ := readSubvolume_ok g hg false 0 g.n0 k (k + 1) 0 g.n2
      (by simp; exact hg.2.2.2.2.2.2.2.2.1) (by simp; omega) (by simp; exact hg.2.2.2.2.2.2.2.2.2.2)
    have hf' : Reader.readSubvolume g false 0 (g.n0 : Int) (k : Int) ((k : Int) + 1) 0 (g.n2 : Int)
        = .ok ⟨.a3 (g.n0 - 0) (k + 1 - k) (g.n2 - 0) f, fs⟩ := by
      have := hf; push_cast at this; exact this
    rw [hf']
    simp only [Reader.squeeze1, Except.map, Nat.sub_zero]
    refine ⟨_, _, rfl, ?_⟩
    intro i z hi hz
    have := hcoh i 0 z (by omega) (by omega) (by omega)
    simpa using this

/-- **z-slice** by ordinal: all three layout branches -/
theorem readZslice_ok (g : Geo) (hg : g.Valid) (k : Nat) (hk : k < g.n2) :
    ∃ f fs, Reader.readZslice g k = .ok ⟨.a2 g.n0 g.n1 f, fs⟩ ∧
      ∀ i x, i < g.n0 → x < g.n1 → f i x = Spec.code3 g i x k := by
  have h2d := not2d_of_valid g hg
  unfold Reader.readZslice
  simp only [h2d, guard_nat k g.n2 hk, Bool.false_eq_true, if_false, Int.toNat_natCast]
  by_cases hd : Reader.isDefault g = true
  · simp only [hd, if_true]
    refine ⟨_, _, rfl, ?_⟩
    intro i x hi hx
    have h0 : g.b0 = 4 := by simp [Reader.isDefault] at hd; exact hd.1
    have h1 : g.b1 = 4 := by simp [Reader.isDefault] at hd; exact hd.2
    rw [zsliceSet_src g hg h0 h1 k i x (k % 4) (Nat.lt_of_lt_of_le hi (n0_le hg)) (Nat.lt_of_lt_of_le hx (n1_le hg))
      (by omega)]
    simp only [Spec.code3, Spec.pos]
    congr 2; omega
  · simp only [hd, Bool.false_eq_true, if_false]
    by_cases h4 : (g.b2 == 4) = true
    · simp only [h4, if_true]
      refine ⟨_, _, rfl, ?_⟩
      intro i x hi hx
      have hb2 : g.b2 = 4 := by simpa using h4
      rw [hb2, zsliceAdv_src g hg hb2 (k / 4) i x (k % 4) (k % 4) (Nat.lt_of_lt_of_le hi (n0_le hg))
        (Nat.lt_of_lt_of_le hx (n1_le hg)) (by omega) (by omega)]
      have e : 4 * (k / 4) + k % 4 = k := by omega
      rw [e]
      simp only [Spec.code3, Spec.pos]
      congr 2; omega
    · simp only [h4, Bool.false_eq_true, if_false]
      obtain ⟨f, fs, hf, hcoh⟩ := readSubvolume_ok g hg false 0 g.n0 0 g.n1 k (k + 1)
        (by simp; exact hg.2.2.2.2.2.2.2.2.1) (by simp; exact hg.2.2.2.2.2.2.2.2.2.1) (by simp; omega)
      have hf' : Reader.readSubvolume g false 0 (g.n0 : Int) 0 (g.n1 : Int) (k : Int) ((k : Int) + 1)
          = .ok ⟨.a3 (g.n0 - 0) (g.n1 - 0) (k + 1 - k) f, fs⟩ := by
        have := hf; push_cast at this; exact this
      rw [hf']
      simp only [Reader.squeeze2, Except.map, Nat.sub_zero]
      refine ⟨_, _, rfl, ?_⟩
      intro i x hi hx
      have := hcoh i x 0 (by omega) (by omega) (by omega)
      simpa using this

end Sgz

namespace Sgz
open Geo

/-- **whole volume** -/
theorem readVolume_ok (g : Geo) (hg : g.Valid) :
    ∃ f fs, Reader.readVolume g = .ok ⟨.a3 g.n0 g.n1 g.n2 f, fs⟩ ∧
      ∀ i x z, i < g.n0 → x < g.n1 → z < g.n2 → f i x z = Spec.code3 g i x z := by
  obtain ⟨f, fs, hf, hcoh⟩ := readSubvolume_ok g hg false 0 g.n0 0 g.n1 0 g.n2
    (by simp; exact hg.2.2.2.2.2.2.2.2.1) (by simp; exact hg.2.2.2.2.2.2.2.2.2.1)
    (by simp; exact hg.2.2.2.2.2.2.2.2.2.2)
  refine ⟨f, fs, ?_, ?_⟩
  · unfold Reader.readVolume
    have := hf; push_cast at this; simpa using this
  · intro i x z hi hx hz
    have := hcoh i x z (by omega) (by omega) (by omega)
    simpa using this

theorem block_fits (il n b : Nat) (hb : 0 < b) (h : il < n) : b * (il / b) + b ≤ pad n b := by
  have h1 : il < pad n b := Nat.lt_of_lt_of_le h (le_pad n b hb)
  have h2 := pad_div_mul n b hb
  have h3 : il / b < pad n b / b := by
    rw [Nat.div_lt_iff_lt_mul hb, h2]; exact h1
  have h4 : (il / b + 1) * b ≤ pad n b / b * b := Nat.mul_le_mul_right b h3
  rw [h2, Nat.add_mul, Nat.one_mul, Nat.mul_comm] at h4
  exact h4

theorem cdiv_fits (hi n b : Nat) (hb : 0 < b) (h : hi ≤ n) : b * cdiv hi b ≤ pad n b := by
  have h1 : hi ≤ pad n b := Nat.le_trans h (le_pad n b hb)
  have h2 := pad_div_mul n b hb
  -- cdiv hi b ≤ pad n b / b
  have h3 : cdiv hi b ≤ pad n b / b := by
    unfold cdiv
    rw [Nat.le_div_iff_mul_le hb]
    have h5 := Nat.div_mul_le_self (hi + b - 1) b
    have hd : b ∣ pad n b := pad_dvd n b hb
    obtain ⟨q, hq⟩ := hd
    -- (hi + b - 1)/b * b ≤ hi + b - 1 < pad + b ; both multiples of b
    have h6 : (hi + b - 1) / b ≤ q := by
      have : (hi + b - 1) / b < q + 1 := by
        rw [Nat.div_lt_iff_lt_mul hb, Nat.add_mul, Nat.one_mul, Nat.mul_comm q b, ← hq]; omega
      omega
    calc (hi + b - 1) / b * b ≤ q * b := Nat.mul_le_mul_right b h6
      _ = pad n b := by rw [hq, Nat.mul_comm]
  calc b * cdiv hi b ≤ b * (pad n b / b) := Nat.mul_le_mul_left b h3
    _ = pad n b := by rw [Nat.mul_comm]; exact h2

theorem le_mul_cdiv (hi b : Nat) (hb : 0 < b) : hi ≤ b * cdiv hi b := by
  unfold cdiv
  have h := Nat.div_add_mod (hi + b - 1) b
  have := Nat.mod_lt (hi + b - 1) hb
  omega

/-- **trace** (3D), with or without a sample window: samples `a … b-1` of grid trace `t` -/
theorem getTrace_ok (g : Geo) (hg : g.Valid) (t a b : Nat) (ht : t < g.n0 * g.n1) (hab : a < b) (hb : b ≤ g.n2) :
    ∃ f fs, Reader.getTrace g t a b = .ok ⟨.a1 (b - a) f, fs⟩ ∧
      ∀ c, c < b - a → f c = Spec.code3 g (t / g.n1) (t % g.n1) (a + c) := by
  have h2d := not2d_of_valid g hg
  have hn1 : 0 < g.n1 := hg.2.2.2.2.2.2.2.2.2.1
  have hil : t / g.n1 < g.n0 := by rw [Nat.div_lt_iff_lt_mul hn1]; exact ht
  have hxl : t % g.n1 < g.n1 := Nat.mod_lt _ hn1
  have hb0 := b0_pos hg
  have hb1 := b1_pos hg
  have hb2 := b2_pos hg
  have hwin : Reader.windowOk g (a : Int) (b : Int) = true := by
    simp [Reader.windowOk]; omega
  have hguard : (!(decide (0 ≤ (t : Int)) && decide ((t : Int) < (g.n0 : Int) * (g.n1 : Int)))) = false := by
    simp; exact_mod_cast ht
  obtain ⟨f, fs, hf, hcoh⟩ := readSubvolume_ok g hg true
    (g.b0 * (t / g.n1 / g.b0)) (g.b0 * (t / g.n1 / g.b0) + g.b0)
    (g.b1 * (t % g.n1 / g.b1)) (g.b1 * (t % g.n1 / g.b1) + g.b1)
    (g.b2 * (a / g.b2)) (g.b2 * cdiv b g.b2)
    (by simp; exact ⟨hb0, block_fits _ _ _ hb0 hil⟩) (by simp; exact ⟨hb1, block_fits _ _ _ hb1 hxl⟩)
    (by
      simp
      refine ⟨?_, cdiv_fits b g.n2 g.b2 hb2 hb⟩
      have h1 : g.b2 * (a / g.b2) ≤ a := Nat.mul_div_le a g.b2
      have h2 := le_mul_cdiv b g.b2 hb2
      omega)
  unfold Reader.getTrace
  simp only [hwin, h2d, hguard, Bool.not_true, Bool.false_eq_true, if_false, Int.toNat_natCast]
  have hf' : Reader.readSubvolume g true ((g.b0 * (t / g.n1 / g.b0) : Nat) : Int)
      (((g.b0 * (t / g.n1 / g.b0) : Nat) : Int) + (g.b0 : Int))
      ((g.b1 * (t % g.n1 / g.b1) : Nat) : Int) (((g.b1 * (t % g.n1 / g.b1) : Nat) : Int) + (g.b1 : Int))
      ((g.b2 * (a / g.b2) : Nat) : Int) ((g.b2 * cdiv b g.b2 : Nat) : Int)
      = .ok ⟨.a3 (g.b0 * (t / g.n1 / g.b0) + g.b0 - g.b0 * (t / g.n1 / g.b0))
          (g.b1 * (t % g.n1 / g.b1) + g.b1 - g.b1 * (t % g.n1 / g.b1))
          (g.b2 * cdiv b g.b2 - g.b2 * (a / g.b2)) f, fs⟩ := by
    have := hf; push_cast at this; exact this
  rw [hf']
  refine ⟨_, _, rfl, ?_⟩
  intro c hc
  have hza : g.b2 * (a / g.b2) ≤ a := Nat.mul_div_le a g.b2
  have h2 := le_mul_cdiv b g.b2 hb2
  have := hcoh (t / g.n1 % g.b0) (t % g.n1 % g.b1) (a - g.b2 * (a / g.b2) + c)
    (by have := Nat.mod_lt (t / g.n1) hb0; omega) (by have := Nat.mod_lt (t % g.n1) hb1; omega) (by omega)
  rw [this]
  have e0 : g.b0 * (t / g.n1 / g.b0) + t / g.n1 % g.b0 = t / g.n1 := Nat.div_add_mod _ _
  have e1 : g.b1 * (t % g.n1 / g.b1) + t % g.n1 % g.b1 = t % g.n1 := Nat.div_add_mod _ _
  have e2 : g.b2 * (a / g.b2) + (a - g.b2 * (a / g.b2) + c) = a + c := by omega
  rw [e0, e1, e2]

end Sgz

namespace Sgz
open Geo

/-- `get_correlated_diagonal_length` is the number of grid points on the diagonal `il − xl = c` -/
theorem cdLen_spec (c : Int) (n0 n1 : Nat) (_h1 : -(n1 : Int) < c) (_h2 : c < n0) :
    Reader.cdLen c n0 n1 = min (n0 : Int) (n1 + c) - max c 0 := by
  unfold Reader.cdLen
  split <;> split <;> (try split) <;> omega

/-- `get_anticorrelated_diagonal_length` is the number of grid points on the anti-diagonal `il + xl = a` -/
theorem adLen_spec (a : Int) (n0 n1 : Nat) (_h1 : 0 ≤ a) (_h2 : a < (n0 : Int) + n1 - 1) :
    Reader.adLen a n0 n1 = min a ((n0 : Int) - 1) - max 0 (a - n1 + 1) + 1 := by
  unfold Reader.adLen
  split <;> (try split) <;> omega

/-- the accumulator loop of `stackTraces` on valid trace indices -/
theorem stackTraces_go (g : Geo) (hg : g.Valid) (a b : Nat) (hab : a < b) (hb : b ≤ g.n2)
    (rest : List Nat) (hall : ∀ t ∈ rest, t < g.n0 * g.n1) (rows : List (Nat → Nat)) (fs : List (Nat × Nat)) :
    ∃ (new : List (Nat → Nat)) (fs' : List (Nat × Nat)),
      Reader.stackTraces.go g (a : Int) (b : Int) (rest.map fun (t : Nat) => (t : Int)) rows fs = .ok (rows.reverse ++ new, fs') ∧
      new.length = rest.length ∧
      ∀ d (hd : d < rest.length) c, c < b - a →
        (new.getD d (fun _ => 0)) c = Spec.code3 g (rest[d] / g.n1) (rest[d] % g.n1) (a + c) := by
  induction rest generalizing rows fs with
  | nil =>
    refine ⟨[], fs, ?_, rfl, ?_⟩
    · simp [Reader.stackTraces.go]
    · intro d hd; simp at hd
  | cons t ts ih =>
    obtain ⟨f, fs1, hf, hcoh⟩ := getTrace_ok g hg t a b (hall t (by simp)) hab hb
    simp only [List.map_cons, Reader.stackTraces.go, hf]
    obtain ⟨new, fs', hgo, hlen, hrows⟩ := ih (fun t' ht' => hall t' (by simp [ht'])) (f :: rows)
      (if fs1.all (fs.contains ·) then fs else fs ++ fs1)
    refine ⟨f :: new, fs', ?_, by simp [hlen], ?_⟩
    · rw [hgo]; simp
    · intro d hd c hc
      cases d with
      | zero => simpa using hcoh c hc
      | succ d' =>
        have hd' : d' < ts.length := by simpa using hd
        simpa using hrows d' hd' c hc

/-- stacked traces: row `d` is trace `idxs[d]`, window `[a,b)` -/
theorem stackTraces_ok (g : Geo) (hg : g.Valid) (a b : Nat) (hab : a < b) (hb : b ≤ g.n2)
    (idxs : List Nat) (hall : ∀ t ∈ idxs, t < g.n0 * g.n1) :
    ∃ f fs, Reader.stackTraces g (idxs.map fun (t : Nat) => (t : Int)) (a : Int) (b : Int)
        = .ok ⟨.a2 idxs.length (b - a) f, fs⟩ ∧
      ∀ d (hd : d < idxs.length) c, c < b - a →
        f d c = Spec.code3 g (idxs[d] / g.n1) (idxs[d] % g.n1) (a + c) := by
  obtain ⟨new, fs', hgo, hlen, hrows⟩ := stackTraces_go g hg a b hab hb idxs hall [] []
  unfold Reader.stackTraces
  simp only [hgo, List.reverse_nil, List.nil_append]
  have e : ((b : Int) - (a : Int)).toNat = b - a := by omega
  refine ⟨_, _, by rw [hlen, e], ?_⟩
  intro d hd c hc
  exact hrows d hd c hc

end Sgz

namespace Sgz
open Geo

/-- the diagonal loop in the model, on its resolved trace range and window -/
def diagCore (g : Geo) (idx : Int → Int) (lo hi s e : Int) : R :=
  Reader.stackTraces g (((List.range (hi - lo).toNat).map fun (d : Nat) => lo + (d : Int)).map idx) s e

/-- a diagonal whose `d`-th point is the grid point `(il d, xl d)`, all inside the real grid -/
theorem diagCore_ok (g : Geo) (hg : g.Valid) (idx : Int → Int) (il xl : Nat → Nat) (lo hi s e : Nat)
    (hlo : lo ≤ hi) (hs : s < e) (he : e ≤ g.n2)
    (hidx : ∀ d, d < hi - lo → idx ((lo : Int) + (d : Int)) = ((il d * g.n1 + xl d : Nat) : Int))
    (hil : ∀ d, d < hi - lo → il d < g.n0) (hxl : ∀ d, d < hi - lo → xl d < g.n1) :
    ∃ f fs, diagCore g idx lo hi s e = .ok ⟨.a2 (hi - lo) (e - s) f, fs⟩ ∧
      ∀ d z, d < hi - lo → z < e - s → f d z = Spec.code3 g (il d) (xl d) (s + z) := by
  have e1 : ((hi : Int) - (lo : Int)).toNat = hi - lo := by omega
  have hlist : ((List.range (hi - lo)).map fun (d : Nat) => (lo : Int) + (d : Int)).map idx
      = ((List.range (hi - lo)).map fun d => il d * g.n1 + xl d).map fun (t : Nat) => (t : Int) := by
    rw [List.map_map, List.map_map]
    apply List.map_congr_left
    intro d hd
    simp only [List.mem_range] at hd
    simp only [Function.comp]
    exact hidx d hd
  obtain ⟨f, fs, hf, hcoh⟩ := stackTraces_ok g hg s e hs he ((List.range (hi - lo)).map fun d => il d * g.n1 + xl d)
    (by
      intro t ht
      simp only [List.mem_map, List.mem_range] at ht
      obtain ⟨d, hd, rfl⟩ := ht
      exact lt_of_mixed _ _ _ _ (hil d hd) (hxl d hd))
  refine ⟨f, fs, ?_, ?_⟩
  · unfold diagCore
    rw [e1, hlist, hf]; simp
  · intro d z hd hz
    have := hcoh d (by simpa using hd) z hz
    simp only [List.getElem_map, List.getElem_range] at this
    rw [this, div_mixed _ _ _ (hxl d hd), mod_mixed _ _ _ (hxl d hd)]

/-- **correlated diagonal** `il − xl = c`, any in-range trace range `[lo,hi)` and sample window `[s,e)`:
row `d`, column `z` is voxel `(lo + d + max c 0, lo + d − min c 0, s + z)` -/
theorem readCorrelatedDiagonal_ok (g : Geo) (hg : g.Valid) (c : Int) (lo hi s e : Nat)
    (hc1 : -(g.n1 : Int) < c) (hc2 : c < g.n0) (hlo : lo < hi) (hhi : (hi : Int) ≤ Reader.cdLen c g.n0 g.n1)
    (hs : s < e) (he : e ≤ g.n2) :
    ∃ f fs, Reader.readCorrelatedDiagonal g c (some (lo, hi)) (some (s, e)) = .ok ⟨.a2 (hi - lo) (e - s) f, fs⟩ ∧
      ∀ d z, d < hi - lo → z < e - s →
        f d z = Spec.code3 g (lo + d + (max c 0).toNat) (lo + d + (max (-c) 0).toNat) (s + z) := by
  have h2d := not2d_of_valid g hg
  have hlen := cdLen_spec c g.n0 g.n1 hc1 hc2
  have hwin : Reader.windowOk g (s : Int) (e : Int) = true := by simp [Reader.windowOk]; omega
  unfold Reader.readCorrelatedDiagonal
  have hg1 : (!(decide (-(g.n1 : Int) < c) && decide (c < (g.n0 : Int)))) = false := by simp; omega
  have hg2 : (!(decide (0 ≤ (lo : Int)) && decide ((lo : Int) < Reader.cdLen c g.n0 g.n1))) = false := by simp; omega
  have hg3 : (!(decide (0 < (hi : Int)) && decide ((hi : Int) ≤ Reader.cdLen c g.n0 g.n1))) = false := by simp; omega
  have hg4 : (!decide ((lo : Int) < (hi : Int))) = false := by simp; omega
  simp only [h2d, hg1, hg2, hg3, hg4, hwin, Bool.false_eq_true, if_false, if_true]
  have := diagCore_ok g hg (fun d => if c ≥ 0 then (d + c) * (g.n1 : Int) + d else d * (g.n1 : Int) + d - c)
    (fun d => lo + d + (max c 0).toNat) (fun d => lo + d + (max (-c) 0).toNat) lo hi s e (by omega) hs he
    (by
      intro d _
      by_cases hc : c ≥ 0
      · have e1 : (max c 0).toNat = c.toNat := by omega
        have e2 : (max (-c) 0).toNat = 0 := by omega
        have e3 : ((c.toNat : Nat) : Int) = c := by omega
        simp only [hc, if_true, e1, e2]
        push_cast
        rw [e3]; ring
      · have e1 : (max c 0).toNat = 0 := by omega
        have e2 : (max (-c) 0).toNat = (-c).toNat := by omega
        have e3 : (((-c).toNat : Nat) : Int) = -c := by omega
        simp only [hc, if_false, e1, e2]
        push_cast
        rw [e3]; ring)
    (by intro d hd; omega) (by intro d hd; omega)
  unfold diagCore at this
  exact this

end Sgz

namespace Sgz
open Geo

/-- **anti-correlated diagonal** `il + xl = ad`: row `d`, column `z` is voxel `(i0 + lo + d, ad − i0 − lo − d, s + z)` with
`i0 = max 0 (ad − n1 + 1)` the first inline on the diagonal -/
theorem readAnticorrelatedDiagonal_ok (g : Geo) (hg : g.Valid) (ad lo hi s e : Nat)
    (hc : ad + 1 < g.n0 + g.n1) (hlo : lo < hi) (hhi : (hi : Int) ≤ Reader.adLen ad g.n0 g.n1)
    (hs : s < e) (he : e ≤ g.n2) :
    ∃ f fs, Reader.readAnticorrelatedDiagonal g ad (some (lo, hi)) (some (s, e)) = .ok ⟨.a2 (hi - lo) (e - s) f, fs⟩ ∧
      ∀ d z, d < hi - lo → z < e - s →
        f d z = Spec.code3 g ((ad + 1 - g.n1) + lo + d) (ad - (ad + 1 - g.n1) - lo - d) (s + z) := by
  have h2d := not2d_of_valid g hg
  have hlen := adLen_spec ad g.n0 g.n1 (by omega) (by omega)
  have hwin : Reader.windowOk g (s : Int) (e : Int) = true := by simp [Reader.windowOk]; omega
  unfold Reader.readAnticorrelatedDiagonal
  have hg1 : (!(decide (0 ≤ (ad : Int)) && decide ((ad : Int) < (g.n0 : Int) + (g.n1 : Int) - 1))) = false := by
    simp; omega
  have hg2 : (!(decide (0 ≤ (lo : Int)) && decide ((lo : Int) < Reader.adLen ad g.n0 g.n1))) = false := by simp; omega
  have hg3 : (!(decide (0 < (hi : Int)) && decide ((hi : Int) ≤ Reader.adLen ad g.n0 g.n1))) = false := by simp; omega
  have hg4 : (!decide ((lo : Int) < (hi : Int))) = false := by simp; omega
  simp only [h2d, hg1, hg2, hg3, hg4, hwin, Bool.false_eq_true, if_false, if_true]
  have := diagCore_ok g hg
    (fun d => if (ad : Int) < (g.n1 : Int) then (ad : Int) + d * ((g.n1 : Int) - 1)
      else ((ad : Int) - (g.n1 : Int) + 1 + d) * (g.n1 : Int) + ((g.n1 : Int) - d - 1))
    (fun d => (ad + 1 - g.n1) + lo + d) (fun d => ad - (ad + 1 - g.n1) - lo - d) lo hi s e (by omega) hs he
    (by
      intro d hd
      by_cases hc' : (ad : Int) < (g.n1 : Int)
      · have e1 : ad + 1 - g.n1 = 0 := by omega
        have e2 : lo + d ≤ ad := by omega
        simp only [hc', if_true, e1]
        have : ((((0 + lo + d) * g.n1 + (ad - 0 - lo - d) : Nat)) : Int)
            = ((lo : Int) + d) * (g.n1 : Int) + ((ad : Int) - lo - d) := by
          have : ad - 0 - lo - d = ad - (lo + d) := by omega
          rw [this]; push_cast [e2]; ring
        rw [this]; ring
      · have e1 : ((ad + 1 - g.n1 : Nat) : Int) = (ad : Int) + 1 - g.n1 := by omega
        have e2 : ((ad - (ad + 1 - g.n1) - lo - d : Nat) : Int) = (g.n1 : Int) - 1 - lo - d := by omega
        simp only [hc', if_false]
        push_cast [e1, e2]
        ring)
    (by intro d hd; omega) (by intro d hd; omega)
  unfold diagCore at this
  exact this

end Sgz

namespace Sgz
open Geo

/-- correlated diagonal with all arguments defaulted: the whole diagonal, whole traces -/
theorem readCorrelatedDiagonal_full_ok (g : Geo) (hg : g.Valid) (c : Int) (hc1 : -(g.n1 : Int) < c) (hc2 : c < g.n0) :
    ∃ f fs, Reader.readCorrelatedDiagonal g c none none
        = .ok ⟨.a2 (Reader.cdLen c g.n0 g.n1).toNat g.n2 f, fs⟩ ∧
      ∀ d z, d < (Reader.cdLen c g.n0 g.n1).toNat → z < g.n2 →
        f d z = Spec.code3 g (d + (max c 0).toNat) (d + (max (-c) 0).toNat) z := by
  have h2d := not2d_of_valid g hg
  have hlen := cdLen_spec c g.n0 g.n1 hc1 hc2
  have hn2 : 0 < g.n2 := hg.2.2.2.2.2.2.2.2.2.2
  unfold Reader.readCorrelatedDiagonal
  have hg1 : (!(decide (-(g.n1 : Int) < c) && decide (c < (g.n0 : Int)))) = false := by simp; omega
  simp only [h2d, hg1, Bool.false_eq_true, if_false]
  have hL : (((Reader.cdLen c g.n0 g.n1).toNat : Nat) : Int) = Reader.cdLen c g.n0 g.n1 := by omega
  have := diagCore_ok g hg (fun d => if c ≥ 0 then (d + c) * (g.n1 : Int) + d else d * (g.n1 : Int) + d - c)
    (fun d => 0 + d + (max c 0).toNat) (fun d => 0 + d + (max (-c) 0).toNat) 0 (Reader.cdLen c g.n0 g.n1).toNat 0 g.n2
    (by omega) hn2 (Nat.le_refl _)
    (by
      intro d _
      by_cases hc : c ≥ 0
      · have e1 : (max c 0).toNat = c.toNat := by omega
        have e2 : (max (-c) 0).toNat = 0 := by omega
        have e3 : ((c.toNat : Nat) : Int) = c := by omega
        simp only [hc, if_true, e1, e2]
        push_cast
        rw [e3]; ring
      · have e1 : (max c 0).toNat = 0 := by omega
        have e2 : (max (-c) 0).toNat = (-c).toNat := by omega
        have e3 : (((-c).toNat : Nat) : Int) = -c := by omega
        simp only [hc, if_false, e1, e2]
        push_cast
        rw [e3]; ring)
    (by intro d hd; omega) (by intro d hd; omega)
  unfold diagCore at this
  rw [hL] at this
  simpa using this

/-- anti-correlated diagonal with all arguments defaulted -/
theorem readAnticorrelatedDiagonal_full_ok (g : Geo) (hg : g.Valid) (ad : Nat) (hc : ad + 1 < g.n0 + g.n1) :
    ∃ f fs, Reader.readAnticorrelatedDiagonal g ad none none
        = .ok ⟨.a2 (Reader.adLen ad g.n0 g.n1).toNat g.n2 f, fs⟩ ∧
      ∀ d z, d < (Reader.adLen ad g.n0 g.n1).toNat → z < g.n2 →
        f d z = Spec.code3 g ((ad + 1 - g.n1) + d) (ad - (ad + 1 - g.n1) - d) z := by
  have h2d := not2d_of_valid g hg
  have hlen := adLen_spec ad g.n0 g.n1 (by omega) (by omega)
  have hn2 : 0 < g.n2 := hg.2.2.2.2.2.2.2.2.2.2
  unfold Reader.readAnticorrelatedDiagonal
  have hg1 : (!(decide (0 ≤ (ad : Int)) && decide ((ad : Int) < (g.n0 : Int) + (g.n1 : Int) - 1))) = false := by
    simp; omega
  simp only [h2d, hg1, Bool.false_eq_true, if_false]
  have hL : (((Reader.adLen ad g.n0 g.n1).toNat : Nat) : Int) = Reader.adLen ad g.n0 g.n1 := by omega
  have := diagCore_ok g hg
    (fun d => if (ad : Int) < (g.n1 : Int) then (ad : Int) + d * ((g.n1 : Int) - 1)
      else ((ad : Int) - (g.n1 : Int) + 1 + d) * (g.n1 : Int) + ((g.n1 : Int) - d - 1))
    (fun d => (ad + 1 - g.n1) + 0 + d) (fun d => ad - (ad + 1 - g.n1) - 0 - d) 0 (Reader.adLen ad g.n0 g.n1).toNat 0 g.n2
    (by omega) hn2 (Nat.le_refl _)
    (by
      intro d hd
      by_cases hc' : (ad : Int) < (g.n1 : Int)
      · have e1 : ad + 1 - g.n1 = 0 := by omega
        have e2 : d ≤ ad := by omega
        simp only [hc', if_true, e1]
        have : ((((0 + 0 + d) * g.n1 + (ad - 0 - 0 - d) : Nat)) : Int)
            = (d : Int) * (g.n1 : Int) + ((ad : Int) - d) := by
          have : ad - 0 - 0 - d = ad - d := by omega
          rw [this]; push_cast [e2]; ring
        rw [this]; push_cast; ring
      · have e1 : ((ad + 1 - g.n1 : Nat) : Int) = (ad : Int) + 1 - g.n1 := by omega
        have e2 : ((ad - (ad + 1 - g.n1) - 0 - d : Nat) : Int) = (g.n1 : Int) - 1 - d := by omega
        simp only [hc', if_false]
        push_cast [e1, e2]
        ring)
    (by intro d hd; omega) (by intro d hd; omega)
  unfold diagCore at this
  rw [hL] at this
  simpa using this

end Sgz

namespace Sgz
open Geo

/-- **2D sub-plane**: element (a,c) is section sample `(t0+a, z0+c)` -/
theorem readSubplane_ok (g : Geo) (hg : g.Valid2d) (ap : Bool) (t0 t1 z0 z1 : Nat)
    (ht : t0 < t1 ∧ t1 ≤ (if ap then g.P1 else g.n1)) (hz : z0 < z1 ∧ z1 ≤ (if ap then g.P2 else g.n2)) :
    ∃ f fs, Reader.readSubplane g ap t0 t1 z0 z1 = .ok ⟨.a2 (t1 - t0) (z1 - z0) f, fs⟩ ∧
      ∀ a c, a < t1 - t0 → c < z1 - z0 → f a c = Spec.code2 g (t0 + a) (z0 + c) := by
  have h2d := is2d_of_valid2d g hg
  have r1 : Reader.rangeOk (t0 : Int) t1 (if ap then (g.P1 : Int) else g.n1) = true := by
    rw [rangeOk_iff]; cases ap <;> simp at ht ⊢ <;> omega
  have r2 : Reader.rangeOk (z0 : Int) z1 (if ap then (g.P2 : Int) else g.n2) = true := by
    rw [rangeOk_iff]; cases ap <;> simp at hz ⊢ <;> omega
  unfold Reader.readSubplane
  simp only [h2d, r1, r2, Bool.not_true, Bool.false_eq_true, if_false, Int.toNat_natCast]
  refine ⟨_, _, rfl, ?_⟩
  intro a c _ _
  rw [unshuffle2d_src g hg]
  have hb1 := v2_b1_pos hg
  have hb2 := v2_b2_pos hg
  have e1 : g.b1 * (t0 / g.b1) / g.b1 = t0 / g.b1 := Nat.mul_div_cancel_left _ hb1
  have e2 : g.b2 * (z0 / g.b2) / g.b2 = z0 / g.b2 := Nat.mul_div_cancel_left _ hb2
  rw [e1, e2]
  have e3 : g.b1 * (t0 / g.b1) + (t0 % g.b1 + a) = t0 + a := by rw [← Nat.add_assoc, Nat.div_add_mod]
  have e4 : g.b2 * (z0 / g.b2) + (z0 % g.b2 + c) = z0 + c := by rw [← Nat.add_assoc, Nat.div_add_mod]
  rw [e3, e4]

/-- **2D trace**, with or without a sample window -/
theorem getTrace2d_ok (g : Geo) (hg : g.Valid2d) (t a b : Nat) (ht : t < g.n1) (hab : a < b) (hb : b ≤ g.n2) :
    ∃ f fs, Reader.getTrace g t a b = .ok ⟨.a1 (b - a) f, fs⟩ ∧
      ∀ c, c < b - a → f c = Spec.code2 g t (a + c) := by
  have h2d := is2d_of_valid2d g hg
  have hb1 := v2_b1_pos hg
  have hb2 := v2_b2_pos hg
  have hwin : Reader.windowOk g (a : Int) (b : Int) = true := by simp [Reader.windowOk]; omega
  have hguard := guard_nat t g.n1 ht
  have hza : g.b2 * (a / g.b2) ≤ a := Nat.mul_div_le a g.b2
  have hzb := le_mul_cdiv b g.b2 hb2
  unfold Reader.getTrace
  simp only [hwin, h2d, hguard, Bool.not_true, Bool.false_eq_true, if_false, if_true, Int.toNat_natCast]
  by_cases hfast : (g.b1 == 4 && g.b2 * (a / g.b2) == 0 && g.b2 * cdiv b g.b2 == g.P2) = true
  · simp only [hfast, if_true]
    refine ⟨_, _, rfl, ?_⟩
    intro c hc
    simp only [Bool.and_eq_true, beq_iff_eq] at hfast
    obtain ⟨⟨h1, hz0⟩, hz1⟩ := hfast
    have hP2 : a + c < g.P2 := by rw [← hz1]; omega
    have := traceRange_src g hg h1 (t / 4) 0 (t % 4) (a - g.b2 * (a / g.b2) + c) (by omega) (by omega)
    rw [h1]
    have e : 4 * (t / 4) + 4 = 4 * (t / 4) + 4 := rfl
    rw [this]
    congr 1 <;> omega
  · simp only [hfast, Bool.false_eq_true, if_false]
    obtain ⟨f, fs, hf, hcoh⟩ := readSubplane_ok g hg true (g.b1 * (t / g.b1)) (g.b1 * (t / g.b1) + g.b1)
      (g.b2 * (a / g.b2)) (g.b2 * cdiv b g.b2)
      (by simp; exact ⟨hb1, block_fits _ _ _ hb1 ht⟩)
      (by simp; exact ⟨by omega, cdiv_fits b g.n2 g.b2 hb2 hb⟩)
    have hf' : Reader.readSubplane g true ((g.b1 * (t / g.b1) : Nat) : Int)
        (((g.b1 * (t / g.b1) : Nat) : Int) + (g.b1 : Int)) ((g.b2 * (a / g.b2) : Nat) : Int)
        ((g.b2 * cdiv b g.b2 : Nat) : Int)
        = .ok ⟨.a2 (g.b1 * (t / g.b1) + g.b1 - g.b1 * (t / g.b1)) (g.b2 * cdiv b g.b2 - g.b2 * (a / g.b2)) f, fs⟩ := by
      have := hf; push_cast at this; exact this
    rw [hf']
    refine ⟨_, _, rfl, ?_⟩
    intro c hc
    have := hcoh (t % g.b1) (a - g.b2 * (a / g.b2) + c) (by have := Nat.mod_lt t hb1; omega) (by omega)
    rw [this]
    have e0 : g.b1 * (t / g.b1) + t % g.b1 = t := Nat.div_add_mod _ _
    have e2 : g.b2 * (a / g.b2) + (a - g.b2 * (a / g.b2) + c) = a + c := by omega
    rw [e0, e2]

end Sgz
