import Sgz.Model.Loader
import Sgz.Proofs.Arith
import Mathlib.Tactic.Ring
/-!
# Proofs/Buffer — where a buffer byte comes from, for the copy patterns the loaders use
-/
namespace Sgz

theorem bufSrc_of_unique (cs : List Copy) (b : Nat) (c : Copy)
    (hmem : c ∈ cs) (hcov : c.covers b = true)
    (huniq : ∀ c' ∈ cs, c'.covers b = true → c' = c) :
    bufSrc cs b = some (c.fileOff + (b - c.bufStart)) := by
  unfold bufSrc
  have hmem' : c ∈ cs.reverse := List.mem_reverse.mpr hmem
  cases h : cs.reverse.find? (·.covers b) with
  | none =>
    have := List.find?_eq_none.mp h c hmem'
    simp [hcov] at this
  | some c' =>
    have h1 : c'.covers b = true := by simpa using List.find?_some h
    have h2 : c' ∈ cs := List.mem_reverse.mp (List.mem_of_find?_eq_some h)
    have := huniq c' h2 h1
    subst this
    rfl

theorem covers_iff (c : Copy) (b : Nat) : c.covers b = true ↔ c.bufStart ≤ b ∧ b < c.bufStart + c.len := by
  simp [Copy.covers]

/-- a single copy starting at buffer position 0 -/
theorem bufSrc_single (off len b : Nat) (hb : b < len) :
    bufSrc [{ bufStart := 0, fileOff := off, len := len }] b = some (off + b) := by
  have := bufSrc_of_unique [{ bufStart := 0, fileOff := off, len := len }] b
    { bufStart := 0, fileOff := off, len := len } (by simp) (by simp [Copy.covers, hb])
    (by intro c' hc' _; simpa using hc')
  simpa using this

/-- equally sized copies laid end to end: `c·S + r` (r < S) comes from the c-th copy -/
theorem bufSrc_strided (N S : Nat) (f : Nat → Nat) (c r : Nat) (hc : c < N) (hr : r < S) :
    bufSrc ((List.range N).map fun k => ({ bufStart := k * S, fileOff := f k, len := S } : Copy)) (c * S + r)
      = some (f c + r) := by
  have h := bufSrc_of_unique ((List.range N).map fun k => ({ bufStart := k * S, fileOff := f k, len := S } : Copy))
    (c * S + r) { bufStart := c * S, fileOff := f c, len := S }
    (by simp only [List.mem_map, List.mem_range]; exact ⟨c, hc, rfl⟩)
    (by simp [Copy.covers, hr])
    (by
      intro c' hc' hcov
      simp only [List.mem_map, List.mem_range] at hc'
      obtain ⟨k, _, rfl⟩ := hc'
      simp only [Copy.covers, Bool.and_eq_true, decide_eq_true_eq] at hcov
      have : c = k := mixed_unique S c r k hr hcov.1 hcov.2
      subst this; rfl)
  simpa using h

/-- the decoder finds unit `off / u` when the buffer bytes come from the unit-aligned file offset `off` -/
theorem unitAt_of_bufSrc (u : Nat) (cs : List Copy) (b off k : Nat) (h : bufSrc cs b = some off) (hk : off = k * u)
    (hu : 0 < u) : unitAt u cs b = some k := by
  unfold unitAt
  rw [h]
  simp [hk, Nat.mul_mod_left, Nat.mul_div_cancel _ hu]

end Sgz
