import Sgz.Model.Config
import Mathlib.Tactic.Ring
import Mathlib.Tactic.Linarith
/-!
# Proofs/Config — completeness of `Config.resolve` on valid settings
-/
namespace Sgz.Config

/-- the rational `bpv` denotes the rate `q/4`, written directly (`num/den = q/4`) -/
def Denotes (bpv : Q) (q : Nat) : Prop := 0 < bpv.den ∧ 4 * bpv.num = (q : Int) * bpv.den

theorem validate_complete (c : Cfg) (is2d : Bool) (hv : c.Valid is2d = true) (r : Q) (hr : Denotes r c.q)
    (hb0 : 1 ≤ c.b0) (hb1 : 1 ≤ c.b1) (hb2 : 1 ≤ c.b2) (hq : 1 ≤ c.q) :
    validate r c.b0 c.b1 c.b2 is2d = .ok c := by
  obtain ⟨hden, hnum⟩ := hr
  have hdenZ : (0 : Int) < r.den := by exact_mod_cast hden
  have hqZ : (1 : Int) ≤ c.q := by exact_mod_cast hq
  unfold validate
  have h1 : ¬ (r.num ≤ 0) := by
    intro hle
    have : (c.q : Int) * r.den ≤ 0 := by rw [← hnum]; omega
    have : (0 : Int) < (c.q : Int) * r.den := Int.mul_pos (by omega) hdenZ
    omega
  have h2 : (4 * r.num) % (r.den : Int) = 0 := by rw [hnum]; exact Int.mul_emod_left _ _
  have h3 : (4 * r.num / (r.den : Int)).toNat = c.q := by
    rw [hnum, Int.mul_ediv_cancel _ (by omega)]; simp
  have hvq : validRateQ c.q = true := by
    unfold Cfg.Valid at hv
    simp only [Bool.and_eq_true] at hv
    exact hv.1.1.1.1.1.1
  have hc : ({ q := c.q, b0 := (c.b0 : Int).toNat, b1 := (c.b1 : Int).toNat, b2 := (c.b2 : Int).toNat } : Cfg) = c := by
    cases c; simp
  simp only [h1, h2, h3, hvq, decide_false, Bool.false_or, bne_self_eq_false, Bool.false_eq_true, if_false,
    Bool.not_true, hc, hv, if_true]
  have : ¬ ((c.b0 : Int) < 1) := by omega
  have : ¬ ((c.b1 : Int) < 1) := by omega
  have : ¬ ((c.b2 : Int) < 1) := by omega
  simp [*]


theorem valid_facts (c : Cfg) (is2d : Bool) (hv : c.Valid is2d = true) :
    1 ≤ c.q ∧ 4 ≤ c.b1 ∧ 4 ≤ c.b2 ∧ (is2d = true → c.b0 = 1) ∧ (is2d = false → 4 ≤ c.b0)
    ∧ c.q * c.b0 * c.b1 * c.b2 = 131072 := by
  unfold Cfg.Valid at hv
  simp only [Bool.and_eq_true, decide_eq_true_eq, beq_iff_eq, ge_iff_le] at hv
  obtain ⟨⟨⟨⟨⟨⟨hq, _⟩, g1⟩, _⟩, g2⟩, h0⟩, hprod⟩ := hv
  have hq1 : 1 ≤ c.q := by
    unfold validRateQ at hq
    simp only [Bool.or_eq_true, beq_iff_eq] at hq
    omega
  refine ⟨hq1, g1, g2, ?_, ?_, by omega⟩
  · intro h; subst h; simp at h0; exact h0.1
  · intro h; subst h; simp at h0; exact h0.2

/-- the key product identity: `num·b0·b1·b2 = 32768·den` -/
theorem prod_identity (c : Cfg) (r : Q) (hr : Denotes r c.q) (hp : c.q * c.b0 * c.b1 * c.b2 = 131072) :
    r.num * c.b0 * c.b1 * c.b2 = 32768 * (r.den : Int) := by
  obtain ⟨_, hnum⟩ := hr
  have hpZ : (c.q : Int) * c.b0 * c.b1 * c.b2 = 131072 := by exact_mod_cast hp
  have : 4 * (r.num * c.b0 * c.b1 * c.b2) = 4 * (32768 * (r.den : Int)) := by
    calc 4 * (r.num * c.b0 * c.b1 * c.b2) = (4 * r.num) * c.b0 * c.b1 * c.b2 := by ring
      _ = ((c.q : Int) * c.b0 * c.b1 * c.b2) * r.den := by rw [hnum]; ring
      _ = 4 * (32768 * (r.den : Int)) := by rw [hpZ]; ring
  omega


theorem num_pos (r : Q) (q : Nat) (hr : Denotes r q) (hq : 1 ≤ q) : 0 < r.num := by
  obtain ⟨hden, hnum⟩ := hr
  have hdenZ : (0 : Int) < r.den := by exact_mod_cast hden
  have hqZ : (1 : Int) ≤ q := by exact_mod_cast hq
  have : (0 : Int) < (q : Int) * r.den := Int.mul_pos (by omega) hdenZ
  omega

/-- all four parameters given -/
theorem resolve_given (c : Cfg) (is2d : Bool) (hv : c.Valid is2d = true) (bpv : Q) (hr : Denotes bpv c.q) :
    resolve bpv c.b0 c.b1 c.b2 is2d = .ok c := by
  obtain ⟨hq, g1, g2, h2d, h3d, hp⟩ := valid_facts c is2d hv
  have hn := num_pos bpv c.q hr hq
  have hden : (0 : Int) < bpv.den := by exact_mod_cast hr.1
  have g0 : 1 ≤ c.b0 := by cases is2d <;> simp at h2d h3d <;> omega
  have hid := prod_identity c bpv hr hp
  unfold resolve
  have e1 : (is2d && (c.b0 : Int) != 1) = false := by
    cases is2d
    · rfl
    · simp at h2d; simp [h2d]
  have e2 : ((c.b0 : Int) == -1) = false := by simp
  have e3 : ((c.b1 : Int) == -1) = false := by simp
  have e4 : ((c.b2 : Int) == -1) = false := by simp
  have e5 : (bpv.num == -(bpv.den : Int)) = false := by simp; omega
  have e6 : ¬ (bpv.num < -(bpv.den : Int)) := by omega
  simp only [e1, e2, e3, e4, e5, e6, Bool.false_eq_true, if_false, Nat.add_zero, gt_iff_lt, Nat.not_lt_zero,
    hid, bne_self_eq_false]
  exact validate_complete c is2d hv bpv hr g0 (by omega) (by omega) hq


theorem freeDim_eq (r : Q) (x y b : Int) (hx : 0 < x) (hy : 0 < y) (hn : 0 < r.num)
    (hid : x * y * r.num * b = 32768 * (r.den : Int)) : freeDim r x y = .ok b := by
  unfold freeDim
  have hd : x * y * r.num ≠ 0 := Int.ne_of_gt (Int.mul_pos (Int.mul_pos hx hy) hn)
  simp only [beq_iff_eq, hd, if_false, ← hid]
  rw [Int.mul_fdiv_cancel_left _ hd]

/-- first block dimension left free (3D) -/
theorem resolve_free0 (c : Cfg) (hv : c.Valid false = true) (bpv : Q) (hr : Denotes bpv c.q) :
    resolve bpv (-1) c.b1 c.b2 false = .ok c := by
  obtain ⟨hq, g1, g2, _, h3d, hp⟩ := valid_facts c false hv
  have hn := num_pos bpv c.q hr hq
  have hid := prod_identity c bpv hr hp
  have g0 : 4 ≤ c.b0 := h3d rfl
  have hf : freeDim bpv c.b1 c.b2 = .ok (c.b0 : Int) :=
    freeDim_eq bpv c.b1 c.b2 c.b0 (by omega) (by omega) hn (by rw [← hid]; ring)
  unfold resolve
  have e3 : ((c.b1 : Int) == -1) = false := by simp
  have e4 : ((c.b2 : Int) == -1) = false := by simp
  have e5 : (bpv.num == -(bpv.den : Int)) = false := by simp; omega
  have e6 : ¬ (bpv.num < -(bpv.den : Int)) := by omega
  simp only [e3, e4, e5, e6, Bool.false_and, Bool.false_eq_true, if_false, beq_self_eq_true, if_true, hf]
  simp only [Nat.add_zero, gt_iff_lt, Nat.lt_irrefl, if_false]
  exact validate_complete c false hv bpv hr (by omega) (by omega) (by omega) hq

/-- second block dimension left free -/
theorem resolve_free1 (c : Cfg) (is2d : Bool) (hv : c.Valid is2d = true) (bpv : Q) (hr : Denotes bpv c.q) :
    resolve bpv c.b0 (-1) c.b2 is2d = .ok c := by
  obtain ⟨hq, g1, g2, h2d, h3d, hp⟩ := valid_facts c is2d hv
  have hn := num_pos bpv c.q hr hq
  have hid := prod_identity c bpv hr hp
  have g0 : 1 ≤ c.b0 := by cases is2d <;> simp at h2d h3d <;> omega
  have hf : freeDim bpv c.b2 c.b0 = .ok (c.b1 : Int) :=
    freeDim_eq bpv c.b2 c.b0 c.b1 (by omega) (by omega) hn (by rw [← hid]; ring)
  unfold resolve
  have e1 : (is2d && (c.b0 : Int) != 1) = false := by
    cases is2d
    · rfl
    · simp at h2d; simp [h2d]
  have e2 : ((c.b0 : Int) == -1) = false := by simp
  have e4 : ((c.b2 : Int) == -1) = false := by simp
  have e5 : (bpv.num == -(bpv.den : Int)) = false := by simp; omega
  have e6 : ¬ (bpv.num < -(bpv.den : Int)) := by omega
  simp only [e1, e2, e4, e5, e6, Bool.false_eq_true, if_false, beq_self_eq_true, if_true, hf]
  simp only [Nat.add_zero, Nat.zero_add, gt_iff_lt, Nat.lt_irrefl, if_false]
  exact validate_complete c is2d hv bpv hr g0 (by omega) (by omega) hq

/-- third block dimension left free -/
theorem resolve_free2 (c : Cfg) (is2d : Bool) (hv : c.Valid is2d = true) (bpv : Q) (hr : Denotes bpv c.q) :
    resolve bpv c.b0 c.b1 (-1) is2d = .ok c := by
  obtain ⟨hq, g1, g2, h2d, h3d, hp⟩ := valid_facts c is2d hv
  have hn := num_pos bpv c.q hr hq
  have hid := prod_identity c bpv hr hp
  have g0 : 1 ≤ c.b0 := by cases is2d <;> simp at h2d h3d <;> omega
  have hf : freeDim bpv c.b0 c.b1 = .ok (c.b2 : Int) :=
    freeDim_eq bpv c.b0 c.b1 c.b2 (by omega) (by omega) hn (by rw [← hid]; ring)
  unfold resolve
  have e1 : (is2d && (c.b0 : Int) != 1) = false := by
    cases is2d
    · rfl
    · simp at h2d; simp [h2d]
  have e2 : ((c.b0 : Int) == -1) = false := by simp
  have e3 : ((c.b1 : Int) == -1) = false := by simp
  have e5 : (bpv.num == -(bpv.den : Int)) = false := by simp; omega
  have e6 : ¬ (bpv.num < -(bpv.den : Int)) := by omega
  simp only [e1, e2, e3, e5, e6, Bool.false_eq_true, if_false, beq_self_eq_true, if_true, hf]
  simp only [Nat.add_zero, Nat.zero_add, gt_iff_lt, Nat.lt_irrefl, if_false]
  exact validate_complete c is2d hv bpv hr g0 (by omega) (by omega) hq

/-- bit rate left free (`bits_per_voxel = -1`, written as any `-d/d`) -/
theorem resolve_freeRate (c : Cfg) (is2d : Bool) (hv : c.Valid is2d = true) (d : Nat) (_hd : 0 < d) :
    resolve { num := -(d : Int), den := d } c.b0 c.b1 c.b2 is2d = .ok c := by
  obtain ⟨hq, g1, g2, h2d, h3d, hp⟩ := valid_facts c is2d hv
  have g0 : 1 ≤ c.b0 := by cases is2d <;> simp at h2d h3d <;> omega
  unfold resolve
  have e1 : (is2d && (c.b0 : Int) != 1) = false := by
    cases is2d
    · rfl
    · simp at h2d; simp [h2d]
  have e2 : ((c.b0 : Int) == -1) = false := by simp
  have e3 : ((c.b1 : Int) == -1) = false := by simp
  have e4 : ((c.b2 : Int) == -1) = false := by simp
  have e6 : ¬ (-(d : Int) < -(d : Int)) := by omega
  have hpos : (0 : Int) < (c.b0 : Int) * c.b1 * c.b2 :=
    Int.mul_pos (Int.mul_pos (by omega) (by omega)) (by omega)
  have e7 : ((c.b0 : Int) * c.b1 * c.b2 == 0) = false := by simp; omega
  have e8 : ¬ ((c.b0 : Int) * c.b1 * c.b2 < 0) := by omega
  simp only [e1, e2, e3, e4, e6, e7, e8, Bool.false_eq_true, if_false, beq_self_eq_true, if_true]
  simp only [Nat.add_zero, Nat.zero_add, gt_iff_lt, Nat.lt_irrefl, if_false]
  apply validate_complete c is2d hv _ _ g0 (by omega) (by omega) hq
  refine ⟨?_, ?_⟩
  · show 0 < ((c.b0 : Int) * c.b1 * c.b2).toNat
    omega
  · show 4 * (32768 : Int) = (c.q : Int) * (((c.b0 : Int) * c.b1 * c.b2).toNat : Int)
    rw [Int.toNat_of_nonneg (by omega)]
    have hpZ : (c.q : Int) * c.b0 * c.b1 * c.b2 = 131072 := by exact_mod_cast hp
    rw [← Int.mul_assoc, ← Int.mul_assoc, hpZ]; rfl

/-- a rate below 1 written as its negative reciprocal (`-4` for 1/4, `-2` for 1/2): `bpv = -m/d` with `m/d > 1`
denotes `d/m` -/
theorem resolve_recip (c : Cfg) (is2d : Bool) (hv : c.Valid is2d = true) (bpv : Q) (hden : 0 < bpv.den)
    (hneg : bpv.num < -(bpv.den : Int)) (hr : 4 * (bpv.den : Int) = (c.q : Int) * (-bpv.num)) :
    resolve bpv c.b0 c.b1 c.b2 is2d = .ok c ∧ resolve bpv c.b0 c.b1 (-1) is2d = .ok c := by
  have hr' : Denotes { num := (bpv.den : Int), den := (-bpv.num).toNat } c.q := by
    refine ⟨by show 0 < (-bpv.num).toNat; omega, ?_⟩
    show 4 * (bpv.den : Int) = (c.q : Int) * (((-bpv.num).toNat : Nat) : Int)
    rw [Int.toNat_of_nonneg (by omega)]; exact hr
  have k1 := resolve_given c is2d hv _ hr'
  have k2 := resolve_free2 c is2d hv _ hr'
  have hnn : ¬ ((bpv.den : Int) < -(((-bpv.num).toNat : Nat) : Int)) := by omega
  have hne : ((bpv.den : Int) == -(((-bpv.num).toNat : Nat) : Int)) = false := by simp; omega
  have e5 : (bpv.num == -(bpv.den : Int)) = false := by simp; omega
  constructor
  · unfold resolve at k1 ⊢
    simp only [hneg, if_true, e5, hnn, hne, if_false] at k1 ⊢
    exact k1
  · unfold resolve at k2 ⊢
    simp only [hneg, if_true, e5, hnn, hne, if_false] at k2 ⊢
    exact k2

end Sgz.Config
