import Sgz.Model.Lru
import Mathlib.Tactic.Ring
/-!
# Proofs/Lru — an LRU with at least one slot fetches every key of a monotone sequence once
-/
namespace Sgz
namespace Lru

variable {κ : Type} [DecidableEq κ]

theorem step_head (cap : Nat) (hcap : 1 ≤ cap) (c : List κ) (k : κ) : (step cap c k).1.head? = some k := by
  unfold step
  split
  · rfl
  · obtain ⟨m, rfl⟩ : ∃ m, cap = m + 1 := ⟨cap - 1, by omega⟩
    simp [List.take]

theorem step_hit_of_head (cap : Nat) (c : List κ) (k : κ) (h : c.head? = some k) : (step cap c k).2 = true := by
  unfold step
  cases c with
  | nil => simp at h
  | cons a t =>
    simp at h
    subst h
    simp

theorem changes_subset (p : Option κ) (ks : List κ) : ∀ x ∈ changes p ks, x ∈ ks := by
  induction ks generalizing p with
  | nil => intro x hx; simp [changes] at hx
  | cons k ks ih =>
    intro x hx
    unfold changes at hx
    split at hx
    · exact List.mem_cons_of_mem _ (ih _ x hx)
    · rcases List.mem_cons.mp hx with h | h
      · subst h; exact List.mem_cons_self
      · exact List.mem_cons_of_mem _ (ih _ x h)

/-- whatever the capacity (≥ 1) and the evictions: a key is fetched only where it differs from its predecessor -/
theorem fetched_sublist_changes (cap : Nat) (hcap : 1 ≤ cap) :
    ∀ (ks : List κ) (c : List κ) (p : κ), c.head? = some p → (fetched cap c ks).Sublist (changes (some p) ks) := by
  intro ks
  induction ks with
  | nil => intro c p _; simp [fetched, changes]
  | cons k ks ih =>
    intro c p hp
    have hh := step_head cap hcap c k
    unfold fetched changes
    by_cases hk : p = k
    · subst hk
      rw [step_hit_of_head cap c p hp]
      simp only [if_true]
      exact ih _ _ hh
    · have : ¬ (some p = some k) := by simpa using hk
      rw [if_neg this]
      split
      · exact List.Sublist.cons _ (ih _ _ hh)
      · exact List.Sublist.cons_cons _ (ih _ _ hh)

theorem fetched_nil_sublist_changes (cap : Nat) (hcap : 1 ≤ cap) (ks : List κ) :
    (fetched cap [] ks).Sublist (changes none ks) := by
  cases ks with
  | nil => simp [fetched, changes]
  | cons k ks =>
    have hh := step_head cap hcap ([] : List κ) k
    unfold fetched changes
    have h2 : (step cap ([] : List κ) k).2 = false := by simp [step]
    rw [h2]
    simp only [Bool.false_eq_true, if_false]
    have : ¬ ((none : Option κ) = some k) := by simp
    rw [if_neg this]
    exact List.Sublist.cons_cons _ (fetched_sublist_changes cap hcap ks _ k hh)

/-- along a sequence that is pairwise ordered by a transitive, antisymmetric relation, a key never comes back once left -/
theorem changes_nodup (r : κ → κ → Prop) (antisymm : ∀ a b, r a b → r b a → a = b) :
    ∀ (ks : List κ) (p : κ), (p :: ks).Pairwise r → p ∉ changes (some p) ks ∧ (changes (some p) ks).Nodup := by
  intro ks
  induction ks with
  | nil => intro p _; simp [changes]
  | cons k ks ih =>
    intro p hpw
    have hpk : ∀ x ∈ k :: ks, r p x := (List.pairwise_cons.mp hpw).1
    have hks : (k :: ks).Pairwise r := (List.pairwise_cons.mp hpw).2
    have ihk := ih k hks
    unfold changes
    by_cases hk : p = k
    · subst hk
      simp only [if_true]
      exact ihk
    · have : ¬ (some p = some k) := by simpa using hk
      rw [if_neg this]
      refine ⟨?_, List.nodup_cons.mpr ihk⟩
      intro hmem
      rcases List.mem_cons.mp hmem with h | h
      · exact hk h
      · have hin : p ∈ ks := changes_subset _ _ _ h
        have h1 : r k p := (List.pairwise_cons.mp hks).1 p hin
        have h2 : r p k := hpk k List.mem_cons_self
        exact hk (antisymm p k h2 h1)

theorem changes_none_nodup (r : κ → κ → Prop) (antisymm : ∀ a b, r a b → r b a → a = b)
    (ks : List κ) (h : ks.Pairwise r) : (changes none ks).Nodup := by
  cases ks with
  | nil => simp [changes]
  | cons k ks =>
    unfold changes
    have : ¬ ((none : Option κ) = some k) := by simp
    rw [if_neg this]
    exact List.nodup_cons.mpr (changes_nodup r antisymm ks k h)

/-- **an LRU with at least one slot fetches no key twice along a monotone sequence of look-ups** -/
theorem fetched_nodup (cap : Nat) (hcap : 1 ≤ cap) (r : κ → κ → Prop) (antisymm : ∀ a b, r a b → r b a → a = b)
    (ks : List κ) (h : ks.Pairwise r) : (fetched cap [] ks).Nodup :=
  (fetched_nil_sublist_changes cap hcap ks).nodup (changes_none_nodup r antisymm ks h)

/-! ### the chunk keys along a diagonal are monotone -/

def leCd (a b : Nat × Nat) : Prop := a.1 ≤ b.1 ∧ a.2 ≤ b.2
def leAd (a b : Nat × Nat) : Prop := a.1 ≤ b.1 ∧ b.2 ≤ a.2

theorem leCd_antisymm (a b : Nat × Nat) (h1 : leCd a b) (h2 : leCd b a) : a = b := by
  unfold leCd at *; exact Prod.ext (by omega) (by omega)
theorem leAd_antisymm (a b : Nat × Nat) (h1 : leAd a b) (h2 : leAd b a) : a = b := by
  unfold leAd at *; exact Prod.ext (by omega) (by omega)

theorem chunkKey_mono (g : Geo) (p q : Nat × Nat) :
    (p.1 ≤ q.1 → (chunkKey g p).1 ≤ (chunkKey g q).1) ∧ (p.2 ≤ q.2 → (chunkKey g p).2 ≤ (chunkKey g q).2) := by
  unfold chunkKey
  exact ⟨fun h => Nat.mul_le_mul_left _ (Nat.div_le_div_right h), fun h => Nat.mul_le_mul_left _ (Nat.div_le_div_right h)⟩

theorem cdPoint_mono (cd : Int) (d d' : Nat) (h : d ≤ d') :
    (cdPoint cd d).1 ≤ (cdPoint cd d').1 ∧ (cdPoint cd d).2 ≤ (cdPoint cd d').2 := by
  unfold cdPoint; split <;> simp <;> omega

theorem adPoint_mono (n1 ad d d' : Nat) (h : d ≤ d') :
    (adPoint n1 ad d).1 ≤ (adPoint n1 ad d').1 ∧ (adPoint n1 ad d').2 ≤ (adPoint n1 ad d).2 := by
  unfold adPoint; split <;> simp <;> omega

theorem pairwise_map_range {α : Type} (r : α → α → Prop) (f : Nat → α) (n : Nat)
    (h : ∀ a b, a < b → r (f a) (f b)) : ((List.range n).map f).Pairwise r := by
  rw [List.pairwise_map]
  exact List.Pairwise.imp (fun {a b} hab => h a b hab) List.pairwise_lt_range

theorem cdKeys_pairwise (g : Geo) (cd : Int) (lo hi : Nat) : (cdKeys g cd lo hi).Pairwise leCd := by
  unfold cdKeys
  apply pairwise_map_range
  intro a b hab
  have hm := cdPoint_mono cd (lo + a) (lo + b) (by omega)
  exact ⟨(chunkKey_mono g _ _).1 hm.1, (chunkKey_mono g _ _).2 hm.2⟩

theorem adKeys_pairwise (g : Geo) (ad lo hi : Nat) : (adKeys g ad lo hi).Pairwise leAd := by
  unfold adKeys
  apply pairwise_map_range
  intro a b hab
  have hm := adPoint_mono g.n1 ad (lo + a) (lo + b) (by omega)
  exact ⟨(chunkKey_mono g _ _).1 hm.1, (chunkKey_mono g _ _).2 hm.2⟩

/-! ### the grid positions are those `read_correlated_diagonal` / `read_anticorrelated_diagonal` index -/

/-- the trace index computed by `read_correlated_diagonal` for the `d`-th trace is `il · n1 + xl` of `cdPoint` -/
theorem cd_index (n1 : Nat) (cd : Int) (d : Nat) :
    (if cd ≥ 0 then ((d : Int) + cd) * n1 + d else (d : Int) * n1 + d - cd)
      = ((cdPoint cd d).1 : Int) * n1 + ((cdPoint cd d).2 : Int) := by
  unfold cdPoint
  split
  · rename_i h
    simp only [Nat.cast_add, Int.toNat_of_nonneg h]
  · rename_i h
    have : ((-cd).toNat : Int) = -cd := Int.toNat_of_nonneg (by omega)
    simp only [Nat.cast_add, this]
    omega

/-- the trace index computed by `read_anticorrelated_diagonal` for the `d`-th trace of a diagonal that has one -/
theorem ad_index (n1 ad d : Nat) (h : if ad < n1 then d ≤ ad else d + 1 ≤ n1) :
    (if (ad : Int) < n1 then (ad : Int) + d * ((n1 : Int) - 1) else ((ad : Int) - n1 + 1 + d) * n1 + ((n1 : Int) - d - 1))
      = ((adPoint n1 ad d).1 : Int) * n1 + ((adPoint n1 ad d).2 : Int) := by
  unfold adPoint
  by_cases hlt : ad < n1
  · simp only [hlt, if_true] at h ⊢
    have h1 : ((ad : Int) < n1) := by exact_mod_cast hlt
    rw [if_pos h1]
    have : ((ad - d : Nat) : Int) = (ad : Int) - d := by omega
    rw [this]
    ring_nf
  · simp only [hlt, if_false] at h ⊢
    have h1 : ¬ ((ad : Int) < n1) := by intro hc; exact hlt (by exact_mod_cast hc)
    rw [if_neg h1]
    have e1 : ((ad - n1 + 1 + d : Nat) : Int) = (ad : Int) - n1 + 1 + d := by omega
    have e2 : ((n1 - d - 1 : Nat) : Int) = (n1 : Int) - d - 1 := by omega
    rw [e1, e2]

/-- `get_trace` recovers the grid position from the index: `il = t // n1`, `xl = t % n1` -/
theorem position_of_index (n1 il xl : Nat) (h : xl < n1) : (il * n1 + xl) / n1 = il ∧ (il * n1 + xl) % n1 = xl := by
  have hpos : 0 < n1 := by omega
  constructor
  · rw [Nat.add_comm, Nat.add_mul_div_right _ _ hpos, Nat.div_eq_of_lt h, Nat.zero_add]
  · rw [Nat.add_comm, Nat.add_mul_mod_self_right, Nat.mod_eq_of_lt h]

/-! ### the default capacity -/

theorem growTo_ge (m : Nat) : ∀ (f c : Nat), m ≤ c + f → 1 ≤ c → m ≤ growTo m f c := by
  intro f
  induction f with
  | zero => intro c h _; simpa [growTo] using h
  | succ f ih =>
    intro c h hc
    unfold growTo
    split
    · exact ih (c * 2) (by omega) (by omega)
    · omega

theorem growTo_pos (m : Nat) : ∀ (f c : Nat), 1 ≤ c → 1 ≤ growTo m f c := by
  intro f
  induction f with
  | zero => intro c h; simpa [growTo] using h
  | succ f ih =>
    intro c hc
    unfold growTo
    split
    · exact ih (c * 2) (by omega)
    · exact hc

/-- the default chunk LRU has room for twice the smaller chunk dimension, and never fewer than two slots -/
theorem chunkCacheSize_ge (a b : Nat) : 2 * min a b ≤ chunkCacheSize a b ∧ 2 ≤ chunkCacheSize a b := by
  unfold chunkCacheSize
  have h1 := growTo_ge (min a b) (min a b) 1 (by omega) (by omega)
  have h2 := growTo_pos (min a b) (min a b) 1 (by omega)
  omega

end Lru
end Sgz
