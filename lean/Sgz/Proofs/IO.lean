import Sgz.Model.IO
/-!
# Proofs/IO — length-checked range reads: faults are errors, prefixes never read back as other data
-/
namespace Sgz

theorem readRange_prefix (p f : File) (h : IsPrefix p f) (off len : Nat) :
    p.readRange off len = none ∨ p.readRange off len = f.readRange off len := by
  unfold File.readRange
  by_cases hp : off + len ≤ p.len
  · right
    have hf : off + len ≤ f.len := Nat.le_trans hp h.1
    simp only [hp, hf, if_true]
    congr 1
    apply List.map_congr_left
    intro i hi
    have := List.mem_range.mp hi
    exact h.2 _ (by omega)
  · left; simp [hp]

/-- **C18, byte prefixes**: whatever the reader computes through length-checked range reads on a byte prefix of a file,
it either raises the I/O error or computes exactly what it computes on the complete file — for *every* program (any
data-dependent sequence of reads, any number of them), every file and every cut point -/
theorem run_prefix {α : Type} (p f : File) (h : IsPrefix p f) (prog : Prog α) :
    prog.run p = .error .io ∨ prog.run p = prog.run f := by
  induction prog with
  | done a => right; rfl
  | fail e => right; rfl
  | read off len k ih =>
    unfold Prog.run
    rcases readRange_prefix p f h off len with hn | he
    · left; simp [hn]
    · rw [he]
      cases hf : f.readRange off len with
      | none => left; rfl
      | some bs => exact ih bs

/-- the continuation of every read ignores the bytes at positions in `R` -/
inductive Insensitive (R : Nat → Bool) {α : Type} : Prog α → Prop where
  | done (a : α) : Insensitive R (.done a)
  | fail (e : Err) : Insensitive R (.fail e)
  | read (off len : Nat) (k : List Nat → Prog α)
      (hk : ∀ bs bs' : List Nat, bs.length = len → bs'.length = len →
        (∀ i, i < len → R (off + i) = false → bs[i]? = bs'[i]?) → k bs = k bs')
      (ih : ∀ bs, Insensitive R (k bs)) : Insensitive R (.read off len k)

/-- **C18, write prefixes with a pending in-place patch**: a crash state that agrees with the finished file everywhere
except in a region `R` whose bytes the computation does not use (the hash field 960–979 is patched through a second
handle and reaches the disk independently of the buffered appends) -/
theorem run_agreesOutside {α : Type} (R : Nat → Bool) (p f : File) (h : AgreesOutside R p f) (prog : Prog α)
    (hins : Insensitive R prog) : prog.run p = .error .io ∨ prog.run p = prog.run f := by
  induction hins with
  | done a => right; rfl
  | fail e => right; rfl
  | read off len k hk _ ih =>
    unfold Prog.run File.readRange
    by_cases hp : off + len ≤ p.len
    · have hf : off + len ≤ f.len := Nat.le_trans hp h.1
      simp only [hp, hf, if_true]
      have hkk := hk ((List.range len).map fun i => p.byte (off + i)) ((List.range len).map fun i => f.byte (off + i))
        (by simp) (by simp)
        (by
          intro i hi hR
          simp only [List.getElem?_map, List.getElem?_range hi, Option.map_some]
          congr 1
          exact h.2 _ (by omega) hR)
      rw [← hkk]
      exact ih _
    · left; simp [hp]

theorem covers_iff' (c : Copy) (b : Nat) : c.covers b = true ↔ c.bufStart ≤ b ∧ b < c.bufStart + c.len := by
  simp [Copy.covers]

theorem bufSrc_of_unique' (cs : List Copy) (b : Nat) (c : Copy)
    (hmem : c ∈ cs) (hcov : c.covers b = true)
    (huniq : ∀ c' ∈ cs, c'.covers b = true → c' = c) :
    bufSrc cs b = some (c.fileOff + (b - c.bufStart)) := by
  unfold bufSrc
  have hmem' : c ∈ cs.reverse := List.mem_reverse.mpr hmem
  cases h : cs.reverse.find? (·.covers b) with
  | none =>
    have := List.find?_eq_none.mp h c hmem'
    simp [hcov] at this
  | some c' =>
    have h1 : c'.covers b = true := by simpa using List.find?_some h
    have h2 : c' ∈ cs := List.mem_reverse.mp (List.mem_of_find?_eq_some h)
    have := huniq c' h2 h1
    subst this
    rfl

/-- **C17, soundness**: under any fault plan a call raises or returns exactly the fault-free result -/
theorem runFaulty_sound {α : Type} (f : File) (plan : Nat → Prog.Fault) (prog : Prog α) (n : Nat) :
    prog.runFaulty f plan n = .error .io ∨ prog.runFaulty f plan n = prog.run f := by
  induction prog generalizing n with
  | done a => right; rfl
  | fail e => right; rfl
  | read off len k ih =>
    unfold Prog.runFaulty Prog.run
    cases hpl : plan n with
    | exc => left; rfl
    | short got =>
      simp only
      by_cases hg : got < len
      · left; simp [hg]
      · simp only [hg, if_false]
        cases hf : f.readRange off len with
        | none => left; rfl
        | some bs => exact ih bs (n + 1)
    | none =>
      simp only
      cases hf : f.readRange off len with
      | none => left; rfl
      | some bs => exact ih bs (n + 1)

/-- no fault ⇒ the true result -/
theorem runFaulty_clean {α : Type} (f : File) (plan : Nat → Prog.Fault) (hclean : ∀ k, plan k = .none) (prog : Prog α)
    (n : Nat) : prog.runFaulty f plan n = prog.run f := by
  induction prog generalizing n with
  | done a => rfl
  | fail e => rfl
  | read off len k ih =>
    unfold Prog.runFaulty Prog.run
    rw [hclean n]
    simp only
    cases hf : f.readRange off len with
    | none => rfl
    | some bs => exact ih bs (n + 1)

/-- every range read of the program asks for a length satisfying `P` -/
inductive AllLens (P : Nat → Prop) {α : Type} : Prog α → Prop where
  | done (a : α) : AllLens P (.done a)
  | fail (e : Err) : AllLens P (.fail e)
  | read (off len : Nat) (k : List Nat → Prog α) (h : P len) (ih : ∀ bs, AllLens P (k bs)) : AllLens P (.read off len k)

/-- **C17, completeness of reporting**: if one of the range reads the call actually issues (the k-th, counted from `n`)
raises, or returns fewer bytes than any read of the call requests, the call raises -/
theorem runFaulty_raises {α : Type} (f : File) (plan : Nat → Prog.Fault) (prog : Prog α) (n k : Nat)
    (hk : n ≤ k) (hk2 : k < n + prog.reads f)
    (hfault : plan k = .exc ∨ ∃ got, plan k = .short got ∧ AllLens (got < ·) prog) :
    prog.runFaulty f plan n = .error .io := by
  induction prog generalizing n with
  | done a => simp [Prog.reads] at hk2; omega
  | fail e => simp [Prog.reads] at hk2; omega
  | read off len k' ih =>
    unfold Prog.runFaulty
    by_cases hkn : k = n
    · subst hkn
      rcases hfault with he | ⟨got, hs, hall⟩
      · rw [he]
      · rw [hs]
        cases hall with
        | read _ _ _ h _ => simp [h]
    · have hfault' : ∀ bs, plan k = .exc ∨ ∃ got, plan k = .short got ∧ AllLens (got < ·) (k' bs) := by
        intro bs
        rcases hfault with he | ⟨got, hs, hall⟩
        · exact .inl he
        · cases hall with
          | read _ _ _ _ ih' => exact .inr ⟨got, hs, ih' bs⟩
      have hreads : ∀ bs, f.readRange off len = some bs → k < n + 1 + (k' bs).reads f := by
        intro bs hbs
        unfold Prog.reads at hk2
        rw [hbs] at hk2
        simp only at hk2
        omega
      cases hpl : plan n with
      | exc => rfl
      | short got' =>
        simp only
        by_cases hg : got' < len
        · simp [hg]
        · simp only [hg, if_false]
          cases hf : f.readRange off len with
          | none => rfl
          | some bs => exact ih bs (n + 1) (by omega) (hreads bs hf) (hfault' bs)
      | none =>
        simp only
        cases hf : f.readRange off len with
        | none => rfl
        | some bs => exact ih bs (n + 1) (by omega) (hreads bs hf) (hfault' bs)

end Sgz

namespace Sgz

theorem foldr_toProg_run (f : File) (ds : Nat) (fs : List (Nat × Nat)) (a : Arr) :
    (fs.foldr (fun fl k => Prog.read (ds + fl.1) fl.2 (fun _ => k)) (Prog.done a)).run f
      = if fs.any (fun fl => decide (ds + fl.1 + fl.2 > f.len)) = true then .error .io else .ok a := by
  induction fs with
  | nil => rfl
  | cons fl fs ih =>
    rw [List.foldr_cons, List.any_cons]
    unfold Prog.run File.readRange
    by_cases h : ds + fl.1 + fl.2 ≤ f.len
    · have hd : decide (ds + fl.1 + fl.2 > f.len) = false := by simp; omega
      rw [if_pos h, hd, Bool.false_or]
      exact ih
    · have hd : decide (ds + fl.1 + fl.2 > f.len) = true := by simp; omega
      rw [if_neg h, hd, Bool.true_or]
      rfl

/-- a read call on a file of length `L`: it raises exactly when one of its range reads reaches beyond `L` -/
theorem toProg_run (f : File) (ds : Nat) (o : Out) :
    (o.toProg ds).run f = if truncRaises ds f.len o = true then .error .io else .ok o.arr :=
  foldr_toProg_run f ds o.fetches o.arr

theorem foldr_insensitive (R : Nat → Bool) (ds : Nat) (fs : List (Nat × Nat)) (a : Arr) :
    Insensitive R (fs.foldr (fun fl k => Prog.read (ds + fl.1) fl.2 (fun _ => k)) (Prog.done a)) := by
  induction fs with
  | nil => exact .done _
  | cons fl fs ih => exact .read _ _ _ (fun _ _ _ _ _ => rfl) (fun _ => ih)

theorem toProg_insensitive (R : Nat → Bool) (ds : Nat) (o : Out) : Insensitive R (o.toProg ds) :=
  foldr_insensitive R ds o.fetches o.arr

theorem foldr_reads (f : File) (ds : Nat) (fs : List (Nat × Nat)) (a : Arr)
    (h : fs.any (fun fl => decide (ds + fl.1 + fl.2 > f.len)) = false) :
    (fs.foldr (fun fl k => Prog.read (ds + fl.1) fl.2 (fun _ => k)) (Prog.done a)).reads f = fs.length := by
  induction fs with
  | nil => rfl
  | cons fl fs ih =>
    rw [List.any_cons, Bool.or_eq_false_iff] at h
    have h1 : ds + fl.1 + fl.2 ≤ f.len := by have := h.1; simp at this; omega
    rw [List.foldr_cons, List.length_cons]
    unfold Prog.reads File.readRange
    rw [if_pos h1]
    simp only
    rw [ih h.2]; omega

theorem toProg_reads (f : File) (ds : Nat) (o : Out) (h : truncRaises ds f.len o = false) :
    (o.toProg ds).reads f = o.fetches.length := foldr_reads f ds o.fetches o.arr h

theorem foldr_allLens (ds : Nat) (fs : List (Nat × Nat)) (a : Arr) (P : Nat → Prop) (h : ∀ fl ∈ fs, P fl.2) :
    AllLens P (fs.foldr (fun fl k => Prog.read (ds + fl.1) fl.2 (fun _ => k)) (Prog.done a)) := by
  induction fs with
  | nil => exact .done _
  | cons fl fs ih =>
    exact .read _ _ _ (h fl (List.mem_cons_self ..)) (fun _ => ih (fun x hx => h x (List.mem_cons_of_mem _ hx)))

theorem toProg_allLens (ds : Nat) (o : Out) (P : Nat → Prop) (h : ∀ fl ∈ o.fetches, P fl.2) :
    AllLens P (o.toProg ds) := foldr_allLens ds o.fetches o.arr P h

/-! ## order independence of the thread-pool fan-out -/

def Copy.bufDisjoint (a b : Copy) : Prop := a.bufStart + a.len ≤ b.bufStart ∨ b.bufStart + b.len ≤ a.bufStart

theorem covers_unique (cs : List Copy) (hd : cs.Pairwise Copy.bufDisjoint) (b : Nat) :
    ∀ c ∈ cs, ∀ c' ∈ cs, c.covers b = true → c'.covers b = true → c = c' := by
  induction cs with
  | nil => intro c hc; cases hc
  | cons a l ih =>
    rw [List.pairwise_cons] at hd
    intro c hc c' hc' h1 h2
    rw [covers_iff'] at h1 h2
    rcases List.mem_cons.mp hc with rfl | hcl
    · rcases List.mem_cons.mp hc' with rfl | hcl'
      · rfl
      · have := hd.1 c' hcl'; unfold Copy.bufDisjoint at this; omega
    · rcases List.mem_cons.mp hc' with rfl | hcl'
      · have := hd.1 c hcl; unfold Copy.bufDisjoint at this; omega
      · exact ih hd.2 c hcl c' hcl' (by rw [covers_iff']; exact h1) (by rw [covers_iff']; exact h2)

/-- where a byte of the buffer comes from does not depend on the order in which the copies were made (thread-pool
completion order), as long as the copies go to pairwise disjoint parts of the buffer -/
theorem bufSrc_perm (cs cs' : List Copy) (hp : cs.Perm cs') (hd : cs.Pairwise Copy.bufDisjoint) (b : Nat) :
    bufSrc cs b = bufSrc cs' b := by
  have uniq := covers_unique cs hd b
  by_cases hex : ∃ c ∈ cs, c.covers b = true
  · obtain ⟨c, hc, hcov⟩ := hex
    rw [bufSrc_of_unique' cs b c hc hcov (fun c' hc' h' => uniq c' hc' c hc h' hcov),
      bufSrc_of_unique' cs' b c (hp.mem_iff.mp hc) hcov
        (fun c' hc' h' => uniq c' (hp.mem_iff.mpr hc') c hc h' hcov)]
  · have hnone : ∀ l : List Copy, (∀ c ∈ l, c.covers b = false) → bufSrc l b = none := by
      intro l hl
      unfold bufSrc
      have : l.reverse.find? (·.covers b) = none := by
        rw [List.find?_eq_none]
        intro x hx
        simp [hl x (List.mem_reverse.mp hx)]
      rw [this]; rfl
    have h1 : ∀ c ∈ cs, c.covers b = false := by
      intro c hc
      cases h : c.covers b
      · rfl
      · exact absurd ⟨c, hc, h⟩ hex
    rw [hnone cs h1, hnone cs' (fun c hc => h1 c (hp.mem_iff.mpr hc))]

end Sgz

namespace Sgz

theorem pairwise_range_map' {β : Type} (R : β → β → Prop) (n : Nat) (f : Nat → β)
    (h : ∀ a b, a < b → b < n → R (f a) (f b)) : ((List.range n).map f).Pairwise R := by
  rw [List.pairwise_map]
  refine List.Pairwise.imp_of_mem ?_ (List.pairwise_lt_range (n := n))
  intro a b _ hb hab
  exact h a b hab (List.mem_range.mp hb)

theorem strided_disjoint (n S : Nat) (f : Nat → Nat) :
    ((List.range n).map fun k => ({ bufStart := k * S, fileOff := f k, len := S } : Copy)).Pairwise Copy.bufDisjoint := by
  apply pairwise_range_map'
  intro a b hab _
  left
  show a * S + S ≤ b * S
  have : (a + 1) * S ≤ b * S := Nat.mul_le_mul_right S hab
  rw [Nat.add_mul, Nat.one_mul] at this; exact this

/-- the crossline-set fan-out writes pairwise disjoint parts of its buffer -/
theorem xlSet_copies_disjoint (g : Geo) (x : Nat) : (Loader.xlSetCopies g x).Pairwise Copy.bufDisjoint :=
  strided_disjoint _ _ _

/-- the z-slice-set fan-out writes pairwise disjoint parts of its buffer -/
theorem zsliceSet_copies_disjoint (g : Geo) (zid : Nat) : (Loader.zsliceSetCopies g zid).Pairwise Copy.bufDisjoint :=
  strided_disjoint _ _ _

/-- hence what the decoder sees is the same for every completion order of the parallel range reads -/
theorem xlSet_order_independent (g : Geo) (x : Nat) (cs' : List Copy) (hp : (Loader.xlSetCopies g x).Perm cs')
    (a b z : Nat) : decomp3 g.u cs' 4 g.P2 a b z = (Loader.xlSet g x).src a b z := by
  unfold Loader.xlSet decomp3 unitAt
  simp only
  rw [bufSrc_perm _ _ hp (xlSet_copies_disjoint g x)]

theorem zsliceSet_order_independent (g : Geo) (zid : Nat) (cs' : List Copy)
    (hp : (Loader.zsliceSetCopies g zid).Perm cs') (a x z : Nat) :
    decomp3 g.u cs' g.P1 4 a x z = (Loader.zsliceSet g zid).src a x z := by
  unfold Loader.zsliceSet decomp3 unitAt
  simp only
  rw [bufSrc_perm _ _ hp (zsliceSet_copies_disjoint g zid)]

end Sgz
