import Sgz.Proofs.Buffer
/-!
# Proofs/Layout — consequences of `Geo.Valid`, closed form of the address function in the default layout
-/
namespace Sgz
namespace Geo
variable {g : Geo}

theorem b0_pos (hg : g.Valid) : 0 < g.b0 := hg.2.2.2.1
theorem b1_pos (hg : g.Valid) : 0 < g.b1 := hg.2.2.2.2.1
theorem b2_pos (hg : g.Valid) : 0 < g.b2 := hg.2.2.2.2.2.1
theorem u_pos (hg : g.Valid) : 0 < g.u := hg.2.2.2.2.2.2.1
theorem cpb_u (hg : g.Valid) : g.cpb * g.u = 4096 := hg.2.2.2.2.2.2.2.1
theorem dvd0 (hg : g.Valid) : 4 ∣ g.b0 := hg.1
theorem dvd1 (hg : g.Valid) : 4 ∣ g.b1 := hg.2.1
theorem dvd2 (hg : g.Valid) : 4 ∣ g.b2 := hg.2.2.1

theorem P0_eq (hg : g.Valid) : g.P0 = g.NB0 * g.b0 := (pad_div_mul g.n0 g.b0 (b0_pos hg)).symm
theorem P1_eq (hg : g.Valid) : g.P1 = g.NB1 * g.b1 := (pad_div_mul g.n1 g.b1 (b1_pos hg)).symm
theorem P2_eq (hg : g.Valid) : g.P2 = g.NB2 * g.b2 := (pad_div_mul g.n2 g.b2 (b2_pos hg)).symm

theorem mul_div4 (n b : Nat) (hb : 4 ∣ b) : n * b / 4 = n * (b / 4) := by
  obtain ⟨c, rfl⟩ := hb
  rw [Nat.mul_div_cancel_left c (by omega), ← Nat.mul_assoc, Nat.mul_comm n 4, Nat.mul_assoc,
    Nat.mul_div_cancel_left _ (by omega)]

theorem P0_div4 (hg : g.Valid) : g.P0 / 4 = g.NB0 * (g.b0 / 4) := by rw [P0_eq hg, mul_div4 _ _ (dvd0 hg)]
theorem P1_div4 (hg : g.Valid) : g.P1 / 4 = g.NB1 * (g.b1 / 4) := by rw [P1_eq hg, mul_div4 _ _ (dvd1 hg)]
theorem P2_div4 (hg : g.Valid) : g.P2 / 4 = g.NB2 * (g.b2 / 4) := by rw [P2_eq hg, mul_div4 _ _ (dvd2 hg)]

theorem P0_dvd4 (hg : g.Valid) : 4 ∣ g.P0 := Nat.dvd_trans (dvd0 hg) (pad_dvd _ _ (b0_pos hg))
theorem P1_dvd4 (hg : g.Valid) : 4 ∣ g.P1 := Nat.dvd_trans (dvd1 hg) (pad_dvd _ _ (b1_pos hg))
theorem P2_dvd4 (hg : g.Valid) : 4 ∣ g.P2 := Nat.dvd_trans (dvd2 hg) (pad_dvd _ _ (b2_pos hg))

theorem n0_le (hg : g.Valid) : g.n0 ≤ g.P0 := le_pad _ _ (b0_pos hg)
theorem n1_le (hg : g.Valid) : g.n1 ≤ g.P1 := le_pad _ _ (b1_pos hg)
theorem n2_le (hg : g.Valid) : g.n2 ≤ g.P2 := le_pad _ _ (b2_pos hg)

/-- default layout `4 x 4 x N`: a block is one column of `b2/4` units -/
theorem cpb_default (h0 : g.b0 = 4) (h1 : g.b1 = 4) : g.cpb = g.b2 / 4 := by
  simp [cpb, h0, h1]

theorem block_bytes_default (hg : g.Valid) (h0 : g.b0 = 4) (h1 : g.b1 = 4) : (g.b2 / 4) * g.u = 4096 := by
  rw [← cpb_default h0 h1]; exact cpb_u hg

/-- default layout: one chunk (all blocks of a 4x4 trace column) is `P2/4` units -/
theorem chunk_default (hg : g.Valid) (h0 : g.b0 = 4) (h1 : g.b1 = 4) : g.chunk = (g.P2 / 4) * g.u := by
  rw [chunk, P2_div4 hg, ← block_bytes_default hg h0 h1]; ring

end Geo

namespace Spec

/-- default layout: units are in raster order over the padded *cell* grid -/
theorem unit_default (g : Geo) (hg : g.Valid) (h0 : g.b0 = 4) (h1 : g.b1 = 4) (i x z : Nat) :
    unit g i x z = ((i / 4) * (g.P1 / 4) + x / 4) * (g.P2 / 4) + z / 4 := by
  have hz := div4_split z g.b2 (Geo.dvd2 hg) (Geo.b2_pos hg)
  have hP2 := Geo.P2_div4 hg
  have hNB1 : g.NB1 = g.P1 / 4 := by simp [Geo.NB1, h1]
  have hi : i % 4 / 4 = 0 := by omega
  have hx : x % 4 / 4 = 0 := by omega
  simp only [unit, Geo.cpb_default h0 h1, h0, h1, hi, hx, hNB1]
  rw [hz, hP2, ← hNB1]
  ring

theorem pos_lt (i x z : Nat) : pos i x z < 64 := by
  unfold pos; omega

theorem pos_add_mul4 (m a x z : Nat) : pos (4 * m + a) x z = pos a x z := by
  unfold pos; congr 2; omega

end Spec
end Sgz
