import Sgz.Proofs.Layout
/-!
# Proofs/Loaders — every loader decodes voxel (a,x,z) of its array from the unit the specification assigns to
the corresponding file voxel.  One theorem per loader of `Model/Loader.lean`, for all valid geometries.
-/
namespace Sgz
open Geo

/-- inline set (default layout): voxel (a,x,z) of the decoded `(4, P1, P2)` array is file voxel `(4m+a, x, z)` -/
theorem ilSet_src (g : Geo) (hg : g.Valid) (h0 : g.b0 = 4) (h1 : g.b1 = 4) (m a x z : Nat)
    (ha : a < 4) (hx : x < g.P1) (hz : z < g.P2) :
    (Loader.ilSet g (4 * m)).src a x z = Spec.code3 g (4 * m + a) x z := by
  have hu := u_pos hg
  have hX : x / 4 < g.P1 / 4 := div_lt_of_lt_pad x g.n1 g.b1 (dvd1 hg) (b1_pos hg) hx
  have hZ : z / 4 < g.P2 / 4 := div_lt_of_lt_pad z g.n2 g.b2 (dvd2 hg) (b2_pos hg) hz
  have hchunk := chunk_default hg h0 h1
  -- length of the single copy: (chunk · P1)/4 = (P1/4)·(P2/4)·u
  have hlen : g.chunk * g.P1 / 4 = (g.P1 / 4) * ((g.P2 / 4) * g.u) := by
    obtain ⟨k, hk⟩ := P1_dvd4 hg
    rw [hk, Nat.mul_div_cancel_left k (by omega), hchunk]
    have : g.P2 / 4 * g.u * (4 * k) = 4 * (k * (g.P2 / 4 * g.u)) := by ring
    rw [this, Nat.mul_div_cancel_left _ (by omega)]
  have ha4 : a / 4 = 0 := by omega
  have h4m : 4 * m / 4 = m := Nat.mul_div_cancel_left m (by omega)
  simp only [Loader.ilSet, decomp3, Loader.ilSetCopies, Spec.code3, ha4, Nat.zero_mul, Nat.zero_add, h4m, hlen]
  have hk : (x / 4 * (g.P2 / 4) + z / 4) * g.u < g.P1 / 4 * (g.P2 / 4 * g.u) := by
    have := lt_of_mixed (x / 4) (z / 4) (g.P1 / 4) (g.P2 / 4) hX hZ
    calc (x / 4 * (g.P2 / 4) + z / 4) * g.u < (g.P1 / 4 * (g.P2 / 4)) * g.u := Nat.mul_lt_mul_of_pos_right this hu
      _ = g.P1 / 4 * (g.P2 / 4 * g.u) := by ring
  have hsrc := bufSrc_single (g.P1 / 4 * (g.P2 / 4 * g.u) * m) (g.P1 / 4 * (g.P2 / 4 * g.u)) _ hk
  have hunit : unitAt g.u [(⟨0, g.P1 / 4 * (g.P2 / 4 * g.u) * m, g.P1 / 4 * (g.P2 / 4 * g.u)⟩ : Copy)]
      ((x / 4 * (g.P2 / 4) + z / 4) * g.u) = some (Spec.unit g (4 * m + a) x z) := by
    apply unitAt_of_bufSrc g.u _ _ _ _ hsrc _ hu
    rw [Spec.unit_default g hg h0 h1]
    have : (4 * m + a) / 4 = m := by omega
    rw [this]; ring
  rw [hunit, Spec.pos_add_mul4]

end Sgz

namespace Sgz
open Geo

/-- crossline set (default layout): voxel (a,b,z) of the decoded `(P0, 4, P2)` array is file voxel `(a, 4m+b, z)` -/
theorem xlSet_src (g : Geo) (hg : g.Valid) (h0 : g.b0 = 4) (h1 : g.b1 = 4) (m a b z : Nat)
    (ha : a < g.P0) (hb : b < 4) (hz : z < g.P2) :
    (Loader.xlSet g (4 * m)).src a b z = Spec.code3 g a (4 * m + b) z := by
  have hu := u_pos hg
  have hA : a / 4 < g.P0 / 4 := div_lt_of_lt_pad a g.n0 g.b0 (dvd0 hg) (b0_pos hg) ha
  have hZ : z / 4 < g.P2 / 4 := div_lt_of_lt_pad z g.n2 g.b2 (dvd2 hg) (b2_pos hg) hz
  have hchunk := chunk_default hg h0 h1
  have hlen : g.chunk * g.P1 / 4 = (g.P1 / 4) * ((g.P2 / 4) * g.u) := by
    obtain ⟨k, hk⟩ := P1_dvd4 hg
    rw [hk, Nat.mul_div_cancel_left k (by omega), hchunk]
    have : g.P2 / 4 * g.u * (4 * k) = 4 * (k * (g.P2 / 4 * g.u)) := by ring
    rw [this, Nat.mul_div_cancel_left _ (by omega)]
  have hb4 : b / 4 = 0 := by omega
  have h4m : 4 * m / 4 = m := Nat.mul_div_cancel_left m (by omega)
  have hr : z / 4 * g.u < g.chunk := by
    rw [hchunk]; exact Nat.mul_lt_mul_of_pos_right hZ hu
  have hbyte : ((a / 4 * (4 / 4) + b / 4) * (g.P2 / 4) + z / 4) * g.u = (a / 4) * g.chunk + z / 4 * g.u := by
    rw [hb4, hchunk]; ring
  have hsrc := bufSrc_strided (g.P0 / 4) g.chunk (fun c => 4 * m / 4 * g.chunk + c * (g.chunk * g.P1 / 4))
    (a / 4) (z / 4 * g.u) hA hr
  simp only [Loader.xlSet, decomp3, Loader.xlSetCopies, Spec.code3, hbyte]
  have hunit : unitAt g.u ((List.range (g.P0 / 4)).map fun c =>
      ({ bufStart := c * g.chunk, fileOff := 4 * m / 4 * g.chunk + c * (g.chunk * g.P1 / 4), len := g.chunk } : Copy))
      ((a / 4) * g.chunk + z / 4 * g.u) = some (Spec.unit g a (4 * m + b) z) := by
    apply unitAt_of_bufSrc g.u _ _ _ _ hsrc _ hu
    rw [Spec.unit_default g hg h0 h1, h4m, hlen, hchunk]
    have : (4 * m + b) / 4 = m := by omega
    rw [this]; ring
  rw [hunit]
  have : Spec.pos a (4 * m + b) z = Spec.pos a b z := by unfold Spec.pos; congr 2; omega
  rw [this]

/-- z-slice set (default layout): voxel (a,x,z) (z < 4) of the decoded `(P0, P1, 4)` array comes from the unit of file
voxel `(a, x, zid)` -/
theorem zsliceSet_src (g : Geo) (hg : g.Valid) (h0 : g.b0 = 4) (h1 : g.b1 = 4) (zid a x z : Nat)
    (ha : a < g.P0) (hx : x < g.P1) (hz : z < 4) :
    (Loader.zsliceSet g zid).src a x z = code 64 (some (Spec.unit g a x zid)) (Spec.pos a x z) := by
  have hu := u_pos hg
  have hA : a / 4 < g.P0 / 4 := div_lt_of_lt_pad a g.n0 g.b0 (dvd0 hg) (b0_pos hg) ha
  have hX : x / 4 < g.P1 / 4 := div_lt_of_lt_pad x g.n1 g.b1 (dvd1 hg) (b1_pos hg) hx
  have hchunk := chunk_default hg h0 h1
  have hNB0 : g.NB0 = g.P0 / 4 := by simp [Geo.NB0, h0]
  have hNB1 : g.NB1 = g.P1 / 4 := by simp [Geo.NB1, h1]
  have hz4 : z / 4 = 0 := by omega
  have hn : a / 4 * (g.P1 / 4) + x / 4 < g.NB0 * g.NB1 := by
    rw [hNB0, hNB1]; exact lt_of_mixed _ _ _ _ hA hX
  have hbyte : ((a / 4 * (g.P1 / 4) + x / 4) * (4 / 4) + z / 4) * g.u = (a / 4 * (g.P1 / 4) + x / 4) * g.u + 0 := by
    rw [hz4]; ring
  have hsrc := bufSrc_strided (g.NB0 * g.NB1) g.u
    (fun n => zid / g.b2 * 4096 + zid % g.b2 / 4 * g.u + n * g.chunk) (a / 4 * (g.P1 / 4) + x / 4) 0 hn hu
  simp only [Loader.zsliceSet, decomp3, Loader.zsliceSetCopies, hbyte]
  have hunit : unitAt g.u ((List.range (g.NB0 * g.NB1)).map fun n =>
      ({ bufStart := n * g.u, fileOff := zid / g.b2 * 4096 + zid % g.b2 / 4 * g.u + n * g.chunk, len := g.u } : Copy))
      ((a / 4 * (g.P1 / 4) + x / 4) * g.u + 0) = some (Spec.unit g a x zid) := by
    apply unitAt_of_bufSrc g.u _ _ _ _ hsrc _ hu
    rw [Spec.unit_default g hg h0 h1, hchunk, div4_split zid g.b2 (dvd2 hg) (b2_pos hg),
      ← block_bytes_default hg h0 h1]
    ring
  rw [hunit]

end Sgz

namespace Sgz
open Geo

/-- `read_chunk_range` buffer: cell `(i,x,z)` of the `ilU × xlU × zU` cell grid is filled from the file position of cell
`(minIl/4 + i, minXl/4 + x, minZ/4 + z)` in raster order over the padded cell grid (any geometry, any sizes) -/
theorem chunkRange_bufSrc (g : Geo) (hu : 0 < g.u) (minIl minXl minZ ilU xlU zU i x z : Nat)
    (hi : i < ilU) (hx : x < xlU) (hz : z < zU) :
    bufSrc (Loader.chunkRangeCopies g minIl minXl minZ ilU xlU zU) (((i * xlU + x) * zU + z) * g.u)
      = some (((((minIl / 4 + i) * (g.P1 / 4) + (minXl / 4 + x)) * (g.P2 / 4)) + (minZ / 4 + z)) * g.u) := by
  let c : Copy :=
    ⟨(i * xlU * zU + x * zU) * g.u,
     g.u * (((minIl / 4) + i) * (g.P1 / 4) * (g.P2 / 4) + ((minXl / 4) + x) * (g.P2 / 4) + (minZ / 4)),
     g.u * zU⟩
  have hb : ((i * xlU + x) * zU + z) * g.u = c.bufStart + z * g.u := by
    show _ = (i * xlU * zU + x * zU) * g.u + z * g.u
    ring
  have hmem : c ∈ Loader.chunkRangeCopies g minIl minXl minZ ilU xlU zU := by
    unfold Loader.chunkRangeCopies
    simp only [List.mem_flatMap, List.mem_range, List.mem_map]
    exact ⟨i, hi, x, hx, rfl⟩
  have hzu : z * g.u < zU * g.u := Nat.mul_lt_mul_of_pos_right hz hu
  have hcov : c.covers (((i * xlU + x) * zU + z) * g.u) = true := by
    rw [hb, covers_iff]
    refine ⟨Nat.le_add_right _ _, ?_⟩
    show (i * xlU * zU + x * zU) * g.u + z * g.u < (i * xlU * zU + x * zU) * g.u + g.u * zU
    rw [Nat.mul_comm g.u zU]; omega
  rw [bufSrc_of_unique _ _ c hmem hcov]
  · rw [hb]
    show some (g.u * (((minIl / 4) + i) * (g.P1 / 4) * (g.P2 / 4) + ((minXl / 4) + x) * (g.P2 / 4) + (minZ / 4))
      + ((i * xlU * zU + x * zU) * g.u + z * g.u - (i * xlU * zU + x * zU) * g.u)) = _
    rw [Nat.add_sub_cancel_left]
    congr 1; ring
  · intro c' hc' hcov'
    unfold Loader.chunkRangeCopies at hc'
    simp only [List.mem_flatMap, List.mem_range, List.mem_map] at hc'
    obtain ⟨i', _, x', hx', rfl⟩ := hc'
    rw [covers_iff] at hcov'
    obtain ⟨hlo, hhi⟩ := hcov'
    simp only at hlo hhi
    have hk : (i' * xlU + x') * zU * g.u ≤ ((i * xlU + x) * zU + z) * g.u := by
      have : (i' * xlU * zU + x' * zU) * g.u = (i' * xlU + x') * zU * g.u := by ring
      rw [← this]; exact hlo
    have hk2 : ((i * xlU + x) * zU + z) * g.u < ((i' * xlU + x') * zU + zU) * g.u := by
      have : (i' * xlU * zU + x' * zU) * g.u + g.u * zU = ((i' * xlU + x') * zU + zU) * g.u := by ring
      rw [← this]; exact hhi
    have hk' := Nat.le_of_mul_le_mul_right hk hu
    have hk2' := Nat.lt_of_mul_lt_mul_right hk2
    have e1 : i * xlU + x = i' * xlU + x' := mixed_unique zU _ z _ hz hk' hk2'
    have e2 : i = i' := mixed_unique xlU i x i' hx (by omega) (by omega)
    subst e2
    have e3 : x = x' := by omega
    subst e3
    rfl

/-- chunk range (default layout): voxel (a,x,z) of the decoded array is file voxel
`(4·(minIl/4) + a, 4·(minXl/4) + x, 4·(minZ/4) + z)`.  Sizes `ilU,xlU,zU` as computed by the code. -/
theorem chunkRange_src (g : Geo) (hg : g.Valid) (h0 : g.b0 = 4) (h1 : g.b1 = 4)
    (maxIl maxXl maxZ minIl minXl minZ a x z : Nat)
    (ha : a / 4 < (maxIl + 3) / 4 - minIl / 4) (hx : x / 4 < (maxXl + 3) / 4 - minXl / 4)
    (hz : z / 4 < (maxZ + 3) / 4 - minZ / 4) :
    (Loader.chunkRange g maxIl maxXl maxZ minIl minXl minZ).src a x z
      = Spec.code3 g (4 * (minIl / 4) + a) (4 * (minXl / 4) + x) (4 * (minZ / 4) + z) := by
  have hu := u_pos hg
  simp only [Loader.chunkRange, decomp3, Spec.code3]
  have h1' : ∀ n : Nat, n * 4 / 4 = n := fun n => Nat.mul_div_cancel n (by omega)
  rw [h1', h1']
  have hsrc := chunkRange_bufSrc g hu minIl minXl minZ ((maxIl + 3) / 4 - minIl / 4) ((maxXl + 3) / 4 - minXl / 4)
    ((maxZ + 3) / 4 - minZ / 4) (a / 4) (x / 4) (z / 4) ha hx hz
  have hunit := unitAt_of_bufSrc g.u _ _ _
    (Spec.unit g (4 * (minIl / 4) + a) (4 * (minXl / 4) + x) (4 * (minZ / 4) + z)) hsrc
    (by
      rw [Spec.unit_default g hg h0 h1]
      have e1 : (4 * (minIl / 4) + a) / 4 = minIl / 4 + a / 4 := by omega
      have e2 : (4 * (minXl / 4) + x) / 4 = minXl / 4 + x / 4 := by omega
      have e3 : (4 * (minZ / 4) + z) / 4 = minZ / 4 + z / 4 := by omega
      rw [e1, e2, e3]) hu
  rw [hunit]
  have : Spec.pos (4 * (minIl / 4) + a) (4 * (minXl / 4) + x) (4 * (minZ / 4) + z) = Spec.pos a x z := by
    unfold Spec.pos
    have e1 : (4 * (minIl / 4) + a) % 4 = a % 4 := by omega
    have e2 : (4 * (minXl / 4) + x) % 4 = x % 4 := by omega
    have e3 : (4 * (minZ / 4) + z) % 4 = z % 4 := by omega
    rw [e1, e2, e3]
  rw [this]

end Sgz

namespace Sgz
open Geo

theorem pos_mod_blocks (g : Geo) (hg : g.Valid) (a x z I X Z : Nat)
    (hI : I % 4 = a % 4) (hX : X % 4 = x % 4) (hZ : Z % 4 = z % 4) :
    Spec.pos (a % g.b0) (x % g.b1) (z % g.b2) = Spec.pos I X Z := by
  unfold Spec.pos
  rw [mod4_of_mod a g.b0 (dvd0 hg), mod4_of_mod x g.b1 (dvd1 hg), mod4_of_mod z g.b2 (dvd2 hg), hI, hX, hZ]

theorem add_mul_mod4 (b m a : Nat) (hb : 4 ∣ b) : (b * m + a) % 4 = a % 4 := by
  obtain ⟨c, rfl⟩ := hb
  have : 4 * c * m + a = a + 4 * (c * m) := by ring
  rw [this, Nat.add_mul_mod_self_left]

/-- general loader: voxel (a,x,z) of the brick-assembled array is file voxel
`(b0·(minIl/b0) + a, b1·(minXl/b1) + x, b2·(minZ/b2) + z)` — any valid geometry -/
theorem unshuffle_src (g : Geo) (hg : g.Valid) (maxIl maxXl maxZ minIl minXl minZ a x z : Nat) :
    (Loader.unshuffle g maxIl maxXl maxZ minIl minXl minZ).src a x z
      = Spec.code3 g (g.b0 * (minIl / g.b0) + a) (g.b1 * (minXl / g.b1) + x) (g.b2 * (minZ / g.b2) + z) := by
  have hu := u_pos hg
  have hb0 := b0_pos hg
  have hb1 := b1_pos hg
  have hb2 := b2_pos hg
  have hc := cpb_u hg
  simp only [Loader.unshuffle, Spec.code3]
  have eI : (g.b0 * (minIl / g.b0) + a) / g.b0 = minIl / g.b0 + a / g.b0 := by
    rw [Nat.mul_add_div hb0]
  have eX : (g.b1 * (minXl / g.b1) + x) / g.b1 = minXl / g.b1 + x / g.b1 := by
    rw [Nat.mul_add_div hb1]
  have eZ : (g.b2 * (minZ / g.b2) + z) / g.b2 = minZ / g.b2 + z / g.b2 := by
    rw [Nat.mul_add_div hb2]
  have mI : (g.b0 * (minIl / g.b0) + a) % g.b0 = a % g.b0 := by rw [Nat.mul_add_mod]
  have mX : (g.b1 * (minXl / g.b1) + x) % g.b1 = x % g.b1 := by rw [Nat.mul_add_mod]
  have mZ : (g.b2 * (minZ / g.b2) + z) % g.b2 = z % g.b2 := by rw [Nat.mul_add_mod]
  have hbyte : 4096 * (g.NB2 * (g.NB1 * (minIl / g.b0 + a / g.b0) + (minXl / g.b1 + x / g.b1)) + (minZ / g.b2 + z / g.b2))
      + ((a % g.b0 / 4 * (g.b1 / 4) + x % g.b1 / 4) * (g.b2 / 4) + z % g.b2 / 4) * g.u
      = Spec.unit g (g.b0 * (minIl / g.b0) + a) (g.b1 * (minXl / g.b1) + x) (g.b2 * (minZ / g.b2) + z) * g.u := by
    simp only [Spec.unit, eI, eX, eZ, mI, mX, mZ]
    rw [← hc]; ring
  rw [hbyte, Nat.mul_mod_left, if_pos rfl, Nat.mul_div_cancel _ hu]
  rw [pos_mod_blocks g hg a x z _ _ _ (add_mul_mod4 _ _ _ (dvd0 hg)) (add_mul_mod4 _ _ _ (dvd1 hg))
    (add_mul_mod4 _ _ _ (dvd2 hg))]

end Sgz
