import Sgz.Proofs.Layout
/-!
# Proofs/Loaders — every loader decodes voxel (a,x,z) of its array from the unit the specification assigns to
the corresponding file voxel.  One theorem per loader of `Model/Loader.lean`, for all valid geometries.
-/
namespace Sgz
open Geo

/-- inline set (default layout): voxel (a,x,z) of the decoded `(4, P1, P2)` array is file voxel `(4m+a, x, z)` -/
theorem ilSet_src (g : Geo) (hg : g.Valid) (h0 : g.b0 = 4) (h1 : g.b1 = 4) (m a x z : Nat)
    (ha : a < 4) (hx : x < g.P1) (hz : z < g.P2) :
    (Loader.ilSet g (4 * m)).src a x z = Spec.code3 g (4 * m + a) x z := by
  have hu := u_pos hg
  have hX : x / 4 < g.P1 / 4 := div_lt_of_lt_pad x g.n1 g.b1 (dvd1 hg) (b1_pos hg) hx
  have hZ : z / 4 < g.P2 / 4 := div_lt_of_lt_pad z g.n2 g.b2 (dvd2 hg) (b2_pos hg) hz
  have hchunk := chunk_default hg h0 h1
  -- length of the single copy: (chunk · P1)/4 = (P1/4)·(P2/4)·u
  have hlen : g.chunk * g.P1 / 4 = (g.P1 / 4) * ((g.P2 / 4) * g.u) := by
    obtain ⟨k, hk⟩ := P1_dvd4 hg
    rw [hk, Nat.mul_div_cancel_left k (by omega), hchunk]
    have : g.P2 / 4 * g.u * (4 * k) = 4 * (k * (g.P2 / 4 * g.u)) := by ring
    rw [this, Nat.mul_div_cancel_left _ (by omega)]
  have ha4 : a / 4 = 0 := by omega
  have h4m : 4 * m / 4 = m := Nat.mul_div_cancel_left m (by omega)
  simp only [Loader.ilSet, decomp3, Loader.ilSetCopies, Spec.code3, ha4, Nat.zero_mul, Nat.zero_add, h4m, hlen]
  have hk : (x / 4 * (g.P2 / 4) + z / 4) * g.u < g.P1 / 4 * (g.P2 / 4 * g.u) := by
    have := lt_of_mixed (x / 4) (z / 4) (g.P1 / 4) (g.P2 / 4) hX hZ
    calc (x / 4 * (g.P2 / 4) + z / 4) * g.u < (g.P1 / 4 * (g.P2 / 4)) * g.u := Nat.mul_lt_mul_of_pos_right this hu
      _ = g.P1 / 4 * (g.P2 / 4 * g.u) := by ring
  have hsrc := bufSrc_single (g.P1 / 4 * (g.P2 / 4 * g.u) * m) (g.P1 / 4 * (g.P2 / 4 * g.u)) _ hk
  have hunit : unitAt g.u [(⟨0, g.P1 / 4 * (g.P2 / 4 * g.u) * m, g.P1 / 4 * (g.P2 / 4 * g.u)⟩ : Copy)]
      ((x / 4 * (g.P2 / 4) + z / 4) * g.u) = some (Spec.unit g (4 * m + a) x z) := by
    apply unitAt_of_bufSrc g.u _ _ _ _ hsrc _ hu
    rw [Spec.unit_default g hg h0 h1]
    have : (4 * m + a) / 4 = m := by omega
    rw [this]; ring
  rw [hunit, Spec.pos_add_mul4]

end Sgz

namespace Sgz
open Geo

/-- crossline set (default layout): voxel (a,b,z) of the decoded `(P0, 4, P2)` array is file voxel `(a, 4m+b, z)` -/
theorem xlSet_src (g : Geo) (hg : g.Valid) (h0 : g.b0 = 4) (h1 : g.b1 = 4) (m a b z : Nat)
    (ha : a < g.P0) (hb : b < 4) (hz : z < g.P2) :
    (Loader.xlSet g (4 * m)).src a b z = Spec.code3 g a (4 * m + b) z := by
  have hu := u_pos hg
  have hA : a / 4 < g.P0 / 4 := div_lt_of_lt_pad a g.n0 g.b0 (dvd0 hg) (b0_pos hg) ha
  have hZ : z / 4 < g.P2 / 4 := div_lt_of_lt_pad z g.n2 g.b2 (dvd2 hg) (b2_pos hg) hz
  have hchunk := chunk_default hg h0 h1
  have hlen : g.chunk * g.P1 / 4 = (g.P1 / 4) * ((g.P2 / 4) * g.u) := by
    obtain ⟨k, hk⟩ := P1_dvd4 hg
    rw [hk, Nat.mul_div_cancel_left k (by omega), hchunk]
    have : g.P2 / 4 * g.u * (4 * k) = 4 * (k * (g.P2 / 4 * g.u)) := by ring
    rw [this, Nat.mul_div_cancel_left _ (by omega)]
  have hb4 : b / 4 = 0 := by omega
  have h4m : 4 * m / 4 = m := Nat.mul_div_cancel_left m (by omega)
  have hr : z / 4 * g.u < g.chunk := by
    rw [hchunk]; exact Nat.mul_lt_mul_of_pos_right hZ hu
  have hbyte : ((a / 4 * (4 / 4) + b / 4) * (g.P2 / 4) + z / 4) * g.u = (a / 4) * g.chunk + z / 4 * g.u := by
    rw [hb4, hchunk]; ring
  have hsrc := bufSrc_strided (g.P0 / 4) g.chunk (fun c => 4 * m / 4 * g.chunk + c * (g.chunk * g.P1 / 4))
    (a / 4) (z / 4 * g.u) hA hr
  simp only [Loader.xlSet, decomp3, Loader.xlSetCopies, Spec.code3, hbyte]
  have hunit : unitAt g.u ((List.range (g.P0 / 4)).map fun c =>
      ({ bufStart := c * g.chunk, fileOff := 4 * m / 4 * g.chunk + c * (g.chunk * g.P1 / 4), len := g.chunk } : Copy))
      ((a / 4) * g.chunk + z / 4 * g.u) = some (Spec.unit g a (4 * m + b) z) := by
    apply unitAt_of_bufSrc g.u _ _ _ _ hsrc _ hu
    rw [Spec.unit_default g hg h0 h1, h4m, hlen, hchunk]
    have : (4 * m + b) / 4 = m := by omega
    rw [this]; ring
  rw [hunit]
  have : Spec.pos a (4 * m + b) z = Spec.pos a b z := by unfold Spec.pos; congr 2; omega
  rw [this]

/-- z-slice set (default layout): voxel (a,x,z) (z < 4) of the decoded `(P0, P1, 4)` array comes from the unit of file
voxel `(a, x, zid)` -/
theorem zsliceSet_src (g : Geo) (hg : g.Valid) (h0 : g.b0 = 4) (h1 : g.b1 = 4) (zid a x z : Nat)
    (ha : a < g.P0) (hx : x < g.P1) (hz : z < 4) :
    (Loader.zsliceSet g zid).src a x z = code 64 (some (Spec.unit g a x zid)) (Spec.pos a x z) := by
  have hu := u_pos hg
  have hA : a / 4 < g.P0 / 4 := div_lt_of_lt_pad a g.n0 g.b0 (dvd0 hg) (b0_pos hg) ha
  have hX : x / 4 < g.P1 / 4 := div_lt_of_lt_pad x g.n1 g.b1 (dvd1 hg) (b1_pos hg) hx
  have hchunk := chunk_default hg h0 h1
  have hNB0 : g.NB0 = g.P0 / 4 := by simp [Geo.NB0, h0]
  have hNB1 : g.NB1 = g.P1 / 4 := by simp [Geo.NB1, h1]
  have hz4 : z / 4 = 0 := by omega
  have hn : a / 4 * (g.P1 / 4) + x / 4 < g.NB0 * g.NB1 := by
    rw [hNB0, hNB1]; exact lt_of_mixed _ _ _ _ hA hX
  have hbyte : ((a / 4 * (g.P1 / 4) + x / 4) * (4 / 4) + z / 4) * g.u = (a / 4 * (g.P1 / 4) + x / 4) * g.u + 0 := by
    rw [hz4]; ring
  have hsrc := bufSrc_strided (g.NB0 * g.NB1) g.u
    (fun n => zid / g.b2 * 4096 + zid % g.b2 / 4 * g.u + n * g.chunk) (a / 4 * (g.P1 / 4) + x / 4) 0 hn hu
  simp only [Loader.zsliceSet, decomp3, Loader.zsliceSetCopies, hbyte]
  have hunit : unitAt g.u ((List.range (g.NB0 * g.NB1)).map fun n =>
      ({ bufStart := n * g.u, fileOff := zid / g.b2 * 4096 + zid % g.b2 / 4 * g.u + n * g.chunk, len := g.u } : Copy))
      ((a / 4 * (g.P1 / 4) + x / 4) * g.u + 0) = some (Spec.unit g a x zid) := by
    apply unitAt_of_bufSrc g.u _ _ _ _ hsrc _ hu
    rw [Spec.unit_default g hg h0 h1, hchunk, div4_split zid g.b2 (dvd2 hg) (b2_pos hg),
      ← block_bytes_default hg h0 h1]
    ring
  rw [hunit]

end Sgz

namespace Sgz
open Geo

/-- `read_chunk_range` buffer: cell `(i,x,z)` of the `ilU × xlU × zU` cell grid is filled from the file position of cell
`(minIl/4 + i, minXl/4 + x, minZ/4 + z)` in raster order over the padded cell grid (any geometry, any sizes) -/
theorem chunkRange_bufSrc (g : Geo) (hu : 0 < g.u) (minIl minXl minZ ilU xlU zU i x z : Nat)
    (hi : i < ilU) (hx : x < xlU) (hz : z < zU) :
    bufSrc (Loader.chunkRangeCopies g minIl minXl minZ ilU xlU zU) (((i * xlU + x) * zU + z) * g.u)
      = some (((((minIl / 4 + i) * (g.P1 / 4) + (minXl / 4 + x)) * (g.P2 / 4)) + (minZ / 4 + z)) * g.u) := by
  let c : Copy :=
    ⟨(i * xlU * zU + x * zU) * g.u,
     g.u * (((minIl / 4) + i) * (g.P1 / 4) * (g.P2 / 4) + ((minXl / 4) + x) * (g.P2 / 4) + (minZ / 4)),
     g.u * zU⟩
  have hb : ((i * xlU + x) * zU + z) * g.u = c.bufStart + z * g.u := by
    show _ = (i * xlU * zU + x * zU) * g.u + z * g.u
    ring
  have hmem : c ∈ Loader.chunkRangeCopies g minIl minXl minZ ilU xlU zU := by
    unfold Loader.chunkRangeCopies
    simp only [List.mem_flatMap, List.mem_range, List.mem_map]
    exact ⟨i, hi, x, hx, rfl⟩
  have hzu : z * g.u < zU * g.u := Nat.mul_lt_mul_of_pos_right hz hu
  have hcov : c.covers (((i * xlU + x) * zU + z) * g.u) = true := by
    rw [hb, covers_iff]
    refine ⟨Nat.le_add_right _ _, ?_⟩
    show (i * xlU * zU + x * zU) * g.u + z * g.u < (i * xlU * zU + x * zU) * g.u + g.u * zU
    rw [Nat.mul_comm g.u zU]; omega
  rw [bufSrc_of_unique _ _ c hmem hcov]
  · rw [hb]
    show some (g.u * (((minIl / 4) + i) * (g.P1 / 4) * (g.P2 / 4) + ((minXl / 4) + x) * (g.P2 / 4) + (minZ / 4))
      + ((i * xlU * zU + x * zU) * g.u + z * g.u - (i * xlU * zU + x * zU) * g.u)) = _
    rw [Nat.add_sub_cancel_left]
    congr 1; ring
  · intro c' hc' hcov'
    unfold Loader.chunkRangeCopies at hc'
    simp only [List.mem_flatMap, List.mem_range, List.mem_map] at hc'
    obtain ⟨i', _, x', hx', rfl⟩ := hc'
    rw [covers_iff] at hcov'
    obtain ⟨hlo, hhi⟩ := hcov'
    simp only at hlo hhi
    have hk : (i' * xlU + x') * zU * g.u ≤ ((i * xlU + x) * zU + z) * g.u := by
      have : (i' * xlU * zU + x' * zU) * g.u = (i' * xlU + x') * zU * g.u := by ring
      rw [← this]; exact hlo
    have hk2 : ((i * xlU + x) * zU + z) * g.u < ((i' * xlU + x') * zU + zU) * g.u := by
      have : (i' * xlU * zU + x' * zU) * g.u + g.u * zU = ((i' * xlU + x') * zU + zU) * g.u := by ring
      rw [← this]; exact hhi
    have hk' := Nat.le_of_mul_le_mul_right hk hu
    have hk2' := Nat.lt_of_mul_lt_mul_right hk2
    have e1 : i * xlU + x = i' * xlU + x' := mixed_unique zU _ z _ hz hk' hk2'
    have e2 : i = i' := mixed_unique xlU i x i' hx (by omega) (by omega)
    subst e2
    have e3 : x = x' := by omega
    subst e3
    rfl

/-- chunk range (default layout): voxel (a,x,z) of the decoded array is file voxel
`(4·(minIl/4) + a, 4·(minXl/4) + x, 4·(minZ/4) + z)`.  Sizes `ilU,xlU,zU` as computed by the code. -/
theorem chunkRange_src (g : Geo) (hg : g.Valid) (h0 : g.b0 = 4) (h1 : g.b1 = 4)
    (maxIl maxXl maxZ minIl minXl minZ a x z : Nat)
    (ha : a / 4 < (maxIl + 3) / 4 - minIl / 4) (hx : x / 4 < (maxXl + 3) / 4 - minXl / 4)
    (hz : z / 4 < (maxZ + 3) / 4 - minZ / 4) :
    (Loader.chunkRange g maxIl maxXl maxZ minIl minXl minZ).src a x z
      = Spec.code3 g (4 * (minIl / 4) + a) (4 * (minXl / 4) + x) (4 * (minZ / 4) + z) := by
  have hu := u_pos hg
  simp only [Loader.chunkRange, decomp3, Spec.code3]
  have h1' : ∀ n : Nat, n * 4 / 4 = n := fun n => Nat.mul_div_cancel n (by omega)
  rw [h1', h1']
  have hsrc := chunkRange_bufSrc g hu minIl minXl minZ ((maxIl + 3) / 4 - minIl / 4) ((maxXl + 3) / 4 - minXl / 4)
    ((maxZ + 3) / 4 - minZ / 4) (a / 4) (x / 4) (z / 4) ha hx hz
  have hunit := unitAt_of_bufSrc g.u _ _ _
    (Spec.unit g (4 * (minIl / 4) + a) (4 * (minXl / 4) + x) (4 * (minZ / 4) + z)) hsrc
    (by
      rw [Spec.unit_default g hg h0 h1]
      have e1 : (4 * (minIl / 4) + a) / 4 = minIl / 4 + a / 4 := by omega
      have e2 : (4 * (minXl / 4) + x) / 4 = minXl / 4 + x / 4 := by omega
      have e3 : (4 * (minZ / 4) + z) / 4 = minZ / 4 + z / 4 := by omega
      rw [e1, e2, e3]) hu
  rw [hunit]
  have : Spec.pos (4 * (minIl / 4) + a) (4 * (minXl / 4) + x) (4 * (minZ / 4) + z) = Spec.pos a x z := by
    unfold Spec.pos
    have e1 : (4 * (minIl / 4) + a) % 4 = a % 4 := by omega
    have e2 : (4 * (minXl / 4) + x) % 4 = x % 4 := by omega
    have e3 : (4 * (minZ / 4) + z) % 4 = z % 4 := by omega
    rw [e1, e2, e3]
  rw [this]

end Sgz

namespace Sgz
open Geo

theorem pos_mod_blocks (g : Geo) (hg : g.Valid) (a x z I X Z : Nat)
    (hI : I % 4 = a % 4) (hX : X % 4 = x % 4) (hZ : Z % 4 = z % 4) :
    Spec.pos (a % g.b0) (x % g.b1) (z % g.b2) = Spec.pos I X Z := by
  unfold Spec.pos
  rw [mod4_of_mod a g.b0 (dvd0 hg), mod4_of_mod x g.b1 (dvd1 hg), mod4_of_mod z g.b2 (dvd2 hg), hI, hX, hZ]

theorem add_mul_mod4 (b m a : Nat) (hb : 4 ∣ b) : (b * m + a) % 4 = a % 4 := by
  obtain ⟨c, rfl⟩ := hb
  have : 4 * c * m + a = a + 4 * (c * m) := by ring
  rw [this, Nat.add_mul_mod_self_left]

/-- general loader: voxel (a,x,z) of the brick-assembled array is file voxel
`(b0·(minIl/b0) + a, b1·(minXl/b1) + x, b2·(minZ/b2) + z)` — any valid geometry -/
theorem unshuffle_src (g : Geo) (hg : g.Valid) (maxIl maxXl maxZ minIl minXl minZ a x z : Nat) :
    (Loader.unshuffle g maxIl maxXl maxZ minIl minXl minZ).src a x z
      = Spec.code3 g (g.b0 * (minIl / g.b0) + a) (g.b1 * (minXl / g.b1) + x) (g.b2 * (minZ / g.b2) + z) := by
  have hu := u_pos hg
  have hb0 := b0_pos hg
  have hb1 := b1_pos hg
  have hb2 := b2_pos hg
  have hc := cpb_u hg
  simp only [Loader.unshuffle, Spec.code3]
  have eI : (g.b0 * (minIl / g.b0) + a) / g.b0 = minIl / g.b0 + a / g.b0 := by
    rw [Nat.mul_add_div hb0]
  have eX : (g.b1 * (minXl / g.b1) + x) / g.b1 = minXl / g.b1 + x / g.b1 := by
    rw [Nat.mul_add_div hb1]
  have eZ : (g.b2 * (minZ / g.b2) + z) / g.b2 = minZ / g.b2 + z / g.b2 := by
    rw [Nat.mul_add_div hb2]
  have mI : (g.b0 * (minIl / g.b0) + a) % g.b0 = a % g.b0 := by rw [Nat.mul_add_mod]
  have mX : (g.b1 * (minXl / g.b1) + x) % g.b1 = x % g.b1 := by rw [Nat.mul_add_mod]
  have mZ : (g.b2 * (minZ / g.b2) + z) % g.b2 = z % g.b2 := by rw [Nat.mul_add_mod]
  have hbyte : 4096 * (g.NB2 * (g.NB1 * (minIl / g.b0 + a / g.b0) + (minXl / g.b1 + x / g.b1)) + (minZ / g.b2 + z / g.b2))
      + ((a % g.b0 / 4 * (g.b1 / 4) + x % g.b1 / 4) * (g.b2 / 4) + z % g.b2 / 4) * g.u
      = Spec.unit g (g.b0 * (minIl / g.b0) + a) (g.b1 * (minXl / g.b1) + x) (g.b2 * (minZ / g.b2) + z) * g.u := by
    simp only [Spec.unit, eI, eX, eZ, mI, mX, mZ]
    rw [← hc]; ring
  rw [hbyte, Nat.mul_mod_left, if_pos rfl, Nat.mul_div_cancel _ hu]
  rw [pos_mod_blocks g hg a x z _ _ _ (add_mul_mod4 _ _ _ (dvd0 hg)) (add_mul_mod4 _ _ _ (dvd1 hg))
    (add_mul_mod4 _ _ _ (dvd2 hg))]

end Sgz

namespace Sgz
open Geo

/-- `N x N x 4` layouts: buffer of `read_and_decompress_zslice_set_adv`.  In units: cell `(ci, cx)` of the
`(P0/4) x (P1/4)` cell grid is filled from row `ci % A`, column `cx % B` of the block `(ci / A, cx / B)` at z-block `zb`
(`A = b0/4`, `B = b1/4`). -/
theorem zsliceAdv_bufSrc (g : Geo) (hg : g.Valid) (hb2 : g.b2 = 4) (zb ci cx : Nat)
    (hci : ci < g.NB0 * (g.b0 / 4)) (hcx : cx < g.NB1 * (g.b1 / 4)) :
    bufSrc (Loader.zsliceAdvCopies g zb) ((ci * (g.P1 / 4) + cx) * g.u)
      = some (zb * 4096 + ((ci / (g.b0 / 4)) * g.NB1 + cx / (g.b1 / 4)) * (4096 * g.NB2)
              + (ci % (g.b0 / 4)) * ((g.b1 / 4) * g.u) + (cx % (g.b1 / 4)) * g.u) := by
  have hu := u_pos hg
  have hX := P1_div4 hg
  have hA : 0 < g.b0 / 4 := by
    obtain ⟨c, hc⟩ := dvd0 hg; have := b0_pos hg; rw [hc] at this ⊢
    rw [Nat.mul_div_cancel_left c (by omega)]; omega
  have hB : 0 < g.b1 / 4 := by
    obtain ⟨c, hc⟩ := dvd1 hg; have := b1_pos hg; rw [hc] at this ⊢
    rw [Nat.mul_div_cancel_left c (by omega)]; omega
  have h4096 : (g.b0 / 4) * (g.b1 / 4) * g.u = 4096 := by
    have := cpb_u hg; simp only [cpb, hb2] at this; simpa using this
  generalize hAd : g.b0 / 4 = A at *
  generalize hBd : g.b1 / 4 = B at *
  generalize hXd : g.P1 / 4 = X at *
  -- digits
  have hbi : ci / A < g.NB0 := by
    rw [Nat.div_lt_iff_lt_mul hA]; exact hci
  have hbx : cx / B < g.NB1 := by
    rw [Nat.div_lt_iff_lt_mul hB]; exact hcx
  have hr : ci % A < A := Nat.mod_lt _ hA
  have hj : cx % B < B := Nat.mod_lt _ hB
  have hci' : ci / A * A + ci % A = ci := div_add_mod' ci A
  have hcx' : cx / B * B + cx % B = cx := div_add_mod' cx B
  have hid : ci / A * g.NB1 + cx / B < g.NB0 * g.NB1 := lt_of_mixed _ _ _ _ hbi hbx
  have hidd : (ci / A * g.NB1 + cx / B) / g.NB1 = ci / A := div_mixed _ _ _ hbx
  have hidm : (ci / A * g.NB1 + cx / B) % g.NB1 = cx / B := mod_mixed _ _ _ hbx
  -- the covering copy, literally as produced by the loops
  let id := ci / A * g.NB1 + cx / B
  let c : Copy :=
    ⟨(id / g.NB1) * 4096 * g.NB1 + (id % g.NB1) * (B * g.u) + (ci % A) * (X * g.u),
     (Loader.zsliceAdvFetch g zb id).1 + (ci % A) * (B * g.u), B * g.u⟩
  have hmem : c ∈ Loader.zsliceAdvCopies g zb := by
    unfold Loader.zsliceAdvCopies
    simp only [List.mem_flatMap, List.mem_range, List.mem_map, hAd, hBd, hXd]
    exact ⟨id, hid, ci % A, hr, rfl⟩
  -- bufStart of a copy in cell units
  have hstart : ∀ (bi' bx' r' : Nat), bi' * 4096 * g.NB1 + bx' * (B * g.u) + r' * (X * g.u)
      = ((bi' * A + r') * X + bx' * B) * g.u := by
    intro bi' bx' r'; rw [← h4096, hX]; ring
  have hbyte : (ci * X + cx) * g.u = c.bufStart + (cx % B) * g.u := by
    show _ = (id / g.NB1) * 4096 * g.NB1 + (id % g.NB1) * (B * g.u) + (ci % A) * (X * g.u) + (cx % B) * g.u
    rw [hidd, hidm, hstart]
    conv_lhs => rw [← hci', ← hcx']
    ring
  have hcov : c.covers ((ci * X + cx) * g.u) = true := by
    rw [hbyte, covers_iff]
    refine ⟨Nat.le_add_right _ _, ?_⟩
    show c.bufStart + cx % B * g.u < c.bufStart + B * g.u
    have := Nat.mul_lt_mul_of_pos_right hj hu
    omega
  rw [bufSrc_of_unique _ _ c hmem hcov]
  · rw [hbyte, Nat.add_sub_cancel_left]
    show some ((Loader.zsliceAdvFetch g zb id).1 + (ci % A) * (B * g.u) + cx % B * g.u) = _
    simp only [Loader.zsliceAdvFetch]
    rw [div_add_mod' id g.NB1]
  · intro c' hc' hcov'
    unfold Loader.zsliceAdvCopies at hc'
    simp only [List.mem_flatMap, List.mem_range, List.mem_map, hAd, hBd, hXd] at hc'
    obtain ⟨id', hid', r', hr', rfl⟩ := hc'
    rw [covers_iff] at hcov'
    obtain ⟨hlo, hhi⟩ := hcov'
    simp only at hlo hhi
    have hNB1 : 0 < g.NB1 := by
      rcases Nat.eq_zero_or_pos g.NB1 with h | h
      · rw [h] at hid'; simp at hid'
      · exact h
    have hbx' : id' % g.NB1 < g.NB1 := Nat.mod_lt _ hNB1
    rw [hstart] at hlo hhi
    have hhi' : (ci * X + cx) * g.u < ((id' / g.NB1 * A + r') * X + id' % g.NB1 * B + B) * g.u := by
      have : ((id' / g.NB1 * A + r') * X + id' % g.NB1 * B) * g.u + B * g.u
          = ((id' / g.NB1 * A + r') * X + id' % g.NB1 * B + B) * g.u := by ring
      rw [← this]; exact hhi
    have hlo' := Nat.le_of_mul_le_mul_right hlo hu
    have hhi'' := Nat.lt_of_mul_lt_mul_right hhi'
    -- the row of cells
    have hBX : id' % g.NB1 * B + B ≤ X := by
      have : (id' % g.NB1 + 1) * B ≤ g.NB1 * B := Nat.mul_le_mul_right B hbx'
      rw [hX]; rw [Nat.add_mul, Nat.one_mul] at this; exact this
    have hcxX : cx < X := by rw [hX]; exact hcx
    have e1 : ci = id' / g.NB1 * A + r' := mixed_unique X ci cx _ hcxX (by omega) (by omega)
    rw [← e1] at hlo' hhi''
    -- the column of cells
    have e2 : cx / B = id' % g.NB1 := by
      apply mixed_unique B (cx / B) (cx % B) _ hj
      · rw [hcx']; omega
      · rw [hcx']; omega
    -- block row and row inside the block
    have e3 : id' / g.NB1 = ci / A := by
      rw [e1, div_mixed _ _ _ hr']
    have e4 : r' = ci % A := by
      rw [e1, mod_mixed _ _ _ hr']
    have e5 : id' = id := by
      show id' = ci / A * g.NB1 + cx / B
      rw [← e3, e2]; exact (div_add_mod' id' g.NB1).symm
    subst e5
    subst e4
    rfl

end Sgz

namespace Sgz
open Geo

/-- z-slice set for `N x N x 4` layouts: voxel (a,x,z) (z < 4) of the decoded `(P0, P1, 4)` array comes from the unit of
file voxel `(a, x, 4·zb + z')` for any `z' < 4` -/
theorem zsliceAdv_src (g : Geo) (hg : g.Valid) (hb2 : g.b2 = 4) (zb a x z z' : Nat)
    (ha : a < g.P0) (hx : x < g.P1) (hz : z < 4) (hz' : z' < 4) :
    (Loader.zsliceAdv g zb).src a x z = code 64 (some (Spec.unit g a x (4 * zb + z'))) (Spec.pos a x z) := by
  have hu := u_pos hg
  have hci : a / 4 < g.NB0 * (g.b0 / 4) := by
    rw [← P0_div4 hg]; exact div_lt_of_lt_pad a g.n0 g.b0 (dvd0 hg) (b0_pos hg) ha
  have hcx : x / 4 < g.NB1 * (g.b1 / 4) := by
    rw [← P1_div4 hg]; exact div_lt_of_lt_pad x g.n1 g.b1 (dvd1 hg) (b1_pos hg) hx
  have hsrc := zsliceAdv_bufSrc g hg hb2 zb (a / 4) (x / 4) hci hcx
  have hz4 : z / 4 = 0 := by omega
  simp only [Loader.zsliceAdv, decomp3]
  have hbyte : ((a / 4 * (g.P1 / 4) + x / 4) * (4 / 4) + z / 4) * g.u = (a / 4 * (g.P1 / 4) + x / 4) * g.u := by
    rw [hz4]; ring
  rw [hbyte]
  have h4096 : (g.b0 / 4) * (g.b1 / 4) * g.u = 4096 := by
    have := cpb_u hg; simp only [cpb, hb2] at this; simpa using this
  have hunit := unitAt_of_bufSrc g.u _ _ _ (Spec.unit g a x (4 * zb + z')) hsrc (by
    rw [div4_div a g.b0 (dvd0 hg) (b0_pos hg), div4_div x g.b1 (dvd1 hg) (b1_pos hg),
      div4_mod a g.b0 (dvd0 hg) (b0_pos hg), div4_mod x g.b1 (dvd1 hg) (b1_pos hg)]
    have e1 : (4 * zb + z') / 4 = zb := by omega
    have e2 : (4 * zb + z') % 4 / 4 = 0 := by omega
    simp only [Spec.unit, cpb, hb2, e1, e2]
    rw [← h4096]; ring) hu
  rw [hunit]

end Sgz
