import Sgz.Model.Coords
import Sgz.Proofs.Reader
/-!
# Proofs/Coords — line-number lookups on a regular axis
-/
namespace Sgz
namespace Coords

theorem axis_getElem (a d : Int) (n k : Nat) (hk : k < n) :
    (Axes.axis a d n)[k]'(by simp [Axes.axis, hk]) = a + d * (k : Int) := by
  simp [Axes.axis]

theorem axis_injective (a d : Int) (hd : d ≠ 0) (j k : Nat) (h : a + d * (j : Int) = a + d * (k : Int)) : j = k := by
  have h1 : d * (j : Int) = d * (k : Int) := by omega
  have := Int.eq_of_mul_eq_mul_left hd h1
  exact_mod_cast this

/-- a line number of the axis resolves to its ordinal (the increment may be negative; only `d ≠ 0` is needed) -/
theorem coordToIndex_axis (a d : Int) (hd : d ≠ 0) (n k : Nat) (hk : k < n) (stop : Bool) :
    coordToIndex (Axes.axis a d n) (a + d * (k : Int)) stop = .ok k := by
  unfold coordToIndex
  have hlen : (Axes.axis a d n).length = n := by simp [Axes.axis]
  have : (Axes.axis a d n).findIdx? (· == a + d * (k : Int)) = some k := by
    rw [List.findIdx?_eq_some_iff_getElem]
    refine ⟨by rw [hlen]; exact hk, ?_, ?_⟩
    · simp [axis_getElem a d n k hk]
    · intro j hj
      have hjn : j < n := by omega
      simp only [axis_getElem a d n j hjn, beq_iff_eq]
      intro h
      have := axis_injective a d hd j k h
      omega
  rw [this]

/-- a number that is not on the axis is refused with IndexError -/
theorem coordToIndex_absent (a d : Int) (n : Nat) (c : Int) (h : ∀ k : Nat, k < n → c ≠ a + d * (k : Int)) :
    coordToIndex (Axes.axis a d n) c false = .error .index := by
  unfold coordToIndex
  have : (Axes.axis a d n).findIdx? (· == c) = none := by
    rw [List.findIdx?_eq_none_iff]
    intro x hx
    simp only [Axes.axis, List.mem_map, List.mem_range] at hx
    obtain ⟨k, hk, rfl⟩ := hx
    exact beq_eq_false_iff_ne.mpr (fun e => h k hk e.symm)
  rw [this]; rfl

end Coords
end Sgz
