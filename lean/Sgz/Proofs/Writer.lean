import Sgz.Model.Writer
import Sgz.Proofs.Layout
import Sgz.Proofs.Loaders2d
/-!
# Proofs/Writer — emission order of the producers is the specification's unit order; edge replication is a clamp
-/
namespace Sgz

/-- a two-level loop over ranges is one loop over the product range, most significant index first -/
theorem flatMap_range_map {β : Type} (n m : Nat) (f : Nat → Nat → β) :
    (List.range n).flatMap (fun a => (List.range m).map (f a)) = (List.range (n * m)).map (fun j => f (j / m) (j % m)) := by
  rcases Nat.eq_zero_or_pos m with hm | hm
  · subst hm; simp
  induction n with
  | zero => simp
  | succ n ih =>
    rw [List.range_succ, List.flatMap_append, ih, Nat.add_mul, Nat.one_mul, List.range_add, List.map_append]
    congr 1
    simp only [List.flatMap_cons, List.flatMap_nil, List.append_nil, List.map_map]
    apply List.map_congr_left
    intro b hb
    have hb' := List.mem_range.mp hb
    simp only [Function.comp]
    rw [Nat.mul_comm n m, Nat.mul_add_div hm, Nat.div_eq_of_lt hb', Nat.mul_add_mod, Nat.mod_eq_of_lt hb', Nat.add_zero]

theorem flatMap_range_map' {β : Type} (n m : Nat) (l : Nat → List β) (f : Nat → Nat → β)
    (h : ∀ a, l a = (List.range m).map (f a)) :
    (List.range n).flatMap l = (List.range (n * m)).map (fun j => f (j / m) (j % m)) := by
  rw [← flatMap_range_map]; congr 1; funext a; exact h a

end Sgz

namespace Sgz
open Geo

/-- the cell that unit `j` of the data section holds, by the specification (inverse of `Spec.unit`): mixed-radix digits
of `j` over (block row, block column, block in z, cell row, cell column, cell in z) -/
def Spec.cellOf (g : Geo) (j : Nat) : Nat × Nat × Nat :=
  let C := g.b0 / 4 * (g.b1 / 4 * (g.b2 / 4))
  let r1 := j % (g.NB1 * (g.NB2 * C))
  let r2 := r1 % (g.NB2 * C)
  let r3 := r2 % C
  let r4 := r3 % (g.b1 / 4 * (g.b2 / 4))
  (j / (g.NB1 * (g.NB2 * C)) * (g.b0 / 4) + r3 / (g.b1 / 4 * (g.b2 / 4)),
   r1 / (g.NB2 * C) * (g.b1 / 4) + r4 / (g.b2 / 4),
   r2 / C * (g.b2 / 4) + r4 % (g.b2 / 4))

def Spec.totalUnits (g : Geo) : Nat := g.NB0 * (g.NB1 * (g.NB2 * (g.b0 / 4 * (g.b1 / 4 * (g.b2 / 4)))))

/-- general (per-block) emission: the order in which cells are coded is the specification's unit order -/
theorem cells_general (g : Geo) (hd : (g.b0 == 4 && g.b1 == 4) = false) :
    Writer.cells g = (List.range (Spec.totalUnits g)).map (Spec.cellOf g) := by
  unfold Writer.cells Writer.setCells Spec.totalUnits
  simp only [hd, Bool.false_eq_true, if_false]
  simp only [flatMap_range_map, List.map_map]
  apply List.map_congr_left
  intro j _
  rfl

end Sgz

namespace Sgz
open Geo

/-- whole-plane-set emission (default layout): same statement -/
theorem cells_default (g : Geo) (hg : g.Valid) (h0 : g.b0 = 4) (h1 : g.b1 = 4) :
    Writer.cells g = (List.range (Spec.totalUnits g)).map (Spec.cellOf g) := by
  have hP2 : g.P2 / 4 = g.NB2 * (g.b2 / 4) := P2_div4 hg
  have hNB1 : g.P1 / 4 = g.NB1 := by simp [Geo.NB1, h1]
  have hB2 : 0 < g.b2 / 4 := by
    have := block_bytes_default hg h0 h1
    rcases Nat.eq_zero_or_pos (g.b2 / 4) with h | h
    · rw [h] at this; simp at this
    · exact h
  unfold Writer.cells Writer.setCells Spec.totalUnits
  simp only [h0, h1, beq_self_eq_true, Bool.and_self, if_true, flatMap_range_map, List.map_map, hP2, hNB1,
    Nat.div_self (by decide : 0 < 4), Nat.one_mul]
  apply List.map_congr_left
  intro j _
  simp only [Function.comp, Spec.cellOf, h0, h1, Nat.div_self (by decide : 0 < 4), Nat.one_mul, Nat.mul_one, Nat.add_zero]
  generalize j % (g.NB1 * (g.NB2 * (g.b2 / 4))) = r1
  generalize r1 % (g.NB2 * (g.b2 / 4)) = r2
  have e2 : r2 % (g.b2 / 4) / (g.b2 / 4) = 0 := Nat.div_eq_of_lt (Nat.mod_lt _ hB2)
  rw [Nat.mod_mod, e2, Nat.add_zero, Nat.add_zero, Nat.mod_mod, div_add_mod' r2 (g.b2 / 4)]

end Sgz

namespace Sgz
open Geo

theorem cellOf_encode (g : Geo) (a b c d e f : Nat) (hb : b < g.NB1) (hc : c < g.NB2)
    (hd : d < g.b0 / 4) (he : e < g.b1 / 4) (hf : f < g.b2 / 4) :
    Spec.cellOf g (a * (g.NB1 * (g.NB2 * (g.b0 / 4 * (g.b1 / 4 * (g.b2 / 4)))))
        + (b * (g.NB2 * (g.b0 / 4 * (g.b1 / 4 * (g.b2 / 4))))
          + (c * (g.b0 / 4 * (g.b1 / 4 * (g.b2 / 4))) + (d * (g.b1 / 4 * (g.b2 / 4)) + (e * (g.b2 / 4) + f)))))
      = (a * (g.b0 / 4) + d, b * (g.b1 / 4) + e, c * (g.b2 / 4) + f) := by
  unfold Spec.cellOf
  generalize g.b0 / 4 = B0 at *
  generalize g.b1 / 4 = B1 at *
  generalize g.b2 / 4 = B2 at *
  generalize g.NB1 = N1 at *
  generalize g.NB2 = N2 at *
  have k4 : e * B2 + f < B1 * B2 := lt_of_mixed _ _ _ _ he hf
  have k3 : d * (B1 * B2) + (e * B2 + f) < B0 * (B1 * B2) := lt_of_mixed _ _ _ _ hd k4
  have k2 : c * (B0 * (B1 * B2)) + (d * (B1 * B2) + (e * B2 + f)) < N2 * (B0 * (B1 * B2)) := lt_of_mixed _ _ _ _ hc k3
  have k1 : b * (N2 * (B0 * (B1 * B2))) + (c * (B0 * (B1 * B2)) + (d * (B1 * B2) + (e * B2 + f)))
      < N1 * (N2 * (B0 * (B1 * B2))) := lt_of_mixed _ _ _ _ hb k2
  simp only [div_mixed _ _ _ k1, mod_mixed _ _ _ k1, div_mixed _ _ _ k2, mod_mixed _ _ _ k2, div_mixed _ _ _ k3,
    mod_mixed _ _ _ k3, div_mixed _ _ _ k4, mod_mixed _ _ _ k4, div_mixed _ _ _ hf, mod_mixed _ _ _ hf]

theorem div_lt_NB (x n b : Nat) (hb : 0 < b) (hx : x < pad n b) : x / b < pad n b / b := by
  rw [Nat.div_lt_iff_lt_mul hb, pad_div_mul n b hb]; exact hx

/-- the unit the specification assigns to a padded voxel holds, by the specification's own inverse, that voxel's cell -/
theorem cellOf_unit (g : Geo) (hg : g.Valid) (i x z : Nat) (hi : i < g.P0) (hx : x < g.P1) (hz : z < g.P2) :
    Spec.cellOf g (Spec.unit g i x z) = (i / 4, x / 4, z / 4) ∧ Spec.unit g i x z < Spec.totalUnits g := by
  have hb0 := b0_pos hg
  have hb1 := b1_pos hg
  have hb2 := b2_pos hg
  have d0 := mod_div4_lt i g.b0 (dvd0 hg) hb0
  have d1 := mod_div4_lt x g.b1 (dvd1 hg) hb1
  have d2 := mod_div4_lt z g.b2 (dvd2 hg) hb2
  have n0 : i / g.b0 < g.NB0 := div_lt_NB i g.n0 g.b0 hb0 hi
  have n1 : x / g.b1 < g.NB1 := div_lt_NB x g.n1 g.b1 hb1 hx
  have n2 : z / g.b2 < g.NB2 := div_lt_NB z g.n2 g.b2 hb2 hz
  have e : Spec.unit g i x z = i / g.b0 * (g.NB1 * (g.NB2 * (g.b0 / 4 * (g.b1 / 4 * (g.b2 / 4)))))
        + (x / g.b1 * (g.NB2 * (g.b0 / 4 * (g.b1 / 4 * (g.b2 / 4))))
          + (z / g.b2 * (g.b0 / 4 * (g.b1 / 4 * (g.b2 / 4)))
            + (i % g.b0 / 4 * (g.b1 / 4 * (g.b2 / 4)) + (x % g.b1 / 4 * (g.b2 / 4) + z % g.b2 / 4)))) := by
    unfold Spec.unit Geo.cpb; ring
  constructor
  · rw [e, cellOf_encode g _ _ _ _ _ _ n1 n2 d0 d1 d2, ← div4_split i g.b0 (dvd0 hg) hb0,
      ← div4_split x g.b1 (dvd1 hg) hb1, ← div4_split z g.b2 (dvd2 hg) hb2]
  · rw [e]
    unfold Spec.totalUnits
    exact lt_of_mixed _ _ _ _ n0 (lt_of_mixed _ _ _ _ n1 (lt_of_mixed _ _ _ _ n2
      (lt_of_mixed _ _ _ _ d0 (lt_of_mixed _ _ _ _ d1 d2))))

end Sgz

namespace Sgz
open Geo

/-- 1-D core of the edge replication: item `I` of the padded axis (group size `b`, `n` real items) carries item
`min I (n-1)` -/
theorem fill_axis (n b I : Nat) (hb : 0 < b) (hn : 0 < n) (hI : I < pad n b) :
    (if I % b < Writer.toRead n b (I / b) then I / b * b + I % b else I / b * b + Writer.toRead n b (I / b) - 1)
      = min I (n - 1) := by
  have hI' := Nat.div_add_mod I b
  have hi := Nat.mod_lt I hb
  have hn' := Nat.div_add_mod n b
  have hr := Nat.mod_lt n hb
  generalize I / b = s at *
  generalize I % b = i at *
  generalize hq : n / b = q at *
  generalize hrr : n % b = r at *
  have hsb : s * b = b * s := Nat.mul_comm _ _
  unfold Writer.toRead
  unfold pad at hI
  rw [hrr, hq] at hI
  rcases Nat.lt_trichotomy s q with h | h | h
  · -- a full group
    have h1 : (s + 1) * b ≤ q * b := Nat.mul_le_mul_right b h
    rw [Nat.add_mul, Nat.one_mul] at h1
    have hqb : q * b = b * q := Nat.mul_comm _ _
    have : ¬ ((s + 1) * b > n) := by rw [Nat.add_mul, Nat.one_mul]; omega
    simp only [this, if_false, hi, if_true]
    omega
  · subst h
    by_cases hr0 : r = 0
    · subst hr0; simp at hI; omega
    · have : (s + 1) * b > n := by rw [Nat.add_mul, Nat.one_mul]; omega
      simp only [this, if_true]
      split <;> omega
  · exfalso
    have h1 : (q + 1) * b ≤ s * b := Nat.mul_le_mul_right b h
    rw [Nat.add_mul, Nat.one_mul] at h1
    have hqb : q * b = b * q := Nat.mul_comm _ _
    have e : b * (q + 1) = b * q + b := by rw [Nat.mul_add, Nat.mul_one]
    split at hI <;> omega

/-- the three replication steps compose to a clamp of the coordinate -/
theorem fillAt_clamp (g : Geo) (hg : g.Valid) (I X Z : Nat) (hI : I < g.P0) :
    Writer.fillAt g I X Z = (min I (g.n0 - 1), min X (g.n1 - 1), min Z (g.n2 - 1)) := by
  unfold Writer.fillAt Writer.fill
  simp only
  rw [fill_axis g.n0 g.b0 I (b0_pos hg) hg.2.2.2.2.2.2.2.2.1 hI]
  have h1 := hg.2.2.2.2.2.2.2.2.2.1
  have h2 := hg.2.2.2.2.2.2.2.2.2.2
  congr 1
  congr 1
  · split <;> omega
  · split <;> omega

end Sgz

namespace Sgz
open Geo

/-- groups of `b` with a short last group enumerate `0 … n-1` -/
theorem chunks_range (n b : Nat) (hb : 0 < b) :
    (List.range (pad n b / b)).flatMap (fun s => (List.range (Writer.toRead n b s)).map (fun i => s * b + i))
      = List.range n := by
  have key : ∀ k, k ≤ pad n b / b →
      (List.range k).flatMap (fun s => (List.range (Writer.toRead n b s)).map (fun i => s * b + i))
        = List.range (min (k * b) n) := by
    intro k
    induction k with
    | zero => intro _; simp
    | succ k ih =>
      intro hk
      have hkb : k * b < n := by
        have h1 : (k + 1) * b ≤ pad n b / b * b := Nat.mul_le_mul_right b hk
        rw [pad_div_mul n b hb, Nat.add_mul, Nat.one_mul] at h1
        have := pad_lt n b hb
        omega
      rw [List.range_succ, List.flatMap_append, ih (by omega)]
      simp only [List.flatMap_cons, List.flatMap_nil, List.append_nil]
      have e1 : min (k * b) n = k * b := by omega
      have e2 : min ((k + 1) * b) n = k * b + Writer.toRead n b k := by
        unfold Writer.toRead
        rw [Nat.add_mul, Nat.one_mul]
        split
        · -- last, short group: k = n / b
          have hd := Nat.div_add_mod n b
          have hm := Nat.mod_lt n hb
          have : k = n / b := by
            apply Nat.le_antisymm
            · rw [Nat.le_div_iff_mul_le hb]; omega
            · have : n / b < k + 1 := by rw [Nat.div_lt_iff_lt_mul hb, Nat.add_mul, Nat.one_mul]; omega
              omega
          subst this
          have : n / b * b = b * (n / b) := Nat.mul_comm _ _
          omega
        · omega
      rw [e1, e2, List.range_add]
  have := key (pad n b / b) (Nat.le_refl _)
  rw [this, pad_div_mul n b hb, Nat.min_eq_right (le_pad n b hb)]

theorem flatMap_congr' {α β : Type} {l : List α} {f g : α → List β} (h : ∀ a ∈ l, f a = g a) :
    l.flatMap f = l.flatMap g := by
  induction l with
  | nil => rfl
  | cons a l ih =>
    simp only [List.flatMap_cons]
    rw [h a (List.mem_cons_self ..), ih (fun b hb => h b (List.mem_cons_of_mem _ hb))]

/-- the real samples of the cube in trace order (inline, crossline, sample) -/
def Spec.samples (g : Geo) : List (Nat × Nat × Nat) :=
  (List.range g.n0).flatMap fun i => (List.range g.n1).flatMap fun x => (List.range g.n2).map fun z => (i, x, z)

/-- the stream fed to the hash is exactly the real samples in trace order: no padding row, column or sample, nothing
twice, nothing missing — for every cube size and blockshape -/
theorem hashFeed_eq (g : Geo) (hg : g.Valid) : Writer.hashFeed g = Spec.samples g := by
  unfold Writer.hashFeed Spec.samples
  rw [← chunks_range g.n0 g.b0 (b0_pos hg), List.flatMap_assoc]
  show _ = (List.range g.NB0).flatMap _
  apply flatMap_congr'
  intro s _
  rw [List.flatMap_map]
  apply flatMap_congr'
  intro i hi
  have hi' := List.mem_range.mp hi
  apply flatMap_congr'
  intro x hx
  have hx' := List.mem_range.mp hx
  apply List.map_congr_left
  intro z hz
  have hz' := List.mem_range.mp hz
  simp [Writer.fill, hi', hx', hz']

end Sgz

/-! ## 2D -/
namespace Sgz
open Geo

def Spec.cellOf2d (g : Geo) (j : Nat) : Nat × Nat :=
  let C := g.b1 / 4 * (g.b2 / 4)
  let r1 := j % (g.NB2 * C)
  let r2 := r1 % C
  (j / (g.NB2 * C) * (g.b1 / 4) + r2 / (g.b2 / 4), r1 / C * (g.b2 / 4) + r2 % (g.b2 / 4))

def Spec.totalUnits2d (g : Geo) : Nat := g.NB1 * (g.NB2 * (g.b1 / 4 * (g.b2 / 4)))

theorem cells2d_general (g : Geo) (hd : (g.b1 == 4) = false) :
    Writer.cells2d g = (List.range (Spec.totalUnits2d g)).map (Spec.cellOf2d g) := by
  unfold Writer.cells2d Writer.groupCells2d Spec.totalUnits2d
  simp only [hd, Bool.false_eq_true, if_false, flatMap_range_map, List.map_map]
  apply List.map_congr_left
  intro j _
  rfl

theorem cells2d_default (g : Geo) (hg : g.Valid2d) (h1 : g.b1 = 4) :
    Writer.cells2d g = (List.range (Spec.totalUnits2d g)).map (Spec.cellOf2d g) := by
  have hP2 : g.P2 / 4 = g.NB2 * (g.b2 / 4) := v2_P2_div4 hg
  have hB2 : 0 < g.b2 / 4 := by
    have := v2_cpb_u hg
    unfold Geo.cpb2d at this
    rcases Nat.eq_zero_or_pos (g.b2 / 4) with h | h
    · rw [h] at this; simp at this
    · exact h
  unfold Writer.cells2d Writer.groupCells2d Spec.totalUnits2d
  simp only [h1, beq_self_eq_true, if_true, flatMap_range_map, List.map_map, hP2,
    Nat.div_self (by decide : 0 < 4), Nat.one_mul]
  apply List.map_congr_left
  intro j _
  simp only [Function.comp, Spec.cellOf2d, h1, Nat.div_self (by decide : 0 < 4), Nat.one_mul, Nat.mul_one, Nat.add_zero]
  generalize j % (g.NB2 * (g.b2 / 4)) = r1
  have e2 : r1 % (g.b2 / 4) / (g.b2 / 4) = 0 := Nat.div_eq_of_lt (Nat.mod_lt _ hB2)
  rw [e2, Nat.add_zero, Nat.mod_mod, div_add_mod' r1 (g.b2 / 4)]

theorem cellOf2d_unit (g : Geo) (hg : g.Valid2d) (t z : Nat) (ht : t < g.P1) (hz : z < g.P2) :
    Spec.cellOf2d g (Spec.unit2d g t z) = (t / 4, z / 4) ∧ Spec.unit2d g t z < Spec.totalUnits2d g := by
  have hb1 := v2_b1_pos hg
  have hb2 := v2_b2_pos hg
  have d1 := mod_div4_lt t g.b1 (v2_dvd1 hg) hb1
  have d2 := mod_div4_lt z g.b2 (v2_dvd2 hg) hb2
  have n1 : t / g.b1 < g.NB1 := div_lt_NB t g.n1 g.b1 hb1 ht
  have n2 : z / g.b2 < g.NB2 := div_lt_NB z g.n2 g.b2 hb2 hz
  have e : Spec.unit2d g t z = t / g.b1 * (g.NB2 * (g.b1 / 4 * (g.b2 / 4)))
      + (z / g.b2 * (g.b1 / 4 * (g.b2 / 4)) + (t % g.b1 / 4 * (g.b2 / 4) + z % g.b2 / 4)) := by
    unfold Spec.unit2d Geo.cpb2d; ring
  have k3 : t % g.b1 / 4 * (g.b2 / 4) + z % g.b2 / 4 < g.b1 / 4 * (g.b2 / 4) := lt_of_mixed _ _ _ _ d1 d2
  have k2 : z / g.b2 * (g.b1 / 4 * (g.b2 / 4)) + (t % g.b1 / 4 * (g.b2 / 4) + z % g.b2 / 4)
      < g.NB2 * (g.b1 / 4 * (g.b2 / 4)) := lt_of_mixed _ _ _ _ n2 k3
  constructor
  · rw [e]
    unfold Spec.cellOf2d
    simp only [div_mixed _ _ _ k2, mod_mixed _ _ _ k2, div_mixed _ _ _ k3, mod_mixed _ _ _ k3, div_mixed _ _ _ d2,
      mod_mixed _ _ _ d2]
    rw [← div4_split t g.b1 (v2_dvd1 hg) hb1, ← div4_split z g.b2 (v2_dvd2 hg) hb2]
  · rw [e]; unfold Spec.totalUnits2d
    exact lt_of_mixed _ _ _ _ n1 k2

theorem toRead_pos (n b s : Nat) (hb : 0 < b) (h : s * b < n) : 0 < Writer.toRead n b s := by
  unfold Writer.toRead
  split
  · rename_i hgt
    rcases Nat.eq_zero_or_pos (n % b) with h0 | h0
    · exfalso
      obtain ⟨q, hq⟩ := Nat.dvd_of_mod_eq_zero h0
      subst hq
      rw [Nat.mul_comm b q] at h hgt
      have : s < q := Nat.lt_of_mul_lt_mul_right h
      have : (s + 1) * b ≤ q * b := Nat.mul_le_mul_right b this
      omega
    · exact h0
  · exact hb

theorem group_start_lt (n b T : Nat) (hb : 0 < b) (hT : T < pad n b) : T / b * b < n := by
  have h1 : T / b < pad n b / b := div_lt_NB T n b hb hT
  have h2 : (T / b + 1) * b ≤ pad n b / b * b := Nat.mul_le_mul_right b h1
  rw [pad_div_mul n b hb, Nat.add_mul, Nat.one_mul] at h2
  have := pad_lt n b hb
  omega

/-- 2D: rows beyond the last real trace repeat the last trace of the line, samples beyond the last repeat it: a clamp -/
theorem fillAt2d_clamp (g : Geo) (hg : g.Valid2d) (T Z : Nat) (hT : T < g.P1) :
    Writer.fillAt2d g T Z = (min T (g.n1 - 1), min Z (g.n2 - 1)) := by
  have hb1 := v2_b1_pos hg
  have hn1 : 0 < g.n1 := hg.2.2.2.2.2.2.2.2.1
  have hn2 : 0 < g.n2 := hg.2.2.2.2.2.2.2.2.2
  have h := fill_axis g.n1 g.b1 T hb1 hn1 hT
  unfold Writer.fillAt2d Writer.fill2d
  simp only
  congr 1
  · -- the code repeats the file's last trace where the 3D producers repeat the group's last row: same clamp
    have hT' := Nat.div_add_mod T g.b1
    have e : T / g.b1 * g.b1 = g.b1 * (T / g.b1) := Nat.mul_comm _ _
    split at h
    · rename_i hlt; simp only [hlt, if_true]; omega
    · rename_i hlt; simp only [hlt, if_false]
      have hp := toRead_pos g.n1 g.b1 (T / g.b1) hb1 (group_start_lt g.n1 g.b1 T hb1 hT)
      omega
  · split <;> omega

def Spec.samples2d (g : Geo) : List (Nat × Nat) :=
  (List.range g.n1).flatMap fun t => (List.range g.n2).map fun z => (t, z)

theorem hashFeed2d_eq (g : Geo) (hg : g.Valid2d) : Writer.hashFeed2d g = Spec.samples2d g := by
  unfold Writer.hashFeed2d Spec.samples2d
  rw [← chunks_range g.n1 g.b1 (v2_b1_pos hg), List.flatMap_assoc]
  show _ = (List.range g.NB1).flatMap _
  apply flatMap_congr'
  intro s _
  rw [List.flatMap_map]
  apply flatMap_congr'
  intro i hi
  have hi' := List.mem_range.mp hi
  apply List.map_congr_left
  intro z hz
  have hz' := List.mem_range.mp hz
  simp [Writer.fill2d, hi', hz']

end Sgz
