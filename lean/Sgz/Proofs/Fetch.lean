import Sgz.Proofs.Reader
/-!
# Proofs/Fetch — which disk blocks a loader touches (C07)

`Spec.block g i x z` is the index (within the data section) of the 4 KiB block holding padded voxel (i,x,z).
A fetch `(off, len)` *touches* block `B` when it shares a byte with `[4096·B, 4096·(B+1))`.
-/
namespace Sgz

def Spec.block (g : Geo) (i x z : Nat) : Nat := ((i / g.b0) * g.NB1 + x / g.b1) * g.NB2 + z / g.b2

/-- fetch `f = (offset, length)` shares a byte with block `B` -/
def touches (f : Nat × Nat) (B : Nat) : Prop := f.1 < 4096 * (B + 1) ∧ 4096 * B < f.1 + f.2

def Touched (fs : List (Nat × Nat)) (B : Nat) : Prop := ∃ f ∈ fs, touches f B

/-- block `B` holds a voxel of the box `[i0,i1) × [x0,x1) × [z0,z1)` -/
def Needed (g : Geo) (i0 i1 x0 x1 z0 z1 : Nat) (B : Nat) : Prop :=
  ∃ i x z, i0 ≤ i ∧ i < i1 ∧ x0 ≤ x ∧ x < x1 ∧ z0 ≤ z ∧ z < z1 ∧ Spec.block g i x z = B

/-- no byte is fetched twice: the ranges are pairwise disjoint -/
def DisjointFetches (fs : List (Nat × Nat)) : Prop :=
  fs.Pairwise fun a b => a.1 + a.2 ≤ b.1 ∨ b.1 + b.2 ≤ a.1

/-- the quotients `i / b` for `i ∈ [lo, hi)` are exactly `[lo / b, ⌈hi / b⌉)` -/
theorem div_range (lo hi b q : Nat) (hb : 0 < b) (hlt : lo < hi) :
    (∃ i, lo ≤ i ∧ i < hi ∧ i / b = q) ↔ lo / b ≤ q ∧ q < cdiv hi b := by
  unfold cdiv
  constructor
  · rintro ⟨i, h1, h2, rfl⟩
    refine ⟨Nat.div_le_div_right h1, ?_⟩
    rw [Nat.div_lt_iff_lt_mul hb]
    have := Nat.div_add_mod (hi + b - 1) b
    have := Nat.mod_lt (hi + b - 1) hb
    have e : (hi + b - 1) / b * b = b * ((hi + b - 1) / b) := Nat.mul_comm _ _
    omega
  · rintro ⟨h1, h2⟩
    by_cases hq : lo / b = q
    · exact ⟨lo, Nat.le_refl _, hlt, hq⟩
    · refine ⟨q * b, ?_, ?_, Nat.mul_div_cancel _ hb⟩
      · have hlt' : lo / b < q := by omega
        have : (lo / b + 1) * b ≤ q * b := Nat.mul_le_mul_right b hlt'
        have := Nat.div_add_mod lo b
        have := Nat.mod_lt lo hb
        have e : (lo / b + 1) * b = b * (lo / b) + b := by rw [Nat.add_mul, Nat.one_mul, Nat.mul_comm]
        omega
      · have : (q + 1) * b ≤ (hi + b - 1) / b * b := Nat.mul_le_mul_right b h2
        have := Nat.div_add_mod (hi + b - 1) b
        have e : (hi + b - 1) / b * b = b * ((hi + b - 1) / b) := Nat.mul_comm _ _
        have e2 : (q + 1) * b = q * b + b := by rw [Nat.add_mul, Nat.one_mul]
        omega

/-- the set of needed blocks, as a product of block-index ranges -/
theorem needed_iff (g : Geo) (hg : g.Valid) (i0 i1 x0 x1 z0 z1 B : Nat) (hi : i0 < i1) (hx : x0 < x1) (hz : z0 < z1) :
    Needed g i0 i1 x0 x1 z0 z1 B ↔
      ∃ bi bx bz, (i0 / g.b0 ≤ bi ∧ bi < cdiv i1 g.b0) ∧ (x0 / g.b1 ≤ bx ∧ bx < cdiv x1 g.b1)
        ∧ (z0 / g.b2 ≤ bz ∧ bz < cdiv z1 g.b2) ∧ (bi * g.NB1 + bx) * g.NB2 + bz = B := by
  unfold Needed Spec.block
  constructor
  · rintro ⟨i, x, z, a1, a2, a3, a4, a5, a6, rfl⟩
    exact ⟨i / g.b0, x / g.b1, z / g.b2,
      (div_range i0 i1 g.b0 _ (Geo.b0_pos hg) hi).mp ⟨i, a1, a2, rfl⟩,
      (div_range x0 x1 g.b1 _ (Geo.b1_pos hg) hx).mp ⟨x, a3, a4, rfl⟩,
      (div_range z0 z1 g.b2 _ (Geo.b2_pos hg) hz).mp ⟨z, a5, a6, rfl⟩, rfl⟩
  · rintro ⟨bi, bx, bz, hbi, hbx, hbz, rfl⟩
    obtain ⟨i, a1, a2, rfl⟩ := (div_range i0 i1 g.b0 bi (Geo.b0_pos hg) hi).mpr hbi
    obtain ⟨x, a3, a4, rfl⟩ := (div_range x0 x1 g.b1 bx (Geo.b1_pos hg) hx).mpr hbx
    obtain ⟨z, a5, a6, rfl⟩ := (div_range z0 z1 g.b2 bz (Geo.b2_pos hg) hz).mpr hbz
    exact ⟨i, x, z, a1, a2, a3, a4, a5, a6, rfl⟩

/-- an aligned one-block fetch touches exactly its block -/
theorem touches_block (k B : Nat) : touches (4096 * k, 4096) B ↔ k = B := by
  unfold touches; simp only; omega

end Sgz

namespace Sgz

theorem touched_unshuffle (g : Geo) (hg : g.Valid) (i0 i1 x0 x1 z0 z1 B : Nat) (hi : i0 < i1) (hx : x0 < x1) (hz : z0 < z1) :
    Touched (Loader.unshuffleFetches g i1 x1 z1 i0 x0 z0) B ↔ Needed g i0 i1 x0 x1 z0 z1 B := by
  rw [needed_iff g hg _ _ _ _ _ _ _ hi hx hz]
  unfold Touched Loader.unshuffleFetches
  simp only [List.mem_flatMap, List.mem_map, List.mem_range]
  constructor
  · rintro ⟨f, ⟨ni, hni, nx, hnx, nz, hnz, rfl⟩, ht⟩
    rw [touches_block] at ht
    refine ⟨i0 / g.b0 + ni, x0 / g.b1 + nx, z0 / g.b2 + nz, by omega, by omega, by omega, ?_⟩
    rw [← ht]
    simp only [Nat.mul_comm]
  · rintro ⟨bi, bx, bz, hbi, hbx, hbz, rfl⟩
    refine ⟨_, ⟨bi - i0 / g.b0, by omega, bx - x0 / g.b1, by omega, bz - z0 / g.b2, by omega, rfl⟩, ?_⟩
    rw [touches_block]
    have e1 : i0 / g.b0 + (bi - i0 / g.b0) = bi := by omega
    have e2 : x0 / g.b1 + (bx - x0 / g.b1) = bx := by omega
    have e3 : z0 / g.b2 + (bz - z0 / g.b2) = bz := by omega
    rw [e1, e2, e3]
    simp only [Nat.mul_comm]

end Sgz

namespace Sgz

theorem pairwise_range_map {β : Type} (R : β → β → Prop) (n : Nat) (f : Nat → β)
    (h : ∀ a b, a < b → b < n → R (f a) (f b)) : ((List.range n).map f).Pairwise R := by
  rw [List.pairwise_map]
  have := List.pairwise_lt_range (n := n)
  refine List.Pairwise.imp_of_mem ?_ this
  intro a b _ hb hab
  exact h a b hab (List.mem_range.mp hb)

theorem pairwise_range_flatMap {β : Type} (R : β → β → Prop) (n : Nat) (f : Nat → List β)
    (h1 : ∀ a, a < n → (f a).Pairwise R)
    (h2 : ∀ a b, a < b → b < n → ∀ x ∈ f a, ∀ y ∈ f b, R x y) : ((List.range n).flatMap f).Pairwise R := by
  rw [List.pairwise_flatMap]
  refine ⟨fun a ha => h1 a (List.mem_range.mp ha), ?_⟩
  have := List.pairwise_lt_range (n := n)
  refine List.Pairwise.imp_of_mem ?_ this
  intro a b _ hb hab
  exact h2 a b hab (List.mem_range.mp hb)

/-- sorted, non-overlapping -/
def SortedFetches (fs : List (Nat × Nat)) : Prop := fs.Pairwise fun a b => a.1 + a.2 ≤ b.1

theorem SortedFetches.disjoint {fs : List (Nat × Nat)} (h : SortedFetches fs) : DisjointFetches fs :=
  List.Pairwise.imp (fun h => Or.inl h) h

theorem disjoint_unshuffle (g : Geo) (hg : g.Valid) (i0 i1 x0 x1 z0 z1 : Nat)
    (hx : x1 ≤ g.P1) (hz : z1 ≤ g.P2) :
    SortedFetches (Loader.unshuffleFetches g i1 x1 z1 i0 x0 z0) := by
  have hb1 := Geo.b1_pos hg
  have hb2 := Geo.b2_pos hg
  -- block coordinates stay below the block grid
  have hX : ∀ nx, nx < cdiv x1 g.b1 - x0 / g.b1 → x0 / g.b1 + nx < g.NB1 := by
    intro nx h
    have : cdiv x1 g.b1 ≤ g.NB1 := by
      have h1 := cdiv_fits x1 g.P1 g.b1 hb1 hx
      have h2 : pad g.P1 g.b1 = g.P1 := by
        unfold pad; simp [Nat.mod_eq_zero_of_dvd (pad_dvd g.n1 g.b1 hb1), Geo.P1]
      rw [h2, Geo.P1_eq hg, Nat.mul_comm] at h1
      exact Nat.le_of_mul_le_mul_right h1 hb1
    omega
  have hZ : ∀ nz, nz < cdiv z1 g.b2 - z0 / g.b2 → z0 / g.b2 + nz < g.NB2 := by
    intro nz h
    have : cdiv z1 g.b2 ≤ g.NB2 := by
      have h1 := cdiv_fits z1 g.P2 g.b2 hb2 hz
      have h2 : pad g.P2 g.b2 = g.P2 := by
        unfold pad; simp [Nat.mod_eq_zero_of_dvd (pad_dvd g.n2 g.b2 hb2), Geo.P2]
      rw [h2, Geo.P2_eq hg, Nat.mul_comm] at h1
      exact Nat.le_of_mul_le_mul_right h1 hb2
    omega
  unfold SortedFetches Loader.unshuffleFetches
  generalize i0 / g.b0 = qi at *
  generalize x0 / g.b1 = qx at *
  generalize z0 / g.b2 = qz at *
  apply pairwise_range_flatMap
  · intro ni _
    apply pairwise_range_flatMap
    · intro nx _
      apply pairwise_range_map
      intro a b hab _
      simp only
      omega
    · intro nx nx' hlt hnx' f hf f' hf'
      simp only [List.mem_map, List.mem_range] at hf hf'
      obtain ⟨nz, hnz, rfl⟩ := hf
      obtain ⟨nz', hnz', rfl⟩ := hf'
      simp only
      have := hZ nz hnz
      have h3 : g.NB2 * (g.NB1 * (qi + ni) + (qx + nx) + 1)
          ≤ g.NB2 * (g.NB1 * (qi + ni) + (qx + nx')) := Nat.mul_le_mul_left _ (by omega)
      rw [Nat.mul_add, Nat.mul_one] at h3
      omega
  · intro ni ni' hlt _ f hf f' hf'
    simp only [List.mem_flatMap, List.mem_map, List.mem_range] at hf hf'
    obtain ⟨nx, hnx, nz, hnz, rfl⟩ := hf
    obtain ⟨nx', hnx', nz', hnz', rfl⟩ := hf'
    simp only
    have := hZ nz hnz
    have := hX nx hnx
    have h4 : g.NB1 * (qi + ni) + g.NB1 ≤ g.NB1 * (qi + ni') := by
      have : g.NB1 * (qi + ni + 1) ≤ g.NB1 * (qi + ni') := Nat.mul_le_mul_left _ (by omega)
      rw [Nat.mul_add, Nat.mul_one] at this; exact this
    have h3 : g.NB2 * (g.NB1 * (qi + ni) + (qx + nx) + 1)
        ≤ g.NB2 * (g.NB1 * (qi + ni') + (qx + nx')) := Nat.mul_le_mul_left _ (by omega)
    rw [Nat.mul_add, Nat.mul_one] at h3
    omega

end Sgz

namespace Sgz

/-- a run of `n > 0` whole units starting at unit `U0` touches block `B` iff one of its units lies in `B` -/
theorem touches_units (u c U0 n B : Nat) (hu : c * u = 4096) (hn : 0 < n) :
    touches (u * U0, u * n) B ↔ ∃ k, U0 ≤ k ∧ k < U0 + n ∧ k / c = B := by
  have hc : 0 < c := by rcases Nat.eq_zero_or_pos c with h | h; · simp [h] at hu
                        · exact h
  have hupos : 0 < u := by rcases Nat.eq_zero_or_pos u with h | h; · simp [h] at hu
                           · exact h
  unfold touches
  simp only
  have e1 : 4096 * (B + 1) = u * (c * (B + 1)) := by rw [← hu, Nat.mul_comm c u, Nat.mul_assoc]
  have e2 : 4096 * B = u * (c * B) := by rw [← hu, Nat.mul_comm c u, Nat.mul_assoc]
  rw [e1, e2, ← Nat.mul_add, Nat.mul_lt_mul_left hupos, Nat.mul_lt_mul_left hupos]
  constructor
  · rintro ⟨h1, h2⟩
    rw [Nat.mul_add, Nat.mul_one] at h1
    refine ⟨max U0 (c * B), by omega, by omega, ?_⟩
    have e3 : B * c = c * B := Nat.mul_comm _ _
    apply Nat.div_eq_of_lt_le
    · omega
    · rw [Nat.add_mul, Nat.one_mul]; omega
  · rintro ⟨k, h1, h2, rfl⟩
    have := Nat.div_add_mod k c
    have := Nat.mod_lt k hc
    rw [Nat.mul_add, Nat.mul_one]
    omega

theorem cdiv4 (n : Nat) : cdiv n 4 = (n + 3) / 4 := by unfold cdiv; congr 1

theorem needed_iff_default (g : Geo) (hg : g.Valid) (h0 : g.b0 = 4) (h1 : g.b1 = 4)
    (i0 i1 x0 x1 z0 z1 B : Nat) (hi : i0 < i1) (hx : x0 < x1) (hz : z0 < z1) :
    Needed g i0 i1 x0 x1 z0 z1 B ↔
      ∃ bi bx zc, (i0 / 4 ≤ bi ∧ bi < cdiv i1 4) ∧ (x0 / 4 ≤ bx ∧ bx < cdiv x1 4)
        ∧ (z0 / 4 ≤ zc ∧ zc < cdiv z1 4) ∧ (bi * g.NB1 + bx) * g.NB2 + zc / (g.b2 / 4) = B := by
  rw [needed_iff g hg _ _ _ _ _ _ _ hi hx hz, h0, h1]
  have hb2 := Geo.b2_pos hg
  have hd2 := Geo.dvd2 hg
  constructor
  · rintro ⟨bi, bx, bz, hbi, hbx, hbz, rfl⟩
    obtain ⟨z, a1, a2, rfl⟩ := (div_range z0 z1 g.b2 bz hb2 hz).mpr hbz
    refine ⟨bi, bx, z / 4, hbi, hbx, (div_range z0 z1 4 _ (by omega) hz).mp ⟨z, a1, a2, rfl⟩, ?_⟩
    rw [div4_div z g.b2 hd2 hb2]
  · rintro ⟨bi, bx, zc, hbi, hbx, hzc, rfl⟩
    obtain ⟨z, a1, a2, rfl⟩ := (div_range z0 z1 4 zc (by omega) hz).mpr hzc
    refine ⟨bi, bx, z / g.b2, hbi, hbx, (div_range z0 z1 g.b2 _ hb2 hz).mp ⟨z, a1, a2, rfl⟩, ?_⟩
    rw [div4_div z g.b2 hd2 hb2]

end Sgz

namespace Sgz

theorem fetches_chunkRange (g : Geo) (i1 x1 z1 i0 x0 z0 : Nat) (f : Nat × Nat) :
    f ∈ (Loader.chunkRange g i1 x1 z1 i0 x0 z0).fetches ↔
      ∃ i, i < (i1 + 3) / 4 - i0 / 4 ∧ ∃ x, x < (x1 + 3) / 4 - x0 / 4 ∧
        f = (g.u * (((i0 / 4) + i) * (g.P1 / 4) * (g.P2 / 4) + ((x0 / 4) + x) * (g.P2 / 4) + (z0 / 4)),
             g.u * ((z1 + 3) / 4 - z0 / 4)) := by
  unfold Loader.chunkRange fetchesOf Loader.chunkRangeCopies
  simp only [List.mem_map, List.mem_flatMap, List.mem_range]
  constructor
  · rintro ⟨c, ⟨i, hi, x, hx, rfl⟩, rfl⟩
    exact ⟨i, hi, x, hx, rfl⟩
  · rintro ⟨i, hi, x, hx, rfl⟩
    exact ⟨_, ⟨i, hi, x, hx, rfl⟩, rfl⟩

theorem touched_chunkRange (g : Geo) (hg : g.Valid) (h0 : g.b0 = 4) (h1 : g.b1 = 4)
    (i0 i1 x0 x1 z0 z1 B : Nat) (hi : i0 < i1) (hx : x0 < x1) (hz : z0 < z1) (hz1 : z1 ≤ g.P2) :
    Touched (Loader.chunkRange g i1 x1 z1 i0 x0 z0).fetches B ↔ Needed g i0 i1 x0 x1 z0 z1 B := by
  rw [needed_iff_default g hg h0 h1 _ _ _ _ _ _ _ hi hx hz]
  have hb2 := Geo.b2_pos hg
  have hcu : g.b2 / 4 * g.u = 4096 := Geo.block_bytes_default hg h0 h1
  have hc : 0 < g.b2 / 4 := by
    rcases Nat.eq_zero_or_pos (g.b2 / 4) with h | h
    · rw [h] at hcu; simp at hcu
    · exact h
  have hP2 : g.P2 / 4 = g.NB2 * (g.b2 / 4) := Geo.P2_div4 hg
  have hNB1 : g.NB1 = g.P1 / 4 := by simp [Geo.NB1, h1]
  have hzU : 0 < (z1 + 3) / 4 - z0 / 4 := by omega
  have hzc_lt : (z1 + 3) / 4 ≤ g.P2 / 4 := by
    obtain ⟨m, hm⟩ := Geo.P2_dvd4 hg
    rw [hm] at hz1 ⊢
    omega
  simp only [cdiv4]
  unfold Touched
  -- the unit index of a column start, and the block of unit `C·(P2/4) + zc`
  have hblk : ∀ C zc, zc < g.P2 / 4 → (C * (g.P2 / 4) + zc) / (g.b2 / 4) = C * g.NB2 + zc / (g.b2 / 4) := by
    intro C zc _
    rw [hP2, ← Nat.mul_assoc, Nat.add_comm, Nat.add_mul_div_right _ _ hc, Nat.add_comm]
  have hcol : ∀ i x, ((i0 / 4) + i) * (g.P1 / 4) * (g.P2 / 4) + ((x0 / 4) + x) * (g.P2 / 4) + z0 / 4
      = ((i0 / 4 + i) * g.NB1 + (x0 / 4 + x)) * (g.P2 / 4) + z0 / 4 := by
    intro i x; rw [hNB1]; ring
  constructor
  · rintro ⟨f, hf, ht⟩
    obtain ⟨i, hi', x, hx', rfl⟩ := (fetches_chunkRange g _ _ _ _ _ _ f).mp hf
    rw [touches_units g.u (g.b2 / 4) _ _ B hcu hzU, hcol] at ht
    obtain ⟨k, k1, k2, rfl⟩ := ht
    refine ⟨i0 / 4 + i, x0 / 4 + x, k - ((i0 / 4 + i) * g.NB1 + (x0 / 4 + x)) * (g.P2 / 4), by omega, by omega,
      by omega, ?_⟩
    rw [← hblk _ _ (by omega)]
    congr 1; omega
  · rintro ⟨bi, bx, zc, hbi, hbx, hzc, rfl⟩
    refine ⟨_, (fetches_chunkRange g _ _ _ _ _ _ _).mpr ⟨bi - i0 / 4, by omega, bx - x0 / 4, by omega, rfl⟩, ?_⟩
    rw [touches_units g.u (g.b2 / 4) _ _ _ hcu hzU, hcol]
    have e1 : i0 / 4 + (bi - i0 / 4) = bi := by omega
    have e2 : x0 / 4 + (bx - x0 / 4) = bx := by omega
    rw [e1, e2]
    refine ⟨(bi * g.NB1 + bx) * (g.P2 / 4) + zc, by omega, by omega, ?_⟩
    exact hblk _ _ (by omega)

end Sgz

namespace Sgz

theorem disjoint_chunkRange (g : Geo) (hg : g.Valid) (_h0 : g.b0 = 4) (_h1 : g.b1 = 4)
    (i0 i1 x0 x1 z0 z1 : Nat) (hx1 : x1 ≤ g.P1) (hz1 : z1 ≤ g.P2) :
    SortedFetches (Loader.chunkRange g i1 x1 z1 i0 x0 z0).fetches := by
  have hxc : (x1 + 3) / 4 ≤ g.P1 / 4 := by
    obtain ⟨m, hm⟩ := Geo.P1_dvd4 hg
    rw [hm] at hx1 ⊢; omega
  have hzc : (z1 + 3) / 4 ≤ g.P2 / 4 := by
    obtain ⟨m, hm⟩ := Geo.P2_dvd4 hg
    rw [hm] at hz1 ⊢; omega
  unfold SortedFetches Loader.chunkRange fetchesOf Loader.chunkRangeCopies
  simp only [List.map_flatMap, List.map_map]
  generalize g.P1 / 4 = A at *
  generalize g.P2 / 4 = Z at *
  generalize (z1 + 3) / 4 = zc1 at *
  generalize (x1 + 3) / 4 = xc1 at *
  generalize z0 / 4 = zc0 at *
  generalize x0 / 4 = xc0 at *
  generalize i0 / 4 = ic0 at *
  -- column (I, X) starts at unit (I·A + X)·Z + zc0 and is zc1 - zc0 ≤ Z - zc0 units long
  have key : ∀ I X I' X', X < A → (I < I' ∨ (I = I' ∧ X < X')) →
      g.u * (I * A * Z + X * Z + zc0) + g.u * (zc1 - zc0) ≤ g.u * (I' * A * Z + X' * Z + zc0) := by
    intro I X I' X' hX hlt
    rw [← Nat.mul_add]
    apply Nat.mul_le_mul_left
    have h1 : (I * A + X + 1) * Z ≤ (I' * A + X') * Z := by
      apply Nat.mul_le_mul_right
      rcases hlt with h | ⟨rfl, h⟩
      · have : (I + 1) * A ≤ I' * A := Nat.mul_le_mul_right A h
        rw [Nat.add_mul, Nat.one_mul] at this; omega
      · omega
    have e1 : (I * A + X + 1) * Z = I * A * Z + X * Z + Z := by ring
    have e2 : (I' * A + X') * Z = I' * A * Z + X' * Z := by ring
    omega
  apply pairwise_range_flatMap
  · intro i _
    apply pairwise_range_map
    intro a b hab hb
    simp only [Function.comp]
    exact key _ _ _ _ (by omega) (Or.inr ⟨rfl, by omega⟩)
  · intro i i' hlt _ f hf f' hf'
    simp only [List.mem_map, List.mem_range, Function.comp] at hf hf'
    obtain ⟨x, hx, rfl⟩ := hf
    obtain ⟨x', hx', rfl⟩ := hf'
    exact key _ _ _ _ (by omega) (Or.inl (by omega))

end Sgz

namespace Sgz

theorem cdiv_eq_NB (n b : Nat) (hb : 0 < b) : cdiv n b = pad n b / b := by
  rw [pad_eq n b hb, Nat.mul_div_cancel_left _ hb]; rfl

/-- a pair of digits below `(N, M)` on top of a fixed leading digit `K` ↔ an interval of length `N·M` -/
theorem mixed_range (K N M B : Nat) :
    (∃ a b, a < N ∧ b < M ∧ (K * N + a) * M + b = B) ↔ K * (N * M) ≤ B ∧ B < K * (N * M) + N * M := by
  constructor
  · rintro ⟨a, b, ha, hb, rfl⟩
    have h1 := lt_of_mixed a b N M ha hb
    have e : (K * N + a) * M + b = K * (N * M) + (a * M + b) := by rw [Nat.add_mul, Nat.mul_assoc, Nat.add_assoc]
    omega
  · rintro ⟨h1, h2⟩
    have hM : 0 < M := by
      rcases Nat.eq_zero_or_pos M with h | h
      · subst h; simp at h2
      · exact h
    refine ⟨(B - K * (N * M)) / M, (B - K * (N * M)) % M, ?_, Nat.mod_lt _ hM, ?_⟩
    · rw [Nat.div_lt_iff_lt_mul hM]; omega
    · generalize hD : B - K * (N * M) = D at *
      have := Nat.div_add_mod D M
      have e : (K * N + D / M) * M = K * (N * M) + M * (D / M) := by
        rw [Nat.add_mul, Nat.mul_assoc, Nat.mul_comm (D / M) M]
      omega

/-- one digit below `M` on top of a fixed leading part -/
theorem mixed_range1 (C M B : Nat) : (∃ b, b < M ∧ C * M + b = B) ↔ C * M ≤ B ∧ B < C * M + M := by
  constructor
  · rintro ⟨b, hb, rfl⟩; omega
  · rintro ⟨h1, h2⟩; exact ⟨B - C * M, by omega, by omega⟩

theorem touches_run (k n B : Nat) : touches (4096 * k, 4096 * n) B ↔ k ≤ B ∧ B < k + n := by
  unfold touches; simp only; omega

end Sgz

namespace Sgz
open Geo

theorem NB1_default (g : Geo) (hg : g.Valid) (h1 : g.b1 = 4) : g.P1 = 4 * g.NB1 := by
  have := P1_eq hg; rw [h1] at this; omega
theorem NB0_default (g : Geo) (hg : g.Valid) (h0 : g.b0 = 4) : g.P0 = 4 * g.NB0 := by
  have := P0_eq hg; rw [h0] at this; omega

/-- inline set (default layout): one read, exactly the blocks of the 4-line group -/
theorem touched_ilSet (g : Geo) (hg : g.Valid) (h0 : g.b0 = 4) (h1 : g.b1 = 4) (k B : Nat) :
    Touched (Loader.ilSet g (4 * (k / 4))).fetches B ↔ Needed g k (k + 1) 0 g.n1 0 g.n2 B := by
  rw [needed_iff g hg _ _ _ _ _ _ _ (by omega) hg.2.2.2.2.2.2.2.2.2.1 hg.2.2.2.2.2.2.2.2.2.2]
  have hP1 := NB1_default g hg h1
  have e : g.chunk * g.P1 / 4 = 4096 * (g.NB1 * g.NB2) := by
    rw [hP1, Geo.chunk]
    have : 4096 * g.NB2 * (4 * g.NB1) = 4 * (4096 * (g.NB1 * g.NB2)) := by ring
    rw [this, Nat.mul_div_cancel_left _ (by decide : 0 < 4)]
  unfold Touched Loader.ilSet fetchesOf Loader.ilSetCopies
  simp only [List.map_cons, List.map_nil, List.mem_singleton, exists_eq_left, e,
    Nat.mul_div_cancel_left _ (by decide : 0 < 4)]
  rw [show 4096 * (g.NB1 * g.NB2) * (k / 4) = 4096 * ((k / 4) * (g.NB1 * g.NB2)) by ring, touches_run,
    ← mixed_range (k / 4) g.NB1 g.NB2 B, h0, h1, cdiv_eq_NB g.n1 4 (by decide), cdiv_eq_NB g.n2 g.b2 (b2_pos hg)]
  have hN1 : pad g.n1 4 / 4 = g.NB1 := by simp [Geo.NB1, Geo.P1, h1]
  rw [hN1]
  show _ ↔ ∃ bi bx bz, _ ∧ _ ∧ (_ ∧ bz < g.NB2) ∧ _
  simp only [Nat.zero_div, Nat.zero_le, true_and, cdiv4]
  constructor
  · rintro ⟨a, b, ha, hb, rfl⟩
    exact ⟨k / 4, a, b, by omega, ha, hb, rfl⟩
  · rintro ⟨bi, bx, bz, hbi, hbx, hbz, rfl⟩
    have : bi = k / 4 := by omega
    subst this
    exact ⟨bx, bz, hbx, hbz, rfl⟩

end Sgz

namespace Sgz
open Geo

/-- crossline set (default layout): one read per 4-inline group, exactly the blocks of the trace column -/
theorem touched_xlSet (g : Geo) (hg : g.Valid) (h0 : g.b0 = 4) (h1 : g.b1 = 4) (k B : Nat) :
    Touched (Loader.xlSet g (4 * (k / 4))).fetches B ↔ Needed g 0 g.n0 k (k + 1) 0 g.n2 B := by
  rw [needed_iff g hg _ _ _ _ _ _ _ hg.2.2.2.2.2.2.2.2.1 (by omega) hg.2.2.2.2.2.2.2.2.2.2]
  have hP1 := NB1_default g hg h1
  have hP0 := NB0_default g hg h0
  have e : g.chunk * g.P1 / 4 = 4096 * (g.NB1 * g.NB2) := by
    rw [hP1, Geo.chunk]
    have : 4096 * g.NB2 * (4 * g.NB1) = 4 * (4096 * (g.NB1 * g.NB2)) := by ring
    rw [this, Nat.mul_div_cancel_left _ (by decide : 0 < 4)]
  unfold Touched Loader.xlSet fetchesOf Loader.xlSetCopies
  simp only [List.map_map, List.mem_map, List.mem_range, Function.comp, e, hP0,
    Nat.mul_div_cancel_left _ (by decide : 0 < 4)]
  rw [h0, h1, cdiv_eq_NB g.n0 4 (by decide), cdiv_eq_NB g.n2 g.b2 (b2_pos hg)]
  have hN0 : pad g.n0 4 / 4 = g.NB0 := by simp [Geo.NB0, Geo.P0, h0]
  rw [hN0]
  show _ ↔ ∃ bi bx bz, _ ∧ _ ∧ (_ ∧ bz < g.NB2) ∧ _
  simp only [Nat.zero_div, Nat.zero_le, true_and, cdiv4]
  constructor
  · rintro ⟨f, ⟨c, hc, rfl⟩, ht⟩
    rw [show k / 4 * g.chunk + c * (4096 * (g.NB1 * g.NB2)) = 4096 * ((c * g.NB1 + k / 4) * g.NB2) by
      unfold Geo.chunk; ring, show g.chunk = 4096 * g.NB2 from rfl, touches_run] at ht
    exact ⟨c, k / 4, B - (c * g.NB1 + k / 4) * g.NB2, hc, by omega, by omega, by omega⟩
  · rintro ⟨bi, bx, bz, hbi, hbx, hbz, rfl⟩
    have : bx = k / 4 := by omega
    subst this
    refine ⟨_, ⟨bi, hbi, rfl⟩, ?_⟩
    rw [show k / 4 * g.chunk + bi * (4096 * (g.NB1 * g.NB2)) = 4096 * ((bi * g.NB1 + k / 4) * g.NB2) by
      unfold Geo.chunk; ring, show g.chunk = 4096 * g.NB2 from rfl, touches_run]
    omega

theorem touches_within (k off len B : Nat) (h : off + len ≤ 4096) (hl : 0 < len) :
    touches (4096 * k + off, len) B ↔ k = B := by
  unfold touches; simp only; omega

/-- z-slice set (default layout): one read of one unit per 4×4 trace column, inside the one block of that column that
holds the slice -/
theorem touched_zsliceSet (g : Geo) (hg : g.Valid) (h0 : g.b0 = 4) (h1 : g.b1 = 4) (k B : Nat) :
    Touched (Loader.zsliceSet g k).fetches B ↔ Needed g 0 g.n0 0 g.n1 k (k + 1) B := by
  rw [needed_iff g hg _ _ _ _ _ _ _ hg.2.2.2.2.2.2.2.2.1 hg.2.2.2.2.2.2.2.2.2.1 (by omega)]
  have hcu := block_bytes_default hg h0 h1
  have hcell : (k % g.b2) / 4 * g.u + g.u ≤ 4096 := by
    have := mod_div4_lt k g.b2 (dvd2 hg) (b2_pos hg)
    have h2 : ((k % g.b2) / 4 + 1) * g.u ≤ g.b2 / 4 * g.u := Nat.mul_le_mul_right _ this
    rw [Nat.add_mul, Nat.one_mul] at h2; omega
  unfold Touched Loader.zsliceSet fetchesOf Loader.zsliceSetCopies
  simp only [List.map_map, List.mem_map, List.mem_range, Function.comp]
  rw [cdiv_eq_NB g.n0 g.b0 (b0_pos hg), cdiv_eq_NB g.n1 g.b1 (b1_pos hg)]
  show _ ↔ ∃ bi bx bz, (_ ∧ bi < g.NB0) ∧ (_ ∧ bx < g.NB1) ∧ _ ∧ _
  have hk : cdiv (k + 1) g.b2 = k / g.b2 + 1 := by
    have := (div_range k (k + 1) g.b2 (k / g.b2) (b2_pos hg) (by omega)).mp ⟨k, by omega, by omega, rfl⟩
    have h3 : ¬ (k / g.b2 + 1 < cdiv (k + 1) g.b2) := by
      intro hlt
      obtain ⟨i, a1, a2, a3⟩ := (div_range k (k + 1) g.b2 (k / g.b2 + 1) (b2_pos hg) (by omega)).mpr ⟨by omega, hlt⟩
      have : i = k := by omega
      subst this; omega
    omega
  simp only [Nat.zero_div, Nat.zero_le, true_and, hk]
  constructor
  · rintro ⟨f, ⟨n, hn, rfl⟩, ht⟩
    rw [show k / g.b2 * 4096 + k % g.b2 / 4 * g.u + n * g.chunk
        = 4096 * (n * g.NB2 + k / g.b2) + k % g.b2 / 4 * g.u by unfold Geo.chunk; ring,
      touches_within _ _ _ _ hcell (u_pos hg)] at ht
    have hNB1 : 0 < g.NB1 := by
      rcases Nat.eq_zero_or_pos g.NB1 with h | h
      · rw [h] at hn; simp at hn
      · exact h
    refine ⟨n / g.NB1, n % g.NB1, k / g.b2, ?_, Nat.mod_lt _ hNB1, by omega, ?_⟩
    · rw [Nat.div_lt_iff_lt_mul hNB1]; exact hn
    · rw [div_add_mod' n g.NB1]; exact ht
  · rintro ⟨bi, bx, bz, hbi, hbx, hbz, rfl⟩
    have : bz = k / g.b2 := by omega
    subst this
    refine ⟨_, ⟨bi * g.NB1 + bx, lt_of_mixed _ _ _ _ hbi hbx, rfl⟩, ?_⟩
    rw [show k / g.b2 * 4096 + k % g.b2 / 4 * g.u + (bi * g.NB1 + bx) * g.chunk
        = 4096 * ((bi * g.NB1 + bx) * g.NB2 + k / g.b2) + k % g.b2 / 4 * g.u by unfold Geo.chunk; ring,
      touches_within _ _ _ _ hcell (u_pos hg)]

/-- z-slice set in the `N×N×4` layouts: one whole block per tile -/
theorem touched_zsliceAdv (g : Geo) (hg : g.Valid) (k B : Nat) :
    Touched (Loader.zsliceAdv g (k / g.b2)).fetches B ↔ Needed g 0 g.n0 0 g.n1 k (k + 1) B := by
  rw [needed_iff g hg _ _ _ _ _ _ _ hg.2.2.2.2.2.2.2.2.1 hg.2.2.2.2.2.2.2.2.2.1 (by omega)]
  unfold Touched Loader.zsliceAdv Loader.zsliceAdvFetch
  simp only [List.mem_map, List.mem_range]
  rw [cdiv_eq_NB g.n0 g.b0 (b0_pos hg), cdiv_eq_NB g.n1 g.b1 (b1_pos hg)]
  show _ ↔ ∃ bi bx bz, (_ ∧ bi < g.NB0) ∧ (_ ∧ bx < g.NB1) ∧ _ ∧ _
  have hk : cdiv (k + 1) g.b2 = k / g.b2 + 1 := by
    have := (div_range k (k + 1) g.b2 (k / g.b2) (b2_pos hg) (by omega)).mp ⟨k, by omega, by omega, rfl⟩
    have h3 : ¬ (k / g.b2 + 1 < cdiv (k + 1) g.b2) := by
      intro hlt
      obtain ⟨i, a1, a2, a3⟩ := (div_range k (k + 1) g.b2 (k / g.b2 + 1) (b2_pos hg) (by omega)).mpr ⟨by omega, hlt⟩
      have : i = k := by omega
      subst this; omega
    omega
  simp only [Nat.zero_div, Nat.zero_le, true_and, hk]
  constructor
  · rintro ⟨f, ⟨n, hn, rfl⟩, ht⟩
    rw [show k / g.b2 * 4096 + (n / g.NB1 * g.NB1 + n % g.NB1) * (4096 * g.NB2)
        = 4096 * ((n / g.NB1 * g.NB1 + n % g.NB1) * g.NB2 + k / g.b2) by ring, touches_block] at ht
    have hNB1 : 0 < g.NB1 := by
      rcases Nat.eq_zero_or_pos g.NB1 with h | h
      · rw [h] at hn; simp at hn
      · exact h
    refine ⟨n / g.NB1, n % g.NB1, k / g.b2, ?_, Nat.mod_lt _ hNB1, by omega, ht⟩
    rw [Nat.div_lt_iff_lt_mul hNB1]; exact hn
  · rintro ⟨bi, bx, bz, hbi, hbx, hbz, rfl⟩
    have : bz = k / g.b2 := by omega
    subst this
    refine ⟨_, ⟨bi * g.NB1 + bx, lt_of_mixed _ _ _ _ hbi hbx, rfl⟩, ?_⟩
    rw [div_mixed _ _ _ hbx, mod_mixed _ _ _ hbx,
      show k / g.b2 * 4096 + (bi * g.NB1 + bx) * (4096 * g.NB2)
        = 4096 * ((bi * g.NB1 + bx) * g.NB2 + k / g.b2) by ring, touches_block]

end Sgz

namespace Sgz
open Geo

theorem NB1_pos (g : Geo) (hg : g.Valid) : 0 < g.NB1 := by
  have h := n1_le hg
  have := hg.2.2.2.2.2.2.2.2.2.1
  rcases Nat.eq_zero_or_pos g.NB1 with h0 | h0
  · rw [P1_eq hg, h0] at h; omega
  · exact h0
theorem NB2_pos (g : Geo) (hg : g.Valid) : 0 < g.NB2 := by
  have h := n2_le hg
  have := hg.2.2.2.2.2.2.2.2.2.2
  rcases Nat.eq_zero_or_pos g.NB2 with h0 | h0
  · rw [P2_eq hg, h0] at h; omega
  · exact h0

theorem sorted_ilSet (g : Geo) (i : Nat) : SortedFetches (Loader.ilSet g i).fetches := by
  unfold SortedFetches Loader.ilSet fetchesOf Loader.ilSetCopies; simp

theorem sorted_xlSet (g : Geo) (hg : g.Valid) (h1 : g.b1 = 4) (x : Nat) :
    SortedFetches (Loader.xlSet g x).fetches := by
  have hP1 := NB1_default g hg h1
  have h1p := NB1_pos g hg
  have e : g.chunk * g.P1 / 4 = g.NB1 * g.chunk := by
    rw [hP1]
    have : g.chunk * (4 * g.NB1) = 4 * (g.NB1 * g.chunk) := by ring
    rw [this, Nat.mul_div_cancel_left _ (by decide : 0 < 4)]
  unfold SortedFetches Loader.xlSet fetchesOf Loader.xlSetCopies
  simp only [List.map_map, e]
  apply pairwise_range_map
  intro a b hab _
  simp only [Function.comp]
  have h2 : (a + 1) * (g.NB1 * g.chunk) ≤ b * (g.NB1 * g.chunk) := Nat.mul_le_mul_right _ hab
  rw [Nat.add_mul, Nat.one_mul] at h2
  have h3 : 1 * g.chunk ≤ g.NB1 * g.chunk := Nat.mul_le_mul_right _ h1p
  omega

theorem sorted_zsliceSet (g : Geo) (hg : g.Valid) (h0 : g.b0 = 4) (h1 : g.b1 = 4) (k : Nat) :
    SortedFetches (Loader.zsliceSet g k).fetches := by
  have hcu := block_bytes_default hg h0 h1
  have h2p := NB2_pos g hg
  have hu : g.u ≤ g.chunk := by
    have : 0 < g.b2 / 4 := by
      rcases Nat.eq_zero_or_pos (g.b2 / 4) with h | h
      · rw [h] at hcu; simp at hcu
      · exact h
    have h3 : 1 * g.u ≤ g.b2 / 4 * g.u := Nat.mul_le_mul_right _ this
    unfold Geo.chunk
    have h4 : 4096 * 1 ≤ 4096 * g.NB2 := Nat.mul_le_mul_left _ h2p
    omega
  unfold SortedFetches Loader.zsliceSet fetchesOf Loader.zsliceSetCopies
  simp only [List.map_map]
  apply pairwise_range_map
  intro a b hab _
  simp only [Function.comp]
  have h2 : (a + 1) * g.chunk ≤ b * g.chunk := Nat.mul_le_mul_right _ hab
  rw [Nat.add_mul, Nat.one_mul] at h2
  omega

theorem sorted_zsliceAdv (g : Geo) (hg : g.Valid) (zb : Nat) : SortedFetches (Loader.zsliceAdv g zb).fetches := by
  have h1p := NB1_pos g hg
  have h2p := NB2_pos g hg
  unfold SortedFetches Loader.zsliceAdv Loader.zsliceAdvFetch
  apply pairwise_range_map
  intro a b hab _
  simp only
  rw [div_add_mod' a g.NB1, div_add_mod' b g.NB1]
  have h2 : (a + 1) * (4096 * g.NB2) ≤ b * (4096 * g.NB2) := Nat.mul_le_mul_right _ hab
  rw [Nat.add_mul, Nat.one_mul] at h2
  have h4 : 4096 * 1 ≤ 4096 * g.NB2 := Nat.mul_le_mul_left _ h2p
  omega

/-- the verdict of C07 for one call: it succeeds, the set of 4 KiB blocks it touches is exactly the set of blocks that
hold a sample of the box, and no byte is fetched twice -/
def FetchExact (g : Geo) (r : R) (i0 i1 x0 x1 z0 z1 : Nat) : Prop :=
  ∃ o, r = .ok o ∧ (∀ B, Touched o.fetches B ↔ Needed g i0 i1 x0 x1 z0 z1 B) ∧ DisjointFetches o.fetches

theorem readSubvolume_fetch (g : Geo) (hg : g.Valid) (ap : Bool) (i0 i1 x0 x1 z0 z1 : Nat)
    (hi : i0 < i1 ∧ i1 ≤ (if ap then g.P0 else g.n0)) (hx : x0 < x1 ∧ x1 ≤ (if ap then g.P1 else g.n1))
    (hz : z0 < z1 ∧ z1 ≤ (if ap then g.P2 else g.n2)) :
    FetchExact g (Reader.readSubvolume g ap i0 i1 x0 x1 z0 z1) i0 i1 x0 x1 z0 z1 := by
  have h2d := not2d_of_valid g hg
  have hx1 : x1 ≤ g.P1 := by have := n1_le hg; cases ap <;> simp at hx <;> omega
  have hz1 : z1 ≤ g.P2 := by have := n2_le hg; cases ap <;> simp at hz <;> omega
  have r0 : Reader.rangeOk (i0 : Int) i1 (if ap then (g.P0 : Int) else g.n0) = true := by
    rw [rangeOk_iff]; cases ap <;> simp at hi ⊢ <;> omega
  have r1 : Reader.rangeOk (x0 : Int) x1 (if ap then (g.P1 : Int) else g.n1) = true := by
    rw [rangeOk_iff]; cases ap <;> simp at hx ⊢ <;> omega
  have r2 : Reader.rangeOk (z0 : Int) z1 (if ap then (g.P2 : Int) else g.n2) = true := by
    rw [rangeOk_iff]; cases ap <;> simp at hz ⊢ <;> omega
  unfold FetchExact Reader.readSubvolume
  simp only [h2d, r0, r1, r2, Bool.false_eq_true, if_false, Bool.not_true, Int.toNat_natCast]
  by_cases hd : Reader.isDefault g = true
  · simp only [hd, if_true]
    have h0 : g.b0 = 4 := by simp [Reader.isDefault] at hd; exact hd.1
    have h1 : g.b1 = 4 := by simp [Reader.isDefault] at hd; exact hd.2
    exact ⟨_, rfl, fun B => touched_chunkRange g hg h0 h1 _ _ _ _ _ _ B hi.1 hx.1 hz.1 hz1,
      (disjoint_chunkRange g hg h0 h1 _ _ _ _ _ _ hx1 hz1).disjoint⟩
  · simp only [hd, Bool.false_eq_true, if_false]
    exact ⟨_, rfl, fun B => touched_unshuffle g hg _ _ _ _ _ _ B hi.1 hx.1 hz.1,
      (disjoint_unshuffle g hg _ _ _ _ _ _ hx1 hz1).disjoint⟩

end Sgz

namespace Sgz
open Geo

theorem fetchExact_squeeze0 (g : Geo) (r : R) (a b c d e f : Nat) (h : FetchExact g r a b c d e f)
    (h3 : ∃ n m k fn fs, r = .ok ⟨.a3 n m k fn, fs⟩) : FetchExact g (Reader.squeeze0 r) a b c d e f := by
  obtain ⟨n, m, k, fn, fs, rfl⟩ := h3
  obtain ⟨o, ho, h1, h2⟩ := h
  cases ho
  exact ⟨_, rfl, h1, h2⟩
theorem fetchExact_squeeze1 (g : Geo) (r : R) (a b c d e f : Nat) (h : FetchExact g r a b c d e f)
    (h3 : ∃ n m k fn fs, r = .ok ⟨.a3 n m k fn, fs⟩) : FetchExact g (Reader.squeeze1 r) a b c d e f := by
  obtain ⟨n, m, k, fn, fs, rfl⟩ := h3
  obtain ⟨o, ho, h1, h2⟩ := h
  cases ho
  exact ⟨_, rfl, h1, h2⟩
theorem fetchExact_squeeze2 (g : Geo) (r : R) (a b c d e f : Nat) (h : FetchExact g r a b c d e f)
    (h3 : ∃ n m k fn fs, r = .ok ⟨.a3 n m k fn, fs⟩) : FetchExact g (Reader.squeeze2 r) a b c d e f := by
  obtain ⟨n, m, k, fn, fs, rfl⟩ := h3
  obtain ⟨o, ho, h1, h2⟩ := h
  cases ho
  exact ⟨_, rfl, h1, h2⟩

theorem readInline_fetch (g : Geo) (hg : g.Valid) (k : Nat) (hk : k < g.n0) :
    FetchExact g (Reader.readInline g k) k (k + 1) 0 g.n1 0 g.n2 := by
  have h2d := not2d_of_valid g hg
  unfold Reader.readInline
  simp only [h2d, guard_nat k g.n0 hk, Bool.false_eq_true, if_false, Int.toNat_natCast]
  by_cases hd : Reader.isDefault g = true
  · simp only [hd, if_true]
    have h0 : g.b0 = 4 := by simp [Reader.isDefault] at hd; exact hd.1
    have h1 : g.b1 = 4 := by simp [Reader.isDefault] at hd; exact hd.2
    exact ⟨_, rfl, fun B => touched_ilSet g hg h0 h1 k B, (sorted_ilSet g _).disjoint⟩
  · simp only [hd, Bool.false_eq_true, if_false]
    have hs := readSubvolume_fetch g hg false k (k + 1) 0 g.n1 0 g.n2
      (by simp; omega) (by simp; exact hg.2.2.2.2.2.2.2.2.2.1) (by simp; exact hg.2.2.2.2.2.2.2.2.2.2)
    obtain ⟨f, fs, hf, _⟩ := readSubvolume_ok g hg false k (k + 1) 0 g.n1 0 g.n2
      (by simp; omega) (by simp; exact hg.2.2.2.2.2.2.2.2.2.1) (by simp; exact hg.2.2.2.2.2.2.2.2.2.2)
    push_cast at hs hf
    exact fetchExact_squeeze0 g _ _ _ _ _ _ _ hs ⟨_, _, _, _, _, hf⟩

theorem readCrossline_fetch (g : Geo) (hg : g.Valid) (k : Nat) (hk : k < g.n1) :
    FetchExact g (Reader.readCrossline g k) 0 g.n0 k (k + 1) 0 g.n2 := by
  have h2d := not2d_of_valid g hg
  unfold Reader.readCrossline
  simp only [h2d, guard_nat k g.n1 hk, Bool.false_eq_true, if_false, Int.toNat_natCast]
  by_cases hd : Reader.isDefault g = true
  · simp only [hd, if_true]
    have h0 : g.b0 = 4 := by simp [Reader.isDefault] at hd; exact hd.1
    have h1 : g.b1 = 4 := by simp [Reader.isDefault] at hd; exact hd.2
    exact ⟨_, rfl, fun B => touched_xlSet g hg h0 h1 k B, (sorted_xlSet g hg h1 _).disjoint⟩
  · simp only [hd, Bool.false_eq_true, if_false]
    have hs := readSubvolume_fetch g hg false 0 g.n0 k (k + 1) 0 g.n2
      (by simp; exact hg.2.2.2.2.2.2.2.2.1) (by simp; omega) (by simp; exact hg.2.2.2.2.2.2.2.2.2.2)
    obtain ⟨f, fs, hf, _⟩ := readSubvolume_ok g hg false 0 g.n0 k (k + 1) 0 g.n2
      (by simp; exact hg.2.2.2.2.2.2.2.2.1) (by simp; omega) (by simp; exact hg.2.2.2.2.2.2.2.2.2.2)
    push_cast at hs hf
    exact fetchExact_squeeze1 g _ _ _ _ _ _ _ hs ⟨_, _, _, _, _, hf⟩

theorem readZslice_fetch (g : Geo) (hg : g.Valid) (k : Nat) (hk : k < g.n2) :
    FetchExact g (Reader.readZslice g k) 0 g.n0 0 g.n1 k (k + 1) := by
  have h2d := not2d_of_valid g hg
  unfold Reader.readZslice
  simp only [h2d, guard_nat k g.n2 hk, Bool.false_eq_true, if_false, Int.toNat_natCast]
  by_cases hd : Reader.isDefault g = true
  · simp only [hd, if_true]
    have h0 : g.b0 = 4 := by simp [Reader.isDefault] at hd; exact hd.1
    have h1 : g.b1 = 4 := by simp [Reader.isDefault] at hd; exact hd.2
    exact ⟨_, rfl, fun B => touched_zsliceSet g hg h0 h1 k B, (sorted_zsliceSet g hg h0 h1 _).disjoint⟩
  · simp only [hd, Bool.false_eq_true, if_false]
    by_cases h4 : (g.b2 == 4) = true
    · simp only [h4, if_true]
      exact ⟨_, rfl, fun B => touched_zsliceAdv g hg k B, (sorted_zsliceAdv g hg _).disjoint⟩
    · simp only [h4, Bool.false_eq_true, if_false]
      have hs := readSubvolume_fetch g hg false 0 g.n0 0 g.n1 k (k + 1)
        (by simp; exact hg.2.2.2.2.2.2.2.2.1) (by simp; exact hg.2.2.2.2.2.2.2.2.2.1) (by simp; omega)
      obtain ⟨f, fs, hf, _⟩ := readSubvolume_ok g hg false 0 g.n0 0 g.n1 k (k + 1)
        (by simp; exact hg.2.2.2.2.2.2.2.2.1) (by simp; exact hg.2.2.2.2.2.2.2.2.2.1) (by simp; omega)
      push_cast at hs hf
      exact fetchExact_squeeze2 g _ _ _ _ _ _ _ hs ⟨_, _, _, _, _, hf⟩

end Sgz

namespace Sgz
open Geo

theorem cdiv_aligned (q b : Nat) (hb : 0 < b) : cdiv (b * q + b) b = q + 1 := by
  unfold cdiv
  have : b * q + b + b - 1 = (q + 1) * b + (b - 1) := by rw [Nat.add_mul, Nat.one_mul, Nat.mul_comm]; omega
  rw [this]; exact div_mixed _ _ _ (by omega)

theorem cdiv_succ (i b : Nat) (hb : 0 < b) : cdiv (i + 1) b = i / b + 1 := by
  unfold cdiv
  have h := Nat.div_add_mod i b
  have hm := Nat.mod_lt i hb
  have : i + 1 + b - 1 = (i / b + 1) * b + i % b := by rw [Nat.add_mul, Nat.one_mul, Nat.mul_comm]; omega
  rw [this]; exact div_mixed _ _ _ hm

theorem cdiv_mul_cdiv (n b : Nat) (hb : 0 < b) : cdiv (b * cdiv n b) b = cdiv n b := by
  generalize cdiv n b = q
  unfold cdiv
  rcases Nat.eq_zero_or_pos q with h | h
  · subst h; simp; omega
  · have : b * q + b - 1 = q * b + (b - 1) := by rw [Nat.mul_comm]; omega
    rw [this]; exact div_mixed _ _ _ (by omega)

/-- **trace** (3D): the chunk read for a trace window touches exactly the blocks of the trace's own column that meet
the window -/
theorem getTrace_fetch (g : Geo) (hg : g.Valid) (t a b : Nat) (ht : t < g.n0 * g.n1) (hab : a < b) (hb : b ≤ g.n2) :
    FetchExact g (Reader.getTrace g t a b) (t / g.n1) (t / g.n1 + 1) (t % g.n1) (t % g.n1 + 1) a b := by
  have h2d := not2d_of_valid g hg
  have hn1 : 0 < g.n1 := hg.2.2.2.2.2.2.2.2.2.1
  have hil : t / g.n1 < g.n0 := by rw [Nat.div_lt_iff_lt_mul hn1]; exact ht
  have hxl : t % g.n1 < g.n1 := Nat.mod_lt _ hn1
  have hb0 := b0_pos hg
  have hb1 := b1_pos hg
  have hb2 := b2_pos hg
  have hwin : Reader.windowOk g (a : Int) (b : Int) = true := by
    simp [Reader.windowOk]; omega
  have hguard : (!(decide (0 ≤ (t : Int)) && decide ((t : Int) < (g.n0 : Int) * (g.n1 : Int)))) = false := by
    simp; exact_mod_cast ht
  have hzlt : g.b2 * (a / g.b2) < g.b2 * cdiv b g.b2 := by
    have h1 : g.b2 * (a / g.b2) ≤ a := Nat.mul_div_le a g.b2
    have h2 := le_mul_cdiv b g.b2 hb2
    omega
  have hyp0 : g.b0 * (t / g.n1 / g.b0) < g.b0 * (t / g.n1 / g.b0) + g.b0 ∧
      g.b0 * (t / g.n1 / g.b0) + g.b0 ≤ (if true = true then g.P0 else g.n0) := by
    simp; exact ⟨hb0, block_fits _ _ _ hb0 hil⟩
  have hyp1 : g.b1 * (t % g.n1 / g.b1) < g.b1 * (t % g.n1 / g.b1) + g.b1 ∧
      g.b1 * (t % g.n1 / g.b1) + g.b1 ≤ (if true = true then g.P1 else g.n1) := by
    simp; exact ⟨hb1, block_fits _ _ _ hb1 hxl⟩
  have hyp2 : g.b2 * (a / g.b2) < g.b2 * cdiv b g.b2 ∧ g.b2 * cdiv b g.b2 ≤ (if true = true then g.P2 else g.n2) := by
    simp; exact ⟨hzlt, cdiv_fits b g.n2 g.b2 hb2 hb⟩
  obtain ⟨f, fs, hf, _⟩ := readSubvolume_ok g hg true _ _ _ _ _ _ hyp0 hyp1 hyp2
  obtain ⟨o, ho, hT, hD⟩ := readSubvolume_fetch g hg true _ _ _ _ _ _ hyp0 hyp1 hyp2
  rw [hf] at ho
  cases ho
  unfold FetchExact Reader.getTrace
  simp only [hwin, h2d, hguard, Bool.not_true, Bool.false_eq_true, if_false, Int.toNat_natCast]
  have hf' : Reader.readSubvolume g true ((g.b0 * (t / g.n1 / g.b0) : Nat) : Int)
      (((g.b0 * (t / g.n1 / g.b0) : Nat) : Int) + (g.b0 : Int))
      ((g.b1 * (t % g.n1 / g.b1) : Nat) : Int) (((g.b1 * (t % g.n1 / g.b1) : Nat) : Int) + (g.b1 : Int))
      ((g.b2 * (a / g.b2) : Nat) : Int) ((g.b2 * cdiv b g.b2 : Nat) : Int)
      = .ok ⟨.a3 (g.b0 * (t / g.n1 / g.b0) + g.b0 - g.b0 * (t / g.n1 / g.b0))
          (g.b1 * (t % g.n1 / g.b1) + g.b1 - g.b1 * (t % g.n1 / g.b1))
          (g.b2 * cdiv b g.b2 - g.b2 * (a / g.b2)) f, fs⟩ := by
    have := hf; push_cast at this; exact this
  rw [hf']
  refine ⟨_, rfl, ?_, hD⟩
  intro B
  simp only at hT
  rw [hT B, needed_iff g hg _ _ _ _ _ _ _ hyp0.1 hyp1.1 hzlt,
    needed_iff g hg _ _ _ _ _ _ _ (by omega) (by omega) hab]
  rw [cdiv_aligned _ _ hb0, cdiv_aligned _ _ hb1, cdiv_succ _ _ hb0, cdiv_succ _ _ hb1, cdiv_mul_cdiv _ _ hb2,
    Nat.mul_div_cancel_left _ hb0, Nat.mul_div_cancel_left _ hb1, Nat.mul_div_cancel_left _ hb2]

end Sgz

/-! ## 2D -/
namespace Sgz
open Geo

def Spec.block2d (g : Geo) (t z : Nat) : Nat := (t / g.b1) * g.NB2 + z / g.b2

def Needed2 (g : Geo) (t0 t1 z0 z1 : Nat) (B : Nat) : Prop :=
  ∃ t z, t0 ≤ t ∧ t < t1 ∧ z0 ≤ z ∧ z < z1 ∧ Spec.block2d g t z = B

theorem needed2_iff (g : Geo) (hg : g.Valid2d) (t0 t1 z0 z1 B : Nat) (ht : t0 < t1) (hz : z0 < z1) :
    Needed2 g t0 t1 z0 z1 B ↔
      ∃ bx bz, (t0 / g.b1 ≤ bx ∧ bx < cdiv t1 g.b1) ∧ (z0 / g.b2 ≤ bz ∧ bz < cdiv z1 g.b2) ∧ bx * g.NB2 + bz = B := by
  unfold Needed2 Spec.block2d
  constructor
  · rintro ⟨t, z, a3, a4, a5, a6, rfl⟩
    exact ⟨t / g.b1, z / g.b2,
      (div_range t0 t1 g.b1 _ (v2_b1_pos hg) ht).mp ⟨t, a3, a4, rfl⟩,
      (div_range z0 z1 g.b2 _ (v2_b2_pos hg) hz).mp ⟨z, a5, a6, rfl⟩, rfl⟩
  · rintro ⟨bx, bz, hbx, hbz, rfl⟩
    obtain ⟨x, a3, a4, rfl⟩ := (div_range t0 t1 g.b1 bx (v2_b1_pos hg) ht).mpr hbx
    obtain ⟨z, a5, a6, rfl⟩ := (div_range z0 z1 g.b2 bz (v2_b2_pos hg) hz).mpr hbz
    exact ⟨x, z, a3, a4, a5, a6, rfl⟩

def FetchExact2 (g : Geo) (r : R) (t0 t1 z0 z1 : Nat) : Prop :=
  ∃ o, r = .ok o ∧ (∀ B, Touched o.fetches B ↔ Needed2 g t0 t1 z0 z1 B) ∧ DisjointFetches o.fetches

theorem v2_cdiv_le_NB2 (g : Geo) (hg : g.Valid2d) (z1 : Nat) (hz : z1 ≤ g.P2) : cdiv z1 g.b2 ≤ g.NB2 := by
  have hb2 := v2_b2_pos hg
  have h1 := cdiv_fits z1 g.P2 g.b2 hb2 hz
  have h2 : pad g.P2 g.b2 = g.P2 := by
    unfold pad; simp [Nat.mod_eq_zero_of_dvd (pad_dvd g.n2 g.b2 hb2), Geo.P2]
  have h3 : g.P2 = g.NB2 * g.b2 := (pad_div_mul g.n2 g.b2 hb2).symm
  rw [h2, h3, Nat.mul_comm] at h1
  exact Nat.le_of_mul_le_mul_right h1 hb2

/-- **2D sub-plane**: exactly the blocks the window meets, none twice -/
theorem readSubplane_fetch (g : Geo) (hg : g.Valid2d) (ap : Bool) (t0 t1 z0 z1 : Nat)
    (ht : t0 < t1 ∧ t1 ≤ (if ap then g.P1 else g.n1)) (hz : z0 < z1 ∧ z1 ≤ (if ap then g.P2 else g.n2)) :
    FetchExact2 g (Reader.readSubplane g ap t0 t1 z0 z1) t0 t1 z0 z1 := by
  have h2d := is2d_of_valid2d g hg
  have hb1 := v2_b1_pos hg
  have hb2 := v2_b2_pos hg
  have hz1 : z1 ≤ g.P2 := by have := le_pad g.n2 g.b2 hb2; cases ap <;> simp [Geo.P2] at hz ⊢ <;> omega
  have r1 : Reader.rangeOk (t0 : Int) t1 (if ap then (g.P1 : Int) else g.n1) = true := by
    rw [rangeOk_iff]; cases ap <;> simp at ht ⊢ <;> omega
  have r2 : Reader.rangeOk (z0 : Int) z1 (if ap then (g.P2 : Int) else g.n2) = true := by
    rw [rangeOk_iff]; cases ap <;> simp at hz ⊢ <;> omega
  unfold FetchExact2 Reader.readSubplane
  simp only [h2d, r1, r2, Bool.not_true, Bool.false_eq_true, if_false, Int.toNat_natCast]
  refine ⟨_, rfl, ?_, ?_⟩
  · intro B
    rw [needed2_iff g hg _ _ _ _ _ ht.1 hz.1]
    unfold Touched Loader.unshuffle2d Loader.unshuffle2dFetches
    simp only [List.mem_flatMap, List.mem_map, List.mem_range, cdiv_mul_cdiv _ _ hb1, cdiv_mul_cdiv _ _ hb2,
      Nat.mul_div_cancel_left _ hb1, Nat.mul_div_cancel_left _ hb2]
    constructor
    · rintro ⟨f, ⟨nx, hnx, nz, hnz, rfl⟩, ht'⟩
      rw [show g.chunk * (t0 / g.b1 + nx) + 4096 * (z0 / g.b2 + nz)
        = 4096 * ((t0 / g.b1 + nx) * g.NB2 + (z0 / g.b2 + nz)) by unfold Geo.chunk; ring, touches_block] at ht'
      exact ⟨t0 / g.b1 + nx, z0 / g.b2 + nz, by omega, by omega, ht'⟩
    · rintro ⟨bx, bz, hbx, hbz, rfl⟩
      refine ⟨_, ⟨bx - t0 / g.b1, by omega, bz - z0 / g.b2, by omega, rfl⟩, ?_⟩
      have e1 : t0 / g.b1 + (bx - t0 / g.b1) = bx := by omega
      have e2 : z0 / g.b2 + (bz - z0 / g.b2) = bz := by omega
      rw [e1, e2, show g.chunk * bx + 4096 * bz = 4096 * (bx * g.NB2 + bz) by unfold Geo.chunk; ring, touches_block]
  · apply SortedFetches.disjoint
    have hNB := v2_cdiv_le_NB2 g hg z1 hz1
    unfold SortedFetches Loader.unshuffle2d Loader.unshuffle2dFetches
    simp only [cdiv_mul_cdiv _ _ hb1, cdiv_mul_cdiv _ _ hb2,
      Nat.mul_div_cancel_left _ hb1, Nat.mul_div_cancel_left _ hb2]
    generalize t0 / g.b1 = qt at *
    generalize z0 / g.b2 = qz at *
    apply pairwise_range_flatMap
    · intro nx _
      apply pairwise_range_map
      intro a b hab _
      simp only
      omega
    · intro nx nx' hlt _ f hf f' hf'
      simp only [List.mem_map, List.mem_range] at hf hf'
      obtain ⟨nz, hnz, rfl⟩ := hf
      obtain ⟨nz', hnz', rfl⟩ := hf'
      simp only
      have h3 : g.chunk * (qt + nx + 1) ≤ g.chunk * (qt + nx') := Nat.mul_le_mul_left _ (by omega)
      rw [Nat.mul_add, Nat.mul_one] at h3
      have h4 : 4096 * (qz + nz + 1) ≤ 4096 * g.NB2 := Nat.mul_le_mul_left _ (by omega)
      unfold Geo.chunk at *
      omega

end Sgz

namespace Sgz
open Geo

/-- **2D trace** (with or without a sample window): exactly the blocks of the trace's group that meet the window -/
theorem getTrace2d_fetch (g : Geo) (hg : g.Valid2d) (t a b : Nat) (ht : t < g.n1) (hab : a < b) (hb : b ≤ g.n2) :
    FetchExact2 g (Reader.getTrace g t a b) t (t + 1) a b := by
  have h2d := is2d_of_valid2d g hg
  have hb1 := v2_b1_pos hg
  have hb2 := v2_b2_pos hg
  have hwin : Reader.windowOk g (a : Int) (b : Int) = true := by simp [Reader.windowOk]; omega
  have hguard := guard_nat t g.n1 ht
  have hza : g.b2 * (a / g.b2) ≤ a := Nat.mul_div_le a g.b2
  have hzb := le_mul_cdiv b g.b2 hb2
  unfold Reader.getTrace
  simp only [hwin, h2d, hguard, Bool.not_true, Bool.false_eq_true, if_false, if_true, Int.toNat_natCast]
  by_cases hfast : (g.b1 == 4 && g.b2 * (a / g.b2) == 0 && g.b2 * cdiv b g.b2 == g.P2) = true
  · simp only [hfast, if_true]
    simp only [Bool.and_eq_true, beq_iff_eq] at hfast
    obtain ⟨⟨h1, hz0⟩, hz1⟩ := hfast
    have ha0 : a / g.b2 = 0 := by
      rcases Nat.mul_eq_zero.mp hz0 with h | h
      · omega
      · exact h
    have hcb : cdiv b g.b2 = g.NB2 := by
      have h3 : g.P2 = g.NB2 * g.b2 := (pad_div_mul g.n2 g.b2 hb2).symm
      rw [h3, Nat.mul_comm] at hz1
      exact Nat.eq_of_mul_eq_mul_right hb2 hz1
    refine ⟨_, rfl, ?_, ?_⟩
    · intro B
      rw [needed2_iff g hg _ _ _ _ _ (by omega) hab, cdiv_succ _ _ hb1, ha0, hcb]
      unfold Touched Loader.traceRange fetchesOf Loader.traceRangeCopies
      simp only [List.map_cons, List.map_nil, List.mem_singleton, exists_eq_left, h1,
        Nat.mul_div_cancel_left _ (by decide : 0 < 4)]
      rw [show (4 * (t / 4) + 4 - 4 * (t / 4) + 4 - 1) / 4 = 1 by omega, Nat.mul_one,
        show g.chunk * (t / 4) = 4096 * ((t / 4) * g.NB2) by unfold Geo.chunk; ring,
        show g.chunk = 4096 * g.NB2 from rfl, touches_run]
      constructor
      · rintro ⟨h3, h4⟩
        exact ⟨t / 4, B - t / 4 * g.NB2, by omega, by omega, by omega⟩
      · rintro ⟨bx, bz, hbx, hbz, rfl⟩
        have : bx = t / 4 := by omega
        subst this; omega
    · unfold DisjointFetches Loader.traceRange fetchesOf Loader.traceRangeCopies; simp
  · simp only [hfast, Bool.false_eq_true, if_false]
    have hyp1 : g.b1 * (t / g.b1) < g.b1 * (t / g.b1) + g.b1 ∧
        g.b1 * (t / g.b1) + g.b1 ≤ (if true = true then g.P1 else g.n1) := by
      simp; exact ⟨hb1, block_fits _ _ _ hb1 ht⟩
    have hyp2 : g.b2 * (a / g.b2) < g.b2 * cdiv b g.b2 ∧ g.b2 * cdiv b g.b2 ≤ (if true = true then g.P2 else g.n2) := by
      simp; exact ⟨by omega, cdiv_fits b g.n2 g.b2 hb2 hb⟩
    obtain ⟨f, fs, hf, _⟩ := readSubplane_ok g hg true _ _ _ _ hyp1 hyp2
    obtain ⟨o, ho, hT, hD⟩ := readSubplane_fetch g hg true _ _ _ _ hyp1 hyp2
    rw [hf] at ho
    cases ho
    have hf' : Reader.readSubplane g true ((g.b1 * (t / g.b1) : Nat) : Int)
        (((g.b1 * (t / g.b1) : Nat) : Int) + (g.b1 : Int)) ((g.b2 * (a / g.b2) : Nat) : Int)
        ((g.b2 * cdiv b g.b2 : Nat) : Int)
        = .ok ⟨.a2 (g.b1 * (t / g.b1) + g.b1 - g.b1 * (t / g.b1)) (g.b2 * cdiv b g.b2 - g.b2 * (a / g.b2)) f, fs⟩ := by
      have := hf; push_cast at this; exact this
    rw [hf']
    refine ⟨_, rfl, ?_, hD⟩
    intro B
    simp only at hT
    rw [hT B, needed2_iff g hg _ _ _ _ _ hyp1.1 hyp2.1, needed2_iff g hg _ _ _ _ _ (by omega) hab,
      cdiv_aligned _ _ hb1, cdiv_succ _ _ hb1, cdiv_mul_cdiv _ _ hb2,
      Nat.mul_div_cancel_left _ hb1, Nat.mul_div_cancel_left _ hb2]

end Sgz
