import Sgz.Model.Cache
/-!
# Proofs/Cache — whatever the history, a call returns what a fresh reader returns
-/
namespace Sgz
namespace Cache

/-- the array (or refusal) of a result, without the I/O it cost -/
def arrOf (r : R) : Except Err Arr := r.map (·.arr)

/-- every remembered value is what the loader / reader computes for its key on this file -/
structure Inv (g : Geo) (st : St) : Prop where
  slots : ∀ e ∈ st.slots, e.val = e.key.load g
  lru : ∀ c ∈ st.lru, ∃ fs, Reader.readSubvolume g true c.key.refIl (c.key.refIl + g.b0) c.key.refXl (c.key.refXl + g.b1)
      c.key.minZ c.key.maxZ = .ok ⟨.a3 c.n.1 c.n.2.1 c.n.2.2 c.val, fs⟩

theorem inv_init (g : Geo) : Inv g St.init :=
  { slots := by intro e he; cases he
    lru := by intro c hc; cases hc }

theorem callLoader_spec (g : Geo) (st : St) (h : Inv g st) (rid : Nat) (k : LKey) :
    (callLoader g st rid k).2.1 = k.load g ∧ Inv g (callLoader g st rid k).1 ∧ (callLoader g st rid k).1.lru = st.lru := by
  unfold callLoader
  cases hf : st.slots.find? (fun e => e.key.slot == k.slot) with
  | none =>
    refine ⟨rfl, { slots := ?_, lru := h.lru }, rfl⟩
    intro e he
    rcases List.mem_cons.mp he with rfl | he'
    · rfl
    · exact h.slots e he'
  | some e =>
    dsimp only
    have hmem : e ∈ st.slots := List.mem_of_find?_eq_some hf
    by_cases hk : (e.rid == rid && e.key == k) = true
    · have hkey : e.key = k := by simp at hk; exact hk.2
      rw [if_pos hk]
      exact ⟨by rw [h.slots e hmem, hkey], h, rfl⟩
    · rw [if_neg hk]
      refine ⟨rfl, { slots := ?_, lru := h.lru }, rfl⟩
      intro e' he'
      rcases List.mem_cons.mp he' with rfl | he''
      · rfl
      · exact h.slots e' (List.mem_filter.mp he'').1

/-- common shape of the conclusions: same array as the fresh reader, invariant kept, chunk LRU untouched -/
def Good (g : Geo) (st : St) (x : St × R) (pureR : R) : Prop :=
  arrOf x.2 = arrOf pureR ∧ Inv g x.1 ∧ x.1.lru = st.lru

theorem good_refuse (g : Geo) (st : St) (h : Inv g st) (e : Err) : Good g st (st, .error e) (.error e) := ⟨rfl, h, rfl⟩

theorem readSubvolume_spec (g : Geo) (cfg : Cfg) (st : St) (h : Inv g st) (rid : Nat) (ap mt : Bool)
    (i0 i1 x0 x1 z0 z1 : Int) :
    Good g st (readSubvolume g cfg st rid ap mt i0 i1 x0 x1 z0 z1) (Reader.readSubvolume g ap i0 i1 x0 x1 z0 z1) := by
  unfold readSubvolume Reader.readSubvolume
  dsimp only
  by_cases h2 : g.is2d = true
  · rw [if_pos h2, if_pos h2]; exact good_refuse g st h _
  rw [if_neg h2, if_neg h2]
  by_cases c0 : (!Reader.rangeOk i0 i1 (if ap = true then (g.P0 : Int) else g.n0)) = true
  · rw [if_pos c0, if_pos c0]; exact good_refuse g st h _
  rw [if_neg c0, if_neg c0]
  by_cases c1 : (!Reader.rangeOk x0 x1 (if ap = true then (g.P1 : Int) else g.n1)) = true
  · rw [if_pos c1, if_pos c1]; exact good_refuse g st h _
  rw [if_neg c1, if_neg c1]
  by_cases c2 : (!Reader.rangeOk z0 z1 (if ap = true then (g.P2 : Int) else g.n2)) = true
  · rw [if_pos c2, if_pos c2]; exact good_refuse g st h _
  rw [if_neg c2, if_neg c2]
  by_cases hd : Reader.isDefault g = true
  · rw [if_pos hd, if_pos hd]
    obtain ⟨e1, e2, e3⟩ := callLoader_spec g st h rid (.chunk i1.toNat x1.toNat z1.toNat i0.toNat x0.toNat z0.toNat mt)
    refine ⟨?_, e2, e3⟩
    simp only [arrOf, Except.map, e1, LKey.load]
  · rw [if_neg hd, if_neg hd]
    obtain ⟨e1, e2, e3⟩ := callLoader_spec g st h rid (.unsh i1.toNat x1.toNat z1.toNat i0.toNat x0.toNat z0.toNat)
    refine ⟨?_, e2, e3⟩
    simp only [arrOf, Except.map, e1, LKey.load]

theorem good_squeeze (g : Geo) (st : St) (x : St × R) (pr : R) (sq : R → R)
    (hsq : ∀ r r' : R, arrOf r = arrOf r' → arrOf (sq r) = arrOf (sq r')) (h : Good g st x pr) :
    Good g st (x.1, sq x.2) (sq pr) := ⟨hsq _ _ h.1, h.2.1, h.2.2⟩

theorem arrOf_congr_squeeze0 (r r' : R) (h : arrOf r = arrOf r') : arrOf (Reader.squeeze0 r) = arrOf (Reader.squeeze0 r') := by
  cases r <;> cases r' <;> simp_all [arrOf, Except.map, Reader.squeeze0]
  rename_i o o'; cases o; cases o'; simp_all
  rename_i a _; cases a <;> rfl
theorem arrOf_congr_squeeze1 (r r' : R) (h : arrOf r = arrOf r') : arrOf (Reader.squeeze1 r) = arrOf (Reader.squeeze1 r') := by
  cases r <;> cases r' <;> simp_all [arrOf, Except.map, Reader.squeeze1]
  rename_i o o'; cases o; cases o'; simp_all
  rename_i a _; cases a <;> rfl
theorem arrOf_congr_squeeze2 (r r' : R) (h : arrOf r = arrOf r') : arrOf (Reader.squeeze2 r) = arrOf (Reader.squeeze2 r') := by
  cases r <;> cases r' <;> simp_all [arrOf, Except.map, Reader.squeeze2]
  rename_i o o'; cases o; cases o'; simp_all
  rename_i a _; cases a <;> rfl

theorem readInline_spec (g : Geo) (cfg : Cfg) (st : St) (h : Inv g st) (rid : Nat) (k : Int) :
    Good g st (readInline g cfg st rid k) (Reader.readInline g k) := by
  unfold readInline Reader.readInline
  dsimp only
  by_cases h2 : g.is2d = true
  · rw [if_pos h2, if_pos h2]; exact good_refuse g st h _
  rw [if_neg h2, if_neg h2]
  by_cases c0 : (!(decide (0 ≤ k) && decide (k < (g.n0 : Int)))) = true
  · rw [if_pos c0, if_pos c0]; exact good_refuse g st h _
  rw [if_neg c0, if_neg c0]
  by_cases hd : Reader.isDefault g = true
  · rw [if_pos hd, if_pos hd]
    obtain ⟨e1, e2, e3⟩ := callLoader_spec g st h rid (.il (4 * (k.toNat / 4)))
    refine ⟨?_, e2, e3⟩
    simp only [arrOf, Except.map, e1, LKey.load]
  · rw [if_neg hd, if_neg hd]
    exact good_squeeze g st _ _ _ arrOf_congr_squeeze0 (readSubvolume_spec g cfg st h rid false true _ _ _ _ _ _)

theorem readCrossline_spec (g : Geo) (cfg : Cfg) (st : St) (h : Inv g st) (rid : Nat) (k : Int) :
    Good g st (readCrossline g cfg st rid k) (Reader.readCrossline g k) := by
  unfold readCrossline Reader.readCrossline
  dsimp only
  by_cases h2 : g.is2d = true
  · rw [if_pos h2, if_pos h2]; exact good_refuse g st h _
  rw [if_neg h2, if_neg h2]
  by_cases c0 : (!(decide (0 ≤ k) && decide (k < (g.n1 : Int)))) = true
  · rw [if_pos c0, if_pos c0]; exact good_refuse g st h _
  rw [if_neg c0, if_neg c0]
  by_cases hd : Reader.isDefault g = true
  · rw [if_pos hd, if_pos hd]
    obtain ⟨e1, e2, e3⟩ := callLoader_spec g st h rid (.xl (4 * (k.toNat / 4)))
    refine ⟨?_, e2, e3⟩
    simp only [arrOf, Except.map, e1, LKey.load]
  · rw [if_neg hd, if_neg hd]
    exact good_squeeze g st _ _ _ arrOf_congr_squeeze1 (readSubvolume_spec g cfg st h rid false true _ _ _ _ _ _)

theorem readZslice_spec (g : Geo) (cfg : Cfg) (st : St) (h : Inv g st) (rid : Nat) (k : Int) :
    Good g st (readZslice g cfg st rid k) (Reader.readZslice g k) := by
  unfold readZslice Reader.readZslice
  dsimp only
  by_cases h2 : g.is2d = true
  · rw [if_pos h2, if_pos h2]; exact good_refuse g st h _
  rw [if_neg h2, if_neg h2]
  by_cases c0 : (!(decide (0 ≤ k) && decide (k < (g.n2 : Int)))) = true
  · rw [if_pos c0, if_pos c0]; exact good_refuse g st h _
  rw [if_neg c0, if_neg c0]
  by_cases hd : Reader.isDefault g = true
  · rw [if_pos hd, if_pos hd]
    obtain ⟨e1, e2, e3⟩ := callLoader_spec g st h rid (.zs k.toNat)
    refine ⟨?_, e2, e3⟩
    simp only [arrOf, Except.map, e1, LKey.load]
  · rw [if_neg hd, if_neg hd]
    by_cases h4 : (g.b2 == 4) = true
    · rw [if_pos h4, if_pos h4]
      obtain ⟨e1, e2, e3⟩ := callLoader_spec g st h rid (.zsAdv (k.toNat / g.b2))
      refine ⟨?_, e2, e3⟩
      simp only [arrOf, Except.map, e1, LKey.load]
    · rw [if_neg h4, if_neg h4]
      exact good_squeeze g st _ _ _ arrOf_congr_squeeze2 (readSubvolume_spec g cfg st h rid false true _ _ _ _ _ _)

theorem readSubplane_spec (g : Geo) (cfg : Cfg) (st : St) (h : Inv g st) (rid : Nat) (ap : Bool) (t0 t1 z0 z1 : Int) :
    Good g st (readSubplane g cfg st rid ap t0 t1 z0 z1) (Reader.readSubplane g ap t0 t1 z0 z1) := by
  unfold readSubplane Reader.readSubplane
  dsimp only
  by_cases h2 : (!g.is2d) = true
  · rw [if_pos h2, if_pos h2]; exact good_refuse g st h _
  rw [if_neg h2, if_neg h2]
  by_cases c1 : (!Reader.rangeOk t0 t1 (if ap = true then (g.P1 : Int) else g.n1)) = true
  · rw [if_pos c1, if_pos c1]; exact good_refuse g st h _
  rw [if_neg c1, if_neg c1]
  by_cases c2 : (!Reader.rangeOk z0 z1 (if ap = true then (g.P2 : Int) else g.n2)) = true
  · rw [if_pos c2, if_pos c2]; exact good_refuse g st h _
  rw [if_neg c2, if_neg c2]
  obtain ⟨e1, e2, e3⟩ := callLoader_spec g st h rid
    (.unsh2 (g.b1 * cdiv t1.toNat g.b1) (g.b2 * cdiv z1.toNat g.b2) (g.b1 * (t0.toNat / g.b1)) (g.b2 * (z0.toNat / g.b2)))
  refine ⟨?_, e2, e3⟩
  simp only [arrOf, Except.map, e1, LKey.load]

theorem arrOf_ok (r : R) (a : Arr) (h : arrOf r = .ok a) : ∃ fs, r = .ok ⟨a, fs⟩ := by
  cases r with
  | error e => simp [arrOf, Except.map] at h
  | ok o => cases o; simp [arrOf, Except.map] at h; subst h; exact ⟨_, rfl⟩

theorem arrOf_error (r : R) (e : Err) (h : arrOf r = .error e) : r = .error e := by
  cases r with
  | error e' => simp [arrOf, Except.map] at h; subst h; rfl
  | ok o => simp [arrOf, Except.map] at h

theorem lruInsert_subset (lru : List CEntry) (e : CEntry) (cap : Nat) :
    ∀ c ∈ lruInsert lru e cap, c = e ∨ c ∈ lru := by
  intro c hc
  unfold lruInsert at hc
  rcases List.mem_cons.mp hc with h | h
  · exact .inl h
  · exact .inr (List.mem_filter.mp h).1

theorem getTrace_spec (g : Geo) (cfg : Cfg) (st : St) (h : Inv g st) (rid : Nat) (index a b : Int) :
    arrOf (getTrace g cfg st rid index a b).2 = arrOf (Reader.getTrace g index a b)
    ∧ Inv g (getTrace g cfg st rid index a b).1 := by
  unfold getTrace Reader.getTrace
  dsimp only
  by_cases cw : (!Reader.windowOk g a b) = true
  · rw [if_pos cw, if_pos cw]; exact ⟨rfl, h⟩
  rw [if_neg cw, if_neg cw]
  by_cases h2 : g.is2d = true
  · rw [if_pos h2, if_pos h2]
    by_cases c0 : (!(decide (0 ≤ index) && decide (index < (g.n1 : Int)))) = true
    · rw [if_pos c0, if_pos c0]; exact ⟨rfl, h⟩
    rw [if_neg c0, if_neg c0]
    by_cases hf : (g.b1 == 4 && g.b2 * (a.toNat / g.b2) == 0 && g.b2 * cdiv b.toNat g.b2 == g.P2) = true
    · rw [if_pos hf, if_pos hf]
      obtain ⟨e1, e2, _⟩ := callLoader_spec g st h rid (.tr2 (g.b1 * (index.toNat / g.b1)) (g.b1 * (index.toNat / g.b1) + g.b1))
      refine ⟨?_, e2⟩
      simp only [arrOf, Except.map, e1, LKey.load]
    · rw [if_neg hf, if_neg hf]
      obtain ⟨s1, s2, _⟩ := readSubplane_spec g cfg st h rid true
        ((g.b1 * (index.toNat / g.b1) : Nat) : Int) (((g.b1 * (index.toNat / g.b1) : Nat) : Int) + (g.b1 : Int))
        ((g.b2 * (a.toNat / g.b2) : Nat) : Int) ((g.b2 * cdiv b.toNat g.b2 : Nat) : Int)
      generalize readSubplane g cfg st rid true _ _ _ _ = x at s1 s2 ⊢
      obtain ⟨st', r⟩ := x
      cases r with
      | error e =>
        have := arrOf_error _ e s1.symm
        simp only at this ⊢
        rw [this]; exact ⟨rfl, s2⟩
      | ok o =>
        obtain ⟨fs, hp⟩ := arrOf_ok _ o.arr s1.symm
        simp only at hp ⊢
        rw [hp]
        cases o.arr <;> exact ⟨rfl, s2⟩
  · rw [if_neg h2, if_neg h2]
    by_cases c0 : (!(decide (0 ≤ index) && decide (index < (g.n0 : Int) * (g.n1 : Int)))) = true
    · rw [if_pos c0, if_pos c0]; exact ⟨rfl, h⟩
    rw [if_neg c0, if_neg c0]
    cases hfind : st.lru.find? (fun e => e.rid == rid && e.key ==
        (⟨g.b0 * (index.toNat / g.n1 / g.b0), g.b1 * (index.toNat % g.n1 / g.b1), g.b2 * (a.toNat / g.b2),
          g.b2 * cdiv b.toNat g.b2⟩ : CKey)) with
    | some e =>
      dsimp only
      have hmem : e ∈ st.lru := List.mem_of_find?_eq_some hfind
      have hkey : e.key = ⟨g.b0 * (index.toNat / g.n1 / g.b0), g.b1 * (index.toNat % g.n1 / g.b1),
          g.b2 * (a.toNat / g.b2), g.b2 * cdiv b.toNat g.b2⟩ := by
        have := List.find?_some hfind; simp at this; exact this.2
      obtain ⟨fs, hp⟩ := h.lru e hmem
      rw [hkey] at hp
      simp only at hp
      push_cast at hp ⊢
      rw [hp]
      refine ⟨rfl, { slots := h.slots, lru := ?_ }⟩
      intro c hc
      rcases List.mem_cons.mp hc with rfl | hc'
      · exact h.lru c hmem
      · exact h.lru c (List.mem_filter.mp hc').1
    | none =>
      dsimp only
      obtain ⟨s1, s2, s3⟩ := readSubvolume_spec g cfg st h rid true false
        ((g.b0 * (index.toNat / g.n1 / g.b0) : Nat) : Int) (((g.b0 * (index.toNat / g.n1 / g.b0) : Nat) : Int) + (g.b0 : Int))
        ((g.b1 * (index.toNat % g.n1 / g.b1) : Nat) : Int) (((g.b1 * (index.toNat % g.n1 / g.b1) : Nat) : Int) + (g.b1 : Int))
        ((g.b2 * (a.toNat / g.b2) : Nat) : Int) ((g.b2 * cdiv b.toNat g.b2 : Nat) : Int)
      generalize readSubvolume g cfg st rid true false _ _ _ _ _ _ = x at s1 s2 s3 ⊢
      obtain ⟨st', r⟩ := x
      cases r with
      | error e =>
        have := arrOf_error _ e s1.symm
        simp only at this ⊢
        rw [this]; exact ⟨rfl, s2⟩
      | ok o =>
        obtain ⟨fs, hp⟩ := arrOf_ok _ o.arr s1.symm
        simp only at hp s3 ⊢
        rw [hp]
        cases ho : o.arr with
        | a1 n f => exact ⟨rfl, s2⟩
        | a2 n m f => exact ⟨rfl, s2⟩
        | a3 n m k f =>
          refine ⟨rfl, { slots := s2.slots, lru := ?_ }⟩
          intro c hc
          rcases lruInsert_subset _ _ _ c hc with rfl | hc'
          · refine ⟨fs, ?_⟩
            simp only
            rw [← ho]
            push_cast
            exact hp
          · exact s2.lru c hc'

end Cache
end Sgz

namespace Sgz
namespace Cache

theorem stackGo_spec (g : Geo) (cfg : Cfg) (rid : Nat) (a b : Int) (rest : List Int) :
    ∀ (st : St), Inv g st → ∀ (rows : List (Nat → Nat)) (fs fs' : List (Nat × Nat)),
      Inv g (stackTraces.go g cfg rid a b st rest rows fs).1
      ∧ (stackTraces.go g cfg rid a b st rest rows fs).2.map (·.1)
          = (Reader.stackTraces.go g a b rest rows fs').map (·.1) := by
  induction rest with
  | nil => intro st h rows fs fs'; exact ⟨h, rfl⟩
  | cons t ts ih =>
    intro st h rows fs fs'
    unfold stackTraces.go Reader.stackTraces.go
    obtain ⟨s1, s2⟩ := getTrace_spec g cfg st h rid t a b
    generalize getTrace g cfg st rid t a b = x at s1 s2 ⊢
    obtain ⟨st', r⟩ := x
    cases r with
    | error e =>
      have := arrOf_error _ e s1.symm
      simp only at this ⊢
      rw [this]; exact ⟨s2, rfl⟩
    | ok o =>
      obtain ⟨fsp, hp⟩ := arrOf_ok _ o.arr s1.symm
      simp only at hp s2 ⊢
      rw [hp]
      cases ho : o.arr with
      | a1 n f => exact ih st' s2 (f :: rows) _ _
      | a2 n m f => exact ⟨s2, rfl⟩
      | a3 n m k f => exact ⟨s2, rfl⟩

theorem stackTraces_spec (g : Geo) (cfg : Cfg) (st : St) (h : Inv g st) (rid : Nat) (idxs : List Int) (a b : Int) :
    arrOf (stackTraces g cfg st rid idxs a b).2 = arrOf (Reader.stackTraces g idxs a b)
    ∧ Inv g (stackTraces g cfg st rid idxs a b).1 := by
  unfold stackTraces Reader.stackTraces
  obtain ⟨i1, i2⟩ := stackGo_spec g cfg rid a b idxs st h [] [] []
  generalize stackTraces.go g cfg rid a b st idxs [] [] = x at i1 i2 ⊢
  generalize Reader.stackTraces.go g a b idxs [] [] = y at i2 ⊢
  obtain ⟨st', r⟩ := x
  cases r with
  | error e =>
    cases y with
    | error e' => simp [Except.map] at i2; subst i2; exact ⟨rfl, i1⟩
    | ok p => simp [Except.map] at i2
  | ok p =>
    cases y with
    | error e' => simp [Except.map] at i2
    | ok p' =>
      obtain ⟨rows, fs⟩ := p
      obtain ⟨rows', fs'⟩ := p'
      simp [Except.map] at i2
      subst i2
      exact ⟨rfl, i1⟩

end Cache
end Sgz

namespace Sgz
namespace Cache

theorem reader_cd_form (g : Geo) (cd : Int) (rng win : Option (Int × Int)) :
    Reader.readCorrelatedDiagonal g cd rng win =
      (if g.is2d then .error .dim else
       if !(-(g.n1 : Int) < cd && cd < g.n0) then .error .index else
       match diagArgs g (Reader.cdLen cd g.n0 g.n1) rng win with
       | .error e => .error e
       | .ok ((lo, hi), (s, e)) =>
         Reader.stackTraces g (((List.range (hi - lo).toNat).map fun (d : Nat) => lo + (d : Int)).map
           fun d => if cd ≥ 0 then (d + cd) * g.n1 + d else d * g.n1 + d - cd) s e) := by
  unfold Reader.readCorrelatedDiagonal diagArgs
  by_cases h2 : g.is2d = true
  · simp [h2]
  · simp only [h2, Bool.false_eq_true, if_false]
    split
    · rfl
    · have W : ∀ (s e : Int) (X : Int × Int),
          (match (if Reader.windowOk g s e = true then (Except.ok (s, e) : Except Err (Int × Int)) else Except.error Err.index) with
            | .error er => (Except.error er : Except Err ((Int × Int) × (Int × Int)))
            | .ok w => .ok (X, w))
          = (if Reader.windowOk g s e = true then .ok (X, (s, e)) else .error .index) := by
        intro s e X; by_cases hw : Reader.windowOk g s e = true <;> simp [hw]
      cases rng with
      | none =>
        cases win with
        | none => rfl
        | some w =>
          obtain ⟨s, e⟩ := w
          by_cases hw : Reader.windowOk g s e = true <;> simp [hw]
      | some r =>
        obtain ⟨lo, hi⟩ := r
        by_cases g1 : (!(decide (0 ≤ lo) && decide (lo < Reader.cdLen cd g.n0 g.n1))) = true
        · simp [g1]
        · by_cases g2 : (!(decide (0 < hi) && decide (hi ≤ Reader.cdLen cd g.n0 g.n1))) = true
          · simp [g1, g2]
          · by_cases g3 : (!decide (lo < hi)) = true
            · simp [g1, g2, g3]
            · cases win with
              | none => simp [g1, g2, g3]
              | some w =>
                obtain ⟨s, e⟩ := w
                by_cases hw : Reader.windowOk g s e = true <;> simp [g1, g2, g3, hw]

theorem reader_ad_form (g : Geo) (ad : Int) (rng win : Option (Int × Int)) :
    Reader.readAnticorrelatedDiagonal g ad rng win =
      (if g.is2d then .error .dim else
       if !(0 ≤ ad && ad < (g.n0 : Int) + g.n1 - 1) then .error .index else
       match diagArgs g (Reader.adLen ad g.n0 g.n1) rng win with
       | .error e => .error e
       | .ok ((lo, hi), (s, e)) =>
         Reader.stackTraces g (((List.range (hi - lo).toNat).map fun (d : Nat) => lo + (d : Int)).map
           fun d => if ad < g.n1 then ad + d * ((g.n1 : Int) - 1)
                    else (ad - g.n1 + 1 + d) * g.n1 + ((g.n1 : Int) - d - 1)) s e) := by
  unfold Reader.readAnticorrelatedDiagonal diagArgs
  by_cases h2 : g.is2d = true
  · simp [h2]
  · simp only [h2, Bool.false_eq_true, if_false]
    split
    · rfl
    · have W : ∀ (s e : Int) (X : Int × Int),
          (match (if Reader.windowOk g s e = true then (Except.ok (s, e) : Except Err (Int × Int)) else Except.error Err.index) with
            | .error er => (Except.error er : Except Err ((Int × Int) × (Int × Int)))
            | .ok w => .ok (X, w))
          = (if Reader.windowOk g s e = true then .ok (X, (s, e)) else .error .index) := by
        intro s e X; by_cases hw : Reader.windowOk g s e = true <;> simp [hw]
      cases rng with
      | none =>
        cases win with
        | none => rfl
        | some w =>
          obtain ⟨s, e⟩ := w
          by_cases hw : Reader.windowOk g s e = true <;> simp [hw]
      | some r =>
        obtain ⟨lo, hi⟩ := r
        by_cases g1 : (!(decide (0 ≤ lo) && decide (lo < Reader.adLen ad g.n0 g.n1))) = true
        · simp [g1]
        · by_cases g2 : (!(decide (0 < hi) && decide (hi ≤ Reader.adLen ad g.n0 g.n1))) = true
          · simp [g1, g2]
          · by_cases g3 : (!decide (lo < hi)) = true
            · simp [g1, g2, g3]
            · cases win with
              | none => simp [g1, g2, g3]
              | some w =>
                obtain ⟨s, e⟩ := w
                by_cases hw : Reader.windowOk g s e = true <;> simp [g1, g2, g3, hw]

theorem readCorrelatedDiagonal_spec (g : Geo) (cfg : Cfg) (st : St) (h : Inv g st) (rid : Nat) (cd : Int)
    (rng win : Option (Int × Int)) :
    arrOf (readCorrelatedDiagonal g cfg st rid cd rng win).2 = arrOf (Reader.readCorrelatedDiagonal g cd rng win)
    ∧ Inv g (readCorrelatedDiagonal g cfg st rid cd rng win).1 := by
  rw [reader_cd_form]
  unfold readCorrelatedDiagonal
  by_cases h2 : g.is2d = true
  · rw [if_pos h2, if_pos h2]; exact ⟨rfl, h⟩
  rw [if_neg h2, if_neg h2]
  by_cases c0 : (!(decide (-(g.n1 : Int) < cd) && decide (cd < (g.n0 : Int)))) = true
  · rw [if_pos c0, if_pos c0]; exact ⟨rfl, h⟩
  rw [if_neg c0, if_neg c0]
  cases hd : diagArgs g (Reader.cdLen cd g.n0 g.n1) rng win with
  | error e => exact ⟨rfl, h⟩
  | ok p =>
    obtain ⟨⟨lo, hi⟩, ⟨s, e⟩⟩ := p
    exact stackTraces_spec g cfg st h rid _ s e

theorem readAnticorrelatedDiagonal_spec (g : Geo) (cfg : Cfg) (st : St) (h : Inv g st) (rid : Nat) (ad : Int)
    (rng win : Option (Int × Int)) :
    arrOf (readAnticorrelatedDiagonal g cfg st rid ad rng win).2 = arrOf (Reader.readAnticorrelatedDiagonal g ad rng win)
    ∧ Inv g (readAnticorrelatedDiagonal g cfg st rid ad rng win).1 := by
  rw [reader_ad_form]
  unfold readAnticorrelatedDiagonal
  by_cases h2 : g.is2d = true
  · rw [if_pos h2, if_pos h2]; exact ⟨rfl, h⟩
  rw [if_neg h2, if_neg h2]
  by_cases c0 : (!(decide (0 ≤ ad) && decide (ad < (g.n0 : Int) + g.n1 - 1))) = true
  · rw [if_pos c0, if_pos c0]; exact ⟨rfl, h⟩
  rw [if_neg c0, if_neg c0]
  cases hd : diagArgs g (Reader.adLen ad g.n0 g.n1) rng win with
  | error e => exact ⟨rfl, h⟩
  | ok p =>
    obtain ⟨⟨lo, hi⟩, ⟨s, e⟩⟩ := p
    exact stackTraces_spec g cfg st h rid _ s e

/-- one call: the array (or refusal) is that of a fresh reader, and the invariant is kept -/
theorem step_spec (g : Geo) (cfg : Cfg) (st : St) (h : Inv g st) (rid : Nat) (op : Op) :
    (op ≠ .close → arrOf (step g cfg st rid op).2 = arrOf (pure g op)) ∧ Inv g (step g cfg st rid op).1 := by
  cases op with
  | il k => exact ⟨fun _ => (readInline_spec g cfg st h rid k).1, (readInline_spec g cfg st h rid k).2.1⟩
  | xl k => exact ⟨fun _ => (readCrossline_spec g cfg st h rid k).1, (readCrossline_spec g cfg st h rid k).2.1⟩
  | zs k => exact ⟨fun _ => (readZslice_spec g cfg st h rid k).1, (readZslice_spec g cfg st h rid k).2.1⟩
  | sub a b c d e f =>
    exact ⟨fun _ => (readSubvolume_spec g cfg st h rid false true a b c d e f).1,
      (readSubvolume_spec g cfg st h rid false true a b c d e f).2.1⟩
  | vol =>
    exact ⟨fun _ => (readSubvolume_spec g cfg st h rid false true 0 g.n0 0 g.n1 0 g.n2).1,
      (readSubvolume_spec g cfg st h rid false true 0 g.n0 0 g.n1 0 g.n2).2.1⟩
  | subp a b c d =>
    exact ⟨fun _ => (readSubplane_spec g cfg st h rid false a b c d).1, (readSubplane_spec g cfg st h rid false a b c d).2.1⟩
  | tr t a b => exact ⟨fun _ => (getTrace_spec g cfg st h rid t a b).1, (getTrace_spec g cfg st h rid t a b).2⟩
  | cd c rng win => exact ⟨fun _ => (readCorrelatedDiagonal_spec g cfg st h rid c rng win).1,
      (readCorrelatedDiagonal_spec g cfg st h rid c rng win).2⟩
  | ad c rng win => exact ⟨fun _ => (readAnticorrelatedDiagonal_spec g cfg st h rid c rng win).1,
      (readAnticorrelatedDiagonal_spec g cfg st h rid c rng win).2⟩
  | close =>
    refine ⟨fun hne => absurd rfl hne, { slots := ?_, lru := ?_ }⟩
    · intro e he; cases he
    · intro c hc; exact h.lru c (List.mem_filter.mp hc).1

/-- **history independence**: after any history, from any state satisfying the invariant (in particular the initial
one), every call returns the array a fresh reader returns -/
theorem run_spec (g : Geo) (cfg : Cfg) (st : St) (h : Inv g st) (hist : List (Nat × Op)) :
    (run g cfg st hist).map arrOf = hist.map fun p => if p.2 matches .close then .error .other else arrOf (pure g p.2) := by
  induction hist generalizing st with
  | nil => rfl
  | cons p rest ih =>
    obtain ⟨rid, op⟩ := p
    simp only [run, List.map_cons]
    obtain ⟨h1, h2⟩ := step_spec g cfg st h rid op
    rw [ih _ h2]
    congr 1
    cases op <;> first | rfl | exact h1 (by simp)

end Cache
end Sgz
