import Sgz.Model.Emul
import Sgz.Proofs.Coords
import Mathlib.Tactic.Ring
import Mathlib.Tactic.Linarith
/-!
# Proofs/Subvolume — `subvolume[a:b:c]` on one axis returns the requested coordinates
-/
namespace Sgz
namespace Emul

theorem axis_getD (a d : Int) (n k : Nat) (hk : k < n) : (Axes.axis a d n).getD k 0 = a + d * (k : Int) := by
  simp [Axes.axis, List.getD, hk]

theorem axis_length (a d : Int) (n : Nat) : (Axes.axis a d n).length = n := by simp [Axes.axis]

theorem indexOf_axis (a d : Int) (hd : d ≠ 0) (n k : Nat) (hk : k < n) :
    indexOf (Axes.axis a d n) (a + d * (k : Int)) = some k := by
  have := Coords.coordToIndex_axis a d hd n k hk false
  unfold Coords.coordToIndex at this
  unfold indexOf
  cases h : (Axes.axis a d n).findIdx? (· == a + d * (k : Int)) with
  | none => rw [h] at this; simp at this
  | some i => rw [h] at this; simp at this; rw [this]

theorem pyRange_shift (x y c lo : Int) : (pyRange x y c).map (· + lo) = pyRange (x + lo) (y + lo) c := by
  unfold pyRange
  have : rangeLen (x + lo) (y + lo) c = rangeLen x y c := by
    unfold rangeLen
    have e1 : y + lo - (x + lo) = y - x := by omega
    have e2 : x + lo - (y + lo) = x - y := by omega
    have e3 : (x + lo < y + lo) = (x < y) := by simp
    have e4 : (y + lo < x + lo) = (y < x) := by simp
    simp only [e1, e2, e3, e4]
  rw [this, List.map_map]
  apply List.map_congr_left
  intro k _
  simp only [Function.comp]; omega

/-- **coordinate-addressed sub-volume, one axis**: for a regular axis `a, a+d, …` (`n ≥ 2` entries, `d ≠ 0`, ascending or
descending), start and stop given as the coordinates of ordinals `lo < hi ≤ n` (stop may be the first coordinate past the
axis) and a step of `c ≥ 1` axis increments, the accessor returns exactly the ordinals `lo, lo+c, lo+2c, … < hi` -/
theorem subvolumeAxis_spec (a d : Int) (hd : d ≠ 0) (n lo hi c : Nat) (hn : 2 ≤ n) (hlo : lo < hi) (hhi : hi ≤ n) (hc : 1 ≤ c) :
    subvolumeAxis (Axes.axis a d n) ⟨some (a + d * (lo : Int)), some (a + d * (hi : Int)), some ((c : Int) * d)⟩
      = some (pyRange lo hi c) := by
  have hlen := axis_length a d n
  have g0 : (Axes.axis a d n).getD 0 0 = a := by rw [axis_getD a d n 0 (by omega)]; simp
  have g1 : (Axes.axis a d n).getD 1 0 = a + d := by rw [axis_getD a d n 1 (by omega)]; simp
  have gl : (Axes.axis a d n).getD (n - 1) 0 = a + d * ((n : Int) - 1) := by
    rw [axis_getD a d n (n - 1) (by omega)]; congr 2; omega
  have hstep : Int.fdiv ((c : Int) * d) (a + d - a) = c := by
    rw [show a + d - a = d by omega, Int.fdiv_eq_ediv_of_dvd ⟨c, by ring⟩]
    exact Int.mul_ediv_cancel _ hd
  -- range check passes
  have hchk : checkSubscript (Axes.axis a d n) ⟨some (a + d * (lo : Int)), some (a + d * (hi : Int)), some ((c : Int) * d)⟩ = true := by
    unfold checkSubscript
    simp only [hlen, g0, g1, gl]
    have hmod : (c : Int) * d % (a + d - a) = 0 := by
      rw [show a + d - a = d by omega]; exact Int.mul_emod_left _ _
    have hloZ : (lo : Int) < n := by exact_mod_cast (by omega : lo < n)
    have hhiZ : (hi : Int) ≤ n := by exact_mod_cast hhi
    have hlohi : (lo : Int) < hi := by exact_mod_cast hlo
    simp only [Bool.and_eq_true, decide_eq_true_eq, beq_iff_eq, hmod, and_true]
    rcases Int.lt_or_gt_of_ne hd with hneg | hpos
    · have hs : ¬ (a + d - a > 0) := by omega
      simp only [hs, if_false]
      refine ⟨⟨?_, ?_⟩, ?_, ?_⟩ <;> nlinarith
    · have hs : (a + d - a > 0) := by omega
      simp only [hs, if_true]
      refine ⟨⟨?_, ?_⟩, ?_, ?_⟩ <;> nlinarith
  -- index lookups
  have hstart : indexOf (Axes.axis a d n) (a + d * (lo : Int)) = some lo := indexOf_axis a d hd n lo (by omega)
  have hidx : indexSubscript (Axes.axis a d n) ⟨some (a + d * (lo : Int)), some (a + d * (hi : Int)), some ((c : Int) * d)⟩
      = some (lo, (c : Int), hi) := by
    unfold indexSubscript
    simp only [hlen, g0, g1, gl, hstart, hstep]
    by_cases hend : hi = n
    · subst hend
      have : (a + d * (hi : Int) == a + d * ((hi : Int) - 1) + (a + d) - a) = true := by
        simp only [beq_iff_eq]; ring
      simp [this]
    · have hne : (a + d * (hi : Int) == a + d * ((n : Int) - 1) + (a + d) - a) = false := by
        simp only [beq_eq_false_iff_ne, ne_eq]
        intro h
        have h2 : d * (hi : Int) = d * (n : Int) := by nlinarith
        have := Int.eq_of_mul_eq_mul_left hd h2
        exact hend (by exact_mod_cast this)
      simp [hne, indexOf_axis a d hd n hi (by omega)]
  unfold subvolumeAxis
  rw [hchk, hidx]
  simp only [Bool.not_true, Bool.false_eq_true, if_false]
  have hnle : ¬ (hi ≤ lo) := by omega
  simp only [hnle, if_false]
  have hsl : sliceIndices ⟨none, none, some (c : Int)⟩ (hi - lo) = some (0, ((hi - lo : Nat) : Int), (c : Int)) := by
    unfold sliceIndices
    have hc0 : ¬ ((c : Int) = 0) := by omega
    have hcn : ¬ ((c : Int) < 0) := by omega
    have hcN : ¬ (c = 0) := by omega
    simp [hcN, hcn]
  rw [hsl]
  simp only [Option.map_some]
  rw [pyRange_shift]
  congr 2
  · omega
  · omega

end Emul
end Sgz
