import Mathlib.Tactic.Linarith
import Mathlib.Tactic.NormNum
import Mathlib.Tactic.Ring
import Mathlib.Algebra.Order.AbsoluteValue.Basic
import Mathlib.Algebra.Order.Ring.Abs

/-! Prototype: standard-model rounding lemma for the sample-interval round trip (C05).
  `fl(x) = x(1+e)`, `|e| ≤ u = 2⁻⁵³`. Writer computes `1000 * ((dt/1000 + t0) - t0)` in binary64. -/
namespace Sgz.Rounding

def u : ℚ := 1 / 9007199254740992

theorem rel_err (x e X : ℚ) (hx : |x| ≤ X) (he : |e| ≤ u) : |x * (1 + e) - x| ≤ X * u := by
  have h : x * (1 + e) - x = x * e := by ring
  rw [h, abs_mul]
  have hX : 0 ≤ X := le_trans (abs_nonneg x) hx
  exact mul_le_mul hx he (abs_nonneg e) hX

theorem interval_roundtrip (dt t0 e1 e2 e3 e4 : ℚ)
    (hdt1 : 1 ≤ dt) (hdt2 : dt ≤ 65535) (ht0 : |t0| ≤ 32768)
    (h1 : |e1| ≤ u) (h2 : |e2| ≤ u) (h3 : |e3| ≤ u) (h4 : |e4| ≤ u) :
    let a := (dt / 1000) * (1 + e1)
    let b := (a + t0) * (1 + e2)
    let c := (b - t0) * (1 + e3)
    let r := (1000 * c) * (1 + e4)
    |r - dt| < 1 / 2 := by
  intro a b c r
  have hu : u = 1 / 9007199254740992 := rfl
  have hq : |dt / 1000| ≤ 66 := by
    rw [abs_le]; constructor <;> linarith
  have ea := rel_err (dt / 1000) e1 66 hq h1
  have ha : |a| ≤ 67 := by
    have := abs_le.mp ea
    have hq' := abs_le.mp hq
    rw [abs_le]; constructor <;> (simp only [a]; linarith [this.1, this.2, hq'.1, hq'.2])
  have hat : |a + t0| ≤ 32835 := by
    have := abs_le.mp ha; have := abs_le.mp ht0
    rw [abs_le]; constructor <;> linarith
  have eb := rel_err (a + t0) e2 32835 hat h2
  have hbt : |b - t0| ≤ 68 := by
    have h' := abs_le.mp eb; have := abs_le.mp ha
    rw [abs_le]; constructor <;> (simp only [b]; linarith [h'.1, h'.2])
  have ec := rel_err (b - t0) e3 68 hbt h3
  have hc : |1000 * c| ≤ 69000 := by
    have h' := abs_le.mp ec; have := abs_le.mp hbt
    rw [abs_le]; constructor <;> (simp only [c]; linarith [h'.1, h'.2])
  have er := rel_err (1000 * c) e4 69000 hc h4
  have ea' := abs_le.mp ea; have eb' := abs_le.mp eb; have ec' := abs_le.mp ec; have er' := abs_le.mp er
  rw [abs_lt]
  constructor <;>
    (simp only [r, c, b, a] at *; linarith [ea'.1, ea'.2, eb'.1, eb'.2, ec'.1, ec'.2, er'.1, er'.2])


end Sgz.Rounding
