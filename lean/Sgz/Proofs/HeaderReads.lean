import Sgz.Model.HeaderReads
/-!
# Proofs/HeaderReads — header regeneration does not depend on what the reader has cached
-/
namespace Sgz
namespace HeaderReads

/-- everything remembered is what the file holds: every loaded variant-header array is the stored array of its field in the
reader's padding mode (none loaded while no mode is fixed), every cached tracefield array is the raw stored array -/
structure HInv (h : HFile) (il : Nat) (st : HSt) : Prop where
  vh : ∀ p ∈ st.vh, ∃ k, arrayOf h p.1 = some k ∧ p.2 = arrMode h il (st.includePadding.getD false) k
  fresh : st.includePadding = none → st.vh = []
  tf : ∀ p ∈ st.tf, ∃ k, arrayOf h p.1 = some k ∧ p.2 = rawArray h k

theorem hinv_init (h : HFile) (il : Nat) : HInv h il HSt.init :=
  { vh := (by intro p hp; cases hp), fresh := (fun _ => rfl), tf := (by intro p hp; cases hp) }

theorem find_append_of_not_any {l : List (Nat × List Int)} {f : Nat} {x : Nat × List Int} (hx : x.1 = f)
    (h : l.any (·.1 == f) = false) : (l ++ [x]).find? (·.1 == f) = some x := by
  rw [List.find?_append]
  have : l.find? (·.1 == f) = none := by
    rw [List.find?_eq_none]
    intro y hy
    have := List.any_eq_false.mp h y hy
    simpa using this
  rw [this]
  simp [hx]

/-- after the loop over a list of fields: entries stay those of the mode, and every listed stored field is loaded -/
theorem vhFold_spec (h : HFile) (il : Nat) (ip : Bool) (fields : List Nat) :
    ∀ (acc : HSt × List (Nat × Nat)),
      (∀ p ∈ acc.1.vh, ∃ k, arrayOf h p.1 = some k ∧ p.2 = arrMode h il ip k) →
      let r := fields.foldl (vhStep h il ip) acc
      (∀ p ∈ r.1.vh, ∃ k, arrayOf h p.1 = some k ∧ p.2 = arrMode h il ip k)
      ∧ r.1.tf = acc.1.tf ∧ r.1.includePadding = acc.1.includePadding
      ∧ (∀ f k, (f ∈ fields ∨ acc.1.vh.any (·.1 == f) = true) → arrayOf h f = some k →
          ∃ p, r.1.vh.find? (·.1 == f) = some p ∧ p.2 = arrMode h il ip k) := by
  induction fields with
  | nil =>
    intro acc hacc
    refine ⟨hacc, rfl, rfl, ?_⟩
    intro f k hf hk
    rcases hf with hf | hf
    · cases hf
    · obtain ⟨p, hp1, hp2⟩ := List.any_eq_true.mp hf
      cases hfind : acc.1.vh.find? (·.1 == f) with
      | none =>
        have := List.find?_eq_none.mp hfind p hp1
        simp at this hp2; exact absurd hp2 this
      | some q =>
        have hq := List.find?_some hfind
        have hqm := List.mem_of_find?_eq_some hfind
        obtain ⟨k', hk1, hk2⟩ := hacc q hqm
        have : q.1 = f := by simpa using hq
        rw [this, hk] at hk1
        cases hk1
        exact ⟨q, hfind, hk2⟩
  | cons g gs ih =>
    intro acc hacc
    simp only [List.foldl_cons]
    have hstep : ∀ p ∈ (vhStep h il ip acc g).1.vh, ∃ k, arrayOf h p.1 = some k ∧ p.2 = arrMode h il ip k := by
      unfold vhStep
      cases hg : arrayOf h g with
      | none => exact hacc
      | some k =>
        by_cases hany : acc.1.vh.any (·.1 == g) = true
        · simp only [hany, if_true]; exact hacc
        · simp only [hany, Bool.false_eq_true, if_false]
          intro p hp
          rcases List.mem_append.mp hp with hp | hp
          · exact hacc p hp
          · simp only [List.mem_singleton] at hp
            subst hp
            exact ⟨k, hg, rfl⟩
    have hstep_tf : (vhStep h il ip acc g).1.tf = acc.1.tf
        ∧ (vhStep h il ip acc g).1.includePadding = acc.1.includePadding := by
      unfold vhStep
      cases hg : arrayOf h g with
      | none => exact ⟨rfl, rfl⟩
      | some k => by_cases hany : acc.1.vh.any (·.1 == g) = true <;> simp [hany]
    have hpres : ∀ k, arrayOf h g = some k → (vhStep h il ip acc g).1.vh.any (·.1 == g) = true := by
      intro k hk
      unfold vhStep
      rw [hk]
      by_cases hany : acc.1.vh.any (·.1 == g) = true
      · simp only [hany, if_true]
      · simp only [hany, Bool.false_eq_true, if_false, List.any_append, List.any_cons, List.any_nil, beq_self_eq_true,
          Bool.or_false, Bool.or_true]
    have hmono : ∀ f, acc.1.vh.any (·.1 == f) = true → (vhStep h il ip acc g).1.vh.any (·.1 == f) = true := by
      intro f hf
      unfold vhStep
      cases hg : arrayOf h g with
      | none => exact hf
      | some k =>
        by_cases hany : acc.1.vh.any (·.1 == g) = true
        · simp only [hany, if_true]; exact hf
        · simp only [hany, Bool.false_eq_true, if_false, List.any_append, hf, Bool.true_or]
    obtain ⟨i1, i2, i3, i4⟩ := ih (vhStep h il ip acc g) hstep
    refine ⟨i1, by rw [i2, hstep_tf.1], by rw [i3, hstep_tf.2], ?_⟩
    intro f k hf hk
    apply i4 f k _ hk
    rcases hf with hf | hf
    · rcases List.mem_cons.mp hf with rfl | hf'
      · exact .inr (hpres k hk)
      · exact .inl hf'
    · exact .inr (hmono f hf)

/-- `read_variant_headers(b, fields)` from a state that satisfies the invariant, in a mode the reader accepts: succeeds,
keeps the invariant, fixes the mode, and leaves every listed stored field loaded with the file's array in that mode -/
theorem rvh_spec (h : HFile) (il : Nat) (st : HSt) (hinv : HInv h il st) (b : Bool) (fields : List Nat)
    (hok : h.structured = true ∨ st.includePadding.getD b = b) :
    ∃ st' fs, readVariantHeaders h il st b fields = .ok (st', fs) ∧ HInv h il st'
      ∧ st'.includePadding = some (st.includePadding.getD b)
      ∧ ∀ f k, f ∈ fields → arrayOf h f = some k →
        ∃ p, st'.vh.find? (·.1 == f) = some p ∧ p.2 = arrMode h il (st.includePadding.getD b) k := by
  have hacc : ∀ p ∈ st.vh, ∃ k, arrayOf h p.1 = some k ∧ p.2 = arrMode h il (st.includePadding.getD b) k := by
    cases hm : st.includePadding with
    | none => rw [hinv.fresh hm]; intro p hp; cases hp
    | some x => have := hinv.vh; rw [hm] at this; exact this
  have hcond : (!h.structured && st.includePadding.getD b != b) = false := by
    rcases hok with hs | hm
    · simp [hs]
    · simp [hm]
  unfold readVariantHeaders
  simp only [hcond, Bool.false_eq_true, if_false]
  obtain ⟨i1, i2, i3, i4⟩ := vhFold_spec h il (st.includePadding.getD b) fields
    ({ st with includePadding := some (st.includePadding.getD b) }, []) hacc
  refine ⟨_, _, rfl, ⟨?_, ?_, ?_⟩, i3, ?_⟩
  · rw [i3]; exact i1
  · intro hn; rw [i3] at hn; cases hn
  · rw [i2]; exact hinv.tf
  · intro f k hf hk
    exact i4 f k (.inl hf) hk

/-- the values of a result, without the I/O it took -/
def HR.vals : HR → Except Err (List Int)
  | .ok o => .ok o.vals
  | .error e => .error e

/-! ### what the file defines as the header of ordinal `t` -/

/-- grid slot (array position) of ordinal `t` -/
def slotOf (h : HFile) (il t : Nat) : Option Nat :=
  if h.is3d && !h.structured then (positions h il)[t]? else if t < h.grid then some t else none

def headerCanon (h : HFile) (il t : Nat) : Except Err (List Int) :=
  if !(decide (t < h.grid)) then .error .index else
  match slotOf h il t with
  | some pos => .ok (headerAt h pos)
  | none => if hasStored h then .error .index else .ok (headerAt h 0)

theorem rawArray_get (h : HFile) (k pos : Nat) :
    (rawArray h k)[pos]? = (if pos < h.grid then some pos else none).map (h.val k) := by
  unfold rawArray
  rw [List.getElem?_map]
  congr 1
  by_cases hp : pos < h.grid
  · rw [if_pos hp, List.getElem?_range hp]
  · rw [if_neg hp]; exact List.getElem?_eq_none (by simpa using hp)

theorem maskedArray_get (h : HFile) (il k t : Nat) :
    (maskedArray h il k)[t]? = ((positions h il)[t]?).map (h.val k) := by
  unfold maskedArray
  rw [List.getElem?_map]

theorem positions_lt (h : HFile) (il t pos : Nat) (hp : (positions h il)[t]? = some pos) : pos < h.grid := by
  have := List.mem_of_getElem? hp
  unfold positions at this
  exact List.mem_range.mp (List.mem_filter.mp this).1

/-- the look-ups of a header, when every stored field is loaded with an array `A k` -/
theorem lookup_spec (h : HFile) (vh : List (Nat × List Int)) (A : Nat → List Int) (pos : Nat)
    (hall : ∀ f k, f ∈ List.range h.tbl.length → arrayOf h f = some k → ∃ p, vh.find? (·.1 == f) = some p ∧ p.2 = A k) :
    lookup h vh pos = (List.range h.tbl.length).map fun f =>
      match arrayOf h f with
      | none => some (h.tbl.getD f (0, 0)).1
      | some k => (A k)[pos]? := by
  unfold lookup
  apply List.map_congr_left
  intro f hf
  cases hk : arrayOf h f with
  | none => rfl
  | some k =>
    obtain ⟨p, hp1, hp2⟩ := hall f k hf hk
    simp only [hp1, Option.bind_some, hp2]

/-- … and when each such array has, at the position looked up, the value of one grid slot (or nothing) -/
theorem look_of_slot (h : HFile) (A : Nat → List Int) (pos : Nat) (slot : Option Nat)
    (hA : ∀ f k, f ∈ List.range h.tbl.length → arrayOf h f = some k → (A k)[pos]? = slot.map (h.val k)) :
    let look := (List.range h.tbl.length).map fun f =>
      match arrayOf h f with
      | none => some (h.tbl.getD f (0, 0)).1
      | some k => (A k)[pos]?
    look.any (·.isNone) = (hasStored h && slot.isNone)
    ∧ ∀ q, slot = some q → look.map (·.getD 0) = headerAt h q := by
  constructor
  · cases slot with
    | some q =>
      simp only [Option.isNone_some, Bool.and_false]
      rw [List.any_eq_false]
      intro x hx
      obtain ⟨f, hf, rfl⟩ := List.mem_map.mp hx
      cases hk : arrayOf h f with
      | none => simp
      | some k => simp only [hA f k hf hk, Option.map_some]; simp
    | none =>
      simp only [Option.isNone_none, Bool.and_true]
      unfold hasStored
      rw [Bool.eq_iff_iff, List.any_eq_true, List.any_eq_true]
      constructor
      · rintro ⟨x, hx, hx2⟩
        obtain ⟨f, hf, rfl⟩ := List.mem_map.mp hx
        refine ⟨f, hf, ?_⟩
        cases hk : arrayOf h f with
        | none => simp [hk] at hx2
        | some k => rfl
      · rintro ⟨f, hf, hf2⟩
        refine ⟨_, List.mem_map.mpr ⟨f, hf, rfl⟩, ?_⟩
        cases hk : arrayOf h f with
        | none => simp [hk] at hf2
        | some k => simp [hA f k hf hk]
  · intro q hq
    subst hq
    unfold headerAt
    rw [List.map_map]
    apply List.map_congr_left
    intro f hf
    cases hk : arrayOf h f with
    | none => simp [hk]
    | some k => simp [hk, hA f k hf hk]

theorem hinv_mask (h : HFile) (il : Nat) (st : HSt) (hinv : HInv h il st) (b : Bool) :
    HInv h il { st with maskLoaded := b } := ⟨hinv.vh, hinv.fresh, hinv.tf⟩

theorem headerAt_const (h : HFile) (hn : hasStored h = false) (p q : Nat) : headerAt h p = headerAt h q := by
  unfold headerAt
  apply List.map_congr_left
  intro f hf
  have := List.any_eq_false.mp hn f hf
  cases hk : arrayOf h f with
  | none => rfl
  | some k => simp [hk] at this

set_option linter.unusedSimpArgs false in
/-- `gen_trace_header` from any state a history can leave: the invariant is kept and the values are the header the file
defines for that ordinal — whatever mode the arrays were loaded in, whatever is cached -/
theorem genTraceHeader_spec (h : HFile) (il : Nat) (st : HSt) (hinv : HInv h il st) (t : Nat) (loadAll : Bool)
    (hwf : h.structured = true → h.is3d = true)
    (hst : h.is3d = true → h.structured = false → hasStored h = true) :
    HInv h il (genTraceHeader h il st t loadAll).1 ∧
    HR.vals (genTraceHeader h il st t loadAll).2 = headerCanon h il t := by
  unfold genTraceHeader headerCanon
  by_cases hb : (!(decide (t < h.grid))) = true
  · rw [if_pos hb, if_pos hb]; exact ⟨hinv, rfl⟩
  rw [if_neg hb, if_neg hb]
  by_cases hsl : (h.structured && !loadAll) = true
  · rw [if_pos hsl]
    have hs : h.structured = true := by
      cases hh : h.structured <;> simp [hh] at hsl ⊢
    have h3 := hwf hs
    have hlt : t < h.grid := by
      cases hd : decide (t < h.grid) with
      | true => exact of_decide_eq_true hd
      | false => simp [h3, hd] at hb
    refine ⟨hinv, ?_⟩
    simp only [slotOf, hs, h3, Bool.not_true, Bool.and_false, Bool.false_eq_true, if_false, hlt, if_true]
    rfl
  rw [if_neg hsl]
  dsimp only
  cases hnp : (st.includePadding.getD false && h.is3d && !h.structured) with
  | true =>
    have hp : st.includePadding.getD false = true := by
      cases hh : st.includePadding.getD false <;> simp [hh] at hnp ⊢
    have h3 : h.is3d = true := by
      cases hh : h.is3d <;> simp [hh] at hnp ⊢
    have hs : h.structured = false := by
      cases hh : h.structured <;> simp [hh] at hnp ⊢
    have hsto := hst h3 hs
    simp only [hp, if_true, slotOf, h3, hs, Bool.not_false, Bool.and_true]
    cases hpos : (positions h il)[t]? with
    | none =>
      simp only [hsto, if_true]
      exact ⟨hinv_mask h il st hinv true, rfl⟩
    | some pos =>
      simp only [hsto, Bool.not_true, Bool.false_eq_true, if_false]
      have hinv0 := hinv_mask h il st hinv true
      have hok : ({ st with maskLoaded := true } : HSt).includePadding.getD true = true := by
        cases hm : st.includePadding with
        | none => rfl
        | some x => rw [hm] at hp; simpa using hp
      obtain ⟨st', fs, hr, hinv', _, hall⟩ := rvh_spec h il _ hinv0 true (List.range h.tbl.length) (.inr hok)
      rw [hr]
      dsimp only
      have hlk := lookup_spec h st'.vh (arrMode h il true) pos (by
        intro f k hf hk
        obtain ⟨p, hp1, hp2⟩ := hall f k hf hk
        exact ⟨p, hp1, by rw [hp2, hok]⟩)
      have hA : ∀ f k, f ∈ List.range h.tbl.length → arrayOf h f = some k →
          (arrMode h il true k)[pos]? = (some pos).map (h.val k) := by
        intro f k _ _
        unfold arrMode
        simp only [Bool.or_true, Bool.not_true, Bool.and_false, Bool.false_eq_true, if_false]
        rw [rawArray_get, if_pos (positions_lt h il t pos hpos)]
      obtain ⟨l1, l2⟩ := look_of_slot h (arrMode h il true) pos (some pos) hA
      rw [hlk]
      simp only [l1, Option.isNone_some, Bool.and_false, Bool.false_eq_true, if_false]
      exact ⟨hinv', by simp only [HR.vals]; rw [l2 pos rfl]⟩
  | false =>
    simp only [Bool.false_eq_true, if_false, Bool.false_and]
    cases hsto : hasStored h with
    | false =>
      simp only [Bool.not_false, if_true]
      refine ⟨hinv, ?_⟩
      have hvac : ∀ f k, f ∈ List.range h.tbl.length → arrayOf h f = some k → False := by
        intro f k hf hk
        have := List.any_eq_false.mp hsto f hf
        simp [hk] at this
      have hlk := lookup_spec h [] (fun _ => []) t (fun f k hf hk => (hvac f k hf hk).elim)
      obtain ⟨_, l2⟩ := look_of_slot h (fun _ => []) t (some 0) (fun f k hf hk => (hvac f k hf hk).elim)
      simp only [HR.vals, hlk, l2 0 rfl]
      cases slotOf h il t with
      | none => rfl
      | some q => simp only [headerAt_const h hsto q 0]
    | true =>
      simp only [Bool.not_true, Bool.false_eq_true, if_false]
      have hok : st.includePadding.getD (st.includePadding.getD false) = st.includePadding.getD false := by
        cases st.includePadding <;> rfl
      obtain ⟨st', fs, hr, hinv', _, hall⟩ :=
        rvh_spec h il st hinv (st.includePadding.getD false) (List.range h.tbl.length) (.inr hok)
      rw [hr]
      dsimp only
      have hlk := lookup_spec h st'.vh (arrMode h il (st.includePadding.getD false)) t (by
        intro f k hf hk
        obtain ⟨p, hp1, hp2⟩ := hall f k hf hk
        exact ⟨p, hp1, by rw [hp2, hok]⟩)
      have hA : ∀ f k, f ∈ List.range h.tbl.length → arrayOf h f = some k →
          (arrMode h il (st.includePadding.getD false) k)[t]? = (slotOf h il t).map (h.val k) := by
        intro f k _ _
        unfold arrMode slotOf
        cases h3 : h.is3d <;> cases hs : h.structured <;> cases hp : st.includePadding.getD false <;>
          simp only [h3, hs, hp, Bool.and_true, Bool.and_false, Bool.true_and, Bool.false_and, Bool.not_true, Bool.not_false,
            Bool.or_true, Bool.or_false, Bool.false_or, Bool.true_or, Bool.false_eq_true, if_true, if_false] at hnp ⊢ <;>
          first | exact rawArray_get h k t | exact maskedArray_get h il k t | exact absurd hnp (by decide)
      obtain ⟨l1, l2⟩ := look_of_slot h _ t (slotOf h il t) hA
      rw [hlk]
      simp only [l1, hsto, Bool.true_and]
      cases hslot : slotOf h il t with
      | none =>
        simp only [Option.isNone_none, if_true]
        exact ⟨hinv', rfl⟩
      | some q =>
        simp only [Option.isNone_some, Bool.false_eq_true, if_false]
        exact ⟨hinv', by simp only [HR.vals]; rw [l2 q hslot]⟩

theorem getTracefield_spec (h : HFile) (il : Nat) (st : HSt) (hinv : HInv h il st) (f : Nat) :
    HInv h il (getTracefield h st f).1 ∧
    HR.vals (getTracefield h st f).2 =
      (match arrayOf h f with | none => .error .other | some k => .ok (rawArray h k)) := by
  unfold getTracefield
  cases hk : arrayOf h f with
  | none => exact ⟨hinv, rfl⟩
  | some k =>
    cases hfind : st.tf.find? (·.1 == f) with
    | some p =>
      refine ⟨hinv, ?_⟩
      obtain ⟨k', h1, h2⟩ := hinv.tf p (List.mem_of_find?_eq_some hfind)
      have : p.1 = f := by simpa using List.find?_some hfind
      rw [this, hk] at h1
      cases h1
      simp only [HR.vals, h2]
    | none =>
      refine ⟨⟨hinv.vh, hinv.fresh, ?_⟩, rfl⟩
      intro p hp
      rcases List.mem_append.mp hp with hp | hp
      · exact hinv.tf p hp
      · simp only [List.mem_singleton] at hp
        subst hp
        exact ⟨k, hk, rfl⟩

/-- `read_variant_headers`, accepted or refused, keeps the invariant -/
theorem rvh_inv (h : HFile) (il : Nat) (st : HSt) (hinv : HInv h il st) (b : Bool) (fields : List Nat) :
    HInv h il (match readVariantHeaders h il st b fields with
      | .error e => (st, (.error e : HR))
      | .ok (st', fs) => (st', .ok { vals := [], fetches := fs })).1 := by
  by_cases hok : h.structured = true ∨ st.includePadding.getD b = b
  · obtain ⟨st', fs, hr, hinv', _, _⟩ := rvh_spec h il st hinv b fields hok
    rw [hr]; exact hinv'
  · have hcond : (!h.structured && st.includePadding.getD b != b) = true := by
      cases hs : h.structured <;> simp [hs] at hok ⊢
      exact hok
    unfold readVariantHeaders
    simp only [hcond, if_true]
    exact hinv

/-- what a call shows to its caller: the values (or the refusal) of a header or tracefield read; `read_variant_headers`
returns nothing (its refusal of a second padding mode is the library's documented contract, not a read result) -/
def obs (op : HOp) (r : HR) : Except Err (List Int) :=
  match op with
  | .rvh _ => .ok []
  | .rvh1 _ _ => .ok []
  | _ => HR.vals r

/-- one operation, from any state a history can leave: the invariant is kept and the values are those a fresh reader
returns -/
theorem step_spec (h : HFile) (il : Nat) (st : HSt) (hinv : HInv h il st)
    (hwf : h.structured = true → h.is3d = true)
    (hst : h.is3d = true → h.structured = false → hasStored h = true) (op : HOp) :
    HInv h il (step h il st op).1 ∧ obs op (step h il st op).2 = obs op (pure h il op) := by
  cases op with
  | hdr t =>
    have a := genTraceHeader_spec h il st hinv t false hwf hst
    have b := genTraceHeader_spec h il HSt.init (hinv_init h il) t false hwf hst
    exact ⟨a.1, by simp only [step, pure, obs]; rw [a.2, b.2]⟩
  | hdrAll t =>
    have a := genTraceHeader_spec h il st hinv t true hwf hst
    have b := genTraceHeader_spec h il HSt.init (hinv_init h il) t true hwf hst
    exact ⟨a.1, by simp only [step, pure, obs]; rw [a.2, b.2]⟩
  | tfv f =>
    have a := getTracefield_spec h il st hinv f
    have b := getTracefield_spec h il HSt.init (hinv_init h il) f
    exact ⟨a.1, by simp only [step, pure, obs]; rw [a.2, b.2]⟩
  | rvh b => exact ⟨rvh_inv h il st hinv b _, rfl⟩
  | rvh1 b f => exact ⟨rvh_inv h il st hinv b _, rfl⟩
  | clear => exact ⟨⟨(by intro p hp; cases hp), (fun _ => rfl), (by intro p hp; cases hp)⟩, rfl⟩

/-- **history independence of header reads**: whatever was read, loaded (in either padding mode) or cleared before on the
same reader, each header / tracefield read returns what a fresh reader returns -/
theorem run_spec (h : HFile) (il : Nat)
    (hwf : h.structured = true → h.is3d = true)
    (hst : h.is3d = true → h.structured = false → hasStored h = true) (ops : List HOp) :
    ∀ st, HInv h il st →
      List.zipWith obs ops (run h il st ops) = ops.map fun op => obs op (pure h il op) := by
  induction ops with
  | nil => intro st _; rfl
  | cons op rest ih =>
    intro st hinv
    obtain ⟨h1, h2⟩ := step_spec h il st hinv hwf hst op
    simp only [run, List.zipWith_cons_cons, List.map_cons, h2, ih _ h1]

theorem run_length (h : HFile) (il : Nat) (ops : List HOp) : ∀ st, (run h il st ops).length = ops.length := by
  induction ops with
  | nil => intro st; rfl
  | cons op rest ih => intro st; simp only [run, List.length_cons, ih]


/-! ### bounds and I/O of header reads -/

/-- headers of an unstructured 3D file: ordinal `t` exists iff `t` is below the number of populated slots -/
theorem headerCanon_unstructured (h : HFile) (il t : Nat) (h3 : h.is3d = true) (hs : h.structured = false)
    (hsto : hasStored h = true) :
    headerCanon h il t =
      (match (positions h il)[t]? with
       | some pos => .ok (headerAt h pos)
       | none => .error .index) := by
  unfold headerCanon slotOf
  simp only [h3, hs, Bool.not_false, Bool.and_true, Bool.true_and, if_true, hsto]
  cases hp : (positions h il)[t]? with
  | some pos =>
    have := positions_lt h il t pos hp
    have hlen : t < (positions h il).length := by
      rcases List.getElem?_eq_some_iff.mp hp with ⟨hl, _⟩; exact hl
    have hle : (positions h il).length ≤ h.grid := by
      unfold positions
      exact Nat.le_trans (List.length_filter_le _ _) (by simp)
    have : t < h.grid := Nat.lt_of_lt_of_le hlen hle
    simp [this]
  | none =>
    by_cases hg : t < h.grid <;> simp [hg]

/-- headers where the array position is the ordinal (structured 3D, 2D): ordinal `t` exists iff `t < grid` -/
theorem headerCanon_direct (h : HFile) (il t : Nat) (hd : (h.is3d && !h.structured) = false) (hsto : hasStored h = true) :
    headerCanon h il t = (if t < h.grid then .ok (headerAt h t) else .error .index) := by
  unfold headerCanon slotOf
  simp only [hd, Bool.false_eq_true, if_false, hsto]
  by_cases hg : t < h.grid
  · simp [hg]
  · cases h.is3d <;> simp [hg]

/-- the array indices read by a structured header look-up: each stored array once -/
def distinctArrays (h : HFile) : List Nat :=
  ((List.range h.tbl.length).filterMap (arrayOf h)).foldl (fun acc k => if acc.contains k then acc else acc ++ [k]) []

theorem dedup_fold_spec (ks : List Nat) : ∀ (acc : List Nat), acc.Nodup →
    (ks.foldl (fun acc k => if acc.contains k then acc else acc ++ [k]) acc).Nodup
    ∧ ∀ x, x ∈ ks.foldl (fun acc k => if acc.contains k then acc else acc ++ [k]) acc ↔ (x ∈ acc ∨ x ∈ ks) := by
  induction ks with
  | nil => intro acc hacc; exact ⟨hacc, by simp⟩
  | cons k ks ih =>
    intro acc hacc
    simp only [List.foldl_cons]
    by_cases hc : acc.contains k = true
    · simp only [hc, if_true]
      obtain ⟨a, b⟩ := ih acc hacc
      refine ⟨a, fun x => ?_⟩
      rw [b x]
      have hk : k ∈ acc := by simpa using hc
      constructor
      · rintro (hx | hx)
        · exact .inl hx
        · exact .inr (List.mem_cons_of_mem _ hx)
      · rintro (hx | hx)
        · exact .inl hx
        · rcases List.mem_cons.mp hx with rfl | hx
          · exact .inl hk
          · exact .inr hx
    · simp only [hc, Bool.false_eq_true, if_false]
      have hk : k ∉ acc := by simpa using hc
      have hnd : (acc ++ [k]).Nodup := by
        rw [List.nodup_append]
        refine ⟨hacc, List.nodup_cons.mpr ⟨List.not_mem_nil, List.nodup_nil⟩, ?_⟩
        intro a ha b hb
        simp only [List.mem_singleton] at hb
        subst hb
        intro hab; subst hab; exact hk ha
      obtain ⟨a, b⟩ := ih (acc ++ [k]) hnd
      refine ⟨a, fun x => ?_⟩
      rw [b x]
      simp only [List.mem_append, List.mem_cons, List.not_mem_nil, or_false]
      constructor
      · rintro ((hx | hx) | hx)
        · exact .inl hx
        · exact .inr (.inl hx)
        · exact .inr (.inr hx)
      · rintro (hx | hx | hx)
        · exact .inl (.inl hx)
        · exact .inl (.inr hx)
        · exact .inr hx

/-- a header look-up on a structured file reads exactly four bytes of every stored array, each array once, and keeps
nothing -/
theorem structured_header_io (h : HFile) (il : Nat) (st : HSt) (t : Nat) (hs : h.structured = true) (h3 : h.is3d = true)
    (ht : t < h.grid) :
    (genTraceHeader h il st t false).1 = st ∧
    ∃ o, (genTraceHeader h il st t false).2 = .ok o
      ∧ o.fetches = (distinctArrays h).map (fun k => (offsetOf h k + 4 * t, 4))
      ∧ (distinctArrays h).Nodup
      ∧ ∀ k, k ∈ distinctArrays h ↔ ∃ f, f < h.tbl.length ∧ arrayOf h f = some k := by
  unfold genTraceHeader
  simp only [h3, ht, decide_true, Bool.not_true, Bool.and_false, Bool.false_eq_true, if_false, hs, Bool.not_false,
    Bool.and_true, if_true]
  refine ⟨trivial, _, rfl, rfl, ?_, ?_⟩
  · exact (dedup_fold_spec _ [] List.nodup_nil).1
  · intro k
    unfold distinctArrays
    rw [(dedup_fold_spec _ [] List.nodup_nil).2 k]
    simp only [List.not_mem_nil, false_or, List.mem_filterMap, List.mem_range]

end HeaderReads
end Sgz
