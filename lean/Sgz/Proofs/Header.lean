import Sgz.Model.Header
/-!
# Proofs/Header — the reader recovers every fixed header field a writer states
-/
namespace Sgz
namespace Header

theorem get32_put32_same (h : Bytes) (off w : Nat) (hw : w < 4294967296) : get32 (put32 h off w) off = w := by
  unfold get32 put32
  simp only [if_true]
  have e1 : (off + 1 = off) = False := by simp
  have e2 : (off + 2 = off) = False := by simp
  have e3 : (off + 3 = off) = False := by simp
  have e4 : (off + 2 = off + 1) = False := by simp
  have e5 : (off + 3 = off + 1) = False := by simp
  have e6 : (off + 3 = off + 2) = False := by simp
  simp only [e1, e2, e3, e4, e5, e6, if_false, if_true]
  omega

theorem get32_put32_other (h : Bytes) (off off' w : Nat) (hd : off + 4 ≤ off' ∨ off' + 4 ≤ off) :
    get32 (put32 h off' w) off = get32 h off := by
  unfold get32 put32
  have n0 : ¬ (off = off') := by omega
  have n1 : ¬ (off = off' + 1) := by omega
  have n2 : ¬ (off = off' + 2) := by omega
  have n3 : ¬ (off = off' + 3) := by omega
  have m0 : ¬ (off + 1 = off') := by omega
  have m1 : ¬ (off + 1 = off' + 1) := by omega
  have m2 : ¬ (off + 1 = off' + 2) := by omega
  have m3 : ¬ (off + 1 = off' + 3) := by omega
  have p0 : ¬ (off + 2 = off') := by omega
  have p1 : ¬ (off + 2 = off' + 1) := by omega
  have p2 : ¬ (off + 2 = off' + 2) := by omega
  have p3 : ¬ (off + 2 = off' + 3) := by omega
  have q0 : ¬ (off + 3 = off') := by omega
  have q1 : ¬ (off + 3 = off' + 1) := by omega
  have q2 : ¬ (off + 3 = off' + 2) := by omega
  have q3 : ¬ (off + 3 = off' + 3) := by omega
  simp only [n0, n1, n2, n3, m0, m1, m2, m3, p0, p1, p2, p3, q0, q1, q2, q3, if_false]

theorem word_lt (v : Int) : word v < 4294967296 := by
  unfold word
  have := Int.emod_lt_of_pos v (by decide : (0 : Int) < 4294967296)
  have := Int.emod_nonneg v (by decide : (4294967296 : Int) ≠ 0)
  omega

theorem toSigned_word (v : Int) (h : -2147483648 ≤ v ∧ v < 2147483648) : toSigned (word v) = v := by
  unfold toSigned word
  have h0 := Int.emod_nonneg v (by decide : (4294967296 : Int) ≠ 0)
  by_cases hv : 0 ≤ v
  · have : v % 4294967296 = v := Int.emod_eq_of_lt hv (by omega)
    rw [this]
    have : v.toNat < 2147483648 := by omega
    simp only [this, if_true]
    omega
  · have : v % 4294967296 = v + 4294967296 := by
      rw [← Int.add_mul_emod_self_left v 4294967296 1]
      exact Int.emod_eq_of_lt (by omega) (by omega)
    rw [this]
    have : ¬ ((v + 4294967296).toNat < 2147483648) := by omega
    simp only [this, if_false]
    omega

theorem wrap_word (v : Int) (h : -2147483648 ≤ v ∧ v < 2147483648) : Axes.wrapI32 ((word v : Nat) : Int) = v := by
  unfold Axes.wrapI32 word
  have h0 := Int.emod_nonneg v (by decide : (4294967296 : Int) ≠ 0)
  rw [Int.toNat_of_nonneg h0]
  by_cases hv : 0 ≤ v
  · have : v % 4294967296 = v := Int.emod_eq_of_lt hv (by omega)
    rw [this, Int.emod_eq_of_lt (by omega) (by omega)]; omega
  · have : v % 4294967296 = v + 4294967296 := by
      rw [← Int.add_mul_emod_self_left v 4294967296 1]
      exact Int.emod_eq_of_lt (by omega) (by omega)
    rw [this]
    have : (v + 4294967296 + 2147483648) % 4294967296 = v + 2147483648 := by
      rw [show v + 4294967296 + 2147483648 = (v + 2147483648) + 4294967296 * 1 by omega, Int.add_mul_emod_self_left]
      exact Int.emod_eq_of_lt (by omega) (by omega)
    rw [this]; omega

theorem rate_roundtrip (q : Nat) (h : validRateQ q = true) :
    decodeRate (toSigned (word (encodeRate q))) = q ∧ -2147483648 ≤ encodeRate q ∧ encodeRate q < 2147483648 := by
  unfold validRateQ at h
  simp only [Bool.or_eq_true, beq_iff_eq] at h
  rcases h with ((((((h | h) | h) | h) | h) | h) | h) | h <;> subst h <;> decide

end Header
end Sgz

namespace Sgz
namespace Header

/-- a sequence of stores at offsets that are pairwise at least 4 apart: each load returns the word stored there -/
theorem get32_foldl (ws : List (Nat × Nat)) (b : Bytes) (o w : Nat)
    (hmem : (o, w) ∈ ws) (hw : w < 4294967296)
    (hdis : ws.Pairwise fun a c => a.1 + 4 ≤ c.1 ∨ c.1 + 4 ≤ a.1) :
    get32 (ws.foldl (fun h ow => put32 h ow.1 ow.2) b) o = w := by
  induction ws generalizing b with
  | nil => cases hmem
  | cons x xs ih =>
    rw [List.pairwise_cons] at hdis
    simp only [List.foldl_cons]
    rcases List.mem_cons.mp hmem with rfl | hin
    · -- stored first, never overwritten
      have hkeep : ∀ (ys : List (Nat × Nat)) (b' : Bytes), (∀ y ∈ ys, o + 4 ≤ y.1 ∨ y.1 + 4 ≤ o) →
          get32 (ys.foldl (fun h ow => put32 h ow.1 ow.2) b') o = get32 b' o := by
        intro ys
        induction ys with
        | nil => intro b' _; rfl
        | cons y ys ihy =>
          intro b' hy
          simp only [List.foldl_cons]
          rw [ihy _ (fun z hz => hy z (List.mem_cons_of_mem _ hz)),
            get32_put32_other _ _ _ _ (hy y (List.mem_cons_self ..))]
      rw [hkeep xs _ (fun y hy => hdis.1 y hy)]
      exact get32_put32_same _ _ _ hw
    · exact ih _ hin hdis.2

theorem writes_disjoint (f : Fields) : (writes f).Pairwise fun a c => a.1 + 4 ≤ c.1 ∨ c.1 + 4 ≤ a.1 := by
  unfold writes
  simp [List.pairwise_cons]

/-- **header round trip**: whatever fields a writer states (within the ranges `struct.pack` accepts, rate one of
1/4 … 32), the reader recovers exactly those fields -/
theorem parse_make (f : Fields) (h : Bytes) (hq : validRateQ f.q = true) (hm : make f = some h) : parse h = f := by
  unfold make at hm
  dsimp only at hm
  split at hm
  · cases hm
  · rename_i hok
    simp only [Bool.not_eq_true, Bool.not_eq_false', Bool.and_eq_true, decide_eq_true_eq] at hok
    obtain ⟨⟨⟨⟨⟨⟨⟨⟨⟨⟨⟨⟨⟨⟨⟨⟨⟨h0, h4⟩, h8⟩, h12⟩, h44⟩, h48⟩, h52⟩, h56⟩, h60⟩, h64⟩, h68⟩, h72⟩, h16⟩, h20⟩, h24⟩, h28⟩,
      h32⟩, h36⟩ := hok
    obtain ⟨hr1, _, _⟩ := rate_roundtrip f.q hq
    injection hm with hm
    subst hm
    have G : ∀ o w, (o, w) ∈ writes f → w < 4294967296 →
        get32 ((writes f).foldl (fun h ow => put32 h ow.1 ow.2) (fun _ => 0)) o = w :=
      fun o w hmem hw => get32_foldl (writes f) _ o w hmem hw (writes_disjoint f)
    have M : ∀ o w, (o, w) ∈ writes f ↔ (o, w) ∈ writes f := fun _ _ => Iff.rfl
    unfold parse
    rw [G 0 f.nHeaderBlocks (by simp [writes]) h0, G 4 f.nSamples (by simp [writes]) h4, G 8 f.nXl (by simp [writes]) h8,
      G 12 f.nIl (by simp [writes]) h12, G 16 (word f.zStart) (by simp [writes]) (word_lt _),
      G 20 (word f.xl0) (by simp [writes]) (word_lt _), G 24 (word f.il0) (by simp [writes]) (word_lt _),
      G 28 (word f.interval) (by simp [writes]) (word_lt _), G 32 (word f.dXl) (by simp [writes]) (word_lt _),
      G 36 (word f.dIl) (by simp [writes]) (word_lt _), G 40 (word (encodeRate f.q)) (by simp [writes]) (word_lt _),
      G 44 f.b0 (by simp [writes]) h44, G 48 f.b1 (by simp [writes]) h48, G 52 f.b2 (by simp [writes]) h52,
      G 56 f.dataBlocks (by simp [writes]) h56, G 60 f.arrayBytes (by simp [writes]) h60, G 64 f.nArrays (by simp [writes]) h64,
      G 68 f.tracecount (by simp [writes]) h68, G 72 f.version (by simp [writes]) h72,
      toSigned_word _ h16, wrap_word _ h20, wrap_word _ h24, toSigned_word _ h28, wrap_word _ h32, wrap_word _ h36, hr1]


/-! ### the header-word table -/

/-- stores elsewhere leave a word alone -/
theorem get32_foldl_other (ws : List (Nat × Nat)) (b : Bytes) (o : Nat)
    (h : ∀ y ∈ ws, o + 4 ≤ y.1 ∨ y.1 + 4 ≤ o) :
    get32 (ws.foldl (fun h ow => put32 h ow.1 ow.2) b) o = get32 b o := by
  induction ws generalizing b with
  | nil => rfl
  | cons y ys ih =>
    simp only [List.foldl_cons]
    rw [ih _ (fun z hz => h z (List.mem_cons_of_mem _ hz)),
      get32_put32_other _ _ _ _ (h y List.mem_cons_self)]

theorem tableWrites_disjoint (rows : List TRow) :
    (tableWrites rows).Pairwise fun a c => a.1 + 4 ≤ c.1 ∨ c.1 + 4 ≤ a.1 := by
  unfold tableWrites
  rw [List.pairwise_map]
  exact List.Pairwise.imp (fun {a b} (hab : a < b) => Or.inl (by simp only; omega)) List.pairwise_lt_range

theorem get32_putTable (h : Bytes) (rows : List TRow) (k : Nat) (hk : k < 3 * rows.length) :
    get32 (putTable h rows) (tableAt + 4 * k) = word (cell rows k) := by
  unfold putTable
  apply get32_foldl _ _ _ _ _ (word_lt _) (tableWrites_disjoint rows)
  unfold tableWrites
  exact List.mem_map.mpr ⟨k, List.mem_range.mpr hk, rfl⟩

theorem cell_row (rows : List TRow) (i : Nat) (hi : i < rows.length) :
    cell rows (3 * i) = rows[i].1 ∧ cell rows (3 * i + 1) = rows[i].2.1 ∧ cell rows (3 * i + 2) = rows[i].2.2 := by
  unfold cell
  have e0 : 3 * i / 3 = i := by omega
  have e1 : (3 * i + 1) / 3 = i := by omega
  have e2 : (3 * i + 2) / 3 = i := by omega
  have m0 : 3 * i % 3 = 0 := by omega
  have m1 : (3 * i + 1) % 3 = 1 := by omega
  have m2 : (3 * i + 2) % 3 = 2 := by omega
  simp only [e0, e1, e2, m0, m1, m2, List.getD_eq_getElem?_getD, List.getElem?_eq_getElem hi, Option.getD_some]
  simp

/-- **table round trip**: the reader recovers every row the writer stored (values within `struct.pack('<i')`'s range) -/
theorem getRow_putTable (h : Bytes) (rows : List TRow) (i : Nat) (hi : i < rows.length)
    (hr : ∀ r ∈ rows, i32 r.1 ∧ i32 r.2.1 ∧ i32 r.2.2) : getRow (putTable h rows) i = rows[i] := by
  have hrow := hr rows[i] (List.getElem_mem hi)
  obtain ⟨c0, c1, c2⟩ := cell_row rows i hi
  unfold getRow rowAt
  have a0 : tableAt + 12 * i = tableAt + 4 * (3 * i) := by omega
  have a1 : tableAt + 12 * i + 4 = tableAt + 4 * (3 * i + 1) := by omega
  have a2 : tableAt + 12 * i + 8 = tableAt + 4 * (3 * i + 2) := by omega
  rw [a2, a1, a0, get32_putTable h rows _ (by omega), get32_putTable h rows _ (by omega),
    get32_putTable h rows _ (by omega), c0, c1, c2,
    toSigned_word _ hrow.1, toSigned_word _ hrow.2.1, toSigned_word _ hrow.2.2]

theorem getTable_putTable (h : Bytes) (rows : List TRow) (hr : ∀ r ∈ rows, i32 r.1 ∧ i32 r.2.1 ∧ i32 r.2.2) :
    getTable (putTable h rows) rows.length = rows := by
  apply List.ext_getElem
  · simp [getTable]
  · intro i h1 h2
    simp only [getTable, List.getElem_map, List.getElem_range]
    exact getRow_putTable h rows i h2 hr

/-- the table does not touch a word outside bytes `980 … 980 + 12·rows` (in particular none of the fixed fields, which end
at byte 76, and nothing beyond byte 2048 when there are 89 rows) -/
theorem putTable_outside (h : Bytes) (rows : List TRow) (o : Nat)
    (ho : o + 4 ≤ tableAt ∨ tableAt + 12 * rows.length ≤ o) : get32 (putTable h rows) o = get32 h o := by
  unfold putTable
  apply get32_foldl_other
  intro y hy
  unfold tableWrites at hy
  obtain ⟨k, hk, rfl⟩ := List.mem_map.mp hy
  have := List.mem_range.mp hk
  simp only
  omega

end Header
end Sgz
