import Sgz.Model.SegyRaw
import Sgz.Proofs.Arith
import Mathlib.Tactic.Ring
/-!
# Proofs/SegyRaw — the one-read-per-inline reader takes every sample and header from the right bytes of the file
-/
namespace Sgz
namespace SegyRaw

/-- sample `s` of the `h`-th trace of line `i` is read from the file bytes of sample `s` of trace `i·nxl + h` -/
theorem sample_position (nxl ns i h s : Nat) :
    (readLine nxl ns i).1 + sampleInBuf ns h s = traceOffset ns (i * nxl + h) + 240 + 4 * s := by
  unfold readLine sampleInBuf traceOffset traceBytes; ring

/-- header `h` of line `i` is read from the file bytes of the header of trace `i·nxl + h` -/
theorem header_position (nxl ns i h : Nat) :
    (readLine nxl ns i).1 + headerInBuf ns h = traceOffset ns (i * nxl + h) := by
  unfold readLine headerInBuf traceOffset traceBytes; ring

/-- the read of line `i` covers exactly the traces of that line: it ends where line `i + 1` starts -/
theorem line_extent (nxl ns i : Nat) :
    (readLine nxl ns i).1 + (readLine nxl ns i).2 = (readLine nxl ns (i + 1)).1
    ∧ (readLine nxl ns i).1 = traceOffset ns (i * nxl) := by
  unfold readLine traceOffset traceBytes; constructor <;> ring

/-- inside the buffer: the last sample of a trace ends where the next header starts; samples never overlap a header -/
theorem buffer_layout (ns h s : Nat) (hs : s < ns) :
    headerInBuf ns h + 240 ≤ sampleInBuf ns h s ∧ sampleInBuf ns h s + 4 ≤ headerInBuf ns (h + 1) := by
  unfold headerInBuf sampleInBuf
  have e1 : h * (240 + ns * 4) = 4 * (h * (ns + 60)) := by ring
  have e2 : (h + 1) * (240 + ns * 4) = 4 * (h * (ns + 60)) + 4 * (ns + 60) := by ring
  rw [e1, e2]
  constructor <;> omega

/-- every plane is filled from an inline that exists -/
theorem lineOfPlane_lt (nil b0 p i : Nat) (hb : 0 < b0) (hn : 0 < nil) (hp : p < pad nil b0 / b0) (hi : i < b0) :
    lineOfPlane nil b0 p i < nil := by
  unfold lineOfPlane
  have hpad := pad_eq nil b0 hb
  have hp' : p < (nil + b0 - 1) / b0 := by
    rw [hpad, Nat.mul_div_cancel_left _ hb] at hp; exact hp
  have hpb : p * b0 < nil := by
    have : p * b0 + b0 ≤ nil + b0 - 1 := by
      have h1 : (p + 1) * b0 ≤ (nil + b0 - 1) / b0 * b0 := Nat.mul_le_mul_right _ hp'
      have h2 := Nat.div_mul_le_self (nil + b0 - 1) b0
      have : (p + 1) * b0 = p * b0 + b0 := by ring
      omega
    omega
  have hdm := Nat.div_add_mod nil b0
  have hml := Nat.mod_lt nil hb
  by_cases hlast : (p + 1) * b0 > nil
  · rw [if_pos hlast]
    dsimp only
    -- last plane set: p = nil / b0 and nil % b0 > 0
    have e : (p + 1) * b0 = p * b0 + b0 := by ring
    have hq : p = nil / b0 := by
      have h1 : p ≤ nil / b0 := by
        rw [Nat.le_div_iff_mul_le hb]; omega
      have h2 : nil / b0 < p + 1 := by
        rw [Nat.div_lt_iff_lt_mul hb]; omega
      omega
    have hm : 0 < nil % b0 := by
      rcases Nat.eq_zero_or_pos (nil % b0) with h0 | h0
      · rw [h0, Nat.add_zero] at hdm
        rw [hq, Nat.mul_comm] at hpb
        omega
      · exact h0
    have hpq : p * b0 = b0 * (nil / b0) := by rw [hq, Nat.mul_comm]
    by_cases h2 : i < nil % b0
    · rw [if_pos h2]; omega
    · rw [if_neg h2]; omega
  · rw [if_neg hlast]
    dsimp only
    rw [if_pos hi]
    have e : (p + 1) * b0 = p * b0 + b0 := by ring
    omega

/-- … and every inline is read into its own plane: line `j` is plane `j % b0` of plane set `j / b0` -/
theorem lineOfPlane_covers (nil b0 j : Nat) (hb : 0 < b0) (hj : j < nil) :
    lineOfPlane nil b0 (j / b0) (j % b0) = j ∧ j / b0 < pad nil b0 / b0 ∧ j % b0 < b0 := by
  have hdm := Nat.div_add_mod j b0
  have hml := Nat.mod_lt j hb
  refine ⟨?_, ?_, hml⟩
  · unfold lineOfPlane
    have e : (j / b0 + 1) * b0 = b0 * (j / b0) + b0 := by ring
    have e2 : j / b0 * b0 = b0 * (j / b0) := Nat.mul_comm _ _
    by_cases hlast : (j / b0 + 1) * b0 > nil
    · rw [if_pos hlast]
      dsimp only
      have hq : j / b0 = nil / b0 := by
        apply Nat.le_antisymm (Nat.div_le_div_right (Nat.le_of_lt hj))
        have : nil / b0 < j / b0 + 1 := by rw [Nat.div_lt_iff_lt_mul hb]; omega
        omega
      have hdn := Nat.div_add_mod nil b0
      have : j % b0 < nil % b0 := by rw [← hq] at hdn; omega
      rw [if_pos this]; omega
    · rw [if_neg hlast]
      dsimp only
      rw [if_pos hml]; omega
  · rw [pad_eq nil b0 hb, Nat.mul_div_cancel_left _ hb, Nat.div_lt_iff_lt_mul hb]
    have h1 := Nat.div_mul_le_self (nil + b0 - 1) b0
    have h2 : nil + b0 - 1 < ((nil + b0 - 1) / b0 + 1) * b0 := by
      have := Nat.div_add_mod (nil + b0 - 1) b0
      have := Nat.mod_lt (nil + b0 - 1) hb
      have e3 : ((nil + b0 - 1) / b0 + 1) * b0 = b0 * ((nil + b0 - 1) / b0) + b0 := by ring
      omega
    have e3 : ((nil + b0 - 1) / b0 + 1) * b0 = (nil + b0 - 1) / b0 * b0 + b0 := by ring
    omega

end SegyRaw
end Sgz
