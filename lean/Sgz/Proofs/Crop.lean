import Sgz.Model.Crop
import Sgz.Proofs.Writer
import Mathlib.Tactic.Ring
/-!
# Proofs/Crop — the cropper's unit selection is the address map of the sub-cube
-/
namespace Sgz
open Geo

theorem correct_spec (lo hi b n : Nat) (hb : 0 < b) (h1 : lo < hi) (h2 : hi ≤ n) :
    b ∣ (Crop.correct lo hi b n).1 ∧ (Crop.correct lo hi b n).1 ≤ lo ∧ lo < (Crop.correct lo hi b n).1 + b
    ∧ hi ≤ (Crop.correct lo hi b n).2 ∧ (Crop.correct lo hi b n).2 ≤ n
    ∧ (b ∣ (Crop.correct lo hi b n).2 ∨ (Crop.correct lo hi b n).2 = n) ∧ (Crop.correct lo hi b n).2 < hi + b := by
  unfold Crop.correct
  have hl := Nat.div_add_mod lo b
  have hlm := Nat.mod_lt lo hb
  have hh := Nat.div_add_mod hi b
  have hhm := Nat.mod_lt hi hb
  simp only [Nat.max_eq_left (Nat.zero_le _)]
  refine ⟨?_, ?_, ?_, ?_, ?_, ?_, ?_⟩
  · by_cases h : lo % b = 0
    · simp [h]; exact Nat.dvd_of_mod_eq_zero h
    · simp only [bne_iff_ne, ne_eq, h, not_false_eq_true, if_true]
      exact ⟨lo / b, by omega⟩
  · split <;> omega
  · split <;> omega
  · by_cases h : hi % b = 0
    · simp [h]; omega
    · simp only [bne_iff_ne, ne_eq, h, not_false_eq_true, if_true]; omega
  · exact Nat.min_le_right _ _
  · by_cases h : hi % b = 0
    · simp only [h, bne_self_eq_false, Bool.false_eq_true, if_false]
      rcases Nat.le_total hi n with hle | hle
      · rw [Nat.min_eq_left hle]; exact .inl (Nat.dvd_of_mod_eq_zero h)
      · rw [Nat.min_eq_right hle]; exact .inr rfl
    · simp only [bne_iff_ne, ne_eq, h, not_false_eq_true, if_true]
      rcases Nat.le_total (hi - hi % b + b) n with hle | hle
      · rw [Nat.min_eq_left hle]; exact .inl ⟨hi / b + 1, by rw [Nat.mul_add, Nat.mul_one]; omega⟩
      · rw [Nat.min_eq_right hle]; exact .inr rfl
  · by_cases h : hi % b = 0
    · simp only [h, bne_self_eq_false, Bool.false_eq_true, if_false]; omega
    · simp only [bne_iff_ne, ne_eq, h, not_false_eq_true, if_true]; omega

/-- padding commutes with removing an aligned prefix -/
theorem pad_sub (hi lo b : Nat) (hb : 0 < b) (hd : b ∣ lo) (hle : lo ≤ hi) : pad (hi - lo) b = pad hi b - lo := by
  obtain ⟨k, rfl⟩ := hd
  unfold pad
  have e : (hi - b * k) % b = hi % b := by
    have : hi = (hi - b * k) + b * k := by omega
    conv_rhs => rw [this, Nat.add_mul_mod_self_left]
  rw [e]
  by_cases h : hi % b = 0
  · simp [h]
  · simp only [h, if_false]
    have e2 : (hi - b * k) / b = hi / b - k := Nat.sub_mul_div_of_le hi b k hle
    rw [e2]
    have hk : k ≤ hi / b := by
      rw [Nat.le_div_iff_mul_le hb, Nat.mul_comm]; exact hle
    have : b * (hi / b - k + 1) = b * (hi / b + 1) - b * k := by
      rw [show hi / b - k + 1 = hi / b + 1 - k by omega, Nat.mul_sub]
    exact this

end Sgz

namespace Sgz
open Geo

structure Crop.Aligned (g : Geo) (b : Crop.Box) : Prop where
  a0 : g.b0 ∣ b.i0
  a1 : g.b1 ∣ b.x0
  a2 : g.b2 ∣ b.z0
  r0 : b.i0 < b.i1 ∧ b.i1 ≤ g.n0
  r1 : b.x0 < b.x1 ∧ b.x1 ≤ g.n1
  r2 : b.z0 < b.z1 ∧ b.z1 ≤ g.n2

theorem Crop.outGeo_valid (g : Geo) (hg : g.Valid) (b : Crop.Box) (hb : Crop.Aligned g b) : (Crop.outGeo g b).Valid := by
  obtain ⟨d0, d1, d2, p0, p1, p2, pu, hc, _, _, _⟩ := hg
  have := hb.r0; have := hb.r1; have := hb.r2
  exact ⟨d0, d1, d2, p0, p1, p2, pu, hc, by simp [Crop.outGeo]; omega, by simp [Crop.outGeo]; omega,
    by simp [Crop.outGeo]; omega⟩

theorem add_div4 (i0 a : Nat) (h : 4 ∣ i0) : (i0 + a) / 4 = i0 / 4 + a / 4 := by
  obtain ⟨k, rfl⟩ := h; omega

/-- **default layout**: the unit the output file holds at the address of voxel (a,b,c) of the cropped cube is the
source's unit at the address of voxel (i0+a, x0+b, z0+c) -/
theorem Crop.units_default (g : Geo) (hg : g.Valid) (h0 : g.b0 = 4) (h1 : g.b1 = 4) (b : Crop.Box) (hb : Crop.Aligned g b)
    (a x z : Nat) (ha : a < (Crop.outGeo g b).P0) (hx : x < (Crop.outGeo g b).P1) (hz : z < (Crop.outGeo g b).P2) :
    (Crop.units g b)[Spec.unit (Crop.outGeo g b) a x z]? = some (Spec.unit g (b.i0 + a) (b.x0 + x) (b.z0 + z)) := by
  have hg' := Crop.outGeo_valid g hg b hb
  have d0 : 4 ∣ b.i0 := by rw [← h0]; exact hb.a0
  have d1 : 4 ∣ b.x0 := by rw [← h1]; exact hb.a1
  have d2 : 4 ∣ b.z0 := Nat.dvd_trans (dvd2 hg) hb.a2
  have hb2 := b2_pos hg
  rw [Spec.unit_default (Crop.outGeo g b) hg' h0 h1, Spec.unit_default g hg h0 h1]
  -- padded extents of the output in units
  have e0 : (Crop.outGeo g b).P0 = pad b.i1 4 - b.i0 := by
    simp only [Geo.P0, Crop.outGeo, h0]; exact pad_sub _ _ 4 (by decide) d0 (Nat.le_of_lt hb.r0.1)
  have e1 : (Crop.outGeo g b).P1 = pad b.x1 4 - b.x0 := by
    simp only [Geo.P1, Crop.outGeo, h1]; exact pad_sub _ _ 4 (by decide) d1 (Nat.le_of_lt hb.r1.1)
  have e2 : (Crop.outGeo g b).P2 = pad b.z1 g.b2 - b.z0 := by
    simp only [Geo.P2, Crop.outGeo]; exact pad_sub _ _ g.b2 hb2 hb.a2 (Nat.le_of_lt hb.r2.1)
  rw [e0] at ha; rw [e1] at hx ⊢; rw [e2] at hz ⊢
  unfold Crop.units
  simp only [h0, h1, beq_self_eq_true, Bool.and_self, if_true, flatMap_range_map]
  generalize hzU : (pad b.z1 g.b2 - b.z0) / 4 = zU at *
  generalize hxU : (pad b.x1 4 - b.x0) / 4 = xlU at *
  generalize hiU : (pad b.i1 4 - b.i0) / 4 = ilU at *
  have hdz : 4 ∣ pad b.z1 g.b2 - b.z0 := Nat.dvd_sub (Nat.dvd_trans (dvd2 hg) (pad_dvd _ _ hb2)) d2
  have hdx : 4 ∣ pad b.x1 4 - b.x0 := Nat.dvd_sub (pad_dvd _ _ (by decide)) d1
  have hdi : 4 ∣ pad b.i1 4 - b.i0 := Nat.dvd_sub (pad_dvd _ _ (by decide)) d0
  have hc : z / 4 < zU := by obtain ⟨m, hm⟩ := hdz; rw [hm] at hz hzU; omega
  have hbx : x / 4 < xlU := by obtain ⟨m, hm⟩ := hdx; rw [hm] at hx hxU; omega
  have hai : a / 4 < ilU := by obtain ⟨m, hm⟩ := hdi; rw [hm] at ha hiU; omega
  have k1 : x / 4 * zU + z / 4 < xlU * zU := lt_of_mixed _ _ _ _ hbx hc
  have k0 : a / 4 * (xlU * zU) + (x / 4 * zU + z / 4) < ilU * (xlU * zU) := lt_of_mixed _ _ _ _ hai k1
  have ej : (a / 4 * xlU + x / 4) * zU + z / 4 = a / 4 * (xlU * zU) + (x / 4 * zU + z / 4) := by
    rw [Nat.add_mul, Nat.mul_assoc, Nat.add_assoc]
  rw [ej, List.getElem?_map, List.getElem?_range k0]
  simp only [Option.map_some, div_mixed _ _ _ k1, mod_mixed _ _ _ k1, div_mixed _ _ _ hc, mod_mixed _ _ _ hc]
  congr 1
  rw [add_div4 _ _ d0, add_div4 _ _ d1, add_div4 _ _ d2]
  ring

end Sgz

namespace Sgz
open Geo

theorem add_div_of_dvd (i0 a b : Nat) (hb : 0 < b) (h : b ∣ i0) : (i0 + a) / b = i0 / b + a / b ∧ (i0 + a) % b = a % b := by
  obtain ⟨k, rfl⟩ := h
  constructor
  · rw [Nat.mul_add_div hb, Nat.mul_div_cancel_left _ hb]
  · rw [Nat.mul_add_mod]

theorem NB_sub (hi lo b : Nat) (hb : 0 < b) (hd : b ∣ lo) (hle : lo ≤ hi) :
    pad (hi - lo) b / b = pad hi b / b - lo / b := by
  rw [pad_sub hi lo b hb hd hle]
  obtain ⟨k, rfl⟩ := hd
  rw [Nat.sub_mul_div_of_le _ _ _ (by have := le_pad hi b hb; omega), Nat.mul_div_cancel_left _ hb]

/-- **general layouts**: whole disk blocks are copied; same statement -/
theorem Crop.units_general (g : Geo) (hg : g.Valid) (hd : (g.b0 == 4 && g.b1 == 4) = false) (b : Crop.Box)
    (hb : Crop.Aligned g b)
    (a x z : Nat) (ha : a < (Crop.outGeo g b).P0) (hx : x < (Crop.outGeo g b).P1) (hz : z < (Crop.outGeo g b).P2) :
    (Crop.units g b)[Spec.unit (Crop.outGeo g b) a x z]? = some (Spec.unit g (b.i0 + a) (b.x0 + x) (b.z0 + z)) := by
  have hb0 := b0_pos hg
  have hb1 := b1_pos hg
  have hb2 := b2_pos hg
  obtain ⟨q0, m0⟩ := add_div_of_dvd b.i0 a g.b0 hb0 hb.a0
  obtain ⟨q1, m1⟩ := add_div_of_dvd b.x0 x g.b1 hb1 hb.a1
  obtain ⟨q2, m2⟩ := add_div_of_dvd b.z0 z g.b2 hb2 hb.a2
  -- block counts of the output
  have n0e : (Crop.outGeo g b).NB0 = pad b.i1 g.b0 / g.b0 - b.i0 / g.b0 := by
    simp only [Geo.NB0, Geo.P0, Crop.outGeo]; exact NB_sub _ _ _ hb0 hb.a0 (Nat.le_of_lt hb.r0.1)
  have n1e : (Crop.outGeo g b).NB1 = pad b.x1 g.b1 / g.b1 - b.x0 / g.b1 := by
    simp only [Geo.NB1, Geo.P1, Crop.outGeo]; exact NB_sub _ _ _ hb1 hb.a1 (Nat.le_of_lt hb.r1.1)
  have n2e : (Crop.outGeo g b).NB2 = pad b.z1 g.b2 / g.b2 - b.z0 / g.b2 := by
    simp only [Geo.NB2, Geo.P2, Crop.outGeo]; exact NB_sub _ _ _ hb2 hb.a2 (Nat.le_of_lt hb.r2.1)
  have ha' : a / g.b0 < (Crop.outGeo g b).NB0 := div_lt_NB a (b.i1 - b.i0) g.b0 hb0 ha
  have hx' : x / g.b1 < (Crop.outGeo g b).NB1 := div_lt_NB x (b.x1 - b.x0) g.b1 hb1 hx
  have hz' : z / g.b2 < (Crop.outGeo g b).NB2 := div_lt_NB z (b.z1 - b.z0) g.b2 hb2 hz
  unfold Spec.unit
  rw [q0, q1, q2, m0, m1, m2]
  show (Crop.units g b)[((a / g.b0 * (Crop.outGeo g b).NB1 + x / g.b1) * (Crop.outGeo g b).NB2 + z / g.b2) * g.cpb
      + ((a % g.b0 / 4 * (g.b1 / 4) + x % g.b1 / 4) * (g.b2 / 4) + z % g.b2 / 4)]? = _
  rw [n0e] at ha'; rw [n1e] at hx' ⊢; rw [n2e] at hz' ⊢
  unfold Crop.units
  simp only [hd, Bool.false_eq_true, if_false, flatMap_range_map]
  generalize pad b.i1 g.b0 / g.b0 - b.i0 / g.b0 = N0 at *
  generalize pad b.x1 g.b1 / g.b1 - b.x0 / g.b1 = N1 at *
  generalize pad b.z1 g.b2 / g.b2 - b.z0 / g.b2 = N2 at *
  have hcell : (a % g.b0 / 4 * (g.b1 / 4) + x % g.b1 / 4) * (g.b2 / 4) + z % g.b2 / 4 < g.cpb := by
    unfold Geo.cpb
    exact lt_of_mixed _ _ _ _ (lt_of_mixed _ _ _ _ (mod_div4_lt a g.b0 (dvd0 hg) hb0) (mod_div4_lt x g.b1 (dvd1 hg) hb1))
      (mod_div4_lt z g.b2 (dvd2 hg) hb2)
  generalize (a % g.b0 / 4 * (g.b1 / 4) + x % g.b1 / 4) * (g.b2 / 4) + z % g.b2 / 4 = cell at *
  have k2 : z / g.b2 * g.cpb + cell < N2 * g.cpb := lt_of_mixed _ _ _ _ hz' hcell
  have k1 : x / g.b1 * (N2 * g.cpb) + (z / g.b2 * g.cpb + cell) < N1 * (N2 * g.cpb) := lt_of_mixed _ _ _ _ hx' k2
  have k0 : a / g.b0 * (N1 * (N2 * g.cpb)) + (x / g.b1 * (N2 * g.cpb) + (z / g.b2 * g.cpb + cell)) < N0 * (N1 * (N2 * g.cpb)) :=
    lt_of_mixed _ _ _ _ ha' k1
  have ej : ((a / g.b0 * N1 + x / g.b1) * N2 + z / g.b2) * g.cpb + cell
      = a / g.b0 * (N1 * (N2 * g.cpb)) + (x / g.b1 * (N2 * g.cpb) + (z / g.b2 * g.cpb + cell)) := by ring
  rw [ej, List.getElem?_map, List.getElem?_range k0]
  simp only [Option.map_some, div_mixed _ _ _ k1, mod_mixed _ _ _ k1, div_mixed _ _ _ k2, mod_mixed _ _ _ k2,
    div_mixed _ _ _ hcell, mod_mixed _ _ _ hcell]
  congr 1
  ring

end Sgz
