import Sgz.Model.Pipeline
namespace Sgz.Pipeline

theorem inv_init (N : Nat) : Inv N init := by
  refine ⟨⟨[], ?_, ?_, ?_⟩, ?_, ?_, ?_, ?_, ?_, ?_, ?_, ?_, ?_⟩ <;> simp [init, produced, heldW, heldC, hdrDone, owesC, owesW]

theorem inv_step (N cap : Nat) (s s' : St) (t : Tid) (h : Inv N s) (hs : step N cap s t = some s') :
    Inv N s' := by
  obtain ⟨⟨written, hflow, hlog, hwr⟩, hu1, hu2, hmput, hlate, hcs, hws, hci, hwi, hfin⟩ := h
  cases t with
  | M =>
    simp only [step] at hs
    split at hs
    · -- startC
      rename_i hm
      injection hs with hs; subst hs
      have := hci hm
      refine ⟨⟨written, ?_, ?_, ?_⟩, ?_, ?_, ?_, ?_, ?_, ?_, ?_, ?_, ?_⟩ <;>
        simp_all [produced, heldC, owesC]
    · -- startW
      rename_i hm
      injection hs with hs; subst hs
      have hw := hwi hm
      refine ⟨⟨written, ?_, ?_, ?_⟩, ?_, ?_, ?_, ?_, ?_, ?_, ?_, ?_, ?_⟩
      all_goals (by_cases hN : 0 < N <;> simp_all [produced, heldW, owesW, hdrDone])
      all_goals omega
    · -- put k
      rename_i k hm
      split at hs
      · injection hs with hs; subst hs
        have hk := hmput k hm
        refine ⟨⟨written, ?_, ?_, ?_⟩, ?_, ?_, ?_, ?_, ?_, ?_, ?_, ?_, ?_⟩
        · have : produced N (if k + 1 < N then MPc.put (k + 1) else MPc.join1) = k + 1 := by
            split <;> simp [produced]; omega
          simp only [this, List.range_succ]
          simp only [hm, produced] at hflow
          rw [← hflow]; simp [List.append_assoc]
        · simpa using hlog
        · simpa using hwr
        · simp [hu1]; omega
        · simpa using hu2
        · intro k' hk'; split at hk' <;> simp_all
        · intro h'; split at h' <;> simp_all
        · intro _; exact hcs (by simp [hm])
        · intro _; exact hws (by simp [hm])
        · intro h'; split at h' <;> simp_all
        · intro h'; split at h' <;> simp_all
        · intro h'; split at h' <;> simp_all
      · simp at hs
    · -- join1
      rename_i hm
      split at hs
      · rename_i h0
        injection hs with hs; subst hs
        refine ⟨⟨written, ?_, ?_, ?_⟩, ?_, ?_, ?_, ?_, ?_, ?_, ?_, ?_, ?_⟩ <;>
          simp_all [produced]
      · simp at hs
    · -- join2
      rename_i hm
      split at hs
      · injection hs with hs; subst hs
        refine ⟨⟨written, ?_, ?_, ?_⟩, ?_, ?_, ?_, ?_, ?_, ?_, ?_, ?_, ?_⟩ <;>
          simp_all [produced]
      · simp at hs
    · simp at hs
  | C =>
    simp only [step] at hs
    split at hs
    · simp at hs
    · -- get
      rename_i hc
      split at hs
      · simp at hs
      · rename_i i r hq
        injection hs with hs; subst hs
        refine ⟨⟨written, ?_, ?_, ?_⟩, ?_, ?_, ?_, ?_, ?_, ?_, ?_, ?_, ?_⟩
        · simp only [hc, heldC, hq] at hflow ⊢
          rw [← hflow]; simp [List.append_assoc]
        · simpa using hlog
        · simpa using hwr
        · simp [hu1, hc, hq, owesC]
        · simpa using hu2
        · simpa using hmput
        · intro h'; have := hlate h'; simp [hu1, hq] at this
        · simp
        · simpa using hws
        · intro h'; have := (hci h').1; simp [hc] at this
        · simpa using hwi
        · simpa using hfin
    · -- put i
      rename_i i hc
      split at hs
      · injection hs with hs; subst hs
        refine ⟨⟨written, ?_, ?_, ?_⟩, ?_, ?_, ?_, ?_, ?_, ?_, ?_, ?_, ?_⟩
        · simp only [hc, heldC] at hflow ⊢
          rw [← hflow]; simp [List.append_assoc]
        · simpa using hlog
        · simpa using hwr
        · simp [hu1, hc, owesC]
        · simp [hu2]; omega
        · simpa using hmput
        · intro h'; simpa using hlate h'
        · simp
        · simpa using hws
        · intro h'; have := (hci h').1; simp [hc] at this
        · simpa using hwi
        · intro h'; have := hlate (Or.inr h'); simp [hu1, hc, owesC] at this
      · simp at hs
    · -- td
      rename_i hc
      injection hs with hs; subst hs
      refine ⟨⟨written, ?_, ?_, ?_⟩, ?_, ?_, ?_, ?_, ?_, ?_, ?_, ?_, ?_⟩
      · simp only [hc, heldC] at hflow ⊢
        exact hflow
      · simpa using hlog
      · simpa using hwr
      · simp [hu1, hc, owesC]
      · simpa using hu2
      · simpa using hmput
      · intro h'; have := hlate h'; simp [hu1, hc, owesC] at this
      · simp
      · simpa using hws
      · intro h'; have := (hci h').1; simp [hc] at this
      · simpa using hwi
      · simpa using hfin
  | W =>
    simp only [step] at hs
    split at hs
    · simp at hs
    · -- hdr
      rename_i hw
      injection hs with hs; subst hs
      have hwe : written = [] := hwr (by simp [hw, hdrDone])
      refine ⟨⟨written, ?_, ?_, ?_⟩, ?_, ?_, ?_, ?_, ?_, ?_, ?_, ?_, ?_⟩
      · simp only [hw, heldW] at hflow ⊢; exact hflow
      · simp [hlog, hw, hdrDone, hwe]
      · simp [hdrDone]
      · simpa using hu1
      · simp [hu2, hw, owesW]
      · simpa using hmput
      · simpa using hlate
      · simpa using hcs
      · simp
      · intro h'; have := (hci h').2; simp [hw] at this
      · intro h'; have := hwi h'; simp [hw] at this
      · simpa using hfin
    · -- get
      rename_i hw
      split at hs
      · simp at hs
      · rename_i i r hq
        injection hs with hs; subst hs
        refine ⟨⟨written, ?_, ?_, ?_⟩, ?_, ?_, ?_, ?_, ?_, ?_, ?_, ?_, ?_⟩
        · simp only [hw, heldW, hq] at hflow ⊢
          rw [← hflow]; simp [List.append_assoc]
        · simpa [hw, hdrDone] using hlog
        · simp [hdrDone]
        · simpa using hu1
        · simp [hu2, hw, hq, owesW]
        · simpa using hmput
        · simpa using hlate
        · simpa using hcs
        · simp
        · intro h'; have := (hci h').2; simp [hw] at this
        · intro h'; have := hwi h'; simp [hw] at this
        · simpa using hfin
    · -- write i
      rename_i i hw
      injection hs with hs; subst hs
      refine ⟨⟨written ++ [i], ?_, ?_, ?_⟩, ?_, ?_, ?_, ?_, ?_, ?_, ?_, ?_, ?_⟩
      · simp only [hw, heldW] at hflow ⊢
        rw [← hflow]; simp [List.append_assoc]
      · simp [hlog, hw, hdrDone, List.map_append]
      · simp [hdrDone]
      · simpa using hu1
      · simp [hu2, hw, owesW]
      · simpa using hmput
      · simpa using hlate
      · simpa using hcs
      · simp
      · intro h'; have := (hci h').2; simp [hw] at this
      · intro h'; have := hwi h'; simp [hw] at this
      · simpa using hfin
    · -- td
      rename_i hw
      injection hs with hs; subst hs
      refine ⟨⟨written, ?_, ?_, ?_⟩, ?_, ?_, ?_, ?_, ?_, ?_, ?_, ?_, ?_⟩
      · simp only [hw, heldW] at hflow ⊢; exact hflow
      · simpa [hw, hdrDone] using hlog
      · simp [hdrDone]
      · simpa using hu1
      · simp [hu2, hw, owesW]
      · simpa using hmput
      · simpa using hlate
      · simpa using hcs
      · simp
      · intro h'; have := (hci h').2; simp [hw] at this
      · intro h'; have := hwi h'; simp [hw] at this
      · intro h'; have := hfin h'; simp at *; omega

theorem inv_reach (N cap : Nat) (s : St) (h : Reach N cap s) : Inv N s := by
  induction h with
  | init => exact inv_init N
  | step _ hs ih => exact inv_step N cap _ _ _ ih hs

end Sgz.Pipeline


namespace Sgz.Pipeline

/-- C16 safety: when main has passed both joins the file is exactly the sequential file and no worker can act -/
theorem done_log (N cap : Nat) (hN : 0 < N) (s : St) (h : Reach N cap s) (hd : s.m = .done) :
    s.log = Wr.H :: (List.range N).map Wr.B ∧ s.q1 = [] ∧ s.q2 = [] ∧
    step N cap s .C = none ∧ step N cap s .W = none ∧ step N cap s .M = none := by
  obtain ⟨⟨written, hflow, hlog, hwr⟩, hu1, hu2, hmput, hlate, hcs, hws, hci, hwi, hfin⟩ := inv_reach N cap s h
  have h1 := hlate (Or.inr hd)
  have h2 := hfin hd
  have hq1 : s.q1 = [] := by
    have : s.q1.length = 0 := by omega
    exact List.length_eq_zero_iff.mp this
  have hq2 : s.q2 = [] := by
    have : s.q2.length = 0 := by omega
    exact List.length_eq_zero_iff.mp this
  have hoc : owesC s.c = 0 := by omega
  have how : owesW s.w = 0 := by omega
  have hcne := hcs (by simp [hd])
  have hwne := hws (by simp [hd])
  have hc : s.c = .get := by
    cases hcc : s.c <;> simp_all [owesC]
  have hhW : heldW s.w = [] := by
    cases hww : s.w with
    | write i => rw [hww] at how; simp [owesW] at how
    | _ => simp [heldW]
  simp only [hd, produced, hq1, hq2, hc, heldC, hhW, List.append_nil] at hflow
  subst hflow
  have hwd : hdrDone s.w = true := by
    cases hb : hdrDone s.w with
    | true => rfl
    | false =>
      have := hwr hb
      have : List.range N = [] := this
      have := congrArg List.length this
      simp at this; omega
  refine ⟨by simp [hlog, hwd], hq1, hq2, ?_, ?_, ?_⟩
  · simp [step, hc, hq1]
  · cases hww : s.w with
    | write i => rw [hww] at how; simp [owesW] at how
    | td => rw [hww] at how; simp [owesW] at how
    | idle => simp [step, hww]
    | hdr => rw [hww] at hwd; simp [hdrDone] at hwd
    | get => simp [step, hww, hq2]
  · simp [step, hd]

/-- C16 progress: until main is done, some thread can act (no deadlock), for every capacity ≥ 1 -/
theorem progress (N cap : Nat) (hcap : 0 < cap) (s : St) (h : Reach N cap s) (hd : s.m ≠ .done) :
    ∃ t s', step N cap s t = some s' := by
  obtain ⟨⟨written, hflow, hlog, hwr⟩, hu1, hu2, hmput, hlate, hcs, hws, hci, hwi, hfin⟩ := inv_reach N cap s h
  -- writer can act unless it waits on an empty q2 (or is idle)
  have hW : (s.w ≠ .idle ∧ (s.w = .get → s.q2 ≠ [])) → ∃ s', step N cap s .W = some s' := by
    intro ⟨h1, h2⟩
    cases hw : s.w with
    | idle => exact absurd hw h1
    | hdr => simp [step, hw]
    | get =>
      cases hq : s.q2 with
      | nil => exact absurd hq (h2 hw)
      | cons i r => simp [step, hw, hq]
    | write i => simp [step, hw]
    | td => simp [step, hw]
  -- compressor can act unless idle, waiting on empty q1, or blocked on a full q2
  have hC : s.c ≠ .idle → (s.c = .get → s.q1 ≠ []) → (∀ i, s.c = .put i → s.q2.length < cap) →
      ∃ s', step N cap s .C = some s' := by
    intro h1 h2 h3
    cases hc : s.c with
    | idle => exact absurd hc h1
    | get =>
      cases hq : s.q1 with
      | nil => exact absurd hq (h2 hc)
      | cons i r => simp [step, hc, hq]
    | put i => simp [step, hc, h3 i hc]
    | td => simp [step, hc]
  -- generic: if the compressor is started and holds work or q1 nonempty, C or W can act
  have hCW : s.c ≠ .idle → s.w ≠ .idle → (s.q1 ≠ [] ∨ owesC s.c = 1) → ∃ t s', step N cap s t = some s' := by
    intro hc0 hw0 hwork
    by_cases hfull : ∃ i, s.c = .put i ∧ ¬ s.q2.length < cap
    · obtain ⟨i, hci', hfl⟩ := hfull
      have : s.q2 ≠ [] := by intro h0; simp [h0] at hfl; omega
      obtain ⟨s', hs'⟩ := hW ⟨hw0, fun _ => this⟩
      exact ⟨.W, s', hs'⟩
    · have h3 : ∀ i, s.c = .put i → s.q2.length < cap := by
        intro i hi; exact Decidable.byContradiction (fun hcon => hfull ⟨i, hi, hcon⟩)
      have h2 : s.c = .get → s.q1 ≠ [] := by
        intro hg; rcases hwork with h | h
        · exact h
        · simp [hg, owesC] at h
      obtain ⟨s', hs'⟩ := hC hc0 h2 h3
      exact ⟨.C, s', hs'⟩
  cases hm : s.m with
  | startC => exact ⟨.M, Option.isSome_iff_exists.mp (by simp [step, hm])⟩
  | startW => exact ⟨.M, Option.isSome_iff_exists.mp (by simp [step, hm])⟩
  | done => exact absurd hm hd
  | put k =>
    by_cases hq : s.q1.length < cap
    · exact ⟨.M, Option.isSome_iff_exists.mp (by simp [step, hm, hq])⟩
    · have hne : s.q1 ≠ [] := by intro h0; simp [h0] at hq; omega
      exact hCW (hcs (by simp [hm])) (hws (by simp [hm])) (Or.inl hne)
  | join1 =>
    by_cases h0 : s.unf1 = 0
    · exact ⟨.M, Option.isSome_iff_exists.mp (by simp [step, hm, h0])⟩
    · have : s.q1 ≠ [] ∨ owesC s.c = 1 := by
        by_cases hq : s.q1 = []
        · right
          have : owesC s.c ≠ 0 := by intro hz; simp [hu1, hq, hz] at h0
          cases hc : s.c <;> simp_all [owesC]
        · exact Or.inl hq
      exact hCW (hcs (by simp [hm])) (hws (by simp [hm])) this
  | join2 =>
    by_cases h0 : s.unf2 = 0
    · exact ⟨.M, Option.isSome_iff_exists.mp (by simp [step, hm, h0])⟩
    · have hw0 := hws (by simp [hm])
      have : s.w = .get → s.q2 ≠ [] := by
        intro hg hq; simp [hu2, hg, hq, owesW] at h0
      obtain ⟨s', hs'⟩ := hW ⟨hw0, this⟩
      exact ⟨.W, s', hs'⟩

end Sgz.Pipeline


namespace Sgz.Pipeline

/-- every action uses up exactly one of the `rem` remaining actions -/
theorem rem_step (N cap : Nat) (s s' : St) (t : Tid) (h : Inv N s) (hs : step N cap s t = some s') :
    rem N s' + 1 = rem N s := by
  obtain ⟨_, _, _, hmput, _, _, _, hci, hwi, _⟩ := h
  cases t with
  | M =>
    simp only [step] at hs
    split at hs
    · rename_i hm; injection hs with hs; subst hs
      have hc := (hci hm).1
      simp [rem, hm, mrem, produced, cpend, hc, heldC]; omega
    · rename_i hm; injection hs with hs; subst hs
      have hw := hwi hm
      by_cases hN : 0 < N <;> simp [rem, hm, mrem, produced, hN, wpend, hw] <;> omega
    · rename_i k hm
      split at hs
      · injection hs with hs; subst hs
        have hk := hmput k hm
        by_cases hk1 : k + 1 < N <;> simp [rem, hm, mrem, produced, hk1] <;> omega
      · simp at hs
    · rename_i hm; split at hs
      · injection hs with hs; subst hs; simp [rem, hm, mrem, produced]; try omega
      · simp at hs
    · rename_i hm; split at hs
      · injection hs with hs; subst hs; simp [rem, hm, mrem, produced]; try omega
      · simp at hs
    · simp at hs
  | C =>
    simp only [step] at hs
    split at hs
    · simp at hs
    · rename_i hc; split at hs
      · simp at hs
      · rename_i i r hq; injection hs with hs; subst hs
        simp [rem, hc, hq, cpend, heldC]; omega
    · rename_i i hc; split at hs
      · injection hs with hs; subst hs; simp [rem, hc, cpend, heldC]; omega
      · simp at hs
    · rename_i hc; injection hs with hs; subst hs; simp [rem, hc, cpend, heldC]; omega
  | W =>
    simp only [step] at hs
    split at hs
    · simp at hs
    · rename_i hw; injection hs with hs; subst hs; simp [rem, hw, wpend]; omega
    · rename_i hw; split at hs
      · simp at hs
      · rename_i i r hq; injection hs with hs; subst hs
        simp [rem, hw, hq, wpend]; omega
    · rename_i i hw; injection hs with hs; subst hs; simp [rem, hw, wpend]; omega
    · rename_i hw; injection hs with hs; subst hs; simp [rem, hw, wpend]; omega

theorem rem_init (N : Nat) : rem N init = 7 * N + 5 := by
  simp [rem, init, mrem, produced, cpend, wpend, heldC]; omega

#print axioms done_log
#print axioms progress
#print axioms rem_step
end Sgz.Pipeline
