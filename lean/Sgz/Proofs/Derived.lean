import Sgz.Model.Derived
import Sgz.Proofs.Crop
import Sgz.Props.C12
/-!
# Proofs/Derived — cropping and re-blocking keep a header conformant; a cropped file's axes are the source's, restricted
-/
namespace Sgz
namespace Derived
open Geo

/-- what the file specification asks of the fixed header fields of a 3D file -/
structure Conformant (f : Header.Fields) : Prop where
  geo : (geoOf f).Valid
  data : f.dataBlocks = Container.diskBlocks (geoOf f) f.q
  arr : f.arrayBytes = 4 * (f.nIl * f.nXl)
  tc : f.tracecount ≤ f.nIl * f.nXl

theorem geoOf_crop (f : Header.Fields) (b : Crop.Box) (s : Bool) (p : Nat) :
    geoOf (cropHeader f b s p) = Crop.outGeo (geoOf f) b := rfl

theorem geoOf_reblock (f : Header.Fields) : geoOf (reblockHeader f) = Reblock.outGeo (geoOf f) := rfl

/-- **cropping keeps the header conformant** -/
theorem crop_conformant (f : Header.Fields) (hc : Conformant f) (b : Crop.Box) (hb : Crop.Aligned (geoOf f) b)
    (s : Bool) (p : Nat) (hp : p ≤ (b.i1 - b.i0) * (b.x1 - b.x0)) : Conformant (cropHeader f b s p) := by
  refine ⟨?_, ?_, ?_, ?_⟩
  · rw [geoOf_crop]; exact Crop.outGeo_valid _ hc.geo b hb
  · rfl
  · show (b.x1 - b.x0) * (b.i1 - b.i0) * 32 / 8 = 4 * ((b.i1 - b.i0) * (b.x1 - b.x0))
    rw [Nat.mul_comm (b.x1 - b.x0)]
    generalize (b.i1 - b.i0) * (b.x1 - b.x0) = m
    omega
  · show (if s then (b.x1 - b.x0) * (b.i1 - b.i0) else p) ≤ (b.i1 - b.i0) * (b.x1 - b.x0)
    cases s
    · simpa using hp
    · simp [Nat.mul_comm]

/-- **re-blocking keeps the header conformant** -/
theorem reblock_conformant (f : Header.Fields) (hc : Conformant f) (hs : Reblock.supported (geoOf f) = true) :
    Conformant (reblockHeader f) := by
  refine ⟨?_, rfl, hc.arr, hc.tc⟩
  rw [geoOf_reblock]; exact Props.C12.output_geometry_valid _ hc.geo hs

/-- the line axis a reader builds from the cropped header is the source's axis restricted to the box -/
theorem crop_axis (a d : Int) (n x0 len : Nat) (h : x0 + len ≤ n) :
    Axes.axis (a + d * (x0 : Int)) d len = ((Axes.axis a d n).drop x0).take len := by
  unfold Axes.axis
  rw [← List.map_drop, ← List.map_take]
  have : ((List.range n).drop x0).take len = (List.range len).map (· + x0) := by
    apply List.ext_getElem
    · simp; omega
    · intro i h1 h2
      simp
      omega
  rw [this, List.map_map]
  apply List.map_congr_left
  intro k _
  simp only [Function.comp]
  push_cast
  ring

end Derived
end Sgz
