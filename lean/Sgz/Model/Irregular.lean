import Sgz.Model.Arith
/-!
# Model/Irregular — irregular 3D surveys (C08)

* `inferRange` (`utils.InferredGeometry3d.get_range`): an axis is inferred from the *set* of line numbers present as
  `(min, max, (max − min) // (count − 1))`, the grid axis is `range(min, max + 1, step)`;
* `gridIndex` — where `unstructured_io_thread_func` places a trace: plane `(il − min_il) / il_step`, column = position of
  its crossline number in the axis; `tStore` its slot in the header arrays; every other slot stays zero;
* `mask` / `ordinalToGrid` (read.py:833, 858-866): the reader recovers which grid points are populated from the stored
  inline-number array (`≠ 0`) and maps trace ordinal `i` to the i-th populated grid point in raster order.
-/
namespace Sgz
namespace Irregular

def minOf (xs : List Int) : Int := xs.foldl min (xs.headD 0)
def maxOf (xs : List Int) : Int := xs.foldl max (xs.headD 0)

/-- `get_range(ids)` on the list of **distinct** line numbers; `none` = ZeroDivisionError (a single line) -/
def inferRange (ids : List Int) : Option (Int × Int × Int) :=
  if ids.length ≤ 1 then none else some (minOf ids, maxOf ids, (maxOf ids - minOf ids) / ((ids.length : Int) - 1))

/-- `len(range(min, max + 1, step))` for a positive step -/
def axisLen (lo hi step : Int) : Nat := ((hi - lo) / step + 1).toNat

/-- grid slot (`t_store`) of a trace with line numbers `(il, xl)`: `xl_id + il_id · n_xl` -/
def tStore (minIl ilStep minXl xlStep : Int) (nXl : Nat) (il xl : Int) : Int :=
  (xl - minXl) / xlStep + (il - minIl) / ilStep * nXl

/-- population mask from the stored inline-number array -/
def mask (stored : List Int) : List Bool := stored.map (· != 0)

/-- `np.arange(N)[mask != 0]`: the populated grid slots in raster order -/
def populated (stored : List Int) : List Nat := (List.range stored.length).filter fun p => stored.getD p 0 != 0

/-- ordinal → grid slot; `none` = IndexError -/
def ordinalToGrid (stored : List Int) (i : Nat) : Option Nat := (populated stored)[i]?

def tracecount (stored : List Int) : Nat := (populated stored).length

end Irregular
end Sgz
