import Sgz.Model.Arith
/-!
# Model/Geo — geometry of one SGZ file and the address function of the specification

`Geo` carries what `SgzReader.__init__` (read.py:143-210) derives from the header: real extents, blockshape,
unit size.  `Spec.unit` is the address function of docs/file-specification.md (blocks in raster order over the
padded block grid, 4x4x4 units in raster order inside a block); it is the *definition* against which every
loader is proved.  2D files have `b0 = 1`, `n0 = 1` and use the `2d` variants.
-/
namespace Sgz

structure Geo where
  n0 : Nat   -- inlines      (2D: 1)
  n1 : Nat   -- crosslines   (2D: trace count)
  n2 : Nat   -- samples
  b0 : Nat   -- blockshape   (2D: b0 = 1)
  b1 : Nat
  b2 : Nat
  u  : Nat   -- bytes of one compressed unit (3D: 8·rate, 2D: 2·rate)
deriving Repr, DecidableEq

namespace Geo
def P0 (g : Geo) : Nat := pad g.n0 g.b0
def P1 (g : Geo) : Nat := pad g.n1 g.b1
def P2 (g : Geo) : Nat := pad g.n2 g.b2
def NB0 (g : Geo) : Nat := g.P0 / g.b0
def NB1 (g : Geo) : Nat := g.P1 / g.b1
def NB2 (g : Geo) : Nat := g.P2 / g.b2
/-- compressed units per disk block -/
def cpb (g : Geo) : Nat := (g.b0 / 4) * (g.b1 / 4) * (g.b2 / 4)
def cpb2d (g : Geo) : Nat := (g.b1 / 4) * (g.b2 / 4)
/-- `chunk_bytes = block_bytes * (shape_pad[2] // blockshape[2])`, block_bytes = 4096 (asserted by the reader) -/
def chunk (g : Geo) : Nat := 4096 * g.NB2
def is2d (g : Geo) : Bool := g.b0 == 1

/-- the reader-side consistency assertions plus the divisibility the format requires (3D) -/
def Valid (g : Geo) : Prop :=
  4 ∣ g.b0 ∧ 4 ∣ g.b1 ∧ 4 ∣ g.b2 ∧ 0 < g.b0 ∧ 0 < g.b1 ∧ 0 < g.b2 ∧ 0 < g.u ∧ g.cpb * g.u = 4096
  ∧ 0 < g.n0 ∧ 0 < g.n1 ∧ 0 < g.n2

def Valid2d (g : Geo) : Prop :=
  g.b0 = 1 ∧ g.n0 = 1 ∧ 4 ∣ g.b1 ∧ 4 ∣ g.b2 ∧ 0 < g.b1 ∧ 0 < g.b2 ∧ 0 < g.u ∧ g.cpb2d * g.u = 4096
  ∧ 0 < g.n1 ∧ 0 < g.n2

instance (g : Geo) : Decidable g.Valid := by unfold Valid; infer_instance
instance (g : Geo) : Decidable g.Valid2d := by unfold Valid2d; infer_instance
end Geo

namespace Spec
/-- index (within the data section) of the unit holding padded voxel (i,x,z) — file-specification.md -/
def unit (g : Geo) (i x z : Nat) : Nat :=
  (((i / g.b0) * g.NB1 + x / g.b1) * g.NB2 + z / g.b2) * g.cpb
    + ((((i % g.b0) / 4) * (g.b1 / 4) + (x % g.b1) / 4) * (g.b2 / 4) + (z % g.b2) / 4)

/-- position of a voxel inside its 4x4x4 cell (raster) -/
def pos (i x z : Nat) : Nat := ((i % 4) * 4 + x % 4) * 4 + z % 4

def unit2d (g : Geo) (t z : Nat) : Nat :=
  ((t / g.b1) * g.NB2 + z / g.b2) * g.cpb2d + (((t % g.b1) / 4) * (g.b2 / 4) + (z % g.b2) / 4)

def pos2d (t z : Nat) : Nat := (t % 4) * 4 + z % 4
end Spec

/-- Provenance code of one decoded sample, the value the symbolic decoder produces:
`(J) * 4^d + pos` where `J = unit index + 1`, or `J = 0` for a sample decoded from bytes no read filled. -/
def code (cellVox : Nat) (o : Option Nat) (p : Nat) : Nat :=
  (match o with | some k => k + 1 | none => 0) * cellVox + p

def Spec.code3 (g : Geo) (i x z : Nat) : Nat := code 64 (some (Spec.unit g i x z)) (Spec.pos i x z)
def Spec.code2 (g : Geo) (t z : Nat) : Nat := code 16 (some (Spec.unit2d g t z)) (Spec.pos2d t z)

end Sgz
