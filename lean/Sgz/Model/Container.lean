import Sgz.Model.Geo
import Sgz.Model.Version
/-!
# Model/Container — section sizes and footer offsets of an SGZ file (C03)

* `diskBlocks` — the disk-block count the writers put in the header (conversion_utils.make_header, cropping,
  convert_to_adv_sgz): `int((bits_per_voxel · P2 · P1 · P0 // 8) // 4096)`, with the rate carried as quarter-bits `q`;
* `footerArrayBytes` — what a writer emits per header array: the array (`4·traces` bytes) padded to a multiple of 512
  (`bytes(-len % 512)`);
* `readerFooterOffset` — where a reader of the file's own version looks for array `k` (read.py:157-168, headers.py:102-126):
  stride `pad(len, 512)` after release 0.2.1, the bare length before.
-/
namespace Sgz
namespace Container

/-- disk blocks stated in the header; `q = 4·rate` -/
def diskBlocks (g : Geo) (q : Nat) : Nat := (q * g.P2 * g.P1 * g.P0 / 4 / 8) / 4096

/-- bytes one writer call appends for one header array of `len` bytes -/
def footerArrayBytes (len : Nat) : Nat := len + (512 - len % 512) % 512

/-- offset (from the start of the file) at which the k-th array written lands -/
def writerFooterOffset (nHB dataBlocks len k : Nat) : Nat := 4096 * nHB + 4096 * dataBlocks + k * footerArrayBytes len

/-- offset at which a reader expects array `k`, from the version word of the file -/
def readerFooterOffset (version nHB dataBlocks len k : Nat) : Nat :=
  4096 * nHB + 4096 * dataBlocks + k * (if Ver.paddedFooter version then pad len 512 else len)

def fileLength (nHB dataBlocks len nArrays : Nat) : Nat := 4096 * nHB + 4096 * dataBlocks + nArrays * footerArrayBytes len

/-- `gen_trace_header(t)` on a structured file (read.py:964-985): one 4-byte read per stored array, at the array's offset
plus `4·t`; fields recorded as duplicates share the value already read -/
def headerReads (version nHB dataBlocks len nArrays t : Nat) : List (Nat × Nat) :=
  (List.range nArrays).map fun k => (readerFooterOffset version nHB dataBlocks len k + 4 * t, 4)

/-- range reads made when a reader is opened (read.py:132-139): the first block, then all header blocks -/
def openReads (nHB : Nat) : List (Nat × Nat) := if nHB = 1 then [(0, 4096)] else [(0, 4096), (0, 4096 * nHB)]

end Container
end Sgz
