import Sgz.Model.IO
/-!
# Model/WriteOrder — the order in which a conversion puts bytes on disk (C18)

`run_conversion_loop` appends the header blocks and every compressed block; `write_headers` appends the footer arrays;
`write_hash` patches 20 bytes at 960 in place through a second handle.  In `thorough` mode `write_headers` first patches the
array count (4 bytes at 64) and the header-word table (at 980) in place, and only then appends the arrays it keeps
(conversion.py:102-121).  A step is an append at the end of the file or an in-place patch of bytes that exist.
-/
namespace Sgz
namespace WriteOrder

def File.append (f : File) (bs : List Nat) : File :=
  { len := f.len + bs.length, byte := fun i => if f.len ≤ i then bs.getD (i - f.len) 0 else f.byte i }

def File.patch (f : File) (off : Nat) (bs : List Nat) : File :=
  { len := f.len, byte := fun i => if off ≤ i ∧ i < off + bs.length then bs.getD (i - off) 0 else f.byte i }

inductive Step where
  | app (bs : List Nat)
  | patch (off : Nat) (bs : List Nat)

def Step.run (f : File) : Step → File
  | .app bs => File.append f bs
  | .patch off bs => File.patch f off bs

def run (f : File) (steps : List Step) : File := steps.foldl Step.run f

def empty : File := { len := 0, byte := fun _ => 0 }

/-- header blocks and the first `k` compressed blocks -/
def phase1 (hdr : List Nat) (blocks : List (List Nat)) (k : Nat) : File :=
  run empty (Step.app hdr :: (blocks.take k).map Step.app)

/-- `thorough` mode: the state once count and table are patched (all blocks written) -/
def patched (hdr : List Nat) (blocks : List (List Nat)) (cnt tbl : List Nat) : File :=
  File.patch (File.patch (phase1 hdr blocks blocks.length) 64 cnt) 980 tbl

/-- … and after the first `j` kept footer arrays have been appended -/
def phase2 (base : File) (arrays : List (List Nat)) (j : Nat) : File :=
  run base ((arrays.take j).map Step.app)

/-- the finished file -/
def finished (base : File) (arrays : List (List Nat)) (hash : List Nat) : File :=
  File.patch (phase2 base arrays arrays.length) 960 hash

/-- the kinds of the file operations of a conversion, in order (`A` append, `P off` in-place patch) — what the captured
write logs of the real converter are compared with -/
inductive Kind where
  | A
  | P (off : Nat)
deriving Repr, DecidableEq

def shape (thorough : Bool) (nBlocks nArrays : Nat) : List Kind :=
  Kind.A :: List.replicate nBlocks Kind.A ++ (if thorough then [Kind.P 64, Kind.P 980] else [])
    ++ List.replicate nArrays Kind.A ++ [Kind.P 960]

end WriteOrder
end Sgz
