import Sgz.Model.Reader
/-!
# Model/IO — range reads against a file, faults and truncation (C17, C18)

The reader touches its file or blob only through the range-read primitive `read_range_file` / `read_range_blob`
(utils.py:63-77; `SgzLoader._get_compressed_bytes` for the preloaded copy), which returns the requested bytes or raises
when fewer come back (`check_range_length`).  A read call is therefore a *program over length-checked range reads*:

* `Prog α` — issue a range read and continue with the bytes obtained, finish with a value, or refuse;
* `Prog.run f` — run against a complete file `f`;
* `Prog.runFaulty f plan` — the k-th range read of the call may raise or come back short (fault plan, C17);
* a truncated / partially written file is just another file `p`, related to the complete one by `IsPrefix` or
  `AgreesOutside` (C18).

`Out.toProg` turns a read result of `Model/Reader` (array + the fetch list the loaders issue) into such a program.
-/
namespace Sgz

/-- a file: a length and its bytes (bytes at and beyond `len` are never observed) -/
structure File where
  len  : Nat
  byte : Nat → Nat

/-- `read_range_file(file, offset, length)`: `seek`, `read(length)`, `check_range_length`.  A read beyond the end of the
file comes back short and is refused (`none` = IOError). -/
def File.readRange (f : File) (off len : Nat) : Option (List Nat) :=
  if off + len ≤ f.len then some ((List.range len).map fun i => f.byte (off + i)) else none

/-- a computation whose only access to the file is the length-checked range read -/
inductive Prog (α : Type) where
  | done (a : α)
  | fail (e : Err)
  | read (off len : Nat) (k : List Nat → Prog α)

namespace Prog

def run {α : Type} (f : File) : Prog α → Except Err α
  | .done a => .ok a
  | .fail e => .error e
  | .read off len k =>
    match f.readRange off len with
    | none => .error .io
    | some bs => (k bs).run f

/-- outcome of one physical range read under fault injection -/
inductive Fault where
  | none                 -- the read delivers what the file holds
  | exc                  -- the backend raises
  | short (got : Nat)    -- only the first `got` bytes come back
deriving Repr, DecidableEq

/-- run with a fault plan: `plan k` is what happens to the k-th range read of the call (in issue order).  An exception
propagates (futures are inspected, `_raise_worker_exceptions`); a short read is refused by `check_range_length` unless it
is not short at all (`got ≥ len`). -/
def runFaulty {α : Type} (f : File) (plan : Nat → Fault) (n : Nat := 0) : Prog α → Except Err α
  | .done a => .ok a
  | .fail e => .error e
  | .read off len k =>
    match plan n with
    | .exc => .error .io
    | .short got =>
      if got < len then .error .io
      else match f.readRange off len with
        | none => .error .io
        | some bs => runFaulty f plan (n + 1) (k bs)
    | .none =>
      match f.readRange off len with
      | none => .error .io
      | some bs => runFaulty f plan (n + 1) (k bs)

/-- number of range reads the program issues on file `f` (when none fails) -/
def reads {α : Type} (f : File) : Prog α → Nat
  | .done _ => 0
  | .fail _ => 0
  | .read off len k =>
    match f.readRange off len with
    | none => 1
    | some bs => 1 + (k bs).reads f

end Prog

/-- `p` is a byte prefix of `f`: what a file looks like when writing stopped (append-only writers) or when a copy was
cut short -/
def IsPrefix (p f : File) : Prop := p.len ≤ f.len ∧ ∀ b, b < p.len → p.byte b = f.byte b

/-- `p` is a prefix of `f` except inside the byte set `R` (in-place patches that had not reached the disk: the hash
field 960–979) -/
def AgreesOutside (R : Nat → Bool) (p f : File) : Prop :=
  p.len ≤ f.len ∧ ∀ b, b < p.len → R b = false → p.byte b = f.byte b

/-- a read result of `Model/Reader` as a program: issue the loader's range reads (offsets relative to the data section,
which starts at `dataStart`), then return the array -/
def Out.toProg (dataStart : Nat) (o : Out) : Prog Arr :=
  o.fetches.foldr (fun fl k => .read (dataStart + fl.1) fl.2 (fun _ => k)) (.done o.arr)

def R.toProg (dataStart : Nat) : R → Prog Arr
  | .error e => .fail e
  | .ok o => o.toProg dataStart

/-- executable verdicts used by the driver: does the call raise on a file cut at length `L` / with a fault at read `k`? -/
def truncRaises (dataStart L : Nat) (o : Out) : Bool := o.fetches.any fun fl => dataStart + fl.1 + fl.2 > L

def faultRaises (k : Nat) (o : Out) : Bool := k < o.fetches.length

end Sgz
