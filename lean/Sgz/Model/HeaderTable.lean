import Sgz.Model.Header
import Sgz.Model.Headers
/-!
# Model/HeaderTable — the classification table as it is stored (C04, C03)

`Model/Headers` numbers the 89 fields `0 … F−1` and writes "code of field `f`" as `f + 1`; the file stores, per row, the
field's real code (its 1-based byte position in the SEG-Y trace header: 1, 5, 9, …, 233), the constant, and the real code of
the field whose array holds the values (`HeaderwordInfo.to_list` / `to_buffer`; `HeaderwordInfo(buffer=…)` on reading).
`toTRows` / `ofTRows` translate between the two for any injective, non-zero code assignment.
-/
namespace Sgz
namespace HeaderTable

/-- rows as stored: (real code, constant, real code of the representative or 0) -/
def toTRows (code : Nat → Int) (tbl : List Headers.Row) : List Header.TRow :=
  (List.range tbl.length).map fun f =>
    let r := tbl.getD f (0, 0)
    (code f, r.1, if r.2 = 0 then 0 else code (r.2 - 1))

/-- index (plus one) of the field with real code `c` among the first `F` fields; 0 when there is none -/
def fieldOf (code : Nat → Int) : Nat → Int → Nat
  | 0, _ => 0
  | F + 1, c => if fieldOf code F c = 0 then (if code F = c then F + 1 else 0) else fieldOf code F c

/-- rows as the reader's table: (constant, model code of the representative) -/
def ofTRows (code : Nat → Int) (F : Nat) (rows : List Header.TRow) : List Headers.Row :=
  rows.map fun r => (r.2.1, if r.2.2 = 0 then 0 else fieldOf code F r.2.2)

end HeaderTable
end Sgz
