import Sgz.Model.Arith
/-!
# Model/Headers — trace-header classification, capture and regeneration (C04)

Fields are numbered `0 … F-1` in the order of the 89-row header-word table (ascending SEG-Y byte position); the code
written in the table for field `f` is `f + 1` here (any injective, non-zero, increasing numbering — the real codes are the
byte positions 1, 5, 9, …).  `h t f` is the value of field `f` in source trace `t` (grid order).

* `classify` (headers.py:44-62, 191-232): from the **first and last** trace: a field is *variant* when the two differ;
  a variant field that agrees with an earlier variant field on both is a *duplicate* of the first such field;
  table row = `(constant, 0)` for a field equal in both, `(0, code of its representative)` for a variant field.
* `classifyAll` — `thorough` / `exhaustive`: every field stored.
* `demote` (conversion.py:93-108, `thorough`): a stored array found constant after the full pass is turned into the
  table constant.
* `storedFields` — the fields that own a footer array, in footer order (`get_header_dict`, read.py);
* `regen` (read.gen_trace_header + get_header_dict): value of field `f` of trace `t` as the reader regenerates it from
  the table and the captured arrays.
-/
namespace Sgz
namespace Headers

/-- table row: (constant value, code of the field whose array holds the values; 0 = none) -/
abbrev Row := Int × Nat

structure Src where
  F : Nat                 -- number of fields (89)
  T : Nat                 -- number of traces (≥ 1)
  h : Nat → Nat → Int     -- trace → field → value

def Src.first (s : Src) (f : Nat) : Int := s.h 0 f
def Src.last (s : Src) (f : Nat) : Int := s.h (s.T - 1) f

def variant (s : Src) (f : Nat) : Bool := s.first f != s.last f

/-- the first variant field (in table order) that agrees with `f` on the first and on the last trace -/
def rep (s : Src) (f : Nat) : Nat :=
  ((List.range f).find? fun g => variant s g && s.first g == s.first f && s.last g == s.last f).getD f

/-- heuristic table -/
def classify (s : Src) : List Row :=
  (List.range s.F).map fun f => if variant s f then (0, rep s f + 1) else (s.first f, 0)

/-- thorough / exhaustive: every field variant, no duplicates -/
def classifyAll (s : Src) : List Row := (List.range s.F).map fun f => (0, f + 1)

/-- is the captured array of field `f` constant? -/
def constantArray (s : Src) (f : Nat) : Bool := (List.range s.T).all fun t => s.h t f == s.h 0 f

/-- `thorough`: rewrite the rows of constant arrays to constants -/
def demote (s : Src) (tbl : List Row) : List Row :=
  (List.range tbl.length).map fun f =>
    match tbl.getD f (0, 0) with
    | (c, code) => if code == f + 1 && constantArray s f then (s.h 0 f, 0) else (c, code)

/-- `strip` -/
def classifyNone (s : Src) : List Row := (List.range s.F).map fun _ => (0, 0)

/-- fields that own a footer array, in the order the reader assigns offsets (`get_header_dict`): a row `(0, c)`, `c ≠ 0`,
whose code has not been met before -/
def storedFields (tbl : List Row) : List Nat :=
  (List.range tbl.length).filter fun f =>
    match tbl.getD f (0, 0) with
    | (c, code) => c == 0 && code != 0 && !((List.range f).any fun g =>
        match tbl.getD g (0, 0) with | (c', code') => c' == 0 && code' != 0 && code' == code)

/-- `get_header_array_count`: rows whose duplicate-code is their own code -/
def arrayCount (tbl : List Row) : Nat := ((List.range tbl.length).filter fun f => (tbl.getD f (0, 0)).2 == f + 1).length

/-- the reader: value of field `f` of trace `t` — the constant, or entry `t` of the array captured for the field the row
names (arrays are captured as `array_c[t] = h t (c-1)`, conversion_utils.io_thread_func) -/
def regen (s : Src) (tbl : List Row) (t f : Nat) : Int :=
  match tbl.getD f (0, 0) with
  | (c, code) => if c != 0 || code == 0 then c else s.h t (code - 1)

end Headers
end Sgz
