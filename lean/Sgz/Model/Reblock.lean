import Sgz.Model.Geo
/-!
# Model/Reblock — `SgzConverter.convert_to_adv_sgz` (conversion.py:337-385): 4×4×1024 @ 2 bit → 64×64×4 (C12)

No re-compression: every 64×64×4 output block is assembled from the 16×16 source units at one depth of a 64×64 trace
tile; tiles that reach beyond the cube are zero-filled outside the real inline / crossline unit counts.
-/
namespace Sgz
namespace Reblock

/-- the only supported input: default layout `(4,4,1024)` at 2 bits per voxel (unit = 16 bytes) -/
def supported (g : Geo) : Bool := g.b0 == 4 && g.b1 == 4 && g.b2 == 1024 && g.u == 16

/-- output geometry: same extents, blockshape `(64,64,4)` -/
def outGeo (g : Geo) : Geo := { g with b0 := 64, b1 := 64, b2 := 4 }

/-- units copied per partial tile: `(n % 64 + 3) // 4` in the last tile, else 16 -/
def count (n t : Nat) : Nat := if (t + 1) * 64 > n then (n % 64 + 3) / 4 else 16

/-- source unit index held by every unit of the output data section (`none` = a zero-filled unit), in output file order:
tiles `i`, `x`, then depth `z`, then the 256 units `u = n·16 + m` of the block -/
def units (g : Geo) : List (Option Nat) :=
  let o := outGeo g
  (List.range o.NB0).flatMap fun i => (List.range o.NB1).flatMap fun x => (List.range o.NB2).flatMap fun z =>
    (List.range 256).map fun u =>
      let n := u / 16
      let m := u % 16
      if n < count g.n0 i && m < count g.n1 x then
        some (((16 * i + n) * (g.P1 / 4) + (16 * x + m)) * (g.P2 / 4) + z)
      else none

end Reblock
end Sgz
