import Sgz.Model.Headers
/-!
# Model/HeaderReads — how the reader regenerates trace headers and tracefield arrays, with its caches (C15, C07, C14)

`gen_trace_header` (read.py:940-986), `read_variant_headers` (873-912), `get_unstructured_mask` (858-866),
`get_tracefield_1d` / `get_tracefield_values` (914-960).  A reader remembers: the padding mode of its first
`read_variant_headers` call (until `clear_variant_headers`), the population mask, the (masked) variant-header arrays it has loaded, and the raw arrays
fetched for `get_tracefield_values`.  The file is described by its header-word table, the footer arrays and — for a file made
from an irregular survey — which grid slots are holes.
-/
namespace Sgz
namespace HeaderReads

structure HFile where
  tbl : List Headers.Row       -- header-word table: (constant, code); code = 1 + index of the field owning the array
  grid : Nat                   -- grid traces: n_il·n_xl (3D) or the trace count (2D)
  is3d : Bool
  structured : Bool
  hole : Nat → Bool            -- grid slot carries no trace (files from irregular surveys)
  footer : Nat                 -- file offset of the first footer array
  stride : Nat                 -- distance between consecutive arrays
  len : Nat                    -- bytes of one array (4·grid)
  val : Nat → Nat → Int        -- array k, grid slot p

/-- footer array index of field `f`: `none` for a constant field -/
def arrayOf (h : HFile) (f : Nat) : Option Nat :=
  match h.tbl.getD f (0, 0) with
  | (c, code) => if c != 0 || code == 0 then none else (Headers.storedFields h.tbl).idxOf? (code - 1)

def offsetOf (h : HFile) (k : Nat) : Nat := h.footer + k * h.stride

def rawArray (h : HFile) (k : Nat) : List Int := (List.range h.grid).map (h.val k)

/-- grid slots that carry a trace, in order: the stored inline-number array decides the population
(`mask = array_189 != 0`, `np.flatnonzero(mask)`); `ilArray` = its footer index -/
def positions (h : HFile) (ilArray : Nat) : List Nat := (List.range h.grid).filter fun p => h.val ilArray p != 0

/-- `values[mask]` -/
def maskedArray (h : HFile) (ilArray k : Nat) : List Int := (positions h ilArray).map (h.val k)

/-- the array kept for stored array `k` when headers are loaded with (`ip`) or without their padding -/
def arrMode (h : HFile) (ilArray : Nat) (ip : Bool) (k : Nat) : List Int :=
  if h.is3d && !(h.structured || ip) then maskedArray h ilArray k else rawArray h k

/-- what one reader remembers -/
structure HSt where
  includePadding : Option Bool
  maskLoaded : Bool
  vh : List (Nat × List Int)      -- field → loaded variant-header array
  tf : List (Nat × List Int)      -- field → raw array cached by `get_tracefield_1d`

def HSt.init : HSt := { includePadding := none, maskLoaded := false, vh := [], tf := [] }

structure HOut where
  vals : List Int                 -- header: one value per field; tracefield: the array
  fetches : List (Nat × Nat)

abbrev HR := Except Err HOut

/-- one turn of the loop of `read_variant_headers`: a stored field not yet loaded is fetched (after the mask, if that is
needed and not yet there) and remembered -/
def vhStep (h : HFile) (ilArray : Nat) (ip : Bool) (acc : HSt × List (Nat × Nat)) (f : Nat) : HSt × List (Nat × Nat) :=
  match arrayOf h f with
  | none => acc
  | some k =>
    if acc.1.vh.any (·.1 == f) then acc else
    let needMask := (h.is3d && !(h.structured || ip)) && !acc.1.maskLoaded
    ({ acc.1 with maskLoaded := acc.1.maskLoaded || needMask, vh := acc.1.vh ++ [(f, arrMode h ilArray ip k)] },
     acc.2 ++ (if needMask then [(offsetOf h ilArray, h.len)] else []) ++ [(offsetOf h k, h.len)])

/-- `read_variant_headers(include_padding, tracefields=fields)`: new state and the range reads issued.  The mode of the
first call sticks; on an unstructured file a call in the other mode is refused (`AssertionError`, pinned by the
repository's own test `test_read_variant_headers_padding_mismatch`) -/
def readVariantHeaders (h : HFile) (ilArray : Nat) (st : HSt) (includePadding : Bool) (fields : List Nat) :
    Except Err (HSt × List (Nat × Nat)) :=
  let ip := st.includePadding.getD includePadding
  if !h.structured && ip != includePadding then .error .assertion else
  .ok (fields.foldl (vhStep h ilArray ip) ({ st with includePadding := some ip }, []))

/-- the header at array position `pos` from the loaded arrays: constants from the table, the rest from the field's array -/
def lookup (h : HFile) (vh : List (Nat × List Int)) (pos : Nat) : List (Option Int) :=
  (List.range h.tbl.length).map fun f =>
    match arrayOf h f with
    | none => some (h.tbl.getD f (0, 0)).1
    | some _ => (vh.find? (fun (p : Nat × List Int) => p.1 == f)).bind fun p => p.2[pos]?

/-- the header the file stores for array position `pos` -/
def headerAt (h : HFile) (pos : Nat) : List Int :=
  (List.range h.tbl.length).map fun f =>
    match arrayOf h f with
    | none => (h.tbl.getD f (0, 0)).1
    | some k => h.val k pos

def hasStored (h : HFile) : Bool := (List.range h.tbl.length).any fun f => (arrayOf h f).isSome

/-- `gen_trace_header(t, load_all_headers=loadAll)` -/
def genTraceHeader (h : HFile) (ilArray : Nat) (st : HSt) (t : Nat) (loadAll : Bool) : HSt × HR :=
  if !(t < h.grid) then (st, .error .index) else     -- (`grid` = n_il·n_xl in 3D, the trace count of a 2D line)
  if h.structured && !loadAll then
    -- 4 bytes per stored array, each array once (duplicates share the value read)
    let ks := (List.range h.tbl.length).filterMap (arrayOf h)
    let distinct := ks.foldl (fun acc k => if acc.contains k then acc else acc ++ [k]) []
    (st, .ok { vals := headerAt h t, fetches := distinct.map fun k => (offsetOf h k + 4 * t, 4) })
  else
    -- arrays already loaded with their padding stay in that mode: ordinal `t` is then looked up at its grid slot
    let padded := st.includePadding.getD false
    let needPos := padded && h.is3d && !h.structured
    let st0 := if needPos then { st with maskLoaded := true } else st
    let f0 := if needPos && !st.maskLoaded then [(offsetOf h ilArray, h.len)] else []
    match (if needPos then (positions h ilArray)[t]? else some t) with
    | none => (st0, .error .index)
    | some pos =>
      if !hasStored h then (st0, .ok { vals := (lookup h [] pos).map (·.getD 0), fetches := f0 }) else
      match readVariantHeaders h ilArray st0 padded (List.range h.tbl.length) with
      | .error e => (st0, .error e)
      | .ok (st', fs) =>
        let look := lookup h st'.vh pos
        if look.any (·.isNone) then (st', .error .index)
        else (st', .ok { vals := look.map (·.getD 0), fetches := f0 ++ fs })

/-- `get_tracefield_values(f)` (via `get_tracefield_1d`): the whole stored array, unmasked; `KeyError` for a constant -/
def getTracefield (h : HFile) (st : HSt) (f : Nat) : HSt × HR :=
  match arrayOf h f with
  | none => (st, .error .other)
  | some k =>
    match st.tf.find? (·.1 == f) with
    | some p => (st, .ok { vals := p.2, fetches := [] })
    | none => ({ st with tf := st.tf ++ [(f, rawArray h k)] }, .ok { vals := rawArray h k, fetches := [(offsetOf h k, h.len)] })

inductive HOp where
  | hdr (t : Nat)
  | hdrAll (t : Nat)              -- `gen_trace_header(t, load_all_headers=True)`
  | tfv (f : Nat)
  | rvh (includePadding : Bool)   -- `read_variant_headers(include_padding)`; returns nothing
  | rvh1 (includePadding : Bool) (f : Nat)   -- `read_variant_headers(include_padding, tracefields=[f])`
  | clear                         -- `clear_variant_headers()`
deriving Repr

def step (h : HFile) (ilArray : Nat) (st : HSt) : HOp → HSt × HR
  | .hdr t => genTraceHeader h ilArray st t false
  | .hdrAll t => genTraceHeader h ilArray st t true
  | .tfv f => getTracefield h st f
  | .rvh b =>
    match readVariantHeaders h ilArray st b (List.range h.tbl.length) with
    | .error e => (st, .error e)
    | .ok (st', fs) => (st', .ok { vals := [], fetches := fs })
  | .rvh1 b f =>
    match readVariantHeaders h ilArray st b [f] with
    | .error e => (st, .error e)
    | .ok (st', fs) => (st', .ok { vals := [], fetches := fs })
  | .clear => ({ HSt.init with maskLoaded := st.maskLoaded }, .error .other)   -- the population mask is kept

def run (h : HFile) (ilArray : Nat) : HSt → List HOp → List HR
  | _, [] => []
  | st, op :: rest => let (st', r) := step h ilArray st op; r :: run h ilArray st' rest

/-- what a fresh reader returns -/
def pure (h : HFile) (ilArray : Nat) (op : HOp) : HR := (step h ilArray HSt.init op).2

end HeaderReads
end Sgz
