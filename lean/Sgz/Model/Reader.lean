import Sgz.Model.Loader
/-!
# Model/Reader — the public read methods of `seismic_zfp/read.py`

Every method is: guard (→ `Err`), dispatch on the layout to a loader, crop.  The result is the shape of the returned
array together with the provenance code of each element and the list of range reads issued on a cold reader.
Arguments are `Int` because the Python API accepts any integer; guards are literally those of the code.
-/
namespace Sgz

/-- a returned array: shape + provenance of each element -/
inductive Arr where
  | a1 (n : Nat) (f : Nat → Nat)
  | a2 (n m : Nat) (f : Nat → Nat → Nat)
  | a3 (n m k : Nat) (f : Nat → Nat → Nat → Nat)

def Arr.shape : Arr → List Nat
  | .a1 n _ => [n] | .a2 n m _ => [n, m] | .a3 n m k _ => [n, m, k]

def Arr.flat : Arr → List Nat
  | .a1 n f => (List.range n).map f
  | .a2 n m f => (List.range n).flatMap fun i => (List.range m).map fun j => f i j
  | .a3 n m k f => (List.range n).flatMap fun i => (List.range m).flatMap fun j => (List.range k).map fun l => f i j l

structure Out where
  arr : Arr
  fetches : List (Nat × Nat)

abbrev R := Except Err Out

namespace Reader

def isDefault (g : Geo) : Bool := g.b0 == 4 && g.b1 == 4

/-- range guard shared by `read_subvolume` / `read_subplane` (read.py:650-654, 702-709) -/
def rangeOk (lo hi upper : Int) : Bool := 0 ≤ lo && lo < upper && 0 < hi && hi ≤ upper && hi > lo

/-- `read_subvolume(min_il, max_il, min_xl, max_xl, min_z, max_z, access_padding)` (read.py:665-728) -/
def readSubvolume (g : Geo) (accessPadding : Bool) (i0 i1 x0 x1 z0 z1 : Int) : R :=
  if g.is2d then .error .dim else
  let up0 : Int := if accessPadding then g.P0 else g.n0
  let up1 : Int := if accessPadding then g.P1 else g.n1
  let up2 : Int := if accessPadding then g.P2 else g.n2
  if !(rangeOk i0 i1 up0) then .error .index else
  if !(rangeOk x0 x1 up1) then .error .index else
  if !(rangeOk z0 z1 up2) then .error .index else
  let (i0, i1, x0, x1, z0, z1) := (i0.toNat, i1.toNat, x0.toNat, x1.toNat, z0.toNat, z1.toNat)
  if isDefault g then
    let L := Loader.chunkRange g i1 x1 z1 i0 x0 z0
    .ok { arr := .a3 (i1 - i0) (x1 - x0) (z1 - z0) fun a b c => L.src (i0 % 4 + a) (x0 % 4 + b) (z0 % 4 + c)
          fetches := L.fetches }
  else
    let L := Loader.unshuffle g i1 x1 z1 i0 x0 z0
    .ok { arr := .a3 (i1 - i0) (x1 - x0) (z1 - z0)
            fun a b c => L.src (i0 % g.b0 + a) (x0 % g.b1 + b) (z0 % g.b2 + c)
          fetches := L.fetches }

def squeeze0 (r : R) : R := r.map fun o =>
  match o.arr with
  | .a3 _ m k f => { o with arr := .a2 m k (f 0) }
  | _ => o
def squeeze1 (r : R) : R := r.map fun o =>
  match o.arr with
  | .a3 n _ k f => { o with arr := .a2 n k (fun a c => f a 0 c) }
  | _ => o
def squeeze2 (r : R) : R := r.map fun o =>
  match o.arr with
  | .a3 n m _ f => { o with arr := .a2 n m (fun a b => f a b 0) }
  | _ => o

/-- `read_inline(il_id)` (read.py:373-395) -/
def readInline (g : Geo) (k : Int) : R :=
  if g.is2d then .error .dim else
  if !(0 ≤ k && k < g.n0) then .error .index else
  let k := k.toNat
  if isDefault g then
    let L := Loader.ilSet g (4 * (k / 4))
    .ok { arr := .a2 g.n1 g.n2 fun x z => L.src (k % g.b0) x z, fetches := L.fetches }
  else squeeze0 (readSubvolume g false k (k + 1) 0 g.n1 0 g.n2)

/-- `read_crossline(xl_id)` (read.py:416-438) -/
def readCrossline (g : Geo) (k : Int) : R :=
  if g.is2d then .error .dim else
  if !(0 ≤ k && k < g.n1) then .error .index else
  let k := k.toNat
  if isDefault g then
    let L := Loader.xlSet g (4 * (k / 4))
    .ok { arr := .a2 g.n0 g.n2 fun i z => L.src i (k % g.b1) z, fetches := L.fetches }
  else squeeze1 (readSubvolume g false 0 g.n0 k (k + 1) 0 g.n2)

/-- `read_zslice(zslice_id)` (read.py:459-490) -/
def readZslice (g : Geo) (k : Int) : R :=
  if g.is2d then .error .dim else
  if !(0 ≤ k && k < g.n2) then .error .index else
  let k := k.toNat
  if isDefault g then
    let L := Loader.zsliceSet g k
    .ok { arr := .a2 g.n0 g.n1 fun i x => L.src i x (k % 4), fetches := L.fetches }
  else if g.b2 == 4 then
    let L := Loader.zsliceAdv g (k / g.b2)
    .ok { arr := .a2 g.n0 g.n1 fun i x => L.src i x (k % 4), fetches := L.fetches }
  else squeeze2 (readSubvolume g false 0 g.n0 0 g.n1 k (k + 1))

def readVolume (g : Geo) : R := readSubvolume g false 0 g.n0 0 g.n1 0 g.n2

/-- `read_subplane(min_trace, max_trace, min_z, max_z, access_padding)` (read.py:622-663), 2D -/
def readSubplane (g : Geo) (accessPadding : Bool) (t0 t1 z0 z1 : Int) : R :=
  if !g.is2d then .error .dim else
  let upT : Int := if accessPadding then g.P1 else g.n1
  let upZ : Int := if accessPadding then g.P2 else g.n2
  if !(rangeOk t0 t1 upT) then .error .index else
  if !(rangeOk z0 z1 upZ) then .error .index else
  let (t0, t1, z0, z1) := (t0.toNat, t1.toNat, z0.toNat, z1.toNat)
  let L := Loader.unshuffle2d g (g.b1 * cdiv t1 g.b1) (g.b2 * cdiv z1 g.b2) (g.b1 * (t0 / g.b1)) (g.b2 * (z0 / g.b2))
  .ok { arr := .a2 (t1 - t0) (z1 - z0) fun a c => L.src 0 (t0 % g.b1 + a) (z0 % g.b2 + c), fetches := L.fetches }

/-- sample-window guard of `get_trace` (read.py, after the C14 repair): `0 ≤ a < b ≤ n_samples` -/
def windowOk (g : Geo) (a b : Int) : Bool := 0 ≤ a && a < b && b ≤ g.n2

/-- `get_trace(index, min_sample_id, max_sample_id)` on a *grid* index (the irregular ordinal→grid map is
applied by the caller, `Model/Irregular`); `a`,`b` already defaulted to `0`, `n_samples`. -/
def getTrace (g : Geo) (index a b : Int) : R :=
  if !(windowOk g a b) then .error .index else
  let (a, b) := (a.toNat, b.toNat)
  if g.is2d then
    if !(0 ≤ index && index < g.n1) then .error .index else
    let t := index.toNat
    let minTrace := g.b1 * (t / g.b1)
    let minZ := g.b2 * (a / g.b2)
    let maxZ := g.b2 * cdiv b g.b2
    if g.b1 == 4 && minZ == 0 && maxZ == g.P2 then
      let L := Loader.traceRange g minTrace (minTrace + g.b1)
      .ok { arr := .a1 (b - a) fun c => L.src 0 (t % g.b1) (a - minZ + c), fetches := L.fetches }
    else
      match readSubplane g true minTrace (minTrace + g.b1) minZ maxZ with
      | .error e => .error e
      | .ok o =>
        match o.arr with
        | .a2 _ _ f => .ok { arr := .a1 (b - a) fun c => f (t % g.b1) (a - minZ + c), fetches := o.fetches }
        | _ => .error .other
  else
    if !(0 ≤ index && index < g.n0 * g.n1) then .error .index else
    let t := index.toNat
    let il := t / g.n1
    let xl := t % g.n1
    let minIl := g.b0 * (il / g.b0)
    let minXl := g.b1 * (xl / g.b1)
    let minZ := g.b2 * (a / g.b2)
    let maxZ := g.b2 * cdiv b g.b2
    match readSubvolume g true minIl (minIl + g.b0) minXl (minXl + g.b1) minZ maxZ with
    | .error e => .error e
    | .ok o =>
      match o.arr with
      | .a3 _ _ _ f => .ok { arr := .a1 (b - a) fun c => f (il % g.b0) (xl % g.b1) (a - minZ + c), fetches := o.fetches }
      | _ => .error .other

/-- `utils.get_correlated_diagonal_length` -/
def cdLen (cd : Int) (nIl nXl : Int) : Int :=
  if nXl > nIl then
    if cd ≥ 0 then nIl - cd else if cd.natAbs ≤ nXl - nIl then nIl else nXl + cd
  else if nXl < nIl then
    if cd ≤ 0 then nXl + cd else if cd.natAbs ≤ nIl - nXl then nXl else nIl - cd
  else nIl - cd.natAbs

/-- `utils.get_anticorrelated_diagonal_length` -/
def adLen (ad : Int) (nIl nXl : Int) : Int :=
  if ad < min nIl nXl then ad + 1
  else if min nIl nXl ≤ ad ∧ ad < max nIl nXl then min nIl nXl
  else nIl + nXl - ad - 1

/-- stack of traces, each fetched through the chunk cache: a chunk already fetched earlier in the same call is
not fetched again (the LRU holds a whole diagonal) -/
def stackTraces (g : Geo) (idxs : List Int) (a b : Int) : R :=
  let rec go (rest : List Int) (rows : List (Nat → Nat)) (fs : List (Nat × Nat)) : Except Err (List (Nat → Nat) × List (Nat × Nat)) :=
    match rest with
    | [] => .ok (rows.reverse, fs)
    | t :: ts =>
      match getTrace g t a b with
      | .error e => .error e
      | .ok o =>
        match o.arr with
        | .a1 _ f => go ts (f :: rows) (if o.fetches.all (fs.contains ·) then fs else fs ++ o.fetches)
        | _ => .error .other
  match go idxs [] [] with
  | .error e => .error e
  | .ok (rows, fs) =>
    .ok { arr := .a2 rows.length (b - a).toNat fun d c => (rows.getD d (fun _ => 0)) c, fetches := fs }

/-- `read_correlated_diagonal(cd_id, min_cd_idx, max_cd_idx, min_sample_idx, max_sample_idx)` (read.py:492-554);
`rng = none` ⇒ whole diagonal, `win = none` ⇒ whole traces -/
def readCorrelatedDiagonal (g : Geo) (cd : Int) (rng win : Option (Int × Int)) : R :=
  if g.is2d then .error .dim else
  if !(-(g.n1 : Int) < cd && cd < g.n0) then .error .index else
  let maxLen := cdLen cd g.n0 g.n1
  let r : Except Err (Int × Int) :=
    match rng with
    | none => .ok (0, maxLen)
    | some (lo, hi) =>
      if !(0 ≤ lo && lo < maxLen) then .error .index
      else if !(0 < hi && hi ≤ maxLen) then .error .index
      else if !(lo < hi) then .error .index
      else .ok (lo, hi)
  match r with
  | .error e => .error e
  | .ok (lo, hi) =>
    let w : Except Err (Int × Int) :=
      match win with
      | none => .ok (0, g.n2)
      | some (s, e) => if windowOk g s e then .ok (s, e) else .error .index
    match w with
    | .error e => .error e
    | .ok (s, e) =>
      let ds : List Int := (List.range (hi - lo).toNat).map fun (d : Nat) => lo + (d : Int)
      let idxs := ds.map fun d => if cd ≥ 0 then (d + cd) * g.n1 + d else d * g.n1 + d - cd
      stackTraces g idxs s e

/-- `read_anticorrelated_diagonal` (read.py:556-620) -/
def readAnticorrelatedDiagonal (g : Geo) (ad : Int) (rng win : Option (Int × Int)) : R :=
  if g.is2d then .error .dim else
  if !(0 ≤ ad && ad < (g.n0 : Int) + g.n1 - 1) then .error .index else
  let maxLen := adLen ad g.n0 g.n1
  let r : Except Err (Int × Int) :=
    match rng with
    | none => .ok (0, maxLen)
    | some (lo, hi) =>
      if !(0 ≤ lo && lo < maxLen) then .error .index
      else if !(0 < hi && hi ≤ maxLen) then .error .index
      else if !(lo < hi) then .error .index
      else .ok (lo, hi)
  match r with
  | .error e => .error e
  | .ok (lo, hi) =>
    let w : Except Err (Int × Int) :=
      match win with
      | none => .ok (0, g.n2)
      | some (s, e) => if windowOk g s e then .ok (s, e) else .error .index
    match w with
    | .error e => .error e
    | .ok (s, e) =>
      let ds : List Int := (List.range (hi - lo).toNat).map fun (d : Nat) => lo + (d : Int)
      let idxs := ds.map fun d =>
        if ad < g.n1 then ad + d * ((g.n1 : Int) - 1)
        else (ad - g.n1 + 1 + d) * g.n1 + ((g.n1 : Int) - d - 1)
      stackTraces g idxs s e

end Reader
end Sgz
