import Sgz.Model.Geo
/-!
# Model/Lru — one call sequence through an LRU of chunks (C07, diagonals)

A diagonal read is a sequence of `get_trace` calls, each of which looks its chunk up in the reader's LRU
(`lru_cache(maxsize=chunk_cache_size)(self._read_containing_chunk)`, read.py) before fetching it: `fetched` lists the
chunk keys that are fetched (the misses), in order.  `cdPoint` / `adPoint` give the grid position of the `d`-th trace of
a diagonal (read.py: `read_correlated_diagonal`, `read_anticorrelated_diagonal`), `chunkKey` the chunk it lies in — the
`(ref_il, ref_xl)` part of the cache key; the sample range of the key is the same for every trace of one call.
-/
namespace Sgz
namespace Lru

variable {κ : Type} [DecidableEq κ]

/-- one look-up in an LRU holding at most `cap` keys, most recently used first: (new contents, hit?) -/
def step (cap : Nat) (c : List κ) (k : κ) : List κ × Bool :=
  if c.contains k then (k :: c.erase k, true) else ((k :: c).take cap, false)

/-- the keys fetched (missed) when `ks` are looked up in order, starting from contents `c` -/
def fetched (cap : Nat) : List κ → List κ → List κ
  | _, [] => []
  | c, k :: ks => if (step cap c k).2 then fetched cap (step cap c k).1 ks else k :: fetched cap (step cap c k).1 ks

/-- the keys that differ from their predecessor (`p` = the key looked up last, if any) -/
def changes : Option κ → List κ → List κ
  | _, [] => []
  | p, k :: ks => if p = some k then changes (some k) ks else k :: changes (some k) ks

/-- grid position (inline ordinal, crossline ordinal) of the `d`-th trace of correlated diagonal `cd` -/
def cdPoint (cd : Int) (d : Nat) : Nat × Nat :=
  if cd ≥ 0 then (d + cd.toNat, d) else (d, d + (-cd).toNat)

/-- grid position of the `d`-th trace of anticorrelated diagonal `ad` on a grid with `n1` crosslines -/
def adPoint (n1 ad d : Nat) : Nat × Nat :=
  if ad < n1 then (d, ad - d) else (ad - n1 + 1 + d, n1 - d - 1)

/-- the chunk a grid position lies in: `(ref_il, ref_xl)` of `_read_containing_chunk` -/
def chunkKey (g : Geo) (p : Nat × Nat) : Nat × Nat := (g.b0 * (p.1 / g.b0), g.b1 * (p.2 / g.b1))

/-- chunk keys of the traces `lo ≤ d < hi` of a correlated / an anticorrelated diagonal, in reading order -/
def cdKeys (g : Geo) (cd : Int) (lo hi : Nat) : List (Nat × Nat) :=
  (List.range (hi - lo)).map fun d => chunkKey g (cdPoint cd (lo + d))
def adKeys (g : Geo) (ad lo hi : Nat) : List (Nat × Nat) :=
  (List.range (hi - lo)).map fun d => chunkKey g (adPoint g.n1 ad (lo + d))

/-- the `while cache_size < max_chunk_dimension: cache_size *= 2` loop of `utils.get_chunk_cache_size` (fuel = the bound) -/
def growTo (m : Nat) : Nat → Nat → Nat
  | 0, c => c
  | f + 1, c => if c < m then growTo m f (c * 2) else c

/-- `utils.get_chunk_cache_size(n_il_chunks, n_xl_chunks)`: the default capacity of a reader's chunk LRU -/
def chunkCacheSize (nIlChunks nXlChunks : Nat) : Nat :=
  growTo (min nIlChunks nXlChunks) (min nIlChunks nXlChunks) 1 * 2

end Lru
end Sgz
