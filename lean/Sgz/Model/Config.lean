import Sgz.Model.Arith
/-!
# Model/Config — `utils.define_blockshape_3d/2d` (after the validation repair)

Resolution of the one free parameter among (bits_per_voxel, blockshape) and validation of the result.
`bits_per_voxel` arrives as an exact rational `num/den` (what the Python value denotes: int, float or numeric
string), `-1` marking "free"; block dimensions are integers, `-1` marking "free".
-/
namespace Sgz.Config

/-- rational bits-per-voxel, `den > 0` -/
structure Q where
  num : Int
  den : Nat
deriving Repr, DecidableEq

structure Cfg where
  q  : Nat      -- 4 · rate
  b0 : Nat
  b1 : Nat
  b2 : Nat
deriving Repr, DecidableEq

def isPow2 (n : Nat) : Bool := n ≥ 1 && (n &&& (n - 1)) == 0

def validRateQ (q : Nat) : Bool := q == 1 || q == 2 || q == 4 || q == 8 || q == 16 || q == 32 || q == 64 || q == 128

/-- what a conformant, readable file needs (the reader's assertions + the divisibility the format requires) -/
def Cfg.Valid (c : Cfg) (is2d : Bool) : Bool :=
  validRateQ c.q && isPow2 c.b1 && c.b1 ≥ 4 && isPow2 c.b2 && c.b2 ≥ 4
  && (if is2d then c.b0 == 1 && c.q ≥ 4 else isPow2 c.b0 && c.b0 ≥ 4)
  && c.q * c.b0 * c.b1 * c.b2 == 4 * 32768

/-- `validate_compression_settings` on a resolved (rate, blockshape) -/
def validate (r : Q) (b0 b1 b2 : Int) (is2d : Bool) : Except Err Cfg :=
  -- rate ∈ {1/4 … 32}: 4·rate is one of 1,2,4,…,128
  if r.num ≤ 0 || (4 * r.num) % (r.den : Int) != 0 then .error .value else
  let q := (4 * r.num / (r.den : Int)).toNat
  if !validRateQ q then .error .value else
  if b0 < 1 || b1 < 1 || b2 < 1 then .error .value else
  let c : Cfg := { q := q, b0 := b0.toNat, b1 := b1.toNat, b2 := b2.toNat }
  if c.Valid is2d then .ok c else .error .value

/-- `32768 // (x·y·bpv)` then `int(...)` -/
def freeDim (r : Q) (x y : Int) : Except Err Int :=
  let d := x * y * r.num
  if d == 0 then .error .other else .ok (Int.fdiv (32768 * (r.den : Int)) d)

/-- `define_blockshape_3d(bits_per_voxel, blockshape, is_2d)`; `define_blockshape_2d` first asserts b0 = 1 -/
def resolve (bpv : Q) (b0 b1 b2 : Int) (is2d : Bool) : Except Err Cfg :=
  if is2d && b0 != 1 then .error .assertion else
  let free := (if b0 == -1 then 1 else 0) + (if b1 == -1 then 1 else 0) + (if b2 == -1 then 1 else 0)
    + (if bpv.num == -(bpv.den : Int) then 1 else 0)
  if free > 1 then .error .value else
  -- bits_per_voxel = 1 / -bits_per_voxel if bits_per_voxel < -1
  let r : Q := if bpv.num < -(bpv.den : Int) then { num := bpv.den, den := (-bpv.num).toNat } else bpv
  if r.num == -(r.den : Int) then
    let p := b0 * b1 * b2
    if p == 0 then .error .other else
    -- 32768 / product (a negative product gives a negative rate, refused by validation)
    if p < 0 then .error .value else validate { num := 32768, den := p.toNat } b0 b1 b2 is2d
  else if b0 == -1 then
    match freeDim r b1 b2 with
    | .error e => .error e
    | .ok v => validate r v b1 b2 is2d
  else if b1 == -1 then
    match freeDim r b2 b0 with
    | .error e => .error e
    | .ok v => validate r b0 v b2 is2d
  else if b2 == -1 then
    match freeDim r b0 b1 with
    | .error e => .error e
    | .ok v => validate r b0 b1 v is2d
  else if r.num * b0 * b1 * b2 != 32768 * (r.den : Int) then .error .assertion
  else validate r b0 b1 b2 is2d

end Sgz.Config
