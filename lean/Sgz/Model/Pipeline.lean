/-! Prototype: writer pipeline of conversion_utils.run_conversion_loop as a transition system -/
namespace Sgz.Pipeline

inductive MPc where
  | startC | startW
  | put (k : Nat)
  | join1 | join2 | done
deriving Repr, DecidableEq

inductive CPc where
  | idle            -- not started
  | get
  | put (i : Nat)
  | td
deriving Repr, DecidableEq

inductive WPc where
  | idle | hdr | get
  | write (i : Nat)
  | td
deriving Repr, DecidableEq

inductive Wr where
  | H
  | B (i : Nat)
deriving Repr, DecidableEq

structure St where
  m : MPc
  c : CPc
  w : WPc
  q1 : List Nat
  q2 : List Nat
  unf1 : Nat
  unf2 : Nat
  log : List Wr
deriving Repr, DecidableEq

def init : St := ⟨.startC, .idle, .idle, [], [], 0, 0, []⟩

inductive Tid where | M | C | W
deriving Repr, DecidableEq

/-- one action of thread `t`; `none` = not enabled. `N` items, queue capacity `cap`. -/
def step (N cap : Nat) (s : St) : Tid → Option St
  | .M => match s.m with
    | .startC => some { s with m := .startW, c := .get }
    | .startW => some { s with m := if 0 < N then .put 0 else .join1, w := .hdr }
    | .put k =>
      if s.q1.length < cap then
        some { s with q1 := s.q1 ++ [k], unf1 := s.unf1 + 1,
                      m := if k + 1 < N then .put (k + 1) else .join1 }
      else none
    | .join1 => if s.unf1 = 0 then some { s with m := .join2 } else none
    | .join2 => if s.unf2 = 0 then some { s with m := .done } else none
    | .done => none
  | .C => match s.c with
    | .idle => none
    | .get => match s.q1 with
      | [] => none
      | i :: r => some { s with q1 := r, c := .put i }
    | .put i =>
      if s.q2.length < cap then some { s with q2 := s.q2 ++ [i], unf2 := s.unf2 + 1, c := .td }
      else none
    | .td => some { s with unf1 := s.unf1 - 1, c := .get }
  | .W => match s.w with
    | .idle => none
    | .hdr => some { s with log := s.log ++ [.H], w := .get }
    | .get => match s.q2 with
      | [] => none
      | i :: r => some { s with q2 := r, w := .write i }
    | .write i => some { s with log := s.log ++ [.B i], w := .td }
    | .td => some { s with unf2 := s.unf2 - 1, w := .get }

/-- run a schedule; a disabled choice is skipped (the harness never schedules a disabled thread) -/
def run (N cap : Nat) : St → List Tid → St
  | s, [] => s
  | s, t :: ts => match step N cap s t with
    | some s' => run N cap s' ts
    | none => run N cap s ts

inductive Reach (N cap : Nat) : St → Prop
  | init : Reach N cap init
  | step {s s' t} : Reach N cap s → step N cap s t = some s' → Reach N cap s'

/-! ### invariant -/

def produced (N : Nat) : MPc → Nat
  | .startC => 0 | .startW => 0
  | .put k => k
  | _ => N

def heldC : CPc → List Nat
  | .put i => [i] | _ => []
def owesC : CPc → Nat
  | .put _ => 1 | .td => 1 | _ => 0
def heldW : WPc → List Nat
  | .write i => [i] | _ => []
def owesW : WPc → Nat
  | .write _ => 1 | .td => 1 | _ => 0
def hdrDone : WPc → Bool
  | .idle => false | .hdr => false | _ => true

structure Inv (N : Nat) (s : St) : Prop where
  /-- ghost: items already written -/
  flow : ∃ written : List Nat,
    written ++ heldW s.w ++ s.q2 ++ heldC s.c ++ s.q1 = List.range (produced N s.m) ∧
    s.log = (if hdrDone s.w then [Wr.H] else []) ++ written.map Wr.B ∧
    (hdrDone s.w = false → written = [])
  u1 : s.unf1 = s.q1.length + owesC s.c
  u2 : s.unf2 = s.q2.length + owesW s.w
  mput : ∀ k, s.m = .put k → k < N
  late : (s.m = .join2 ∨ s.m = .done) → s.unf1 = 0
  cstart : s.m ≠ .startC → s.c ≠ .idle
  wstart : (s.m ≠ .startC ∧ s.m ≠ .startW) → s.w ≠ .idle
  cidle : s.m = .startC → s.c = .idle ∧ s.w = .idle
  widle : s.m = .startW → s.w = .idle
  fin : s.m = .done → s.unf2 = 0

def mrem (N : Nat) : MPc → Nat
  | .startC => N + 4 | .startW => N + 3
  | .put k => (N - k) + 2
  | .join1 => 2 | .join2 => 1 | .done => 0
def cpend : CPc → Nat
  | .put _ => 2 | .td => 1 | _ => 0
def wpend : WPc → Nat
  | .idle => 1 | .hdr => 1 | .get => 0 | .write _ => 2 | .td => 1

/-- number of actions still to happen; a function of the state alone -/
def rem (N : Nat) (s : St) : Nat :=
  mrem N s.m
  + (3 * ((N - produced N s.m) + s.q1.length) + cpend s.c)
  + (3 * ((N - produced N s.m) + s.q1.length + (heldC s.c).length + s.q2.length) + wpend s.w)

end Sgz.Pipeline
