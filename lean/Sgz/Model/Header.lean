import Sgz.Model.Axes
/-!
# Model/Header — the fixed fields of the first header block (docs/file-specification.md; C03)

Writer: `conversion_utils.make_header` (`struct.pack('<I' / '<i')` at fixed offsets into a zeroed buffer).
Reader: `read._parse_dimensions`, `_parse_coordinates`, `_parse_data_sizes`, `__init__` (`struct.unpack` at the same
offsets).  A header is modelled as a byte function; `put32` / `get32` are the little-endian 4-byte store and load.
-/
namespace Sgz
namespace Header

abbrev Bytes := Nat → Nat

/-- store the 32-bit word `w` (`w < 2^32`) little-endian at `off` -/
def put32 (h : Bytes) (off w : Nat) : Bytes := fun i =>
  if i = off then w % 256
  else if i = off + 1 then w / 256 % 256
  else if i = off + 2 then w / 65536 % 256
  else if i = off + 3 then w / 16777216 % 256
  else h i

/-- load a little-endian 32-bit word (unsigned) -/
def get32 (h : Bytes) (off : Nat) : Nat := h off + 256 * h (off + 1) + 65536 * h (off + 2) + 16777216 * h (off + 3)

/-- two's-complement reading of a 32-bit word (`struct.unpack('<i')`) -/
def toSigned (w : Nat) : Int := if w < 2147483648 then (w : Int) else (w : Int) - 4294967296

/-- the fields a writer states (all converters, cropper, re-blocker) -/
structure Fields where
  nHeaderBlocks : Nat
  nSamples : Nat
  nXl : Nat
  nIl : Nat
  zStart : Int          -- first sample, whole milliseconds
  xl0 : Int
  il0 : Int
  interval : Int        -- microseconds (files after 0.1.6)
  dXl : Int
  dIl : Int
  q : Nat               -- 4 · bits per voxel
  b0 : Nat
  b1 : Nat
  b2 : Nat
  dataBlocks : Nat
  arrayBytes : Nat
  nArrays : Nat
  tracecount : Nat
  version : Nat
deriving Repr, DecidableEq

/-- `bpv = -int(1/bits_per_voxel)` below 1 bit, else `int(bits_per_voxel)` -/
def encodeRate (q : Nat) : Int := if q < 4 then -((4 / q : Nat) : Int) else ((q / 4 : Nat) : Int)

/-- reader: `rate = 1 / -rate if rate < 0`; as quarter-bits -/
def decodeRate (r : Int) : Nat := if r < 0 then 4 / (-r).toNat else 4 * r.toNat

def word (v : Int) : Nat := (v % 4294967296).toNat

/-- the 4-byte stores `make_header` performs: (offset, word) -/
def writes (f : Fields) : List (Nat × Nat) :=
  [(0, f.nHeaderBlocks), (4, f.nSamples), (8, f.nXl), (12, f.nIl), (16, word f.zStart), (20, word f.xl0), (24, word f.il0),
   (28, word f.interval), (32, word f.dXl), (36, word f.dIl), (40, word (encodeRate f.q)), (44, f.b0), (48, f.b1), (52, f.b2),
   (56, f.dataBlocks), (60, f.arrayBytes), (64, f.nArrays), (68, f.tracecount), (72, f.version)]

/-- `make_header` (fixed fields; `none` if `struct.pack` would raise) -/
def make (f : Fields) : Option Bytes :=
  let u32ok (n : Nat) : Bool := n < 4294967296
  let i32ok (v : Int) : Bool := decide (-2147483648 ≤ v) && decide (v < 2147483648)
  if !(u32ok f.nHeaderBlocks && u32ok f.nSamples && u32ok f.nXl && u32ok f.nIl && u32ok f.b0 && u32ok f.b1 && u32ok f.b2
      && u32ok f.dataBlocks && u32ok f.arrayBytes && u32ok f.nArrays && u32ok f.tracecount && u32ok f.version
      && i32ok f.zStart && i32ok f.xl0 && i32ok f.il0 && i32ok f.interval && i32ok f.dXl && i32ok f.dIl) then none else
  some ((writes f).foldl (fun h ow => put32 h ow.1 ow.2) (fun _ => 0))

/-- the reader's view of the same fields -/
def parse (h : Bytes) : Fields :=
  { nHeaderBlocks := get32 h 0, nSamples := get32 h 4, nXl := get32 h 8, nIl := get32 h 12
    zStart := toSigned (get32 h 16)
    -- line origins and increments are read unsigned and wrapped later (`astype('intc')`): same value
    xl0 := Axes.wrapI32 (get32 h 20), il0 := Axes.wrapI32 (get32 h 24)
    interval := toSigned (get32 h 28)
    dXl := Axes.wrapI32 (get32 h 32), dIl := Axes.wrapI32 (get32 h 36)
    q := decodeRate (toSigned (get32 h 40))
    b0 := get32 h 44, b1 := get32 h 48, b2 := get32 h 52
    dataBlocks := get32 h 56, arrayBytes := get32 h 60, nArrays := get32 h 64, tracecount := get32 h 68
    version := get32 h 72 }

def validRateQ (q : Nat) : Bool := q == 1 || q == 2 || q == 4 || q == 8 || q == 16 || q == 32 || q == 64 || q == 128

/-! ### the header-word table (bytes 980 … 2047 of the first header block)

Writer: `HeaderwordInfo.to_buffer` (12 bytes per row: field code, constant, code of the field whose array holds the values;
`signed_int_to_bytes`, little-endian) stored at 980 by `make_header` and patched there by the `thorough` converter.
Reader: `HeaderwordInfo(buffer = headerbytes[980:2048])`. -/

/-- one row: (field code, constant value, code of the field whose footer array holds the values) -/
abbrev TRow := Int × Int × Int

def tableAt : Nat := 980
def tableRows : Nat := 89
def rowAt (i : Nat) : Nat := tableAt + 12 * i

/-- the `k`-th 4-byte cell of the table, rows laid out one after the other -/
def cell (rows : List TRow) (k : Nat) : Int :=
  let r := rows.getD (k / 3) (0, 0, 0)
  if k % 3 = 0 then r.1 else if k % 3 = 1 then r.2.1 else r.2.2

/-- the 4-byte stores of `to_buffer`, at their place in the header block -/
def tableWrites (rows : List TRow) : List (Nat × Nat) :=
  (List.range (3 * rows.length)).map fun k => (tableAt + 4 * k, word (cell rows k))

def putTable (h : Bytes) (rows : List TRow) : Bytes := (tableWrites rows).foldl (fun h ow => put32 h ow.1 ow.2) h

/-- the reader's view of row `i` -/
def getRow (h : Bytes) (i : Nat) : TRow :=
  (toSigned (get32 h (rowAt i)), toSigned (get32 h (rowAt i + 4)), toSigned (get32 h (rowAt i + 8)))

def getTable (h : Bytes) (n : Nat) : List TRow := (List.range n).map (getRow h)

def i32 (v : Int) : Prop := -2147483648 ≤ v ∧ v < 2147483648

end Header
end Sgz
