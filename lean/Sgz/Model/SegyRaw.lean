import Sgz.Model.Arith
/-!
# Model/SegyRaw — `MinimalInlineReader` (conversion_utils.py:150-192): one read per inline straight from the SEG-Y bytes

A SEG-Y file with fixed-length traces: 3600 bytes of file headers, then per trace a 240-byte header and `ns` 4-byte samples.
`read_line(i)` seeks to the first trace of inline `i` (traces are inline-major, `nxl` per inline), reads the whole inline in
one call, views the buffer as big-endian 4-byte words reshaped to `(nxl, ns + 60)` and drops the first 60 words (the header)
of every row; header `h` is the slice `[h·(240+4ns), +240)` of the buffer.
-/
namespace Sgz
namespace SegyRaw

def traceBytes (ns : Nat) : Nat := 240 + 4 * ns

/-- file offset of trace `t` (its header) -/
def traceOffset (ns t : Nat) : Nat := 3600 + t * traceBytes ns

/-- the one range read of `read_line(i)`: (offset, length) -/
def readLine (nxl ns i : Nat) : Nat × Nat := (3600 + i * nxl * (ns * 4 + 240), nxl * (ns * 4 + 240))

/-- position in the buffer of sample `s` of the `h`-th trace of the line: word `h·(ns+60) + 60 + s` -/
def sampleInBuf (ns h s : Nat) : Nat := 4 * (h * (ns + 60) + 60 + s)

/-- position in the buffer of the header of the `h`-th trace of the line -/
def headerInBuf (ns h : Nat) : Nat := h * (240 + ns * 4)

/-- the inline read into plane `i` of plane set `p` (`io_thread_func`): planes beyond the last real inline repeat it -/
def lineOfPlane (nil b0 p i : Nat) : Nat :=
  let toRead := if (p + 1) * b0 > nil then nil % b0 else b0
  p * b0 + (if i < toRead then i else toRead - 1)

/-- the range reads a conversion with `reduce_iops` issues on the SEG-Y file, in order: the file headers
(`make_header_seismic_file`), the self-test (line 0), then `b0` planes for every plane set -/
def conversionReads (nil nxl ns b0 : Nat) : List (Nat × Nat) :=
  (0, 3600) :: readLine nxl ns 0 ::
    (List.range (pad nil b0 / b0)).flatMap fun p =>
      (List.range b0).map fun i => readLine nxl ns (lineOfPlane nil b0 p i)

end SegyRaw
end Sgz
