import Sgz.Model.Geo
/-!
# Model/Loader — the loaders of `seismic_zfp/loader.py`, as they are written

A loader issues range reads ("fetches", offsets relative to the data section) and assembles a buffer by copying
each fetched range (or parts of it) to a buffer position; the buffer is then handed to `zfpy._decompress` with a
shape.  `decompress` decodes cell `k` (raster over shape/4) from buffer bytes `[k·u, (k+1)·u)`.

The model keeps the list of copies exactly as the loops of the code produce them and *computes* the provenance of
every decoded voxel from it (`bufSrc`: last write wins, as with slice assignment).
-/
namespace Sgz

structure Copy where
  bufStart : Nat
  fileOff  : Nat
  len      : Nat
deriving Repr, DecidableEq

def Copy.covers (c : Copy) (b : Nat) : Bool := c.bufStart ≤ b && b < c.bufStart + c.len

/-- file offset from which buffer byte `b` was filled (last write wins); `none`: still zero -/
def bufSrc (cs : List Copy) (b : Nat) : Option Nat :=
  (cs.reverse.find? (·.covers b)).map (fun c => c.fileOff + (b - c.bufStart))

/-- unit index read by the decoder from buffer bytes starting at `b`: defined when the bytes come from a
unit-aligned file position -/
def unitAt (u : Nat) (cs : List Copy) (b : Nat) : Option Nat :=
  (bufSrc cs b).bind fun off => if off % u = 0 then some (off / u) else none

/-- result of one loader call -/
structure Load where
  fetches : List (Nat × Nat)          -- (offset, length) relative to the data section, in issue order
  src     : Nat → Nat → Nat → Nat     -- provenance code of voxel (a,b,c) of the decompressed array

/-- `zfpy._decompress(buffer, shape=(s0,s1,s2))`: provenance of voxel (a,x,z) -/
def decomp3 (u : Nat) (cs : List Copy) (s1 s2 : Nat) (a x z : Nat) : Nat :=
  code 64 (unitAt u cs ((((a / 4) * (s1 / 4) + x / 4) * (s2 / 4) + z / 4) * u)) (Spec.pos a x z)

/-- 2D: shape (s1,s2) -/
def decomp2 (u : Nat) (cs : List Copy) (s2 : Nat) (t z : Nat) : Nat :=
  code 16 (unitAt u cs (((t / 4) * (s2 / 4) + z / 4) * u)) (Spec.pos2d t z)

def fetchesOf (cs : List Copy) : List (Nat × Nat) := cs.map fun c => (c.fileOff, c.len)

namespace Loader

/-- `read_and_decompress_il_set(i)` (loader.py:127-131), `i = 4·(il_id // 4)` -/
def ilSetCopies (g : Geo) (i : Nat) : List Copy :=
  [{ bufStart := 0, fileOff := ((g.chunk * g.P1) / 4) * (i / 4), len := (g.chunk * g.P1) / 4 }]

def ilSet (g : Geo) (i : Nat) : Load :=
  { fetches := fetchesOf (ilSetCopies g i)
    src := fun a x z => decomp3 g.u (ilSetCopies g i) g.P1 g.P2 a x z }

/-- `read_and_decompress_xl_set(x)` (loader.py:133-142), `x = 4·(xl_id // 4)` -/
def xlSetCopies (g : Geo) (x : Nat) : List Copy :=
  (List.range (g.P0 / 4)).map fun c =>
    { bufStart := c * g.chunk, fileOff := x / 4 * g.chunk + c * (g.chunk * g.P1 / 4), len := g.chunk }

def xlSet (g : Geo) (x : Nat) : Load :=
  { fetches := fetchesOf (xlSetCopies g x)
    src := fun a b z => decomp3 g.u (xlSetCopies g x) 4 g.P2 a b z }

/-- `read_and_decompress_zslice_set(blocks_per_dim, zslice_id // b2, zslice_id)` (loader.py:144-154) -/
def zsliceSetCopies (g : Geo) (zid : Nat) : List Copy :=
  (List.range (g.NB0 * g.NB1)).map fun n =>
    { bufStart := n * g.u
      fileOff := (zid / g.b2) * 4096 + ((zid % g.b2) / 4) * g.u + n * g.chunk
      len := g.u }

def zsliceSet (g : Geo) (zid : Nat) : Load :=
  { fetches := fetchesOf (zsliceSetCopies g zid)
    src := fun a x z => decomp3 g.u (zsliceSetCopies g zid) g.P1 4 a x z }

/-- `read_and_decompress_zslice_set_adv` + `_distribute_chunk_into_buffer` (loader.py:103-117,156-164):
one 4096-byte fetch per block, distributed row by row -/
def zsliceAdvFetch (g : Geo) (zb : Nat) (blockId : Nat) : Nat × Nat :=
  (zb * 4096 + ((blockId / g.NB1) * g.NB1 + blockId % g.NB1) * (4096 * g.NB2), 4096)

def zsliceAdvCopies (g : Geo) (zb : Nat) : List Copy :=
  (List.range (g.NB0 * g.NB1)).flatMap fun blockId =>
    (List.range (g.b0 / 4)).map fun r =>
      { bufStart := (blockId / g.NB1) * 4096 * g.NB1 + (blockId % g.NB1) * ((g.b1 / 4) * g.u)
                      + r * ((g.P1 / 4) * g.u)
        fileOff := (zsliceAdvFetch g zb blockId).1 + r * ((g.b1 / 4) * g.u)
        len := (g.b1 / 4) * g.u }

def zsliceAdv (g : Geo) (zb : Nat) : Load :=
  { fetches := (List.range (g.NB0 * g.NB1)).map (zsliceAdvFetch g zb)
    src := fun a x z => decomp3 g.u (zsliceAdvCopies g zb) g.P1 4 a x z }

/-- `read_chunk_range` (loader.py:166-178) -/
def chunkRangeCopies (g : Geo) (minIl minXl minZ ilU xlU zU : Nat) : List Copy :=
  (List.range ilU).flatMap fun i =>
    (List.range xlU).map fun x =>
      { bufStart := (i * xlU * zU + x * zU) * g.u
        fileOff := g.u * (((minIl / 4) + i) * (g.P1 / 4) * (g.P2 / 4) + ((minXl / 4) + x) * (g.P2 / 4) + (minZ / 4))
        len := g.u * zU }

/-- `read_and_decompress_chunk_range(max_il,max_xl,max_z,min_il,min_xl,min_z)` (loader.py:180-199).  The
multithreaded variant decodes the same buffer in `il_units` independent slabs (equal by assumption A1). -/
def chunkRange (g : Geo) (maxIl maxXl maxZ minIl minXl minZ : Nat) : Load :=
  let zU := (maxZ + 3) / 4 - minZ / 4
  let xlU := (maxXl + 3) / 4 - minXl / 4
  let ilU := (maxIl + 3) / 4 - minIl / 4
  { fetches := fetchesOf (chunkRangeCopies g minIl minXl minZ ilU xlU zU)
    src := fun a x z => decomp3 g.u (chunkRangeCopies g minIl minXl minZ ilU xlU zU) (xlU * 4) (zU * 4) a x z }

/-- `read_unshuffle_and_decompress_chunk_range` (loader.py:201-219): every block meeting the box is fetched
whole, decoded with shape `blockshape`, and placed brick by brick -/
def unshuffleFetches (g : Geo) (maxIl maxXl maxZ minIl minXl minZ : Nat) : List (Nat × Nat) :=
  (List.range (cdiv maxIl g.b0 - minIl / g.b0)).flatMap fun ni =>
    (List.range (cdiv maxXl g.b1 - minXl / g.b1)).flatMap fun nx =>
      (List.range (cdiv maxZ g.b2 - minZ / g.b2)).map fun nz =>
        (4096 * (g.NB2 * (g.NB1 * (minIl / g.b0 + ni) + (minXl / g.b1 + nx)) + (minZ / g.b2 + nz)), 4096)

def unshuffle (g : Geo) (maxIl maxXl maxZ minIl minXl minZ : Nat) : Load :=
  { fetches := unshuffleFetches g maxIl maxXl maxZ minIl minXl minZ
    src := fun a x z =>
      -- voxel (a,x,z) of `decompressed` lies in brick (a/b0, x/b1, z/b2); inside it, raster over blockshape/4
      let off := 4096 * (g.NB2 * (g.NB1 * (minIl / g.b0 + a / g.b0) + (minXl / g.b1 + x / g.b1))
                  + (minZ / g.b2 + z / g.b2))
      let cell := (((a % g.b0) / 4) * (g.b1 / 4) + (x % g.b1) / 4) * (g.b2 / 4) + (z % g.b2) / 4
      let byte := off + cell * g.u
      code 64 (if byte % g.u = 0 then some (byte / g.u) else none) (Spec.pos (a % g.b0) (x % g.b1) (z % g.b2)) }

/-- 2D `read_and_decompress_trace_range(min_id, max_id)` (loader.py:62-68), called with max_id = min_id + b1 -/
def traceRangeCopies (g : Geo) (minId maxId : Nat) : List Copy :=
  [{ bufStart := 0, fileOff := g.chunk * (minId / g.b1), len := g.chunk * ((maxId - minId + g.b1 - 1) / g.b1) }]

def traceRange (g : Geo) (minId maxId : Nat) : Load :=
  { fetches := fetchesOf (traceRangeCopies g minId maxId)
    src := fun _ t z => decomp2 g.u (traceRangeCopies g minId maxId) g.P2 t z }

/-- 2D `read_unshuffle_and_decompress_chunk_range_2d(max_id, max_z, min_id, min_z)` (loader.py:70-84) -/
def unshuffle2dFetches (g : Geo) (maxId maxZ minId minZ : Nat) : List (Nat × Nat) :=
  (List.range (cdiv maxId g.b1 - minId / g.b1)).flatMap fun nx =>
    (List.range (cdiv maxZ g.b2 - minZ / g.b2)).map fun nz =>
      (g.chunk * (minId / g.b1 + nx) + 4096 * (minZ / g.b2 + nz), 4096)

def unshuffle2d (g : Geo) (maxId maxZ minId minZ : Nat) : Load :=
  { fetches := unshuffle2dFetches g maxId maxZ minId minZ
    src := fun _ t z =>
      let off := g.chunk * (minId / g.b1 + t / g.b1) + 4096 * (minZ / g.b2 + z / g.b2)
      let cell := ((t % g.b1) / 4) * (g.b2 / 4) + (z % g.b2) / 4
      let byte := off + cell * g.u
      code 16 (if byte % g.u = 0 then some (byte / g.u) else none) (Spec.pos2d (t % g.b1) (z % g.b2)) }

end Loader
end Sgz
