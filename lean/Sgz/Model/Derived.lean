import Sgz.Model.Header
import Sgz.Model.Container
import Sgz.Model.Crop
import Sgz.Model.Reblock
/-!
# Model/Derived — the header of a file derived from another SGZ file (C03, C10, C12)

The cropper (`SgzCropper.regenerate_header`, cropping.py:75-117) and the re-blocker (`convert_to_adv_sgz`,
conversion.py:338-354) copy the source header and patch fixed fields.  `Conformant` is what the file specification asks of
those fields for a 3D file; the closure theorems (`Props/C03`) show that both operations keep it.
-/
namespace Sgz
namespace Derived

/-- the geometry a header states; a compression unit of 64 voxels at `q/4` bits per voxel takes `2q` bytes -/
def geoOf (f : Header.Fields) : Geo :=
  { n0 := f.nIl, n1 := f.nXl, n2 := f.nSamples, b0 := f.b0, b1 := f.b1, b2 := f.b2, u := 2 * f.q }

/-- `regenerate_header`: the fixed fields of the file cropped to box `b`; `popInBox` = populated grid slots inside the box
(`count_nonzero` of the mask there), used when the source is not structured -/
def cropHeader (f : Header.Fields) (b : Crop.Box) (structured : Bool) (popInBox : Nat) : Header.Fields :=
  let lenZ := b.z1 - b.z0
  let lenX := b.x1 - b.x0
  let lenI := b.i1 - b.i0
  { f with
    nSamples := lenZ, nXl := lenX, nIl := lenI
    -- `np.int32(float(zslices[z0]))`: truncation of the start in milliseconds
    zStart := Int.tdiv (f.zStart * 1000 + f.interval * (b.z0 : Int)) 1000
    xl0 := f.xl0 + f.dXl * (b.x0 : Int)
    il0 := f.il0 + f.dIl * (b.i0 : Int)
    dataBlocks := Container.diskBlocks (Crop.outGeo (geoOf f) b) f.q
    arrayBytes := lenX * lenI * 32 / 8
    tracecount := if structured then lenX * lenI else popInBox }

/-- `convert_to_adv_sgz`: block shape and data length change, everything else is copied -/
def reblockHeader (f : Header.Fields) : Header.Fields :=
  { f with b0 := 64, b1 := 64, b2 := 4, dataBlocks := Container.diskBlocks (Reblock.outGeo (geoOf f)) f.q }

end Derived
end Sgz
