import Sgz.Model.Writer
import Sgz.Model.Axes
/-!
# Model/Window — conversion with an inline/crossline ordinal window (C11)

`SegyConverter(file, min_il, max_il, min_xl, max_xl)`: `geom.ilines = range(min_il, max_il)`, `geom.xlines =
range(min_xl, max_xl)` (ordinals into the source axes).  `io_thread_func` reads source inline `a0 + s·b0 + i`, keeps
crosslines `[b0, b1)`, replicates edges *of the window*, and stores header `t` of the source at slot `t_store`.
`g` is the geometry of the **window** (`n0 = a1 − a0`, `n1 = b1 − b0`); `N1` the source's crossline count.
-/
namespace Sgz
namespace Window

structure Win where
  a0 : Nat
  a1 : Nat
  b0 : Nat
  b1 : Nat
deriving Repr, DecidableEq

/-- source coordinate (inline ordinal, crossline ordinal, sample) carried by voxel `(i,x,z)` of plane set `s` of the
windowed conversion (conversion_utils.io_thread_func with a window) -/
def fill (g : Geo) (w : Win) (s i x z : Nat) : Nat × Nat × Nat :=
  let p := Writer.toRead g.n0 g.b0 s
  let il := if i < p then w.a0 + s * g.b0 + i else w.a0 + s * g.b0 + p - 1
  let xl := if x < g.n1 then w.b0 + x else w.b0 + (g.n1 - 1)
  let zz := if z < g.n2 then z else g.n2 - 1
  (il, xl, zz)

/-- `start_trace` of window plane `il` (ordinal inside the window): source trace ordinal of its first kept trace -/
def startTrace (N1 : Nat) (w : Win) (il : Nat) : Nat := (w.a0 + il) * N1 + w.b0

/-- header slot: `t_store = (t_xl − b0) + (t_il − a0)·n1w` with `t_xl = t % N1`, `t_il = t / N1` -/
def tStore (N1 : Nat) (w : Win) (t : Nat) : Nat := (t % N1 - w.b0) + (t / N1 - w.a0) * (w.b1 - w.b0)

/-- first and last stored trace, used by header detection (`get_blank_header_info`) -/
def firstTrace (N1 : Nat) (w : Win) : Nat := w.a0 * N1 + w.b0
def lastTrace (N1 : Nat) (w : Win) : Nat := (w.a1 - 1) * N1 + (w.b1 - 1)

/-- header words of one line axis of a windowed conversion (`make_header`): count `len(geom.lines)`, origin
`axis[geom.lines[0]]`, increment `axis[1] − axis[0]`, where `axis[k] = start + step·k` is the **source** axis and
`[c0, c1)` the window's ordinals on it -/
def axisWords (start step : Int) (c0 c1 : Nat) : Nat × Int × Int := (c1 - c0, start + step * (c0 : Int), step)

/-- the line axis a reader regenerates from those words (`gen_coord_list`; the 32-bit word codec is C05's `axis_roundtrip`) -/
def windowAxis (start step : Int) (c0 c1 : Nat) : List Int :=
  Axes.axis (axisWords start step c0 c1).2.1 (axisWords start step c0 c1).2.2 (axisWords start step c0 c1).1

end Window
end Sgz
