import Sgz.Model.Arith
/-!
# Model/Emul — subscript resolution of the segyio-style accessors (C13)

* `sliceIndices` / `pyRange` — CPython's `slice.indices(len)` and `range(start, stop, step)`;
* `Accessor.getitem` (accessors.py:66-76): ordinal accessors (`trace`, `header`, `depth_slice`);
* `lineSlice` (accessors.py:79-95): line-number slices of `iline` / `xline`;
* `Segyio.lineSlice` — segyio's own resolution (`segyio/line.py`: `sanitize_slice`, `slice.indices(max+1)`, membership
  filter), the behaviour the property asks the emulator to reproduce.
-/
namespace Sgz
namespace Emul

/-- a Python slice; `none` = omitted -/
structure PySlice where
  start : Option Int
  stop  : Option Int
  step  : Option Int
deriving Repr, DecidableEq

/-- `slice(start, stop, step).indices(len)` (CPython `PySlice_AdjustIndices`); `none` = ValueError (step 0) -/
def sliceIndices (s : PySlice) (len : Nat) : Option (Int × Int × Int) :=
  let step := s.step.getD 1
  if step = 0 then none else
  let n : Int := len
  let lower : Int := if step < 0 then -1 else 0
  let upper : Int := if step < 0 then n - 1 else n
  let clamp (v : Int) : Int :=
    if v < 0 then (if v + n < lower then lower else v + n) else (if v > upper then upper else v)
  let start := match s.start with
    | none => if step < 0 then upper else lower
    | some v => clamp v
  let stop := match s.stop with
    | none => if step < 0 then lower else upper
    | some v => clamp v
  some (start, stop, step)

/-- `len(range(start, stop, step))` -/
def rangeLen (start stop step : Int) : Nat :=
  if step > 0 then (if start < stop then ((stop - start - 1) / step + 1).toNat else 0)
  else if step < 0 then (if stop < start then ((start - stop - 1) / (-step) + 1).toNat else 0)
  else 0

/-- `list(range(start, stop, step))` -/
def pyRange (start stop step : Int) : List Int :=
  (List.range (rangeLen start stop step)).map fun (k : Nat) => start + step * (k : Int)

/-- `Accessor.__getitem__`: the ordinals handed to `values_function`; `none` = ValueError -/
def accessorSlice (len : Nat) (s : PySlice) : Option (List Int) :=
  (sliceIndices s len).map fun (a, b, c) => pyRange a b c

/-- `Accessor.__getitem__` with an integer: negative ordinals count from the end (and may still be out of range: the
read method then refuses, C14) -/
def accessorInt (len : Nat) (k : Int) : Int := if k < 0 then (len : Int) + k else k

def maxKey (keys : List Int) : Int := keys.foldl max (keys.headD 0)
def minKey (keys : List Int) : Int := keys.foldl min (keys.headD 0)

/-- `SliceAccessor.__getitem__` with a slice (accessors.py:79-95): the line numbers read, in order -/
def lineSlice (keys : List Int) (s : PySlice) : Option (List Int) :=
  let increasing := match s.step with | none => true | some v => decide (v > 0)
  let start := match s.start with | some v => v | none => if increasing then minKey keys else maxKey keys
  let stop := match s.stop with | some v => v | none => if increasing then maxKey keys + 1 else minKey keys - 1
  (sliceIndices ⟨some start, some stop, s.step⟩ (maxKey keys + 1).toNat).map fun (a, b, c) =>
    (pyRange a b c).filter (keys.contains ·)

end Emul

namespace Segyio

open Emul

/-- `segyio.line.sanitize_slice`; note the truthiness shortcut `all((start, stop, step))` -/
def sanitizeSlice (s : PySlice) (keys : List Int) : PySlice :=
  let truthy (o : Option Int) : Bool := match o with | some v => v != 0 | none => false
  if truthy s.start && truthy s.stop && truthy s.step then s else
  let increasing := match s.step with | none => true | some v => decide (v > 0)
  let start := match s.start with | some v => v | none => if increasing then minKey keys else maxKey keys
  let stop := match s.stop with | some v => v | none => if increasing then maxKey keys + 1 else minKey keys - 1
  ⟨some start, some stop, s.step⟩

/-- `Line.ranges`: `range(*index.indices(max(keys)+1))` filtered by membership -/
def lineSlice (keys : List Int) (s : PySlice) : Option (List Int) :=
  (sliceIndices (sanitizeSlice s keys) (maxKey keys + 1).toNat).map fun (a, b, c) =>
    (pyRange a b c).filter (keys.contains ·)

end Segyio
end Sgz

namespace Sgz
namespace Emul

/-- `SubvolumeAccessor._check_subscripts` for one axis (accessors.py:49-60); `coords` has at least two entries -/
def checkSubscript (coords : List Int) (s : PySlice) : Bool :=
  let c0 := coords.getD 0 0
  let c1 := coords.getD 1 0
  let cl := coords.getD (coords.length - 1) 0
  let d := c1 - c0
  let sign : Int := if d > 0 then 1 else -1
  let first := sign * c0
  let fin := sign * (cl + d)
  (match s.start with | none => true | some v => decide (first ≤ sign * v) && decide (sign * v < fin))
  && (match s.stop with | none => true | some v => decide (first < sign * v) && decide (sign * v ≤ fin))
  && (match s.step with | none => true | some v => v % d == 0)

/-- first index of `coords` equal to `c` (`coord_to_index`) -/
def indexOf (coords : List Int) (c : Int) : Option Nat := coords.findIdx? (· == c)

/-- `_get_index_subscripts`: (start index, index step, stop index); `none` = IndexError -/
def indexSubscript (coords : List Int) (s : PySlice) : Option (Nat × Int × Nat) :=
  let c0 := coords.getD 0 0
  let c1 := coords.getD 1 0
  let cl := coords.getD (coords.length - 1) 0
  let start := match s.start with | none => some 0 | some v => indexOf coords v
  let stop := match s.stop with
    | none => some coords.length
    | some v => if v == cl + c1 - c0 then some coords.length else indexOf coords v
  let step : Int := match s.step with | none => 1 | some v => Int.fdiv v (c1 - c0)
  match start, stop with
  | some a, some b => some (a, step, b)
  | _, _ => none

/-- one axis of `subvolume[…]`: the axis indices returned (`read_subvolume(start, stop)[::step]`), or refusal -/
def subvolumeAxis (coords : List Int) (s : PySlice) : Option (List Int) :=
  if !checkSubscript coords s then none else
  match indexSubscript coords s with
  | none => none
  | some (a, st, b) =>
    -- `read_subvolume` refuses an empty / inverted index range; numpy's `[::st]` refuses step 0
    if b ≤ a then none else
    (sliceIndices ⟨none, none, some st⟩ (b - a)).map fun (x, y, z) => (pyRange x y z).map (· + (a : Int))

end Emul
end Sgz
