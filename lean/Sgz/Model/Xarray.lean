import Sgz.Model.Emul
/-!
# Model/Xarray — `SeismicZfpBackendArray._raw_indexing_method` (sgz_xarray.py:26-50; C02, C07)

xarray hands the backend a key of basic indexers: per axis an integer (the dimension is dropped) or a slice with a positive
step (it decomposes negative steps itself).  The backend reads the bounding box with `read_subvolume` and applies the steps
to the decoded box (`subvolume[::step]`).
-/
namespace Sgz
namespace Xarray
open Emul

inductive Key where
  | idx (k : Int)
  | sl (s : PySlice)
deriving Repr

/-- per axis: bounds `(lo, hi)` of the box to read and the step applied afterwards (`none` = integer key, dimension
dropped); `none` = `ValueError` (step 0) -/
def axisPlan (k : Key) (n : Nat) : Option (Int × Int × Option Int) :=
  match k with
  | .idx k => let k' := if k < 0 then k + (n : Int) else k; some (k', k' + 1, none)
  | .sl s => (sliceIndices s n).map fun (a, b, c) => (a, b, some c)

/-- numpy `a[::c]` on an axis of length `L` (`c > 0`): `⌈L/c⌉` items, item `j` is `a[j·c]` -/
def strided (L : Nat) (c : Nat) : List Nat := (List.range ((L + c - 1) / c)).map (· * c)

/-- the positions of the cube that the result holds along this axis, in order (`[]` = empty selection, nothing read) -/
def axisPositions (k : Key) (n : Nat) : Option (List Int) :=
  (axisPlan k n).map fun (lo, hi, keep) =>
    if hi ≤ lo then [] else
    match keep with
    | none => [lo]
    | some c => (strided (hi - lo).toNat c.toNat).map fun (j : Nat) => lo + (j : Int)

/-- the box handed to `read_subvolume` (`none` when some axis selects nothing: no read at all) -/
def box (ki kx kz : Key) (n0 n1 n2 : Nat) : Option (Option ((Int × Int) × (Int × Int) × (Int × Int))) :=
  match axisPlan ki n0, axisPlan kx n1, axisPlan kz n2 with
  | some (a0, b0, _), some (a1, b1, _), some (a2, b2, _) =>
    some (if b0 ≤ a0 || b1 ≤ a1 || b2 ≤ a2 then none else some ((a0, b0), (a1, b1), (a2, b2)))
  | _, _, _ => none

end Xarray
end Sgz
