/-!
# Model/Arith — padding, mixed-radix helpers, error classes

Mirrors `seismic_zfp/utils.py:pad`.  Core Lean only (no Mathlib): everything under `Sgz/Model` is executable and
is linked into the `sgzmodel` driver that the correspondence check runs against the Python implementation.
-/
namespace Sgz

/-- `utils.pad(orig, multiple)` -/
def pad (n m : Nat) : Nat := if n % m = 0 then n else m * (n / m + 1)

/-- error classes of the public API that the properties distinguish -/
inductive Err where
  | index           -- IndexError
  | dim             -- WrongDimensionalityError
  | value           -- ValueError
  | assertion       -- AssertionError
  | io              -- an I/O failure surfaced to the caller
  | other
deriving Repr, DecidableEq, Inhabited

def Err.toString : Err → String
  | .index => "index" | .dim => "dimensionality" | .value => "value"
  | .assertion => "assertion" | .io => "io" | .other => "other"

instance : ToString Err := ⟨Err.toString⟩

/-- ceil division as the code writes it: `(a + b - 1) // b` -/
def cdiv (a b : Nat) : Nat := (a + b - 1) / b

end Sgz
